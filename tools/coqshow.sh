#!/bin/bash
# usage: coqshow.sh file.v LINE  — compile file up to LINE (exclusive) then Show.
f=$1; n=$2
tmp=$(mktemp /tmp/coqshowXXXX.v)
head -n $((n-1)) "$f" > $tmp
echo "Show. Abort." >> $tmp
cd /verif/coq && timeout 300 coqc -Q model FP -Q gen FP -Q spec FP -Q proofs FP -Q props FP $tmp 2>&1 | tail -${3:-40}
rm -f $tmp ${tmp%.v}.vo ${tmp%.v}.glob ${tmp%.v}.vok ${tmp%.v}.vos /tmp/.$(basename ${tmp%.v}).aux
