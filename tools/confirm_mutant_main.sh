#!/bin/bash
# usage: confirm_mutant_main.sh <mutant dir with patch.diff + demo.rs (a fn main program)> <name>
# Scratch worktree of /repo HEAD: suite green with the patch; the demo's output with and without the patch differs.
d=$1; name=$2
wt=/tmp/mv/$name
mkdir -p /tmp/mv; rm -rf $wt; git -C /repo worktree prune
git -C /repo worktree add --detach $wt HEAD >/dev/null 2>&1 || { echo "$name WORKTREE-FAIL"; exit 1; }
cd $wt; export CARGO_NET_OFFLINE=true CARGO_TARGET_DIR=$wt/target
if ! git apply $d/patch.diff 2>/dev/null; then echo "$name APPLY-FAIL"; cd /; git -C /repo worktree remove --force $wt; exit 0; fi
suite=$(cargo nextest run --workspace --no-fail-fast --offline 2>&1 | grep -E 'Summary|error(\[|:)' | head -2 | tr '\n' ' ')
mkdir -p examples; cp $d/demo.rs examples/demo.rs
cargo run --offline --example demo > /tmp/mv/$name.with.log 2>&1; with=$?
cargo run --offline --release --example demo > /tmp/mv/$name.withrel.log 2>&1; withrel=$?
git apply -R $d/patch.diff
cargo run --offline --example demo > /tmp/mv/$name.without.log 2>&1; without=$?
cargo run --offline --release --example demo > /tmp/mv/$name.withoutrel.log 2>&1; withoutrel=$?
differs=no; diff <(grep -v "Compiling\|Finished\|Running\|warning" /tmp/mv/$name.with.log) <(grep -v "Compiling\|Finished\|Running\|warning" /tmp/mv/$name.without.log) >/dev/null || differs=yes
echo "$name suite=[$suite] demo_exit_with=$with/$withrel demo_exit_without=$without/$withoutrel output_differs=$differs"
cd /; git -C /repo worktree remove --force $wt
