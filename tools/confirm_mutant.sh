#!/bin/bash
# usage: confirm_mutant.sh <mutant dir with patch.diff + demo.rs [+ meta.json]> <name>
# Confirms in a scratch worktree of /repo HEAD: (a) patch applies, suite green with it,
# (b) demo fails with it, (c) demo passes without it.  Prints one summary line.
# Extra cargo flags for the demo (--release, --features ...) are taken from meta.json "demo_cmd".
d=$1; name=$2
wt=/tmp/mv/$name
mkdir -p /tmp/mv
rm -rf $wt; git -C /repo worktree prune
git -C /repo worktree add --detach $wt HEAD >/dev/null 2>&1 || { echo "$name WORKTREE-FAIL"; exit 1; }
cd $wt
export CARGO_NET_OFFLINE=true CARGO_TARGET_DIR=$wt/target
mj=$d/meta.json; [ -f $mj ] || mj=$d/agent_meta.json
extra=$(python3 - "$mj" <<'PY'
import json,sys,re
try:
    m=json.load(open(sys.argv[1]))
except Exception:
    print(""); raise SystemExit
c=m.get("demo_cmd","") or ""
out=[]
if "--release" in c: out.append("--release")
f=re.search(r"--features[ =]+([\w,\- ]+?)(?:\s--|\s*$)", c)
if f: out.append("--features "+f.group(1).strip().replace(" ",","))
print(" ".join(out))
PY
)
rel=""; [ -z "$extra" ] && grep -qi 'release' $d/meta.json 2>/dev/null && rel="--release"
if ! git apply $d/patch.diff 2>/dev/null; then echo "$name APPLY-FAIL"; cd /; git -C /repo worktree remove --force $wt; exit 0; fi
suite=$(cargo nextest run --workspace --no-fail-fast --offline 2>&1 | grep -E 'Summary|error(\[|:)' | head -2 | tr '\n' ' ')
cp $d/demo.rs tests/demo.rs
cargo test --offline --test demo $extra > /tmp/mv/$name.with.log 2>&1; with=$?
if [ -n "$rel" ]; then cargo test --offline --release --test demo > /tmp/mv/$name.withrel.log 2>&1; withrel=$?; else withrel=-; fi
git apply -R $d/patch.diff
cargo test --offline --test demo $extra > /tmp/mv/$name.without.log 2>&1; without=$?
if [ -n "$rel" ]; then cargo test --offline --release --test demo > /tmp/mv/$name.withoutrel.log 2>&1; withoutrel=$?; else withoutrel=-; fi
echo "$name extra=[$extra] suite=[$suite] demo_with=$with demo_with_release=$withrel demo_without=$without demo_without_release=$withoutrel"
cd /; git -C /repo worktree remove --force $wt
