#!/bin/bash
# usage: confirm_mutant.sh <mutant dir with patch.diff + demo.rs [+ meta.json]> <name>
# Confirms in a scratch worktree of /repo HEAD: (a) patch applies, suite green with it,
# (b) demo fails with it, (c) demo passes without it.  Prints one summary line.
d=$1; name=$2
wt=/tmp/mv/$name
rm -rf $wt; git -C /repo worktree prune
git -C /repo worktree add --detach $wt HEAD >/dev/null 2>&1 || { echo "$name WORKTREE-FAIL"; exit 1; }
cd $wt
export CARGO_NET_OFFLINE=true CARGO_TARGET_DIR=$wt/target
rel=""; grep -qi 'release' $d/meta.json 2>/dev/null && rel="--release"
if ! git apply $d/patch.diff 2>/dev/null; then echo "$name APPLY-FAIL"; cd /; git -C /repo worktree remove --force $wt; exit 0; fi
suite=$(cargo nextest run --workspace --no-fail-fast --offline 2>&1 | grep -E 'Summary|error(\[|:)' | head -2 | tr '\n' ' ')
cp $d/demo.rs tests/demo.rs
cargo test --offline --test demo > /tmp/mv/$name.with.log 2>&1; with=$?
if [ -n "$rel" ]; then cargo test --offline --release --test demo > /tmp/mv/$name.withrel.log 2>&1; withrel=$?; else withrel=-; fi
git apply -R $d/patch.diff
cargo test --offline --test demo > /tmp/mv/$name.without.log 2>&1; without=$?
if [ -n "$rel" ]; then cargo test --offline --release --test demo > /tmp/mv/$name.withoutrel.log 2>&1; withoutrel=$?; else withoutrel=-; fi
echo "$name suite=[$suite] demo_with=$with demo_with_release=$withrel demo_without=$without demo_without_release=$withoutrel"
cd /; git -C /repo worktree remove --force $wt
