#!/usr/bin/env python3
"""validate every evidence/<id>.json against the schema and the proof-level rules; exit 1 on a problem
   (run before committing: a record written while /repo was modified or while a build was interfered
   with must never be committed)"""
import glob, json, os, sys
ROOT = os.path.dirname(os.path.dirname(os.path.abspath(__file__)))
try:
    import jsonschema
except ImportError:
    sys.path.insert(0, "/opt/veriftools/pyvenv/lib/python3.11/site-packages")
    import jsonschema
sch = json.load(open("/root/.vp/EVIDENCE.schema.json"))
man = json.load(open(os.path.join(ROOT, "MANIFEST.json")))
bad = 0
for c in man["checks"]:
    f = os.path.join(ROOT, c["evidence_file"])
    if not os.path.exists(f):
        print("missing", f); bad += 1; continue
    e = json.load(open(f))
    errs = list(jsonschema.Draft202012Validator(sch).iter_errors(e))
    cov = e.get("coverage", {})
    probs = [x.message[:100] for x in errs]
    if cov.get("discharged") != cov.get("obligations") or not cov.get("proof_ok"):
        probs.append("discharged %s of %s, proof_ok=%s" % (cov.get("discharged"), cov.get("obligations"), cov.get("proof_ok")))
    if e.get("violations"):
        probs.append("violations=%s" % e.get("violations"))
    if cov.get("source_files_changed_since_model"):
        probs.append("written against a modified /repo: %s" % cov.get("source_files_changed_since_model"))
    if probs:
        bad += 1
        print(c["property_id"], probs)
print("evidence files checked: %d, problems: %d" % (len(man["checks"]), bad))
sys.exit(1 if bad else 0)
