#!/usr/bin/env python3
"""Writes coq/proofs/GenTieInt{Add,Mul,Div,Rem,Cmp}.v: for each of the nine integer operand types and both operand
orders, the lemma that the macro-generated integer-operand form as translated from the source (coq/gen/GenInt.v) equals
the model function of IntForms.v / Cmp.v.  The lemma files are static text (committed); this script only spares typing
the same statement nine times.  usage: gen_tie_int.py [output directory]"""
import os, sys
OUT = sys.argv[1] if len(sys.argv) > 1 else os.path.join(os.path.dirname(os.path.abspath(__file__)), "..", "coq", "proofs")
TYPES = ["u8", "i8", "u16", "i16", "u32", "i32", "u64", "i64", "i128"]
ITY = {t: t[0].upper() + t[1:] for t in TYPES}

HEAD = '''(* %s - GENERATED ONCE by tools/gen_tie_int.py (static text, committed): the integer-operand forms of %s,
   as translated from /repo's current source (gen/GenInt.v), equal the model (IntForms.v%s). *)
From FP Require Import Machine SrcConsts Pow10 WideDiv Rounding Arith Cmp IntForms GenCore GenDec GenInt MachineFacts.
From FP Require Import GenTieTac GenTiePow GenTieIntBase%s.

'''

def lemma(name, binders, hyps, lhs, rhs, unfolds, tac):
    st = "Lemma %s %s :\n  %s%s = %s.\nProof.\n  intros. unfold %s. %s\nQed.\n" % (
        name, binders, "".join(h + " ->\n  " for h in hyps), lhs, rhs, ", ".join(unfolds), tac)
    return st

def main():
    files = {}
    # ---------------- add / sub
    body = []
    for t in TYPES:
        T = ITY[t]
        for (tr, m, sub) in [("Add", "add", "false"), ("Sub", "sub", "true")]:
            body.append(lemma("tie_%s_%s" % (tr, t), "pf d i", [], "g_%s_%s_%s pf d i" % (tr, t, m), "di_addsub %s d i" % sub,
                              ["g_%s_%s_%s" % (tr, t, m), "di_addsub"], "int_fin."))
            body.append(lemma("tie_%s_by_%s" % (tr, t), "pf i d", [], "g_%s_by_%s_%s pf i d" % (tr, t, m), "id_addsub %s i d" % sub,
                              ["g_%s_by_%s_%s" % (tr, t, m), "id_addsub"], "int_fin."))
        for (tr, m, sub) in [("CheckedAdd", "checked_add", "false"), ("CheckedSub", "checked_sub", "true")]:
            body.append(lemma("tie_%s_%s" % (tr, t), "pf d i", [], "g_%s_%s_%s pf d i" % (tr, t, m), "di_checked_addsub %s d i" % sub,
                              ["g_%s_%s_%s" % (tr, t, m), "di_checked_addsub"], "int_fin."))
            body.append(lemma("tie_%s_by_%s" % (tr, t), "pf i d", [], "g_%s_by_%s_%s pf i d" % (tr, t, m), "id_checked_addsub %s i d" % sub,
                              ["g_%s_by_%s_%s" % (tr, t, m), "id_checked_addsub"], "int_fin."))
    files["GenTieIntAdd.v"] = ("+ - checked_add checked_sub", "", "", body)
    # ---------------- mul
    body = []
    for t in TYPES:
        body.append(lemma("tie_Mul_%s" % t, "pf d i", [], "g_Mul_%s_mul pf d i" % t, "di_mul d i", ["g_Mul_%s_mul" % t, "di_mul"], "int_fin."))
        body.append(lemma("tie_Mul_by_%s" % t, "pf i d", [], "g_Mul_by_%s_mul pf i d" % t, "id_mul i d", ["g_Mul_by_%s_mul" % t, "id_mul"], "int_fin."))
        body.append(lemma("tie_CheckedMul_%s" % t, "pf d i", [], "g_CheckedMul_%s_checked_mul pf d i" % t, "di_checked_mul d i",
                          ["g_CheckedMul_%s_checked_mul" % t, "di_checked_mul"], "int_fin."))
        body.append(lemma("tie_CheckedMul_by_%s" % t, "pf i d", [], "g_CheckedMul_by_%s_checked_mul pf i d" % t, "id_checked_mul i d",
                          ["g_CheckedMul_by_%s_checked_mul" % t, "id_checked_mul"], "int_fin."))
    files["GenTieIntMul.v"] = ("* checked_mul", "", "", body)
    # ---------------- div
    body = []
    for t in TYPES:
        T = ITY[t]
        hy = ["wf d = true", "in_range %s i = true" % T]
        body.append(lemma("tie_Div_%s" % t, "pf m d i", hy, "g_Div_%s_div pf m d i" % t, "di_div pf m d i", ["g_Div_%s_div" % t, "di_div"], "div_fin %s." % T))
        body.append(lemma("tie_Div_by_%s" % t, "pf m i d", hy, "g_Div_by_%s_div pf m i d" % t, "id_div pf m i d", ["g_Div_by_%s_div" % t, "id_div"], "div_fin %s." % T))
        body.append(lemma("tie_CheckedDiv_%s" % t, "pf m d i", hy, "g_CheckedDiv_%s_checked_div pf m d i" % t, "di_checked_div pf m d i",
                          ["g_CheckedDiv_%s_checked_div" % t, "di_checked_div"], "div_fin %s." % T))
        body.append(lemma("tie_CheckedDiv_by_%s" % t, "pf m i d", hy, "g_CheckedDiv_by_%s_checked_div pf m i d" % t, "id_checked_div pf m i d",
                          ["g_CheckedDiv_by_%s_checked_div" % t, "id_checked_div"], "div_fin %s." % T))
        body.append(lemma("tie_DivRounded_%s" % t, "pf m d i n", hy, "g_DivRounded_%s_div_rounded pf m d i n" % t, "di_div_rounded pf m d i n",
                          ["g_DivRounded_%s_div_rounded" % t, "di_div_rounded"], "div_fin %s." % T))
        body.append(lemma("tie_DivRounded_by_%s" % t, "pf m i d n", hy, "g_DivRounded_by_%s_div_rounded pf m i d n" % t, "id_div_rounded pf m i d n",
                          ["g_DivRounded_by_%s_div_rounded" % t, "id_div_rounded"], "div_fin %s." % T))
    files["GenTieIntDiv.v"] = ("/ checked_div div_rounded", "", " GenTieWide GenTieRound GenTieDecMul GenTieDecDiv", body)
    # ---------------- rem
    body = []
    for t in TYPES:
        T = ITY[t]
        hy = ["wf d = true", "in_range %s i = true" % T]
        body.append(lemma("tie_Rem_%s" % t, "pf d i", hy, "g_Rem_%s_rem pf d i" % t, "di_rem d i", ["g_Rem_%s_rem" % t, "di_rem", "di_checked_rem"], "rem_fin."))
        body.append(lemma("tie_Rem_by_%s" % t, "pf i d", hy, "g_Rem_by_%s_rem pf i d" % t, "id_rem i d", ["g_Rem_by_%s_rem" % t, "id_rem", "id_checked_rem"], "rem_fin."))
        body.append(lemma("tie_CheckedRem_%s" % t, "pf d i", hy, "g_CheckedRem_%s_checked_rem pf d i" % t, "di_checked_rem d i",
                          ["g_CheckedRem_%s_checked_rem" % t, "di_checked_rem"], "rem_fin."))
        body.append(lemma("tie_CheckedRem_by_%s" % t, "pf i d", hy, "g_CheckedRem_by_%s_checked_rem pf i d" % t, "id_checked_rem i d",
                          ["g_CheckedRem_by_%s_checked_rem" % t, "id_checked_rem"], "rem_fin."))
    files["GenTieIntRem.v"] = ("% checked_rem", "", " GenTieDecRem", body)
    # ---------------- cmp
    body = []
    for t in TYPES:
        T = ITY[t]
        body.append(lemma("tie_PartialEq_%s" % t, "pf d i", [], "g_PartialEq_%s_eq pf d i" % t, "di_eq %s d i" % T, ["g_PartialEq_%s_eq" % t, "di_eq"], "cmp_fin."))
        body.append(lemma("tie_PartialOrd_%s" % t, "pf d i", [], "g_PartialOrd_%s_partial_cmp pf d i" % t, "di_partial_cmp %s d i" % T,
                          ["g_PartialOrd_%s_partial_cmp" % t, "di_partial_cmp"], "cmp_fin."))
        body.append(lemma("tie_PartialOrd_by_%s" % t, "pf i d", [], "g_PartialOrd_by_%s_partial_cmp pf i d" % t, "id_partial_cmp %s i d" % T,
                          ["g_PartialOrd_by_%s_partial_cmp" % t, "id_partial_cmp"], "cmp_fin."))
    files["GenTieIntCmp.v"] = ("== and partial_cmp with an integer", ", Cmp.v", "", body)

    TACS = {
        "GenTieIntAdd.v": "", "GenTieIntMul.v": "",
        "GenTieIntCmp.v": '''
Ltac cmp_fin := unfold_helpers_int; unfold g_Decimal_is_negative, g_Decimal_is_positive, g_Decimal_coefficient, is_negative, is_positive in *;
  cbn [signed negb andb]; to_model_pow;
  first [ solve [rf]
        | solve [repeat (cbv beta iota zeta; cbn [bind]; try to_model_pow; tie2_step); cbn [bind negb andb orb option_map obind]; try fin] ].
''',
        "GenTieIntDiv.v": '''
Ltac rng T :=
  first [ assumption | apply wf_u8; assumption | apply wf_in_range; assumption
        | (apply (int_in_i128 T); [cbn; tauto | assumption]) | (apply u8_iff; lia) | reflexivity | (vm_compute; split; discriminate) | lia ].
Ltac div_model T :=
  try to_model;
  repeat match goal with
  | |- context [g_checked_div_rounded ?pf ?m ?cx ?px ?cy ?py ?n] =>
      rewrite (tie_checked_div_rounded pf m cx px cy py n) by rng T
  | |- context [g_normalize ?pf ?c ?n] => rewrite (tie_normalize pf c n) by rng T
  end.
Ltac div_fin T := unfold_helpers_int; unfold g_Decimal_eq_zero, g_Decimal_n_frac_digits, g_Decimal_coefficient, div_tail, or_panic, DZERO in *;
  change g_Decimal_eq_one with (fun (_ : profile) => eq_one); cbv beta;
  change g_MAX_N_FRAC_DIGITS with MAX_N_FRAC_DIGITS; unfold eq_zero;
  repeat (cbv beta iota zeta; cbn [bind fst snd]; div_model T; tie2_step); cbn [bind negb andb orb option_map obind fst snd]; try fin.
''',
        "GenTieIntRem.v": '''
Ltac rem_model :=
  try to_model_pow;
  repeat match goal with
  | |- context [g_rem ?pf ?cx ?px ?cy ?py] =>
      rewrite (tie_rem_core pf cx px cy py) by (first [ lia | (match goal with H : wf ?d = true |- _ => apply wf_iff in H end; lia) ])
  end.
Ltac rem_fin := unfold_helpers_int; unfold g_Decimal_eq_zero, g_Decimal_n_frac_digits, g_Decimal_coefficient, or_panic, DZERO, rem_result in *;
  change g_Decimal_eq_one with (fun (_ : profile) => eq_one); change g_Decimal_fract with (fun (_ : profile) => dec_fract); cbv beta;
  unfold eq_zero;
  repeat (cbv beta iota zeta; cbn [bind]; rem_model; tie2_step); cbn [bind negb andb orb option_map obind]; try fin;
  try (unfold rem_result in *; repeat match goal with a : option (Z * Z) |- _ => destruct a as [[? ?]|] end; cbn [option_map] in *; congruence).
''',
    }
    INTFIN = ''
    for fn, (what, also, imports, body) in files.items():
        text = HEAD % (fn, what, also, imports) + INTFIN + TACS[fn] + "\n" + "\n".join(body)
        open(os.path.join(OUT, fn), "w").write(text)
        print(fn, len(body), "lemmas")

main()
