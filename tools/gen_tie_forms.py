#!/usr/bin/env python3
"""Writes coq/proofs/GenTieIntForms.v (static text, committed): dispatchers from an integer type tag to the translated
integer-operand forms, and the theorem that each such form computes what the translated Decimal/Decimal function computes
on the integer converted to a Decimal - property C17 stated about the translated source."""
import os, sys
OUT = os.path.join(os.path.dirname(os.path.abspath(__file__)), "..", "coq", "proofs", "GenTieIntForms.v")
TYPES = ["u8", "i8", "u16", "i16", "u32", "i32", "u64", "i64", "i128"]
ITY = {t: t[0].upper() + t[1:] for t in TYPES}
OPS = [  # name, generated suffix (Decimal op int), (int op Decimal), arguments kind
    ("add", "Add_%s_add", "Add_by_%s_add", "p"), ("sub", "Sub_%s_sub", "Sub_by_%s_sub", "p"),
    ("cadd", "CheckedAdd_%s_checked_add", "CheckedAdd_by_%s_checked_add", "p"), ("csub", "CheckedSub_%s_checked_sub", "CheckedSub_by_%s_checked_sub", "p"),
    ("div", "Div_%s_div", "Div_by_%s_div", "pm"), ("cdiv", "CheckedDiv_%s_checked_div", "CheckedDiv_by_%s_checked_div", "pm"),
    ("rem", "Rem_%s_rem", "Rem_by_%s_rem", "p"), ("crem", "CheckedRem_%s_checked_rem", "CheckedRem_by_%s_checked_rem", "p"),
    ("pcmp", "PartialOrd_%s_partial_cmp", "PartialOrd_by_%s_partial_cmp", "p"),
]
RET = {"add": "dec", "sub": "dec", "cadd": "option dec", "csub": "option dec", "div": "dec", "cdiv": "option dec", "rem": "dec",
       "crem": "option dec", "pcmp": "option comparison"}
out = ['''(* GenTieIntForms.v - GENERATED ONCE by tools/gen_tie_forms.py (static text, committed).  Property C17 about the translated
   source: an operator applied to a Decimal and a primitive integer (either order, each of the nine integer types) computes
   what the Decimal/Decimal operator computes on the integer converted to a Decimal. *)
From FP Require Import Machine SrcConsts Pow10 WideDiv Rounding Arith Cmp IntForms GenCore GenDec GenInt MachineFacts.
From FP Require Import AddSubFacts DivFacts RemFacts FormsFacts.
From FP Require Import GenTieTac GenTiePow GenTieWide GenTieRound GenTieDecMul GenTieDecDiv GenTieDecUn GenTieDecCmp GenTieDecRem.
From FP Require Import GenTieIntBase GenTieIntAdd GenTieIntDiv GenTieIntRem GenTieIntCmp.

Definition int_types : list ity := [U8; I8; U16; I16; U32; I32; U64; I64; I128].
''']
for name, di, idf, kind in OPS:
    m = " (m : mode)" if kind == "pm" else ""; ma = " m" if kind == "pm" else ""
    out.append("Definition src_di_%s (t : ity) (pf : profile)%s (d : dec) (i : Z) : res (%s) :=\n  match t with\n%s\n  | _ => Panic\n  end." % (
        name, m, RET[name], "\n".join("  | %s => g_%s pf%s d i" % (ITY[t], di % t, ma) for t in TYPES)))
    out.append("Definition src_id_%s (t : ity) (pf : profile)%s (i : Z) (d : dec) : res (%s) :=\n  match t with\n%s\n  | _ => Panic\n  end.\n" % (
        name, m, RET[name], "\n".join("  | %s => g_%s pf%s i d" % (ITY[t], idf % t, ma) for t in TYPES)))
out.append('''Lemma wf_int i : - MAXC <= i <= MAXC -> wf (mkdec i 0) = true.
Proof. intros H. apply wf_iff. cbn [coeff nfd]. lia. Qed.

Ltac each_type Ht := cbn [In int_types] in Ht; repeat (destruct Ht as [<-|Ht]; [|]); try contradiction.

Theorem src_addsub_forms t pf d i : In t int_types -> wf d = true -> - MAXC <= i <= MAXC ->
  src_di_add t pf d i = g_Add_add pf d (mkdec i 0) /\\ src_id_add t pf i d = g_Add_add pf (mkdec i 0) d /\\
  src_di_sub t pf d i = g_Sub_sub pf d (mkdec i 0) /\\ src_id_sub t pf i d = g_Sub_sub pf (mkdec i 0) d /\\
  src_di_cadd t pf d i = g_CheckedAdd_checked_add pf d (mkdec i 0) /\\ src_id_cadd t pf i d = g_CheckedAdd_checked_add pf (mkdec i 0) d /\\
  src_di_csub t pf d i = g_CheckedSub_checked_sub pf d (mkdec i 0) /\\ src_id_csub t pf i d = g_CheckedSub_checked_sub pf (mkdec i 0) d.
Proof.
  intros Ht Hd Hi. pose proof (wf_int i Hi) as Hw. pose proof (proj1 (wf_iff _) Hd) as Bd.
  rewrite !tie_add, !tie_sub, !tie_checked_add, !tie_checked_sub by assumption.
  unfold dec_add, dec_sub, dec_checked_add, dec_checked_sub.
  destruct (di_addsub_eq false d i ltac:(lia)) as [A1 A2]. destruct (id_addsub_eq false i d ltac:(lia)) as [A3 A4].
  destruct (di_addsub_eq true d i ltac:(lia)) as [S1 S2]. destruct (id_addsub_eq true i d ltac:(lia)) as [S3 S4].
  rewrite <- A1, <- A2, <- A3, <- A4, <- S1, <- S2, <- S3, <- S4.
  each_type Ht; cbn [src_di_add src_id_add src_di_sub src_id_sub src_di_cadd src_id_cadd src_di_csub src_id_csub];
  repeat split; first [ apply tie_Add_u8 | apply tie_Add_by_u8
    | apply tie_Sub_u8 | apply tie_Sub_by_u8
    | apply tie_CheckedAdd_u8 | apply tie_CheckedAdd_by_u8
    | apply tie_CheckedSub_u8 | apply tie_CheckedSub_by_u8
    | apply tie_Add_i8 | apply tie_Add_by_i8
    | apply tie_Sub_i8 | apply tie_Sub_by_i8
    | apply tie_CheckedAdd_i8 | apply tie_CheckedAdd_by_i8
    | apply tie_CheckedSub_i8 | apply tie_CheckedSub_by_i8
    | apply tie_Add_u16 | apply tie_Add_by_u16
    | apply tie_Sub_u16 | apply tie_Sub_by_u16
    | apply tie_CheckedAdd_u16 | apply tie_CheckedAdd_by_u16
    | apply tie_CheckedSub_u16 | apply tie_CheckedSub_by_u16
    | apply tie_Add_i16 | apply tie_Add_by_i16
    | apply tie_Sub_i16 | apply tie_Sub_by_i16
    | apply tie_CheckedAdd_i16 | apply tie_CheckedAdd_by_i16
    | apply tie_CheckedSub_i16 | apply tie_CheckedSub_by_i16
    | apply tie_Add_u32 | apply tie_Add_by_u32
    | apply tie_Sub_u32 | apply tie_Sub_by_u32
    | apply tie_CheckedAdd_u32 | apply tie_CheckedAdd_by_u32
    | apply tie_CheckedSub_u32 | apply tie_CheckedSub_by_u32
    | apply tie_Add_i32 | apply tie_Add_by_i32
    | apply tie_Sub_i32 | apply tie_Sub_by_i32
    | apply tie_CheckedAdd_i32 | apply tie_CheckedAdd_by_i32
    | apply tie_CheckedSub_i32 | apply tie_CheckedSub_by_i32
    | apply tie_Add_u64 | apply tie_Add_by_u64
    | apply tie_Sub_u64 | apply tie_Sub_by_u64
    | apply tie_CheckedAdd_u64 | apply tie_CheckedAdd_by_u64
    | apply tie_CheckedSub_u64 | apply tie_CheckedSub_by_u64
    | apply tie_Add_i64 | apply tie_Add_by_i64
    | apply tie_Sub_i64 | apply tie_Sub_by_i64
    | apply tie_CheckedAdd_i64 | apply tie_CheckedAdd_by_i64
    | apply tie_CheckedSub_i64 | apply tie_CheckedSub_by_i64
    | apply tie_Add_i128 | apply tie_Add_by_i128
    | apply tie_Sub_i128 | apply tie_Sub_by_i128
    | apply tie_CheckedAdd_i128 | apply tie_CheckedAdd_by_i128
    | apply tie_CheckedSub_i128 | apply tie_CheckedSub_by_i128 ].
Qed.

Theorem src_div_rem_forms t pf m d i : In t int_types -> wf d = true -> in_range t i = true -> - MAXC <= i <= MAXC ->
  src_di_div t pf m d i = g_Div_div pf m d (mkdec i 0) /\\ src_id_div t pf m i d = g_Div_div pf m (mkdec i 0) d /\\
  src_di_cdiv t pf m d i = g_CheckedDiv_checked_div pf m d (mkdec i 0) /\\ src_id_cdiv t pf m i d = g_CheckedDiv_checked_div pf m (mkdec i 0) d /\\
  src_di_rem t pf d i = g_Rem_rem pf d (mkdec i 0) /\\ src_id_rem t pf i d = g_Rem_rem pf (mkdec i 0) d /\\
  src_di_crem t pf d i = g_CheckedRem_checked_rem pf d (mkdec i 0) /\\ src_id_crem t pf i d = g_CheckedRem_checked_rem pf (mkdec i 0) d.
Proof.
  intros Ht Hd Hr Hi. pose proof (wf_int i Hi) as Hw.
  rewrite !tie_div, !tie_checked_div, !tie_rem, !tie_checked_rem by assumption.
  destruct (di_div_eq pf m d i) as [A1 A2]. destruct (id_div_eq pf m i d) as [A3 A4].
  destruct (di_rem_eq d i) as [R1 R2]. destruct (id_rem_eq i d) as [R3 R4].
  rewrite <- A1, <- A2, <- A3, <- A4, <- R1, <- R2, <- R3, <- R4.
  each_type Ht; cbn [src_di_div src_id_div src_di_cdiv src_id_cdiv src_di_rem src_id_rem src_di_crem src_id_crem];
  repeat split; first [ apply tie_Div_u8; assumption | apply tie_Div_by_u8; assumption
    | apply tie_CheckedDiv_u8; assumption | apply tie_CheckedDiv_by_u8; assumption
    | apply tie_Rem_u8; assumption | apply tie_Rem_by_u8; assumption
    | apply tie_CheckedRem_u8; assumption | apply tie_CheckedRem_by_u8; assumption
    | apply tie_Div_i8; assumption | apply tie_Div_by_i8; assumption
    | apply tie_CheckedDiv_i8; assumption | apply tie_CheckedDiv_by_i8; assumption
    | apply tie_Rem_i8; assumption | apply tie_Rem_by_i8; assumption
    | apply tie_CheckedRem_i8; assumption | apply tie_CheckedRem_by_i8; assumption
    | apply tie_Div_u16; assumption | apply tie_Div_by_u16; assumption
    | apply tie_CheckedDiv_u16; assumption | apply tie_CheckedDiv_by_u16; assumption
    | apply tie_Rem_u16; assumption | apply tie_Rem_by_u16; assumption
    | apply tie_CheckedRem_u16; assumption | apply tie_CheckedRem_by_u16; assumption
    | apply tie_Div_i16; assumption | apply tie_Div_by_i16; assumption
    | apply tie_CheckedDiv_i16; assumption | apply tie_CheckedDiv_by_i16; assumption
    | apply tie_Rem_i16; assumption | apply tie_Rem_by_i16; assumption
    | apply tie_CheckedRem_i16; assumption | apply tie_CheckedRem_by_i16; assumption
    | apply tie_Div_u32; assumption | apply tie_Div_by_u32; assumption
    | apply tie_CheckedDiv_u32; assumption | apply tie_CheckedDiv_by_u32; assumption
    | apply tie_Rem_u32; assumption | apply tie_Rem_by_u32; assumption
    | apply tie_CheckedRem_u32; assumption | apply tie_CheckedRem_by_u32; assumption
    | apply tie_Div_i32; assumption | apply tie_Div_by_i32; assumption
    | apply tie_CheckedDiv_i32; assumption | apply tie_CheckedDiv_by_i32; assumption
    | apply tie_Rem_i32; assumption | apply tie_Rem_by_i32; assumption
    | apply tie_CheckedRem_i32; assumption | apply tie_CheckedRem_by_i32; assumption
    | apply tie_Div_u64; assumption | apply tie_Div_by_u64; assumption
    | apply tie_CheckedDiv_u64; assumption | apply tie_CheckedDiv_by_u64; assumption
    | apply tie_Rem_u64; assumption | apply tie_Rem_by_u64; assumption
    | apply tie_CheckedRem_u64; assumption | apply tie_CheckedRem_by_u64; assumption
    | apply tie_Div_i64; assumption | apply tie_Div_by_i64; assumption
    | apply tie_CheckedDiv_i64; assumption | apply tie_CheckedDiv_by_i64; assumption
    | apply tie_Rem_i64; assumption | apply tie_Rem_by_i64; assumption
    | apply tie_CheckedRem_i64; assumption | apply tie_CheckedRem_by_i64; assumption
    | apply tie_Div_i128; assumption | apply tie_Div_by_i128; assumption
    | apply tie_CheckedDiv_i128; assumption | apply tie_CheckedDiv_by_i128; assumption
    | apply tie_Rem_i128; assumption | apply tie_Rem_by_i128; assumption
    | apply tie_CheckedRem_i128; assumption | apply tie_CheckedRem_by_i128; assumption ].
Qed.

Theorem src_cmp_forms t pf d i : In t int_types -> wf d = true -> in_range t i = true -> - MAXC <= i <= MAXC ->
  src_di_pcmp t pf d i = g_PartialOrd_partial_cmp pf d (mkdec i 0) /\\
  src_id_pcmp t pf i d = g_PartialOrd_partial_cmp pf (mkdec i 0) d.
Proof.
  intros Ht Hd Hr Hi. pose proof (wf_int i Hi) as Hw.
  rewrite !tie_partial_cmp by assumption.
  assert (Hs : signed t = false -> 0 <= i).
  { intros Hs. apply in_range_iff in Hr. unfold tmin in Hr. rewrite Hs in Hr. lia. }
  destruct (cmp_forms t d i Hd Hi Hs) as (C1 & C2 & _). rewrite <- C1, <- C2.
  each_type Ht; cbn [src_di_pcmp src_id_pcmp];
  repeat split; first [ apply tie_PartialOrd_u8 | apply tie_PartialOrd_by_u8
    | apply tie_PartialOrd_i8 | apply tie_PartialOrd_by_i8
    | apply tie_PartialOrd_u16 | apply tie_PartialOrd_by_u16
    | apply tie_PartialOrd_i16 | apply tie_PartialOrd_by_i16
    | apply tie_PartialOrd_u32 | apply tie_PartialOrd_by_u32
    | apply tie_PartialOrd_i32 | apply tie_PartialOrd_by_i32
    | apply tie_PartialOrd_u64 | apply tie_PartialOrd_by_u64
    | apply tie_PartialOrd_i64 | apply tie_PartialOrd_by_i64
    | apply tie_PartialOrd_i128 | apply tie_PartialOrd_by_i128 ].
Qed.
''')
open(OUT, "w").write("\n".join(out))
print("written", OUT)
