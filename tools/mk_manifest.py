#!/usr/bin/env python3
"""Writes /verif/MANIFEST.json from the table below (kept in one place so that the
manifest is always valid and current)."""
import json, os
ROOT = os.path.dirname(os.path.dirname(os.path.abspath(__file__)))

NOTE = ("Trusted: Coq 8.16.1 kernel; no axioms (Print Assumptions of every property theorem must be 'Closed under the global "
        "context'); hand-written Gallina model tied to /repo by (a) constants translator regenerating coq/gen/SrcConsts.v on every "
        "run and (b) correspondence run of the extracted model (ExtrOcamlBasic only) against the Rust harness on corpus + atlas + "
        "seeded structured cases; rustc semantics of primitive integer operations. See DESIGN.md §6.")

CHECKS = {
    "C05": ("proof", "unbounded theorem: model of round/checked_round/i128_div_rounded = specification rnd for all profiles, modes, "
            "well-formed Decimals and all i8 n; the implementation is tied to the model by the correspondence run (all (p,n) pairs, "
            "all remainder classes x last digits x signs x modes) and judged by the extracted specification",
            "Coq proof (model = spec, all inputs) + extracted-model correspondence + extracted-spec oracle", "§3 C05"),
}

CHECKS.update({
    "C01": ("proof", "unbounded theorem: the models of + - checked_add checked_sub (Decimal/Decimal and both integer-operand bodies) are "
            "functions of the specification (exact sum at scale max(p,q) iff aligned operands and sum fit i128, else panic / None, "
            "checked_ never panics) for all well-formed operands and all i128 integer operands; implementation tied by correspondence "
            "(all 361 scale pairs, boundary sums at both i128 ends, all 9 integer types)",
            "Coq proof (model = spec, all inputs) + extracted-model correspondence + extracted-spec oracle", "§3 C01"),
    "C08": ("proof", "unbounded theorems: partial_cmp = Some(value order), eq = value equality, all derived operators, min/max, and the "
            "four integer-comparison macro bodies for every integer of every type incl. alignment overflow; order laws proved on the "
            "value order; with feature rkyv the archived comparison impls are the same macro body (same model) and archive/validate/deserialize identity, accessors and all archived/archived, archived/Decimal, Decimal/archived comparisons are compared with the Decimal results on every run, in the derived and in the hand-written packed layout (exploration, partial)",
            "Coq proof (model = spec, all inputs; order laws) + extracted-model correspondence + extracted-spec oracle", "§3 C08"),
    "C14": ("proof", "unbounded theorems: T::try_from(Decimal) for the ten integer types = specification (Ok iff integral and in range, "
            "NotAnIntValue first, ValueOutOfRange otherwise); From<int>, TryFrom<u128>",
            "Coq proof (model = spec, all inputs) + extracted-model correspondence + extracted-spec oracle", "§3 C14"),
    "C15": ("proof", "unbounded theorems: floor/ceil/trunc/fract/abs/neg/sign predicates = specification; log10 bit trick = floor(log10) "
            "on all 0<v<2^128 (less_than_5 by complete sweep of 1..99999 inside Coq, cascade by proof); magnitude incl. zero; the num-traits forwarders "
            "(Zero/One/Signed/Num) are compared with the inherent methods on every run in a build with the feature (exploration)",
            "Coq proof (model = spec, all inputs; finite sweep by vm_compute for the 17-bit kernel) + correspondence + oracle", "§3 C15"),
})

CHECKS.update({
    "C18": ("proof", "unbounded theorem: the macro's and from_str's exponent foldings agree for every i128 coefficient and isize exponent, "
            "and Dec!(s) = from_str(s) on the model for every byte string (str_to_dec's range is a theorem of C06); the compile-time half (rustc lexer, TokenStream::to_string, const "
            "evaluation) is exploration over generated Dec!(lit) programs compiled by rustc and compared with from_str of the implementation (partial, DESIGN §3 C18)",
            "Coq proof (fold agreement) + generated-program compile probe vs implementation from_str + model correspondence", "§3 C18"),
    "C19": ("proof", "unbounded theorem over all histories (any number of threads, any interleaving): each thread's observations equal those of "
            "its own events run alone from RoundHalfEven (INITIAL_MODE read from the source); that thread_local! gives one cell per OS thread is "
            "runtime behaviour exhibited by forced-interleaving and free-running histories on real threads, one fresh process per history (partial)",
            "Coq proof (per-thread projection, induction over histories) + real-thread history execution vs extracted model", "§3 C19"),
})

PROVED = "Coq proof (model = spec for all inputs, all profiles, all modes) + extracted-model correspondence + extracted-spec oracle"
CHECKS.update({
    "C02": ("proof", "unbounded theorems: * and checked_mul (short-cuts, exact branch, rounded branch on the narrow and on the 256-bit path) and the "
            "integer-operand products are accepted by the specification for all well-formed operands, modes and profiles; the 256-bit kernel "
            "contract is itself a theorem (C16)", PROVED, "§3 C02"),
    "C03": ("proof", "unbounded theorems: / and checked_div = exact quotient rounded once to 18 digits and normalised, in all three scaling branches "
            "(incl. 256-bit fall-back and the sticky-bit branch), zero-divisor and overflow signals, integer operands on either side", PROVED, "§3 C03"),
    "C04": ("proof", "unbounded theorems: mul_rounded, div_rounded (all n of the u8 range for Decimal/Decimal; n <= 18 for the integer bodies, n > 18 "
            "is known finding K1 with a proved witness) and quantize (all operand combinations) round the exact result once per mode; sticky-bit lemma "
            "for the repaired divisor-scaled branch", PROVED, "§3 C04"),
    "C10": ("proof", "unbounded theorems: % and checked_rem return the truncated remainder of the aligned coefficients (incl. the digit-by-digit "
            "fall-back loop, by induction), failure only where permitted; integer operands; uniqueness of the truncated remainder", PROVED, "§3 C10"),
    "C16": ("proof", "unbounded theorems: 128x128 product, one-word and two-word 256-bit division (normalisation, quotient-digit correction loop with "
            "abstract word base, no add-back needed), msb = log2, the two signed floor kernels for every sign combination incl. exact division, "
            "rounded wrappers", "Coq proof (Knuth D digit step over an abstract base, instantiated at 2^64) + extracted-model correspondence + oracle", "§3 C16"),
    "C17": ("proof", "theorems: every separately written integer-operand body equals / agrees with the Decimal/Decimal body on Decimal::from(i) "
            "(+ - / % quantize: equal; *: same value or the stated one-shortcut exception; div_rounded: equal for n <= 18, K1 otherwise; comparisons: "
            "both the value order); the by-reference / op-assign forwarders are not expressible in Gallina: exhaustive enumeration of all trait "
            "implementations on the implementation (partial, DESIGN §3 C17)",
            "Coq proof (form agreement) + enumeration of all forwarding impls in the harness + model correspondence", "§3 C17"),
    "C20": ("proof", "theorems: models of + - % comparisons conversions do not depend on the profile at all (every overflow explicit after the fix: "
            "commits); round, unary operations, rounding and 256-bit kernels equal profile-free functions; * / *_rounded quantize accepted in every "
            "profile, and all of them equal closed-form functions that do not mention the profile (identical outcome in every profile, also at the coefficient -2^127); opt-level and packed layout are outside the model: differential builds (quick: dev, release, each with and without packed; thorough: 16 configurations) (partial)",
            "Coq proof (profile-quantified theorems) + differential builds of the harness compared with each other and with the model", "§3 C20"),
})

CHECKS.update({
    "C07": ("proof", "unbounded theorems: String::from, Debug's inner text and Display without flags equal the canonical string (sign, integer part, "
            "'.', exactly f digits) for every well-formed Decimal; parse(to_string(d)) = d for every well-formed d in every profile (through the "
            "parser theorems of C06: the canonical string is in the grammar, outside K2/K4, and denotes d); with feature serde-as-str serialize = to_string, deserialize(serialize d) = d and deserialize(s) = from_str(s) are compared on every run (serde's derive plumbing is outside the model: exploration)",
            PROVED, "§3 C07"),
    "C09": ("proof", "unbounded theorems: the binary gcd specialised to 10^e equals Z.gcd (loop by induction with a decreasing measure, a termination "
            "argument the Rust code only assumes), as_integer_ratio = the reduced fraction, which is unique; value-equal Decimals feed identical "
            "data to any Hasher", PROVED, "§3 C09"),
    "C11": ("proof", "unbounded theorems: Display::fmt = specification for every formatter state (precision clamp, round-then-abs, carry into the "
            "integer part, zero extension, sign from d) and the model of core::fmt's pad_integral = declarative padding rules; core::fmt itself is "
            "modelled, validated by the tie on 88 static flag combinations incl. plain i128", PROVED, "§3 C11"),
})

CHECKS.update({
    "C06": ("proof", "unbounded theorems over every byte string shorter than 2^62: FromStr/TryFrom return a value in every profile (no panic, no "
            "overflow check, no read outside the string: the model's unchecked skips answer UB when bytes are missing), Empty only for the empty "
            "string, and the outcome is the one the literal grammar prescribes (digits, scale max(0, fraction - exponent), 18-digit and 2^127-1 "
            "limits) outside known findings K2 (exponent written with > 2 digits) and K4 (zero digits, folded exponent > 38), both with proved "
            "witnesses; the 8-digit SWAR test/convert and the wrapping accumulator's after-the-fact overflow detection are theorems for every word "
            "and every digit-run length",
            PROVED, "§3 C06"),
})

CHECKS.update({
    "C13": ("proof", "unbounded theorems over all 2^64 f64 and all 2^32 f32 bit patterns, every profile: TryFrom never panics and returns NotANumber / "
            "InfiniteValue / InternalOverflow / the exact value rounded half-to-even to 18 fractional digits in normal form, as the specification "
            "prescribes (bit-field decode, tiny values, the digit loop by induction with its three bounds and no i128 overflow of any intermediate, "
            "the final half-even step, normalisation, the checked shift incl. 1 << 127); the specification's normal form is characterised by theorem",
            PROVED, "§3 C13"),
})

CHECKS.update({
    "C12": ("proof", "unbounded theorems over every well-formed Decimal (|c| <= 2^127-1, 0..18 digits, any representation), both formats, every "
            "profile: f64::from / f32::from return without panic the bit pattern of the float nearest to the exact value, ties to even, sign of d, "
            "+0.0 for zero (leading-zero scaling, one-bit-shorter quotient, 3/2 guard bits and the sticky bit by an exhaustive case lemma, exponent "
            "patch, carry into the exponent); the specification's exponent search and nearest/even meaning are theorems; the primitive `as f64` "
            "cast used for integral Decimals is modelled (rne_bits, proved equal to the same specification) and tied by the correspondence run",
            PROVED, "§3 C12"),
})

NOT_YET = {}

def main():
    props = [json.loads(l) for l in open(os.path.join(ROOT, "properties.jsonl"))]
    checks = []
    na = []
    for p in props:
        pid = p["id"]
        if pid in CHECKS:
            cat, text, tech, ref = CHECKS[pid]
            checks.append(dict(
                property_id=pid,
                quick_cmd="python3 tools/check.py %s --tier quick" % pid,
                thorough_cmd="python3 tools/check.py %s --tier thorough" % pid,
                evidence_file="evidence/%s.json" % pid,
                replay_cmd_template="python3 tools/check.py %s --replay {path}" % pid,
                engine="rocq-model",
                level_claimed=dict(category=cat, text=text, design_ref=ref),
                level_note=NOTE,
                technique=tech,
            ))
        else:
            na.append(dict(property_id=pid, reason=NOT_YET.get(pid, "check under construction in this session (model/spec exist or are being written); not claimed until its quick command runs clean")))
    man = dict(
        version=1,
        setup_cmd="bash tools/setup.sh",
        hooks=dict(guard="fpdec_verif", enable='RUSTFLAGS="--cfg fpdec_verif" (set by tools/check.py and tools/setup.sh when building /verif/harness against /repo)',
                   baseline_off_cmd="cd /repo && cargo nextest run --workspace --no-fail-fast --offline || cargo test --workspace --no-fail-fast --offline",
                   source_commits=["fbb9d73"], add_only=True),
        engines=[dict(name="rocq-model", path="coq/", serves_properties=sorted(CHECKS),
                      kind_free_text="machine-checked proof in Rocq/Coq 8.16.1 of model = specification; the 27 integer kernels of fpdec-core 39 Decimal-level functions of src/ and the 226 integer-operand forms are translated from the Rust source on every run (tools/rs2v.py) and proved equal to the model; extracted model and specification (OCaml) run against the Rust harness")],
        checks=checks,
        not_applicable=na,
        notes="See DESIGN.md. fix: commits in /repo and known findings are listed in known_findings.json.",
    )
    json.dump(man, open(os.path.join(ROOT, "MANIFEST.json"), "w"), indent=1)
    print("MANIFEST.json: %d checks, %d not claimed" % (len(checks), len(na)))

if __name__ == "__main__":
    main()
