#!/bin/bash
# setup: build the whole framework offline from files on disk.
set -e
cd "$(dirname "$0")/.."
export CARGO_NET_OFFLINE=true
mkdir -p work evidence replays
python3 tools/extract_consts.py
python3 tools/rs2v.py
( cd coq && coq_makefile -f _CoqProject -o Makefile >/dev/null && timeout 3000 make -j16 2>&1 | grep -v '^COQ' | tail -20 )
( cd ocaml && ocamlfind ocamlopt -O3 -w -a -o driver model.mli model.ml driver.ml )
( cd harness && RUSTFLAGS="--cfg fpdec_verif" cargo build --offline 2>&1 | tail -2 )
( cd harness && RUSTFLAGS="--cfg fpdec_verif" cargo build --offline --release 2>&1 | tail -2 )
# feature builds (own target directories): serde-as-str + num-traits + rkyv; rkyv + packed; packed
( cd harness && RUSTFLAGS="--cfg fpdec_verif" cargo build --offline --features serde-as-str,num-traits,rkyv --target-dir target-feat 2>&1 | tail -1 )
( cd harness && RUSTFLAGS="--cfg fpdec_verif" cargo build --offline --features rkyv,packed --target-dir target-featp 2>&1 | tail -1 )
( cd harness && RUSTFLAGS="--cfg fpdec_verif" cargo build --offline --features packed --target-dir target-packed 2>&1 | tail -1 )
( cd harness && RUSTFLAGS="--cfg fpdec_verif" cargo build --offline --release --features packed --target-dir target-packed 2>&1 | tail -1 )
echo setup done
