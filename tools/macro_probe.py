#!/usr/bin/env python3
"""Compile-time probe for Dec! (C18).

probe(literals) -> list of outcomes, one per literal (source text of the macro argument):
   "V <coeff hex> <nfd>"   the constant Dec!(lit) compiled to
   "E invalid"             the macro panicked (compile error)
   None                    rustc rejected the token sequence before the macro ran (outside the property's domain)
Two rustc passes over a generated crate in /verif/work/macroprobe: pass 1 with one
`const` per literal collects, by source line, which literals do not compile; pass 2
compiles the rest and prints the constants.
"""
import os, re, subprocess, sys

HERE = os.path.dirname(os.path.abspath(__file__))
ROOT = os.path.dirname(HERE)
CRATE = os.path.join(ROOT, "work", "macroprobe")

CARGO = """[package]
name = "macroprobe"
version = "0.1.0"
edition = "2021"

[dependencies]
fpdec = { path = "/repo", default-features = false, features = ["std"] }

[profile.dev]
debug = false
opt-level = 0

[workspace]
"""


def write_crate(lits, idxs):
    os.makedirs(os.path.join(CRATE, "src"), exist_ok=True)
    with open(os.path.join(CRATE, "Cargo.toml"), "w") as f:
        f.write(CARGO)
    lock = os.path.join(ROOT, "harness", "Cargo.lock")
    if os.path.exists(lock) and not os.path.exists(os.path.join(CRATE, "Cargo.lock")):
        txt = open(lock).read().replace('name = "fpdec-verif-harness"', 'name = "macroprobe"')
        open(os.path.join(CRATE, "Cargo.lock"), "w").write(txt)
    lines = ["#![allow(warnings)]", "use fpdec::{Dec, Decimal};"]
    first = len(lines) + 1
    for i in idxs:
        lines.append("const C%d: Decimal = Dec!(%s);" % (i, lits[i]))
    lines.append("fn main() {")
    for i in idxs:
        lines.append('    println!("%d {:x} {} {}", C%d.coefficient().unsigned_abs(), (C%d.coefficient() < 0) as u8, C%d.n_frac_digits());' % (i, i, i, i))
    lines.append("}")
    with open(os.path.join(CRATE, "src", "main.rs"), "w") as f:
        f.write("\n".join(lines) + "\n")
    return first


def cargo(args):
    env = dict(os.environ)
    env["CARGO_NET_OFFLINE"] = "true"
    env["CARGO_TARGET_DIR"] = os.path.join(ROOT, "harness", "target", "macroprobe")
    p = subprocess.run("cargo %s --offline --message-format short 2>&1" % args, shell=True, cwd=CRATE, env=env,
                       stdout=subprocess.PIPE, text=True, errors="replace", timeout=1800)
    return p.returncode, p.stdout


def probe(lits):
    n = len(lits)
    res = [None] * n
    idxs = list(range(n))
    status = {}
    for attempt in range(4):
        first = write_crate(lits, idxs)
        rc, out = cargo("build")
        if rc == 0:
            break
        bad = {}
        for m in re.finditer(r"src/main\.rs:(\d+):\d+: error(?:\[E\d+\])?: (.*)", out):
            ln = int(m.group(1))
            k = ln - first
            if 0 <= k < len(idxs):
                msg = m.group(2)
                kind = "macro" if "proc macro panicked" in msg else "lexer"
                # a lexer error on the same line takes precedence (the macro never ran on valid tokens)
                if bad.get(idxs[k]) != "lexer":
                    bad[idxs[k]] = kind
        if not bad:
            raise RuntimeError("macro probe: build failed without attributable errors:\n" + out[-2000:])
        for i, kind in bad.items():
            status[i] = kind
        idxs = [i for i in idxs if i not in bad]
    else:
        raise RuntimeError("macro probe: build does not converge")
    rc, out = cargo("run -q")
    if rc != 0:
        raise RuntimeError("macro probe: run failed: " + out[-1000:])
    for line in out.split("\n"):
        t = line.split()
        if len(t) == 4 and t[0].isdigit():
            i = int(t[0])
            c = int(t[1], 16)
            res[i] = "V %s%x %s" % ("-" if t[2] == "1" and c else "", c, t[3])
    for i, kind in status.items():
        res[i] = "E invalid" if kind == "macro" else None
    return res


if __name__ == "__main__":
    lits = sys.argv[1:] or ["1.5", "-1.5", "1e5", "1e-19", "1_000", "0x10", "1.", "17e37", "18e37", "1e", "- 2.50", "+3"]
    for l, r in zip(lits, probe(lits)):
        print(repr(l), "->", r)
