#!/bin/bash
# usage: try_ref.sh <Cnn> [pids...]: apply seeded/refactor_Cnn/patch.diff, run quick checks, revert
r=$1; shift; pids="$@"; [ -z "$pids" ] && pids=$r
cd /verif; export VERIF_EVIDENCE_DIR=/verif/work/evidence_seeded
[ -n "$(git -C /repo status --porcelain --untracked-files=no)" ] && { echo "/repo not clean"; exit 2; }
trap 'git -C /repo checkout -- . ; python3 /verif/tools/extract_consts.py >/dev/null; python3 /verif/tools/rs2v.py >/dev/null' EXIT
git -C /repo apply /verif/seeded/refactor_$r/patch.diff || { echo "APPLY-FAIL"; exit 2; }
for p in $pids; do
  out=$(python3 tools/check.py $p --tier quick 2>&1); rc=$?
  echo "== refactor_$r on $p: exit=$rc"
  echo "$out" | grep -E 'VIOLATION|cases=|changed' | head -5 | cut -c1-260
done
