#!/usr/bin/env python3
"""rs2v — translator from a subset of Rust to the Gallina machine model (coq/model/Machine.v).

Reads the integer kernels of fpdec-core from /repo's *current* source and writes coq/gen/GenCore.v: one
Gallina definition g_<fn> per Rust function, in the vocabulary of Machine.v (res monad, ck_* checked
arithmetic under a build profile, t_div/t_rem, ck_shl/ck_shr, cast, wrap, checked, index, dbg_assert).
coq/proofs/GenTie.v proves g_<fn> equal to the hand-written model function the property theorems are
about, so for the translated functions the theorems are re-checked against what the code says now.

Supported subset (everything the target functions use; anything else -> the function is reported as
untranslatable and its tie lemma fails to build, which the check treats as a broken tie):
  items       free `fn` (pub/const), file-level integer/array consts
  types       integer types, bool, tuples, Option<T>, &mut <int>, RoundingMode
  statements  let / let mut (tuple patterns), const, assignment, compound assignment, if / else if / else,
              while (with break), match, return, expression statements, debug_assert!, debug_assert_ne!
  expressions literals (dec/hex/bin, suffixes), paths (T::MAX, T::MIN, RoundingMode::X, Ordering::X),
              unary - ! * &mut, binary arithmetic/bit/shift/comparison/&&/||, `as`, calls of translated
              functions, Some/None, tuples, indexing, if- and match-expressions, `?` on Option,
              methods unsigned_abs is_negative neg abs checked_add/sub/mul wrapping_add/sub/mul cmp,
              panic!/unreachable!, RoundingMode::default()
Translation conventions (the trusted part — kept deliberately small and syntax-directed):
  * evaluation order is Rust's: operands left to right, every operation that can fail is bound in sequence
  * + - * unary-  -> ck_add/ck_sub/ck_mul/ck_neg pf T   (panic or wrap by profile);  / %  -> t_div/t_rem T
  * <<            -> ck_shl pf T;  >> by a literal 0 <= k < bits -> Z.shiftr (cannot fail), otherwise ck_shr pf T
  * & | ^         -> Z.land / Z.lor / Z.lxor;  comparisons -> =? <? ... ;  && || short-circuit (the right
                     operand's effects are under the conditional)
  * `e as T`      -> cast T e, omitted when T can represent every value of e's type (value-preserving)
  * `mut` variables are re-bound (shadowing); an `if` without return/break that assigns outer variables
    yields the tuple of those variables; with a return/break inside, the rest of the block is duplicated
    into the branches; `&mut` parameters become extra results: f(&mut a, &mut b, c) -> r  ~>  (a', b', r)
  * while loops become a Fixpoint on fuel returning the tuple of variables assigned in the body
    (fuel exhausted -> Fuel); the fuel constant is a parameter of the generated function's loop (LOOP_FUEL)
  * every variable is assumed to hold a value inside the range of its Rust type (Rust's typing invariant)
  * block scoping is kept by nesting; the two places where re-binding by name could differ from Rust's scoping are
    rejected instead of translated: a branch or loop body that re-declares a variable it also assigns, and a branch or
    match arm that falls through to the following statements after re-declaring (or pattern-binding) an outer variable
  * a free function with the name of a kernel function shadows it in its own file only (file-scoped name); a call of a
    local function that could not be translated is untranslatable, it never falls back to the imported one
  * functions outside the subset that a translated function needs (str_to_dec) become parameters of the translation
"""
import json, os, re, sys

HERE = os.path.dirname(os.path.abspath(__file__))
REPO = os.environ.get("VERIF_REPO", "/repo")
OUT = os.path.join(HERE, "..", "coq", "gen", "GenCore.v")
STATUS = os.path.join(HERE, "..", "coq", "gen", "gencore_status.json")

TARGETS = [
    ("fpdec-core/src/powers_of_ten.rs", ["ten_pow", "checked_ten_pow", "mul_pow_ten", "checked_mul_pow_ten"]),
    ("fpdec-core/src/lib.rs", ["adjust_coeffs", "checked_adjust_coeffs", "i128_div_mod_floor", "u8", "less_than_5",
                               "u16", "u32", "u64", "u128", "i128_magnitude", "u128_msb", "u128_hi", "u128_lo",
                               "u128_mul_u128", "u256_idiv_u64", "u256_idiv_u128_special", "u256_idiv_u128",
                               "i128_shifted_div_mod_floor", "i256_div_mod_floor"]),
    ("fpdec-core/src/parser.rs", ["chunk_contains_8_digits", "chunk_to_u64"]),
    ("fpdec-core/src/rounding.rs", ["round_quot", "i128_div_rounded", "i128_shifted_div_rounded",
                                    "i128_mul_div_ten_pow_rounded"]),
]
FILE_CONSTS = [("fpdec-core/src/powers_of_ten.rs", "POWERS_OF_10"), ("fpdec-core/src/lib.rs", "MAX_N_FRAC_DIGITS")]

INT_TYPES = {"u8": (8, False), "i8": (8, True), "u16": (16, False), "i16": (16, True), "u32": (32, False),
             "i32": (32, True), "u64": (64, False), "i64": (64, True), "u128": (128, False), "i128": (128, True),
             "usize": (64, False), "isize": (64, True)}
COQ_ITY = {"u8": "U8", "i8": "I8", "u16": "U16", "i16": "I16", "u32": "U32", "i32": "I32", "u64": "U64",
           "i64": "I64", "u128": "U128", "i128": "I128", "usize": "Usize", "isize": "Isize"}
MODES = {"Round05Up": "R05Up", "RoundCeiling": "RCeiling", "RoundDown": "RDown", "RoundFloor": "RFloor",
         "RoundHalfDown": "RHalfDown", "RoundHalfEven": "RHalfEven", "RoundHalfUp": "RHalfUp", "RoundUp": "RUp"}
RESERVED = {"index", "cast", "wrap", "checked", "bind", "Val", "Panic", "UB", "Fuel", "pf", "dflt", "mod", "at",
            "in", "as", "end", "fix", "fun", "let", "if", "then", "else", "match", "with", "return", "forall",
            "exists", "Type", "Set", "Prop", "bits", "signed", "tmin", "tmax", "mode", "profile", "fuel", "dev",
            "release", "res", "option", "Some", "None", "true", "false", "negb", "fst", "snd", "Z", "nat", "S", "O",
            "lz", "tz", "assert", "wrapping", "ck", "obind", "coeff", "nfd", "wf", "dec", "using", "where"}


class Unsupported(Exception):
    pass


# ------------------------------------------------------------------ lexer
def strip_comments(s):
    out, i, n = [], 0, len(s)
    while i < n:
        c = s[i]
        if c == '"':
            j = i + 1
            while j < n and s[j] != '"':
                j += 2 if s[j] == "\\" else 1
            out.append(s[i:j + 1]); i = j + 1
        elif s.startswith("//", i):
            j = s.find("\n", i); i = n if j < 0 else j
        elif s.startswith("/*", i):
            d, j = 1, i + 2
            while j < n and d:
                if s.startswith("/*", j): d += 1; j += 2
                elif s.startswith("*/", j): d -= 1; j += 2
                else: j += 1
            i = j
        else:
            out.append(c); i += 1
    return "".join(out)


TOK = re.compile(r"""
   (?P<ws>\s+)
 | (?P<str>"(?:\\[\s\S]|[^"\\])*")
 | (?P<num>0x[0-9a-fA-F_]+(?:[ui](?:8|16|32|64|128|size))? | 0b[01_]+(?:[ui](?:8|16|32|64|128|size))?
          | [0-9][0-9_]*(?:[ui](?:8|16|32|64|128|size))?)
 | (?P<life>'[a-z_]\w*(?!'))
 | (?P<chr>'(?:\\.|[^'\\])')
 | (?P<id>[A-Za-z_]\w*)
 | (?P<op><<=|>>=|\.\.=|\.\.\.|->|=>|::|==|!=|<=|>=|&&|\|\||\+=|-=|\*=|/=|%=|\^=|&=|\|=|<<|>>|\.\.|[-+*/%^!&|=<>@.,;:#$?~(){}\[\]])
""", re.X)


def lex(src):
    toks, i = [], 0
    while i < len(src):
        m = TOK.match(src, i)
        if not m:
            raise Unsupported("lexer: unexpected character %r" % src[i:i + 10])
        i = m.end()
        k = m.lastgroup
        if k == "ws":
            continue
        toks.append((k, m.group(k)))
    return toks


def rust_int(tok):
    t = tok.replace("_", "")
    suf = None
    m = re.search(r"(u8|i8|u16|i16|u32|i32|u64|i64|u128|i128|usize|isize)$", t)
    if m and not t.startswith("0x"):
        suf = m.group(1); t = t[:m.start()]
    elif m and t.startswith("0x"):
        # a hex literal may end in e.g. ...f0_u128 ; the underscore was removed, suffixes contain 'u'/'i' + digits
        mm = re.search(r"(u8|i8|u16|i16|u32|i32|u64|i64|u128|i128|usize|isize)$", tok)
        if mm and ("u" in mm.group(1) or "i" in mm.group(1)):
            suf = mm.group(1); t = tok[:mm.start()].replace("_", "")
    if t.startswith("0x"):
        return int(t, 16), suf
    if t.startswith("0b"):
        return int(t, 2), suf
    return int(t), suf


# ------------------------------------------------------------------ parser
class P:
    def __init__(self, toks):
        self.t = toks; self.i = 0; self.nostruct = False

    def peek(self, k=0):
        return self.t[self.i + k] if self.i + k < len(self.t) else ("eof", "")

    def at(self, v, k=0):
        return self.peek(k)[1] == v and self.peek(k)[0] in ("op", "id")

    def eat(self, v=None):
        tok = self.peek()
        if v is not None and tok[1] != v:
            raise Unsupported("parser: expected %r, found %r" % (v, tok[1]))
        self.i += 1
        return tok

    def skip_attrs(self, strict=False):
        while self.at("#"):
            self.eat()
            if self.at("!"):
                self.eat()
            a = self.i
            self.skip_balanced("[", "]")
            if strict and any(t[1] in ("cfg", "cfg_attr") for t in self.t[a:self.i]):
                raise Unsupported("conditionally compiled statement, arm or parameter (#[cfg])")

    def skip_balanced(self, o, c):
        self.eat(o); d = 1
        while d:
            tok = self.eat()
            if tok[0] == "eof":
                raise Unsupported("parser: unbalanced %s" % o)
            if tok[1] == o and tok[0] == "op": d += 1
            elif tok[1] == c and tok[0] == "op": d -= 1

    # ---- types
    def ty(self):
        if self.at("&"):
            self.eat()
            if self.peek()[0] == "life": self.eat()
            if self.at("mut"):
                self.eat(); return ("mutref", self.ty())
            return ("ref", self.ty())
        if self.at("("):
            self.eat(); ts = []
            while not self.at(")"):
                ts.append(self.ty())
                if self.at(","): self.eat()
            self.eat(")")
            return ("tup", tuple(ts)) if ts else "unit"
        if self.at("["):
            self.eat(); el = self.ty(); self.eat(";"); n = self.expr(); self.eat("]")
            return ("arr", el, n)
        name = self.eat()[1]
        while self.at("::"):
            self.eat(); name = self.eat()[1]
        if self.at("<"):
            self.eat(); args = [self.ty()]
            while self.at(","):
                self.eat(); args.append(self.ty())
            if self.at(">>"):     # split the token
                self.t[self.i] = ("op", ">")
            else:
                self.eat(">")
            if name == "Option":
                return ("opt", args[0])
            if name == "Result" and len(args) == 2:
                return ("result", args[0], args[1])
            raise Unsupported("type %s<..>" % name)
        if name in INT_TYPES or name == "bool":
            return name
        if name == "RoundingMode":
            return "mode"
        return ("named", name)

    # ---- patterns
    def pat(self):
        if self.at("("):
            self.eat(); ps = []
            while not self.at(")"):
                ps.append(self.pat())
                if self.at(","): self.eat()
            self.eat(")")
            return ("ptup", ps)
        if self.at("mut"):
            self.eat(); return ("pvar", self.eat()[1])
        if self.at("_"):
            self.eat(); return ("pwild",)
        if self.at("true") or self.at("false"):
            return ("pbool", self.eat()[1])
        if self.peek()[0] == "num" or self.at("-"):
            neg = False
            if self.at("-"): self.eat(); neg = True
            v, _ = rust_int(self.eat()[1]); return ("plit", -v if neg else v)
        name = self.eat()[1]
        path = [name]
        while self.at("::"):
            self.eat(); path.append(self.eat()[1])
        if self.at("("):
            self.eat(); ps = []
            while not self.at(")"):
                ps.append(self.pat())
                if self.at(","): self.eat()
            self.eat(")")
            return ("pctor", path, ps)
        if len(path) > 1 or name in ("None",) or name[0].isupper():
            return ("pctor", path, [])
        return ("pvar", name)

    # ---- expressions
    BIN = [("||",), ("&&",), ("==", "!=", "<", ">", "<=", ">="), ("|",), ("^",), ("&",), ("<<", ">>"), ("+", "-"),
           ("*", "/", "%")]

    def expr(self, lvl=0, nostruct=False):
        if lvl == len(self.BIN):
            return self.cast_e()
        l = self.expr(lvl + 1)
        while self.peek()[0] == "op" and self.peek()[1] in self.BIN[lvl]:
            op = self.eat()[1]
            r = self.expr(lvl + 1)
            l = ("bin", op, l, r)
            if lvl == 2 and self.peek()[1] in self.BIN[2] and self.peek()[0] == "op":
                raise Unsupported("chained comparison")
        return l

    def cast_e(self):
        e = self.unary()
        while self.at("as"):
            self.eat(); e = ("cast", e, self.ty())
        return e

    def unary(self):
        if self.at("-"):
            self.eat(); return ("neg", self.unary())
        if self.at("!"):
            self.eat(); return ("not", self.unary())
        if self.at("*"):
            self.eat(); return ("deref", self.unary())
        if self.at("&"):
            self.eat()
            if self.at("mut"):
                self.eat(); return ("mutref", self.unary())
            return ("ref", self.unary())
        return self.postfix()

    def args_(self):
        self.eat("("); a = []
        while not self.at(")"):
            a.append(self.expr())
            if self.at(","): self.eat()
        self.eat(")")
        return a

    def postfix(self):
        e = self.primary()
        while True:
            if self.at("."):
                self.eat(); tok = self.eat()
                if tok[0] == "num":
                    e = ("field", e, int(tok[1]))
                elif self.at("("):
                    e = ("mcall", e, tok[1], self.args())
                else:
                    e = ("fieldn", e, tok[1])
            elif self.at("("):
                e = ("call", e, self.args())
            elif self.at("["):
                self.eat(); ix = self.expr(); self.eat("]"); e = ("index", e, ix)
            elif self.at("?"):
                self.eat(); e = ("try", e)
            else:
                return e

    def primary(self):
        k, v = self.peek()
        if k == "num":
            self.eat(); n, suf = rust_int(v); return ("lit", n, suf)
        if k == "str":
            self.eat(); return ("str", v)
        if v == "(" and k == "op":
            save = self.nostruct; self.nostruct = False
            try:
                return self.paren_()
            finally:
                self.nostruct = save
        return self.primary2()

    def args(self):
        save = self.nostruct; self.nostruct = False
        try:
            return self.args_()
        finally:
            self.nostruct = save

    def paren_(self):
        self.eat(); es = []; trailing = False
        while not self.at(")"):
            es.append(self.expr()); trailing = False
            if self.at(","): self.eat(); trailing = True
        self.eat(")")
        if len(es) == 1 and not trailing:
            return ("paren", es[0])
        return ("tuple", es)

    def primary2(self):
        k, v = self.peek()
        if v == "[" and k == "op":
            self.eat(); es = []
            while not self.at("]"):
                es.append(self.expr())
                if self.at(","): self.eat()
            self.eat("]"); return ("array", es)
        if v == "if":
            return self.if_e()
        if v == "match":
            return self.match_e()
        if v in ("|", "||") and k == "op":
            # closure  |a, b| expr
            params = []
            if v == "||":
                self.eat()
            else:
                self.eat()
                while not self.at("|"):
                    params.append(self.pat())
                    if self.at(":"):
                        self.eat(); self.ty()
                    if self.at(","): self.eat()
                self.eat("|")
            body = self.expr()
            return ("closure", params, body)
        if v == "{" and k == "op":
            return ("block", self.block())
        if v in ("true", "false"):
            self.eat(); return ("bool", v == "true")
        if k == "id":
            self.eat(); path = [v]
            while self.at("::"):
                self.eat()
                if self.at("<"):
                    raise Unsupported("turbofish")
                path.append(self.eat()[1])
            if self.at("!"):
                self.eat(); name = path[-1]
                o = self.peek()[1]; c = {"(": ")", "[": "]", "{": "}"}[o]
                start = self.i; self.skip_balanced(o, c)
                inner = self.t[start + 1:self.i - 1]
                return ("macro", name, inner)
            if self.at("{") and path[-1][0].isupper() and not self.nostruct and \
                    self.peek(1)[0] == "id" and self.peek(2)[1] in (":", ",", "}"):
                self.eat("{"); fields = []
                while not self.at("}"):
                    fn_ = self.eat()[1]
                    if self.at(":"):
                        self.eat(); fe = self.expr()
                    else:
                        fe = ("path", [fn_])
                    fields.append((fn_, fe))
                    if self.at(","): self.eat()
                self.eat("}")
                return ("struct", path, fields)
            return ("path", path)
        raise Unsupported("parser: unexpected token %r" % v)

    def cond_expr(self):
        save = self.nostruct; self.nostruct = True
        try:
            return self.expr()
        finally:
            self.nostruct = save

    def if_e(self):
        self.eat("if")
        if self.at("let"):
            self.eat(); pat = self.pat(); self.eat("="); scr = self.cond_expr()
            th = self.block(); el = None
            if self.at("else"):
                self.eat()
                el = ([], self.if_e()) if self.at("if") else self.block()
            if el is None:
                el = ([], None)
            return ("match", scr, [(pat, th), (("pwild",), el)])
        c = self.cond_expr(); th = self.block(); el = None
        if self.at("else"):
            self.eat()
            if self.at("if"):
                el = ([], self.if_e())
            else:
                el = self.block()
        return ("if", c, th, el)

    def match_e(self):
        self.eat("match"); scr = self.cond_expr(); self.eat("{"); arms = []
        while not self.at("}"):
            self.skip_attrs(strict=True)
            if self.at("|"): self.eat()
            p = self.pat()
            if self.at("|"):
                alts = [p]
                while self.at("|"):
                    self.eat(); alts.append(self.pat())
                p = ("por", alts)
            if self.at("if"):
                raise Unsupported("match guard")
            self.eat("=>")
            if self.at("{"):
                body = self.block()
            else:
                e = self.expr(); body = ([], e)
            if self.at(","): self.eat()
            arms.append((p, body))
        self.eat("}")
        return ("match", scr, arms)

    # ---- statements / blocks:  block = (stmts, tail_expr_or_None)
    def block(self):
        save = self.nostruct; self.nostruct = False
        try:
            return self.block_()
        finally:
            self.nostruct = save

    def block_(self):
        self.eat("{"); stmts = []; tail = None
        while not self.at("}"):
            self.skip_attrs(strict=True)
            if self.at(";"):
                self.eat(); continue
            if self.at("let"):
                self.eat(); p = self.pat(); t = None
                if self.at(":"):
                    self.eat(); t = self.ty()
                self.eat("="); e = self.expr(); self.eat(";")
                stmts.append(("let", p, t, e)); continue
            if self.at("const"):
                self.eat(); name = self.eat()[1]; self.eat(":"); t = self.ty(); self.eat("="); e = self.expr()
                self.eat(";"); stmts.append(("const", name, t, e)); continue
            if self.at("return"):
                self.eat(); e = None
                if not self.at(";") and not self.at("}"):
                    e = self.expr()
                if self.at(";"): self.eat()
                stmts.append(("return", e)); continue
            if self.at("break"):
                self.eat()
                if self.at(";"): self.eat()
                stmts.append(("break",)); continue
            if self.at("while"):
                self.eat(); c = self.cond_expr(); b = self.block(); stmts.append(("while", c, b)); continue
            if self.at("for") or self.at("loop") or self.at("unsafe") or self.at("fn") or self.at("use"):
                raise Unsupported("statement `%s`" % self.peek()[1])
            if self.at("if") or self.at("match"):
                # a block-like expression at the start of a statement ends at its closing brace
                e = self.if_e() if self.at("if") else self.match_e()
                if self.at("}"):
                    tail = e; break
                if self.at(";"): self.eat()
                stmts.append(("expr", e)); continue
            e = self.expr()
            if self.peek()[0] == "op" and self.peek()[1] in ("=", "+=", "-=", "*=", "/=", "%=", "<<=", ">>=", "&=", "|=", "^="):
                op = self.eat()[1]; r = self.expr(); self.eat(";")
                stmts.append(("assign", op, e, r)); continue
            if self.at(";"):
                self.eat(); stmts.append(("expr", e)); continue
            if self.at("}"):
                tail = e; break
            if e[0] in ("if", "match", "block"):
                stmts.append(("expr", e)); continue
            raise Unsupported("parser: expected ; after expression, found %r" % self.peek()[1])
        self.eat("}")
        # items declared in a block are in scope in the whole block: constants first
        stmts = [x for x in stmts if x[0] == "const"] + [x for x in stmts if x[0] != "const"]
        return (stmts, tail)


def parse_fn(p, rel, impl=None, self_ty=None):
    """p is positioned at `fn`; returns the function record (body None + error when the body is outside the subset)"""
    p.eat("fn"); name = p.eat()[1]
    if p.at("<"):
        raise Unsupported("generic function")
    p.eat("("); params = []
    while not p.at(")"):
        p.skip_attrs(strict=True)
        if p.at("&"):
            # &self / &mut self
            p.eat()
            if p.peek()[0] == "life": p.eat()
            if p.at("mut"): p.eat()
            if p.at("self"):
                p.eat(); params.append(("self", ("named", "Self")))
                if p.at(","): p.eat()
                continue
            raise Unsupported("parameter pattern")
        if p.at("mut"): p.eat()
        pn = p.eat()[1]
        if pn == "self" and not p.at(":"):
            params.append(("self", ("named", "Self")))
        else:
            p.eat(":"); pt = p.ty(); params.append((pn, pt))
        if p.at(","): p.eat()
    p.eat(")"); ret = "unit"
    if p.at("->"):
        p.eat(); ret = p.ty()
    if p.at("where"):
        raise Unsupported("where clause")
    if p.at(";"):
        p.eat(); return None      # a trait method declaration
    body_start = p.i
    key = name if impl is None else "%s::%s" % (impl, name)
    try:
        body = p.block()
        rec = dict(name=key, params=params, ret=ret, body=body, file=rel, impl=impl, self_ty=self_ty)
    except Unsupported as ex:
        p.i = body_start; p.skip_balanced("{", "}")
        rec = dict(name=key, params=params, ret=ret, body=None, file=rel, impl=impl, self_ty=self_ty, error=str(ex))
    return rec


def skip_item(p):
    while not (p.at("{") or p.at(";")) and p.peek()[0] != "eof":
        if p.at("(") : p.skip_balanced("(", ")"); continue
        if p.at("[") : p.skip_balanced("[", "]"); continue
        p.eat()
    if p.at("{"):
        p.skip_balanced("{", "}")
        if p.at(";"): p.eat()
    elif p.at(";"):
        p.eat()


def _split_pat(pat):
    """pattern tokens -> list of elements: ('lit', tok) | ('var', name, kind) | ('rep', [elements], sep, op)"""
    out = []; i = 0
    while i < len(pat):
        t = pat[i][1]
        if t == "$" and i + 1 < len(pat) and pat[i + 1][1] == "(":
            d = 0; k = i + 1
            while k < len(pat):
                if pat[k][1] == "(": d += 1
                elif pat[k][1] == ")":
                    d -= 1
                    if d == 0: break
                k += 1
            inner = _split_pat(pat[i + 2:k])
            k += 1
            sep = None
            if k < len(pat) and pat[k][1] not in ("*", "+", "?"):
                sep = pat[k][1]; k += 1
            if k >= len(pat) or pat[k][1] not in ("*", "+"):
                raise Unsupported("macro repetition operator")
            out.append(("rep", inner, sep, pat[k][1])); i = k + 1
        elif t == "$" and i + 3 < len(pat) + 1 and i + 2 < len(pat) and pat[i + 2][1] == ":":
            out.append(("var", pat[i + 1][1], pat[i + 3][1])); i += 4
        else:
            out.append(("lit", t)); i += 1
    return out


def _group(kind, toks):
    """an `expr` fragment is substituted as one operand: keep it grouped"""
    if kind == "expr" and len(toks) > 1:
        return [("op", "(")] + list(toks) + [("op", ")")]
    return list(toks)


def _match_frag(kind, args, ai, stop):
    """consume one fragment of the given kind; returns new index"""
    if kind in ("ident", "tt", "literal", "lifetime"):
        if ai >= len(args): raise Unsupported("macro arguments exhausted")
        return ai + 1
    d = 0; start = ai
    while ai < len(args):
        t = args[ai][1]
        if d == 0 and stop is not None and t == stop: break
        if t in ("(", "[", "{", "<"): d += 1
        if t in (")", "]", "}", ">"):
            if d == 0: break
            d -= 1
        ai += 1
    if ai == start: raise Unsupported("empty macro fragment")
    return ai


def _match_elems(elems, args, ai, binds):
    for idx, el in enumerate(elems):
        nxt = elems[idx + 1] if idx + 1 < len(elems) else None
        stop = nxt[1] if nxt is not None and nxt[0] == "lit" else ("," if nxt is not None and nxt[0] == "rep" else None)
        if el[0] == "lit":
            if ai >= len(args) or args[ai][1] != el[1]: raise Unsupported("macro arguments do not match")
            ai += 1
        elif el[0] == "var":
            e = _match_frag(el[2], args, ai, stop)
            binds[el[1]] = _group(el[2], args[ai:e]); ai = e
        else:
            inner, sep = el[1], el[2]
            reps = []
            while ai < len(args):
                b = {}
                save = ai
                try:
                    # a fragment inside a repetition ends at the separator
                    e = ai
                    for k2, ie in enumerate(inner):
                        n2 = inner[k2 + 1] if k2 + 1 < len(inner) else None
                        st2 = n2[1] if n2 is not None and n2[0] == "lit" else sep
                        if ie[0] == "lit":
                            if e >= len(args) or args[e][1] != ie[1]: raise Unsupported("x")
                            e += 1
                        elif ie[0] == "var":
                            e2 = _match_frag(ie[2], args, e, st2); b[ie[1]] = _group(ie[2], args[e:e2]); e = e2
                        else:
                            raise Unsupported("nested macro repetition")
                    ai = e
                except Unsupported:
                    ai = save; break
                reps.append(b)
                if sep is not None:
                    if ai < len(args) and args[ai][1] == sep: ai += 1
                    else: break
            if el[3] == "+" and not reps: raise Unsupported("macro repetition needs one item")
            binds[("rep", tuple(sorted(v for ie in inner if ie[0] == "var" for v in [ie[1]])))] = reps
    return ai


def _subst(body, binds):
    out = []; i = 0
    reps = {k: v for k, v in binds.items() if isinstance(k, tuple)}
    while i < len(body):
        t = body[i][1]
        if t == "$" and i + 1 < len(body) and body[i + 1][1] == "(":
            d = 0; k = i + 1
            while k < len(body):
                if body[k][1] == "(": d += 1
                elif body[k][1] == ")":
                    d -= 1
                    if d == 0: break
                k += 1
            inner = body[i + 2:k]; k += 1
            sep = None
            if k < len(body) and body[k][1] not in ("*", "+"):
                sep = body[k]; k += 1
            if k >= len(body) or body[k][1] not in ("*", "+"): raise Unsupported("macro repetition in body")
            used = {inner[x + 1][1] for x in range(len(inner) - 1) if inner[x][1] == "$"}
            cands = [v for kk, v in reps.items() if set(kk[1]) & used]
            if len(cands) != 1: raise Unsupported("macro repetition variables")
            for n_, b in enumerate(cands[0]):
                if n_ and sep is not None: out.append(sep)
                out += _subst(inner, dict(binds, **b))
            i = k + 1
        elif t == "$" and i + 1 < len(body) and body[i + 1][1] in binds:
            out += binds[body[i + 1][1]]; i += 2
        elif t == "$":
            raise Unsupported("unknown macro metavariable $%s" % (body[i + 1][1] if i + 1 < len(body) else ""))
        else:
            out.append(body[i]); i += 1
    return out


def expand_macro(arms, args):
    """macro_rules: first arm whose pattern matches; $x:kind parameters and one level of $( .. ) sep * repetition"""
    last = None
    for pat, body in arms:
        binds = {}
        try:
            end = _match_elems(_split_pat(pat), args, 0, binds)
            if end != len(args): raise Unsupported("macro arguments do not match")
        except Unsupported as ex:
            last = ex; continue
        return _subst(body, binds)
    raise Unsupported("no macro arm matches (%s)" % last)


def parse_tokens(toks, rel, acc):
    """acc: dict(fns, consts, macros, impl_consts)"""
    fns, consts, macros = acc["fns"], acc["consts"], acc["macros"]
    p = P(list(toks) + [("eof", "")])
    pending_attrs = ""

    def add_fn(rec, attrs):
        if rec is None: return
        if "cfg" in attrs:
            rec["body"] = None; rec["error"] = "conditionally compiled item (%s)" % attrs[:60]
        if rec["name"] in fns:
            rec["body"] = None; rec["error"] = "function defined more than once (%s)" % rel
        fns[rec["name"]] = rec
    while p.peek()[0] != "eof":
        k, v = p.peek()
        if k == "op" and v == "#":
            start = p.i; p.skip_attrs()
            txt = " ".join(t[1] for t in p.t[start:p.i])
            if "cfg ( test" in txt or "fpdec_verif" in txt or ("cfg ( all" in txt and "test" in txt) \
                    or re.search(r'cfg \( feature = "(rkyv|serde-as-str|num-traits|packed)"', txt) or "cfg ( doc" in txt:
                skip_item(p); pending_attrs = ""
            else:
                pending_attrs = (pending_attrs + " " + txt).strip()
            continue
        attrs, pending_attrs = pending_attrs, ""
        if k == "id" and v == "macro_rules" and p.at("!", 1):
            p.eat(); p.eat(); name = p.eat()[1]
            start = p.i; p.skip_balanced("{", "}")
            inner = p.t[start + 1:p.i - 1]
            q = P(list(inner) + [("eof", "")]); arms = []
            try:
                while q.peek()[0] != "eof":
                    o = q.peek()[1]; c = {"(": ")", "[": "]", "{": "}"}[o]
                    a = q.i; q.skip_balanced(o, c); pat = q.t[a + 1:q.i - 1]
                    q.eat("=>")
                    o = q.peek()[1]; c = {"(": ")", "[": "]", "{": "}"}[o]
                    a = q.i; q.skip_balanced(o, c); body = q.t[a + 1:q.i - 1]
                    arms.append((pat, body))
                    if q.at(";"): q.eat()
                macros[name] = arms
            except (Unsupported, KeyError):
                macros[name] = None
            continue
        if k == "id" and p.at("!", 1) and p.peek(2)[1] in ("(", "[", "{"):
            name = v; p.eat(); p.eat()
            o = p.peek()[1]; c = {"(": ")", "[": "]", "{": "}"}[o]
            a = p.i; p.skip_balanced(o, c); args = p.t[a + 1:p.i - 1]
            if p.at(";"): p.eat()
            if "cfg" in attrs or macros.get(name) is None:
                continue
            try:
                before = set(fns)
                parse_tokens(expand_macro(macros[name], args), rel, acc)
                for k_ in set(fns) - before:
                    fns[k_]["macro"] = name
            except Unsupported as ex:
                acc.setdefault("macro_errors", {})[name] = str(ex)
            continue
        if k == "id" and v == "impl":
            p.eat(); hdr = []
            while not p.at("{") and p.peek()[0] != "eof":
                hdr.append(p.eat()[1])
            h = " ".join(hdr)
            h = re.sub(r" where$", "", h)
            m = re.match(r"^(?:(\w+)(?: < (Self|Decimal|[ui](?:8|16|32|64|128)) >)? for )?(Decimal|[ui](?:8|16|32|64|128))$", h)
            if m and m.group(3) != "Decimal" and m.group(3) != "i128" and m.group(2) != "Decimal":
                m = None
            if not m or "cfg" in attrs:
                p.skip_balanced("{", "}"); continue
            targ = m.group(2)
            impl = m.group(1) or m.group(3); self_ty = "dec" if m.group(3) == "Decimal" else m.group(3)
            if targ in INT_TYPES and m.group(3) != "Decimal":
                impl = "%s_%s_%s" % (impl, m.group(3), targ)   # impl DivRounded<i64> for i128
            elif targ in INT_TYPES:
                impl = "%s_%s" % (impl, targ)            # impl Mul<u8> for Decimal  ->  Mul_u8
            elif m.group(3) != "Decimal" and targ == "Decimal":
                impl = "%s_by_%s" % (impl, m.group(3))    # impl Mul<Decimal> for u8  ->  Mul_by_u8
            p.eat("{")
            inner_attrs = ""
            assoc = {}
            blk = acc.setdefault("impl_blocks", {}).setdefault(rel, {}).setdefault(impl, dict(fns=[], consts=0))
            while not p.at("}"):
                if p.at("#"):
                    a = p.i; p.skip_attrs(); inner_attrs += " ".join(t[1] for t in p.t[a:p.i]); continue
                ia, inner_attrs = inner_attrs, ""
                if p.at("type"):
                    save = p.i
                    try:
                        p.eat(); an = p.eat()[1]; p.eat("="); at_ = p.ty(); p.eat(";")
                        assoc[an] = at_
                    except Unsupported:
                        p.i = save; skip_item(p)
                    continue
                if p.at("pub"):
                    p.eat()
                    if p.at("("): p.skip_balanced("(", ")")
                while p.at("const") and p.at("fn", 1) or p.at("unsafe") or p.at("default"):
                    p.eat()
                if p.at("const"):
                    p.eat(); cname = p.eat()[1]; p.eat(":"); t = p.ty(); p.eat("=")
                    save = p.i
                    try:
                        e = p.expr(); p.eat(";")
                        acc["impl_consts"]["%s::%s" % (m.group(3), cname)] = (t, e)
                    except Unsupported:
                        p.i = save; skip_item(p)
                    blk["consts"] += 1
                    continue
                if p.at("fn"):
                    save = p.i
                    try:
                        rec_ = parse_fn(p, rel, impl, self_ty)
                        if rec_ is not None:
                            rec_["assoc"] = assoc; blk["fns"].append(rec_["name"])
                        add_fn(rec_, ia + attrs if "cfg" in ia else ia)
                    except Unsupported as ex:
                        p.i = save; p.eat("fn"); nm = p.eat()[1]
                        skip_item(p)
                        fns["%s::%s" % (impl, nm)] = dict(name="%s::%s" % (impl, nm), params=[], ret="unit", body=None,
                                                           file=rel, impl=impl, self_ty=self_ty, error=str(ex))
                        blk["fns"].append("%s::%s" % (impl, nm))
                    continue
                skip_item(p)
            p.eat("}")
            continue
        if k == "id" and v in ("pub", "const", "fn"):
            save = p.i
            try:
                if p.at("pub"):
                    p.eat()
                    if p.at("("): p.skip_balanced("(", ")")
                if p.at("const") and p.at("fn", 1):
                    p.eat()
                if p.at("const"):
                    p.eat(); name = p.eat()[1]; p.eat(":"); t = p.ty(); p.eat("="); e = p.expr(); p.eat(";")
                    consts[name] = (t, e); continue
                if p.at("fn"):
                    add_fn(parse_fn(p, rel), attrs)
                    continue
            except Unsupported:
                pass
            p.i = save
            skip_item(p)
            continue
        if k == "id" and v in ("mod", "trait", "struct", "enum", "use", "type", "static", "extern", "union"):
            skip_item(p); continue
        if k == "op" and v == "{":
            p.skip_balanced("{", "}"); continue
        p.eat()


def parse_file(rel, acc=None):
    src = strip_comments(open(os.path.join(REPO, rel), encoding="utf-8", newline="").read())
    own = acc is None
    if own:
        acc = dict(fns={}, consts={}, macros={}, impl_consts={})
    parse_tokens(lex(src), rel, acc)
    return (acc["fns"], acc["consts"]) if own else acc


# ------------------------------------------------------------------ translation
class TVar:
    n = 0

    def __init__(self):
        TVar.n += 1; self.id = TVar.n; self.ref = None
        TVARS[self.id] = self

    def find(self):
        t = self
        while isinstance(t, TVar) and t.ref is not None:
            t = t.ref
        return t


def resolve(t):
    return t.find() if isinstance(t, TVar) else t


def is_int(t):
    t = resolve(t)
    return isinstance(t, TVar) or t in INT_TYPES or t is None


def tyname(t):
    """placeholder-aware Coq name of an integer type"""
    t = resolve(t)
    if isinstance(t, TVar):
        return "@T%d@" % t.id
    if t is None:
        return "I32"
    return COQ_ITY[t]


def coq_ty(t):
    t = resolve(t)
    if isinstance(t, TVar) or t is None or t in INT_TYPES:
        return "Z"
    if t == "bool": return "bool"
    if t == "unit": return "unit"
    if t == "mode": return "mode"
    if t == "dec": return "dec"
    if t == "ordering": return "comparison"
    if t == "derr": return "derr"
    if t == "tferr": return "tferr"
    if t == "gperr": return "gperr"
    if t == "str": return "(list Z)"
    if t[0] == "named" and t[1] == "DecimalError": return "derr"
    if t[0] == "result": return "(%s + %s)" % (coq_ty(t[1]), coq_ty(t[2]))
    if t[0] == "ref": return coq_ty(t[1])
    if t[0] == "opt": return "option (%s)" % coq_ty(t[1])
    if t[0] == "tup": return "(" + " * ".join(coq_ty(x) for x in t[1]) + ")"
    if t[0] == "mutref": return coq_ty(t[1])
    raise Unsupported("type %r" % (t,))


def norm_ty(t, self_ty, assoc=None):
    """Decimal / Self / Self::Output -> 'dec' (or the impl's integer type); references are transparent"""
    if isinstance(t, tuple):
        if t[0] == "named":
            if t[1] == "Decimal": return "dec"
            if assoc and t[1] in assoc and t[1] in ("Output", "Error", "Err"):
                return norm_ty(assoc[t[1]], self_ty)
            if t[1] == "TryFromDecimalError": return "tferr"
            if t[1] == "ParseDecimalError": return "gperr"
            if t[1] == "str": return "str"
            if t[1] in ("Self", "Output"):
                if self_ty is None: raise Unsupported("Self outside an impl")
                return self_ty
            if t[1] == "Ordering": return "ordering"
            if t[1] == "DecimalError": return "derr"
            return t
        if t[0] == "ref": return norm_ty(t[1], self_ty, assoc)
        if t[0] == "mutref": return ("mutref", norm_ty(t[1], self_ty, assoc))
        if t[0] == "opt": return ("opt", norm_ty(t[1], self_ty, assoc))
        if t[0] == "tup": return ("tup", tuple(norm_ty(x, self_ty, assoc) for x in t[1]))
        if t[0] == "result": return ("result", norm_ty(t[1], self_ty, assoc), norm_ty(t[2], self_ty, assoc))
    return t


def coq_name(key):
    return "g_" + key.replace("::", "_")


def unify(a, b):
    a, b = resolve(a), resolve(b)
    if a is b or a == b:
        return a
    if a is None: return b
    if b is None: return a
    if isinstance(a, TVar):
        a.ref = b; return b
    if isinstance(b, TVar):
        b.ref = a; return a
    if isinstance(a, tuple) and isinstance(b, tuple) and a[0] == b[0]:
        if a[0] == "opt":
            return ("opt", unify(a[1], b[1]))
        if a[0] == "result":
            return ("result", unify(a[1], b[1]), unify(a[2], b[2]))
        if a[0] == "tup" and len(a[1]) == len(b[1]):
            return ("tup", tuple(unify(x, y) for x, y in zip(a[1], b[1])))
    raise Unsupported("type mismatch %r / %r" % (a, b))


def widening(src, dst):
    """True when every value of integer type src is representable in dst"""
    src, dst = resolve(src), resolve(dst)
    if src not in INT_TYPES or dst not in INT_TYPES:
        return False
    sb, ss = INT_TYPES[src]; db, ds = INT_TYPES[dst]
    if ss == ds: return db >= sb
    if not ss and ds: return db > sb
    return False


def num(n):
    return str(n) if n >= 0 else "(%d)" % n


def const_eval(e, consts):
    """evaluate a literal-only constant expression (rustc rejects overflow in consts, so plain integers are right)"""
    k = e[0]
    if k == "lit": return e[1]
    if k == "paren": return const_eval(e[1], consts)
    if k == "neg": return -const_eval(e[1], consts)
    if k == "cast": return const_eval(e[1], consts)
    if k == "path" and len(e[1]) == 1 and e[1][0] in consts: return consts[e[1][0]]
    if k == "path" and len(e[1]) == 2 and e[1][0] in INT_TYPES and e[1][1] in ("MAX", "MIN"):
        b, s = INT_TYPES[e[1][0]]
        return ((1 << (b - 1)) - 1 if s else (1 << b) - 1) if e[1][1] == "MAX" else (-(1 << (b - 1)) if s else 0)
    if k == "bin":
        a, b = const_eval(e[2], consts), const_eval(e[3], consts)
        return {"+": lambda: a + b, "-": lambda: a - b, "*": lambda: a * b, "<<": lambda: a << b, ">>": lambda: a >> b,
                "&": lambda: a & b, "|": lambda: a | b, "^": lambda: a ^ b, "/": lambda: int(a / b) if b else 0,
                "%": lambda: a - b * int(a / b)}[e[1]]()
    raise Unsupported("constant expression %r" % (k,))


class Fn:
    """translation of one function"""

    def __init__(self, f, sigs, file_consts, uses_dflt):
        self.f = f; self.sigs = sigs; self.fc = file_consts; self.uses_dflt = uses_dflt
        self.tmp = 0; self.loops = []; self.lconsts = {}
        self.self_ty = f.get("self_ty")
        self.assoc = f.get("assoc") or {}
        f = dict(f); f["params"] = [(n, norm_ty(t, self.self_ty, self.assoc)) for n, t in f["params"]]; self.f = f
        self.mutrefs = [n for n, t in f["params"] if isinstance(t, tuple) and t[0] == "mutref"]
        self.ret = norm_ty(f["ret"], self.self_ty, self.assoc)
        self.impl_consts = {}
        self.needs_dflt = False

    def fresh(self, base="tmp"):
        self.tmp += 1
        return "%s%d" % (base, self.tmp)

    def v(self, name):
        return name + "_" if name in RESERVED else name

    # ---------- rendering helpers
    @staticmethod
    def wrap(pre, body):
        out = body
        for p in reversed(pre):
            if p[0] == "bind":
                out = "%s <- %s ;;\n%s" % (p[1], p[2], out)
            elif p[0] == "let":
                out = "let %s := %s in\n%s" % (p[1], p[2], out)
            elif p[0] == "panic":
                out = "Panic"
            elif p[0] == "tryres":
                out = "match %s with\n| inr e_ => Val (inr e_)\n| inl %s => %s\nend" % (p[2], p[1], out)
            elif p[0] == "try":     # (try, pat, opt_term, none_code)
                out = "match %s with\n| None => %s\n| Some %s => %s\nend" % (p[2], p[3], p[1], out)
        return out

    @staticmethod
    def monadic(pre, term):
        """code of type res T computing term after pre; peephole  x <- e ;; Val x  ==>  e"""
        if pre and pre[-1][0] == "bind" and pre[-1][1].lstrip("'") == term and "(" not in term.replace(pre[-1][1].lstrip("'"), ""):
            return Fn.wrap(pre[:-1], pre[-1][2])
        if pre and pre[-1][0] == "bind" and pre[-1][1].lstrip("'") == term:
            return Fn.wrap(pre[:-1], pre[-1][2])
        if pre and pre[-1][0] == "panic":
            return Fn.wrap(pre, "Panic")
        return Fn.wrap(pre, "Val %s" % atom(term))

    # ---------- evaluation order
    @staticmethod
    def rebound(pre):
        out = set()
        for p_ in pre:
            if p_[0] in ("bind", "let", "try", "tryres"):
                out |= set(re.findall(r"[A-Za-z_][\w']*", p_[1]))
        return out

    def in_order(self, parts):
        """parts = [(pre, term)] in Rust's evaluation order; a later part that re-binds a variable an earlier term reads
        (a `&mut` argument, an assignment inside a block) must not change what the earlier term meant: snapshot it"""
        pre, terms = [], []
        for i, (p_, t_) in enumerate(parts):
            rb = self.rebound(p_)
            if rb:
                for j in range(len(terms)):
                    if set(re.findall(r"[A-Za-z_][\w']*", terms[j])) & rb:
                        snap = self.fresh("snap")
                        pre.append(("let", snap, terms[j])); terms[j] = snap
            pre += p_; terms.append(t_)
        return pre, terms

    # ---------- expressions: returns (pre, term, type)
    def e(self, x, env, want=None):
        k = x[0]
        if k == "lit":
            t = x[2] if x[2] else want
            return [], num(x[1]), t
        if k == "bool":
            return [], "true" if x[1] else "false", "bool"
        if k == "paren":
            return self.e(x[1], env, want)
        if k == "path":
            p = x[1]
            if len(p) == 1:
                n = p[0]
                if n in env:
                    return [], self.v(n), env[n]
                if n in self.lconsts:
                    return [], self.v(n), self.lconsts[n]
                if n in self.fc:
                    return [], "g_" + n, self.fc[n][0]
                if n == "None":
                    return [], "None", ("opt", want[1] if isinstance(want, tuple) and want[0] == "opt" else TVar())
                raise Unsupported("unknown name %s" % n)
            if len(p) == 2 and p[0] in INT_TYPES and p[1] in ("MAX", "MIN"):
                return [], "(%s %s)" % ("tmax" if p[1] == "MAX" else "tmin", COQ_ITY[p[0]]), p[0]
            if len(p) == 2 and p[0] == "RoundingMode" and p[1] in MODES:
                return [], MODES[p[1]], "mode"
            if len(p) == 2 and p[0] == "Ordering" and p[1] in ("Less", "Equal", "Greater"):
                return [], {"Less": "Lt", "Equal": "Eq", "Greater": "Gt"}[p[1]], "ordering"
            if len(p) == 2 and p[0] == "DecimalError":
                return [], "E_" + p[1], "derr"
            if len(p) == 2 and p[0] == "TryFromDecimalError":
                return [], "TE_" + p[1], "tferr"
            if len(p) == 2 and p[0] == "ParseDecimalError":
                return [], "GP_" + p[1], "gperr"
            if len(p) == 2 and (p[0] == "Decimal" or (p[0] == "Self" and self.self_ty == "dec")) and "Decimal::" + p[1] in self.impl_consts:
                t, ce = self.impl_consts["Decimal::" + p[1]]
                save = self.self_ty; self.self_ty = "dec"
                try:
                    pre, a, ty = self.e(ce, {}, "dec")
                finally:
                    self.self_ty = save
                if pre: raise Unsupported("effectful associated constant")
                return [], a, "dec"
            raise Unsupported("path %s" % "::".join(p))
        if k == "struct":
            if norm_ty(("named", x[1][-1]), self.self_ty, self.assoc) != "dec":
                raise Unsupported("struct literal %s" % "::".join(x[1]))
            fl = dict(x[2])
            if set(fl) != {"coeff", "n_frac_digits"}:
                raise Unsupported("fields of a Decimal literal")
            p1, c, _ = self.e(fl["coeff"], env, "i128")
            p2, n, _ = self.e(fl["n_frac_digits"], env, "u8")
            # Rust evaluates the field initialisers in the order written
            order = [f_ for f_, _ in x[2]]
            pre = p1 + p2 if order[0] == "coeff" else p2 + p1
            if order[0] != "coeff" and p1 and p2:
                raise Unsupported("effectful Decimal literal fields out of order")
            return pre, "(mkdec %s %s)" % (atom(c), atom(n)), "dec"
        if k == "fieldn":
            pre, a, t = self.e(x[1], env, None)
            if resolve(t) == "dec" and x[2] == "coeff":
                return pre, "(coeff %s)" % atom(a), "i128"
            if resolve(t) == "dec" and x[2] == "n_frac_digits":
                return pre, "(nfd %s)" % atom(a), "u8"
            raise Unsupported("field %s" % x[2])
        if k == "deref":
            return self.e(x[1], env, want)
        if k == "mutref" or k == "ref":
            return self.e(x[1], env, want)
        if k == "neg":
            if x[1][0] == "lit":
                return [], num(-x[1][1]), x[1][2] or want
            pre, a, t = self.e(x[1], env, want)
            r = self.fresh()
            return pre + [("bind", r, "ck_neg pf %s %s" % (tyname(t), atom(a)))], r, t
        if k == "not":
            pre, a, t = self.e(x[1], env, want)
            if resolve(t) != "bool":
                raise Unsupported("bitwise not")
            return pre, "negb %s" % atom(a), "bool"
        if k == "cast":
            pre, a, t = self.e(x[1], env, None)
            dst = x[2]
            if dst not in INT_TYPES:
                raise Unsupported("cast to %r" % (dst,))
            t = resolve(t)
            if t is None or isinstance(t, TVar):
                # literal or still-unknown variable: a literal takes the target type
                if x[1][0] in ("lit",) or (x[1][0] == "paren" and x[1][1][0] == "lit"):
                    return pre, a, dst
                raise Unsupported("cast of a value of unknown type")
            if t == dst or widening(t, dst):
                return pre, a, dst
            return pre, "cast %s %s" % (COQ_ITY[dst], atom(a)), dst
        if k == "tuple":
            pre, ts, tys = [], [], []
            wl = want[1] if isinstance(want, tuple) and want[0] == "tup" else [None] * len(x[1])
            parts = []
            for sub, w in zip(x[1], wl):
                p, a, t = self.e(sub, env, w); parts.append((p, a)); tys.append(t)
            pre, ts = self.in_order(parts)
            return pre, "(" + ", ".join(ts) + ")", ("tup", tuple(tys))
        if k == "bin":
            return self.binop(x, env, want)
        if k == "call":
            return self.call(x, env, want)
        if k == "mcall":
            return self.mcall(x, env, want)
        if k == "index":
            pa, a, ta = self.e(x[1], env, None)
            pi, i, ti = self.e(x[2], env, "usize")
            ta = resolve(ta)
            if not (isinstance(ta, tuple) and ta[0] == "arr"):
                raise Unsupported("indexing a non-array")
            r = self.fresh()
            return pa + pi + [("bind", r, "index %s %s" % (atom(a), atom(i)))], r, ta[1]
        if k == "try":
            pre, a, t = self.e(x[1], env, None)
            t = resolve(t)
            if isinstance(t, tuple) and t[0] == "result":
                rt = resolve(self.ret)
                if not (isinstance(rt, tuple) and rt[0] == "result") or self.mutrefs:
                    raise Unsupported("? on a Result in a function not returning Result")
                unify(t[2], rt[2])
                r = self.fresh()
                return pre + [("tryres", r, a)], r, t[1]
            if not (isinstance(t, tuple) and t[0] == "opt"):
                raise Unsupported("? on a non-Option")
            rt = resolve(self.ret)
            if not (isinstance(rt, tuple) and rt[0] == "opt") or self.mutrefs:
                raise Unsupported("? in a function not returning Option")
            r = self.fresh()
            return pre + [("try", r, a, "Val None")], r, t[1]
        if k == "if":
            return self.if_expr(x, env, want)
        if k == "match":
            return self.match_expr(x, env, want)
        if k == "block":
            code, t, pure = self.value_block(x[1], env, want)
            r = self.fresh()
            return [("let" if pure else "bind", r, code)], r, t
        if k == "macro":
            if x[1] in REDEFINED_MACROS:
                raise Unsupported("macro %s! is redefined in this crate" % x[1])
            if x[1] in ("panic", "unreachable", "unimplemented", "todo"):
                return [("panic",)], "tt", want if want is not None else TVar()
            raise Unsupported("macro %s! in expression" % x[1])
        raise Unsupported("expression %s" % k)

    def binop(self, x, env, want):
        op = x[1]
        if op in ("&&", "||"):
            pl, l, _ = self.e(x[2], env, "bool")
            pr, r, _ = self.e(x[3], env, "bool")
            if not pr:
                return pl, "(%s %s %s)" % (atom(l), op, atom(r)), "bool"
            c = self.fresh("c")
            rc = self.monadic(pr, r)
            if op == "&&":
                code = "(if %s then %s else Val false)" % (l, rc)
            else:
                code = "(if %s then Val true else %s)" % (l, rc)
            return pl + [("bind", c, code)], c, "bool"
        cmpops = {"==": "=?", "<": "<?", ">": ">?", "<=": "<=?", ">=": ">=?"}
        if op in cmpops or op == "!=":
            pl, l, tl = self.e(x[2], env, None)
            pr, r, tr = self.e(x[3], env, tl)
            if resolve(tl) is None and resolve(tr) is not None:
                pl, l, tl = self.e(x[2], env, tr)
            t = unify(tl, tr)
            pre_, (l, r) = self.in_order([(pl, l), (pr, r)])
            if resolve(t) == "bool":
                s = "Bool.eqb %s %s" % (atom(l), atom(r))
                if op == "==": return pre_, "(%s)" % s, "bool"
                if op == "!=": return pre_, "(negb (%s))" % s, "bool"
                raise Unsupported("ordering of bools")
            if not is_int(t):
                raise Unsupported("comparison of non-integers")
            if op == "!=":
                return pre_, "(negb (%s =? %s))" % (atom(l), atom(r)), "bool"
            return pre_, "(%s %s %s)" % (atom(l), cmpops[op], atom(r)), "bool"
        if op in ("<<", ">>"):
            pl, l, tl = self.e(x[2], env, want)
            pr, r, tr = self.e(x[3], env, None)
            tlr = resolve(tl)
            pre_, (l, r) = self.in_order([(pl, l), (pr, r)])
            if op == ">>" and x[3][0] == "lit" and tlr in INT_TYPES and 0 <= x[3][1] < INT_TYPES[tlr][0] \
                    and not INT_TYPES[tlr][1]:
                return pre_, "(Z.shiftr %s %s)" % (atom(l), atom(r)), tl
            t = self.fresh()
            f = "ck_shl" if op == "<<" else "ck_shr"
            return pre_ + [("bind", t, "%s pf %s %s %s" % (f, tyname(tl), atom(l), atom(r)))], t, tl
        pl, l, tl = self.e(x[2], env, want)
        pr, r, tr = self.e(x[3], env, tl if resolve(tl) is not None else want)
        if resolve(tl) is None and resolve(tr) is not None:
            pl, l, tl = self.e(x[2], env, tr)
        t = unify(tl, tr)
        if resolve(t) is None and x[2][0] in ("lit", "paren", "bin") and x[3][0] in ("lit", "paren", "bin"):
            # literal arithmetic, evaluated by the compiler
            return [], num(const_eval(x, {})), None
        pre_, (l, r) = self.in_order([(pl, l), (pr, r)])
        return self.arith(op, pre_, l, r, t)

    def arith(self, op, pre_, l, r, t):
        if op in ("&", "|", "^"):
            if resolve(t) == "bool":
                raise Unsupported("non-short-circuit boolean operator")
            f = {"&": "Z.land", "|": "Z.lor", "^": "Z.lxor"}[op]
            return pre_, "(%s %s %s)" % (f, atom(l), atom(r)), t
        if not is_int(t):
            raise Unsupported("arithmetic on non-integers")
        tmp = self.fresh()
        if op in ("+", "-", "*"):
            f = {"+": "ck_add", "-": "ck_sub", "*": "ck_mul"}[op]
            return pre_ + [("bind", tmp, "%s pf %s %s %s" % (f, tyname(t), atom(l), atom(r)))], tmp, t
        if op in ("/", "%"):
            f = {"/": "t_div", "%": "t_rem"}[op]
            return pre_ + [("bind", tmp, "%s %s %s %s" % (f, tyname(t), atom(l), atom(r)))], tmp, t
        raise Unsupported("operator %s" % op)

    def call(self, x, env, want):
        fn = x[1]
        if fn[0] != "path":
            raise Unsupported("call of a non-path")
        p = fn[1]
        if p == ["Some"]:
            w = want[1] if isinstance(want, tuple) and want[0] == "opt" else None
            pre, a, t = self.e(x[2][0], env, w)
            return pre, "(Some %s)" % atom(a), ("opt", t)
        if p in (["Result", "Ok"], ["Result", "Err"]):
            p = p[1:]
        if p in (["Ok"], ["Err"]) and len(x[2]) == 1:
            w = resolve(want) if want is not None else None
            wt = (w[1] if p == ["Ok"] else w[2]) if isinstance(w, tuple) and w[0] == "result" else None
            pre, a, t = self.e(x[2][0], env, wt)
            if p == ["Ok"]:
                return pre, "(inl %s)" % atom(a), ("result", t, w[2] if isinstance(w, tuple) and w[0] == "result" else TVar())
            return pre, "(inr %s)" % atom(a), ("result", w[1] if isinstance(w, tuple) and w[0] == "result" else TVar(), t)
        if p in (["min"], ["max"], ["core", "cmp", "min"], ["core", "cmp", "max"]) and len(x[2]) == 2:
            pa, a, ta = self.e(x[2][0], env, None)
            pb, b, tb = self.e(x[2][1], env, ta)
            t = unify(ta, tb)
            if not is_int(t): raise Unsupported("min/max of non-integers")
            return pa + pb, "(Z.%s %s %s)" % (p[-1], atom(a), atom(b)), t
        if p == ["RoundingMode", "default"] and not x[2]:
            self.needs_dflt = True
            return [], "dflt", "mode"
        name = p[-1]
        if len(p) == 1 and (self.f["file"], name) in getattr(self, "alias", {}):
            name = self.alias[(self.f["file"], name)]
            if name not in self.sigs:
                raise Unsupported("call of the local function %s, which could not be translated" % p[-1])
            return self.call_sig(name, x[2], env)
        if len(p) == 2 and p[1] == "try_from" and len(x[2]) == 1 and (p[0] in INT_TYPES or (p[0] == "Self" and self.self_ty in INT_TYPES)):
            T = p[0] if p[0] in INT_TYPES else self.self_ty
            pre, a, t = self.e(x[2][0], env, None)
            if resolve(t) == "dec":
                key = "TryFrom_by_%s::try_from" % T
                if key not in self.sigs: raise Unsupported("call of untranslated %s" % key)
                return self.call_sig(key, x[2], env)
            if resolve(t) not in INT_TYPES: raise Unsupported("try_from of %r" % (resolve(t),))
            # core's TryFrom between integer types: Ok iff the value is in the target range (the error carries nothing)
            return pre, "(if in_range %s %s then inl %s else inr tt)" % (COQ_ITY[T], atom(a), atom(a)), ("result", T, "unit")
        if len(p) == 2 and p[1] == "from" and len(x[2]) == 1 and (p[0] == "Decimal" or (p[0] == "Self" and self.self_ty == "dec")):
            pre, a, t = self.e(x[2][0], env, None)
            key = "From_%s::from" % resolve(t)
            if key not in self.sigs: raise Unsupported("call of untranslated %s" % key)
            return self.call_sig(key, x[2], env)
        if len(p) == 2 and p[0] in INT_TYPES and p[1] == "from" and len(x[2]) == 1:
            pre, a, t = self.e(x[2][0], env, None)
            if not widening(t, p[0]):
                raise Unsupported("%s::from of %r" % (p[0], resolve(t)))
            return pre, a, p[0]
        if len(p) == 2 and p[0] in INT_TYPES and x[2]:
            # i128::checked_add(a, b)  ==  a.checked_add(b)
            return self.mcall(("mcall", x[2][0], p[1], x[2][1:]), env, want)
        if len(p) == 2 and "::".join(p) in self.sigs:
            name = "::".join(p)
        elif len(p) == 2 and p[0] == "Self" and self.f.get("impl") and "%s::%s" % (self.f["impl"], p[1]) in self.sigs:
            name = "%s::%s" % (self.f["impl"], p[1])
        elif len(p) > 1 and p[0] not in ("crate", "super", "self"):
            raise Unsupported("call of %s" % "::".join(p))
        if name in EXTERNALS and name not in self.sigs:
            ext = EXTERNALS[name]
            pre, args = [], []
            for (pn, pt), a in zip(ext["params"], x[2]):
                pp, t, ty = self.e(a, env, pt); pre += pp; args.append(atom(t))
            self.externals_used = getattr(self, "externals_used", set()) | {name}
            r = self.fresh()
            return pre + [("bind", r, "ext_%s %s" % (name, " ".join(args)))], r, ext["ret"]
        if name not in self.sigs:
            raise Unsupported("call of untranslated function %s" % name)
        return self.call_sig(name, x[2], env)

    def call_sig(self, name, actuals, env):
        x = (None, None, actuals)
        sig = self.sigs[name]
        if len(sig["params"]) != len(x[2]):
            raise Unsupported("arity of %s" % name)
        pre, args, outs = [], [], []
        for (pn, pt), a in zip(sig["params"], x[2]):
            if isinstance(pt, tuple) and pt[0] == "mutref":
                inner = a[1] if a[0] == "mutref" else a
                if inner[0] != "path" or len(inner[1]) != 1 or inner[1][0] not in env:
                    raise Unsupported("&mut argument is not a variable")
                args.append(self.v(inner[1][0])); outs.append(inner[1][0])
            else:
                pp, t, ty = self.e(a, env, pt)
                unify(ty, pt)
                if self.rebound(pp):
                    for j_ in range(len(args)):
                        if set(re.findall(r"[A-Za-z_][\w']*", args[j_])) & self.rebound(pp):
                            snap = self.fresh("snap"); pre.append(("let", snap, args[j_])); args[j_] = snap
                pre += pp; args.append(atom(t))
        r = self.fresh()
        head = "%s pf" % coq_name(name) + (" dflt" if name in self.uses_dflt else "")
        if name in self.uses_dflt:
            self.needs_dflt = True
        callc = "%s %s" % (head, " ".join(args)) if args else head
        if outs:
            pat = "'(" + ", ".join([self.v(o) for o in outs] + [r]) + ")"
            return pre + [("bind", pat, callc)], r, sig["ret"]
        return pre + [("bind", r, callc)], r, sig["ret"]

    def mcall(self, x, env, want):
        recv, m, args = x[1], x[2], x[3]
        pl, l, tl = self.e(recv, env, None)
        tlr = resolve(tl)
        # a method of an impl block that was translated
        cands = [k_ for k_, sg in self.sigs.items() if "::" in k_ and k_.split("::")[1] == m and sg.get("self_ty") == tlr
                 and sg["params"] and sg["params"][0][0] == "self"]
        if tlr == "dec" or (cands and m in ("divmod", "div_floor", "div_ceil")):
            if len(cands) != 1:
                raise Unsupported("method %s on %s (%d candidates)" % (m, tlr, len(cands)))
            return self.call_sig(cands[0], [recv] + list(args), env)
        if m in ("checked_add", "checked_sub", "checked_mul", "wrapping_add", "wrapping_sub", "wrapping_mul"):
            pr, r, tr = self.e(args[0], env, tl)
            t = unify(tl, tr)
            o = {"add": "+", "sub": "-", "mul": "*"}[m.split("_")[1]]
            if m.startswith("checked"):
                return pl + pr, "(checked %s (%s %s %s))" % (tyname(t), atom(l), o, atom(r)), ("opt", t)
            return pl + pr, "(wrap %s (%s %s %s))" % (tyname(t), atom(l), o, atom(r)), t
        if m == "from" and len(args) == 0 and False:
            pass
        if m == "trailing_zeros" and not args and tlr in INT_TYPES:
            return pl, "(tz %d %s)" % (INT_TYPES[tlr][0], atom(l)), "u32"
        if m == "leading_zeros" and not args and tlr in INT_TYPES and not INT_TYPES[tlr][1]:
            return pl, "(lz %d %s)" % (INT_TYPES[tlr][0], atom(l)), "u32"
        if m == "signum" and not args:
            return pl, "(Z.sgn %s)" % atom(l), tl
        if m == "map" and len(args) == 1 and isinstance(tlr, tuple) and tlr[0] == "opt" and args[0][0] in ("closure", "path"):
            cl = args[0]
            if cl[0] == "path":      # .map(f)  ==  .map(|x| f(x))
                cl = ("closure", [("pvar", "x_")], ("call", cl, [("path", ["x_"])]))
            if len(cl[1]) != 1: raise Unsupported("closure arity")
            env2 = dict(env)
            cp = self.pattern(cl[1][0], tlr[1], env2)
            pb, b, tb = self.e(cl[2], env2, None)
            if pb:
                r = self.fresh()
                code = "match %s with\n| None => Val None\n| Some %s => %s\nend" % (atom(l), cp, self.monadic(pb, "(Some %s)" % atom(b)))
                return pl + [("bind", r, code)], r, ("opt", tb)
            return pl, "(option_map (fun %s => %s) %s)" % (cp if not cp.startswith("(") else "'" + cp, b, atom(l)), ("opt", tb)
        if m == "unsigned_abs" and not args:
            u = {"i8": "u8", "i16": "u16", "i32": "u32", "i64": "u64", "i128": "u128", "isize": "usize"}.get(tlr)
            if not u: raise Unsupported("unsigned_abs on %r" % (tlr,))
            return pl, "(Z.abs %s)" % atom(l), u
        if m == "is_negative" and not args:
            return pl, "(%s <? 0)" % atom(l), "bool"
        if m == "is_positive" and not args:
            return pl, "(%s >? 0)" % atom(l), "bool"
        if m == "neg" and not args:
            r = self.fresh()
            return pl + [("bind", r, "ck_neg pf %s %s" % (tyname(tl), atom(l)))], r, tl
        if m == "abs" and not args:
            r = self.fresh()
            return pl + [("bind", r, "ck_abs pf %s %s" % (tyname(tl), atom(l)))], r, tl
        if m == "partial_cmp" and len(args) == 1 and is_int(tl):
            pr, r, tr = self.e(args[0], env, tl)
            unify(tl, tr)
            return pl + pr, "(Some (Z.compare %s %s))" % (atom(l), atom(r)), ("opt", "ordering")
        if m == "unwrap" and not args and isinstance(tlr, tuple) and tlr[0] == "opt":
            r = self.fresh()
            return pl + [("bind", r, "match %s with Some x_ => Val x_ | None => Panic end" % atom(l))], r, tlr[1]
        if m == "cmp" and len(args) == 1:
            pr, r, tr = self.e(args[0], env, tl)
            unify(tl, tr)
            return pl + pr, "(Z.compare %s %s)" % (atom(l), atom(r)), "ordering"
        if m in ("unwrap_or", "unwrap_or_else") and len(args) == 1 and isinstance(tlr, tuple) and tlr[0] == "opt":
            a0 = args[0]
            if m == "unwrap_or_else":
                if a0[0] == "path" and a0[1] == ["RoundingMode", "default"]:
                    a0 = ("call", a0, [])
                else:
                    raise Unsupported("unwrap_or_else with a closure")
            pr, r, tr = self.e(a0, env, tlr[1])
            if pr:
                raise Unsupported("unwrap_or with an effectful default")
            unify(tr, tlr[1])
            x = self.fresh("x")
            return pl, "(match %s with Some %s => %s | None => %s end)" % (atom(l), x, x, atom(r)), tlr[1]
        raise Unsupported("method %s" % m)

    def if_expr(self, x, env, want):
        pc, c, _ = self.e(x[1], env, "bool")
        if x[3] is None:
            raise Unsupported("if-expression without else")
        tc, tt, tp = self.value_block(x[2], env, want)
        ec, et, ep = self.value_block(x[3], env, want if resolve(tt) is None else tt)
        if resolve(tt) is None and resolve(et) is not None:
            tc, tt, tp = self.value_block(x[2], env, et)
        t = unify(tt, et)
        r = self.fresh()
        if tp and ep:
            return pc + [("let", r, "if %s then %s else %s" % (c, tc, ec))], r, t
        if tp: tc = "Val %s" % atom(tc)
        if ep: ec = "Val %s" % atom(ec)
        return pc + [("bind", r, "(if %s then %s else %s)" % (c, tc, ec))], r, t

    def value_block(self, blk, env, want):
        """block used for its value: (code, type, pure?) — pure code is a term, otherwise of type res T"""
        stmts, tail = blk
        if tail is None and len(stmts) == 0:
            raise Unsupported("empty value block")
        if contains_jump(blk):
            raise Unsupported("return/break/? inside a value block")
        if set(assigned(blk)) & set(env):
            raise Unsupported("a block used for its value assigns an outer variable")
        env = dict(env)
        holder = {}

        def k(env2):
            if tail is None:
                raise Unsupported("value block without tail expression")
            pre, a, t = self.e(tail, env2, want)
            holder["t"] = t
            holder["pure"] = not pre
            return (a if not pre else self.monadic(pre, a)), not pre
        code, pure = self.stmts(stmts, 0, env, k)
        return code, holder.get("t"), pure

    def match_expr(self, x, env, want):
        if self.is_int_match(x):
            return self.if_expr(self.int_match_to_if(x), env, want)
        ps, s, ts = self.e(x[1], env, None)
        arms = []
        allpure = True; rt = want
        for pat, body in x[2]:
            env2 = dict(env)
            cp = self.pattern(pat, ts, env2)
            code, t, pure = self.value_block(body if body[0] or body[1] is not None else body, env2, rt)
            if resolve(t) is not None and not (isinstance(resolve(t), TVar) and rt is not None):
                rt = unify(rt, t) if rt is not None else t
            arms.append((cp, code, pure)); allpure = allpure and pure
        r = self.fresh()
        if allpure:
            body = "match %s with %s end" % (s, " ".join("| %s => %s" % (cp, c) for cp, c, _ in arms))
            return ps + [("let", r, body)], r, rt
        body = "match %s with\n%s\nend" % (s, "\n".join("| %s => %s" % (cp, c if not pure else "Val %s" % atom(c))
                                                           for cp, c, pure in arms))
        return ps + [("bind", r, body)], r, rt

    def pattern(self, pat, ty, env):
        """Coq pattern for a Rust pattern; binds variables in env"""
        ty = resolve(ty)
        k = pat[0]
        if k == "pvar":
            env[pat[1]] = ty; return self.v(pat[1])
        if k == "pwild":
            return "_"
        if k == "pbool":
            return pat[1]
        if k == "por":
            before = set(env)
            ps = [self.pattern(q, ty, env) for q in pat[1]]
            if set(env) != before:
                raise Unsupported("or-pattern binding variables")
            return " | ".join(ps)
        if k == "ptup":
            if not (isinstance(ty, tuple) and ty[0] == "tup" and len(ty[1]) == len(pat[1])):
                raise Unsupported("tuple pattern against %r" % (ty,))
            return "(" + ", ".join(self.pattern(p, t, env) for p, t in zip(pat[1], ty[1])) + ")"
        if k == "pctor":
            path, subs = pat[1], pat[2]
            if path == ["None"]: return "None"
            if path in (["Ok"], ["Err"]):
                if not (isinstance(ty, tuple) and ty[0] == "result"): raise Unsupported("Ok/Err pattern on a non-Result")
                return "%s %s" % ("inl" if path == ["Ok"] else "inr", self.pattern(subs[0], ty[1] if path == ["Ok"] else ty[2], env))
            if path == ["Some"]:
                inner = ty[1] if isinstance(ty, tuple) and ty[0] == "opt" else TVar()
                return "Some %s" % self.pattern(subs[0], inner, env)
            if len(path) == 2 and path[0] == "RoundingMode": return MODES[path[1]]
            if len(path) == 2 and path[0] == "Ordering":
                return {"Equal": "Eq", "Less": "Lt", "Greater": "Gt"}[path[1]]
            raise Unsupported("pattern %s" % "::".join(path))
        raise Unsupported("pattern %s" % k)

    # ---------- statements (continuation-passing).  k(env) -> (code, pure) for what follows the block
    def stmts(self, ss, i, env, k):
        if i == len(ss):
            return k(env)
        s = ss[i]; kind = s[0]

        def rest(env2):
            return self.stmts(ss, i + 1, env2, k)
        if kind == "const":
            name = s[1]
            if isinstance(s[2], tuple) and s[2][0] == "arr":
                if s[3][0] != "array": raise Unsupported("array const initialiser")
                vals = [const_eval(z, self.lconst_vals()) for z in s[3][1]]
                self.lconsts[name] = ("arr", s[2][1])
                code, pure = rest(env)
                return "let %s := [%s] in\n%s" % (self.v(name), "; ".join(num(z) for z in vals), code), pure
            val = const_eval(s[3], self.lconst_vals())
            self.lconsts[name] = s[2]; self._lcv = dict(self.lconst_vals(), **{name: val})
            code, pure = rest(env)
            return "let %s := %s in\n%s" % (self.v(name), num(val), code), pure
        if kind == "let" and s[3][0] == "try" and s[3][1][0] in ("if", "match"):
            # let p = (if c { a } else { b? })?;  ~>  if c { let p = a?; rest } else { let p = b??..; rest }
            return self.stmts([("expr", push_let(s[3][1], s[1], s[2], True))] + list(ss[i + 1:]), 0, env, k)
        if kind == "let" and s[3][0] in ("if", "match") and contains_jump(("", s[3])):
            # let p = match .. { A => e1, B => e2? };  ~>  match .. { A => { let p = e1; rest }, B => { let p = e2?; rest } }
            return self.stmts([("expr", push_let(s[3], s[1], s[2]))] + list(ss[i + 1:]), 0, env, k)
        if kind == "let":
            pat, ty, ex = s[1], s[2], s[3]
            if ty is not None: ty = norm_ty(ty, self.self_ty, self.assoc)
            pre, a, t = self.e(ex, env, ty)
            if ty is not None:
                t = unify(t, ty) if resolve(t) is not None else ty
            elif resolve(t) is None:
                t = TVar()
            env2 = dict(env)
            cp = self.pattern(pat, t, env2)
            code, pure = rest(env2)
            return self.bind_to(pre, a, cp, code), pure and not pre
        if kind == "assign":
            op, lhs, rhs = s[1], s[2], s[3]
            while lhs[0] in ("deref", "paren"):
                lhs = lhs[1]
            if lhs[0] != "path" or len(lhs[1]) != 1 or lhs[1][0] not in env:
                raise Unsupported("assignment target")
            name = lhs[1][0]
            vt = env[name]
            if isinstance(vt, tuple) and vt[0] == "mutref": vt = vt[1]
            if op != "=" and op[:-1] in ("+", "-", "*", "/", "%", "&", "|", "^") :
                # `a op= e` on a primitive: e is evaluated first, then a is read
                pr_, r_, tr_ = self.e(rhs, env, vt)
                pre, a, t = self.arith(op[:-1], list(pr_), self.v(name), r_, unify(vt, tr_))
            else:
                ex = rhs if op == "=" else ("bin", op[:-1], ("path", [name]), rhs)
                pre, a, t = self.e(ex, env, vt)
            unify(t, vt)
            code, pure = rest(env)
            return self.bind_to(pre, a, self.v(name), code), pure and not pre
        if kind == "expr":
            ex = s[1]
            if ex[0] == "macro":
                return self.macro_stmt(ex, env, rest)
            if ex[0] == "call" and ex[1][0] == "path" and ex[1][1][-1] == "swap" and len(ex[2]) == 2 \
                    and all(a[0] == "mutref" and a[1][0] == "path" and len(a[1][1]) == 1 and a[1][1][0] in env for a in ex[2]):
                # mem::swap(&mut u, &mut v)
                u_, v_ = ex[2][0][1][1][0], ex[2][1][1][1][0]
                unify(env[u_], env[v_])
                code, pure = rest(env)
                return "let '(%s, %s) := (%s, %s) in\n%s" % (self.v(u_), self.v(v_), self.v(v_), self.v(u_), code), pure
            if ex[0] == "if":
                return self.if_stmt(ex, env, rest, k)
            if ex[0] == "match":
                return self.match_stmt(ex, env, rest)
            pre, a, t = self.e(ex, env, None)
            code, pure = rest(env)
            return self.wrap(pre, code), pure and not pre
        if kind == "return":
            if getattr(self, "loop_ctx", None):
                # early return from inside a loop: the loop yields  inr <function result>
                if self.mutrefs or s[1] is None: raise Unsupported("return inside a loop of a function with &mut parameters")
                pre, a, t = self.e(s[1], env, self.ret)
                unify(t, self.ret)
                return self.wrap(pre, "Val (inr %s)" % atom(a)), False
            return self.k_return(s[1], env), False
        if kind == "break":
            if not getattr(self, "loop_ctx", None):
                raise Unsupported("break outside a loop")
            return self.loop_exit(), False
        if kind == "while":
            return self.while_stmt(s, env, rest)
        raise Unsupported("statement %s" % kind)

    def lconst_vals(self):
        return getattr(self, "_lcv", {})

    def bind_to(self, pre, term, pat, code):
        """bind the value `term` (after pre) to pattern pat, then code"""
        pat_b = pat if not pat.startswith("(") else "'" + pat
        if pre and pre[-1][0] in ("bind", "let") and pre[-1][1] == term and re.match(r"^(tmp|c)\d+$", term):
            last = pre[-1]
            return self.wrap(pre[:-1] + [(last[0], pat_b if last[0] == "bind" else (pat_b if pat.startswith("(") else pat), last[2])], code)
        return self.wrap(pre, "let %s := %s in\n%s" % (pat_b if pat.startswith("(") else pat, term, code))

    def macro_stmt(self, ex, env, rest):
        name, inner = ex[1], ex[2]
        if name in REDEFINED_MACROS:
            raise Unsupported("macro %s! is redefined in this crate" % name)
        if name in ("debug_assert", "debug_assert_ne", "debug_assert_eq", "assert", "assert_ne", "assert_eq"):
            p = P(list(inner) + [("eof", "")])
            a = p.expr()
            if name.endswith(("_ne", "_eq")):
                p.eat(","); b = p.expr()
                a = ("bin", "!=" if name.endswith("_ne") else "==", a, b)
            pre, c, _ = self.e(a, env, "bool")
            code, pure = rest(env)
            f = "dbg_assert pf" if name.startswith("debug") else "assert"
            return self.wrap(pre + [("bind", "_", "%s %s" % (f, atom(c)))], code), False
        if name in ("panic", "unreachable"):
            return "Panic", False
        raise Unsupported("macro %s!" % name)

    def k_return(self, ex, env):
        rt = self.ret
        if ex is None:
            if self.mutrefs:
                return "Val %s" % tuple_of([self.v(m) for m in self.mutrefs] + ["tt"])
            return "Val tt"
        pre, a, t = self.e(ex, env, rt)
        unify(t, rt)
        if self.mutrefs:
            names = [self.v(m) for m in self.mutrefs]
            # pass-through of a callee with the same &mut parameters:  '(xh, xl, r) <- f .. ;; Val (xh, xl, r)
            if pre and pre[-1][0] == "bind" and pre[-1][1] == "'(" + ", ".join(names + [a]) + ")":
                return self.wrap(pre[:-1], pre[-1][2])
            return self.wrap(pre, "Val %s" % tuple_of(names + [a]))
        return self.monadic(pre, a)

    def if_stmt(self, ex, env, rest, k):
        cnd, th, el = ex[1], ex[2], ex[3]
        if el is not None and el[0] == [] and el[1] is not None and el[1][0] == "if":
            el_blk = ([("expr", el[1])], None)
        else:
            el_blk = el if el is not None else ([], None)
        pc, c, _ = self.e(cnd, env, "bool")
        jump = contains_jump(th) or contains_jump(el_blk)
        if jump:
            def after(env2):
                return rest(env)      # variables assigned in the branch were re-bound under the same names
            for b_ in (th, el_blk):
                if set(declared(b_)) & set(env) and not always_jumps(b_):
                    raise Unsupported("a branch that falls through re-declares an outer variable")
            tcode, _ = self.block_stmts(th, env, rest)
            ecode, _ = self.block_stmts(el_blk, env, rest)
            return self.wrap(pc, "if %s then\n%s\nelse\n%s" % (c, tcode, ecode)), False
        mv = [z for z in assigned(th) + assigned(el_blk) if z in env]
        mv = list(dict.fromkeys(mv))
        if set(mv) & set(declared(th) + declared(el_blk)):
            # an assignment inside the branch might target an inner variable of the same name: not modelled
            raise Unsupported("a branch re-declares a variable that it also assigns")
        if not mv:
            # no visible effect except possible panics
            tcode, tp = self.block_stmts(th, env, lambda e2: ("Val tt", True))
            ecode, ep = self.block_stmts(el_blk, env, lambda e2: ("Val tt", True))
            code, pure = rest(env)
            return self.wrap(pc + [("bind", "_", "(if %s then %s else %s)" % (c, tcode, ecode))], code), False
        tup = tuple_of([self.v(z) for z in mv])

        def endk(env2):
            return "Val %s" % tup, True
        tcode, tp = self.block_stmts(th, env, endk)
        ecode, ep = self.block_stmts(el_blk, env, endk)
        code, pure = rest(env)
        pat = tup if len(mv) == 1 else "'" + tup
        return self.wrap(pc + [("bind", pat, "(if %s then %s else %s)" % (c, tcode, ecode))], code), False

    def block_stmts(self, blk, env, k):
        stmts, tail = blk
        ss = list(stmts)
        if tail is not None:
            if tail[0] in ("if", "match"):
                ss.append(("expr", tail))
            else:
                raise Unsupported("tail expression in a statement block")
        return self.stmts(ss, 0, dict(env), k)

    def int_match_to_if(self, ex):
        """match n { 0 => a, 1 => b, m => c }  on an integer  ~>  if n == 0 {a} else if n == 1 {b} else { let m = n; c }"""
        scr, arms = ex[1], ex[2]
        def build(i):
            pat, body = arms[i]
            if pat[0] == "plit":
                if i + 1 >= len(arms): raise Unsupported("non-exhaustive integer match")
                nxt = build(i + 1)
                return ("if", ("bin", "==", scr, ("lit", pat[1], None)), body, nxt if nxt[0] == "blk" else ([], nxt))
            if pat[0] in ("pvar", "pwild"):
                stmts, tail = body
                pre = [("let", pat, None, scr)] if pat[0] == "pvar" else []
                return ("blk", (pre + list(stmts), tail))
            raise Unsupported("pattern in an integer match")
        r = build(0)
        if r[0] == "blk": return ("block", r[1])
        def fix(e):
            # unwrap ("blk", b) markers in else positions
            if e[0] == "if":
                el = e[3]
                if isinstance(el, tuple) and len(el) == 2 and el[0] == "blk": el = el[1]
                elif isinstance(el, tuple) and el[0] == [] and el[1] is not None and el[1][0] == "if": el = ([], fix(el[1]))
                return ("if", e[1], e[2], el)
            return e
        return fix(r)

    def is_int_match(self, ex):
        return any(p_[0] == "plit" for p_, _ in ex[2])

    def match_stmt(self, ex, env, rest):
        if self.is_int_match(ex):
            return self.if_stmt(self.int_match_to_if(ex), env, rest, None)
        ps, s, ts = self.e(ex[1], env, None)
        arms = []
        for pat, body in ex[2]:
            env2 = dict(env)
            cp = self.pattern(pat, ts, env2)
            blk = body
            if blk[1] is not None and blk[1][0] not in ("if", "match"):
                raise Unsupported("match statement arm with a value")
            shadow = (set(declared(blk)) | set(pat_vars(pat))) & set(env)
            if shadow and not always_jumps(blk):
                raise Unsupported("a match arm that falls through re-binds an outer variable")
            code, _ = self.block_stmts(blk, env2, rest)
            arms.append("| %s =>\n%s" % (cp, code))
        return self.wrap(ps, "match %s with\n%s\nend" % (s, "\n".join(arms))), False

    def loop_exit(self):
        c = self.loop_ctx[-1]
        tup = tuple_of([self.v(z) for z in c["mv"]])
        return "Val (inl %s)" % tup if c["ret"] else "Val %s" % tup

    def while_stmt(self, s, env, rest):
        cnd, body = s[1], s[2]
        has_ret = contains_return(body)
        if has_ret and getattr(self, "loop_ctx", None):
            raise Unsupported("return inside nested loops")
        mv = [z for z in dict.fromkeys(assigned(body)) if z in env]
        if set(mv) & set(declared(body)):
            raise Unsupported("a loop body re-declares a variable that it also assigns")
        fv = [z for z in dict.fromkeys(free_vars(cnd) + free_vars_block(body)) if z in env]
        fv = mv + [z for z in fv if z not in mv]
        lname = "%s_loop%d" % (coq_name(self.f["name"]), len(self.loops) + 1)
        if not hasattr(self, "loop_ctx"): self.loop_ctx = []
        self.loop_ctx.append(dict(mv=mv, ret=has_ret))
        lenv = {z: env[z] for z in env}
        pc, c, _ = self.e(cnd, lenv, "bool")
        tup = tuple_of([self.v(z) for z in mv])
        reccall = "%s fuel' pf %s" % (lname, " ".join(self.v(z) for z in fv))
        bcode, _ = self.block_stmts(body, lenv, lambda e2: (reccall, False))
        exit_code = self.loop_exit()
        self.loop_ctx.pop()
        used = set(free_vars(cnd) + free_vars_block(body))
        lets = []
        for n, t in self.lconsts.items():
            if n in used:
                if isinstance(t, tuple) and t[0] == "arr":
                    raise Unsupported("array constant inside a loop")
                lets.append(("let", self.v(n), num(self.lconst_vals()[n])))
        loop = ("Fixpoint %s (fuel : nat) (pf : profile) (%s : Z) {struct fuel} : res %s :=\n"
                "match fuel with\n| O => Fuel\n| S fuel' =>\n%s\nend.\n") % (
            lname, " ".join(self.v(z) for z in fv),
            (("(" + " * ".join("Z" for _ in mv) + ")" if len(mv) > 1 else "Z") if not has_ret else
             "((%s) + %s)" % (" * ".join("Z" for _ in mv), coq_ty(self.ret))),
            self.wrap(lets + pc, "if %s then\n%s\nelse %s" % (c, bcode, exit_code)))
        self.loops.append(loop)
        code, pure = rest(env)
        pat = tup if len(mv) == 1 else "'" + tup
        call = "%s %s pf %s" % (lname, getattr(self, "fuel_name", "LOOP_FUEL"), " ".join(self.v(z) for z in fv))
        if has_ret:
            r = self.fresh()
            return self.wrap([("bind", r, call)], "match %s with\n| inl %s =>\n%s\n| inr %s_ => Val %s_\nend" % (
                r, tup if len(mv) == 1 else tup, code, r, r)), False
        return self.wrap([("bind", pat, call)], code), False

    # ---------- whole function
    def translate(self):
        f = self.f
        if REDEFINED_PRELUDE:
            raise Unsupported("the crate defines its own %s: the prelude constructors are not what the translation assumes"
                              % ", ".join(sorted(REDEFINED_PRELUDE)))
        env = {}
        for n, t in f["params"]:
            env[n] = t[1] if isinstance(t, tuple) and t[0] == "mutref" else t
        stmts, tail = f["body"]
        ss = list(stmts)
        if tail is not None and tail[0] in ("if", "match") and resolve(self.ret) != "unit":
            # an if/match in tail position: every branch's value is the function's result
            ss.append(("expr", returnify(tail))); tail = None
        elif tail is not None and tail[0] in ("if", "match") and (contains_jump(("", tail)) or is_stmt_like(tail)):
            ss.append(("expr", tail)); tail = None

        def endk(env2):
            if tail is None:
                if resolve(self.ret) == "unit":
                    return self.k_return(None, env2), False
                raise Unsupported("function falls off its end")
            return self.k_return(tail, env2), False
        body, _ = self.stmts(ss, 0, env, endk)
        params = " ".join("(%s : %s)" % (self.v(n), coq_ty(t)) for n, t in f["params"])
        rt = self.ret
        if self.mutrefs:
            rts = [coq_ty(dict(f["params"])[m]) for m in self.mutrefs] + [coq_ty(rt)]
            rcoq = "(" + " * ".join(rts) + ")"
        else:
            rcoq = coq_ty(rt)
        exts = "".join(" (ext_%s : %s)" % (n_, EXTERNALS[n_]["coq"]) for n_ in sorted(getattr(self, "externals_used", ())))
        head = "Definition %s (pf : profile)%s%s %s : res %s :=\n" % (
            coq_name(f["name"]), " (dflt : mode)" if self.needs_dflt else "", exts, params, atom(rcoq))
        text = "".join(self.loops) + head + body + ".\n"

        def sub(m):
            return tyname_final(int(m.group(1)))
        return re.sub(r"@T(\d+)@", sub, text)


TVARS = {}


def tyname_final(i):
    t = resolve(TVARS[i])
    if t in COQ_ITY:
        return COQ_ITY[t]
    return "I32"   # rustc's default integer type for an otherwise unconstrained literal variable


def atom(s):
    s = s.strip()
    if re.match(r"^[\w.']+$", s) or (s.startswith("(") and balanced_outer(s)):
        return s
    return "(" + s + ")"


def balanced_outer(s):
    d = 0
    for i, c in enumerate(s):
        if c == "(": d += 1
        elif c == ")":
            d -= 1
            if d == 0 and i != len(s) - 1:
                return False
    return d == 0


def tuple_of(names):
    return names[0] if len(names) == 1 else "(" + ", ".join(names) + ")"


def walk_block(blk, fn):
    stmts, tail = blk
    for s in stmts:
        fn(s)
        if s[0] == "while":
            walk_expr(s[1], fn); walk_block(s[2], fn)
        elif s[0] == "let":
            walk_expr(s[3], fn)
        elif s[0] == "assign":
            walk_expr(s[2], fn); walk_expr(s[3], fn)
        elif s[0] in ("expr", "return") and s[1] is not None:
            walk_expr(s[1], fn)
    if tail is not None:
        walk_expr(tail, fn)


def walk_expr(e, fn):
    if not isinstance(e, tuple) or not e:
        return
    fn(e)
    k = e[0]
    if k == "if":
        walk_expr(e[1], fn); walk_block(e[2], fn)
        if e[3] is not None: walk_block(e[3], fn)
    elif k == "match":
        walk_expr(e[1], fn)
        for _, b in e[2]: walk_block(b, fn)
    elif k == "block":
        walk_block(e[1], fn)
    elif k in ("bin",):
        walk_expr(e[2], fn); walk_expr(e[3], fn)
    elif k in ("neg", "not", "deref", "mutref", "ref", "paren", "try", "cast"):
        walk_expr(e[1], fn)
    elif k in ("tuple", "array"):
        for z in e[1]: walk_expr(z, fn)
    elif k == "call":
        walk_expr(e[1], fn)
        for z in e[2]: walk_expr(z, fn)
    elif k == "mcall":
        walk_expr(e[1], fn)
        for z in e[3]: walk_expr(z, fn)
    elif k == "index":
        walk_expr(e[1], fn); walk_expr(e[2], fn)
    elif k in ("field", "fieldn"):
        walk_expr(e[1], fn)


def contains_jump(blk):
    found = []

    def f(n):
        if n[0] in ("return", "break", "try"):
            found.append(n[0])
    if blk is None: return False
    if blk[0] == "":
        walk_expr(blk[1], f)
    else:
        walk_block(blk, f)
    return bool(found)


def contains_return(blk):
    found = []

    def f(n):
        if n[0] in ("return", "try"):
            found.append(1)
    walk_block(blk, f)
    return bool(found)


def push_let(e, pat, ty, wrap_try=False):
    """move `let pat = <if/match>` into the branches (wrap_try: the whole if/match was followed by `?`)"""
    def blk(b):
        if b is None:
            raise Unsupported("let from an if without else")
        stmts, tail = b
        if tail is None:
            if stmts and stmts[-1][0] in ("return", "break"):
                return b
            if stmts and stmts[-1][0] == "expr" and stmts[-1][1][0] == "macro" and stmts[-1][1][1] in ("panic", "unreachable"):
                return b
            raise Unsupported("branch without a value")
        if tail[0] in ("if", "match"):
            return (list(stmts) + [("expr", push_let(tail, pat, ty, wrap_try))], None)
        if tail[0] == "macro" and tail[1] in ("panic", "unreachable"):
            return (list(stmts) + [("expr", tail)], None)
        return (list(stmts) + [("let", pat, ty, ("try", tail) if wrap_try else tail)], None)
    if e[0] == "if":
        el = e[3]
        if el is not None and el[0] == [] and el[1] is not None and el[1][0] == "if":
            el = ([("expr", push_let(el[1], pat, ty, wrap_try))], None)
        else:
            el = blk(el)
        return ("if", e[1], blk(e[2]), el)
    return ("match", e[1], [(p_, blk(b)) for p_, b in e[2]])


def returnify(e):
    """an if / match in tail position of a function: make every branch end in `return value`"""
    def blk(b):
        if b is None:
            return None
        stmts, tail = b
        if tail is None:
            return b
        if tail[0] in ("if", "match"):
            return (list(stmts) + [("expr", returnify(tail))], None)
        if tail[0] == "macro" and tail[1] in ("panic", "unreachable"):
            return (list(stmts) + [("expr", tail)], None)
        return (list(stmts) + [("return", tail)], None)
    if e[0] == "if":
        el = e[3]
        if el is not None and el[0] == [] and el[1] is not None and el[1][0] == "if":
            el = ([("expr", returnify(el[1]))], None)
        else:
            el = blk(el)
        return ("if", e[1], blk(e[2]), el)
    if e[0] == "match":
        return ("match", e[1], [(p_, blk(b)) for p_, b in e[2]])
    return e


def is_stmt_like(e):
    """an if/match in tail position whose branches have no value (all end in statements)"""
    if e[0] == "if":
        return e[2][1] is None and (e[3] is None or (e[3][1] is None or e[3][1][0] == "if" and is_stmt_like(e[3][1])))
    return False


def assigned(blk):
    out = []

    def f(n):
        if n[0] == "assign":
            l = n[2]
            while l[0] in ("deref", "paren"): l = l[1]
            if l[0] == "path" and len(l[1]) == 1: out.append(l[1][0])
        if n[0] == "call":
            for a in n[2]:
                if a[0] == "mutref" and a[1][0] == "path": out.append(a[1][1][0])
    if blk is not None:
        walk_block(blk, f)
    return out


def always_jumps(blk):
    """every path through the block ends in return / break / panic (so nothing after the block sees its bindings)"""
    if blk is None: return False
    stmts, tail = blk
    if tail is not None:
        return tail[0] == "macro" and tail[1] in ("panic", "unreachable")
    if not stmts: return False
    last = stmts[-1]
    if last[0] in ("return", "break"): return True
    if last[0] == "expr":
        e = last[1]
        if e[0] == "macro" and e[1] in ("panic", "unreachable"): return True
        if e[0] == "if": return e[3] is not None and always_jumps(e[2]) and always_jumps(e[3] if e[3][0] != [] or e[3][1] is None or e[3][1][0] != "if" else ([("expr", e[3][1])], None))
        if e[0] == "match": return all(always_jumps(b) for _, b in e[2])
    return False


def pat_vars(p_):
    if p_[0] == "pvar": return [p_[1]]
    if p_[0] in ("ptup", "por"): return [v for q in p_[1] for v in pat_vars(q)]
    if p_[0] == "pctor": return [v for q in p_[2] for v in pat_vars(q)]
    return []


def declared(blk):
    """names bound by let / patterns anywhere inside a block"""
    out = []

    def pv(p_):
        if p_[0] == "pvar": out.append(p_[1])
        elif p_[0] in ("ptup",): [pv(q) for q in p_[1]]
        elif p_[0] == "pctor": [pv(q) for q in p_[2]]
        elif p_[0] == "por": [pv(q) for q in p_[1]]

    def f(n):
        if n[0] == "let": pv(n[1])
        if n[0] == "match":
            for p_, _ in n[2]: pv(p_)
    if blk is not None:
        walk_block(blk, f)
    return out


def free_vars(e):
    out = []

    def f(n):
        if n[0] == "path" and len(n[1]) == 1: out.append(n[1][0])
    walk_expr(e, f)
    return out


def free_vars_block(blk):
    out = []

    def f(n):
        if n[0] == "path" and len(n[1]) == 1: out.append(n[1][0])
    walk_block(blk, f)
    return out


def calls_in(f):
    out = set()

    def g(n):
        if n[0] == "call" and n[1][0] == "path": out.add("::".join(n[1][1]))
        if n[0] == "path" and n[1] == ["RoundingMode", "default"]: out.add("RoundingMode::default")
    if f["body"] is not None:
        walk_block(f["body"], g)
    return out


def validate(out, status, deps=()):
    """type-check the generated file with coqc; a definition that does not type-check is dropped (with everything
    that refers to it) and reported as failed, so that one untranslatable function cannot take the others with it"""
    import subprocess, tempfile, shutil
    coq = os.path.join(HERE, "..", "coq")
    if not os.path.exists(os.path.join(coq, "model", "Machine.vo")):
        return "\n".join(out) + "\n"
    tmp = tempfile.mkdtemp(prefix="rs2v_", dir=os.path.join(HERE, "..", "work") if os.path.isdir(os.path.join(HERE, "..", "work")) else None)
    try:
        for _ in range(40):
            text = "\n".join(out) + "\n"
            f = os.path.join(tmp, "GenCoreTry.v")
            open(f, "w").write(text)
            extra = []
            for d_ in deps:
                extra += ["-Q", d_, "FP"]
            r = subprocess.run(["coqc", "-q", "-Q", os.path.join(coq, "model"), "FP"] + extra + ["-Q", tmp, "Try", f],
                               stdout=subprocess.PIPE, stderr=subprocess.STDOUT, universal_newlines=True, timeout=300)
            if r.returncode == 0:
                return text
            m = re.search(r'line (\d+), characters', r.stdout)
            if not m:
                status["failed"]["GenCore.v"] = "coqc: " + r.stdout[-300:]
                return text
            line = int(m.group(1))
            # find the block (one list element of out) containing that line
            acc = 0; hit = None
            for i, blk in enumerate(out):
                n = blk.count("\n") + 1
                if acc < line <= acc + n:
                    hit = i; break
                acc += n
            if hit is None or not out[hit].lstrip().startswith(("Definition g_", "Fixpoint g_")):
                status["failed"]["GenCore.v"] = "coqc: " + r.stdout[-300:]
                return text
            cname = re.search(r"Definition g_(\w+)", out[hit]).group(1)
            name = next((t_ for t_ in status["translated"] if coq_name(t_) == "g_" + cname), cname)
            msg = " ".join(r.stdout.split())[-200:]
            status["failed"][name] = "translation does not type-check: " + msg
            if name in status["translated"]: status["translated"].remove(name)
            out[hit] = "(* %s: dropped, the translation does not type-check *)" % name
        return "\n".join(out) + "\n"
    finally:
        shutil.rmtree(tmp, ignore_errors=True)


DEC_TARGETS = [
    ("src/lib.rs", ["normalize", "Decimal::coefficient", "Decimal::n_frac_digits", "Decimal::new_raw", "Decimal::magnitude"]),
    ("src/binops/cmp.rs", ["Decimal::eq_zero", "Decimal::eq_one", "Decimal::is_negative", "Decimal::is_positive",
                           "PartialEq::eq", "PartialOrd::partial_cmp", "Ord::cmp"]),
    ("src/binops/mul_rounded.rs", ["checked_mul_rounded", "MulRounded::mul_rounded"]),
    ("src/binops/mul.rs", ["Mul::mul"]),
    ("src/binops/checked_mul.rs", ["CheckedMul::checked_mul"]),
    ("src/binops/div_rounded.rs", ["checked_div_rounded", "DivRounded::div_rounded"]),
    ("src/binops/div.rs", ["Div::div"]),
    ("src/binops/checked_div.rs", ["CheckedDiv::checked_div"]),
    ("src/round.rs", ["Round::round", "Round::checked_round"]),
    ("src/unops.rs", ["DivModInt::divmod", "DivModInt::div_floor", "DivModInt::div_ceil", "Neg::neg", "Decimal::abs",
                      "Decimal::floor", "Decimal::ceil", "Decimal::trunc", "Decimal::fract"]),
    ("src/binops/rem.rs", ["rem", "Rem::rem"]),
    ("src/binops/checked_rem.rs", ["CheckedRem::checked_rem"]),
    ("src/from_str.rs", ["FromStr::from_str"]),
    ("src/as_integer_ratio.rs", ["gcd_special", "AsIntegerRatio::as_integer_ratio", "AsIntegerRatio::numerator", "AsIntegerRatio::denominator"]),
    ("src/binops/add_sub.rs", ["coeff_or_panic", "Add::add", "Sub::sub"]),
    ("src/binops/checked_add_sub.rs", ["CheckedAdd::checked_add", "CheckedSub::checked_sub"]),
]
FUELS = {"normalize": 256, "rem": 256, "gcd_special": 400}
# functions that stay outside the translation: they become parameters of the functions that call them
EXTERNALS = {"str_to_dec": dict(params=[("lit", "str")], ret=("result", ("tup", ("i128", "isize")), "gperr"),
                                coq="(list Z -> res ((Z * Z) + gperr))")}
PRIM_METHODS = {"cmp", "partial_cmp", "eq", "ne", "lt", "le", "gt", "ge", "abs", "neg", "checked_add", "checked_sub",
                "checked_mul", "checked_div", "checked_rem", "wrapping_add", "wrapping_sub", "wrapping_mul", "unsigned_abs",
                "signum", "map", "unwrap", "unwrap_or", "unwrap_or_else", "is_negative", "is_positive", "hash", "default"}
OUT_DEC = os.path.join(HERE, "..", "coq", "gen", "GenDec.v")
OUT_INT = os.path.join(HERE, "..", "coq", "gen", "GenInt.v")
OUT_CONV = os.path.join(HERE, "..", "coq", "gen", "GenConv.v")


def generate(targets, file_consts, out_path, header, unit, base=None):
    """translate one unit; base = (fns, sigs, uses, fconsts) of the unit it builds on"""
    status = {"translated": [], "failed": {}, "missing": []}
    acc = dict(fns={}, consts={}, macros={}, impl_consts={})
    fns, consts = {}, {}
    for rel, names in targets:
        try:
            parse_file(rel, acc)
        except (Unsupported, OSError) as ex:
            for n in names: status["failed"][n] = "file %s: %s" % (rel, ex)
    for rel, names in targets:
        for n in names:
            if n in acc["fns"] and acc["fns"][n]["file"] == rel: fns[n] = acc["fns"][n]
            elif n not in status["failed"]: status["missing"].append(n)
        for crel, cn in file_consts:
            if crel == rel and cn in acc["consts"]: consts[cn] = acc["consts"][cn]
    if acc.get("macro_errors"):
        status["macro_errors"] = acc["macro_errors"]
    base_fns = base[0] if base else {}
    # a free function of this unit's files with the name of a function of the base unit shadows it within its own file only
    alias = {}
    for k in [k for k in acc["fns"] if "::" not in k and k in base_fns and base_fns[k]["file"] != acc["fns"][k]["file"]]:
        rec = acc["fns"].pop(k)
        newk = "%s__%s" % (k, re.sub(r"\W", "_", os.path.splitext(os.path.basename(rec["file"]))[0]))
        rec["name"] = newk; acc["fns"][newk] = rec; alias[(rec["file"], k)] = newk

    def resolve_call(c, caller):
        """key of the function a call path refers to, among the parsed functions"""
        if (caller["file"], c) in alias: return alias[(caller["file"], c)]
        if c in acc["fns"] or c in base_fns: return c
        last = c.split("::")[-1]
        if "::" not in c or c.split("::")[0] in ("crate", "super", "self"):
            return last if (last in acc["fns"] or last in base_fns) else None
        if c.startswith("Self::") and caller.get("impl"):
            k = "%s::%s" % (caller["impl"], last)
            return k if k in acc["fns"] else None
        return None

    def method_calls(f):
        out = set()

        def g(n):
            if n[0] == "mcall": out.add(n[2])
        if f["body"] is not None: walk_block(f["body"], g)
        return out

    def callees(f):
        out = set()
        for c in calls_in(f):
            k = resolve_call(c, f)
            if k: out.add(k)
        for m in method_calls(f):
            if m in PRIM_METHODS: continue
            ks = [k for k in acc["fns"] if "::" in k and k.split("::")[1] == m]
            if len(ks) == 1: out.add(ks[0])
            elif len(ks) > 1:
                # several impls have a method of this name: those on Decimal / i128 that are targets or same file
                for k in ks:
                    if k in fns: out.add(k)
        return out
    # helper functions that the targets call are translated as well
    grew = True
    while grew:
        grew = False
        for n in list(fns):
            for c in callees(fns[n]):
                # a function of the base unit is not translated again - unless this unit's files define their own function
                # of that name (a local definition shadows the imported one)
                same_as_base = bool(base) and c in base[1] and (c not in base[0] or base[0][c]["file"] == acc["fns"][c]["file"]) \
                    if c in acc["fns"] else False
                if c not in fns and c in acc["fns"] and not same_as_base:
                    fns[c] = acc["fns"][c]; grew = True
    # which functions reach RoundingMode::default()
    uses = set(base[2]) if base else set()
    changed = True
    while changed:
        changed = False
        for n, f in fns.items():
            if n in uses: continue
            if "RoundingMode::default" in calls_in(f) or (callees(f) & uses) \
                    or any(a == ("path", ["None"]) and False for a in ()):
                uses.add(n); changed = True
    out = list(header)
    fconsts = dict(base[3]) if base else {}
    for cn, (t, e) in consts.items():
        try:
            if isinstance(t, tuple) and t[0] == "arr":
                vals = [const_eval(z, {}) for z in e[1]]
                out.append("Definition g_%s : list Z := [%s]." % (cn, "; ".join(num(v) for v in vals)))
                fconsts[cn] = (("arr", t[1]),)
            else:
                out.append("Definition g_%s : Z := %s." % (cn, num(const_eval(e, {}))))
                fconsts[cn] = (t,)
        except Unsupported as ex:
            status["failed"]["const " + cn] = str(ex)
    out.append("")
    order, seen = [], set()

    def visit(n):
        if n in seen or n not in fns: return
        seen.add(n)
        for c in sorted(callees(fns[n])):
            visit(c)
        order.append(n)
    for rel, names in targets:
        for n in names: visit(n)
    for n in list(fns): visit(n)

    def sig_of(f):
        st = f.get("self_ty")
        a = f.get("assoc")
        return dict(params=[(n, norm_ty(t, st, a)) for n, t in f["params"]], ret=norm_ty(f["ret"], st, a), self_ty=st)
    sigs = dict(base[1]) if base else {}
    for n, f in fns.items():
        try:
            sigs[n] = sig_of(f)
        except Unsupported as ex:
            f["body"] = None; f["error"] = str(ex)
    ok = set(base[1]) if base else set()
    for n in order:
        f = fns[n]
        if f["body"] is None:
            status["failed"][n] = f.get("error", "unparsed"); ok.discard(n); continue
        try:
            avail = {k: v for k, v in sigs.items() if k in ok or k == n}
            tr = Fn(f, avail, fconsts, uses)
            tr.impl_consts = acc["impl_consts"]
            tr.alias = alias
            tr.fuel_name = "LOOP_FUEL" if unit == "core" else "FUEL_" + coq_name(n)[2:]
            text = tr.translate()
            if unit != "core" and tr.loops:
                out.append("Definition %s : nat := %d." % (tr.fuel_name, FUELS.get(n, 64)))
            out.append("(* %s :: %s *)" % (f["file"], n))
            out.append(text)
            ok.add(n); status["translated"].append(n)
        except Unsupported as ex:
            status["failed"][n] = str(ex); ok.discard(n)    # a local definition that shadows a base function must not fall back to it
        except Exception as ex:     # a bug of the translator must not look like a translation
            status["failed"][n] = "translator error: %r" % (ex,); ok.discard(n)
    status["fn_info"] = {n: dict(file=fns[n]["file"], impl=fns[n].get("impl"), macro=fns[n].get("macro")) for n in status["translated"]}
    status["impl_blocks"] = acc.get("impl_blocks", {})
    target_names = {n for _, names in targets for n in names}
    helpers = [n for n in status["translated"] if n not in target_names]
    status["helpers"] = helpers
    out.append("(* helper functions the targets call that the model does not name: the tie tactics unfold them *)")
    out.append("Ltac unfold_helpers%s := %s." % ("" if unit == "core" else "_" + unit,
                                                ("unfold %s" % ", ".join(coq_name(h) for h in helpers)) if helpers else "idtac"))
    if base:
        # the Decimal-level unit is type-checked against the compiled kernel unit: bring that up to date first
        import subprocess
        coqdir = os.path.join(HERE, "..", "coq")
        if os.path.exists(os.path.join(coqdir, "Makefile")):
            subprocess.run(["make", "gen/GenCore.vo"] + (["gen/GenDec.vo"] if unit in ("int", "conv") else []), cwd=coqdir,
                           stdout=subprocess.DEVNULL, stderr=subprocess.DEVNULL, timeout=600)
    text = validate(out, status, deps=[os.path.dirname(out_path)] if base else [])
    old = open(out_path).read() if os.path.exists(out_path) else None
    if old != text:
        with open(out_path, "w") as fh: fh.write(text)
    status["changed"] = old != text
    print("rs2v[%s]: %d functions translated, %d failed, %d missing; %s %s" % (
        unit, len(status["translated"]), len(status["failed"]), len(status["missing"]), os.path.basename(out_path),
        "rewritten" if status["changed"] else "unchanged"))
    for n, why in status["failed"].items():
        print("  failed %s: %s" % (n, why))
    return status, (fns, {k: v for k, v in sigs.items() if k in ok}, uses, fconsts)


BUILTIN_MACROS = {"assert", "assert_eq", "assert_ne", "debug_assert", "debug_assert_eq", "debug_assert_ne", "panic",
                  "unreachable", "unimplemented", "todo", "matches"}
REDEFINED_MACROS = set()
REDEFINED_PRELUDE = set()


def scan_redefined_macros():
    """a crate that defines its own `debug_assert!` (or any other macro the translation gives a fixed meaning) changes that
    meaning: functions that use it are then outside the subset"""
    for base in ("src", "fpdec-core/src", "fpdec-macros/src"):
        for d, _, names in os.walk(os.path.join(REPO, base)):
            for nm in names:
                try:
                    txt = strip_comments(open(os.path.join(d, nm), encoding="utf-8", newline="").read())
                except (OSError, UnicodeDecodeError):
                    continue
                for m in re.finditer(r"\bmacro_rules!\s*(\w+)", txt):
                    if m.group(1) in BUILTIN_MACROS:
                        REDEFINED_MACROS.add(m.group(1))
                for m in re.finditer(r"\buse\s+[\w:]*::(\w+)\s+as\s+(\w+)\s*;", txt):
                    if m.group(2) in BUILTIN_MACROS:
                        REDEFINED_MACROS.add(m.group(2))
                # the constructors the translation gives a fixed meaning must be the prelude's
                for m in re.finditer(r"\b(?:static|const|fn|struct|union)\s+(?:mut\s+)?(Ok|Err|Some|None)\b|\bas\s+(Ok|Err|Some|None)\b", txt):
                    REDEFINED_PRELUDE.add(m.group(1) or m.group(2))


def main():
    scan_redefined_macros()
    hdr_core = ["(* GENERATED by tools/rs2v.py from /repo's current source - do not edit.  One definition per Rust function",
                "   of the integer kernels of fpdec-core; proofs/GenTie*.v prove each equal to the hand-written model. *)",
                "From FP Require Import Machine.", "",
                "(* fuel of translated while-loops: any number of iterations the loop can need is enough; the tie lemmas",
                "   instantiate it with the model's constant *)",
                "Definition LOOP_FUEL : nat := 4.", ""]
    st_core, base = generate(TARGETS, FILE_CONSTS, OUT, hdr_core, "core")
    hdr_dec = ["(* GENERATED by tools/rs2v.py from /repo's current source - do not edit.  The Decimal-level functions of the",
               "   crate fpdec (src/), in terms of the translated kernels of GenCore.v; proofs/GenTieDec*.v prove each equal",
               "   to the hand-written model. *)",
               "From FP Require Import Machine GenCore.", "",
               "(* enum DecimalError (src/errors.rs): only the variants the translated functions name *)",
               "Inductive derr := E_InternalOverflow | E_DivisionByZero | E_MaxNFracDigitsExceeded | E_InfiniteValue | E_NotANumber.",
               "(* enum TryFromDecimalError *)",
               "Inductive tferr := TE_NotAnIntValue | TE_ValueOutOfRange.",
               "(* enum ParseDecimalError *)",
               "Inductive gperr := GP_Empty | GP_Invalid | GP_FracDigitLimitExceeded | GP_InternalOverflow.", ""]
    try:
        st_dec, base_dec = generate(DEC_TARGETS, [], OUT_DEC, hdr_dec, "dec", base)
    except Exception as ex:
        st_dec = {"translated": [], "failed": {"GenDec.v": "translator error: %r" % (ex,)}, "missing": []}
        base_dec = base
        print("rs2v[dec]: translator error %r" % (ex,))
    int_files = ["src/lib.rs", "src/binops/add_sub.rs", "src/binops/checked_add_sub.rs", "src/binops/mul.rs", "src/binops/checked_mul.rs",
                 "src/binops/div.rs", "src/binops/checked_div.rs", "src/binops/div_rounded.rs", "src/binops/rem.rs",
                 "src/binops/checked_rem.rs", "src/binops/cmp.rs"]
    try:
        acc = dict(fns={}, consts={}, macros={}, impl_consts={})
        for f in int_files:
            parse_file(f, acc)
        by_file = {}
        for k, f in acc["fns"].items():
            if re.match(r"^\w+?_(by_)?[ui](8|16|32|64|128)(_[ui]\d+)?::", k):
                by_file.setdefault(f["file"], []).append(k)
        int_targets = [(f, by_file.get(f, [])) for f in int_files]
        hdr_int = ["(* GENERATED by tools/rs2v.py from /repo's current source - do not edit.  The integer-operand forms of the",
                   "   Decimal operators (macro-generated impls over u8 .. i128), in terms of GenCore.v and GenDec.v. *)",
                   "From FP Require Import Machine GenCore GenDec.", ""]
        st_int, _ = generate(int_targets, [], OUT_INT, hdr_int, "int", base_dec)
    except Exception as ex:
        st_int = {"translated": [], "failed": {"GenInt.v": "translator error: %r" % (ex,)}, "missing": []}
        print("rs2v[int]: translator error %r" % (ex,))
    conv_files = ["src/lib.rs", "src/from_int.rs", "src/into_int.rs"]
    try:
        acc = dict(fns={}, consts={}, macros={}, impl_consts={})
        for f in conv_files:
            parse_file(f, acc)
        by_file = {}
        for k, f in acc["fns"].items():
            if re.match(r"^(From|TryFrom)_", k):
                by_file.setdefault(f["file"], []).append(k)
        hdr_conv = ["(* GENERATED by tools/rs2v.py from /repo's current source - do not edit.  The integer conversions",
                    "   (src/from_int.rs, src/into_int.rs), in terms of GenCore.v and GenDec.v. *)",
                    "From FP Require Import Machine GenCore GenDec.", ""]
        st_conv, _ = generate([(f, by_file.get(f, [])) for f in conv_files], [], OUT_CONV, hdr_conv, "conv", base_dec)
    except Exception as ex:
        st_conv = {"translated": [], "failed": {"GenConv.v": "translator error: %r" % (ex,)}, "missing": []}
        print("rs2v[conv]: translator error %r" % (ex,))
    status = dict(st_core)
    status["dec"] = st_dec
    status["int"] = st_int
    status["conv"] = st_conv
    with open(STATUS, "w") as fh:
        json.dump(status, fh, indent=1, sort_keys=True)
    print("rs2v: %d functions translated, %d failed, %d missing" % (
        len(st_core["translated"]) + len(st_dec["translated"]) + len(st_int["translated"]) + len(st_conv["translated"]),
        len(st_core["failed"]) + len(st_dec["failed"]) + len(st_int["failed"]) + len(st_conv["failed"]),
        len(st_core["missing"]) + len(st_dec["missing"]) + len(st_int["missing"]) + len(st_conv["missing"])))
    return 0


if __name__ == "__main__":
    sys.exit(main())
