#!/usr/bin/env python3
"""Constants translator: reads the Rust sources of /repo and regenerates
coq/gen/SrcConsts.v, the fragment of the model that holds every table entry and
numeric literal the modelled functions depend on.  The file is rewritten only
when its content changes (so an untouched tree costs no rebuild).

A constant that can no longer be located (the code was restructured) falls back
to its pinned value (PINNED below) and is reported in gen/consts_status.json as
"pinned": the tie for it is then the correspondence check only.
"""
import json, os, re, sys

REPO = os.environ.get("VERIF_REPO", "/repo")
HERE = os.path.dirname(os.path.abspath(__file__))
OUT = os.path.join(HERE, "..", "coq", "gen", "SrcConsts.v")
STATUS = os.path.join(HERE, "..", "coq", "gen", "consts_status.json")


def read(rel):
    try:
        with open(os.path.join(REPO, rel), newline="") as f:   # like rustc: a lone CR does not end a line comment
            return f.read()
    except OSError:
        return ""


def rust_int(tok):
    tok = tok.strip().replace("_", "")
    tok = re.sub(r"(u8|i8|u16|i16|u32|i32|u64|i64|u128|i128|usize|isize)$", "", tok)
    if tok.startswith("0x"):
        return int(tok, 16)
    if tok.startswith("0b"):
        return int(tok, 2)
    return int(tok)


def strip_comments(s):
    return re.sub(r"//[^\n]*", "", s)   # [^\n] also matches a lone CR, as in rustc


found = {}
status = {}


def put(name, val, ok):
    found[name] = val
    status[name] = "source" if ok else "pinned"


def grab(name, text, pattern, pinned, conv=rust_int, group=1):
    m = re.search(pattern, text, re.S)
    if m:
        try:
            put(name, conv(m.group(group)), True)
            return
        except Exception:
            pass
    put(name, pinned, False)


def grab_list(name, text, pattern, pinned):
    m = re.search(pattern, text, re.S)
    if m:
        try:
            body = strip_comments(m.group(1))
            vals = [rust_int(t) for t in body.split(",") if t.strip()]
            put(name, vals, True)
            return
        except Exception:
            pass
    put(name, pinned, False)


# ---------------------------------------------------------------- sources
pot = read("fpdec-core/src/powers_of_ten.rs")
core = read("fpdec-core/src/lib.rs")
parser = read("fpdec-core/src/parser.rs")
rounding = read("fpdec-core/src/rounding.rs")
fromstr = read("src/from_str.rs")
roundrs = read("src/round.rs")
macros = read("fpdec-macros/src/lib.rs")
divr = read("src/binops/div_rounded.rs")
fromfloat = read("src/from_float.rs")
intofloat = read("src/into_float.rs")
ratio = read("src/as_integer_ratio.rs")

# powers of ten
grab_list("POWERS_OF_10", pot, r"POWERS_OF_10\s*:\s*\[i128;\s*\d+\]\s*=\s*\[(.*?)\];",
          [10 ** i for i in range(39)])
grab("POWERS_OF_10_LEN", pot, r"POWERS_OF_10\s*:\s*\[i128;\s*(\d+)\]", 39)
grab("CHECKED_TEN_POW_LIMIT", pot, r"fn checked_ten_pow.*?if n > (\d+)", 38)
grab("MAX_N_FRAC_DIGITS", core, r"pub const MAX_N_FRAC_DIGITS\s*:\s*u8\s*=\s*(\d+)", 18)

# log10 bit tricks (fpdec-core/src/lib.rs)
m = re.search(r"const fn less_than_5\(.*?\n}\n", core, re.S)
lt5 = m.group(0) if m else ""
def expr_const(name, text, cname, pinned):
    mm = re.search(r"const %s\s*:\s*u32\s*=\s*(0b[01_]+)\s*-\s*(\d+)\s*;" % cname, text)
    if mm:
        put(name, rust_int(mm.group(1)) - int(mm.group(2)), True)
    else:
        put(name, pinned, False)
expr_const("LT5_C1", lt5, "C1", 393206)
expr_const("LT5_C2", lt5, "C2", 524188)
expr_const("LT5_C3", lt5, "C3", 916504)
expr_const("LT5_C4", lt5, "C4", 514288)
grab("LT5_SHIFT", lt5, r">>\s*(\d+)\s*\n", 17)
m = re.search(r"pub const fn u8\(.*?\n}\n", core, re.S)
u8f = m.group(0) if m else ""
expr_const("LOGU8_C1", u8f, "C1", 758)
expr_const("LOGU8_C2", u8f, "C2", 412)
m = re.search(r"pub const fn u32\(.*?\n}\n", core, re.S)
grab("LOG_U32_T", m.group(0) if m else "", r"if val >= ([\d_]+)", 100000)
m = re.search(r"pub const fn u64\(.*?\n}\n", core, re.S)
u64f = m.group(0) if m else ""
grab("LOG_U64_T1", u64f, r"if val >= ([\d_]+)", 10 ** 10)
grab("LOG_U64_T2", u64f, r"if val >= [\d_]+.*?if val >= ([\d_]+)", 100000)
m = re.search(r"pub const fn u128\(.*?\n}\n", core, re.S)
u128f = m.group(0) if m else ""
grab("LOG_U128_T1", u128f, r"if val >= ([\d_]+)", 10 ** 32)
grab("LOG_U128_T2", u128f, r"if val >= [\d_]+.*?if val >= ([\d_]+)", 10 ** 16)
grab_list("MSB_IDX_MAP", core, r"IDX_MAP\s*:\s*\[u8;\s*16\]\s*=\s*\[(.*?)\];",
          [0, 1, 2, 2, 3, 3, 3, 3, 4, 4, 4, 4, 4, 4, 4, 4])

# parser
grab("SWAR_SUB", parser, r"wrapping_sub\((0x[0-9a-fA-F_]+)\)", 0x3030303030303030)
grab("SWAR_ADD", parser, r"wrapping_add\((0x[0-9a-fA-F_]+)\)", 0x4646464646464646)
grab("SWAR_HI", parser, r"\(x \| y\) & (0x[0-9a-fA-F_]+)", 0x8080808080808080)
grab("SWAR_M1", parser, r"chunk &= (0x[0-9a-fA-F_]+)", 0x0F0F0F0F0F0F0F0F)
grab("SWAR_M2", parser, r"chunk = \(chunk & (0x[0-9a-fA-F_]+)\)\s*\.wrapping_mul\(10\)", 0x000F000F000F000F)
grab("SWAR_M3", parser, r"chunk = \(chunk & (0x[0-9a-fA-F_]+)\)\s*\.wrapping_mul\(100\)", 0x0000007F0000007F)
grab("SWAR_M4", parser, r"\(chunk & (0x[0-9a-fA-F_]+)\)\s*\.wrapping_mul\(10000\)", 0x3FFF)
grab("CHUNK_MUL", parser, r"coeff\s*\.(?:wrapping|overflowing)_mul\((1[0_]+)\)", 100000000)
grab("EXP_CLAMP", parser, r"\*exp < (0x[0-9a-fA-F_]+)", 0x1000000)
grab("EXP_MAX_DIGITS", parser, r"n_exp_digits > (\d+)", 2)
grab("FROMSTR_EXP_MAX", fromstr, r"exponent > (\d+)", 38)
grab("MACRO_EXP_MAX", macros, r"exponent > (\d+)", 38)
grab("ROUND_SHORTCUT", roundrs, r"self\.n_frac_digits as i8 - (\d+)", 38)

# floats
grab("FF_MIN_EXP", fromfloat, r"exponent < -(\d+)", 126)
grab("FF_MAGN_I128_MAX", fromfloat, r"const MAGN_I128_MAX\s*:\s*u8\s*=\s*(\d+)", 38)
grab("IF_EXTRA_BITS", intofloat, r"const EXTRA_BITS\s*:\s*u32\s*=\s*(\d+)", 3)
grab_list("IF_MASK_EXTRA_BITS", intofloat, r"MASK_EXTRA_BITS\s*:\s*\[u128;\s*2\]\s*=\s*\[(.*?)\];", [7, 3])
grab("IF_TIE", intofloat, r"const TIE\s*:\s*u32\s*=\s*(\d+)", 4)

# thread default initial value
MODES = ["Round05Up", "RoundCeiling", "RoundDown", "RoundFloor", "RoundHalfDown",
         "RoundHalfEven", "RoundHalfUp", "RoundUp"]
COQMODES = ["R05Up", "RCeiling", "RDown", "RFloor", "RHalfDown", "RHalfEven", "RHalfUp", "RUp"]
m = re.search(r"thread_local!\(.*?RefCell::new\(RoundingMode::(\w+)\)", rounding, re.S)
if m and m.group(1) in MODES:
    put("INITIAL_MODE", COQMODES[MODES.index(m.group(1))], True)
else:
    put("INITIAL_MODE", "RHalfEven", False)
m = re.search(r"pub enum RoundingMode \{(.*?)\n\}", rounding, re.S)
order_ok = False
if m:
    names = re.findall(r"^\s*(Round\w+),", strip_comments(m.group(1)), re.M)
    order_ok = names == MODES
status["ENUM_ORDER"] = "source" if order_ok else "pinned"


def coqz(v):
    return "(%d)" % v if v < 0 else "%d" % v


lines = ["(* GENERATED by tools/extract_consts.py from the Rust sources of /repo — do not edit. *)",
         "From Coq Require Import ZArith List.",
         "From FP Require Import Machine.",
         "Import ListNotations.",
         "Open Scope Z_scope.",
         ""]
for k, v in found.items():
    if isinstance(v, list):
        lines.append("Definition %s : list Z := [%s]." % (k, "; ".join(coqz(x) for x in v)))
    elif isinstance(v, str):
        lines.append("Definition %s : mode := %s." % (k, v))
    else:
        lines.append("Definition %s : Z := %s." % (k, coqz(v)))
content = "\n".join(lines) + "\n"

old = None
try:
    with open(OUT) as f:
        old = f.read()
except OSError:
    pass
if old != content:
    os.makedirs(os.path.dirname(OUT), exist_ok=True)
    with open(OUT, "w") as f:
        f.write(content)
oldst = None
try:
    with open(STATUS) as f:
        oldst = f.read()
except OSError:
    pass
st = json.dumps(status, indent=1, sort_keys=True)
if st != oldst:
    with open(STATUS, "w") as f:
        f.write(st)
pinned = sorted(k for k, v in status.items() if v == "pinned")
print("consts: %d from source, %d pinned%s; %s" % (
    len(status) - len(pinned), len(pinned),
    (" (" + ",".join(pinned) + ")") if pinned else "",
    "rewritten" if old != content else "unchanged"))
