#!/usr/bin/env python3
"""Per-property check:  tools/check.py <ID> [--tier quick|thorough] [--replay FILE]

  1. regenerate coq/gen/SrcConsts.v from /repo's current sources (translator);
  2. build the property's proof closure (coq_makefile + make, full .vo), re-run
     coqc on coq/props/<ID>.v, read its `Print Assumptions` output, scan the
     development for forbidden declarations;
  3. extract model + specification to OCaml, build the driver; build the Rust
     harness against /repo's working tree;
  4. corpus + atlas + seeded random cases -> implementation outcomes (harness),
     model outcomes and the specification's verdict on the implementation
     outcome (extracted driver);
  5. verdict, replay file, evidence/<ID>.json.

Exit 0: property held on everything explored.  Exit 1 with a line
`VIOLATION property=<ID> replay=<path>` otherwise.
"""
import fcntl, hashlib, json, os, random, re, subprocess, sys, time

HERE = os.path.dirname(os.path.abspath(__file__))
ROOT = os.path.dirname(HERE)
COQ = os.path.join(ROOT, "coq")
WORK = os.path.join(ROOT, "work")
REPO = os.environ.get("VERIF_REPO", "/repo")
sys.path.insert(0, HERE)
import gen  # noqa: E402

NPROC = 16
HOOK_CFG = "--cfg fpdec_verif"

TRUSTED_BASE = [
    "Coq 8.16.1 kernel (coqc, full .vo build, no -vos); vm_compute used in finite lemmas; no native_compute",
    "axioms: none (every property theorem must print 'Closed under the global context')",
    "hand-written Gallina model of the Rust functions (coq/model/*.v): faithfulness is what the correspondence run tests",
    "constants translator tools/extract_consts.py (regex on identifier names) -> coq/gen/SrcConsts.v",
    "extraction: ExtrOcamlBasic only (bool, option, unit, list, prod, sumbool, sumor; andb/orb inlined); Z/positive extracted as inductive types; no Extract Constant",
    "OCaml driver ocaml/driver.ml (hex<->Z, line protocol), OCaml 4.13.1",
    "Rust harness harness/src/*.rs (catch_unwind, line protocol) and rustc semantics of primitive integer operations",
    "hooks: #[cfg(fpdec_verif)] verif_hooks in fpdec-core (repo commit fbb9d73): one-line forwarders to the private kernels",
    "translator tools/rs2v.py (Rust subset -> Gallina: 29 integer kernels of fpdec-core -> coq/gen/GenCore.v, 44 Decimal-level functions of src/ -> coq/gen/GenDec.v, 226 macro-generated integer-operand forms -> coq/gen/GenInt.v, 20 integer conversions -> coq/gen/GenConv.v, regenerated on every run; "
    "syntax-directed, conventions listed in its header; assumes every variable holds a value in the range of its Rust type); "
    "the tie lemmas coq/proofs/GenTie*.v prove each translated function equal to the hand-written model",
    "structural tie: tools/fingerprint.py + tools/source_fingerprints.json (digests of every top-level Rust item, of each file's function/module imports, of the crate-wide lists of source files, mod declarations, impl headers, macro_rules names, include! uses and linkage/unsafe markers, of the Cargo manifest sections and build configuration files; sources read without newline translation; updated by hand only); outside the repository (toolchain, compiler-rt, registry copies of dependencies) nothing is tied",
    "modelled, not verified: core::fmt padding, `as f64/f32` casts, thread_local!, derived Hash, serde/rkyv derives, rustc lexer and const evaluation, opt-level and packed layout (exercised by the correspondence run)",
]

# ---------------------------------------------------------------------------------
# property table: generator ids, volumes, which outcome families matter
PROPS = {
    "C01": dict(gens=["C01"], quick=4000, thorough=1500000),
    "C02": dict(gens=["C02", "K"], quick=8000, thorough=1100000),
    "C03": dict(gens=["C03", "K"], quick=14000, thorough=1100000),
    "C04": dict(gens=["C04", "K"], quick=22000, thorough=1350000, known=["K1"]),
    "C05": dict(gens=["C05"], quick=31000, thorough=1500000),
    "C08": dict(gens=["C08", "F08"], quick=22400, thorough=1950000),
    "C10": dict(gens=["C10"], quick=5000, thorough=1500000),
    "C14": dict(gens=["C14"], quick=3000, thorough=500000),
    "C15": dict(gens=["C15", "F15"], quick=11200, thorough=1300000),
    "C16": dict(gens=["C16", "K"], quick=11000, thorough=1100000),
    "C06": dict(gens=["C06"], quick=15000, thorough=300000, known=["K2", "K4"]),
    "C07": dict(gens=["C07", "F07"], quick=6000, thorough=300000),
    "C09": dict(gens=["C09"], quick=4000, thorough=750000),
    "C11": dict(gens=["C11"], quick=7000, thorough=400000),
    "C12": dict(gens=["C12"], quick=4000, thorough=300000),
    "C13": dict(gens=["C13"], quick=14000, thorough=600000),
    "C17": dict(gens=["C17"], quick=14000, thorough=1000000, known=["K1"]),
    "C18": dict(gens=["C18"], quick=700, thorough=20000),
    "C19": dict(gens=["C19"], quick=1200, thorough=20000),
    "C20": dict(gens=["C20"], quick=9000, thorough=240000),
}


def log(*a):
    print(*a, flush=True)


def sh(cmd, timeout=1800, cwd=None, env=None):
    e = dict(os.environ)
    e["CARGO_NET_OFFLINE"] = "true"
    if env:
        e.update(env)
    p = subprocess.run(cmd, shell=True, cwd=cwd, env=e, stdout=subprocess.PIPE, stderr=subprocess.STDOUT,
                       timeout=timeout, text=True, errors="replace")
    return p.returncode, p.stdout


class Lock:
    def __enter__(self):
        os.makedirs(WORK, exist_ok=True)
        self.f = open(os.path.join(WORK, ".build.lock"), "w")
        fcntl.flock(self.f, fcntl.LOCK_EX)
        return self

    def __exit__(self, *a):
        fcntl.flock(self.f, fcntl.LOCK_UN)
        self.f.close()


# ---------------------------------------------------------------------------------
FORBIDDEN = re.compile(r"\b(Admitted|admit|Axiom|Axioms|Parameter|Parameters|Conjecture|Conjectures|Admit Obligations|bypass_check|Unset Guard Checking|Unset Positivity Checking|Unset Universe Checking|type-in-type|impredicative-set)\b")


def strip_coq_comments(s):
    out = []
    depth = 0
    i = 0
    while i < len(s):
        if s.startswith("(*", i):
            depth += 1
            i += 2
        elif s.startswith("*)", i) and depth > 0:
            depth -= 1
            i += 2
        else:
            if depth == 0:
                out.append(s[i])
            elif s[i] == "\n":
                out.append("\n")
            i += 1
    return "".join(out)


def scan_forbidden():
    """Admitted/Axiom/... anywhere, Variable/Hypothesis outside a Section"""
    bad = []
    for d, _, fs in os.walk(COQ):
        for f in fs:
            if not f.endswith(".v"):
                continue
            path = os.path.join(d, f)
            txt = strip_coq_comments(open(path).read())
            depth = 0
            for ln, line in enumerate(txt.split("\n"), 1):
                if FORBIDDEN.search(line):
                    bad.append("%s:%d: %s" % (os.path.relpath(path, ROOT), ln, line.strip()[:80]))
                if re.match(r"\s*Section\b", line):
                    depth += 1
                elif re.match(r"\s*End\b", line) and depth > 0:
                    depth -= 1
                elif re.match(r"\s*(Variable|Variables|Hypothesis|Hypotheses|Context)\b", line) and depth == 0:
                    bad.append("%s:%d: %s outside Section" % (os.path.relpath(path, ROOT), ln, line.strip()[:60]))
    for extra in ("_CoqProject",):
        t = open(os.path.join(COQ, extra)).read()
        if FORBIDDEN.search(t):
            bad.append("%s mentions a forbidden flag" % extra)
    return bad


def build_coq(pid, tier="quick"):
    """returns dict(ok, obligations, discharged, detail, theorems, failed)"""
    res = dict(ok=False, obligations=0, discharged=0, detail="", theorems=[], failed=None, axioms={})
    rc, out = sh("python3 %s/extract_consts.py" % HERE)
    res["consts"] = out.strip().split("\n")[-1] if out.strip() else ""
    # the translator: regenerate coq/gen/GenCore.v from /repo's current source (rewritten only when it changes)
    rc, out = sh("python3 %s/rs2v.py" % HERE, timeout=600)
    res["translator"] = out.strip().split("\n")[-1] if out.strip() else "rs2v did not run"
    if not os.path.exists(os.path.join(COQ, "Makefile")) or \
            os.path.getmtime(os.path.join(COQ, "Makefile")) < os.path.getmtime(os.path.join(COQ, "_CoqProject")):
        sh("coq_makefile -f _CoqProject -o Makefile", cwd=COQ)
    prop_v = os.path.join(COQ, "props", pid + ".v")
    if not os.path.exists(prop_v):
        res["detail"] = "no property file"
        res["failed"] = "coq/props/%s.v missing" % pid
        if os.environ.get("VERIF_DEV_SKIP_PROOF") == "1":   # development aid only, never used by MANIFEST commands
            res["ok"] = True
        return res
    src = strip_coq_comments(open(prop_v).read())
    thms = re.findall(r"^\s*Theorem\s+(\w+)", src, re.M)
    res["theorems"] = thms
    res["obligations"] = len(thms)
    for vo in (os.path.join(COQ, "props", pid + ".vo"),):
        if os.path.exists(vo):
            os.remove(vo)
    rc, out = sh("timeout 1500 make -j%d props/%s.vo 2>&1" % (NPROC, pid), cwd=COQ, timeout=1600)
    res["detail"] = out[-3000:]
    if rc != 0:
        m = re.search(r'File "\./?([^"]+)", line (\d+)', out)
        res["failed"] = "%s:%s" % (m.group(1), m.group(2)) if m else "make failed"
        return res
    # Print Assumptions output: "Closed under the global context" or "Axioms:\n name : type ..."
    # coqc prints them in file order, one block per Print Assumptions command
    blocks = re.findall(r"(Closed under the global context|Axioms:\n(?:.+\n)+?)(?=\S|\Z)", out)
    n_closed = out.count("Closed under the global context")
    n_ax = out.count("Axioms:")
    n_pa = len(re.findall(r"^\s*Print Assumptions\s+(\w+)", src, re.M))
    pa_names = re.findall(r"^\s*Print Assumptions\s+(\w+)", src, re.M)
    missing = [t for t in thms if t not in pa_names]
    if missing:
        res["detail"] += "\nmissing Print Assumptions for: %s" % missing
        res["failed"] = "props/%s.v: theorem without Print Assumptions" % pid
        return res
    if n_ax > 0 or n_closed < n_pa:
        res["failed"] = "props/%s.v: a theorem depends on axioms (closed=%d of %d)" % (pid, n_closed, n_pa)
        res["axioms"] = {"text": out[out.find("Axioms:"):][:1500]}
        return res
    bad = scan_forbidden()
    if bad:
        res["failed"] = "forbidden declaration: " + "; ".join(bad[:5])
        return res
    if tier == "thorough":
        # independent re-check of the property module and everything it depends on
        rc, out = sh("timeout 1500 coqchk -o -silent -Q model FP -Q gen FP -Q spec FP -Q proofs FP -Q props FP FP.%s 2>&1" % pid,
                     cwd=COQ, timeout=1600)
        summ = out[out.find("CONTEXT SUMMARY"):] if "CONTEXT SUMMARY" in out else out[-1500:]
        res["coqchk"] = " ".join(summ.split())[:600]
        want = ["* Axioms: <none>", "type-in-type: <none>", "unsafe (co)fixpoints: <none>", "positivity is assumed: <none>"]
        flat = " ".join(summ.split())
        if rc != 0 or any(w not in flat for w in want):
            res["failed"] = "coqchk FP.%s: %s" % (pid, flat[:300])
            return res
    res["ok"] = True
    res["discharged"] = len(thms)
    if pid in SUPPLEMENTS:
        build_supplement(pid, tier, res)
    return res


# Supplementary theorem files: theorems about the *specification* that connect it to an outside
# formalisation (Flocq).  They use Coq's real numbers, hence the standard library's axioms below; each
# axiom a supplement may use is allow-listed by name, anything else fails the check.  The code-level
# theorems in props/<id>.v stay axiom-free and are checked separately above.
STDLIB_REAL_AXIOMS = {
    "ClassicalDedekindReals.sig_forall_dec", "ClassicalDedekindReals.sig_not_dec",
    "FunctionalExtensionality.functional_extensionality_dep", "Classical_Prop.classic",
}
SUPPLEMENTS = {"C12": ("C12_flocq", STDLIB_REAL_AXIOMS)}


def build_supplement(pid, tier, res):
    name, allow = SUPPLEMENTS[pid]
    prop_v = os.path.join(COQ, "props", name + ".v")
    src = strip_coq_comments(open(prop_v).read())
    thms = re.findall(r"^\s*Theorem\s+(\w+)", src, re.M)
    pa_names = re.findall(r"^\s*Print Assumptions\s+(\w+)", src, re.M)
    res["obligations"] += len(thms)
    res["theorems"] = res["theorems"] + thms
    vo = os.path.join(COQ, "props", name + ".vo")
    if os.path.exists(vo):
        os.remove(vo)
    rc, out = sh("timeout 1500 make -j%d props/%s.vo 2>&1" % (NPROC, name), cwd=COQ, timeout=1600)
    res["ok"] = False
    if rc != 0:
        m = re.search(r'File "\./?([^"]+)", line (\d+)', out)
        res["failed"] = "%s:%s" % (m.group(1), m.group(2)) if m else "make failed (%s)" % name
        res["detail"] = out[-3000:]
        return
    if [t for t in thms if t not in pa_names]:
        res["failed"] = "props/%s.v: theorem without Print Assumptions" % name
        return
    # every axiom line is "<qualified name>" optionally followed by " : type"; continuation lines are indented
    used = set(re.findall(r"^([A-Z][\w.]*\.[\w']+)(?=\s|$)", out[out.find("Axioms:"):] if "Axioms:" in out else "", re.M))
    n_blocks = out.count("Axioms:") + out.count("Closed under the global context")
    if n_blocks < len(pa_names):
        res["failed"] = "props/%s.v: %d Print Assumptions answers for %d theorems" % (name, n_blocks, len(pa_names))
        return
    extra = sorted(used - allow)
    res["axioms"] = {name: sorted(used)}
    if extra:
        res["failed"] = "props/%s.v: axiom outside the allow-list: %s" % (name, ", ".join(extra))
        return
    if tier == "thorough":
        rc, out = sh("timeout 1500 coqchk -o -silent -Q model FP -Q gen FP -Q spec FP -Q proofs FP -Q props FP FP.%s 2>&1" % name,
                     cwd=COQ, timeout=1600)
        summ = out[out.find("CONTEXT SUMMARY"):] if "CONTEXT SUMMARY" in out else out[-1500:]
        flat = " ".join(summ.split())
        res["coqchk_" + name] = flat[:900]
        m = re.search(r"\* Axioms:(.*?)\* Constants/Inductives relying on type-in-type", flat)
        chk_ax = set(re.findall(r"([A-Z][\w.]*\.[\w']+)", m.group(1))) if m else {"<unparsed>"}
        # coqchk prefixes library names with Coq.<dir>.; compare on the last two components
        short = lambda a: ".".join(a.split(".")[-2:])
        extra = sorted(a for a in chk_ax if short(a) not in {short(b) for b in allow})
        want = ["type-in-type: <none>", "unsafe (co)fixpoints: <none>", "positivity is assumed: <none>"]
        if rc != 0 or extra or any(w not in flat for w in want):
            res["failed"] = "coqchk FP.%s: %s" % (name, (", ".join(extra) + " " + flat)[:300])
            return
    res["ok"] = True
    res["discharged"] += len(thms)


# Translated functions (tools/rs2v.py) and the tie-lemma file that proves each equal to the hand-written model.
TIE_GROUPS = {
    "GenTiePow": ["ten_pow", "checked_ten_pow", "mul_pow_ten", "checked_mul_pow_ten", "i128_div_mod_floor",
                  "checked_adjust_coeffs", "POWERS_OF_10"],
    "GenTieMag": ["less_than_5", "u16", "u32", "u64", "u128", "i128_magnitude"],
    "GenTieWide": ["u128_hi", "u128_lo", "u128_msb", "u128_mul_u128", "u256_idiv_u64", "u256_idiv_u128_special",
                   "u256_idiv_u128", "i128_shifted_div_mod_floor", "i256_div_mod_floor"],
    "GenTieRound": ["round_quot", "i128_div_rounded", "i128_shifted_div_rounded", "i128_mul_div_ten_pow_rounded"],
    # the Decimal level (crate fpdec, src/): keys are <impl or trait>::<method> or the name of a free function
    "GenTieDecRound": ["Round::round", "Round::checked_round"],
    "GenTieDecMul": ["checked_mul_rounded", "Mul::mul", "MulRounded::mul_rounded", "CheckedMul::checked_mul"],
    "GenTieDecDiv": ["normalize", "checked_div_rounded", "Div::div", "CheckedDiv::checked_div", "DivRounded::div_rounded"],
    "GenTieDecUn": ["Neg::neg", "Decimal::abs", "Decimal::floor", "Decimal::ceil", "Decimal::trunc", "Decimal::fract",
                    "DivModInt::divmod", "DivModInt::div_floor", "DivModInt::div_ceil", "coeff_or_panic",
                    "Add::add", "Sub::sub", "CheckedAdd::checked_add", "CheckedSub::checked_sub"],
    "GenTieDecCmp": ["PartialEq::eq", "PartialOrd::partial_cmp", "Ord::cmp"],
    "GenTieDecMag": ["Decimal::magnitude"],
    "GenTieDecRem": ["rem", "Rem::rem", "CheckedRem::checked_rem"],
    # the integer-operand forms (macro-generated; macro items are never excused, the groups are built and reported)
    "GenTieIntAdd": [], "GenTieIntMul": [], "GenTieIntDiv": [], "GenTieIntRem": [], "GenTieIntCmp": [], "GenTieIntForms": [],
    "GenTieDecRatio": ["gcd_special", "AsIntegerRatio::as_integer_ratio"],
    "GenTieSwar": ["chunk_contains_8_digits", "chunk_to_u64"],
    "GenTieDecStr": ["FromStr::from_str"],
    "GenTieConv": ["TryFrom_by_i128::try_from", "TryFrom_u128::try_from"],
}


def tie_status():
    """build the tie-lemma files against the freshly translated source; returns (proved function names, report)"""
    try:
        st = json.load(open(os.path.join(COQ, "gen", "gencore_status.json")))
    except (OSError, ValueError):
        return (set(), {}), dict(error="no translator status")
    targets = " ".join("proofs/%s.vo" % g for g in TIE_GROUPS)
    sh("timeout 900 make -k -j%d %s 2>&1" % (NPROC, targets), cwd=COQ, timeout=1000)
    ok_groups, proved = [], set()
    dec = st.get("dec", {})
    translated = set(st.get("translated", [])) | set(dec.get("translated", [])) | set(st.get("int", {}).get("translated", [])) | set(st.get("conv", {}).get("translated", []))
    for g, fns in TIE_GROUPS.items():
        rc, _ = sh("make -q proofs/%s.vo" % g, cwd=COQ)
        if rc == 0 and os.path.exists(os.path.join(COQ, "proofs", g + ".vo")):
            ok_groups.append(g)
            proved |= {f for f in fns if f in translated or f == "POWERS_OF_10"}
    # an impl block of src/ is covered when every function in it is translated and proved and it declares no constants
    impl_ok = {}
    for f, blocks in dec.get("impl_blocks", {}).items():
        for impl, b in blocks.items():
            impl_ok[(f, impl)] = bool(b["fns"]) and b["consts"] == 0 and all(k in proved for k in b["fns"])
    untr = dict(st.get("failed", {})); untr.update(dec.get("failed", {})); untr.update(st.get("int", {}).get("failed", {})); untr.update(st.get("conv", {}).get("failed", {}))
    return (proved, impl_ok), dict(translated=sorted(translated), untranslatable=untr,
                                   missing=st.get("missing", []) + dec.get("missing", []), tie_files_checked=ok_groups,
                                   tie_files_broken=[g for g in TIE_GROUPS if g not in ok_groups])


def excuse_translated(changed, proved):
    """a changed Rust item whose regenerated translation is proved equal to the model needs no alarm"""
    keep, excused = [], []
    proved, impl_ok = proved if isinstance(proved, tuple) else (proved, {})
    for it in changed:
        f, key = it.split(" :: ", 1)
        m = re.search(r"\bfn (\w+)", key) or re.search(r"\bconst (\w+)", key)
        mi = re.match(r"^impl (?:(\w+)(?:<(?:Self|Decimal)>)? for )?(Decimal|i128)(?: #\d+)?$", key)
        if f.startswith("fpdec-core/src/") and m and m.group(1) in proved:
            excused.append(it)
        elif f.startswith("src/") and m and not key.startswith("impl") and m.group(1) in proved:
            excused.append(it)
        elif f.startswith("src/") and mi and impl_ok.get((f, mi.group(1) or mi.group(2))):
            excused.append(it)
        else:
            keep.append(it)
    return keep, excused


def build_driver():
    rc, out = sh("timeout 900 make -j%d extract/Extract.vo 2>&1" % NPROC, cwd=COQ, timeout=1000)
    if rc != 0:
        return False, out[-2000:]
    od = os.path.join(ROOT, "ocaml")
    drv = os.path.join(od, "driver")
    srcs = [os.path.join(od, f) for f in ("model.ml", "model.mli", "driver.ml")]
    if not os.path.exists(drv) or any(os.path.getmtime(s) > os.path.getmtime(drv) for s in srcs):
        rc, out = sh("ocamlfind ocamlopt -O3 -w -a -o driver model.mli model.ml driver.ml 2>&1", cwd=od, timeout=600)
        if rc != 0:
            return False, out[-2000:]
    return True, ""


def build_harness(profile="dev", features=""):
    flag = "" if profile == "dev" else ("--release" if profile == "release" else "--profile " + profile)
    # one target directory per feature set, so that switching features never rebuilds the other one
    tdir = "target" if not features else "target-" + features.replace(",", "-")
    feat = ("--features %s --target-dir %s" % (features, os.path.join(ROOT, "harness", tdir))) if features else ""
    rc, out = sh("cargo build --offline %s %s 2>&1" % (flag, feat), cwd=os.path.join(ROOT, "harness"), timeout=1500,
                 env={"RUSTFLAGS": HOOK_CFG})
    d = "debug" if profile == "dev" else profile
    return rc == 0, out[-3000:], os.path.join(ROOT, "harness", tdir, d, "fpdec-verif-harness")


# ---------------------------------------------------------------------------------
def run_impl(binary, lines, tag):
    inp = os.path.join(WORK, "cases_%s.txt" % tag)
    with open(inp, "w") as f:
        f.write("\n".join(lines) + "\n")
    rc, out = sh("%s < %s" % (binary, inp), timeout=1800)
    res = out.split("\n")
    if res and res[-1] == "":
        res.pop()
    if len(res) != len(lines):
        raise RuntimeError("harness produced %d lines for %d cases (rc=%d): %s" % (len(res), len(lines), rc, out[-500:]))
    return res


HARNESS_ONLY = ("frm.", "fl.hasheq", "ft.", "thr.crowd")

# harness builds with the crate's optional features (own target directories, so the
# default build is never disturbed): name -> (cargo features, target dir)
FEATURE_BUILDS = {
    "feat": ("serde-as-str,num-traits,rkyv", "target-feat"),
    "featp": ("rkyv,packed", "target-featp"),      # the hand-written Archive impl for the packed layout
}


def build_harness_feat(name):
    feats, tdir = FEATURE_BUILDS[name]
    rc, out = sh("cargo build --offline --features %s --target-dir %s 2>&1" % (feats, os.path.join(ROOT, "harness", tdir)),
                 cwd=os.path.join(ROOT, "harness"), timeout=1500, env={"RUSTFLAGS": HOOK_CFG})
    return rc == 0, out[-3000:], os.path.join(ROOT, "harness", tdir, "debug", "fpdec-verif-harness")


def run_feature_lines(lines, tag):
    """ft.* lines: run on the feature builds; ft.rkyv on both layouts (first failure wins)"""
    res = ["B 1"] * len(lines)
    for name in ("feat", "featp"):
        idx = [i for i, l in enumerate(lines) if name == "feat" or l.startswith("ft.rkyv")]
        if not idx:
            continue
        with Lock():
            ok, out, fbin = build_harness_feat(name)
        if not ok:
            raise RuntimeError("feature harness %s does not build: %s" % (name, out[-800:]))
        got = run_impl(fbin, [lines[i] for i in idx], "%s_%s" % (tag, name))
        for i, g in zip(idx, got):
            if res[i] == "B 1" and g != "B 1":
                res[i] = g + " [" + name + "]"
    return res


def harness_only_verdict(line, im):
    """operations that exist on the implementation side only (C17 forms, C09 hash/eq):
    the harness itself compares and answers B 1"""
    ok = im == "B 1"
    known = "-"
    t = line.split()
    if t[0].startswith("frm.") and "_divr" in t[0] and not t[0].startswith("frm.dd_"):
        try:
            if int(t[-1]) > 18:
                known = "K1"
        except ValueError:
            pass
    # on a known-finding class the recorded behaviour is the disagreement itself (corr = "behaves as recorded")
    return ("B 1", True if known != "-" else ok, ok, known)


def run_driver(lines, impl, pf, tag):
    """returns list of (model_out, corr, acc, known)"""
    full = [None] * len(lines)
    idxs = [i for i, l in enumerate(lines) if not l.startswith(HARNESS_ONLY)]
    for i, l in enumerate(lines):
        if l.startswith(HARNESS_ONLY):
            full[i] = harness_only_verdict(l, impl[i])
    sub = run_driver_real([lines[i] for i in idxs], [impl[i] for i in idxs], pf, tag) if idxs else []
    for i, r in zip(idxs, sub):
        full[i] = r
    return full


def run_driver_real(lines, impl, pf, tag):
    n = len(lines)
    shards = min(NPROC, max(1, n // 200))
    procs = []
    for s in range(shards):
        path = os.path.join(WORK, "drv_%s_%d.in" % (tag, s))
        with open(path, "w") as f:
            for i in range(s, n, shards):
                f.write(lines[i] + "\t" + impl[i] + "\n")
        outp = path[:-3] + ".out"
        procs.append((s, subprocess.Popen("%s %s < %s > %s" % (os.path.join(ROOT, "ocaml", "driver"), pf, path, outp), shell=True), outp))
    res = [None] * n
    for s, p, outp in procs:
        p.wait()
        with open(outp) as f:
            rows = f.read().split("\n")
        if rows and rows[-1] == "":
            rows.pop()
        idx = list(range(s, n, shards))
        if len(rows) != len(idx):
            raise RuntimeError("driver shard %d: %d rows for %d cases" % (s, len(rows), len(idx)))
        for i, r in zip(idx, rows):
            c = r.split("\t")
            res[i] = (c[0], c[1] == "1", c[2] == "1", c[3] if len(c) > 3 else "-")
    return res


def canon_err(o):
    return "E invalid" if o.startswith("E ") else o


def eval_generic(pid, lines, hbin, pf="dev", tag=None):
    fidx = [i for i, l in enumerate(lines) if l.startswith("ft.")]
    oidx = [i for i, l in enumerate(lines) if not l.startswith("ft.")]
    impl = [None] * len(lines)
    if oidx:
        for i, r in zip(oidx, run_impl(hbin, [lines[i] for i in oidx], tag or pid)):
            impl[i] = r
    if fidx:
        for i, r in zip(fidx, run_feature_lines([lines[i] for i in fidx], tag or pid)):
            impl[i] = r
    rows = run_driver(lines, impl, pf, tag or pid)
    return impl, rows


def eval_C18(pid, lines, hbin):
    """Dec!(lit) at compile time (macro probe) against from_str(lit) of the implementation
    (oracle, the property itself) and against the model of the macro (correspondence)"""
    import macro_probe
    lits = [bytes.fromhex(l.split()[2]).decode("utf-8") if l.split()[2] != "-" else "" for l in lines]
    macro = macro_probe.probe(lits)
    keep = [i for i, m in enumerate(macro) if m is not None]
    lines = [lines[i] for i in keep]
    macro = [macro[i] for i in keep]
    fs_lines = [l.replace("str.macro", "str.parse", 1) for l in lines]
    fs = run_impl(hbin, fs_lines, pid + "_fs")
    rows = run_driver(lines, macro, "dev", pid)
    out_rows = []
    impl = []
    for l, m, f, (mo, corr, acc, kn) in zip(lines, macro, fs, rows):
        agree = (m == canon_err(f))
        impl.append("%s | from_str: %s" % (m, f))
        out_rows.append((mo, corr, agree, "-"))
    return lines, impl, out_rows


C20_PROFILES_QUICK = [("dev", "dev", ""), ("release", "release", ""), ("dev", "dev", "packed"), ("release", "release", "packed")]
C20_PROFILES_THOROUGH = [
    ("dev", "dev", ""), ("release", "release", ""),
    ("o0-ovf-nodbg", "ovf-nodbg", ""), ("o0-noovf-dbg", "noovf-dbg", ""), ("o0-noovf-nodbg", "release", ""),
    ("o3-ovf-dbg", "dev", ""), ("o3-ovf-nodbg", "ovf-nodbg", ""), ("o3-noovf-dbg", "noovf-dbg", ""),
    ("dev", "dev", "packed"), ("release", "release", "packed"),
    ("o0-ovf-nodbg", "ovf-nodbg", "packed"), ("o0-noovf-dbg", "noovf-dbg", "packed"), ("o0-noovf-nodbg", "release", "packed"),
    ("o3-ovf-dbg", "dev", "packed"), ("o3-ovf-nodbg", "ovf-nodbg", "packed"), ("o3-noovf-dbg", "noovf-dbg", "packed"),
]


# arithmetic properties whose statement includes "panics, never a wrong value": a wrapped result can exist in an
# optimised build only, so their cases run under the dev and the release build (same machinery as C20)
DUAL_PROFILE = ("C01", "C02", "C03", "C04", "C05", "C10", "C14", "C16", "C17")
DUAL_PROFILES = [("dev", "dev", ""), ("release", "release", "")]


def eval_C20(pid, lines, tier, log, profs=None):
    """the same cases under every build configuration: outcomes must be identical
    across configurations (the property), each equal to the model under the matching
    profile (correspondence) and accepted by the specification (oracle)"""
    if profs is None:
        profs = C20_PROFILES_THOROUGH if tier == "thorough" else C20_PROFILES_QUICK
    per = []
    for (cargo_prof, model_pf, feat) in profs:
        with Lock():
            ok, out, hbin = build_harness(cargo_prof, feat)
        if not ok:
            raise RuntimeError("harness build failed for %s %s: %s" % (cargo_prof, feat, out[-800:]))
        tag = "%s_%s_%s" % (pid, cargo_prof, feat or "nopacked")
        if feat:
            # cargo puts every feature set into the same target dir: run right after building
            pass
        impl = run_impl(hbin, lines, tag)
        rows = run_driver(lines, impl, model_pf, tag)
        per.append((cargo_prof + ("+" + feat if feat else ""), impl, rows))
        log("[%s] configuration %-22s: corr_fail=%d oracle_fail=%d" % (pid, per[-1][0],
            sum(1 for r in rows if not r[1]), sum(1 for r in rows if not r[2])))
    base_name, base_impl, base_rows = per[0]
    impl = []
    rows = []
    for i in range(len(lines)):
        same = all(p[1][i] == base_impl[i] for p in per)
        corr = all(p[2][i][1] for p in per)
        acc = all(p[2][i][2] for p in per) and same
        if same:
            impl.append(base_impl[i])
        else:
            impl.append(" | ".join("%s: %s" % (p[0], p[1][i]) for p in per if p[1][i] != base_impl[i] or p is per[0]))
        rows.append((base_rows[i][0], corr, acc, base_rows[i][3]))
    return impl, rows, [p[0] for p in per]


def nontrivial(line):
    """rule: some integer argument has magnitude > 9 (not a toy input)"""
    for tok in line.split()[2:]:
        for t in re.split(r"[:=,]", tok):
            t = t.lstrip("-SGRDMVUF")
            try:
                if t and int(t, 16) > 9:
                    return True
            except ValueError:
                pass
    return False


def load_known():
    p = os.path.join(ROOT, "known_findings.json")
    if not os.path.exists(p):
        return []
    return json.load(open(p))


def load_corpus(pid):
    p = os.path.join(ROOT, "corpus", pid + ".txt")
    if not os.path.exists(p):
        return []
    return [l.strip() for l in open(p) if l.strip() and not l.startswith("#")]


def gen_cases(pid, seed, tier, escalate=False):
    """escalate: the source the model was written from has changed (tools/fingerprint.py): explore four times
    the usual number of cases plus a second stream from another seed"""
    if escalate:
        a = gen_cases_one(pid, seed, tier, 4)
        b = gen_cases_one(pid, seed + 7919, tier, 2)
        return list(dict.fromkeys(a + b))
    return gen_cases_one(pid, seed, tier, 1)


def gen_cases_one(pid, seed, tier, mult):
    cfg = PROPS[pid]
    n = cfg[tier] * mult
    rng = random.Random(seed * 1000003 + int(hashlib.sha1(pid.encode()).hexdigest()[:6], 16))
    lines = []
    aux = [g for g in cfg["gens"] if g == "K"]
    main = [g for g in cfg["gens"] if g != "K"]
    per = max(1, (n - 3000 * len(aux)) // len(main))
    for g in cfg["gens"]:
        lines += gen.GENS[g](rng, 3000 if g == "K" else per)
    return gen.vary_modes(lines, rng)


def write_replay(pid, kind, info):
    os.makedirs(os.path.join(ROOT, "replays"), exist_ok=True)
    h = hashlib.sha1(json.dumps(info, sort_keys=True).encode()).hexdigest()[:10]
    path = os.path.join(ROOT, "replays", "%s-%s-%s.json" % (pid, kind, h))
    info = dict(info)
    info["property"] = pid
    info["kind"] = kind
    with open(path, "w") as f:
        json.dump(info, f, indent=1)
    return path


def main():
    t0 = time.time()
    args = sys.argv[1:]
    pid = args[0]
    tier = os.environ.get("VERIF_TIER", "quick")
    replay = None
    i = 1
    while i < len(args):
        if args[i] == "--tier":
            tier = args[i + 1]
            i += 2
        elif args[i] == "--replay":
            replay = args[i + 1]
            i += 2
        else:
            i += 1
    if tier not in ("quick", "thorough"):
        tier = "quick"
    seed = int(os.environ.get("VERIF_SEED", "1") or 1)
    cfg = PROPS[pid]
    os.makedirs(WORK, exist_ok=True)
    violations = []   # (replay path, suffix)
    known_hits = {}

    with Lock():
        proof = build_coq(pid, tier)
        okd, dout = build_driver()
        okh, hout, hbin = build_harness("dev")
    log("[%s] consts: %s" % (pid, proof.get("consts", "")))
    log("[%s] proof obligations: %d, discharged: %d%s" % (pid, proof["obligations"], proof["discharged"],
                                                         "" if proof["ok"] else "  BROKEN at " + str(proof["failed"])))
    if not okd:
        log("[%s] extracted driver does not build:\n%s" % (pid, dout))
    if not okh:
        log("[%s] harness does not build:\n%s" % (pid, hout))

    lines = []
    rows = []
    impl = []
    src_changed = []
    src_excused = []
    tie_report = None
    repaired_known = {}
    n_corr_fail = n_acc_fail = 0
    first_corr = None
    if okd and okh:
        if replay:
            info = json.load(open(replay))
            lines = [info["line"]] if "line" in info else []
        else:
            import fingerprint
            src_changed = fingerprint.changed_for(pid)
            # a new impl block or macro invocation in a modelled file can redirect method calls (an inherent method takes
            # precedence over a trait method of the same name) without touching any recorded item
            src_changed += ["%s (added)" % a for a in fingerprint.added_for(pid) if fingerprint.suspicious_added(a.split(" :: ", 1)[1])]
            if src_changed:
                proved, tie_report = tie_status()
                src_changed, src_excused = excuse_translated(src_changed, proved)
                if src_excused:
                    log("[%s] changed items whose translation is still proved equal to the model (no alarm): %s" % (pid, "; ".join(src_excused)))
            if src_changed and tier == "quick":
                log("[%s] source items changed since the model was written (%s): extended exploration" % (pid, "; ".join(src_changed)))
            lines = load_corpus(pid) + gen_cases(pid, seed, tier, escalate=bool(src_changed) and tier == "quick")
        configs = ["dev"]
        if lines:
            if pid == "C18":
                lines, impl, rows = eval_C18(pid, lines, hbin)
            elif pid == "C20":
                impl, rows, configs = eval_C20(pid, lines, tier, log)
            elif pid in DUAL_PROFILE:
                impl, rows, configs = eval_C20(pid, lines, tier, log, DUAL_PROFILES)
            else:
                impl, rows = eval_generic(pid, lines, hbin)
        knowns = {k["id"]: k for k in load_known() if k.get("kind") == "known" and pid in k.get("properties", [k.get("property")])}
        seen_viol = set()
        for ln, im, (mo, corr, acc, ktag) in zip(lines, impl, rows):
            if not acc:
                # a recorded finding is the input class AND the recorded wrong behaviour (which the model mirrors):
                # a different wrong outcome on the same inputs is a new violation
                if ktag in knowns and corr:
                    known_hits.setdefault(ktag, ln + " -> " + im)
                    continue
                n_acc_fail += 1
                key = ln.split()[0]
                if key not in seen_viol and len(seen_viol) < 5:
                    seen_viol.add(key)
                    violations.append((write_replay(pid, "oracle", dict(line=ln, implementation=im, model=mo, seed=seed, tier=tier,
                                                                        what="specification rejects the implementation's outcome")), ""))
            elif not corr and ktag in knowns:
                # the model mirrors the recorded defect on this input class on purpose; the specification accepts what
                # the implementation returns now (the defect has been repaired there): the oracle alone decides
                repaired_known.setdefault(ktag, ln + " -> " + im)
            elif not corr:
                n_corr_fail += 1
                if first_corr is None:
                    first_corr = dict(line=ln, implementation=im, model=mo)
    else:
        violations.append((write_replay(pid, "build", dict(what="driver or harness does not build", driver=dout[-800:], harness=hout[-800:])),
                           " no-failing-input-found"))

    # broken proof / broken correspondence without a failing input
    if not proof["ok"] and not violations:
        violations.append((write_replay(pid, "proof", dict(what="proof obligation no longer checks", where=proof["failed"],
                                                           theorems=proof["theorems"], log=proof["detail"][-1500:], consts=proof.get("consts"))),
                           " no-failing-input-found"))
    if src_changed and not replay and not violations and not n_corr_fail:
        # the structural half of the tie: the model was written from another text of these items; no input on which
        # the property fails was found, but the theorems are no longer shown to carry over to this source
        violations.append((write_replay(pid, "tie", dict(
            what="the Rust items the model was written from have changed; the correspondence model = implementation is "
                 "established for the recorded text only (tools/source_fingerprints.json). Extended exploration (%d cases) "
                 "found no input on which the property fails" % len(lines),
            changed_items=src_changed, new_items=fingerprint.added_for(pid), theorems=proof["theorems"], seed=seed, tier=tier,
            to_accept="bring the model in coq/model up to date with the change (or confirm that it needs none), re-run the "
                      "checks, then python3 tools/fingerprint.py --update")), " no-failing-input-found"))
    if n_corr_fail and not violations:
        info = dict(first_corr)
        info.update(what="correspondence model = implementation no longer holds (%d cases); the specification accepts every implementation outcome explored" % n_corr_fail,
                    seed=seed, tier=tier)
        violations.append((write_replay(pid, "correspondence", info), " no-failing-input-found"))

    # ---------------- evidence
    distinct = set(lines)
    nt = sum(1 for l in distinct if nontrivial(l))
    ops = {}
    kinds = {}
    modes = {}
    for ln, im in zip(lines, impl):
        t = ln.split()
        ops[t[0]] = ops.get(t[0], 0) + 1
        modes[t[1]] = modes.get(t[1], 0) + 1
        k = im.split()[0] if im else "?"
        kinds[k] = kinds.get(k, 0) + 1
    samples = []
    step = max(1, len(lines) // 6)
    for j in range(0, len(lines), step):
        samples.append(dict(case=lines[j], implementation=impl[j], model=rows[j][0], spec_accepts=rows[j][2]))
    ev = dict(
        property_id=pid, tier=tier, seed=seed, level="proof",
        coverage=dict(
            obligations=max(1, proof["obligations"]), discharged=proof["discharged"],
            checker_cmd="make -C coq props/%s.vo (coqc 8.16.1, full .vo) + Print Assumptions + forbidden-token scan" % pid,
            trusted_base=TRUSTED_BASE + ([
                "supplementary file coq/props/%s.v (specification = Flocq's IEEE-754 rounding; imports Flocq and Coq Reals): "
                "standard-library axioms %s, allow-listed by name; the theorems of props/%s.v itself use none"
                % (SUPPLEMENTS[pid][0], ", ".join(sorted(SUPPLEMENTS[pid][1])), pid)] if pid in SUPPLEMENTS else []),
            theorems=proof["theorems"], proof_ok=proof["ok"], proof_failed_at=proof["failed"],
            coqchk=proof.get("coqchk", "not run in the quick tier"),
            supplement_axioms=proof.get("axioms") or None,
            supplement_coqchk=next((v for k, v in proof.items() if k.startswith("coqchk_")), None),
            source_files_changed_since_model=(src_changed if (okd and okh and not replay) else None),
            translator=proof.get("translator"), translated_items_changed_but_proved_equal=src_excused or None,
            translator_report=tie_report,
            constants=proof.get("consts"),
            evaluations=len(lines), distinct_nontrivial=nt,
            rule="corpus + deterministic atlas (boundary/tie constructions) + seeded structured mixture (tools/gen.py); "
                 "distinct = distinct protocol lines; non-trivial = some integer argument of magnitude > 9",
            samples=samples[:8],
            correspondence_disagreements=n_corr_fail, oracle_rejections=n_acc_fail,
            known_findings_hit=sorted(known_hits), known_finding_inputs_now_accepted=sorted(repaired_known), build_configurations=configs if (okd and okh) else [], op_histogram=ops, outcome_kind_histogram=kinds, mode_histogram=modes,
            exhaustive=False,
        ),
        assumptions=["model faithfulness beyond the explored inputs", "rustc semantics of primitive operations", "see DESIGN.md §6"],
        wall_s=round(time.time() - t0, 2), violations=len(violations),
    )
    if os.environ.get("VERIF_DEV_SKIP_PROOF") != "1":      # a development run without the proof leaves no record
        # runs against a deliberately modified /repo (tools/try_seeded.sh) keep their record out of evidence/
        evdir = os.environ.get("VERIF_EVIDENCE_DIR") or os.path.join(ROOT, "evidence")
        os.makedirs(evdir, exist_ok=True)
        with open(os.path.join(evdir, pid + ".json"), "w") as f:
            json.dump(ev, f, indent=1)

    for kid, wit in sorted(known_hits.items()):
        log("KNOWN-FINDING: property=%s %s %s" % (pid, kid, wit))
    log("[%s] cases=%d distinct_nontrivial=%d corr_fail=%d oracle_fail=%d wall=%.1fs" % (pid, len(lines), nt, n_corr_fail, n_acc_fail, time.time() - t0))
    if violations:
        for path, suffix in violations:
            print("VIOLATION property=%s replay=%s%s" % (pid, path, suffix), flush=True)
        sys.exit(1)
    sys.exit(0)


if __name__ == "__main__":
    main()
