"""The static format-flag combinations exercised for C11 (shared by the Rust
table generator and the case generator)."""
FILL_ALIGN = [("", ""), ("", "<"), ("", "^"), ("", ">"),
              ("*", "<"), ("*", "^"), ("*", ">"),
              ("0", "<"), ("0", "^"), ("0", ">"), ("ä", "^")]
COMBOS = []
for fill, align in FILL_ALIGN:
    for plus in ("", "+"):
        for alt in ("", "#"):
            for zero in ("", "0"):
                COMBOS.append((fill, align, plus, alt, zero))
