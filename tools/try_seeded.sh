#!/bin/bash
# usage: try_seeded.sh <seeded name, e.g. C10m1> [property ids ...]
# Applies /verif/seeded/<name>/patch.diff to /repo, runs the quick check(s), ALWAYS reverts /repo.
name=$1; shift
pids="$@"; [ -z "$pids" ] && pids=${name:0:3}
cd /verif
export VERIF_EVIDENCE_DIR=/verif/work/evidence_seeded   # never overwrite the evidence of the unchanged tree
if [ -n "$(git -C /repo status --porcelain --untracked-files=no)" ]; then echo "/repo not clean"; exit 2; fi
trap 'git -C /repo checkout -- . ; python3 /verif/tools/extract_consts.py >/dev/null; python3 /verif/tools/rs2v.py >/dev/null' EXIT
git -C /repo apply /verif/seeded/$name/patch.diff || { echo "$name APPLY-FAIL"; exit 2; }
for p in $pids; do
  out=$(python3 tools/check.py $p --tier quick 2>&1); rc=$?
  echo "== $name on $p: exit=$rc"
  echo "$out" | grep -E 'VIOLATION|KNOWN-FINDING|BROKEN|cases=' | head -8
done
