#!/usr/bin/env python3
"""print a Rust file with #[cfg(test)] mod blocks and comment-only lines removed, with line numbers"""
import sys,re
for path in sys.argv[1:]:
    print("=== "+path)
    lines=open(path).read().split('\n')
    i=0
    while i<len(lines):
        l=lines[i]
        if l.strip().startswith('#[cfg(test)]'):
            # skip to the mod's closing brace
            j=i+1
            depth=0; started=False
            while j<len(lines):
                depth+=lines[j].count('{')-lines[j].count('}')
                if '{' in lines[j]: started=True
                if started and depth<=0: break
                j+=1
            i=j+1; continue
        s=l.strip()
        if s.startswith('//') or s=='' : i+=1; continue
        print(f"{i+1}: {l}")
        i+=1
