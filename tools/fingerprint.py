#!/usr/bin/env python3
"""Digests of the Rust source files the models were written from (comments and layout ignored).
   check.py compares them with /repo's current files: when a file a property is anchored in has
   changed, the model may be stale, and the check explores several times more inputs for that
   property (it never raises an alarm by itself).
   usage: fingerprint.py            print the files that differ from the recorded state
          fingerprint.py --update   record the current state (done by hand after the model has
                                    been brought up to date with a source change)"""
import hashlib, json, os, re, sys

ROOT = os.path.dirname(os.path.dirname(os.path.abspath(__file__)))
REPO = "/repo"
REC = os.path.join(ROOT, "tools", "source_fingerprints.json")
CORE = ["fpdec-core/src/lib.rs", "fpdec-core/src/rounding.rs", "fpdec-core/src/powers_of_ten.rs", "src/lib.rs"]


def digest(path):
    try:
        s = open(path, encoding="utf-8").read()
    except OSError:
        return "missing"
    s = re.sub(r"/\*.*?\*/", " ", s, flags=re.S)
    s = "\n".join(re.sub(r"//.*$", "", ln) for ln in s.split("\n"))
    s = re.sub(r"\s+", " ", s)
    return hashlib.sha1(s.encode()).hexdigest()


def all_files():
    fs = []
    for base in ("src", "fpdec-core/src", "fpdec-macros/src"):
        for d, _, names in os.walk(os.path.join(REPO, base)):
            for n in names:
                if n.endswith(".rs"):
                    fs.append(os.path.relpath(os.path.join(d, n), REPO))
    return sorted(fs)


def current():
    return {f: digest(os.path.join(REPO, f)) for f in all_files()}


def recorded():
    try:
        return json.load(open(REC))
    except OSError:
        return {}


def anchors():
    a = {}
    for l in open(os.path.join(ROOT, "properties.jsonl")):
        p = json.loads(l)
        a[p["id"]] = sorted(set(p["anchors"]["files"]) | set(CORE))
    return a


def changed_for(pid):
    cur, rec = current(), recorded()
    return [f for f in anchors()[pid] if cur.get(f, "missing") != rec.get(f)]


if __name__ == "__main__":
    if "--update" in sys.argv:
        json.dump(current(), open(REC, "w"), indent=1, sort_keys=True)
        print("recorded %d files" % len(current()))
    else:
        cur, rec = current(), recorded()
        for f in sorted(set(cur) | set(rec)):
            if cur.get(f) != rec.get(f):
                print("changed:", f)
