#!/usr/bin/env python3
"""The structural half of the tie between the hand-written model and /repo's source.

The Gallina model was written from a particular text of each Rust item (function, impl block, macro
definition, macro invocation, constant).  This tool records a digest of every top-level item of every
source file (comments, layout and #[cfg(test)] modules ignored) in tools/source_fingerprints.json and
reports which items of the files a property is anchored in differ from the record.

check.py uses it on every run: a changed or removed item means the model may no longer describe the
code, i.e. the correspondence that carried the theorems over to the implementation is broken.  The
check then explores several times more inputs for a concrete failing one; if none is found it still
reports the violation (the property is no longer shown to hold for this source) and ends the line with
no-failing-input-found, naming the items in the replay file.

usage: fingerprint.py            print the items that differ from the recorded state
       fingerprint.py --update   record the current state (by hand, after the model has been brought up
                                 to date with a source change and the correspondence re-established)"""
import hashlib, json, os, re, sys

ROOT = os.path.dirname(os.path.dirname(os.path.abspath(__file__)))
REPO = "/repo"
REC = os.path.join(ROOT, "tools", "source_fingerprints.json")
CORE = ["fpdec-core/src/lib.rs", "fpdec-core/src/rounding.rs", "fpdec-core/src/powers_of_ten.rs", "src/lib.rs"]
SKIP_ITEMS = re.compile(r"^(pub )?mod verif_hooks\b|^extern crate |^mod \w+ ?;|^pub mod \w+ ?;")
USE_ITEM = re.compile(r"^(pub(\([a-z]+\))? )?use ")


def expand_use(t):
    """use a::{b, c::{d, e}};  ->  {a::b, a::c::d, a::c::e}  (so that regrouping or reordering imports changes nothing)"""
    t = re.sub(r"^(pub(\([a-z]+\))? )?use ", "", t.strip().rstrip(";")).replace(" ", "")
    def ex(prefix, body):
        out, depth, cur = [], 0, ""
        parts = []
        for ch in body:
            if ch == "{": depth += 1
            if ch == "}": depth -= 1
            if ch == "," and depth == 0:
                parts.append(cur); cur = ""
            else:
                cur += ch
        if cur: parts.append(cur)
        for p_ in parts:
            m = re.match(r"^(.*?)::\{(.*)\}$", p_)
            if m:
                out += ex(prefix + m.group(1) + "::", m.group(2))
            elif p_.startswith("{") and p_.endswith("}"):
                out += ex(prefix, p_[1:-1])
            else:
                out.append(prefix + p_)
        return out
    return ex("", t)


def strip_comments(s):
    """remove // and /* */ comments, keep string and char literals intact"""
    out = []
    i, n = 0, len(s)
    while i < n:
        c = s[i]
        if c == '"':
            j = i + 1
            while j < n and s[j] != '"':
                j += 2 if s[j] == "\\" else 1
            out.append(s[i:j + 1]); i = j + 1
        elif c == "'" and i + 2 < n and (s[i + 2] == "'" or (s[i + 1] == "\\" and "'" in s[i + 2:i + 6])):
            j = s.index("'", i + 2 if s[i + 1] != "\\" else i + 3)
            out.append(s[i:j + 1]); i = j + 1
        elif s.startswith("//", i):
            j = s.find("\n", i)
            i = n if j < 0 else j
        elif s.startswith("/*", i):
            depth, j = 1, i + 2
            while j < n and depth:
                if s.startswith("/*", j): depth += 1; j += 2
                elif s.startswith("*/", j): depth -= 1; j += 2
                else: j += 1
            i = j
        else:
            out.append(c); i += 1
    return "".join(out)


def items(path):
    """top-level items of a Rust file as {key: digest}; #[cfg(test)] items and doc attributes dropped"""
    try:
        s = strip_comments(open(path, encoding="utf-8", newline="").read())
    except OSError:
        return {}
    res = {}
    i, n = 0, len(s)
    start = 0
    depth = 0
    in_str = False
    while i < n:
        c = s[i]
        if c == '"':
            j = i + 1
            while j < n and s[j] != '"':
                j += 2 if s[j] == "\\" else 1
            i = j + 1
            continue
        if c in "{([":
            depth += 1
        elif c in "})]":
            depth -= 1
            if depth == 0 and c == "}":
                # an item ends here unless it is a struct-like expression followed by ';' (const X: T = T { .. };)
                k = i + 1
                while k < n and s[k] in " \t\r\n":
                    k += 1
                if k < n and s[k] == ";":
                    i = k
                add_item(res, s[start:i + 1]); start = i + 1
        elif c == ";" and depth == 0:
            add_item(res, s[start:i + 1]); start = i + 1
        i += 1
    uses = res.pop("\x00use", None)
    if uses is not None:
        res["use declarations"] = hashlib.sha1(" ".join(sorted(set(uses))).encode()).hexdigest()[:16]
    return res


def add_item(res, text):
    t = re.sub(r"\s+", " ", text).strip()
    if not t:
        return
    # separate leading attributes
    attrs = []
    while t.startswith("#["):
        d, j = 0, 1
        while j < len(t):
            if t[j] == "[": d += 1
            elif t[j] == "]":
                d -= 1
                if d == 0: break
            j += 1
        attrs.append(t[:j + 1]); t = t[j + 1:].strip()
    if any(re.match(r"#\[cfg\((all\()?test\b", a) or "cfg(test)" in a for a in attrs):
        return
    if any("fpdec_verif" in a for a in attrs):
        return
    if not t or SKIP_ITEMS.match(t):
        return
    if USE_ITEM.match(t):
        # all imports of a file form one item: the set of imported paths decides which function a name refers to
        if any("cfg" in a for a in attrs):
            t = " ".join(attrs) + " " + t
        paths = expand_use(t) if "cfg" not in t else [t]
        # imports of types, traits and enum variants (capitalised last segment) cannot redirect a call; imports of
        # functions, modules, macros, globs and renames can
        keep = [q for q in paths if "cfg" in q or "as" in re.split(r"::", q)[-1] or q.endswith("*")
                or not re.split(r"::", q)[-1][:1].isupper()]
        res.setdefault("\x00use", []).extend(sorted(keep))
        return
    attrs = [a for a in attrs if not re.match(r"#\[(doc|inline|must_use|allow|cfg_attr\(docsrs)", a)]
    mm = re.match(r"macro_rules! ?(\w+)", t)
    m = re.match(r"((?:pub(?:\([a-z]+\))? )?(?:const |unsafe |async )*(?:fn|struct|enum|trait|type|static|const|mod|impl(?:<[^>]*>)?|union)\b[^{(;=]*)", t)
    key = ("macro_rules! " + mm.group(1)) if mm else (m.group(1).strip() if m else t[:80])
    key = re.sub(r"\s+", " ", key)
    body = " ".join(attrs) + " " + t
    k, c = key, 1
    while k in res:
        c += 1; k = "%s #%d" % (key, c)
    res[k] = hashlib.sha1(body.encode()).hexdigest()[:16]


def all_files():
    fs = []
    for base in ("src", "fpdec-core/src", "fpdec-macros/src"):
        for d, _, names in os.walk(os.path.join(REPO, base)):
            for nm in names:
                if nm.endswith(".rs"):
                    fs.append(os.path.relpath(os.path.join(d, nm), REPO))
    return sorted(fs)


MANIFESTS = ["Cargo.toml", "fpdec-core/Cargo.toml", "fpdec-macros/Cargo.toml"]
MANIFEST_SECTIONS = re.compile(r"^(features|dependencies|dev-dependencies|build-dependencies|profile(\..*)?|lib|lints(\..*)?|target\..*|patch(\..*)?|workspace(\..*)?)$")


def manifest_items(path):
    """the sections of a Cargo manifest that can change what is compiled (features, dependencies, profiles, lib, build.rs);
    version, description and the like are left out"""
    try:
        txt = open(path, encoding="utf-8").read()
    except OSError:
        return {}
    res, cur, buf = {}, None, []

    def flush():
        if cur is not None and MANIFEST_SECTIONS.match(cur):
            body = "\n".join(l.split("#")[0].strip() for l in buf if l.split("#")[0].strip())
            res["[%s]" % cur] = hashlib.sha1(body.encode()).hexdigest()[:16]
    for line in txt.split("\n"):
        m = re.match(r"^\s*\[+([^\]]+)\]+\s*$", line)
        if m:
            flush(); cur = m.group(1).strip(); buf = []
        else:
            if cur is None and re.match(r"^\s*build\s*=", line):
                res["build script"] = hashlib.sha1(line.strip().encode()).hexdigest()[:16]
            buf.append(line)
    flush()
    if cur is not None:
        pass
    # a build script next to the manifest
    b = os.path.join(os.path.dirname(path), "build.rs")
    if os.path.exists(b):
        res["build.rs"] = hashlib.sha1(open(b, "rb").read()).hexdigest()[:16]
    # the package-level `build =` key lives in [package]
    pk = re.search(r"^\[package\](.*?)(?=^\[)", txt, re.S | re.M)
    if pk:
        mb = re.search(r"^\s*build\s*=.*$", pk.group(1), re.M)
        if mb: res["build script"] = hashlib.sha1(mb.group(0).strip().encode()).hexdigest()[:16]
    return res


SRC_DIRS = ("src", "fpdec-core/src", "fpdec-macros/src")


def crate_items():
    """facts about the crates as a whole that decide WHICH code is compiled and WHICH function a name refers to, wherever
    they occur (also inside inline modules and in files no property is anchored in): the list of source files, every
    `mod` declaration with its attributes (#[path], #[cfg]), every impl header, every macro_rules! name, every include!"""
    files, mods, impls, macros, includes, linkage = [], [], [], [], [], []
    for base in SRC_DIRS:
        for d, _, names in os.walk(os.path.join(REPO, base)):
            for nm in sorted(names):
                rel = os.path.relpath(os.path.join(d, nm), REPO)
                files.append(rel)
                try:
                    txt = strip_comments(open(os.path.join(d, nm), encoding="utf-8", newline="").read())
                except (OSError, UnicodeDecodeError):
                    continue
                for m in re.finditer(r"((?:#!?\[[^\]]*\]\s*)*)(?:pub(?:\([a-z ]+\))?\s+)?mod\s+(\w+)\s*([;{])", txt):
                    attrs = re.sub(r"\s+", "", m.group(1))
                    if "cfg(test)" in attrs or "fpdec_verif" in attrs:
                        continue
                    attrs = re.sub(r"#\[(doc|allow|warn|deny|inline)[^\]]*\]", "", attrs)
                    mods.append("%s:%s mod %s%s" % (rel, attrs, m.group(2), m.group(3)))
                for m in re.finditer(r"\bimpl\b([^{;]*)\{", txt):
                    impls.append("%s: impl %s" % (rel, re.sub(r"\s+", " ", m.group(1)).strip()))
                for m in re.finditer(r"\bmacro_rules!\s*(\w+)", txt):
                    macros.append("%s: %s" % (rel, m.group(1)))
                for m in re.finditer(r"\binclude(?:_str|_bytes)?!\s*\(([^)]*)\)", txt):
                    includes.append("%s: %s" % (rel, re.sub(r"\s+", "", m.group(1))))
                # anything that reaches below the language: symbol names, sections, foreign items, assembly, raw unsafety
                for m in re.finditer(r"no_mangle|export_name|link_section|link_name|#\[\s*link\b|\bextern\s*\"|\bextern\s+crate|"
                                     r"global_asm!|\basm!|#\[\s*used\b|#\[\s*naked\b|\bstatic\s+mut\b|\bunsafe\b|global_allocator|panic_handler|"
                                     r"#!\[\s*feature|lang\s*=", txt):
                    linkage.append("%s: %s" % (rel, re.sub(r"\s+", "", m.group(0))))
    dig = lambda l: hashlib.sha1("\n".join(sorted(l)).encode()).hexdigest()[:16]
    # files that change how rustc is invoked for anyone who builds the crate in place
    cfgs = []
    for rel in (".cargo/config.toml", ".cargo/config", "rust-toolchain", "rust-toolchain.toml", "build.rs",
                "fpdec-core/.cargo/config.toml", "fpdec-macros/.cargo/config.toml", "clippy.toml", "rustfmt.toml"):
        pth = os.path.join(REPO, rel)
        if os.path.exists(pth) and rel not in ("clippy.toml", "rustfmt.toml"):
            cfgs.append("%s:%s" % (rel, hashlib.sha1(open(pth, "rb").read()).hexdigest()[:16]))
    return {"build configuration files": dig(cfgs), "linkage and unsafe markers": hashlib.sha1("\n".join(sorted(linkage)).encode()).hexdigest()[:16],
            "source files": dig(files), "mod declarations": dig(mods), "impl headers": dig(impls),
            "macro_rules names": dig(macros), "include! uses": dig(includes)}


def current():
    c = {f: items(os.path.join(REPO, f)) for f in all_files()}
    c["(crates)"] = crate_items()
    for mf in MANIFESTS:
        c[mf] = manifest_items(os.path.join(REPO, mf))
    return c


def recorded():
    try:
        return json.load(open(REC))
    except OSError:
        return {}


# what each property's model was written from beyond the files the property is anchored in:
# (file, regular expression on the item key, or None for every item of the file)
KERNELS = r"u128_|u256_|i256_|i128_shifted|i128_div_mod_floor|MAX_N_FRAC"
LOG10 = r"less_than_5|fn u8\b|fn u16|fn u32|fn u64|fn u128\b|i128_magnitude"
P10 = ("fpdec-core/src/powers_of_ten.rs", None)
RND = ("fpdec-core/src/rounding.rs", None)
STRUCT = ("src/lib.rs", r"struct Decimal|impl Decimal|fn normalize|MAX_N_FRAC")
EXTRA = {
    "C01": [P10, STRUCT],
    "C02": [P10, RND, ("fpdec-core/src/lib.rs", KERNELS), STRUCT],
    "C03": [P10, RND, ("fpdec-core/src/lib.rs", KERNELS), STRUCT],
    "C04": [P10, RND, ("fpdec-core/src/lib.rs", KERNELS), ("src/binops/mul.rs", None), ("src/binops/checked_mul.rs", None), STRUCT],
    "C05": [P10, RND, ("fpdec-core/src/lib.rs", r"i128_div_mod_floor"), STRUCT],
    "C06": [P10, STRUCT],
    "C07": [("fpdec-core/src/parser.rs", None), P10, ("fpdec-core/src/lib.rs", r"i128_div_mod_floor"), RND, STRUCT],
    "C08": [P10, ("fpdec-core/src/lib.rs", r"adjust_coeffs"), ("src/lib.rs", r"struct Decimal|rkyv|Archived")],
    "C09": [P10, ("src/lib.rs", r"struct Decimal|impl Hash"), ("src/binops/cmp.rs", r"partial_eq")],
    "C10": [P10, STRUCT, ("src/unops.rs", r"fract|impl Decimal")],
    "C11": [P10, RND, ("fpdec-core/src/lib.rs", r"i128_div_mod_floor"), STRUCT],
    "C12": [STRUCT],
    "C13": [("fpdec-core/src/lib.rs", LOG10), STRUCT],
    "C14": [P10, STRUCT],
    "C15": [P10, ("fpdec-core/src/lib.rs", LOG10 + r"|i128_div_mod_floor"), STRUCT],
    "C16": [P10, STRUCT],
    "C17": [P10, RND, ("fpdec-core/src/lib.rs", KERNELS + r"|adjust_coeffs"), STRUCT],
    "C18": [P10, STRUCT],
    "C19": [("src/round.rs", None), ("src/binops/mul.rs", None), ("src/binops/div.rs", None), ("src/format.rs", r"Display")],
    "C20": [P10, RND, ("fpdec-core/src/lib.rs", None), STRUCT] + [(f, None) for f in (
        "src/binops/checked_add_sub.rs", "src/binops/checked_mul.rs", "src/binops/mul_rounded.rs", "src/binops/div.rs",
        "src/binops/checked_div.rs", "src/binops/div_rounded.rs", "src/binops/rem.rs", "src/binops/checked_rem.rs",
        "src/binops/cmp.rs", "src/quantize.rs", "src/binops/mod.rs")],
}
# anchor files of which only some items matter to the property
ANCHOR_FILTER = {
    ("C08", "fpdec-core/src/lib.rs"): r"adjust_coeffs",
    ("C08", "src/lib.rs"): r"struct Decimal|rkyv|Archived",
    ("C09", "src/lib.rs"): r"struct Decimal|impl Hash",
    ("C13", "src/lib.rs"): r"struct Decimal|fn normalize",
    ("C15", "src/lib.rs"): r"struct Decimal|impl Decimal|MAX|MIN|ZERO|ONE",
    ("C15", "fpdec-core/src/lib.rs"): LOG10 + r"|i128_div_mod_floor",
    ("C15", "src/binops/cmp.rs"): r"impl_basics",
    ("C03", "src/lib.rs"): r"struct Decimal|impl Decimal|fn normalize",
    ("C07", "src/lib.rs"): r"struct Decimal|serde",
    ("C20", "src/lib.rs"): r"struct Decimal|impl Decimal|fn normalize|packed",
}


def anchors():
    """{pid: [(file, item filter or None)]}"""
    a = {}
    for l in open(os.path.join(ROOT, "properties.jsonl")):
        p = json.loads(l)
        pid = p["id"]
        deps = {}
        for f in p["anchors"]["files"]:
            deps[f] = ANCHOR_FILTER.get((pid, f))
        for f, rx in EXTRA.get(pid, []):
            if f in deps:
                if deps[f] is not None:
                    deps[f] = None if rx is None else "(%s)|(%s)" % (deps[f], rx)
            else:
                deps[f] = rx
        a[pid] = sorted(deps.items())
    return a


def diff_file(cur, rec):
    """(changed-or-removed, added) item keys"""
    ch = [k for k in rec if cur.get(k) != rec[k]]
    ad = [k for k in cur if k not in rec]
    return ch, ad


def changed_for(pid):
    """items of the property's anchor files that changed or disappeared since the record: ['file :: item', ...]"""
    cur, rec = current(), recorded()
    out = []
    for f, rx in anchors()[pid]:
        ch, ad = diff_file(cur.get(f, {}), rec.get(f, {}))
        out += ["%s :: %s" % (f, k) for k in ch if rx is None or re.search(rx, k) or k == "use declarations"]
    # what is compiled at all: features, dependencies, profiles, build scripts of the three manifests (every property)
    for mf in MANIFESTS + ["(crates)"]:
        ch, ad = diff_file(cur.get(mf, {}), rec.get(mf, {}))
        out += ["%s :: %s" % (mf, k) for k in ch + ad]
    return out


def suspicious_added(key):
    """an added top-level item that is not obviously a plain helper: anything but a snake_case `fn` (no extern / unsafe) or a
    SCREAMING_CASE `const`.  impl blocks and macro invocations redirect calls; a `static`, a CamelCase value or function can
    shadow a prelude name (`Ok`, `Some`); extern functions can replace compiler-rt symbols."""
    if re.match(r"^(pub(\([a-z]+\))? )?(const )?fn [a-z_][a-z0-9_]*$", key) and not key.split()[-1].startswith("__"):
        return False
    if re.match(r"^(pub(\([a-z]+\))? )?const [A-Z][A-Z0-9_]*\b", key):
        return False
    return True


def added_for(pid):
    cur, rec = current(), recorded()
    out = []
    for f, rx in anchors()[pid]:
        ch, ad = diff_file(cur.get(f, {}), rec.get(f, {}))
        out += ["%s :: %s" % (f, k) for k in ad]
    return out


if __name__ == "__main__":
    if "--update" in sys.argv:
        c = current()
        json.dump(c, open(REC, "w"), indent=1, sort_keys=True)
        print("recorded %d files, %d items" % (len(c), sum(len(v) for v in c.values())))
    else:
        cur, rec = current(), recorded()
        for f in sorted(set(cur) | set(rec)):
            ch, ad = diff_file(cur.get(f, {}), rec.get(f, {}))
            for k in ch:
                print("changed:", f, "::", k)
            for k in ad:
                print("added:  ", f, "::", k)
