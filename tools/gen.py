#!/usr/bin/env python3
"""Case generators for the correspondence / oracle runs.

Every generator is a function  gen_<ID>(rng, n) -> list of protocol lines
("<op> <mode> <args...>", integers in hex).  All randomness comes from the one
`random.Random(seed)` passed in.  Each generator starts with a deterministic
*atlas* (enumerated boundary / tie constructions that do not depend on the
seed) and continues with a seeded random stream drawn from a structured
mixture (not uniform): see DESIGN.md §1.4.
"""
import random
import re

MAXC = 2**127 - 1
MODES = list(range(8))
ITYPES = {
    "u8": (0, 2**8 - 1), "i8": (-2**7, 2**7 - 1), "u16": (0, 2**16 - 1), "i16": (-2**15, 2**15 - 1),
    "u32": (0, 2**32 - 1), "i32": (-2**31, 2**31 - 1), "u64": (0, 2**64 - 1), "i64": (-2**63, 2**63 - 1),
    "i128": (-2**127, 2**127 - 1),
}
TYNAMES = list(ITYPES)


def hx(i):
    return ("-%x" % -i) if i < 0 else ("%x" % i)


def clamp(c):
    return max(-MAXC, min(MAXC, c))


def coef(rng):
    """structured coefficient mixture, |c| <= 2^127-1"""
    k = rng.randrange(16)
    s = rng.choice((1, -1))
    if k == 0:
        return rng.choice((0, 1, -1, 2, -2, 5, -5, 10, -10))
    if k == 1:
        return s * 10 ** rng.randrange(39)
    if k == 2:
        return clamp(s * (10 ** rng.randrange(1, 39) + rng.choice((-1, 1))))
    if k == 3:
        return s * 2 ** rng.randrange(127)
    if k == 4:
        return clamp(s * (2 ** rng.randrange(1, 128) + rng.choice((-1, 1))))
    if k == 5:
        return s * (MAXC - rng.randrange(4))
    if k == 6:
        return clamp(s * rng.randrange(1, 10) * 10 ** rng.randrange(38))
    if k == 7:
        return s * (10 ** rng.randrange(1, 39) - 1)
    if k == 8:
        j = rng.randrange(1, 30)
        return clamp(s * rng.getrandbits(rng.randrange(1, 100)) * 10 ** j)
    if k == 9:
        return clamp(s * (MAXC // 10 ** rng.randrange(0, 39) + rng.choice((-1, 0, 1))))
    if k == 10:
        return s * rng.randrange(0, 1000)
    if k == 11:
        return clamp(s * 5 * 10 ** rng.randrange(38))
    return s * rng.getrandbits(rng.randrange(1, 128))


def scale(rng):
    return rng.randrange(19)


MINC = -2**127
# coefficients at the width of narrower machine types (casts, fast paths) and at the scaling limits MAXC // 10^d
WIDTH_BOUNDS = sorted(set(
    [sg * (2**w + dl) for w in (7, 8, 15, 16, 31, 32, 53, 63, 64, 65, 96, 126) for dl in (-1, 0, 1) for sg in (1, -1)] +
    [sg * (MAXC // 10**d + dl) for d in range(0, 39) for dl in (-1, 0, 1) for sg in (1, -1) if abs(MAXC // 10**d + dl) <= MAXC] +
    [sg * (2**w + dl) * 10**k for w in (32, 64) for dl in (0, 1, 9, 10**9) for k in (1, 2, 9, 16, 18) for sg in (1, -1)
     if (2**w + dl) * 10**k <= MAXC]))


# quotients of a machine-word bound by a power of ten / five, and values that put such a quotient into the high
# 64-bit limb: the boundaries of hand-written multi-limb fast paths
LIMB_BOUNDS = sorted(set(
    [sg * (v + dl) for w in (32, 63, 64, 127, 128) for k in range(0, 20) for base in (10, 5)
     for v in ((2**w - 1) // base**k, -(-(2**w) // base**k)) for dl in (-1, 0, 1) for sg in (1, -1)
     if 0 < v + dl <= MAXC] +
    [sg * (((2**64 - 1) // 10**k + dh) * 2**64 + lo) for k in range(1, 20) for dh in (-1, 0, 1)
     for lo in (0, 2**63, 2**64 - 1, 2**64 - 10**k if 10**k < 2**64 else 1) for sg in (1, -1)
     if 0 < ((2**64 - 1) // 10**k + dh) * 2**64 + lo <= MAXC] +
    [sg * (j * 2**64 - 1 + dl) for j in (1, 2, 3, 5, 2**20 + 1, 2**62 + 1) for dl in (0, 1) for sg in (1, -1)
     if j * 2**64 - 1 + dl <= MAXC]))


def max_quot_products(rng):
    """(x, px, y, py, r, s): x*y = 10^s * MAXC + r with 0 <= r < 10^s and px + py = 18 + s: the floor of the exact
    product at 18 digits is exactly i128::MAX and r decides whether rounding up overflows"""
    out = []
    for sft in range(1, 19):
        T = 10**sft
        found = 0
        for y in [T + j for j in (1, 2, 3, 5, 7, 11, 13, 17, 29, 101, T // 2 + 1, T // 3, T - 1)]:
            if not T <= y < 2 * T:
                continue
            r = (-T * MAXC) % y
            if r < T and (T * MAXC + r) % y == 0:
                x = (T * MAXC + r) // y
                if x <= MAXC:
                    py = min(18, sft + rng.randrange(0, 19 - sft) if sft < 18 else 18)
                    py = max(py, sft)              # y has up to sft+1 digits; any split with px + py = 18 + s works
                    px = 18 + sft - py
                    if 0 <= px <= 18:
                        out.append((x, px, y, py, r, sft)); found += 1
            if found >= 4:
                break
    return out


def max_quot_divisions(rng):
    """(cx, k, cy, r): cx * 10^k = cy * MAXC + r with 0 <= r < cy: the floor quotient is exactly i128::MAX"""
    out = []
    for k in range(1, 37):
        T = 10**k
        found = 0
        for cy in [T - j for j in (1, 3, 7, 9, 11, 13, 27, 99, T // 3)] + [9, 7, 3, 11, 13]:
            if not 1 < cy <= MAXC:
                continue
            r = (-cy * MAXC) % T
            if r < cy and (cy * MAXC + r) % T == 0:
                cx = (cy * MAXC + r) // T
                if 0 < cx <= MAXC:
                    out.append((cx, k, cy, r)); found += 1
            if found >= 3:
                break
    return out


def all_nines(rng):
    """(c, n): coefficients whose last n digits are all 9 (or all 0 / 0..01) with a huge, a medium and a small
    integral part: the worst case of every multiply-by-reciprocal or limb-wise division by 10^n"""
    out = []
    for n in range(1, 19):
        T = 10**n
        for q in (MAXC // T - 1, MAXC // T - 2, 10 ** (38 - n) - 1, 2**64, 2**64 - 1, rng.getrandbits(126 - int(n * 3.33)), 7, 0):
            for frac in (T - 1, T - 2, 0, 1, T // 2):
                c = q * T + frac
                if 0 <= c <= MAXC:
                    out.append((c, n))
        c = MAXC - (MAXC + 1) % T        # the largest coefficient = -1 mod 10^n
        out.append((c, n))
    return out


MODE_DEPENDENT = re.compile(r"^(dd|di|id|ii)\.(mul|cmul|div|cdiv|divr|mulr|quant)\b|^un\.(round|cround)\b|^fmt\.|^w\.(divr|sdr|mdr)\b|^thr\.|^frm\.")


def vary_modes(lines, rng):
    """operations whose result must not depend on the thread's default rounding mode are run under
    every mode: half of their lines get a mode other than the one the generator wrote"""
    out = []
    for l in lines:
        t = l.split(" ", 2)
        if len(t) == 3 and t[1] == "5" and not MODE_DEPENDENT.match(t[0]) and rng.randrange(2):
            l = "%s %d %s" % (t[0], rng.choice((0, 1, 2, 3, 4, 6, 7)), t[2])
        elif len(t) == 3 and t[1].isdigit() and int(t[1]) < 8 and MODE_DEPENDENT.match(t[0]) \
                and not t[0].startswith(("thr.", "frm.")) and rng.randrange(8) == 0:
            # the thread's mode must also survive another thread's set_default calls (mode + 8, see the harness)
            l = "%s %d %s" % (t[0], int(t[1]) + 8, t[2])
        out.append(l)
    return out


def intval(rng, ty, allow_min=True):
    lo, hi = ITYPES[ty]
    k = rng.randrange(8)
    if k == 0:
        v = rng.choice((0, 1, 2, 3, 7, 10, 100))
    elif k == 1:
        v = hi - rng.randrange(3)
    elif k == 2:
        v = lo + rng.randrange(3)
    elif k == 3:
        v = -rng.choice((1, 2, 3, 7, 10))
    elif k == 4:
        v = 10 ** rng.randrange(39)
    elif k == 5:
        v = -(10 ** rng.randrange(39))
    else:
        v = rng.randrange(lo, hi + 1)
        if rng.randrange(2):
            v = v >> rng.randrange(0, 120)
    v = max(lo, min(hi, v))
    if not allow_min and ty == "i128" and v == lo:
        v = lo + 1
    return v


def dd(op, m, x, p, y, q, n=None):
    x, y = clamp(x), clamp(y)
    s = "dd.%s %d %s %d %s %d" % (op, m, hx(x), p, hx(y), q)
    return s if n is None else s + " %d" % n


def di(op, ty, m, x, p, i, n=None):
    x = clamp(x)
    s = "di.%s.%s %d %s %d %s" % (op, ty, m, hx(x), p, hx(i))
    return s if n is None else s + " %d" % n


def id_(op, ty, m, i, y, q, n=None):
    y = clamp(y)
    s = "id.%s.%s %d %s %s %d" % (op, ty, m, hx(i), hx(y), q)
    return s if n is None else s + " %d" % n


def ii(op, ty, m, i, j, n=None):
    s = "ii.%s.%s %d %s %s" % (op, ty, m, hx(i), hx(j))
    return s if n is None else s + " %d" % n


def un(op, m, c, p, *extra):
    c = clamp(c)
    return " ".join(["un.%s %d %s %d" % (op, m, hx(c), p)] + [str(e) for e in extra])


# ---------------------------------------------------------------- helpers
def rem_classes(d):
    """remainders covering 0, 1, half-1, half, half+1, d-1 for a divisor d > 0"""
    s = {0, 1, d - 1, d // 2, d // 2 - 1, d // 2 + 1, (d + 1) // 2}
    return sorted(r for r in s if 0 <= r < d)


def quot_set(rng):
    """quotients covering sign, 0, +-1, every last digit"""
    base = rng.randrange(10, 10**6) * 10
    return [0, 1, -1, 4, 5, -5, -6] + [base + d for d in range(10)] + [-(base + d) for d in range(10)]


# ---------------------------------------------------------------- C01
def gen_C01(rng, n):
    out = []
    ops = ("add", "sub", "cadd", "csub")
    # atlas: every scale pair, boundary coefficients
    bset = [0, 1, -1, MAXC, -MAXC, MAXC - 1, 10**18, -(10**18), 5]
    for p in range(19):
        for q in range(19):
            k = abs(p - q)
            lim = MAXC // 10**k
            for op in ops:
                a = rng.choice(bset + [lim, lim + 1, -lim, -lim - 1, lim - 1])
                b = rng.choice(bset + [lim, lim + 1, -lim, -lim - 1])
                out.append(dd(op, 5, a, p, b, q))
    # sums exactly at the i128 boundary (both ends), equal and unequal scales
    for op in ops:
        for delta in (-2, -1, 0, 1, 2):
            for p, q in ((0, 0), (3, 3), (18, 18), (2, 0), (0, 5), (18, 0), (0, 18)):
                k = abs(p - q)
                b = rng.randrange(1, 10**20)
                scaled_b = b * 10**k
                for top in (2**127 - 1, -2**127):
                    # x (+|-) y == top + delta at the common scale
                    if op in ("add", "cadd"):
                        a = top + delta - scaled_b
                    else:
                        a = top + delta + scaled_b
                    if abs(a) > MAXC:
                        continue
                    if p >= q:
                        out.append(dd(op, 5, a, p, b, q))
                    else:
                        # x is the one to be scaled: only if divisible
                        if a % 10**k == 0:
                            out.append(dd(op, 5, a // 10**k, p, b * 10**k if abs(b * 10**k) <= MAXC else b, q))
    # integer operands
    for ty in TYNAMES:
        lo, hi = ITYPES[ty]
        for op in ops:
            for p in (0, 1, 9, 18):
                for i in (lo, hi, 0, 1):
                    if ty == "i128" and i == lo:
                        continue
                    c = rng.choice((0, 1, -1, MAXC, -MAXC, MAXC - i * 10**p if abs(MAXC - i * 10**p) <= MAXC else 7))
                    out.append(di(op, ty, 5, c, p, i))
                    out.append(id_(op, ty, 5, i, c, p))
    for c in LIMB_BOUNDS[::11]:
        for (p, q) in ((0, 1), (0, 17), (0, 18), (18, 0)):
            for op in ops:
                out.append(dd(op, 5, c, p, rng.choice((1, -1, 7, MAXC)), q))
                out.append(dd(op, 5, rng.choice((1, -7)), q, c, p))
        for ty in ("i128",):
            for p in (1, 9, 17, 18):
                for op in ops:
                    out.append(di(op, ty, 5, 5, p, c)); out.append(id_(op, ty, 5, c, -3, p))
    # every integer-operand form with the exact result at either end of the i128 range
    for ty in TYNAMES:
        lo, hi = ITYPES[ty]
        for p in (0, 1, 7, 18):
            for i in (1, -1, 3, -3, 7, lo, hi, lo + 1, hi - 1):
                if not lo <= i <= hi or (ty == "i128" and i == lo):
                    continue
                si = i * 10**p
                if abs(si) > MAXC:
                    continue
                for top in (MAXC, MINC):
                    for delta in (-1, 0, 1):
                        T = top + delta
                        for op in ops:
                            sub = op in ("sub", "csub")
                            c1 = T + si if sub else T - si           # d (op) i = T
                            c2 = si - T if sub else T - si           # i (op) d = T
                            if abs(c1) <= MAXC:
                                out.append(di(op, ty, 5, c1, p, i))
                            if abs(c2) <= MAXC:
                                out.append(id_(op, ty, 5, i, c2, p))
    while len(out) < n:
        op = rng.choice(ops)
        k = rng.randrange(10)
        if k < 6:
            out.append(dd(op, rng.choice(MODES), coef(rng), scale(rng), coef(rng), scale(rng)))
        else:
            ty = rng.choice(TYNAMES)
            i = intval(rng, ty, allow_min=False)
            if k < 8:
                out.append(di(op, ty, 5, coef(rng), scale(rng), i))
            else:
                out.append(id_(op, ty, 5, i, coef(rng), scale(rng)))
    return out


# ---------------------------------------------------------------- products
SMALL_Y = (3, 7, 9, 11, 13, 17, 19, 21, 23, 27, 29, 31, 33, 37, 39, 41, 43, 47, 49, 51)


def product_cases(rng, sh, wide):
    """(x, y) with x*y = k*10^sh + r for r in the remainder classes; y coprime to 10"""
    res = []
    d = 10**sh
    if wide:
        y = rng.getrandbits(rng.randrange(40, 70)) | 1
        while y % 5 == 0:
            y += 2
        kbase = rng.getrandbits(rng.randrange(100, 126 + min(sh, 30)))
    else:
        y = rng.choice(SMALL_Y)
        kbase = rng.getrandbits(rng.randrange(1, 100))
    inv = pow(d, -1, y)
    for r in rem_classes(d):
        for last in range(10) if not wide else (rng.randrange(10), rng.randrange(10)):
            # k = kbase*10 + last + j*?  such that k*d + r == 0 mod y
            k0 = kbase - kbase % 10 + last
            # need (k*d + r) % y == 0 with k = k0 + 10*j (keeps the last digit): solve for j mod y
            target = (-r * inv) % y
            j = ((target - k0) * pow(10, -1, y)) % y
            k = k0 + 10 * j
            t = k * d + r
            x = t // y
            if 0 < x <= MAXC and y <= MAXC:
                res.append((x, y))
    return res


def gen_C02(rng, n):
    out = []
    # atlas: short-cuts in every representation
    for p in range(19):
        for q in (0, 5, 18):
            one_p = 10**p
            out.append(dd("mul", 5, one_p, p, rng.choice((123, -7, MAXC, 10**q)), q))
            out.append(dd("mul", 5, rng.choice((123, -7, -MAXC)), q, one_p, p))
            out.append(dd("cmul", 5, one_p, p, 3, q))
            out.append(dd("mul", 5, 0, p, 5, q))
            out.append(dd("cmul", 5, 77, q, 0, p))
            out.append(dd("mul", 5, -one_p, p, 5, q))
    # atlas: all remainder classes x modes x signs, narrow and wide path
    for s in (19, 20, 27, 36):
        sh = s - 18
        for wide in (False, True):
            for (x, y) in product_cases(rng, sh, wide):
                px = rng.randrange(max(0, s - 18), min(18, s) + 1)
                py = s - px
                for m in MODES:
                    sx = rng.choice((1, -1))
                    sy = rng.choice((1, -1))
                    out.append(dd("mul", m, sx * x, px, sy * y, py))
    # products far beyond the range: quotient by 10^shift still has bits above 2^128 (high limb of the
    # 256-bit quotient), in particular a high limb that is a multiple of 10^shift
    for sh in range(1, 19):
        for K in (1, 2, 3, 7, 9):
            for a5 in range(0, sh + 1, max(1, sh // 3)):
                u = 5**a5 * K
                w_ = 5**(sh - a5) * 2**sh
                if u < 2**30 and w_ < 2**30:
                    x = u << 96
                    y = w_ << 96
                    for (dx, dy) in ((0, 0), (1, 0), (0, 12345), (-1, 777)):
                        px = min(18, sh + 9)
                        py = sh + 18 - px
                        if 0 <= py <= 18 and abs(x + dx) <= MAXC and abs(y + dy) <= MAXC:
                            sg = rng.choice((1, -1))
                            out.append(dd("mul", rng.choice(MODES), sg * (x + dx), px, y + dy, py))
                            out.append(dd("cmul", rng.choice(MODES), x + dx, px, sg * (y + dy), py))
                            out.append(dd("mulr", rng.choice(MODES), x + dx, px, y + dy, py, rng.randrange(19)))
    for sh in (1, 2, 9, 18):
        for Q in (2**127 - 1, 2**127, 2**128 - 1, 2**128, 2**128 + 1, 2**191 + 5, 2**192, 3 * 2**192 + 2**64, 2**200 + 1):
            for r in (0, 1, 10**sh // 2, 10**sh - 1):
                P = Q * 10**sh + r
                # split P = x1 * x2 with both factors below 2^127 where possible (x2 a power of two times a small odd number)
                for x2 in (2**100, 2**120, 3 * 2**90, 10**30, 2**126):
                    if P % x2 == 0 and P // x2 <= MAXC:
                        out.append("w.i256 %d %s %s %s" % (rng.choice(MODES), hx(P // x2), hx(x2), hx(10**sh)))
                        out.append("w.i256 %d %s %s %s" % (rng.choice(MODES), hx(-(P // x2)), hx(x2), hx(10**sh)))
    for (x, px, y, py, r, sft) in max_quot_products(rng):
        for m in MODES:
            for (sx, sy) in ((1, 1), (-1, -1), (-1, 1)):
                out.append(dd("mul", m, sx * x, px, sy * y, py))
                out.append(dd("cmul", m, sx * x, px, sy * y, py))
                out.append(dd("mulr", m, sx * x, px, sy * y, py, 18))
    for c in LIMB_BOUNDS[::7]:
        for y in (3, 10**9 + 7, 2**64 + 1):
            out.append(dd("mul", rng.choice(MODES), c, rng.randrange(19), y, rng.randrange(19)))
    # results at the representability boundary
    for m in MODES:
        for delta in (-1, 0, 1):
            # (MAX+delta) * 10^1 + r  as product with y = 10^k-ish not possible in general; use x = t, y=1*scale trick
            t = (MAXC + delta)
            # x * y with y = 3 (scale 18), x at scale 1: s = 19, sh = 1 -> want x*3 = t*10 + r
            for y in (30, 70, 130):
                for dl in (0, 1, 2, 3):
                    x = (t * 10) // y + dl
                    if x <= MAXC:
                        out.append(dd("mul", m, x, 1, y, 18))
                        out.append(dd("mul", m, -x, 1, y, 18))
                        out.append(dd("cmul", m, -x, 1, y, 18))
    # exact branch (s <= 18) at the i128 boundary; checked_mul never rounds
    for (p, q) in ((0, 0), (9, 9), (18, 0), (10, 9), (18, 18)):
        for t in (MAXC, MAXC + 1, 2**127, 2**127 + 1):
            for y in (2, 3, 7, 2**64, 10**19 + 1):
                x = t // y
                for sx in (1, -1):
                    out.append(dd("mul", 5, sx * x, p, y, q))
                    out.append(dd("cmul", 5, sx * x, p, y, q))
                    out.append(dd("cmul", 5, sx * (x + 1), p, y, q))
    for ty in TYNAMES:
        lo, hi = ITYPES[ty]
        for i in (hi, lo, 0, 1, 2, -1 if lo < 0 else 3):
            if ty == "i128" and i == lo:
                continue
            for c in (MAXC // max(1, abs(i)), MAXC // max(1, abs(i)) + 1, -MAXC, 10**18, 0, 10**5):
                c = clamp(c)
                p = rng.randrange(19)
                for op in ("mul", "cmul"):
                    out.append(di(op, ty, 5, c, p, i))
                    out.append(id_(op, ty, 5, i, c, p))
    while len(out) < n:
        k = rng.randrange(10)
        m = rng.choice(MODES)
        if k < 3:
            s = rng.randrange(19, 37)
            px = rng.randrange(max(0, s - 18), min(18, s) + 1)
            cs = product_cases(rng, s - 18, rng.randrange(2) == 1)
            if cs:
                x, y = rng.choice(cs)
                out.append(dd("mul", m, rng.choice((1, -1)) * x, px, rng.choice((1, -1)) * y, s - px))
        elif k < 7:
            out.append(dd(rng.choice(("mul", "cmul")), m, coef(rng), scale(rng), coef(rng), scale(rng)))
        else:
            ty = rng.choice(TYNAMES)
            i = intval(rng, ty, allow_min=False)
            f = rng.choice((di, None))
            op = rng.choice(("mul", "cmul"))
            if f:
                out.append(di(op, ty, m, coef(rng), scale(rng), i))
            else:
                out.append(id_(op, ty, m, i, coef(rng), scale(rng)))
    return out


# ---------------------------------------------------------------- quotients
def quotient_cases(rng, big_q=False, big_d=False):
    """(num, den): num = Q*den + r over remainder classes and quotient classes"""
    res = []
    if big_d:
        den = rng.choice((2**64 + 3, 2**65 + 3, 2**126 + 2**63 - 1, 2**100 + 1, 10**30 + 7, rng.getrandbits(rng.randrange(65, 127)) | 1, 2**127 - 1, 2**126))
    else:
        den = rng.choice((2, 3, 7, 10, 10**18, 6, 4, 2**63, 2**64 - 1, rng.randrange(2, 10**9), rng.randrange(2, 2**64)))
    for r in rem_classes(den):
        for Q in quot_set(rng):
            if big_q:
                Q = Q * 10 ** rng.randrange(10, 30) + Q % 10
            res.append((Q * den + r, den))
    return res


def gen_C03(rng, n):
    out = []
    ops = ("div", "cdiv")
    # short-cuts
    for p in range(19):
        for op in ops:
            out.append(dd(op, 5, rng.choice((5, -5, MAXC)), rng.randrange(19), 10**p, p))
            out.append(dd(op, 5, rng.choice((5, -5, MAXC)), rng.randrange(19), 0, p))
            out.append(dd(op, 5, 0, p, rng.choice((5, -5, MAXC, 0)), rng.randrange(19)))
    # Equal branch: px = 18 + py  (only py = 0, px = 18)
    for (num, den) in quotient_cases(rng) + quotient_cases(rng, big_d=True):
        if abs(num) <= MAXC:
            for m in MODES:
                out.append(dd("div", m, num, 18, den, 0))
                out.append(dd("cdiv", m, -num, 18, -den if m % 2 else den, 0))
    # Less branch: divisor = D * 10^sh so that the scaled quotient is num/D
    for py in (0, 1, 7, 18):
        for px in (0, 3, 18):
            sh = 18 + py - px
            if sh <= 0:
                continue
            for (num, D) in quotient_cases(rng) + quotient_cases(rng, big_q=True):
                den = D * 10**sh
                if abs(num) <= MAXC and den <= MAXC:
                    m = rng.choice(MODES)
                    out.append(dd("div", m, num, px, den, py))
                    out.append(dd("cdiv", m, -num, px, den, py))
                    out.append(dd("div", (m + 3) % 8, num, px, -den, py))
    # wide path: scaled dividend above i128, result representable / just not
    for m in MODES:
        for sgn in (1, -1):
            out.append(dd("div", m, sgn * 10**21, 0, 10, 0))
            out.append(dd("div", m, sgn * 3 * 10**20, 0, 4 * 10**20, 0))
            out.append(dd("cdiv", m, sgn * (MAXC - 680), 0, 10**36 - 4, 18))
            out.append(dd("cdiv", m, sgn * (MAXC - 170), 0, 10**36 - 1, 18))
            out.append(dd("div", m, sgn * (2**100 + 12345), 5, 2**65 + 3, 7))
            out.append(dd("div", m, sgn * (2**110 + 1), 0, 2**126 + 2**63 - 1, 18))
    for ty in TYNAMES:
        lo, hi = ITYPES[ty]
        for i in (1, 0, 2, 3, hi, lo, 7):
            if ty == "i128" and i == lo:
                continue
            for op in ops:
                c = coef(rng)
                p = scale(rng)
                out.append(di(op, ty, rng.choice(MODES), c, p, i))
                out.append(id_(op, ty, rng.choice(MODES), i, c, p))
                out.append(id_(op, ty, 5, i, 10**p, p))
    for (cx, k, cy, r) in max_quot_divisions(rng):
        # cx / cy scaled by 10^k: cx at scale px, cy at scale py with 18 + py - px = k
        for py in range(0, 19):
            px = 18 + py - k
            if 0 <= px <= 18:
                for m in MODES:
                    for (sx, sy) in ((1, 1), (-1, -1), (1, -1)):
                        out.append(dd("div", m, sx * cx, px, sy * cy, py))
                        out.append(dd("cdiv", m, sx * cx, px, sy * cy, py))
                break
        for ty in ("i128", "i64", "u64", "i32"):
            lo, hi = ITYPES[ty]
            if lo <= cy <= hi and 0 <= 18 - k <= 18:
                for m in MODES:
                    out.append(di("div", ty, m, cx, 18 - k, cy)); out.append(di("cdiv", ty, m, -cx, 18 - k, cy))
    while len(out) < n:
        k = rng.randrange(10)
        m = rng.choice(MODES)
        op = rng.choice(ops)
        if k < 5:
            out.append(dd(op, m, coef(rng), scale(rng), coef(rng), scale(rng)))
        elif k < 7:
            # moderately sized operands: quotient representable on the wide path
            x = rng.choice((1, -1)) * rng.getrandbits(rng.randrange(60, 110))
            y = rng.choice((1, -1)) * (rng.getrandbits(rng.randrange(50, 127)) | 1)
            out.append(dd(op, m, x, scale(rng), y, scale(rng)))
        else:
            ty = rng.choice(TYNAMES)
            i = intval(rng, ty, allow_min=False)
            if k == 7:
                out.append(di(op, ty, m, coef(rng), scale(rng), i))
            else:
                out.append(id_(op, ty, m, i, coef(rng), scale(rng)))
    return out


def gen_C04(rng, n):
    out = []
    # atlas: every (px, py, n) triple once with a tie / near-tie of the exact quotient
    for px in range(19):
        for py in range(19):
            for nn in range(19):
                m = rng.choice(MODES)
                sh = nn + py - px
                D = rng.choice((2, 3, 6, 7, 4, 14, 2**40 + 1))
                Q = rng.choice(quot_set(rng))
                r = rng.choice(rem_classes(D))
                if sh >= 0:
                    den = D * 10**sh
                    num = Q * D + r
                    if den <= MAXC:
                        out.append(dd("divr", m, num, px, den, py, nn))
                else:
                    # divisor-scaled branch: exact quotient num / (D * 10^-sh)
                    k = -sh
                    for pert in (0, 1, -1):
                        if D % 2 == 0:
                            num = Q * D * 10**k + (D // 2) * 10**k + pert
                        else:
                            num = Q * D * 10**k + D * 5 * 10 ** (k - 1) + pert
                        if abs(num) <= MAXC:
                            out.append(dd("divr", m, num, px, D, py, nn))
                            out.append(dd("divr", (m + 1) % 8, -num, px, D, py, nn))
                            out.append(dd("divr", (m + 2) % 8, num, px, -D, py, nn))
    # the documented witness and friends
    for m in MODES:
        for c in (16, -16, 15, -15, 14, 25, -25, 69, 49, 59):
            out.append(dd("divr", m, c, 1, 3, 0, 0))
            out.append(dd("divr", m, c, 2, -2, 0, 1))
            out.append(di("divr", "i32", m, c, 1, 3, 0))
            out.append(di("divr", "i32", m, c, 2, -2, 1))
            out.append(dd("quant", m, c, 1, 3, 0))
            out.append(dd("quant", m, c, 1, -2, 0))
            out.append(di("quant", "i8", m, c, 1, -2))
    # mul_rounded: all (s, n) with remainder classes
    for s in range(0, 37, 3):
        for nn in range(0, 19, 2):
            if s > nn:
                sh = s - nn
                cs = product_cases(rng, sh, rng.randrange(3) == 0)
                px = rng.randrange(max(0, s - 18), min(18, s) + 1)
                for (x, y) in cs[:12]:
                    m = rng.choice(MODES)
                    out.append(dd("mulr", m, rng.choice((1, -1)) * x, px, rng.choice((1, -1)) * y, s - px, nn))
            else:
                px = rng.randrange(max(0, s - 18), min(18, s) + 1)
                out.append(dd("mulr", 5, coef(rng), px, coef(rng), s - px, nn))
    # rejection clause n > 18 (Decimal/Decimal); integer forms are known finding K1
    for nn in (19, 20, 32, 100, 127, 128, 200, 237, 238, 255):
        out.append(dd("divr", 5, 1, 0, 3, 0, nn))
        out.append(dd("mulr", 5, 1, 0, 3, 0, nn))
        out.append(dd("divr", 5, 0, 0, 3, 0, nn))
        out.append(dd("mulr", 5, 0, 0, 3, 0, nn))
        out.append(di("divr", "i32", 5, 1, 0, 3, nn))
        out.append(id_("divr", "i32", 5, 1, 3, 0, nn))
        out.append(ii("divr", "i32", 5, 1, 3, nn))
    for ty in TYNAMES:
        lo, hi = ITYPES[ty]
        for i in (3, 7, hi, lo, 1):
            if ty == "i128" and i == lo:
                continue
            for j in (3, hi, 2, lo if lo else 5):
                if j == 0 or (ty == "i128" and j == lo):
                    continue
                nn = rng.randrange(19)
                m = rng.choice(MODES)
                out.append(ii("divr", ty, m, i, j, nn))
                out.append(ii("quant", ty, m, i, j))
                out.append(di("divr", ty, m, coef(rng), scale(rng), j, nn))
                out.append(id_("divr", ty, m, i, coef(rng) or 1, scale(rng), nn))
                out.append(di("quant", ty, m, coef(rng), scale(rng), j))
                out.append(id_("quant", ty, m, i, coef(rng) or 1, scale(rng)))
    for (cx, k, cy, r) in max_quot_divisions(rng):
        for nn in (0, 5, 18):
            for py in range(0, 19):
                px = nn + py - k
                if 0 <= px <= 18:
                    for m in MODES:
                        out.append(dd("divr", m, cx, px, cy, py, nn)); out.append(dd("divr", m, -cx, px, cy, py, nn))
                    for ty in ("i128", "i64", "u64"):
                        lo, hi = ITYPES[ty]
                        if py == 0 and lo <= cy <= hi:
                            out.append(di("divr", ty, rng.choice(MODES), cx, px, cy, nn))
                    break
    for (x, px, y, py, r, sft) in max_quot_products(rng):
        for m in MODES:
            out.append(dd("mulr", m, x, px, y, py, 18)); out.append(dd("mulr", m, -x, px, -y, py, 18))
    # remainders at a distance of a multiple of 2^32 / 2^63 / 2^64 from half the divisor (shift >= 20 digits)
    for sh in (20, 25, 30, 36):
        half = 5 * 10 ** (sh - 1)
        for mlt in (2**63, 2**64, 2**32, 3 * 2**63):
            for sgn in (1, -1):
                r = half - sgn * mlt
                if 0 < r < 10**sh:
                    for q in (1, 2, 7, -1, -2):
                        c = q * 10**sh + r
                        if abs(c) <= MAXC:
                            for m in MODES:
                                out.append(un("round", m, c, 18, 18 - sh)) if sh <= 36 and -128 <= 18 - sh else None
    while len(out) < n:
        k = rng.randrange(12)
        m = rng.choice(MODES)
        nn = rng.randrange(19)
        if k < 4:
            out.append(dd("divr", m, coef(rng), scale(rng), coef(rng), scale(rng), nn))
        elif k < 6:
            out.append(dd("mulr", m, coef(rng), scale(rng), coef(rng), scale(rng), nn))
        elif k < 8:
            q = rng.choice((1, 5, 25, 2, 3, 100, 10**rng.randrange(19), rng.randrange(1, 10**6))) * rng.choice((1, -1))
            out.append(dd("quant", m, coef(rng), scale(rng), q, scale(rng)))
        elif k < 10:
            x = rng.choice((1, -1)) * rng.getrandbits(rng.randrange(60, 110))
            y = rng.choice((1, -1)) * (rng.getrandbits(rng.randrange(50, 127)) | 1)
            out.append(dd("divr", m, x, scale(rng), y, scale(rng), nn))
        else:
            ty = rng.choice(TYNAMES)
            i = intval(rng, ty, allow_min=False)
            j = intval(rng, ty, allow_min=False)
            f = rng.randrange(3)
            if f == 0:
                out.append(di("divr", ty, m, coef(rng), scale(rng), j, nn))
            elif f == 1:
                out.append(id_("divr", ty, m, i, coef(rng), scale(rng), nn))
            else:
                out.append(ii("divr", ty, m, i, j, nn))
    return out


def gen_C05(rng, n):
    out = []
    # atlas: kernel classes through round(): 8 modes x signs x last digit x remainder class
    for p in (1, 2, 18):
        for nn in (0, p - 1, -1):
            if nn >= p:
                continue
            s = p - nn
            d = 10**s
            for m in MODES:
                for last in range(10):
                    for r in rem_classes(d):
                        k = rng.randrange(1, 1000) * 10 + last
                        c = k * d + r
                        if c <= MAXC:
                            op = "round" if (last + m) % 2 else "cround"
                            out.append(un(op, m, c, p, nn))
                            out.append(un(op, m, -c, p, nn))
                    for r in rem_classes(d):
                        out.append(un("round", m, r, p, nn))
                        out.append(un("cround", m, -r, p, nn))
    # every (p, n) pair
    for p in range(19):
        for nn in range(-128, 128):
            m = rng.choice(MODES)
            out.append(un(rng.choice(("round", "cround")), m, coef(rng), p, nn))
    # shift exactly 38 / 39 and beyond, with big coefficients, all modes
    for m in MODES:
        for p in (0, 5, 18):
            for sh in (37, 38, 39, 40, 57):
                nn = p - sh
                if nn < -128:
                    continue
                for c in (1, -1, 5 * 10**37, -5 * 10**37, 5 * 10**37 + 1, 6 * 10**37, 10**38, -10**38, 12 * 10**37, -12 * 10**37, MAXC, -MAXC, 15 * 10**37, 49 * 10**36, 0):
                    out.append(un("round", m, c, p, nn))
                    out.append(un("cround", m, c, p, nn))
    # rescaling overflow for negative n
    for m in MODES:
        for nn in (-1, -3, -20, -37, -38):
            for c in (MAXC, -MAXC, MAXC - 5 * 10 ** (-nn - 1) if nn > -38 else MAXC, 10**38, 17 * 10**37, 16 * 10**37):
                out.append(un("round", m, c, 0, nn))
                out.append(un("cround", m, c, 0, nn))
    # kernel directly
    for (num, den) in quotient_cases(rng) + quotient_cases(rng, big_d=True):
        if abs(num) <= MAXC:
            for m in MODES:
                out.append("w.divr %d %s %s" % (m, hx(num), hx(den)))
                out.append("w.divr %d %s %s" % (m, hx(-num), hx(-den)))
                out.append("w.divr %d %s %s" % (m, hx(num), hx(-den)))
    for sh in (20, 21, 27, 36, 38):
        half = 5 * 10 ** (sh - 1)
        for mlt in (2**63, 2**64, 2**32, 3 * 2**63, 2**65):
            for sgn in (1, -1):
                r = half - sgn * mlt
                if 0 < r < 10**sh:
                    for q in (0, 1, 2, -1, -2):
                        c = q * 10**sh + r
                        if abs(c) <= MAXC:
                            for p in (18, 10, 0):
                                nn = p - sh
                                if -128 <= nn:
                                    for m in MODES:
                                        out.append(un("round", m, c, p, nn)); out.append(un("cround", m, c, p, nn))
    while len(out) < n:
        m = rng.choice(MODES)
        p = scale(rng)
        nn = rng.randrange(-40, 19) if rng.randrange(4) else rng.randrange(-128, 128)
        k = rng.randrange(4)
        if k == 0:
            out.append(un(rng.choice(("round", "cround")), m, coef(rng), p, nn))
        elif k == 1 and nn < p and p - nn <= 38:
            d = 10 ** (p - nn)
            c = rng.randrange(0, 10**6) * d + rng.choice(rem_classes(d))
            if c <= MAXC:
                out.append(un(rng.choice(("round", "cround")), m, rng.choice((1, -1)) * c, p, nn))
        else:
            den = rng.choice((1, -1)) * (rng.getrandbits(rng.randrange(1, 127)) + 1)
            out.append("w.divr %d %s %s" % (m, hx(coef(rng)), hx(den)))
    return out


def gen_C08(rng, n):
    out = []
    ops = ("eq", "ne", "lt", "le", "gt", "ge", "cmp", "pcmp", "min", "max")
    iops = ("eq", "ne", "lt", "le", "gt", "ge", "pcmp")
    # alignment overflow on either side x sign/zero combinations
    big = (MAXC, -MAXC, MAXC // 10 + 1, -(MAXC // 10 + 1), 10**38, -10**38, 2 * 10**37)
    small = (0, 1, -1, 25, -25, 10**18, -10**18)
    for p in range(19):
        for q in range(19):
            a = rng.choice(big + small)
            b = rng.choice(big + small)
            op = rng.choice(ops)
            out.append(dd(op, 5, a, p, b, q))
    for a in big:
        for b in small + big:
            for (p, q) in ((0, 18), (18, 0), (0, 1), (1, 0), (5, 5), (0, 3), (17, 18)):
                for op in ("pcmp", "eq", "lt", "min", "max", "ge"):
                    out.append(dd(op, 5, a, p, b, q))
                    out.append(dd(op, 5, b, q, a, p))
    # the largest coefficients that can still be scaled by 10^d (and their neighbours), on either side
    for d in range(1, 19):
        lim = MAXC // 10**d
        for p in (0, 18 - d):
            for sg in (1, -1):
                for dl in (-1, 0, 1):
                    a = sg * (lim + dl)
                    for b in (a * 10**d, a * 10**d + 1, a * 10**d - 1, sg * MAXC, -sg * MAXC, sg * (lim * 10**d), 0):
                        if abs(b) <= MAXC:
                            for op in ("eq", "pcmp", "lt", "min"):
                                out.append(dd(op, 5, a, p, b, p + d))
                                out.append(dd(op, 5, b, p + d, a, p))
    for c in LIMB_BOUNDS[::25]:
        for d in (1, 4, 9, 10, 18):
            for p in (0,):
                for b in (c * 10**d, 1, -1, MAXC, -MAXC, c):
                    if abs(b) <= MAXC:
                        for op in ("eq", "pcmp", "lt", "min", "max"):
                            out.append(dd(op, 5, c, p, b, p + d)); out.append(dd(op, 5, b, p + d, c, p))
    # equal values in different representations
    for k in range(19):
        for j in range(19 - k):
            v = rng.choice((0, 1, -1, 15, -15, 10**18 + 1, MAXC // 10**18))
            if abs(v * 10 ** (k + j)) <= MAXC:
                for op in ("eq", "ne", "pcmp", "cmp", "le", "min", "max"):
                    out.append(dd(op, 5, v * 10**k, k, v * 10 ** (k + j), k + j))
    for d in range(1, 19):
        lim = MAXC // 10**d
        for ty in ("i128", "i64", "u64"):
            lo, hi = ITYPES[ty]
            for sg in (1, -1):
                for dl in (-1, 0, 1):
                    i = sg * (lim + dl)
                    if lo <= i <= hi:
                        for c in (i * 10**d, i * 10**d + 1, i * 10**d - 1, sg * MAXC):
                            if abs(c) <= MAXC:
                                for op in ("eq", "lt", "pcmp"):
                                    out.append(di(op, ty, 5, c, d, i))
                                    out.append(id_(op, ty, 5, i, c, d))
    for ty in TYNAMES:
        lo, hi = ITYPES[ty]
        for i in (lo, hi, 0, 1, -1 if lo < 0 else 2, lo + 1, hi - 1):
            for p in (0, 1, 10, 18):
                for c in (0, 1, -1, MAXC, -MAXC, clamp(i * 10**p), clamp(i * 10**p + 1), clamp(i * 10**p - 1), 15, -15):
                    op = rng.choice(iops)
                    out.append(di(op, ty, 5, c, p, i))
                    out.append(id_(op, ty, 5, i, c, p))
    while len(out) < n:
        k = rng.randrange(10)
        if k < 6:
            a, p = coef(rng), scale(rng)
            if rng.randrange(3) == 0:
                # same value, other representation (or off by one unit)
                q = scale(rng)
                if q >= p:
                    b = a * 10 ** (q - p) + rng.choice((0, 0, 1, -1))
                else:
                    b = a // 10 ** (p - q) + rng.choice((0, 0, 1, -1))
                b = clamp(b)
            else:
                b, q = coef(rng), scale(rng)
            out.append(dd(rng.choice(ops), 5, a, p, b, q))
        else:
            ty = rng.choice(TYNAMES)
            i = intval(rng, ty)
            op = rng.choice(iops)
            p = scale(rng)
            c = coef(rng) if rng.randrange(2) else clamp(i * 10**p + rng.choice((0, 1, -1)))
            if k < 8:
                out.append(di(op, ty, 5, c, p, i))
            else:
                out.append(id_(op, ty, 5, i, c, p))
    return out


def gen_C10(rng, n):
    out = []
    ops = ("rem", "crem")
    for p in range(19):
        for q in range(19):
            for op in ops:
                out.append(dd(op, 5, coef(rng), p, coef(rng), q))
        out.append(dd("rem", 5, coef(rng), p, 0, rng.randrange(19)))
        out.append(dd("crem", 5, coef(rng), p, 0, rng.randrange(19)))
        out.append(dd("crem", 5, 0, p, 0, rng.randrange(19)))
        out.append(dd("rem", 5, 0, p, 7, rng.randrange(19)))
        out.append(dd("rem", 5, coef(rng), rng.randrange(19), 10**p, p))
        out.append(dd("crem", 5, -abs(coef(rng)), rng.randrange(19), 10**p, p))
    # dividend needs up-scaling beyond i128: small and huge divisors, both signs
    for op in ops:
        for sx in (1, -1):
            for sy in (1, -1):
                for (p, q) in ((0, 1), (0, 3), (1, 3), (0, 18), (5, 18), (17, 18)):
                    for x in (MAXC, MAXC // 30, MAXC // 7, 10**38, 2**120 + 12345):
                        for y in (3, 7, MAXC // 500, MAXC // 11, MAXC, 2**126 + 1, 10**18 + 3, 999999):
                            out.append(dd(op, 5, sx * x, p, sy * y, q))
    # digit-by-digit fall-back (dividend cannot be up-scaled): exact multiples and remainders reached only in the
    # last step, divisor coefficients with trailing zeros
    for op in ops:
        for (p, q) in ((0, 1), (0, 2), (0, 3), (2, 4), (0, 18), (15, 18)):
            k = q - p
            for yv in (2, 7, 20, 700, 125, 1, 99, 10**6 + 1):
                yc = yv * 10**k if rng.randrange(2) else yv          # value yv (trailing zeros) or yv / 10^k
                if yc > MAXC:
                    continue
                for base in (10**38, MAXC - MAXC % yv, 11 * 10**37, 2**126):
                    for r in (0, 1, yv - 1, yv // 2):
                        x = base - base % yv + r
                        if 0 < x <= MAXC and x * 10**k > MAXC:
                            for sx in (1, -1):
                                out.append(dd(op, 5, sx * x, p, yc, q))
                                out.append(dd(op, 5, sx * x, p, -yc, q))
    for op in ops:
        for (p, q) in ((0, 18), (0, 17), (2, 18), (0, 9)):
            k = q - p
            for g in (2, 20, 7, 125, 17, 3):
                for e in range(36 - k, 39 - k):
                    yc = g * 10 ** (e + k - len(str(g)) + 1)
                    if not MAXC // 10 < yc <= MAXC or yc % 10**k:
                        continue
                    yv = yc // 10**k                                   # value of the divisor (integral)
                    for qq in (11, 21, 31, 101, 1, 10, 12, 9):
                        for r in (0, 1, yv - 1):
                            x = yv * qq + r
                            if 0 < x <= MAXC:
                                for sx in (1, -1):
                                    out.append(dd(op, 5, sx * x, p, yc, q)); out.append(dd(op, 5, sx * x, p, -yc, q))
    # divisor scaled beyond i128
    for op in ops:
        for (p, q) in ((3, 0), (18, 0), (18, 17)):
            for y in (MAXC, MAXC // 10 + 1, -(MAXC // 10 + 1), 10**37 * 2):
                for x in (MAXC, -MAXC, 5, -5, 0):
                    out.append(dd(op, 5, x, p, y, q))
    for ty in TYNAMES:
        lo, hi = ITYPES[ty]
        for i in (1, 0, 2, 3, hi, lo, 7):
            if ty == "i128" and i == lo:
                continue
            for op in ops:
                c, p = coef(rng), scale(rng)
                out.append(di(op, ty, 5, c, p, i))
                out.append(id_(op, ty, 5, i, c, p))
                out.append(id_(op, ty, 5, i, 10**p, p))
    while len(out) < n:
        k = rng.randrange(10)
        op = rng.choice(ops)
        if k < 7:
            out.append(dd(op, 5, coef(rng), scale(rng), coef(rng), scale(rng)))
        else:
            ty = rng.choice(TYNAMES)
            i = intval(rng, ty, allow_min=False)
            if k < 9:
                out.append(di(op, ty, 5, coef(rng), scale(rng), i))
            else:
                out.append(id_(op, ty, 5, i, coef(rng), scale(rng)))
    return out


ALL_TO = TYNAMES + ["u128"]
ALL_RANGE = dict(ITYPES)
ALL_RANGE["u128"] = (0, 2**128 - 1)


def gen_C14(rng, n):
    out = []
    for ty in ALL_TO:
        lo, hi = ALL_RANGE[ty]
        for v in (lo - 1, lo, lo + 1, hi - 1, hi, hi + 1, 0, 1, -1):
            for p in (0, 1, 5, 18):
                c = v * 10**p
                if abs(c) <= MAXC:
                    out.append("un.toint.%s 5 %s %d" % (ty, hx(c), p))
                if abs(c + 1) <= MAXC and p > 0:
                    out.append("un.toint.%s 5 %s %d" % (ty, hx(c + 1), p))
                    out.append("un.toint.%s 5 %s %d" % (ty, hx(c - 5 * 10 ** (p - 1)), p))
    # coefficients at machine-word widths with a non-zero scale: integral (c = v * 10^p) and not
    for c in WIDTH_BOUNDS:
        for p in (0, 1, 2, 9, 18):
            for ty in ("i128", "i64", "u64", "i32", "u8"):
                out.append("un.toint.%s 5 %s %d" % (ty, hx(c), p))
    # integral values v written with n trailing zeros, v at the quotient of a word bound by 5^n / 10^n
    for nn in range(1, 19):
        for v in set(((2**64 - 1) // 5**nn, (2**64) // 5**nn + 1, (2**64 - 1) // 10**nn, (2**63) // 5**nn, (2**32 - 1) // 5**nn if 5**nn < 2**32 else 1)):
            for dl in (-1, 0, 1):
                c = (v + dl) * 10**nn
                if 0 < c <= MAXC:
                    for ty in ALL_TO:
                        out.append("un.toint.%s 5 %s %d" % (ty, hx(c), nn)); out.append("un.toint.%s 5 %s %d" % (ty, hx(-c), nn))
    for c in LIMB_BOUNDS[::3]:
        for p in (0, 1, 18):
            out.append("un.toint.i128 5 %s %d" % (hx(c), p)); out.append("un.toint.u64 5 %s %d" % (hx(c), p))
    for (c, nn) in all_nines(rng):
        for ty in ("i128", "u64", "i64"):
            out.append("un.toint.%s 5 %s %d" % (ty, hx(c), nn)); out.append("un.toint.%s 5 %s %d" % (ty, hx(-c), nn))
    for w in (31, 32, 63, 64):
        for dl in range(-3, 4):
            for p in (1, 3, 18):
                for v in (2**w + dl, -(2**w + dl), (2**w + dl) // 10**p * 10**p, -((2**w + dl) // 10**p * 10**p), (2**w) // 10**p * 10**p + dl * 10**p):
                    if abs(v) <= MAXC:
                        for ty in ALL_TO:
                            out.append("un.toint.%s 5 %s %d" % (ty, hx(v), p))
    for ty in TYNAMES:
        lo, hi = ITYPES[ty]
        for v in (lo, hi, 0, 1, lo + 1, hi - 1, 2**31, 2**31 - 1, 2**63, 2**32 - 1):
            if lo <= v <= hi:
                out.append("cv.fromint.%s 5 %s" % (ty, hx(v)))
    for u in (0, 1, MAXC, MAXC + 1, MAXC + 2, 2**128 - 1, 10**38):
        out.append("cv.fromu128 5 %s" % hx(u))
    while len(out) < n:
        k = rng.randrange(10)
        if k < 7:
            ty = rng.choice(ALL_TO)
            lo, hi = ALL_RANGE[ty]
            p = scale(rng)
            j = rng.randrange(4)
            if j == 0:
                c = coef(rng)
            elif j == 1:
                c = clamp(rng.randrange(lo, hi + 1) * 10**p)
            elif j == 2:
                c = clamp(rng.choice((lo - 1, hi + 1, hi, lo)) * 10**p + rng.choice((0, 0, 1)))
            else:
                c = clamp(rng.randrange(-1000, 1000) * 10 ** rng.randrange(0, 30))
            out.append("un.toint.%s 5 %s %d" % (ty, hx(c), p))
        elif k < 9:
            ty = rng.choice(TYNAMES)
            out.append("cv.fromint.%s 5 %s" % (ty, hx(intval(rng, ty))))
        else:
            out.append("cv.fromu128 5 %s" % hx(rng.getrandbits(rng.randrange(1, 129))))
    return out


UNOPS15 = ("floor", "ceil", "trunc", "fract", "abs", "neg", "mag", "iszero", "isone", "isneg", "ispos")


def gen_C15(rng, n):
    out = []
    for k in range(39):
        for delta in (-1, 0, 1):
            for s in (1, -1):
                c = s * (10**k + delta)
                if abs(c) <= MAXC:
                    for p in range(19):
                        out.append(un("mag", 5, c, p))
                    out.append("w.mag 5 %s" % hx(c))
    for p in range(19):
        for c in (0, 1, -1, 10**p, -(10**p), 10**p + 1, 10**p - 1, 5 * 10 ** max(0, p - 1), -5 * 10 ** max(0, p - 1), MAXC, -MAXC, 15, -15, -(10**p) - 1):
            for op in UNOPS15:
                out.append(un(op, 5, c, p))
    for c in WIDTH_BOUNDS:
        out.append("w.mag 5 %s" % hx(c)) if c else None
        for p in (0, 3, 18):
            for op in UNOPS15:
                out.append(un(op, 5, c, p))
    # every digit length with leading digits around 2^32 and 2^64 (casts inside the cascade)
    for k in range(0, 30):
        for lead in (2**32 - 1, 2**32, 2**32 + 1, 5 * 10**9, 2**33, 9999999999, 2**64 - 1, 2**64, 2**64 + 1, 10**19 - 1, 4294967296 + 10**9):
            v = lead * 10**k + rng.randrange(10**k) if k else lead
            if 0 < v <= MAXC:
                out.append("w.mag 5 %s" % hx(v))
                out.append(un("mag", 5, rng.choice((1, -1)) * v, rng.randrange(19)))
    # integral parts whose low 64-bit limb is all ones (carry across the limb when stepping away from zero)
    for j in (1, 2, 3, 5, 7, 2**20 + 1, 2**40 + 3):
        for dl in (0, 1):
            q = j * 2**64 - 1 + dl
            for p in (1, 3, 9, 18):
                for frac in (1, 10**p // 2, 10**p - 1, 0):
                    c = q * 10**p + frac
                    if c <= MAXC:
                        for op in ("floor", "ceil", "trunc", "fract"):
                            out.append(un(op, 5, c, p)); out.append(un(op, 5, -c, p))
    for c in LIMB_BOUNDS[::3]:
        for p in (1, 9, 18):
            for op in ("floor", "ceil", "trunc", "fract", "mag"):
                out.append(un(op, 5, c, p))
    for (c, nn) in all_nines(rng):
        for op in ("floor", "ceil", "trunc", "fract"):
            out.append(un(op, 5, c, nn)); out.append(un(op, 5, -c, nn))
    # the 17-bit kernel itself (hook): every threshold neighbourhood, then a stride over 1..99999
    for t in (1, 9, 10, 11, 99, 100, 101, 999, 1000, 1001, 9999, 10000, 10001, 99998, 99999):
        out.append("w.lt5 5 %x" % t)
    for vv in range(1, 100000, 331):
        out.append("w.lt5 5 %x" % vv)
    # log10 thresholds of the cascade
    for t in (10**5, 10**10, 10**16, 10**32, 10**26, 10**15, 10**21, 10**37):
        for d in (-1, 0, 1, t // 7):
            out.append("w.mag 5 %s" % hx(t + d))
            out.append(un("mag", 5, -(t + d), rng.randrange(19)))
    while len(out) < n:
        k = rng.randrange(10)
        if k < 8:
            out.append(un(rng.choice(UNOPS15), 5, coef(rng), scale(rng)))
        else:
            out.append("w.mag 5 %s" % hx(coef(rng) or 1))
    return out


def gen_C16(rng, n):
    out = []
    # kernel atlas: divisor classes x remainder classes x signs
    dens = (1, 2, 3, 10, 2**63, 2**64 - 1, 2**64, 2**64 + 1, 2**65 + 3, 2**126 + 2**63 - 1, 2**127 - 1, 2**126,
            10**18, 10**19, 10**38, 2**100 + 1, 2**64 * 3 + 2**64 - 1, (2**62) * 2**64 + 2**64 - 1, 2**127 - 2**64 + 5)
    for den in dens:
        for r in rem_classes(den):
            for Q in (0, 1, 2**64 - 1, 2**64, 2**126, MAXC, MAXC - 1, MAXC + 1, 2**127 + 5, 10**30):
                num = Q * den + r
                # factor num = a * b for i256: b = 10^k | small
                for b in (1, 10**18, 3, 2**64 + 1, 10**38):
                    if num % b == 0 and num // b <= MAXC and b <= MAXC:
                        a = num // b
                        for (sa, sb) in ((1, 1), (-1, 1), (1, -1), (-1, -1)):
                            out.append("w.i256 %d %s %s %s" % (rng.choice(MODES), hx(sa * a), hx(sb * b), hx(den)))
                for k in (0, 1, 18, 38):
                    if num % 10**k == 0 and num // 10**k <= MAXC:
                        a = num // 10**k
                        out.append("w.sdmf 5 %s %x %s" % (hx(a), k, hx(den)))
                        out.append("w.sdmf 5 %s %x %s" % (hx(-a), k, hx(den)))
                        for m in MODES[:4]:
                            out.append("w.sdr %d %s %x %s" % (m, hx(a), k, hx(den)))
                            out.append("w.sdr %d %s %x %s" % (m + 4, hx(-a), k, hx(den)))
                            out.append("w.sdr %d %s %x %s" % (m + 4, hx(a), k, hx(-den)))
    # the private kernels themselves (cfg(fpdec_verif) hooks): 128x128 product, 256/64, 256/128 (general and
    # special case xh < y), msb
    U = 2**128 - 1
    words = (0, 1, 2, 2**32 - 1, 2**32, 2**63, 2**64 - 1, 2**64, 2**64 + 1, 2**96 + 2**32 + 1, 2**127 - 1, 2**127, 2**127 + 1, U - 1, U,
             10**19, 10**38, 0xffffffff00000000ffffffff00000000, 0x00000000ffffffff00000000ffffffff)
    for x in words:
        out.append("w.msb 5 %x" % x) if x else None
        for y in words:
            out.append("w.mulw 5 %x %x" % (x, y))
    for den in dens + (2**64 - 2, 2**127, U, 2**127 + 2**63, (2**63) * 2**64, (2**63) * 2**64 + 1, 2**128 - 2**64, 2**128 - 2**64 + 1):
        for xh in (0, 1, den - 1, den, den + 1, 2 * den + 1, U, 2**127, 2**64 - 1):
            if not 0 <= xh <= U:
                continue
            for xl in (0, 1, den - 1, den, U, U - 1, 2**127, 2**64, 2**64 - 1, (den * 3) & U):
                if not 0 <= xl <= U:
                    continue
                if den < 2**64:
                    out.append("w.idiv64 5 %x %x %x" % (xh, xl, den))
                out.append("w.idiv 5 %x %x %x" % (xh, xl, den))
                if den >= 2**64 and xh < den:
                    out.append("w.idivs 5 %x %x %x" % (xh, xl, den))
    # quotient digit exactly one too large before correction: divisor high word small, low word large
    for hi in (1, 2, 2**31, 2**62, 2**63 - 1, 2**63, 2**64 - 1):
        for lo in (0, 1, 2**63, 2**64 - 2, 2**64 - 1):
            den = hi * 2**64 + lo
            for q in (2**128 - 1, 2**64, 2**64 - 1, 2**127, 1, 2**128 - 2**64):
                for r in (0, 1, den - 1, den // 2):
                    num = q * den + r
                    out.append("w.idiv 5 %x %x %x" % (num >> 128, num & U, den))
                    out.append("w.idivs 5 %x %x %x" % (num >> 128, num & U, den))
    # Decimal-level wide operations
    for m in MODES:
        for sgn in (1, -1):
            out.append(dd("div", m, sgn * 10**21, 0, 10, 0))
            out.append(dd("mulr", m, sgn * 3 * 10**20, 10, 7 * 10**20, 10, 2))
            out.append(dd("mul", m, sgn * (10**20 + 1), 10, 10**20 + 3, 10))
            out.append(dd("mul", m, sgn * 12345678901234567890123457, 18, 98765432109876543210987653, 18))
            out.append(dd("divr", m, sgn * 2 * 10**20, 0, 3, 0, 18))
            out.append(dd("mul", m, sgn * 170141183460469231561546120255414874166, 18, 10**18 + 1, 18))
            out.append(dd("divr", m, sgn * 153127065114422308558518573344295695155, 0, 9, 1, 0))
    while len(out) < n:
        k = rng.randrange(10)
        m = rng.choice(MODES)
        if k < 3:
            den = rng.choice(dens) if rng.randrange(2) else (rng.getrandbits(rng.randrange(1, 128)) or 1)
            den = min(den, MAXC)
            a = coef(rng)
            b = coef(rng)
            out.append("w.i256 %d %s %s %s" % (m, hx(a), hx(b), hx(den)))
        elif k < 5:
            den = rng.choice(dens) if rng.randrange(2) else (rng.getrandbits(rng.randrange(1, 128)) or 1)
            den = min(den, MAXC)
            out.append("w.sdmf %d %s %x %s" % (m, hx(coef(rng)), rng.randrange(39), hx(den)))
        elif k < 6:
            den = rng.choice(dens) if rng.randrange(2) else (rng.getrandbits(rng.randrange(1, 128)) or 1)
            den = min(den, MAXC) * rng.choice((1, -1))
            out.append("w.sdr %d %s %x %s" % (m, hx(coef(rng)), rng.randrange(39), hx(den)))
        elif k < 7:
            out.append("w.mdr %d %s %s %x" % (m, hx(coef(rng)), hx(coef(rng)), rng.randrange(39)))
        elif k < 8:
            # quotient-digit estimate stress: normalised divisor with small high word and large low word
            hi = rng.choice((1, 2, 3, 2**62, 2**63 - 1, 2**63, rng.getrandbits(63) | 1))
            lo = rng.choice((2**64 - 1, 2**64 - 2, 2**63, rng.getrandbits(64)))
            den = min(hi * 2**64 + lo, MAXC)
            a = rng.getrandbits(rng.randrange(100, 128))
            out.append("w.sdmf %d %s %x %s" % (m, hx(rng.choice((1, -1)) * a), rng.randrange(10, 39), hx(den)))
        elif k < 9:
            den = rng.choice(dens) if rng.randrange(3) == 0 else (rng.getrandbits(rng.randrange(1, 129)) or 1)
            xh = rng.getrandbits(rng.randrange(0, 129)); xl = rng.getrandbits(128)
            kind = rng.randrange(4)
            if kind == 0:
                out.append("w.mulw 5 %x %x" % (rng.getrandbits(rng.randrange(1, 129)), rng.getrandbits(rng.randrange(1, 129))))
            elif kind == 1 and den < 2**64:
                out.append("w.idiv64 5 %x %x %x" % (xh, xl, den))
            elif kind == 2 and den >= 2**64:
                out.append("w.idivs 5 %x %x %x" % (xh % den, xl, den))
            else:
                out.append("w.idiv 5 %x %x %x" % (xh, xl, den))
        else:
            x = rng.choice((1, -1)) * rng.getrandbits(rng.randrange(64, 127))
            y = rng.choice((1, -1)) * (rng.getrandbits(rng.randrange(64, 127)) | 1)
            op = rng.choice(("mul", "div", "mulr", "divr", "cdiv"))
            nn = rng.randrange(19)
            out.append(dd(op, m, clamp(x), scale(rng), clamp(y), scale(rng), nn if op in ("mulr", "divr") else None))
    return out



# ---------------------------------------------------------------- strings
def shex(t):
    b = t.encode("utf-8") if isinstance(t, str) else bytes(t)
    return b.hex() if b else "-"


def parse_line(t, fam="parse"):
    return "str.%s 5 %s" % (fam, shex(t))


SPECIAL_VALUES = [10**38, 2**127, 2**128, 2**128 + 10**38, 2**128 + 2**127, 2 * 2**128, 2 * 2**128 + 10**38,
                  10**39 - 1, 10**38 - 1, 2**127 - 1, 3 * 2**128, 2**129 + 10**38 + 5, 10**39, 10**40 + 7, 10**77]


def lit_variants(rng, digits):
    """place a decimal point / exponent into a digit string in several ways"""
    res = [digits]
    n = len(digits)
    for k in {0, 1, 8, 16, 7, 9, n - 8, n - 16, n - 1, n - 18, n - 19, rng.randrange(0, n + 1)}:
        if 0 <= k <= n:
            res.append(digits[:n - k] + "." + digits[n - k:])
            if k:
                res.append(digits[:n - k] + "." + digits[n - k:] + "e%d" % k)
                res.append(digits[:n - k] + "." + digits[n - k:] + "E+%d" % min(k, 99))
    res.append(digits + "e-5")
    res.append(digits + "e0")
    res.append("0" * rng.randrange(1, 12) + digits)
    res.append("0." + "0" * rng.randrange(0, 12) + digits[:18] if len(digits) else "0.")
    return res


def gen_C06(rng, n):
    out = []
    S = []
    # known-finding witnesses and the repaired defects
    S += ["1e001", "-.33E-001", "1e+100", "0e40", ".0e40", "0.0e40", "0e39", "0e38", "00e99",
          "440282366920938463463374607431768211456", "0e5", "0E0", "00e1", "0.", "1e+", "1e-", "1e", "e5", ".e5", ".",
          "+", "-", "+-1", "--1", "1..2", "1.2.3", "1e5e5", "1e5.", "1 ", " 1", "1_000", "0x10", "١٢٣", "1é", "é", "1.5é",
          "", "0", "-0", "+0", "-0.00", "00", "000.000", ".5", "5.", "-.5", "+5.", "1e18", "1e38", "1e39", "17e37", "18e37",
          "0.000000000000000001", "0.0000000000000000001", "0.0000000000000000001e1", "-1.23456789012345678901E+2",
          ".1234567890123456789012345e25", "3402823669209384634633746074317.68211456", "3402823669209384634633746074317.68211457",
          "340282366920938463463374.6074317682114560", "99999999999999999999999999999999999999", "1e-18", "1e-19", "12345678e-10"]
    for v in SPECIAL_VALUES:
        for delta in (-3, -1, 0, 1, 3):
            S += lit_variants(rng, str(v + delta))
    # digit counts 1..80, first digit 1/2/9
    for nd in list(range(1, 46)) + [50, 64, 72, 80]:
        for first in "129":
            d = first + "".join(rng.choice("0123456789") for _ in range(nd - 1))
            S += lit_variants(rng, d)[:6]
    for t in S:
        for sg in ("", "-", "+"):
            out.append(parse_line(sg + t))
    # a prefix that wraps back to a small value modulo 2^128 (or 2^64) and is followed by more digits in the same
    # digit run: an overflow recorded at one step must not be forgotten at a later one
    for kk in (1, 2, 3, 7, 9):
        for wv in (1, 31415926, 271828182845, 10**8 - 1, 2**64, 10**20 + 3):
            pre = str(kk * 2**128 + wv)
            for tail in ("90452353", "5358979300000000", "0", "00000000", "1234567", "999999999"):
                full = pre + tail
                for pos in (None, len(pre), len(full) - 8, 1, len(full) - 18):
                    t = full if pos is None else full[:pos] + "." + full[pos:]
                    for e_ in ("", "e-3", "E30"):
                        out.append(parse_line(t + e_))
                        out.append(parse_line("0." + full + e_)) if pos is None else None
                        out.append(parse_line("-0.00000000" + full + e_)) if pos == 1 else None
    # malformed stream: every ASCII byte value at each position of an 8-byte window and of the tail
    base = "1234567890123.45e7"
    for pos in range(len(base)):
        for b in list(range(0, 128, 1)):
            m = base[:pos] + chr(b) + base[pos + 1:]
            out.append(parse_line(m))
    for pos in range(9):
        for ch in ("é", "٣", " ", "𝟏"):
            out.append(parse_line("12345678"[:pos] + ch + "12345678"[pos:]))
    # the SWAR helpers themselves (hook): every byte value at every lane of an all-digit word; random digit words
    base_w = [0x30 + d for d in (1, 2, 3, 4, 5, 6, 7, 8)]
    for lane in range(8):
        for bv in range(256):
            w = list(base_w); w[lane] = bv
            out.append("w.chd 5 %x" % sum(x << (8 * i) for i, x in enumerate(w)))
    for _ in range(300):
        ds = [rng.randrange(10) for _ in range(8)]
        if rng.randrange(4) == 0:
            ds = [rng.choice((0, 9)) for _ in range(8)]
        wv = sum((0x30 + x) << (8 * i) for i, x in enumerate(ds))
        out.append("w.chv 5 %x" % wv)
        out.append("w.chd 5 %x" % wv)
    # all literals of length <= 3 over a small alphabet (exhaustive)
    alpha = "+-.eE0159x"
    def rec(prefix, depth):
        out.append(parse_line(prefix))
        if depth:
            for c in alpha:
                rec(prefix + c, depth - 1)
    rec("", 3)
    while len(out) < n:
        k = rng.randrange(10)
        sg = rng.choice(("", "", "-", "+"))
        ni = rng.randrange(0, 46) if rng.randrange(4) else rng.randrange(0, 12)
        nf = rng.randrange(0, 46) if rng.randrange(3) == 0 else rng.randrange(0, 20)
        ip = "".join(rng.choice("0123456789") for _ in range(ni))
        fp = "".join(rng.choice("0123456789") for _ in range(nf))
        t = sg + ip + ("." + fp if (nf or rng.randrange(3) == 0) else "")
        if k < 4:
            e = rng.randrange(-45, 46)
            t += rng.choice("eE") + rng.choice(("", "+" if e >= 0 else "", "")) + (str(e) if e >= 0 or True else "")
        if k == 9:
            # random mutation
            if t:
                pos = rng.randrange(len(t))
                t = t[:pos] + rng.choice("+-.eE xX_01259é") + t[pos + rng.randrange(2):]
        out.append(parse_line(t))
    return out


def gen_C07(rng, n):
    out = []
    for p in range(19):
        for c in (0, 1, -1, 5, -5, 10**p, -(10**p), 10**p - 1, 10**p + 1, -(10**p) + 1, MAXC, -MAXC, 10**max(0, p - 1), -(10**max(0, p - 1)),
                  15, -15, 10**38, 123456789012345678901234567890123456789 % (MAXC + 1)):
            out.append("str.tostring 5 %s %d" % (hx(clamp(c)), p))
            out.append("str.roundtrip 5 %s %d" % (hx(clamp(c)), p))
    for (c, nn) in all_nines(rng):
        for sg in (1, -1):
            out.append("str.tostring 5 %s %d" % (hx(sg * c), nn))
            out.append("str.roundtrip 5 %s %d" % (hx(sg * c), nn))
    # coefficients at the width of narrower machine types (fast paths, casts) and at the scaling limits
    for c in WIDTH_BOUNDS:
        for p in (0, 1, 6, 18):
            out.append("str.tostring 5 %s %d" % (hx(c), p))
            out.append("str.roundtrip 5 %s %d" % (hx(c), p))
    while len(out) < n:
        p = scale(rng)
        k = rng.randrange(4)
        if k == 0 and p > 0:
            c = rng.choice((1, -1)) * rng.randrange(0, 10**p)      # values in (-1, 1), leading zeros
        elif k == 1 and p > 0:
            c = rng.choice((1, -1)) * rng.randrange(0, 10 ** rng.randrange(1, p + 1))
        else:
            c = coef(rng)
        out.append("str.%s 5 %s %d" % (rng.choice(("tostring", "roundtrip")), hx(c), p))
    return out


def gen_C09(rng, n):
    out = []
    for p in range(19):
        for c in (0, 1, -1, 10**p, 2**p, 5**p, -(5**p), 2**126, 5**28 % (MAXC + 1), 5**54 % 1, MAXC, -MAXC, 700, 2**64 + 1, 3 * 2**100, 5**27 * 2**60):
            c = clamp(c)
            out.append("fl.ratio 5 %s %d" % (hx(c), p))
    # 2^a 5^b r
    for a in (0, 1, 17, 18, 19, 63, 64, 100, 126):
        for b in (0, 1, 17, 18, 19, 27, 28):
            for r in (1, 3, 7, 2**40 + 1):
                c = 2**a * 5**b * r
                if c <= MAXC:
                    for p in (1, 9, 18):
                        out.append("fl.ratio 5 %s %d" % (hx(c), p))
                        out.append("fl.ratio 5 %s %d" % (hx(-c), p))
    # odd part of the coefficient just above a machine-word width (narrowing fast paths), all residues mod 5 and 2
    for w in (31, 32, 63, 64, 65, 96):
        for dl in range(0, 21):
            for j in (0, 1, 5):
                c = (2**w + dl) * 2**j
                if c <= MAXC:
                    for p in (1, 2, 3, 18):
                        out.append("fl.ratio 5 %s %d" % (hx(rng.choice((1, -1)) * c), p))
            v = 2**w + dl
            for (k, j) in ((0, 1), (1, 2), (2, 0), (0, 3)):
                if v * 10 ** (k + j) <= MAXC:
                    out.append("fl.hasheq 5 %s %d %s %d" % (hx(v * 10**k), k + 2, hx(v * 10 ** (k + j)), k + j + 2))
    # equal values across representations hash alike
    for k in range(19):
        for j in range(19 - k):
            for v in (0, 1, -1, 7, 700, 5**20, 10**18 + 1, MAXC // 10**18, 25, 5**28 // 10**3):
                if abs(v * 10 ** (k + j)) <= MAXC:
                    out.append("fl.hasheq 5 %s %d %s %d" % (hx(v * 10**k), k, hx(v * 10 ** (k + j)), k + j))
    while len(out) < n:
        k = rng.randrange(4)
        p = scale(rng)
        if k == 0:
            c = coef(rng)
        elif k == 1:
            c = clamp(2 ** rng.randrange(0, 127) * 5 ** rng.randrange(0, 20) * rng.choice((1, 3, 7, 11)))
        else:
            c = clamp(rng.getrandbits(rng.randrange(1, 127)) * 10 ** rng.randrange(0, 19))
        if k == 3:
            j = rng.randrange(0, 19 - p) if p < 18 else 0
            if abs(c * 10**j) <= MAXC:
                out.append("fl.hasheq 5 %s %d %s %d" % (hx(c), p, hx(c * 10**j), p + j))
                continue
        out.append("fl.ratio 5 %s %d" % (hx(rng.choice((1, -1)) * c), p))
    return out


from fmt_flags import COMBOS  # noqa: E402
ALIGN_CODE = {"": 0, "<": 1, "^": 2, ">": 3}


def fmt_line(rng, idx, m, w, p, c, nfd, as_int=False):
    fill, align, plus, alt, zero = COMBOS[idx]
    fillhex = (fill if fill else " ").encode("utf-8").hex()
    return "fmt.%d%s %d %s %s %s %d %s %d %d %d %d" % (
        idx, ".i" if as_int else "", m, "-" if w is None else str(w), "-" if p is None else str(p), hx(c), nfd,
        fillhex, ALIGN_CODE[align], 1 if plus else 0, 1 if alt else 0, 1 if zero else 0)


def gen_C11(rng, n):
    out = []
    vals = [(0, 0), (0, 3), (5, 0), (-5, 0), (-42, 0), (12345, 3), (-12345, 3), (-12341, 3), (999, 2), (-999, 2), (9995, 3), (-9995, 3),
            (5, 1), (-5, 1), (15, 1), (25, 1), (-25, 1), (1, 18), (-1, 18), (MAXC, 18), (-MAXC, 0), (MAXC, 0), (49, 2), (-49, 2), (51, 2),
            (10**18, 18), (-4, 1), (-6, 1), (4, 1), (6, 1), (-420, 1)]
    for idx in range(len(COMBOS)):
        for (c, f) in vals:
            m = rng.choice(MODES)
            w = rng.choice((None, 0, 1, 5, 10, 30, 60))
            p = rng.choice((None, 0, 1, 2, 17, 18, 19, 40))
            out.append(fmt_line(rng, idx, m, w, p, c, f))
        for c in (0, 7, -7, 123456, -123456, MAXC, -MAXC):
            out.append(fmt_line(rng, idx, 5, rng.choice((None, 0, 3, 9, 45, 60)), None, c, 0, as_int=True))
    for c in WIDTH_BOUNDS:
        for f in (0, 1, 9, 18):
            out.append(fmt_line(rng, rng.randrange(len(COMBOS)), rng.choice(MODES), rng.choice((None, 0, 30)), rng.choice((None, f, 18, 0, max(0, f - 1))), c, f))
    for (c, nn) in all_nines(rng):
        for pr in (None, nn, max(0, nn - 1), 18):
            out.append(fmt_line(rng, rng.randrange(len(COMBOS)), rng.choice(MODES), rng.choice((None, 50)), pr, rng.choice((1, -1)) * c, nn))
    # every precision 0..40 x every mode, plain flags
    for p in list(range(41)) + [None]:
        for m in MODES:
            for (c, f) in ((-12341, 3), (12345, 3), (-5, 1), (999999, 6), (-42, 0), (-1, 18), (5 * 10**17, 18), (-15, 1)):
                out.append(fmt_line(rng, 0, m, None, p, c, f))
    for w in range(61):
        out.append(fmt_line(rng, rng.randrange(len(COMBOS)), 5, w, rng.choice((None, 2)), rng.choice((-12345, 12345, 0)), 2))
    while len(out) < n:
        idx = rng.randrange(len(COMBOS))
        w = rng.choice((None, rng.randrange(61)))
        p = rng.choice((None, rng.randrange(41), rng.randrange(20)))
        f = scale(rng)
        k = rng.randrange(4)
        if k == 0 and f > 0:
            s = rng.randrange(1, f + 1)
            c = rng.choice((1, -1)) * (rng.randrange(0, 10**6) * 10**s + rng.choice(rem_classes(10**s)))
        elif k == 1:
            c = rng.choice((1, -1)) * (10 ** rng.randrange(1, 30) - rng.randrange(1, 60))     # carries: 9.99 -> 10.0
        else:
            c = coef(rng)
        out.append(fmt_line(rng, idx, rng.choice(MODES), w, p, clamp(c), f))
    return out


# ---------------------------------------------------------------- floats
from fractions import Fraction  # noqa: E402


def float_parts(bits, is64):
    fb, eb, bias = (52, 11, 1023) if is64 else (23, 8, 127)
    s = bits >> (fb + eb)
    be = (bits >> fb) & ((1 << eb) - 1)
    fr = bits & ((1 << fb) - 1)
    if be == 0:
        m, e = fr, 1 - bias - fb
    else:
        m, e = fr | (1 << fb), be - bias - fb
    return s, m, e


def gen_C12(rng, n):
    out = []
    def both(c, p):
        c = clamp(c)
        out.append("fl.f64 5 %s %d" % (hx(c), p))
        out.append("fl.f32 5 %s %d" % (hx(c), p))
    for p in range(19):
        for c in (0, 1, -1, 10**p, 10**p - 1, 10**p + 1, 5, -5, MAXC, -MAXC, 2**53 + 1, 2**24 + 1, (2**53 + 1) * 10**p, (2**24 + 1) * 10**p,
                  99999999999999999, 999999999, 2**127 - 2**70, 16777217 * 10**p + 1, 16777219 * 10**p - 1):
            both(c, p)
    both(99999999999999999, 17); both(900719925474099175, 2); both(99999999, 8)
    both(16777217000000000000000001, 18); both(16777218999999999999999999, 18); both(1000000059604644776, 18)
    # midpoints between adjacent floats, approached from below / at / above
    for is64 in (True, False):
        fb = 52 if is64 else 23
        for _ in range(60):
            e = rng.randrange(-70, 40)
            m = (1 << fb) | rng.getrandbits(fb)
            if rng.randrange(4) == 0:
                m = (1 << (fb + 1)) - 1      # all ones: rounding carries into the exponent
            mid = Fraction(2 * m + 1) * Fraction(2) ** (e - fb - 1)
            for p in (rng.randrange(1, 19), 18):
                c0 = int(mid * 10**p)
                for d in (-1, 0, 1, 2):
                    if 0 < c0 + d <= MAXC:
                        out.append("fl.%s 5 %s %d" % ("f64" if is64 else "f32", hx(rng.choice((1, -1)) * (c0 + d)), p))
        # exact ties: midpoint representable with <= 18 fractional digits
        for k in range(1, 19):
            for _ in range(6):
                odd = rng.getrandbits(fb + 1) | (1 << (fb + 1)) | 1       # fb+2 bits, odd -> exactly between two floats
                c = odd * 5**k
                if c <= MAXC:
                    out.append("fl.%s 5 %s %d" % ("f64" if is64 else "f32", hx(c), k))
                    out.append("fl.%s 5 %s %d" % ("f64" if is64 else "f32", hx(-c), k))
    # large coefficients: the divisor is shifted left (beyond 64 bits), quotient = significand | guard bits,
    # remainder classes incl. multiples of 2^32 / 2^64 (a narrowed sticky test would lose them)
    for is64 in (True, False):
        fb = 52 if is64 else 23
        A = fb + 3
        for nn in (1, 2, 9, 18):
            den = 10**nn
            lb = den.bit_length() - 1
            for la in (lb + A + 2, lb + A + 9, 100, 119, 123, 126):
                ds = la - lb - A
                if ds <= 0 or la > 126:
                    continue
                den_s = den << ds
                for G in (3, 2):
                    for sig_lsb in (0, 1):
                        signif = (1 << fb) | (rng.getrandbits(fb) & ~1) | sig_lsb
                        for g in (1 << (G - 1), (1 << (G - 1)) - 1, (1 << (G - 1)) + 1, 0, (1 << G) - 1):
                            quot = (signif << G) | g
                            for rem in (0, 1, 2**32, 2**64, 3 * 2**64, 2**64 + 1, den_s - 1, den_s // 2, (den_s >> 64) << 64):
                                if not 0 <= rem < den_s:
                                    continue
                                num = quot * den_s + rem
                                if num <= MAXC and num.bit_length() - 1 == la:
                                    out.append("fl.%s 5 %s %d" % ("f64" if is64 else "f32", hx(rng.choice((1, -1)) * num), nn))
    for c in WIDTH_BOUNDS:
        for p in (0, 1, 9, 18):
            both(c, p)
    while len(out) < n:
        p = scale(rng)
        k = rng.randrange(4)
        c = coef(rng) if k else rng.getrandbits(rng.randrange(1, 127))
        both(rng.choice((1, -1)) * c, p)
    return out


def gen_C13(rng, n):
    out = []
    def f64(b):
        out.append("fl.fromf64 5 %x" % b)
    def f32(b):
        out.append("fl.fromf32 5 %x" % b)
    import struct
    def bits64(x):
        return struct.unpack("<Q", struct.pack("<d", x))[0]
    def bits32(x):
        return struct.unpack("<I", struct.pack("<f", x))[0]
    for x in (0.0, -0.0, 1.0, -1.0, 0.5, 1.5, 2.0**-19, -(2.0**-19), 1 + 5 * 2.0**-19, 3 * 2.0**-19, 6e-19, 7e-19, 8e-19, 8.6e-19, 5e-19, 4.9e-19, 1e-19, 1e-18,
              2.0**127, -(2.0**127), 2.0**126, 2.0**127 * (1 - 2.0**-53), 1e38, 1.7e38, 1.8e38, 1e39, 2.0**128, 1e308, 5e-324, 2.2250738585072014e-308,
              0.1, 0.2, 0.3, 17.5, 123456789.123456789, 9007199254740993.0, 1e22, 2.0**-60, 2.0**-59, 2.0**-61, 2.0**-126, 2.0**-127):
        f64(bits64(x)); f64(bits64(-x))
        try:
            f32(bits32(x)); f32(bits32(-x))
        except OverflowError:
            pass
    for b in (0x7ff0000000000000, 0xfff0000000000000, 0x7ff8000000000000, 0x7ff0000000000001, 0xffffffffffffffff, 0x7fefffffffffffff, 1, 0x000fffffffffffff, 0x0010000000000000):
        f64(b)
    for b in (0x7f800000, 0xff800000, 0x7fc00000, 0x7f800001, 0xffffffff, 0x7f7fffff, 1, 0x007fffff, 0x00800000):
        f32(b)
    # every exponent x structured mantissas
    for be in range(0, 2047, 1):
        for fr in (0, 1, (1 << 52) - 1, 1 << 51, rng.getrandbits(52)):
            f64((rng.randrange(2) << 63) | (be << 52) | fr)
    for be in range(0, 256):
        for fr in (0, 1, (1 << 23) - 1, 1 << 22, rng.getrandbits(23), rng.getrandbits(23)):
            f32((rng.randrange(2) << 31) | (be << 23) | fr)
    # dyadic ties k / 2^19, and +- 1 ulp
    for _ in range(300):
        k = rng.randrange(1, 2**30) | 1
        x = k / 2.0**19
        b = bits64(x)
        for d in (-1, 0, 1):
            f64(b + d)
        f32(bits32(rng.randrange(1, 2**22) / 2.0**19))
    # m / 2^k with the digits after the 18th just above / below / at one half: solve m * 5^18 = t (mod 2^(k-18))
    # for t at small distances from 2^(k-19) (the distance, relative to one unit, is d / 2^(k-18))
    inv5 = {}
    for k in list(range(20, 72, 3)) + [49, 52, 55, 60, 63, 64, 65]:
        w = k - 18
        M = 1 << w
        inv = pow(5**18, -1, M)
        for dist in (1, 2, 3, 1 << (w // 2), (1 << w) // 10**9 + 1, (1 << w) // 10**6 + 1):
            for sgn in (1, -1, 0):
                t = (M // 2 + sgn * dist) % M
                m0 = (t * inv) % M
                for hi in (0, 1, rng.getrandbits(12)):
                    m = m0 + hi * M
                    while m and m < (1 << 52):
                        m += M * max(1, ((1 << 52) - m) // M)
                    if (1 << 52) <= m < (1 << 53):
                        e = 1023 + 52 - k
                        if 1 <= e <= 2046:
                            f64((rng.randrange(2) << 63) | (e << 52) | (m - (1 << 52)))
                    m32 = m0 if w <= 24 else None
                    if m32 is not None:
                        mm = m0
                        while mm and mm < (1 << 23):
                            mm += M * max(1, ((1 << 23) - mm) // M)
                        if (1 << 23) <= mm < (1 << 24):
                            e = 127 + 23 - k
                            if 1 <= e <= 254:
                                f32((rng.randrange(2) << 31) | (e << 23) | (mm - (1 << 23)))
    while len(out) < n:
        k = rng.randrange(6)
        if k == 0:
            f64(rng.getrandbits(64))
        elif k == 1:
            f32(rng.getrandbits(32))
        elif k == 2:
            f64((rng.randrange(2) << 63) | (rng.randrange(1023 - 70, 1023 + 130) << 52) | rng.getrandbits(52))
        elif k == 3:
            f32((rng.randrange(2) << 31) | (rng.randrange(127 - 70, 255) << 23) | rng.getrandbits(23))
        elif k == 4:
            x = rng.randrange(1, 10**rng.randrange(1, 19)) / 10.0**rng.randrange(0, 25)
            f64(bits64(x)); f32(bits32(x))
        else:
            x = (rng.randrange(1, 2**40) | 1) / 2.0**rng.randrange(1, 30)
            f64(bits64(x))
    return out


# ---------------------------------------------------------------- C17
FRM_DD = ("add", "sub", "mul", "div", "rem", "cadd", "csub", "cmul", "cdiv", "crem", "divr", "mulr", "quant", "eq", "lt")
FRM_DI = ("add", "sub", "mul", "div", "rem", "cadd", "csub", "cmul", "cdiv", "crem", "divr", "quant", "eq", "lt")


def gen_C17(rng, n):
    out = []
    def one(shape, op, ty, m):
        nn = rng.randrange(19)
        if shape == "dd":
            out.append("frm.dd_%s %d %s %d %s %d %d" % (op, m, hx(coef(rng)), scale(rng), hx(coef(rng)), scale(rng), nn))
        elif shape == "di":
            out.append("frm.di_%s.%s %d %s %d %s %d" % (op, ty, m, hx(coef(rng)), scale(rng), hx(intval(rng, ty)), nn))
        elif shape == "id":
            out.append("frm.id_%s.%s %d %s %s %d %d" % (op, ty, m, hx(intval(rng, ty)), hx(coef(rng)), scale(rng), nn))
        else:
            out.append("frm.ii_%s.%s %d %s %s %d" % (op, ty, m, hx(intval(rng, ty)), hx(intval(rng, ty)), nn))
    # every implementation at least a few times (the finite set of trait impls)
    for rep in range(3):
        for op in FRM_DD:
            one("dd", op, "", rng.choice(MODES))
        for ty in TYNAMES:
            for op in FRM_DI:
                one("di", op, ty, rng.choice(MODES))
                one("id", op, ty, rng.choice(MODES))
            for op in ("divr", "quant"):
                one("ii", op, ty, rng.choice(MODES))
    # boundary material: integer one, overflowing scalings, i128::MIN for comparisons
    for ty in TYNAMES:
        lo, hi = ITYPES[ty]
        for i in (1, 0, hi, lo, -1 if lo < 0 else 2):
            for c, p in ((MAXC, 0), (-MAXC, 0), (10**21, 0), (MAXC // 7, 12), (15, 1), (10**5, 5), (0, 3), (MAXC, 18)):
                for op in ("div", "mul", "add", "sub", "rem", "cdiv", "cmul", "cadd", "crem", "eq", "lt", "quant"):
                    if ty == "i128" and i == lo and op not in ("eq", "lt"):
                        continue
                    out.append("frm.di_%s.%s 5 %s %d %s 0" % (op, ty, hx(c), p, hx(i)))
                    out.append("frm.id_%s.%s 5 %s %s %d 0" % (op, ty, hx(i), hx(c), p))
    # largest integers / coefficients that can still be scaled by 10^n, and their neighbours
    for d in range(1, 19):
        lim = MAXC // 10**d
        for ty in ("i128", "i64", "u64"):
            lo, hi = ITYPES[ty]
            for sg in (1, -1):
                for dl in (-1, 0, 1):
                    i = sg * (lim + dl)
                    if lo <= i <= hi:
                        for c in (i * 10**d, i * 10**d + 1, sg * MAXC):
                            if abs(c) <= MAXC:
                                for op in ("eq", "lt", "add", "sub", "crem", "cmul"):
                                    out.append("frm.di_%s.%s 5 %s %d %s 0" % (op, ty, hx(c), d, hx(i)))
                                    out.append("frm.id_%s.%s 5 %s %s %d 0" % (op, ty, hx(i), hx(c), d))
    for (cx, k, cy, r) in max_quot_divisions(rng):
        for ty in ("i128", "i64", "u64", "i32", "u8"):
            lo, hi = ITYPES[ty]
            if lo <= cy <= hi and 0 <= 18 - k <= 18:
                for m in MODES:
                    for op in ("div", "cdiv"):
                        out.append("frm.di_%s.%s %d %s %d %s 0" % (op, ty, m, hx(cx), 18 - k, hx(cy)))
                        out.append("frm.di_%s.%s %d %s %d %s 0" % (op, ty, m, hx(-cx), 18 - k, hx(cy)))
                    out.append("frm.di_divr.%s %d %s %d %s 18" % (ty, m, hx(cx), 18 - k, hx(cy)))
    # K1: integer forms of div_rounded with n > 18 disagree with the Decimal form
    out.append("frm.di_divr.i32 5 1 0 3 19")
    # the integer-operand bodies against the model (same generators as C01-C04, C08, C10)
    for g in (gen_C01, gen_C02, gen_C03, gen_C04, gen_C08, gen_C10):
        ls = [l for l in g(rng, 1500) if l.startswith(("di.", "id.", "ii."))]
        out += ls[:600]
    while len(out) < n:
        shape = rng.choice(("dd", "di", "di", "id", "id", "ii"))
        ty = rng.choice(TYNAMES)
        op = rng.choice(FRM_DD if shape == "dd" else (("divr", "quant") if shape == "ii" else FRM_DI))
        one(shape, op, ty, rng.choice(MODES))
    return out


# ---------------------------------------------------------------- C19
PROBES = [(25, 1), (-25, 1), (23, 1), (-23, 1), (3, 1), (-3, 1), (15, 1), (-15, 1), (5, 1), (-5, 1), (27, 1), (-27, 1), (55, 1), (-55, 1), (1, 18), (-1, 18)]


def thr_event(rng, t):
    k = rng.randrange(12)
    if k < 3:
        return "S%d=%d" % (t, rng.randrange(8))
    if k < 5:
        return "G%d" % t
    c, p = rng.choice(PROBES)
    if k < 8:
        return "R%d:%s:%d:%d" % (t, hx(c), p, 0)
    if k == 8:
        return "D%d:%s:%d:%s:%d:%d" % (t, hx(rng.choice((1, -1, 2, -2, 16, -16, 7))), rng.randrange(3), hx(rng.choice((3, -3, 6, 4))), 0, rng.randrange(3))
    if k == 9:
        # wide product: exercises the 256-bit multiplication path
        return "M%d:%s:%d:%s:%d" % (t, hx(rng.choice((1, -1)) * (10**20 + 1)), 10, hx(10**20 + 3), 10)
    if k == 10:
        return rng.choice(("V%d:%s:%d:%s:%d" % (t, hx(rng.choice((1, -1, 2, -2, 10**21, -(10**21)))), 0, hx(rng.choice((3, 7, 6))), 0),
                           "U%d:%s:%d:%s:%d:%d" % (t, hx(rng.choice((15, -15, 25, -25, 35))), 1, hx(rng.choice((5, 15))), 1, 1)))
    return "F%d:%s:%d:%d" % (t, hx(c), p, 0)


def gen_C19(rng, n):
    out = []
    # atlas: two threads, every ordered pair of modes, cross-thread set between a set and its use
    for m1 in range(8):
        for m2 in range(8):
            out.append("thr.forced 5 S0=%d S1=%d R0:19:1:0 R1:19:1:0 G0 G1 R0:-19:1:0 R1:-f:1:0 M0:%s:10:%s:10 M1:-%s:10:%s:10"
                       % (m1, m2, hx(10**20 + 1), hx(10**20 + 3), hx(10**20 + 1), hx(10**20 + 3)))
    for m1 in range(8):
        out.append("thr.forced 5 G0 G1 S0=%d G1 G0 S1=5 G0 R0:19:1:0 S2=5 R0:-19:1:0 G2 G0 F0:-f:1:0 D0:10:1:3:0:0 V0:1:0:3:0" % m1)
        out.append("thr.free 5 S0=%d R0:19:1:0 R1:19:1:0 G1 G0 R1:-19:1:0 R0:-19:1:0 G2 R2:f:1:0" % m1)
    while len(out) < n:
        nt = rng.randrange(1, 5)
        ln = rng.randrange(3, 24)
        evs = [thr_event(rng, rng.randrange(nt)) for _ in range(ln)]
        out.append("thr.%s 5 %s" % ("forced" if rng.randrange(5) else "free", " ".join(evs)))
    # many threads holding the same non-default mode at once (a narrow shared counter would wrap)
    for nthr in (2, 16, 255, 256, 257, 300):
        for m in (7, 1, 4):
            out.append("thr.crowd 5 %d %d" % (m, nthr))
    return out


def gen_C20(rng, n):
    per = max(200, n // 9)
    out = []
    for g in (gen_C01, gen_C02, gen_C03, gen_C04, gen_C05, gen_C10, gen_C15, gen_C16, gen_C08):
        ls = g(rng, per)
        if len(ls) > per:
            # keep the atlas part proportionally: deterministic thinning
            step = len(ls) / per
            ls = [ls[int(i * step)] for i in range(per)]
        out += ls
    # the overflow sites that relied on rustc's checks
    for c in (MAXC, -MAXC, MAXC - 1, MAXC // 2 + 1):
        out.append(dd("add", 5, c, 0, c, 0)); out.append(dd("sub", 5, c, 0, -c, 0))
        out.append(dd("add", 5, c, 0, 1, 1)); out.append(di("mul", "i32", 5, c, 0, 2)); out.append(id_("mul", "i64", 5, -3, c, 5))
        out.append(un("round", 5, c, 0, -3)); out.append(un("neg", 5, c, 0)); out.append(un("abs", 5, -abs(c), 0))
        out.append(di("add", "i128", 5, c, 2, MAXC // 5)); out.append(id_("sub", "i128", 5, MAXC // 5, c, 2))
        out.append(un("floor", 5, -abs(c), 18)); out.append(un("ceil", 5, abs(c), 18))
    big = 153127065114422308558518573344295695155          # 10 * big = 9 * MAXC + 7
    for m in MODES:
        for sg in (1, -1):
            out.append(dd("div", m, sg * big, 17, 9, 0)); out.append(dd("cdiv", m, sg * big, 17, 9, 0))
            out.append(dd("divr", m, sg * big, 0, 9, 1, 0)); out.append(dd("divr", m, sg * big, 17, 9, 0, 18))
            out.append("w.sdr %d %s %x %s" % (m, hx(sg * big), 1, hx(9)))
            # products: MAXC * 10 + r = x * y with the rounding digit cut off
            for y in (30, 70, 130):
                for dl in (0, 1, 2, 3):
                    x = (MAXC * 10) // y + dl                  # x * y / 10 = MAXC + fraction just below / above
                    if x <= MAXC:
                        out.append(dd("mul", m, sg * x, 1, y, 18)); out.append(dd("cmul", m, sg * x, 1, y, 18))
                        out.append(dd("mulr", m, sg * x, 1, y, 18, 18))
                        out.append("w.mdr %d %s %s %x" % (m, hx(sg * x), hx(y), 1))
    for (x, px, y, py, r, sft) in max_quot_products(rng)[::3]:
        for m in MODES:
            out.append(dd("mul", m, x, px, y, py)); out.append(dd("cmul", m, -x, px, -y, py)); out.append(dd("mulr", m, x, px, y, py, 18))
    for (cx, k, cy, r) in max_quot_divisions(rng)[::3]:
        for py in range(0, 19):
            px = 18 + py - k
            if 0 <= px <= 18:
                for m in MODES:
                    out.append(dd("div", m, cx, px, cy, py)); out.append(dd("cdiv", m, cx, px, cy, py))
                break
    for c in LIMB_BOUNDS[::5]:
        out.append(dd("add", 5, c, 0, 1, 18)); out.append(dd("cadd", 5, c, 1, -1, 18)); out.append(dd("sub", 5, 1, 17, c, 0))
    # K1 (recorded finding, also a C20 matter): integer-operand div_rounded forms n + scale in u8 without a guard
    out.append("id.divr.i64 5 7 3 2 255"); out.append("ii.divr.i32 5 1 3 250"); out.append("di.divr.i32 5 1 5 3 251")
    return out



def gen_C18(rng, n):
    """literal source texts for Dec!(..): returns protocol lines str.macro 5 <hex of the literal>"""
    L = ["0", "1", "1.5", "-1.5", "+1.5", "1.", "1_000", "0x10", "0b1", "0o7", "1e5", "1E5", "1e+5", "1e-5", "1.5e-3", "1e38", "-1E38", "0.1e39", "0.01e+40",
         "10e37", "17e37", "18e37", "1e39", "0e39", "0.0e40", "0e-5", "0.00", "-0.000", "0.0E-3", "1e-18", "1e-19", "0.000000000000000001",
         "0.0000000000000000001", "0.0000000000000000001e1", "170141183460469231731687303715884105727", "170141183460469231731687303715884105728",
         "-170141183460469231731687303715884105727", "-170141183460469231731687303715884105728", "340282366920938463463374607431768211456",
         "440282366920938463463374607431768211456", "1e001", "1e00", "1e01", "12345678.12345678", "123456789012345678.90123", "0.5", "00.5", "007",
         "1_0.5_0", "1e1_0", "99999999999999999999999999999999999999", "1.000000000000000000", "1.0000000000000000000", "1.0000000000000000000e1"]
    for e in range(-40, 41):
        L.append("1e%d" % e); L.append("25e%d" % e); L.append("0.5e%d" % e); L.append("-123.456E%d" % e)
    for nd in range(1, 41):
        d = "".join(rng.choice("0123456789") for _ in range(nd))
        L.append(rng.choice("123456789") + d[1:])
        L.append("0." + d)
        L.append(d[: nd // 2 + 1].lstrip("0") + "0." + d[nd // 2:] if True else d)
    while len(L) < n:
        sg = rng.choice(("", "", "-", "+"))
        ni = rng.randrange(1, 41) if rng.randrange(3) else rng.randrange(1, 8)
        ip = rng.choice("123456789") + "".join(rng.choice("0123456789") for _ in range(ni - 1))
        if rng.randrange(5) == 0:
            ip = "0"
        t = sg + ip
        if rng.randrange(2):
            t += "." + "".join(rng.choice("0123456789") for _ in range(rng.randrange(0, 41) if rng.randrange(3) == 0 else rng.randrange(0, 20)))
        if rng.randrange(2):
            t += rng.choice("eE") + rng.choice(("", "+", "-")) + str(rng.randrange(0, 41))
        L.append(t)
    seen = set()
    out = []
    for t in L:
        if t not in seen:
            seen.add(t)
            out.append("str.macro 5 %s" % shex(t))
    return out


def thin(ls, n):
    """deterministic proportional thinning that keeps the order (atlas first)"""
    if len(ls) <= n:
        return ls
    step = len(ls) / n
    return [ls[int(i * step)] for i in range(n)]


def gen_K(rng, n):
    """256-bit division kernels at the boundaries of the quotient-digit correction loops (Knuth D3 as adapted
    in u256_idiv_u128_special): estimate one too large with the corrected remainder estimate exactly 2^64,
    products exactly equal in the test, for the high and the low quotient digit, normalised and shifted divisors;
    plus the 256/64 division with a non-zero high quotient limb and the 128x128 product"""
    out = []
    B = 2**64
    U = 2**128 - 1
    def emit(xnorm, y, s):
        # divide both by 2^s when possible (the kernel normalises again)
        if xnorm % 2**s == 0 and y % 2**s == 0:
            x, yy = xnorm >> s, y >> s
            xh, xl = x >> 128, x & U
            if 0 < yy <= U and xh < yy:
                out.append("w.idivs 5 %x %x %x" % (xh, xl, yy))
                out.append("w.idiv 5 %x %x %x" % (xh, xl, yy))
                if yy <= MAXC:
                    # the same division through the public signed kernel when the dividend is a product of two i128
                    for x2 in (2**64, 2**100, 2**126):
                        if x % x2 == 0 and x // x2 <= MAXC:
                            out.append("w.i256 %d %s %s %s" % (rng.choice(MODES), hx(x // x2), hx(x2), hx(yy)))
                            break
    for k in (1, 2, 3, 2**20, 2**62, 2**63 - 1):
        yn1 = 2**63 + k
        rh = B - yn1                               # remainder estimate that becomes exactly 2^64 after one correction
        for s in (0, 1, 7, 63):
            for yn0 in (B - 2**s, B - 2**s * 3 if B - 2**s * 3 > 0 else B - 2**s, (2**63 // 2**s) * 2**s):
                y = yn1 * B + yn0
                for qd in (B - 1, rh + 2, rh + 2**32, (rh + B) // 2):
                    if not rh < qd < B:
                        continue
                    for xlow in (0, 2**s, (B - 1) // 2**s * 2**s):
                        # low digit q0: t = qd*yn1 + rh is the partial remainder after the high digit q1
                        t = qd * yn1 + rh
                        for q1 in (0, 1, 5, B - 1):
                            emit((q1 * y + t) * B + xlow, y, s)
                        # high digit q1: xn32 = qd*yn1 + rh
                        emit((qd * yn1 + rh) * B * B + xlow * B + xlow, y, s)
                # equality in the correction test: qd*yn0 = rh'*2^64 + x_next
                for qd in (B - 1, 2**63, 12345678901234567, B - 2**32):
                    P = qd * yn0
                    rh2, xn = P >> 64, P & (B - 1)
                    if rh2 < yn1 and xn % 2**s == 0:
                        emit((qd * yn1 + rh2) * B * B + xn * B, y, s)              # high digit, no correction needed
                        emit((3 * y + qd * yn1 + rh2) * B + xn, y, s) if qd * yn1 + rh2 < y else None   # low digit
                        if xn >= 2**s:
                            emit((qd * yn1 + rh2) * B * B + (xn - 2**s) * B, y, s)  # one below: correction needed
    # 256 / 64 with a non-zero high quotient limb, high limb a multiple of the divisor, tiny next limb
    for y in (10, 10**9, 10**18, 10**19, 3, 2**63, B - 1, 7):
        if y >= B:
            continue
        for th in (y, 2 * y, 7 * y, y + 1, y - 1, B - 1):
            for mid in (0, 1, y - 1, B - 1):
                for xl in (0, 1, U, 2**127):
                    xh = (th % B) * B + (mid % B)
                    out.append("w.idiv64 5 %x %x %x" % (xh, xl, y))
                    out.append("w.idiv 5 %x %x %x" % (xh, xl, y))
    for x in (U, 2**64, B - 1, 2**127, 2**127 + 1, 10**38, 0xffffffff00000000ffffffff00000000):
        for y in (U, 2**64 + 1, B - 1, 2**127, 10**38, 3):
            out.append("w.mulw 5 %x %x" % (x, y))
    return thin(list(dict.fromkeys(out)), n) if len(out) > n else list(dict.fromkeys(out))


def gen_F07(rng, n):
    """feature serde-as-str: serialize = to_string, deserialize . serialize = id, deserialize(s) = from_str(s)"""
    a = []
    for l in gen_C07(rng, n):
        t = l.split()
        a.append("ft.serde 5 %s %s" % (t[2], t[3]))
    b = ["ft.serdestr 5 " + l.split()[2] for l in gen_C06(rng, n) if l.startswith("str.parse")]
    a = list(dict.fromkeys(a)); b = list(dict.fromkeys(b))
    return thin(a, n - n // 3) + thin(b, n // 3)


def gen_F08(rng, n):
    """feature rkyv: archive/deserialize identity and the ArchivedDecimal comparison impls"""
    out = []
    for l in gen_C08(rng, 2 * n):
        t = l.split()
        if t[0].startswith("dd."):
            out.append("ft.rkyv 5 %s %s %s %s" % (t[2], t[3], t[4], t[5]))
    return thin(list(dict.fromkeys(out)), n)


def gen_F15(rng, n):
    """feature num-traits: Zero / One / Signed / Num forwarders"""
    ops = []
    for l in gen_C15(rng, n):
        t = l.split()
        if t[0].startswith("un.") and len(t) >= 4:
            ops.append((t[2], t[3]))
    ops = list(dict.fromkeys(ops))
    out = []
    for i, (c, p) in enumerate(ops):
        c2, p2 = ops[(i * 7 + 3) % len(ops)] if i % 3 else (c, p)
        out.append("ft.nt 5 %s %s %s %s" % (c, p, c2, p2))
        if i % 5 == 0:      # same value, other representation / neighbour values / overflowing difference
            out.append("ft.nt 5 %s %s %s %s" % (c, p, hx(clamp(-int(c.replace("-", "-0x") if c.startswith("-") else "0x" + c, 16))), p))
    strs = [l.split()[2] for l in gen_C06(rng, max(200, n // 4)) if l.startswith("str.parse")]
    rad = []
    for i, h_ in enumerate(dict.fromkeys(strs)):
        rad.append("ft.radix 5 %s %d" % (h_, 10 if i % 4 else rng.choice((2, 8, 16, 36, 9, 11, 0, 1))))
    return thin(out, n - n // 4) + thin(rad, n // 4)


GENS = {
    "K": gen_K, "F07": gen_F07, "F08": gen_F08, "F15": gen_F15,
    "C01": gen_C01, "C02": gen_C02, "C03": gen_C03, "C04": gen_C04, "C05": gen_C05,
    "C08": gen_C08, "C10": gen_C10, "C14": gen_C14, "C15": gen_C15, "C16": gen_C16,
    "C06": gen_C06, "C07": gen_C07, "C09": gen_C09, "C11": gen_C11, "C12": gen_C12, "C13": gen_C13,
    "C17": gen_C17, "C18": gen_C18, "C19": gen_C19, "C20": gen_C20,
}

if __name__ == "__main__":
    import sys
    pid = sys.argv[1]
    seed = int(sys.argv[2]) if len(sys.argv) > 2 else 1
    n = int(sys.argv[3]) if len(sys.argv) > 3 else 3000
    for l in GENS[pid](random.Random(seed), n):
        print(l)
