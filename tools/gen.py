#!/usr/bin/env python3
"""Case generators for the correspondence / oracle runs.

Every generator is a function  gen_<ID>(rng, n) -> list of protocol lines
("<op> <mode> <args...>", integers in hex).  All randomness comes from the one
`random.Random(seed)` passed in.  Each generator starts with a deterministic
*atlas* (enumerated boundary / tie constructions that do not depend on the
seed) and continues with a seeded random stream drawn from a structured
mixture (not uniform): see DESIGN.md §1.4.
"""
import random

MAXC = 2**127 - 1
MODES = list(range(8))
ITYPES = {
    "u8": (0, 2**8 - 1), "i8": (-2**7, 2**7 - 1), "u16": (0, 2**16 - 1), "i16": (-2**15, 2**15 - 1),
    "u32": (0, 2**32 - 1), "i32": (-2**31, 2**31 - 1), "u64": (0, 2**64 - 1), "i64": (-2**63, 2**63 - 1),
    "i128": (-2**127, 2**127 - 1),
}
TYNAMES = list(ITYPES)


def hx(i):
    return ("-%x" % -i) if i < 0 else ("%x" % i)


def clamp(c):
    return max(-MAXC, min(MAXC, c))


def coef(rng):
    """structured coefficient mixture, |c| <= 2^127-1"""
    k = rng.randrange(16)
    s = rng.choice((1, -1))
    if k == 0:
        return rng.choice((0, 1, -1, 2, -2, 5, -5, 10, -10))
    if k == 1:
        return s * 10 ** rng.randrange(39)
    if k == 2:
        return clamp(s * (10 ** rng.randrange(1, 39) + rng.choice((-1, 1))))
    if k == 3:
        return s * 2 ** rng.randrange(127)
    if k == 4:
        return clamp(s * (2 ** rng.randrange(1, 128) + rng.choice((-1, 1))))
    if k == 5:
        return s * (MAXC - rng.randrange(4))
    if k == 6:
        return clamp(s * rng.randrange(1, 10) * 10 ** rng.randrange(38))
    if k == 7:
        return s * (10 ** rng.randrange(1, 39) - 1)
    if k == 8:
        j = rng.randrange(1, 30)
        return clamp(s * rng.getrandbits(rng.randrange(1, 100)) * 10 ** j)
    if k == 9:
        return clamp(s * (MAXC // 10 ** rng.randrange(0, 39) + rng.choice((-1, 0, 1))))
    if k == 10:
        return s * rng.randrange(0, 1000)
    if k == 11:
        return clamp(s * 5 * 10 ** rng.randrange(38))
    return s * rng.getrandbits(rng.randrange(1, 128))


def scale(rng):
    return rng.randrange(19)


def intval(rng, ty, allow_min=True):
    lo, hi = ITYPES[ty]
    k = rng.randrange(8)
    if k == 0:
        v = rng.choice((0, 1, 2, 3, 7, 10, 100))
    elif k == 1:
        v = hi - rng.randrange(3)
    elif k == 2:
        v = lo + rng.randrange(3)
    elif k == 3:
        v = -rng.choice((1, 2, 3, 7, 10))
    elif k == 4:
        v = 10 ** rng.randrange(39)
    elif k == 5:
        v = -(10 ** rng.randrange(39))
    else:
        v = rng.randrange(lo, hi + 1)
        if rng.randrange(2):
            v = v >> rng.randrange(0, 120)
    v = max(lo, min(hi, v))
    if not allow_min and ty == "i128" and v == lo:
        v = lo + 1
    return v


def dd(op, m, x, p, y, q, n=None):
    x, y = clamp(x), clamp(y)
    s = "dd.%s %d %s %d %s %d" % (op, m, hx(x), p, hx(y), q)
    return s if n is None else s + " %d" % n


def di(op, ty, m, x, p, i, n=None):
    x = clamp(x)
    s = "di.%s.%s %d %s %d %s" % (op, ty, m, hx(x), p, hx(i))
    return s if n is None else s + " %d" % n


def id_(op, ty, m, i, y, q, n=None):
    y = clamp(y)
    s = "id.%s.%s %d %s %s %d" % (op, ty, m, hx(i), hx(y), q)
    return s if n is None else s + " %d" % n


def ii(op, ty, m, i, j, n=None):
    s = "ii.%s.%s %d %s %s" % (op, ty, m, hx(i), hx(j))
    return s if n is None else s + " %d" % n


def un(op, m, c, p, *extra):
    c = clamp(c)
    return " ".join(["un.%s %d %s %d" % (op, m, hx(c), p)] + [str(e) for e in extra])


# ---------------------------------------------------------------- helpers
def rem_classes(d):
    """remainders covering 0, 1, half-1, half, half+1, d-1 for a divisor d > 0"""
    s = {0, 1, d - 1, d // 2, d // 2 - 1, d // 2 + 1, (d + 1) // 2}
    return sorted(r for r in s if 0 <= r < d)


def quot_set(rng):
    """quotients covering sign, 0, +-1, every last digit"""
    base = rng.randrange(10, 10**6) * 10
    return [0, 1, -1, 4, 5, -5, -6] + [base + d for d in range(10)] + [-(base + d) for d in range(10)]


# ---------------------------------------------------------------- C01
def gen_C01(rng, n):
    out = []
    ops = ("add", "sub", "cadd", "csub")
    # atlas: every scale pair, boundary coefficients
    bset = [0, 1, -1, MAXC, -MAXC, MAXC - 1, 10**18, -(10**18), 5]
    for p in range(19):
        for q in range(19):
            k = abs(p - q)
            lim = MAXC // 10**k
            for op in ops:
                a = rng.choice(bset + [lim, lim + 1, -lim, -lim - 1, lim - 1])
                b = rng.choice(bset + [lim, lim + 1, -lim, -lim - 1])
                out.append(dd(op, 5, a, p, b, q))
    # sums exactly at the i128 boundary (both ends), equal and unequal scales
    for op in ops:
        for delta in (-2, -1, 0, 1, 2):
            for p, q in ((0, 0), (3, 3), (18, 18), (2, 0), (0, 5), (18, 0), (0, 18)):
                k = abs(p - q)
                b = rng.randrange(1, 10**20)
                scaled_b = b * 10**k
                for top in (2**127 - 1, -2**127):
                    # x (+|-) y == top + delta at the common scale
                    if op in ("add", "cadd"):
                        a = top + delta - scaled_b
                    else:
                        a = top + delta + scaled_b
                    if abs(a) > MAXC:
                        continue
                    if p >= q:
                        out.append(dd(op, 5, a, p, b, q))
                    else:
                        # x is the one to be scaled: only if divisible
                        if a % 10**k == 0:
                            out.append(dd(op, 5, a // 10**k, p, b * 10**k if abs(b * 10**k) <= MAXC else b, q))
    # integer operands
    for ty in TYNAMES:
        lo, hi = ITYPES[ty]
        for op in ops:
            for p in (0, 1, 9, 18):
                for i in (lo, hi, 0, 1):
                    if ty == "i128" and i == lo:
                        continue
                    c = rng.choice((0, 1, -1, MAXC, -MAXC, MAXC - i * 10**p if abs(MAXC - i * 10**p) <= MAXC else 7))
                    out.append(di(op, ty, 5, c, p, i))
                    out.append(id_(op, ty, 5, i, c, p))
    while len(out) < n:
        op = rng.choice(ops)
        k = rng.randrange(10)
        if k < 6:
            out.append(dd(op, rng.choice(MODES), coef(rng), scale(rng), coef(rng), scale(rng)))
        else:
            ty = rng.choice(TYNAMES)
            i = intval(rng, ty, allow_min=False)
            if k < 8:
                out.append(di(op, ty, 5, coef(rng), scale(rng), i))
            else:
                out.append(id_(op, ty, 5, i, coef(rng), scale(rng)))
    return out


# ---------------------------------------------------------------- products
SMALL_Y = (3, 7, 9, 11, 13, 17, 19, 21, 23, 27, 29, 31, 33, 37, 39, 41, 43, 47, 49, 51)


def product_cases(rng, sh, wide):
    """(x, y) with x*y = k*10^sh + r for r in the remainder classes; y coprime to 10"""
    res = []
    d = 10**sh
    if wide:
        y = rng.getrandbits(rng.randrange(40, 70)) | 1
        while y % 5 == 0:
            y += 2
        kbase = rng.getrandbits(rng.randrange(100, 126 + min(sh, 30)))
    else:
        y = rng.choice(SMALL_Y)
        kbase = rng.getrandbits(rng.randrange(1, 100))
    inv = pow(d, -1, y)
    for r in rem_classes(d):
        for last in range(10) if not wide else (rng.randrange(10), rng.randrange(10)):
            # k = kbase*10 + last + j*?  such that k*d + r == 0 mod y
            k0 = kbase - kbase % 10 + last
            # need (k*d + r) % y == 0 with k = k0 + 10*j (keeps the last digit): solve for j mod y
            target = (-r * inv) % y
            j = ((target - k0) * pow(10, -1, y)) % y
            k = k0 + 10 * j
            t = k * d + r
            x = t // y
            if 0 < x <= MAXC and y <= MAXC:
                res.append((x, y))
    return res


def gen_C02(rng, n):
    out = []
    # atlas: short-cuts in every representation
    for p in range(19):
        for q in (0, 5, 18):
            one_p = 10**p
            out.append(dd("mul", 5, one_p, p, rng.choice((123, -7, MAXC, 10**q)), q))
            out.append(dd("mul", 5, rng.choice((123, -7, -MAXC)), q, one_p, p))
            out.append(dd("cmul", 5, one_p, p, 3, q))
            out.append(dd("mul", 5, 0, p, 5, q))
            out.append(dd("cmul", 5, 77, q, 0, p))
            out.append(dd("mul", 5, -one_p, p, 5, q))
    # atlas: all remainder classes x modes x signs, narrow and wide path
    for s in (19, 20, 27, 36):
        sh = s - 18
        for wide in (False, True):
            for (x, y) in product_cases(rng, sh, wide):
                px = rng.randrange(max(0, s - 18), min(18, s) + 1)
                py = s - px
                for m in MODES:
                    sx = rng.choice((1, -1))
                    sy = rng.choice((1, -1))
                    out.append(dd("mul", m, sx * x, px, sy * y, py))
    # results at the representability boundary
    for m in MODES:
        for delta in (-1, 0, 1):
            # (MAX+delta) * 10^1 + r  as product with y = 10^k-ish not possible in general; use x = t, y=1*scale trick
            t = (MAXC + delta)
            # x * y with y = 3 (scale 18), x at scale 1: s = 19, sh = 1 -> want x*3 = t*10 + r
            for r in (0, 4, 5, 6, 9):
                v = t * 10 + r
                v -= v % 3
                x = v // 3
                if x <= MAXC:
                    out.append(dd("mul", m, x, 1, 3, 18))
                    out.append(dd("mul", m, -x, 1, 3, 18))
    # exact branch (s <= 18) at the i128 boundary; checked_mul never rounds
    for (p, q) in ((0, 0), (9, 9), (18, 0), (10, 9), (18, 18)):
        for t in (MAXC, MAXC + 1, 2**127, 2**127 + 1):
            for y in (2, 3, 7, 2**64, 10**19 + 1):
                x = t // y
                for sx in (1, -1):
                    out.append(dd("mul", 5, sx * x, p, y, q))
                    out.append(dd("cmul", 5, sx * x, p, y, q))
                    out.append(dd("cmul", 5, sx * (x + 1), p, y, q))
    for ty in TYNAMES:
        lo, hi = ITYPES[ty]
        for i in (hi, lo, 0, 1, 2, -1 if lo < 0 else 3):
            if ty == "i128" and i == lo:
                continue
            for c in (MAXC // max(1, abs(i)), MAXC // max(1, abs(i)) + 1, -MAXC, 10**18, 0, 10**5):
                c = clamp(c)
                p = rng.randrange(19)
                for op in ("mul", "cmul"):
                    out.append(di(op, ty, 5, c, p, i))
                    out.append(id_(op, ty, 5, i, c, p))
    while len(out) < n:
        k = rng.randrange(10)
        m = rng.choice(MODES)
        if k < 3:
            s = rng.randrange(19, 37)
            px = rng.randrange(max(0, s - 18), min(18, s) + 1)
            cs = product_cases(rng, s - 18, rng.randrange(2) == 1)
            if cs:
                x, y = rng.choice(cs)
                out.append(dd("mul", m, rng.choice((1, -1)) * x, px, rng.choice((1, -1)) * y, s - px))
        elif k < 7:
            out.append(dd(rng.choice(("mul", "cmul")), m, coef(rng), scale(rng), coef(rng), scale(rng)))
        else:
            ty = rng.choice(TYNAMES)
            i = intval(rng, ty, allow_min=False)
            f = rng.choice((di, None))
            op = rng.choice(("mul", "cmul"))
            if f:
                out.append(di(op, ty, m, coef(rng), scale(rng), i))
            else:
                out.append(id_(op, ty, m, i, coef(rng), scale(rng)))
    return out


# ---------------------------------------------------------------- quotients
def quotient_cases(rng, big_q=False, big_d=False):
    """(num, den): num = Q*den + r over remainder classes and quotient classes"""
    res = []
    if big_d:
        den = rng.choice((2**64 + 3, 2**65 + 3, 2**126 + 2**63 - 1, 2**100 + 1, 10**30 + 7, rng.getrandbits(rng.randrange(65, 127)) | 1, 2**127 - 1, 2**126))
    else:
        den = rng.choice((2, 3, 7, 10, 10**18, 6, 4, 2**63, 2**64 - 1, rng.randrange(2, 10**9), rng.randrange(2, 2**64)))
    for r in rem_classes(den):
        for Q in quot_set(rng):
            if big_q:
                Q = Q * 10 ** rng.randrange(10, 30) + Q % 10
            res.append((Q * den + r, den))
    return res


def gen_C03(rng, n):
    out = []
    ops = ("div", "cdiv")
    # short-cuts
    for p in range(19):
        for op in ops:
            out.append(dd(op, 5, rng.choice((5, -5, MAXC)), rng.randrange(19), 10**p, p))
            out.append(dd(op, 5, rng.choice((5, -5, MAXC)), rng.randrange(19), 0, p))
            out.append(dd(op, 5, 0, p, rng.choice((5, -5, MAXC, 0)), rng.randrange(19)))
    # Equal branch: px = 18 + py  (only py = 0, px = 18)
    for (num, den) in quotient_cases(rng) + quotient_cases(rng, big_d=True):
        if abs(num) <= MAXC:
            for m in MODES:
                out.append(dd("div", m, num, 18, den, 0))
                out.append(dd("cdiv", m, -num, 18, -den if m % 2 else den, 0))
    # Less branch: divisor = D * 10^sh so that the scaled quotient is num/D
    for py in (0, 1, 7, 18):
        for px in (0, 3, 18):
            sh = 18 + py - px
            if sh <= 0:
                continue
            for (num, D) in quotient_cases(rng) + quotient_cases(rng, big_q=True):
                den = D * 10**sh
                if abs(num) <= MAXC and den <= MAXC:
                    m = rng.choice(MODES)
                    out.append(dd("div", m, num, px, den, py))
                    out.append(dd("cdiv", m, -num, px, den, py))
                    out.append(dd("div", (m + 3) % 8, num, px, -den, py))
    # wide path: scaled dividend above i128, result representable / just not
    for m in MODES:
        for sgn in (1, -1):
            out.append(dd("div", m, sgn * 10**21, 0, 10, 0))
            out.append(dd("div", m, sgn * 3 * 10**20, 0, 4 * 10**20, 0))
            out.append(dd("cdiv", m, sgn * (MAXC - 680), 0, 10**36 - 4, 18))
            out.append(dd("cdiv", m, sgn * (MAXC - 170), 0, 10**36 - 1, 18))
            out.append(dd("div", m, sgn * (2**100 + 12345), 5, 2**65 + 3, 7))
            out.append(dd("div", m, sgn * (2**110 + 1), 0, 2**126 + 2**63 - 1, 18))
    for ty in TYNAMES:
        lo, hi = ITYPES[ty]
        for i in (1, 0, 2, 3, hi, lo, 7):
            if ty == "i128" and i == lo:
                continue
            for op in ops:
                c = coef(rng)
                p = scale(rng)
                out.append(di(op, ty, rng.choice(MODES), c, p, i))
                out.append(id_(op, ty, rng.choice(MODES), i, c, p))
                out.append(id_(op, ty, 5, i, 10**p, p))
    while len(out) < n:
        k = rng.randrange(10)
        m = rng.choice(MODES)
        op = rng.choice(ops)
        if k < 5:
            out.append(dd(op, m, coef(rng), scale(rng), coef(rng), scale(rng)))
        elif k < 7:
            # moderately sized operands: quotient representable on the wide path
            x = rng.choice((1, -1)) * rng.getrandbits(rng.randrange(60, 110))
            y = rng.choice((1, -1)) * (rng.getrandbits(rng.randrange(50, 127)) | 1)
            out.append(dd(op, m, x, scale(rng), y, scale(rng)))
        else:
            ty = rng.choice(TYNAMES)
            i = intval(rng, ty, allow_min=False)
            if k == 7:
                out.append(di(op, ty, m, coef(rng), scale(rng), i))
            else:
                out.append(id_(op, ty, m, i, coef(rng), scale(rng)))
    return out


def gen_C04(rng, n):
    out = []
    # atlas: every (px, py, n) triple once with a tie / near-tie of the exact quotient
    for px in range(19):
        for py in range(19):
            for nn in range(19):
                m = rng.choice(MODES)
                sh = nn + py - px
                D = rng.choice((2, 3, 6, 7, 4, 14, 2**40 + 1))
                Q = rng.choice(quot_set(rng))
                r = rng.choice(rem_classes(D))
                if sh >= 0:
                    den = D * 10**sh
                    num = Q * D + r
                    if den <= MAXC:
                        out.append(dd("divr", m, num, px, den, py, nn))
                else:
                    # divisor-scaled branch: exact quotient num / (D * 10^-sh)
                    k = -sh
                    for pert in (0, 1, -1):
                        if D % 2 == 0:
                            num = Q * D * 10**k + (D // 2) * 10**k + pert
                        else:
                            num = Q * D * 10**k + D * 5 * 10 ** (k - 1) + pert
                        if abs(num) <= MAXC:
                            out.append(dd("divr", m, num, px, D, py, nn))
                            out.append(dd("divr", (m + 1) % 8, -num, px, D, py, nn))
                            out.append(dd("divr", (m + 2) % 8, num, px, -D, py, nn))
    # the documented witness and friends
    for m in MODES:
        for c in (16, -16, 15, -15, 14, 25, -25, 69, 49, 59):
            out.append(dd("divr", m, c, 1, 3, 0, 0))
            out.append(dd("divr", m, c, 2, -2, 0, 1))
            out.append(di("divr", "i32", m, c, 1, 3, 0))
            out.append(di("divr", "i32", m, c, 2, -2, 1))
            out.append(dd("quant", m, c, 1, 3, 0))
            out.append(dd("quant", m, c, 1, -2, 0))
            out.append(di("quant", "i8", m, c, 1, -2))
    # mul_rounded: all (s, n) with remainder classes
    for s in range(0, 37, 3):
        for nn in range(0, 19, 2):
            if s > nn:
                sh = s - nn
                cs = product_cases(rng, sh, rng.randrange(3) == 0)
                px = rng.randrange(max(0, s - 18), min(18, s) + 1)
                for (x, y) in cs[:12]:
                    m = rng.choice(MODES)
                    out.append(dd("mulr", m, rng.choice((1, -1)) * x, px, rng.choice((1, -1)) * y, s - px, nn))
            else:
                px = rng.randrange(max(0, s - 18), min(18, s) + 1)
                out.append(dd("mulr", 5, coef(rng), px, coef(rng), s - px, nn))
    # rejection clause n > 18 (Decimal/Decimal); integer forms are known finding K1
    for nn in (19, 20, 32, 100, 127, 128, 200, 237, 238, 255):
        out.append(dd("divr", 5, 1, 0, 3, 0, nn))
        out.append(dd("mulr", 5, 1, 0, 3, 0, nn))
        out.append(dd("divr", 5, 0, 0, 3, 0, nn))
        out.append(dd("mulr", 5, 0, 0, 3, 0, nn))
        out.append(di("divr", "i32", 5, 1, 0, 3, nn))
        out.append(id_("divr", "i32", 5, 1, 3, 0, nn))
        out.append(ii("divr", "i32", 5, 1, 3, nn))
    for ty in TYNAMES:
        lo, hi = ITYPES[ty]
        for i in (3, 7, hi, lo, 1):
            if ty == "i128" and i == lo:
                continue
            for j in (3, hi, 2, lo if lo else 5):
                if j == 0 or (ty == "i128" and j == lo):
                    continue
                nn = rng.randrange(19)
                m = rng.choice(MODES)
                out.append(ii("divr", ty, m, i, j, nn))
                out.append(ii("quant", ty, m, i, j))
                out.append(di("divr", ty, m, coef(rng), scale(rng), j, nn))
                out.append(id_("divr", ty, m, i, coef(rng) or 1, scale(rng), nn))
                out.append(di("quant", ty, m, coef(rng), scale(rng), j))
                out.append(id_("quant", ty, m, i, coef(rng) or 1, scale(rng)))
    while len(out) < n:
        k = rng.randrange(12)
        m = rng.choice(MODES)
        nn = rng.randrange(19)
        if k < 4:
            out.append(dd("divr", m, coef(rng), scale(rng), coef(rng), scale(rng), nn))
        elif k < 6:
            out.append(dd("mulr", m, coef(rng), scale(rng), coef(rng), scale(rng), nn))
        elif k < 8:
            q = rng.choice((1, 5, 25, 2, 3, 100, 10**rng.randrange(19), rng.randrange(1, 10**6))) * rng.choice((1, -1))
            out.append(dd("quant", m, coef(rng), scale(rng), q, scale(rng)))
        elif k < 10:
            x = rng.choice((1, -1)) * rng.getrandbits(rng.randrange(60, 110))
            y = rng.choice((1, -1)) * (rng.getrandbits(rng.randrange(50, 127)) | 1)
            out.append(dd("divr", m, x, scale(rng), y, scale(rng), nn))
        else:
            ty = rng.choice(TYNAMES)
            i = intval(rng, ty, allow_min=False)
            j = intval(rng, ty, allow_min=False)
            f = rng.randrange(3)
            if f == 0:
                out.append(di("divr", ty, m, coef(rng), scale(rng), j, nn))
            elif f == 1:
                out.append(id_("divr", ty, m, i, coef(rng), scale(rng), nn))
            else:
                out.append(ii("divr", ty, m, i, j, nn))
    return out


def gen_C05(rng, n):
    out = []
    # atlas: kernel classes through round(): 8 modes x signs x last digit x remainder class
    for p in (1, 2, 18):
        for nn in (0, p - 1, -1):
            if nn >= p:
                continue
            s = p - nn
            d = 10**s
            for m in MODES:
                for last in range(10):
                    for r in rem_classes(d):
                        k = rng.randrange(1, 1000) * 10 + last
                        c = k * d + r
                        if c <= MAXC:
                            op = "round" if (last + m) % 2 else "cround"
                            out.append(un(op, m, c, p, nn))
                            out.append(un(op, m, -c, p, nn))
                    for r in rem_classes(d):
                        out.append(un("round", m, r, p, nn))
                        out.append(un("cround", m, -r, p, nn))
    # every (p, n) pair
    for p in range(19):
        for nn in range(-128, 128):
            m = rng.choice(MODES)
            out.append(un(rng.choice(("round", "cround")), m, coef(rng), p, nn))
    # shift exactly 38 / 39 and beyond, with big coefficients, all modes
    for m in MODES:
        for p in (0, 5, 18):
            for sh in (37, 38, 39, 40, 57):
                nn = p - sh
                if nn < -128:
                    continue
                for c in (1, -1, 5 * 10**37, -5 * 10**37, 5 * 10**37 + 1, 6 * 10**37, 10**38, -10**38, 12 * 10**37, -12 * 10**37, MAXC, -MAXC, 15 * 10**37, 49 * 10**36, 0):
                    out.append(un("round", m, c, p, nn))
                    out.append(un("cround", m, c, p, nn))
    # rescaling overflow for negative n
    for m in MODES:
        for nn in (-1, -3, -20, -37, -38):
            for c in (MAXC, -MAXC, MAXC - 5 * 10 ** (-nn - 1) if nn > -38 else MAXC, 10**38, 17 * 10**37, 16 * 10**37):
                out.append(un("round", m, c, 0, nn))
                out.append(un("cround", m, c, 0, nn))
    # kernel directly
    for (num, den) in quotient_cases(rng) + quotient_cases(rng, big_d=True):
        if abs(num) <= MAXC:
            for m in MODES:
                out.append("w.divr %d %s %s" % (m, hx(num), hx(den)))
                out.append("w.divr %d %s %s" % (m, hx(-num), hx(-den)))
                out.append("w.divr %d %s %s" % (m, hx(num), hx(-den)))
    while len(out) < n:
        m = rng.choice(MODES)
        p = scale(rng)
        nn = rng.randrange(-40, 19) if rng.randrange(4) else rng.randrange(-128, 128)
        k = rng.randrange(4)
        if k == 0:
            out.append(un(rng.choice(("round", "cround")), m, coef(rng), p, nn))
        elif k == 1 and nn < p and p - nn <= 38:
            d = 10 ** (p - nn)
            c = rng.randrange(0, 10**6) * d + rng.choice(rem_classes(d))
            if c <= MAXC:
                out.append(un(rng.choice(("round", "cround")), m, rng.choice((1, -1)) * c, p, nn))
        else:
            den = rng.choice((1, -1)) * (rng.getrandbits(rng.randrange(1, 127)) + 1)
            out.append("w.divr %d %s %s" % (m, hx(coef(rng)), hx(den)))
    return out


def gen_C08(rng, n):
    out = []
    ops = ("eq", "ne", "lt", "le", "gt", "ge", "cmp", "pcmp", "min", "max")
    iops = ("eq", "ne", "lt", "le", "gt", "ge", "pcmp")
    # alignment overflow on either side x sign/zero combinations
    big = (MAXC, -MAXC, MAXC // 10 + 1, -(MAXC // 10 + 1), 10**38, -10**38, 2 * 10**37)
    small = (0, 1, -1, 25, -25, 10**18, -10**18)
    for p in range(19):
        for q in range(19):
            a = rng.choice(big + small)
            b = rng.choice(big + small)
            op = rng.choice(ops)
            out.append(dd(op, 5, a, p, b, q))
    for a in big:
        for b in small + big:
            for (p, q) in ((0, 18), (18, 0), (0, 1), (1, 0), (5, 5), (0, 3), (17, 18)):
                for op in ("pcmp", "eq", "lt", "min", "max", "ge"):
                    out.append(dd(op, 5, a, p, b, q))
                    out.append(dd(op, 5, b, q, a, p))
    # equal values in different representations
    for k in range(19):
        for j in range(19 - k):
            v = rng.choice((0, 1, -1, 15, -15, 10**18 + 1, MAXC // 10**18))
            if abs(v * 10 ** (k + j)) <= MAXC:
                for op in ("eq", "ne", "pcmp", "cmp", "le", "min", "max"):
                    out.append(dd(op, 5, v * 10**k, k, v * 10 ** (k + j), k + j))
    for ty in TYNAMES:
        lo, hi = ITYPES[ty]
        for i in (lo, hi, 0, 1, -1 if lo < 0 else 2, lo + 1, hi - 1):
            for p in (0, 1, 10, 18):
                for c in (0, 1, -1, MAXC, -MAXC, clamp(i * 10**p), clamp(i * 10**p + 1), clamp(i * 10**p - 1), 15, -15):
                    op = rng.choice(iops)
                    out.append(di(op, ty, 5, c, p, i))
                    out.append(id_(op, ty, 5, i, c, p))
    while len(out) < n:
        k = rng.randrange(10)
        if k < 6:
            a, p = coef(rng), scale(rng)
            if rng.randrange(3) == 0:
                # same value, other representation (or off by one unit)
                q = scale(rng)
                if q >= p:
                    b = a * 10 ** (q - p) + rng.choice((0, 0, 1, -1))
                else:
                    b = a // 10 ** (p - q) + rng.choice((0, 0, 1, -1))
                b = clamp(b)
            else:
                b, q = coef(rng), scale(rng)
            out.append(dd(rng.choice(ops), 5, a, p, b, q))
        else:
            ty = rng.choice(TYNAMES)
            i = intval(rng, ty)
            op = rng.choice(iops)
            p = scale(rng)
            c = coef(rng) if rng.randrange(2) else clamp(i * 10**p + rng.choice((0, 1, -1)))
            if k < 8:
                out.append(di(op, ty, 5, c, p, i))
            else:
                out.append(id_(op, ty, 5, i, c, p))
    return out


def gen_C10(rng, n):
    out = []
    ops = ("rem", "crem")
    for p in range(19):
        for q in range(19):
            for op in ops:
                out.append(dd(op, 5, coef(rng), p, coef(rng), q))
        out.append(dd("rem", 5, coef(rng), p, 0, rng.randrange(19)))
        out.append(dd("crem", 5, coef(rng), p, 0, rng.randrange(19)))
        out.append(dd("crem", 5, 0, p, 0, rng.randrange(19)))
        out.append(dd("rem", 5, 0, p, 7, rng.randrange(19)))
        out.append(dd("rem", 5, coef(rng), rng.randrange(19), 10**p, p))
        out.append(dd("crem", 5, -abs(coef(rng)), rng.randrange(19), 10**p, p))
    # dividend needs up-scaling beyond i128: small and huge divisors, both signs
    for op in ops:
        for sx in (1, -1):
            for sy in (1, -1):
                for (p, q) in ((0, 1), (0, 3), (1, 3), (0, 18), (5, 18), (17, 18)):
                    for x in (MAXC, MAXC // 30, MAXC // 7, 10**38, 2**120 + 12345):
                        for y in (3, 7, MAXC // 500, MAXC // 11, MAXC, 2**126 + 1, 10**18 + 3, 999999):
                            out.append(dd(op, 5, sx * x, p, sy * y, q))
    # divisor scaled beyond i128
    for op in ops:
        for (p, q) in ((3, 0), (18, 0), (18, 17)):
            for y in (MAXC, MAXC // 10 + 1, -(MAXC // 10 + 1), 10**37 * 2):
                for x in (MAXC, -MAXC, 5, -5, 0):
                    out.append(dd(op, 5, x, p, y, q))
    for ty in TYNAMES:
        lo, hi = ITYPES[ty]
        for i in (1, 0, 2, 3, hi, lo, 7):
            if ty == "i128" and i == lo:
                continue
            for op in ops:
                c, p = coef(rng), scale(rng)
                out.append(di(op, ty, 5, c, p, i))
                out.append(id_(op, ty, 5, i, c, p))
                out.append(id_(op, ty, 5, i, 10**p, p))
    while len(out) < n:
        k = rng.randrange(10)
        op = rng.choice(ops)
        if k < 7:
            out.append(dd(op, 5, coef(rng), scale(rng), coef(rng), scale(rng)))
        else:
            ty = rng.choice(TYNAMES)
            i = intval(rng, ty, allow_min=False)
            if k < 9:
                out.append(di(op, ty, 5, coef(rng), scale(rng), i))
            else:
                out.append(id_(op, ty, 5, i, coef(rng), scale(rng)))
    return out


ALL_TO = TYNAMES + ["u128"]
ALL_RANGE = dict(ITYPES)
ALL_RANGE["u128"] = (0, 2**128 - 1)


def gen_C14(rng, n):
    out = []
    for ty in ALL_TO:
        lo, hi = ALL_RANGE[ty]
        for v in (lo - 1, lo, lo + 1, hi - 1, hi, hi + 1, 0, 1, -1):
            for p in (0, 1, 5, 18):
                c = v * 10**p
                if abs(c) <= MAXC:
                    out.append("un.toint.%s 5 %s %d" % (ty, hx(c), p))
                if abs(c + 1) <= MAXC and p > 0:
                    out.append("un.toint.%s 5 %s %d" % (ty, hx(c + 1), p))
                    out.append("un.toint.%s 5 %s %d" % (ty, hx(c - 5 * 10 ** (p - 1)), p))
    for ty in TYNAMES:
        lo, hi = ITYPES[ty]
        for v in (lo, hi, 0, 1, lo + 1, hi - 1, 2**31, 2**31 - 1, 2**63, 2**32 - 1):
            if lo <= v <= hi:
                out.append("cv.fromint.%s 5 %s" % (ty, hx(v)))
    for u in (0, 1, MAXC, MAXC + 1, MAXC + 2, 2**128 - 1, 10**38):
        out.append("cv.fromu128 5 %s" % hx(u))
    while len(out) < n:
        k = rng.randrange(10)
        if k < 7:
            ty = rng.choice(ALL_TO)
            lo, hi = ALL_RANGE[ty]
            p = scale(rng)
            j = rng.randrange(4)
            if j == 0:
                c = coef(rng)
            elif j == 1:
                c = clamp(rng.randrange(lo, hi + 1) * 10**p)
            elif j == 2:
                c = clamp(rng.choice((lo - 1, hi + 1, hi, lo)) * 10**p + rng.choice((0, 0, 1)))
            else:
                c = clamp(rng.randrange(-1000, 1000) * 10 ** rng.randrange(0, 30))
            out.append("un.toint.%s 5 %s %d" % (ty, hx(c), p))
        elif k < 9:
            ty = rng.choice(TYNAMES)
            out.append("cv.fromint.%s 5 %s" % (ty, hx(intval(rng, ty))))
        else:
            out.append("cv.fromu128 5 %s" % hx(rng.getrandbits(rng.randrange(1, 129))))
    return out


UNOPS15 = ("floor", "ceil", "trunc", "fract", "abs", "neg", "mag", "iszero", "isone", "isneg", "ispos")


def gen_C15(rng, n):
    out = []
    for k in range(39):
        for delta in (-1, 0, 1):
            for s in (1, -1):
                c = s * (10**k + delta)
                if abs(c) <= MAXC:
                    for p in range(19):
                        out.append(un("mag", 5, c, p))
                    out.append("w.mag 5 %s" % hx(c))
    for p in range(19):
        for c in (0, 1, -1, 10**p, -(10**p), 10**p + 1, 10**p - 1, 5 * 10 ** max(0, p - 1), -5 * 10 ** max(0, p - 1), MAXC, -MAXC, 15, -15, -(10**p) - 1):
            for op in UNOPS15:
                out.append(un(op, 5, c, p))
    # log10 thresholds of the cascade
    for t in (10**5, 10**10, 10**16, 10**32, 10**26, 10**15, 10**21, 10**37):
        for d in (-1, 0, 1, t // 7):
            out.append("w.mag 5 %s" % hx(t + d))
            out.append(un("mag", 5, -(t + d), rng.randrange(19)))
    while len(out) < n:
        k = rng.randrange(10)
        if k < 8:
            out.append(un(rng.choice(UNOPS15), 5, coef(rng), scale(rng)))
        else:
            out.append("w.mag 5 %s" % hx(coef(rng) or 1))
    return out


def gen_C16(rng, n):
    out = []
    # kernel atlas: divisor classes x remainder classes x signs
    dens = (1, 2, 3, 10, 2**63, 2**64 - 1, 2**64, 2**64 + 1, 2**65 + 3, 2**126 + 2**63 - 1, 2**127 - 1, 2**126,
            10**18, 10**19, 10**38, 2**100 + 1, 2**64 * 3 + 2**64 - 1, (2**62) * 2**64 + 2**64 - 1, 2**127 - 2**64 + 5)
    for den in dens:
        for r in rem_classes(den):
            for Q in (0, 1, 2**64 - 1, 2**64, 2**126, MAXC, MAXC - 1, MAXC + 1, 2**127 + 5, 10**30):
                num = Q * den + r
                # factor num = a * b for i256: b = 10^k | small
                for b in (1, 10**18, 3, 2**64 + 1, 10**38):
                    if num % b == 0 and num // b <= MAXC and b <= MAXC:
                        a = num // b
                        for (sa, sb) in ((1, 1), (-1, 1), (1, -1), (-1, -1)):
                            out.append("w.i256 %d %s %s %s" % (rng.choice(MODES), hx(sa * a), hx(sb * b), hx(den)))
                for k in (0, 1, 18, 38):
                    if num % 10**k == 0 and num // 10**k <= MAXC:
                        a = num // 10**k
                        out.append("w.sdmf 5 %s %x %s" % (hx(a), k, hx(den)))
                        out.append("w.sdmf 5 %s %x %s" % (hx(-a), k, hx(den)))
                        for m in MODES[:4]:
                            out.append("w.sdr %d %s %x %s" % (m, hx(a), k, hx(den)))
                            out.append("w.sdr %d %s %x %s" % (m + 4, hx(-a), k, hx(den)))
                            out.append("w.sdr %d %s %x %s" % (m + 4, hx(a), k, hx(-den)))
    # Decimal-level wide operations
    for m in MODES:
        for sgn in (1, -1):
            out.append(dd("div", m, sgn * 10**21, 0, 10, 0))
            out.append(dd("mulr", m, sgn * 3 * 10**20, 10, 7 * 10**20, 10, 2))
            out.append(dd("mul", m, sgn * (10**20 + 1), 10, 10**20 + 3, 10))
            out.append(dd("mul", m, sgn * 12345678901234567890123457, 18, 98765432109876543210987653, 18))
            out.append(dd("divr", m, sgn * 2 * 10**20, 0, 3, 0, 18))
            out.append(dd("mul", m, sgn * 170141183460469231561546120255414874166, 18, 10**18 + 1, 18))
            out.append(dd("divr", m, sgn * 153127065114422308558518573344295695155, 0, 9, 1, 0))
    while len(out) < n:
        k = rng.randrange(10)
        m = rng.choice(MODES)
        if k < 3:
            den = rng.choice(dens) if rng.randrange(2) else (rng.getrandbits(rng.randrange(1, 128)) or 1)
            den = min(den, MAXC)
            a = coef(rng)
            b = coef(rng)
            out.append("w.i256 %d %s %s %s" % (m, hx(a), hx(b), hx(den)))
        elif k < 5:
            den = rng.choice(dens) if rng.randrange(2) else (rng.getrandbits(rng.randrange(1, 128)) or 1)
            den = min(den, MAXC)
            out.append("w.sdmf %d %s %x %s" % (m, hx(coef(rng)), rng.randrange(39), hx(den)))
        elif k < 6:
            den = rng.choice(dens) if rng.randrange(2) else (rng.getrandbits(rng.randrange(1, 128)) or 1)
            den = min(den, MAXC) * rng.choice((1, -1))
            out.append("w.sdr %d %s %x %s" % (m, hx(coef(rng)), rng.randrange(39), hx(den)))
        elif k < 7:
            out.append("w.mdr %d %s %s %x" % (m, hx(coef(rng)), hx(coef(rng)), rng.randrange(39)))
        elif k < 8:
            # quotient-digit estimate stress: normalised divisor with small high word and large low word
            hi = rng.choice((1, 2, 3, 2**62, 2**63 - 1, 2**63, rng.getrandbits(63) | 1))
            lo = rng.choice((2**64 - 1, 2**64 - 2, 2**63, rng.getrandbits(64)))
            den = min(hi * 2**64 + lo, MAXC)
            a = rng.getrandbits(rng.randrange(100, 128))
            out.append("w.sdmf %d %s %x %s" % (m, hx(rng.choice((1, -1)) * a), rng.randrange(10, 39), hx(den)))
        else:
            x = rng.choice((1, -1)) * rng.getrandbits(rng.randrange(64, 127))
            y = rng.choice((1, -1)) * (rng.getrandbits(rng.randrange(64, 127)) | 1)
            op = rng.choice(("mul", "div", "mulr", "divr", "cdiv"))
            nn = rng.randrange(19)
            out.append(dd(op, m, clamp(x), scale(rng), clamp(y), scale(rng), nn if op in ("mulr", "divr") else None))
    return out


GENS = {
    "C01": gen_C01, "C02": gen_C02, "C03": gen_C03, "C04": gen_C04, "C05": gen_C05,
    "C08": gen_C08, "C10": gen_C10, "C14": gen_C14, "C15": gen_C15, "C16": gen_C16,
}

if __name__ == "__main__":
    import sys
    pid = sys.argv[1]
    seed = int(sys.argv[2]) if len(sys.argv) > 2 else 1
    n = int(sys.argv[3]) if len(sys.argv) > 3 else 3000
    for l in GENS[pid](random.Random(seed), n):
        print(l)
