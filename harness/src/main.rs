// Harness: runs the real fpdec crate (path dependency on /repo) on one operation
// per input line and prints one canonical outcome per line.
//
//   <op> <mode 0..7> <args…>      integers in hex with optional '-'
//
// Outcomes: V c p | N | P | E kind | B 0/1 | O lt/eq/gt/none | S hex | I z | R n d f | Q q r | F bits | X (unknown op)
#![allow(clippy::all)]
use std::io::{BufRead, BufWriter, Write};
use std::panic::{catch_unwind, AssertUnwindSafe};
use std::str::FromStr;

use fpdec::{
    AsIntegerRatio, CheckedAdd, CheckedDiv, CheckedMul, CheckedRem, CheckedSub, Decimal,
    DivRounded, MulRounded, Quantize, Round, RoundingMode,
};

mod feat;
mod fmt_table;
mod forms;

pub fn hex(s: &str) -> i128 {
    let (neg, t) = match s.strip_prefix('-') {
        Some(t) => (true, t),
        None => (false, s),
    };
    let u = u128::from_str_radix(t, 16).expect("hex");
    if neg {
        (u as i128).wrapping_neg()
    } else {
        u as i128
    }
}
pub fn uhex(s: &str) -> u128 {
    u128::from_str_radix(s, 16).expect("uhex")
}
pub fn h(i: i128) -> String {
    if i < 0 {
        format!("-{:x}", i.unsigned_abs())
    } else {
        format!("{:x}", i)
    }
}
pub fn dec(c: &str, p: &str) -> Decimal {
    Decimal::new_raw(hex(c), p.parse::<u8>().expect("nfd"))
}
pub fn v(d: Decimal) -> String {
    format!("V {} {}", h(d.coefficient()), d.n_frac_digits())
}
pub fn o(d: Option<Decimal>) -> String {
    match d {
        Some(d) => v(d),
        None => "N".to_string(),
    }
}
pub fn b(x: bool) -> String {
    format!("B {}", x as u8)
}
pub fn ord(x: std::cmp::Ordering) -> String {
    match x {
        std::cmp::Ordering::Less => "O lt",
        std::cmp::Ordering::Equal => "O eq",
        std::cmp::Ordering::Greater => "O gt",
    }
    .to_string()
}
pub fn optord(x: Option<std::cmp::Ordering>) -> String {
    match x {
        Some(x) => ord(x),
        None => "O none".to_string(),
    }
}
fn shex(s: &str) -> String {
    let mut r = String::from("S ");
    for byte in s.bytes() {
        r.push_str(&format!("{:02x}", byte));
    }
    r
}
pub fn unhex_bytes(s: &str) -> Vec<u8> {
    if s == "-" {
        return vec![];
    }
    (0..s.len() / 2).map(|i| u8::from_str_radix(&s[2 * i..2 * i + 2], 16).unwrap()).collect()
}

pub const MODES: [RoundingMode; 8] = [
    RoundingMode::Round05Up,
    RoundingMode::RoundCeiling,
    RoundingMode::RoundDown,
    RoundingMode::RoundFloor,
    RoundingMode::RoundHalfDown,
    RoundingMode::RoundHalfEven,
    RoundingMode::RoundHalfUp,
    RoundingMode::RoundUp,
];

fn dd(op: &str, x: Decimal, y: Decimal, n: u8) -> String {
    match op {
        "add" => v(x + y),
        "sub" => v(x - y),
        "mul" => v(x * y),
        "div" => v(x / y),
        "rem" => v(x % y),
        "cadd" => o(x.checked_add(y)),
        "csub" => o(x.checked_sub(y)),
        "cmul" => o(x.checked_mul(y)),
        "cdiv" => o(x.checked_div(y)),
        "crem" => o(x.checked_rem(y)),
        "divr" => v(x.div_rounded(y, n)),
        "mulr" => v(x.mul_rounded(y, n)),
        "quant" => v(x.quantize(y)),
        "eq" => b(x == y),
        "ne" => b(x != y),
        "lt" => b(x < y),
        "le" => b(x <= y),
        "gt" => b(x > y),
        "ge" => b(x >= y),
        "cmp" => ord(x.cmp(&y)),
        "pcmp" => optord(x.partial_cmp(&y)),
        "min" => v(x.min(y)),
        "max" => v(x.max(y)),
        _ => "X".to_string(),
    }
}

macro_rules! di_body {
    ($t:ty, $op:expr, $x:expr, $iv:expr, $n:expr) => {{
        let x: Decimal = $x;
        let i: $t = $iv as $t;
        let n: u8 = $n;
        match $op {
            "add" => v(x + i),
            "sub" => v(x - i),
            "mul" => v(x * i),
            "div" => v(x / i),
            "rem" => v(x % i),
            "cadd" => o(x.checked_add(i)),
            "csub" => o(x.checked_sub(i)),
            "cmul" => o(x.checked_mul(i)),
            "cdiv" => o(x.checked_div(i)),
            "crem" => o(x.checked_rem(i)),
            "divr" => v(x.div_rounded(i, n)),
            "quant" => v(x.quantize(i)),
            "eq" => b(x == i),
            "ne" => b(x != i),
            "lt" => b(x < i),
            "le" => b(x <= i),
            "gt" => b(x > i),
            "ge" => b(x >= i),
            "pcmp" => optord(x.partial_cmp(&i)),
            _ => "X".to_string(),
        }
    }};
}
macro_rules! id_body {
    ($t:ty, $op:expr, $iv:expr, $y:expr, $n:expr) => {{
        let y: Decimal = $y;
        let i: $t = $iv as $t;
        let n: u8 = $n;
        match $op {
            "add" => v(i + y),
            "sub" => v(i - y),
            "mul" => v(i * y),
            "div" => v(i / y),
            "rem" => v(i % y),
            "cadd" => o(CheckedAdd::checked_add(i, y)),
            "csub" => o(CheckedSub::checked_sub(i, y)),
            "cmul" => o(CheckedMul::checked_mul(i, y)),
            "cdiv" => o(CheckedDiv::checked_div(i, y)),
            "crem" => o(CheckedRem::checked_rem(i, y)),
            "divr" => v(DivRounded::div_rounded(i, y, n)),
            "quant" => v(i.quantize(y)),
            "eq" => b(i == y),
            "ne" => b(i != y),
            "lt" => b(i < y),
            "le" => b(i <= y),
            "gt" => b(i > y),
            "ge" => b(i >= y),
            "pcmp" => optord(i.partial_cmp(&y)),
            _ => "X".to_string(),
        }
    }};
}
macro_rules! ii_body {
    ($t:ty, $op:expr, $iv:expr, $jv:expr, $n:expr) => {{
        let i: $t = $iv as $t;
        let j: $t = $jv as $t;
        let n: u8 = $n;
        match $op {
            "divr" => v(DivRounded::div_rounded(i, j, n)),
            "quant" => v(i.quantize(j)),
            _ => "X".to_string(),
        }
    }};
}
macro_rules! by_ty {
    ($ty:expr, $mac:ident, $($args:expr),*) => {
        match $ty {
            "u8" => $mac!(u8, $($args),*),
            "i8" => $mac!(i8, $($args),*),
            "u16" => $mac!(u16, $($args),*),
            "i16" => $mac!(i16, $($args),*),
            "u32" => $mac!(u32, $($args),*),
            "i32" => $mac!(i32, $($args),*),
            "u64" => $mac!(u64, $($args),*),
            "i64" => $mac!(i64, $($args),*),
            "i128" => $mac!(i128, $($args),*),
            _ => "X".to_string(),
        }
    };
}

macro_rules! toint_body {
    ($t:ty, $d:expr) => {{
        match <$t>::try_from($d) {
            Ok(i) => format!("I {}", h(i as i128)),
            Err(fpdec::TryFromDecimalError::NotAnIntValue) => "E notint".to_string(),
            Err(fpdec::TryFromDecimalError::ValueOutOfRange) => "E range".to_string(),
        }
    }};
}
macro_rules! fromint_body {
    ($t:ty, $iv:expr) => {{
        v(Decimal::from($iv as $t))
    }};
}

pub fn derr(e: fpdec::DecimalError) -> String {
    use fpdec::DecimalError::*;
    match e {
        MaxNFracDigitsExceeded => "E maxfrac",
        InternalOverflow => "E overflow",
        InfiniteValue => "E inf",
        NotANumber => "E nan",
        DivisionByZero => "E divzero",
    }
    .to_string()
}
fn perr(e: fpdec::ParseDecimalError) -> String {
    use fpdec::ParseDecimalError::*;
    match e {
        Empty => "E empty",
        Invalid => "E invalid",
        FracDigitLimitExceeded => "E fraclimit",
        InternalOverflow => "E poverflow",
    }
    .to_string()
}

pub fn hash_of<T: std::hash::Hash>(t: &T) -> u64 {
    use std::hash::Hasher;
    let mut s = std::collections::hash_map::DefaultHasher::new();
    t.hash(&mut s);
    s.finish()
}

fn un(op: &str, ty: &str, d: Decimal, a: &[&str]) -> String {
    match op {
        "round" => v(d.round(a[0].parse::<i8>().unwrap())),
        "cround" => o(d.checked_round(a[0].parse::<i8>().unwrap())),
        "floor" => v(d.floor()),
        "ceil" => v(d.ceil()),
        "trunc" => v(d.trunc()),
        "fract" => v(d.fract()),
        "abs" => v(d.abs()),
        "neg" => v(-d),
        "negref" => v(-&d),
        "mag" => format!("I {}", h(d.magnitude() as i128)),
        "iszero" => b(d.eq_zero()),
        "isone" => b(d.eq_one()),
        "isneg" => b(d.is_negative()),
        "ispos" => b(d.is_positive()),
        "ratio" => {
            let (n, m) = d.as_integer_ratio();
            let same = n == d.numerator() && m == d.denominator();
            let hs = hash_of(&d) == hash_of(&(n, m));
            format!("R {} {} {}", h(n), h(m), (same && hs) as u8)
        }
        "hash" => format!("I {}", hash_of(&d)),
        "tostring" => {
            let s1 = d.to_string();
            let s2 = String::from(d);
            let s3 = format!("{:?}", d);
            let inner = s3.strip_prefix("Dec!(").and_then(|t| t.strip_suffix(')')).unwrap_or("?");
            if s1 == s2 && s1 == inner {
                shex(&s1)
            } else {
                format!("S! {} {} {}", s1, s2, s3)
            }
        }
        "roundtrip" => match Decimal::from_str(&d.to_string()) {
            Ok(e) => v(e),
            Err(e) => perr(e),
        },
        "f64" => format!("F {:x}", f64::from(d).to_bits()),
        "f32" => format!("F {:x}", f32::from(d).to_bits()),
        "toint" => match ty {
            "u128" => toint_body!(u128, d),
            t => by_ty!(t, toint_body, d),
        },
        #[cfg(feature = "serde-as-str")]
        "serde" => {
            let j = serde_json::to_value(d).unwrap();
            let s = j.as_str().map(|s| s.to_string()).unwrap_or_else(|| "?".into());
            match serde_json::from_value::<Decimal>(j) {
                Ok(e) => format!("{} {}", shex(&s), v(e)),
                Err(_) => format!("{} E", shex(&s)),
            }
        }
        _ => "X".to_string(),
    }
}

fn run(line: &str) -> String {
    let t: Vec<&str> = line.split_whitespace().collect();
    if t.len() < 2 {
        return "X".to_string();
    }
    let m: usize = t[1].parse().unwrap_or(5);
    RoundingMode::set_default(MODES[m & 7]);
    if m >= 8 {
        // mode + 8: the same operation after another thread has chosen a different default mode and
        // switched back to the initial one; a per-thread default must not notice
        let other = MODES[(m + 3) & 7];
        std::thread::spawn(move || {
            RoundingMode::set_default(other);
            let _ = Decimal::new_raw(12345, 3).round(1);
            RoundingMode::set_default(RoundingMode::RoundHalfEven);
        })
        .join()
        .unwrap();
    }
    let mut parts = t[0].split('.');
    let fam = parts.next().unwrap_or("");
    let op = parts.next().unwrap_or("");
    let ty = parts.next().unwrap_or("");
    let a = &t[2..];
    let nn = |k: usize| -> u8 { a.get(k).map(|s| s.parse::<u8>().unwrap()).unwrap_or(0) };
    match fam {
        "dd" => dd(op, dec(a[0], a[1]), dec(a[2], a[3]), nn(4)),
        "di" => by_ty!(ty, di_body, op, dec(a[0], a[1]), hex(a[2]), nn(3)),
        "id" => by_ty!(ty, id_body, op, hex(a[0]), dec(a[1], a[2]), nn(3)),
        "ii" => by_ty!(ty, ii_body, op, hex(a[0]), hex(a[1]), nn(2)),
        "un" => un(op, ty, dec(a[0], a[1]), &a[2..]),
        "frm" => forms::run(op, ty, a),
        "ft" => feat::run(op, a),
        "thr" => forms::threads(op, a),
        "fl" => match op {
            "f64" => format!("F {:x}", f64::from(dec(a[0], a[1])).to_bits()),
            "f32" => format!("F {:x}", f32::from(dec(a[0], a[1])).to_bits()),
            "fromf64" => match Decimal::try_from(f64::from_bits(uhex(a[0]) as u64)) {
                Ok(d) => v(d),
                Err(e) => derr(e),
            },
            "fromf32" => match Decimal::try_from(f32::from_bits(uhex(a[0]) as u32)) {
                Ok(d) => v(d),
                Err(e) => derr(e),
            },
            "ratio" => {
                let d = dec(a[0], a[1]);
                let (n, m) = d.as_integer_ratio();
                let same = n == d.numerator() && m == d.denominator();
                let hs = hash_of(&d) == hash_of(&(n, m));
                if same && hs {
                    format!("Q {} {}", h(n), h(m))
                } else {
                    format!("X! ratio {} {} same={} hash={}", h(n), h(m), same, hs)
                }
            }
            // hash equality across two representations: B 1 iff (x == y) implies hash(x) == hash(y)
            "hasheq" => {
                let (x, y) = (dec(a[0], a[1]), dec(a[2], a[3]));
                let mut set = std::collections::HashSet::new();
                set.insert(x);
                let found = set.contains(&y);
                b(!(x == y) || (hash_of(&x) == hash_of(&y) && found))
            }
            _ => "X".to_string(),
        },
        "cv" => match op {
            "fromint" => by_ty!(ty, fromint_body, hex(a[0])),
            "fromu128" => match Decimal::try_from(uhex(a[0])) {
                Ok(d) => v(d),
                Err(e) => derr(e),
            },
            "fromf64" => match Decimal::try_from(f64::from_bits(uhex(a[0]) as u64)) {
                Ok(d) => v(d),
                Err(e) => derr(e),
            },
            "fromf32" => match Decimal::try_from(f32::from_bits(uhex(a[0]) as u32)) {
                Ok(d) => v(d),
                Err(e) => derr(e),
            },
            _ => "X".to_string(),
        },
        "str" if op == "tostring" || op == "roundtrip" => un(op, ty, dec(a[0], a[1]), &a[2..]),
        "str" => {
            let bytes = unhex_bytes(a[0]);
            let s = match String::from_utf8(bytes) {
                Ok(s) => s,
                Err(_) => return "X".to_string(),
            };
            match op {
                "parse" => {
                    let r1 = Decimal::from_str(&s);
                    let r2 = Decimal::try_from(s.as_str());
                    let r3 = Decimal::try_from(s.clone());
                    let r4 = s.parse::<Decimal>();
                    let f = |r: &Result<Decimal, fpdec::ParseDecimalError>| match r {
                        Ok(d) => v(*d),
                        Err(e) => perr(e.clone()),
                    };
                    let s1 = f(&r1);
                    if s1 == f(&r2) && s1 == f(&r3) && s1 == f(&r4) {
                        s1
                    } else {
                        format!("X! {} {} {} {}", s1, f(&r2), f(&r3), f(&r4))
                    }
                }
                "core" => match fpdec_core::str_to_dec(&s) {
                    Ok((c, e)) => format!("Q {} {}", h(c), h(e as i128)),
                    Err(e) => perr(e),
                },
                #[cfg(feature = "num-traits")]
                "radix" => {
                    let r = <Decimal as num_traits::Num>::from_str_radix(&s, a[1].parse().unwrap());
                    match r {
                        Ok(d) => v(d),
                        Err(e) => perr(e),
                    }
                }
                _ => "X".to_string(),
            }
        }
        "fmt" => {
            // fmt.<id> m <w|-> <p|-> c p
            let id: usize = op.parse().unwrap();
            let w = a[0].parse::<usize>().ok();
            let p = a[1].parse::<usize>().ok();
            if ty == "i" {
                shex(&fmt_table::fmt_int(id, w, hex(a[2])))
            } else {
                shex(&fmt_table::fmt_dec(id, w, p, dec(a[2], a[3])))
            }
        }
        "w" => match op {
            "sdmf" => match fpdec_core::i128_shifted_div_mod_floor(hex(a[0]), hex(a[1]) as u8, hex(a[2])) {
                Some((q, r)) => format!("Q {} {}", h(q), h(r)),
                None => "N".to_string(),
            },
            "i256" => match fpdec_core::i256_div_mod_floor(hex(a[0]), hex(a[1]), hex(a[2])) {
                Some((q, r)) => format!("Q {} {}", h(q), h(r)),
                None => "N".to_string(),
            },
            "divr" => format!("I {}", h(fpdec_core::i128_div_rounded(hex(a[0]), hex(a[1]), None))),
            "sdr" => match fpdec_core::i128_shifted_div_rounded(hex(a[0]), hex(a[1]) as u8, hex(a[2]), None) {
                Some(q) => format!("I {}", h(q)),
                None => "N".to_string(),
            },
            "mdr" => match fpdec_core::i128_mul_div_ten_pow_rounded(hex(a[0]), hex(a[1]), hex(a[2]) as u8, None) {
                Some(q) => format!("I {}", h(q)),
                None => "N".to_string(),
            },
            "dmf" => {
                let (q, r) = fpdec_core::i128_div_mod_floor(hex(a[0]), hex(a[1]));
                format!("Q {} {}", h(q), h(r))
            }
            "mag" => format!("I {}", h(fpdec_core::i128_magnitude(hex(a[0])) as i128)),
            // private kernels, reached through the cfg(fpdec_verif) hooks of fpdec-core
            "mulw" => {
                let (hi, lo) = fpdec_core::verif_hooks::u128_mul_u128(uhex(a[0]), uhex(a[1]));
                format!("Q {:x} {:x}", hi, lo)
            }
            "idiv" | "idiv64" | "idivs" => {
                let (xh, xl, y) = (uhex(a[0]), uhex(a[1]), uhex(a[2]));
                let (qh, ql, r) = match op {
                    "idiv" => fpdec_core::verif_hooks::u256_idiv_u128(xh, xl, y),
                    "idiv64" => fpdec_core::verif_hooks::u256_idiv_u64(xh, xl, y as u64),
                    _ => fpdec_core::verif_hooks::u256_idiv_u128_special(xh, xl, y),
                };
                if qh == 0 {
                    format!("Q {:x} {:x}", ql, r)
                } else {
                    format!("Q {:x}{:032x} {:x}", qh, ql, r)
                }
            }
            "msb" => format!("I {:x}", fpdec_core::verif_hooks::u128_msb(uhex(a[0]))),
            "lt5" => format!("I {:x}", fpdec_core::verif_hooks::less_than_5(uhex(a[0]) as u32)),
            "chd" => b(fpdec_core::verif_hooks::chunk_contains_8_digits(uhex(a[0]) as u64)),
            "chv" => format!("I {:x}", fpdec_core::verif_hooks::chunk_to_u64(uhex(a[0]) as u64)),
            "tenpow" => format!("I {}", h(fpdec_core::ten_pow(a[0].parse().unwrap()))),
            "mpt" => format!("I {}", h(fpdec_core::mul_pow_ten(hex(a[0]), a[1].parse().unwrap()))),
            "cmpt" => match fpdec_core::checked_mul_pow_ten(hex(a[0]), a[1].parse().unwrap()) {
                Some(q) => format!("I {}", h(q)),
                None => "N".to_string(),
            },
            _ => "X".to_string(),
        },
        _ => "X".to_string(),
    }
}

// A thread history is executed in a fresh child process, so that process-wide state
// (which the property says must not exist) starts from scratch for every history.
fn run_isolated(line: &str) -> String {
    let exe = match std::env::current_exe() {
        Ok(e) => e,
        Err(_) => return "X".to_string(),
    };
    match std::process::Command::new(exe).arg("--one").arg(line).output() {
        Ok(o) => String::from_utf8_lossy(&o.stdout).trim().to_string(),
        Err(_) => "X".to_string(),
    }
}

fn main() {
    std::panic::set_hook(Box::new(|_| {}));
    let args: Vec<String> = std::env::args().collect();
    if args.len() > 2 && args[1] == "--one" {
        let line = args[2].clone();
        let r = catch_unwind(AssertUnwindSafe(|| run(&line)));
        println!("{}", r.unwrap_or_else(|_| "P".to_string()));
        return;
    }
    let stdin = std::io::stdin();
    let out = std::io::stdout();
    let mut out = BufWriter::new(out.lock());
    for line in stdin.lock().lines() {
        let line = line.unwrap();
        if line.is_empty() || line.starts_with('#') {
            writeln!(out, "#").unwrap();
            continue;
        }
        if line.starts_with("thr.") {
            writeln!(out, "{}", run_isolated(&line)).unwrap();
            continue;
        }
        let r = catch_unwind(AssertUnwindSafe(|| run(&line)));
        match r {
            Ok(s) => writeln!(out, "{}", s).unwrap(),
            Err(_) => writeln!(out, "P").unwrap(),
        }
    }
}
