// Feature-gated parts of the crate (serde-as-str, rkyv, num-traits): each operation
// compares, inside the harness, the feature's API with the plain API that the model
// covers, and answers "B 1" when they agree ("B 0 <detail>" otherwise, "X" when the
// harness was built without the feature).
//
//   ft.serde    m c p            serialize = to_string, deserialize(serialize d) = d (coefficient and scale)
//   ft.serdestr m <hex str>      deserialize(JSON string s) = from_str(s)  (Ok value / any error)
//   ft.rkyv     m c1 p1 c2 p2    archive, validate, deserialize = identity; archived accessors;
//                                ==, partial_cmp, cmp between archived/archived, archived/Decimal,
//                                Decimal/archived = the Decimal results; Debug text
//   ft.nt       m c1 p1 c2 p2    Zero / One / Signed methods against the inherent ones
//   ft.radix    m <hex str> r    from_str_radix = from_str for radix 10, Invalid otherwise
#![allow(unused_variables, unused_imports, dead_code)]
use crate::{b, dec, h, hex, unhex_bytes, v};
use fpdec::Decimal;
use std::str::FromStr;

fn bad(what: &str, detail: String) -> String {
    format!("B 0 {} {}", what, detail.replace(' ', "_"))
}

fn same(a: Decimal, b_: Decimal) -> bool {
    a.coefficient() == b_.coefficient() && a.n_frac_digits() == b_.n_frac_digits()
}

#[cfg(feature = "serde-as-str")]
fn serde_op(d: Decimal) -> String {
    let j = match serde_json::to_value(d) {
        Ok(j) => j,
        Err(e) => return bad("serialize", e.to_string()),
    };
    let s = match j.as_str() {
        Some(s) => s.to_string(),
        None => return bad("not-a-string", j.to_string()),
    };
    if s != d.to_string() {
        return bad("text", format!("{}!={}", s, d));
    }
    // also through the textual JSON form
    let txt = serde_json::to_string(&d).unwrap_or_default();
    if txt != format!("\"{}\"", d) {
        return bad("json-text", txt);
    }
    match serde_json::from_value::<Decimal>(j) {
        Ok(e) if same(d, e) => {}
        Ok(e) => return bad("roundtrip", v(e)),
        Err(e) => return bad("deserialize", e.to_string()),
    }
    match serde_json::from_str::<Decimal>(&txt) {
        Ok(e) if same(d, e) => b(true),
        Ok(e) => bad("roundtrip-text", v(e)),
        Err(e) => bad("deserialize-text", e.to_string()),
    }
}

#[cfg(feature = "serde-as-str")]
fn serdestr_op(bytes: &[u8]) -> String {
    let s = match std::str::from_utf8(bytes) {
        Ok(s) => s.to_string(),
        Err(_) => return b(true), // not a &str: outside the domain
    };
    let a = serde_json::from_value::<Decimal>(serde_json::Value::String(s.clone()));
    let r = Decimal::from_str(&s);
    match (a, r) {
        (Ok(x), Ok(y)) if same(x, y) => b(true),
        (Err(_), Err(_)) => b(true),
        (a, r) => bad("serdestr", format!("{:?}/{:?}", a.map(v).map_err(|e| e.to_string()), r.map(v))),
    }
}

#[cfg(feature = "rkyv")]
fn rkyv_op(d1: Decimal, d2: Decimal) -> String {
    use rkyv::Deserialize;
    let b1 = match rkyv::to_bytes::<_, 256>(&d1) {
        Ok(x) => x,
        Err(e) => return bad("to_bytes", format!("{:?}", e)),
    };
    let b2 = rkyv::to_bytes::<_, 256>(&d2).unwrap();
    let a1 = match rkyv::check_archived_root::<Decimal>(&b1[..]) {
        Ok(a) => a,
        Err(e) => return bad("check", format!("{:?}", e)),
    };
    let a2 = rkyv::check_archived_root::<Decimal>(&b2[..]).unwrap();
    let r1: Decimal = a1.deserialize(&mut rkyv::Infallible).unwrap();
    if !same(r1, d1) {
        return bad("identity", v(r1));
    }
    let (ac, ap) = ((*a1).coefficient(), (*a1).n_frac_digits());
    if ac != d1.coefficient() || ap != d1.n_frac_digits() {
        return bad("accessors", format!("{} {}", h(ac), ap));
    }
    // comparisons: archived values compare like the values they were made from
    macro_rules! chk {
        ($name:expr, $x:expr, $y:expr) => {
            if ($x) != ($y) {
                return bad($name, format!("{:?}!={:?}", $x, $y));
            }
        };
    }
    chk!("aa.eq", *a1 == *a2, d1 == d2);
    chk!("aa.ne", *a1 != *a2, d1 != d2);
    chk!("aa.pcmp", a1.partial_cmp(a2), d1.partial_cmp(&d2));
    chk!("aa.cmp", Some(a1.cmp(a2)), d1.partial_cmp(&d2));
    chk!("aa.lt", *a1 < *a2, d1 < d2);
    chk!("aa.le", *a1 <= *a2, d1 <= d2);
    chk!("aa.gt", *a1 > *a2, d1 > d2);
    chk!("aa.ge", *a1 >= *a2, d1 >= d2);
    chk!("ad.eq", *a1 == d2, d1 == d2);
    chk!("ad.pcmp", a1.partial_cmp(&d2), d1.partial_cmp(&d2));
    chk!("ad.lt", *a1 < d2, d1 < d2);
    chk!("ad.ge", *a1 >= d2, d1 >= d2);
    chk!("da.eq", d1 == *a2, d1 == d2);
    chk!("da.pcmp", d1.partial_cmp(a2), d1.partial_cmp(&d2));
    chk!("da.le", d1 <= *a2, d1 <= d2);
    chk!("da.gt", d1 > *a2, d1 > d2);
    chk!("a.eq_zero", a1.eq_zero(), d1.eq_zero());
    chk!("a.eq_one", a1.eq_one(), d1.eq_one());
    chk!("a.is_negative", a1.is_negative(), d1.is_negative());
    chk!("a.is_positive", a1.is_positive(), d1.is_positive());
    let dbg = format!("{:?}", *a1);
    let want = format!("{:?}", d1).replacen("Dec!", "ArchivedDecimal", 1);
    if dbg != want {
        return bad("debug", format!("{}!={}", dbg, want));
    }
    b(true)
}

#[cfg(feature = "num-traits")]
fn nt_op(x: Decimal, y: Decimal) -> String {
    use num_traits::{One, Signed, Zero};
    macro_rules! chk {
        ($name:expr, $x:expr, $y:expr) => {
            if ($x) != ($y) {
                return bad($name, format!("{:?}!={:?}", $x, $y));
            }
        };
    }
    chk!("is_zero", Zero::is_zero(&x), x.eq_zero());
    chk!("is_one", One::is_one(&x), x.eq_one());
    if !same(<Decimal as Zero>::zero(), Decimal::ZERO) || !same(<Decimal as One>::one(), Decimal::ONE) {
        return bad("consts", String::new());
    }
    chk!("is_positive", Signed::is_positive(&x), x.is_positive());
    chk!("is_negative", Signed::is_negative(&x), x.is_negative());
    // abs: same as the inherent abs, value |x|, scale kept
    let a = Signed::abs(&x);
    if !same(a, x.abs()) || a.coefficient() != x.coefficient().abs() || a.n_frac_digits() != x.n_frac_digits() {
        return bad("abs", v(a));
    }
    // signum in {-1, 0, 1} by the sign of the value
    let s = Signed::signum(&x);
    let want = if x.coefficient() > 0 { 1 } else if x.coefficient() < 0 { -1 } else { 0 };
    if s != Decimal::from(want as i32) {
        return bad("signum", v(s));
    }
    // abs_sub = max(x - y, 0): compare with the subtraction operator's own outcome
    let sub = std::panic::catch_unwind(|| x - y);
    let asub = std::panic::catch_unwind(|| Signed::abs_sub(&x, &y));
    if x <= y {
        match asub {
            Ok(z) if z.eq_zero() => {}
            Ok(z) => return bad("abs_sub.le", v(z)),
            Err(_) => return bad("abs_sub.le", "panic".into()),
        }
    } else {
        match (asub, sub) {
            (Ok(z), Ok(w)) if z == w => {}
            (Err(_), Err(_)) => {}
            (a, s) => return bad("abs_sub.gt", format!("{:?}/{:?}", a.map(v).ok(), s.map(v).ok())),
        }
    }
    b(true)
}

#[cfg(feature = "num-traits")]
fn radix_op(bytes: &[u8], radix: u32) -> String {
    use num_traits::Num;
    let s = match std::str::from_utf8(bytes) {
        Ok(s) => s.to_string(),
        Err(_) => return b(true),
    };
    let r = <Decimal as Num>::from_str_radix(&s, radix);
    if radix != 10 {
        return match r {
            Err(fpdec::ParseDecimalError::Invalid) => b(true),
            other => bad("radix", format!("{:?}", other.map(v))),
        };
    }
    match (r, Decimal::from_str(&s)) {
        (Ok(x), Ok(y)) if same(x, y) => b(true),
        (Err(e), Err(f)) if e == f => b(true),
        (a, c) => bad("radix10", format!("{:?}/{:?}", a.map(v), c.map(v))),
    }
}

pub fn run(op: &str, a: &[&str]) -> String {
    match op {
        #[cfg(feature = "serde-as-str")]
        "serde" => serde_op(dec(a[0], a[1])),
        #[cfg(feature = "serde-as-str")]
        "serdestr" => serdestr_op(&unhex_bytes(a[0])),
        #[cfg(feature = "rkyv")]
        "rkyv" => rkyv_op(dec(a[0], a[1]), dec(a[2], a[3])),
        #[cfg(feature = "num-traits")]
        "nt" => nt_op(dec(a[0], a[1]), dec(a[2], a[3])),
        #[cfg(feature = "num-traits")]
        "radix" => radix_op(&unhex_bytes(a[0]), a[1].parse().unwrap_or(10)),
        _ => "X".to_string(),
    }
}
