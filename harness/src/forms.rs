// C17: every by-reference / compound-assignment form of every operator against its
// by-value form, and every integer-operand form against the Decimal::from(i) form.
// C19: thread histories (forced interleaving and free-running).
#![allow(clippy::all)]
use std::panic::{catch_unwind, AssertUnwindSafe};
use std::sync::mpsc;

use fpdec::{
    CheckedAdd, CheckedDiv, CheckedMul, CheckedRem, CheckedSub, Decimal, DivRounded, MulRounded,
    Quantize, Round, RoundingMode,
};

use crate::{dec, h, hex, o, v, MODES};

fn guard<F: FnOnce() -> String>(f: F) -> String {
    match catch_unwind(AssertUnwindSafe(f)) {
        Ok(s) => s,
        Err(_) => "P".to_string(),
    }
}

fn all_same(base: &str, others: &[String]) -> String {
    for (k, s) in others.iter().enumerate() {
        if s != base {
            return format!("X! form{} {} vs {}", k, s, base);
        }
    }
    "B 1".to_string()
}

// value-level agreement of an integer form with the Decimal::from(i) form (C17)
fn agree(op: &str, int_form: &str, dec_form: &str, one_involved: bool) -> String {
    let pi: Vec<&str> = int_form.split_whitespace().collect();
    let pd: Vec<&str> = dec_form.split_whitespace().collect();
    let ok = match (pi[0], pd[0]) {
        ("V", "V") => {
            let (ci, ni) = (hex(pi[1]), pi[2].parse::<u32>().unwrap());
            let (cd, nd) = (hex(pd[1]), pd[2].parse::<u32>().unwrap());
            let same_value = Decimal::new_raw(ci, ni.min(18) as u8) == Decimal::new_raw(cd, nd.min(18) as u8)
                && ni <= 18
                && nd <= 18;
            let same_scale = ni == nd;
            match op {
                "add" | "sub" | "cadd" | "csub" => same_value && same_scale,
                _ => same_value,
            }
        }
        ("P", "P") | ("N", "N") => true,
        // only the Decimal/Decimal form of `*` short-cuts an operand equal to one
        ("P", "V") | ("N", "V") => (op == "mul" || op == "cmul" || op == "quant") && one_involved,
        ("B", "B") | ("O", "O") => int_form == dec_form,
        _ => false,
    };
    if ok {
        "B 1".to_string()
    } else {
        format!("X! int {} vs dec {}", int_form, dec_form)
    }
}

macro_rules! dd_forms {
    ($x:expr, $y:expr, $opv:expr, $opr:tt, $asg:tt) => {{
        let (x, y): (Decimal, Decimal) = ($x, $y);
        let base = guard(|| v(x $opr y));
        let others = vec![
            guard(|| v(&x $opr y)),
            guard(|| v(x $opr &y)),
            guard(|| v(&x $opr &y)),
            guard(|| { let mut z = x; z $asg y; v(z) }),
            guard(|| { let mut z = x; z $asg &y; v(z) }),
        ];
        all_same(&base, &others)
    }};
}
macro_rules! dd_checked {
    ($x:expr, $y:expr, $tr:ident, $m:ident) => {{
        let (x, y): (Decimal, Decimal) = ($x, $y);
        let base = guard(|| o($tr::$m(x, y)));
        let others = vec![
            guard(|| o($tr::$m(&x, y))),
            guard(|| o($tr::$m(x, &y))),
            guard(|| o($tr::$m(&x, &y))),
        ];
        all_same(&base, &others)
    }};
}

fn dd_frm(op: &str, x: Decimal, y: Decimal, n: u8) -> String {
    match op {
        "add" => dd_forms!(x, y, "add", +, +=),
        "sub" => dd_forms!(x, y, "sub", -, -=),
        "mul" => dd_forms!(x, y, "mul", *, *=),
        "div" => dd_forms!(x, y, "div", /, /=),
        "rem" => dd_forms!(x, y, "rem", %, %=),
        "cadd" => dd_checked!(x, y, CheckedAdd, checked_add),
        "csub" => dd_checked!(x, y, CheckedSub, checked_sub),
        "cmul" => dd_checked!(x, y, CheckedMul, checked_mul),
        "cdiv" => dd_checked!(x, y, CheckedDiv, checked_div),
        "crem" => dd_checked!(x, y, CheckedRem, checked_rem),
        "divr" => {
            let base = guard(|| v(x.div_rounded(y, n)));
            let others = vec![
                guard(|| v((&x).div_rounded(y, n))),
                guard(|| v(x.div_rounded(&y, n))),
                guard(|| v((&x).div_rounded(&y, n))),
            ];
            all_same(&base, &others)
        }
        "mulr" => {
            let base = guard(|| v(x.mul_rounded(y, n)));
            let others = vec![
                guard(|| v((&x).mul_rounded(y, n))),
                guard(|| v(x.mul_rounded(&y, n))),
                guard(|| v((&x).mul_rounded(&y, n))),
            ];
            all_same(&base, &others)
        }
        "quant" => {
            let base = guard(|| v(x.quantize(y)));
            let others = vec![guard(|| v((&x).quantize(y)))];
            all_same(&base, &others)
        }
        "eq" => {
            let base = format!("B {}", (x == y) as u8);
            let others = vec![format!("B {}", (&x == &y) as u8), format!("B {}", !(x != y) as u8)];
            all_same(&base, &others)
        }
        "lt" => {
            let base = format!("B {}", (x < y) as u8);
            let others = vec![format!("B {}", (&x < &y) as u8), format!("B {}", (y > x) as u8)];
            all_same(&base, &others)
        }
        _ => "X".to_string(),
    }
}

macro_rules! di_forms {
    ($t:ty, $x:expr, $i:expr, $opr:tt, $asg:tt, $name:expr) => {{
        let x: Decimal = $x;
        let i: $t = $i;
        let base = guard(|| v(x $opr i));
        let others = vec![
            guard(|| v(&x $opr i)),
            guard(|| v(x $opr &i)),
            guard(|| v(&x $opr &i)),
            guard(|| { let mut z = x; z $asg i; v(z) }),
        ];
        let r = all_same(&base, &others);
        if r != "B 1" { r } else {
            let d = guard(|| v(x $opr Decimal::from(i)));
            agree($name, &base, &d, x.eq_one() || i == 1)
        }
    }};
}
macro_rules! id_forms {
    ($t:ty, $i:expr, $y:expr, $opr:tt, $name:expr) => {{
        let y: Decimal = $y;
        let i: $t = $i;
        let base = guard(|| v(i $opr y));
        let others = vec![
            guard(|| v(&i $opr y)),
            guard(|| v(i $opr &y)),
            guard(|| v(&i $opr &y)),
        ];
        let r = all_same(&base, &others);
        if r != "B 1" { r } else {
            let d = guard(|| v(Decimal::from(i) $opr y));
            agree($name, &base, &d, y.eq_one() || i == 1)
        }
    }};
}
macro_rules! di_checked {
    ($t:ty, $x:expr, $i:expr, $tr:ident, $m:ident, $name:expr) => {{
        let x: Decimal = $x;
        let i: $t = $i;
        let base = guard(|| o($tr::$m(x, i)));
        let others = vec![
            guard(|| o($tr::$m(&x, i))),
            guard(|| o($tr::$m(x, &i))),
            guard(|| o($tr::$m(&x, &i))),
        ];
        let r = all_same(&base, &others);
        if r != "B 1" { r } else {
            let d = guard(|| o($tr::$m(x, Decimal::from(i))));
            agree($name, &base, &d, x.eq_one() || i == 1)
        }
    }};
}
macro_rules! id_checked {
    ($t:ty, $i:expr, $y:expr, $tr:ident, $m:ident, $name:expr) => {{
        let y: Decimal = $y;
        let i: $t = $i;
        let base = guard(|| o($tr::$m(i, y)));
        let others = vec![
            guard(|| o($tr::$m(&i, y))),
            guard(|| o($tr::$m(i, &y))),
            guard(|| o($tr::$m(&i, &y))),
        ];
        let r = all_same(&base, &others);
        if r != "B 1" { r } else {
            let d = guard(|| o($tr::$m(Decimal::from(i), y)));
            agree($name, &base, &d, y.eq_one() || i == 1)
        }
    }};
}

macro_rules! di_frm_body {
    ($t:ty, $op:expr, $x:expr, $iv:expr, $n:expr) => {{
        let x: Decimal = $x;
        let i: $t = $iv as $t;
        let n: u8 = $n;
        match $op {
            "add" => di_forms!($t, x, i, +, +=, "add"),
            "sub" => di_forms!($t, x, i, -, -=, "sub"),
            "mul" => di_forms!($t, x, i, *, *=, "mul"),
            "div" => di_forms!($t, x, i, /, /=, "div"),
            "rem" => di_forms!($t, x, i, %, %=, "rem"),
            "cadd" => di_checked!($t, x, i, CheckedAdd, checked_add, "cadd"),
            "csub" => di_checked!($t, x, i, CheckedSub, checked_sub, "csub"),
            "cmul" => di_checked!($t, x, i, CheckedMul, checked_mul, "cmul"),
            "cdiv" => di_checked!($t, x, i, CheckedDiv, checked_div, "cdiv"),
            "crem" => di_checked!($t, x, i, CheckedRem, checked_rem, "crem"),
            "divr" => {
                let base = guard(|| v(x.div_rounded(i, n)));
                let others = vec![
                    guard(|| v((&x).div_rounded(i, n))),
                    guard(|| v(x.div_rounded(&i, n))),
                    guard(|| v((&x).div_rounded(&i, n))),
                ];
                let r = all_same(&base, &others);
                if r != "B 1" { r } else {
                    let d = guard(|| v(x.div_rounded(Decimal::from(i), n)));
                    agree("divr", &base, &d, false)
                }
            }
            "quant" => {
                let base = guard(|| v(x.quantize(i)));
                let d = guard(|| v(x.quantize(Decimal::from(i))));
                agree("quant", &base, &d, x.eq_one() || i == 1)
            }
            "eq" => {
                let base = format!("B {}", (x == i) as u8);
                let d = format!("B {}", (x == Decimal::from(i)) as u8);
                let e = format!("B {}", !(x != i) as u8);
                if base == e { agree("eq", &base, &d, false) } else { format!("X! eq/ne {} {}", base, e) }
            }
            "lt" => {
                let base = format!("B {}", (x < i) as u8);
                let d = format!("B {}", (x < Decimal::from(i)) as u8);
                let e = format!("B {}", (i > x) as u8);
                if base == e { agree("lt", &base, &d, false) } else { format!("X! lt/gt {} {}", base, e) }
            }
            _ => "X".to_string(),
        }
    }};
}
macro_rules! id_frm_body {
    ($t:ty, $op:expr, $iv:expr, $y:expr, $n:expr) => {{
        let y: Decimal = $y;
        let i: $t = $iv as $t;
        let n: u8 = $n;
        match $op {
            "add" => id_forms!($t, i, y, +, "add"),
            "sub" => id_forms!($t, i, y, -, "sub"),
            "mul" => id_forms!($t, i, y, *, "mul"),
            "div" => id_forms!($t, i, y, /, "div"),
            "rem" => id_forms!($t, i, y, %, "rem"),
            "cadd" => id_checked!($t, i, y, CheckedAdd, checked_add, "cadd"),
            "csub" => id_checked!($t, i, y, CheckedSub, checked_sub, "csub"),
            "cmul" => id_checked!($t, i, y, CheckedMul, checked_mul, "cmul"),
            "cdiv" => id_checked!($t, i, y, CheckedDiv, checked_div, "cdiv"),
            "crem" => id_checked!($t, i, y, CheckedRem, checked_rem, "crem"),
            "divr" => {
                let base = guard(|| v(DivRounded::div_rounded(i, y, n)));
                let others = vec![
                    guard(|| v(DivRounded::div_rounded(&i, y, n))),
                    guard(|| v(DivRounded::div_rounded(i, &y, n))),
                    guard(|| v(DivRounded::div_rounded(&i, &y, n))),
                ];
                let r = all_same(&base, &others);
                if r != "B 1" { r } else {
                    let d = guard(|| v(Decimal::from(i).div_rounded(y, n)));
                    agree("divr", &base, &d, false)
                }
            }
            "quant" => {
                let base = guard(|| v(i.quantize(y)));
                let d = guard(|| v(Decimal::from(i).quantize(y)));
                agree("quant", &base, &d, y.eq_one() || i == 1)
            }
            "eq" => {
                let base = format!("B {}", (i == y) as u8);
                let d = format!("B {}", (Decimal::from(i) == y) as u8);
                agree("eq", &base, &d, false)
            }
            "lt" => {
                let base = format!("B {}", (i < y) as u8);
                let d = format!("B {}", (Decimal::from(i) < y) as u8);
                agree("lt", &base, &d, false)
            }
            _ => "X".to_string(),
        }
    }};
}
macro_rules! ii_frm_body {
    ($t:ty, $op:expr, $iv:expr, $jv:expr, $n:expr) => {{
        let i: $t = $iv as $t;
        let j: $t = $jv as $t;
        let n: u8 = $n;
        match $op {
            "divr" => {
                let base = guard(|| v(DivRounded::div_rounded(i, j, n)));
                let others = vec![
                    guard(|| v(DivRounded::div_rounded(&i, j, n))),
                    guard(|| v(DivRounded::div_rounded(i, &j, n))),
                    guard(|| v(DivRounded::div_rounded(&i, &j, n))),
                ];
                let r = all_same(&base, &others);
                if r != "B 1" { r } else {
                    let d = guard(|| v(Decimal::from(i).div_rounded(Decimal::from(j), n)));
                    agree("divr", &base, &d, false)
                }
            }
            "quant" => {
                let base = guard(|| v(i.quantize(j)));
                let d = guard(|| v(Decimal::from(i).quantize(Decimal::from(j))));
                agree("quant", &base, &d, i == 1 || j == 1)
            }
            _ => "X".to_string(),
        }
    }};
}
macro_rules! by_ty {
    ($ty:expr, $mac:ident, $($args:expr),*) => {
        match $ty {
            "u8" => $mac!(u8, $($args),*),
            "i8" => $mac!(i8, $($args),*),
            "u16" => $mac!(u16, $($args),*),
            "i16" => $mac!(i16, $($args),*),
            "u32" => $mac!(u32, $($args),*),
            "i32" => $mac!(i32, $($args),*),
            "u64" => $mac!(u64, $($args),*),
            "i64" => $mac!(i64, $($args),*),
            "i128" => $mac!(i128, $($args),*),
            _ => "X".to_string(),
        }
    };
}

// frm.<shape>_<op>[.<ty>] m args...   shape in dd di id ii
pub fn run(op: &str, ty: &str, a: &[&str]) -> String {
    let mut it = op.splitn(2, '_');
    let shape = it.next().unwrap_or("");
    let op = it.next().unwrap_or("");
    let nn = |k: usize| -> u8 { a.get(k).map(|s| s.parse::<u8>().unwrap()).unwrap_or(0) };
    match shape {
        "dd" => dd_frm(op, dec(a[0], a[1]), dec(a[2], a[3]), nn(4)),
        "di" => by_ty!(ty, di_frm_body, op, dec(a[0], a[1]), hex(a[2]), nn(3)),
        "id" => by_ty!(ty, id_frm_body, op, hex(a[0]), dec(a[1], a[2]), nn(3)),
        "ii" => by_ty!(ty, ii_frm_body, op, hex(a[0]), hex(a[1]), nn(2)),
        _ => "X".to_string(),
    }
}

// ---------------------------------------------------------------- C19
#[derive(Clone)]
enum Ev {
    Set(usize),
    Get,
    Round(Decimal, i8),
    DivR(Decimal, Decimal, u8),
    Mul(Decimal, Decimal),
    Div(Decimal, Decimal),
    MulR(Decimal, Decimal, u8),
    Fmt(Decimal, usize),
}

fn mode_index(m: RoundingMode) -> i128 {
    MODES.iter().position(|x| *x == m).unwrap() as i128
}

fn obs_dec<F: FnOnce() -> Decimal>(f: F) -> Vec<i128> {
    match catch_unwind(AssertUnwindSafe(f)) {
        Ok(d) => vec![1, d.coefficient(), d.n_frac_digits() as i128],
        Err(_) => vec![2],
    }
}

fn exec(e: &Ev) -> Vec<i128> {
    match e {
        Ev::Set(m) => {
            RoundingMode::set_default(MODES[*m & 7]);
            vec![]
        }
        Ev::Get => vec![100 + mode_index(RoundingMode::default())],
        Ev::Round(d, n) => obs_dec(|| d.round(*n)),
        Ev::DivR(x, y, n) => obs_dec(|| x.div_rounded(*y, *n)),
        Ev::Mul(x, y) => obs_dec(|| *x * *y),
        Ev::Div(x, y) => obs_dec(|| *x / *y),
        Ev::MulR(x, y, n) => obs_dec(|| x.mul_rounded(*y, *n)),
        Ev::Fmt(d, p) => match catch_unwind(AssertUnwindSafe(|| format!("{:.p$}", d, p = *p))) {
            Ok(s) => {
                let mut v = vec![3, s.len() as i128];
                v.extend(s.bytes().map(|b| b as i128));
                v
            }
            Err(_) => vec![2],
        },
    }
}

fn parse_events(a: &[&str]) -> Vec<(usize, Ev)> {
    let mut evs = vec![];
    for tok in a {
        let kind = tok.as_bytes()[0] as char;
        let body = &tok[1..];
        let f: Vec<&str> = body.split(':').collect();
        let (t, e) = match kind {
            'S' => {
                let p: Vec<&str> = body.split('=').collect();
                (p[0].parse().unwrap(), Ev::Set(p[1].parse().unwrap()))
            }
            'G' => (body.parse().unwrap(), Ev::Get),
            'R' => (f[0].parse().unwrap(), Ev::Round(dec(f[1], f[2]), f[3].parse().unwrap())),
            'D' => (f[0].parse().unwrap(), Ev::DivR(dec(f[1], f[2]), dec(f[3], f[4]), f[5].parse().unwrap())),
            'M' => (f[0].parse().unwrap(), Ev::Mul(dec(f[1], f[2]), dec(f[3], f[4]))),
            'V' => (f[0].parse().unwrap(), Ev::Div(dec(f[1], f[2]), dec(f[3], f[4]))),
            'U' => (f[0].parse().unwrap(), Ev::MulR(dec(f[1], f[2]), dec(f[3], f[4]), f[5].parse().unwrap())),
            'F' => (f[0].parse().unwrap(), Ev::Fmt(dec(f[1], f[2]), f[3].parse().unwrap())),
            _ => panic!("event"),
        };
        evs.push((t, e));
    }
    evs
}

fn render(obs: &[(usize, Vec<i128>)]) -> String {
    let mut parts: Vec<String> = vec![];
    for (t, o) in obs {
        if o.is_empty() {
            continue;
        }
        parts.push(h(200 + *t as i128));
        for x in o {
            parts.push(h(*x));
        }
    }
    if parts.is_empty() {
        "L -".to_string()
    } else {
        format!("L {}", parts.join(","))
    }
}

// forced: real threads, one event at a time in history order (hand-shake over channels)
// free:   the same per-thread programs run concurrently without synchronisation
/// thr.crowd m N: N threads each select mode m (given in the mode field of the line: the main thread's
/// mode is irrelevant here), wait on a barrier until all of them hold it, and then every one must still
/// see the mode it has set itself - in `default()` and in a rounding operation. Answers "B 1".
pub fn crowd(m: usize, n: usize) -> String {
    use std::sync::{Arc, Barrier};
    let mode = crate::MODES[m & 7];
    let barrier = Arc::new(Barrier::new(n));
    let want = {
        RoundingMode::set_default(mode);
        let r = Decimal::new_raw(12345, 3).round(1);
        RoundingMode::set_default(RoundingMode::RoundHalfEven);
        (r.coefficient(), r.n_frac_digits())
    };
    let mut hs = vec![];
    for _ in 0..n {
        let b = barrier.clone();
        hs.push(std::thread::Builder::new().stack_size(64 * 1024).spawn(move || {
            RoundingMode::set_default(mode);
            b.wait();
            let seen = RoundingMode::default();
            let r = Decimal::new_raw(12345, 3).round(1);
            b.wait();
            (seen == mode, (r.coefficient(), r.n_frac_digits()))
        }));
    }
    let mut ok = true;
    for h in hs {
        match h {
            Ok(j) => match j.join() {
                Ok((s, r)) => ok &= s && r == want,
                Err(_) => ok = false,
            },
            Err(_) => return "X spawn".to_string(),
        }
    }
    crate::b(ok)
}

pub fn threads(mode: &str, a: &[&str]) -> String {
    if mode == "crowd" {
        return crowd(a[0].parse().unwrap_or(7), a[1].parse().unwrap_or(2));
    }
    let evs = parse_events(a);
    let n = evs.iter().map(|(t, _)| *t).max().map(|m| m + 1).unwrap_or(0);
    if mode == "forced" {
        let mut txs = vec![];
        let (otx, orx) = mpsc::channel::<Vec<i128>>();
        let mut handles = vec![];
        for _ in 0..n {
            let (tx, rx) = mpsc::channel::<Option<Ev>>();
            let otx = otx.clone();
            handles.push(std::thread::spawn(move || {
                while let Ok(Some(e)) = rx.recv() {
                    let o = exec(&e);
                    otx.send(o).unwrap();
                }
            }));
            txs.push(tx);
        }
        let mut obs = vec![];
        for (t, e) in &evs {
            txs[*t].send(Some(e.clone())).unwrap();
            obs.push((*t, orx.recv().unwrap()));
        }
        for tx in &txs {
            let _ = tx.send(None);
        }
        for hd in handles {
            let _ = hd.join();
        }
        render(&obs)
    } else {
        let barrier = std::sync::Arc::new(std::sync::Barrier::new(n.max(1)));
        let mut handles = vec![];
        for t in 0..n {
            let mine: Vec<Ev> = evs.iter().filter(|(tt, _)| *tt == t).map(|(_, e)| e.clone()).collect();
            let b = barrier.clone();
            handles.push(std::thread::spawn(move || {
                b.wait();
                let mut out = vec![];
                for e in &mine {
                    out.push(exec(e));
                    std::thread::yield_now();
                }
                out
            }));
        }
        let mut per: Vec<std::collections::VecDeque<Vec<i128>>> = handles.into_iter().map(|hd| hd.join().unwrap().into()).collect();
        let mut obs = vec![];
        for (t, _) in &evs {
            obs.push((*t, per[*t].pop_front().unwrap()));
        }
        render(&obs)
    }
}
