// C17: every reference / assign form of every operator; C19: thread histories.
pub fn run(_op: &str, _ty: &str, _a: &[&str]) -> String {
    "X".to_string()
}
pub fn threads_main(_args: &[String]) {}
