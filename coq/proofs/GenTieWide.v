(* GenTieWide.v — part of the tie between the translated source (gen/GenCore.v, regenerated from /repo by tools/rs2v.py on
   every run) and the hand-written model: the 256-bit helpers (u128_msb, u128_mul_u128, u256_idiv_*, i128_shifted_div_mod_floor, i256_div_mod_floor). *)
From FP Require Import Machine SrcConsts Pow10 WideDiv GenCore MachineFacts WideDivFacts GenTieTac GenTiePow.
From FP Require Import KernelContract WideMulFacts.

Lemma tie_u128_hi pf u : g_u128_hi pf u = Val (u128_hi u).
Proof. reflexivity. Qed.
Lemma tie_u128_lo pf u : g_u128_lo pf u = Val (u128_lo u).
Proof. reflexivity. Qed.

Lemma tie_u128_mul_u128 pf x y : g_u128_mul_u128 pf x y = u128_mul_u128 pf x y.
Proof. reflexivity. Qed.

(* ---- u128_msb: the translated mask cascade uses checked u8 additions and `as usize`, the model plain ones *)
Lemma usz j : 0 <= j < 2 ^ 64 -> in_range Usize j = true.
Proof. intros H. apply in_range_iff. change (tmin Usize) with 0. change (tmax Usize) with (2 ^ 64 - 1). lia. Qed.
Lemma shr_lt j k : 0 <= j < 2 ^ 64 -> 0 <= k -> 0 <= Z.shiftr j k < 2 ^ 64.
Proof.
  intros Hj Hk. rewrite Z.shiftr_div_pow2 by lia.
  pose proof (Z.pow_pos_nonneg 2 k ltac:(lia) Hk). split; [apply Z.div_pos; lia|].
  apply Z.div_lt_upper_bound; [lia|]. nia.
Qed.
Lemma land_hi_zero i : 0 <= i < 2 ^ 128 -> Z.land i 340282366920938463444927863358058659840 = 0 -> 0 <= i < 2 ^ 64.
Proof.
  intros Hi H. change 340282366920938463444927863358058659840 with (Z.ldiff (Z.ones (2 * 64)) (Z.ones 64)) in H.
  rewrite WideDivFacts.land_high in H by (change (2 * 64) with 128; lia).
  assert (i / 2 ^ 64 = 0) by nia. apply Z.div_small_iff in H0; lia.
Qed.

Ltac usz_range H64 Hlow :=
  first [ exact H64 | exact Hlow | apply shr_lt; [usz_range H64 Hlow | lia] ].

Lemma tie_u128_msb pf i : in_range U128 i = true -> g_u128_msb pf i = u128_msb pf i.
Proof.
  intros Hi. apply in_U128_iff in Hi.
  assert (H64 : 0 <= Z.shiftr i 64 < 2 ^ 64).
  { rewrite Z.shiftr_div_pow2 by lia. split; [apply Z.div_pos; lia|]. apply Z.div_lt_upper_bound; lia. }
  unfold g_u128_msb, u128_msb. destruct (dbg_assert pf (negb (i =? 0))); cbn [bind]; try rf.
  unfold msb_step.
  change (2 ^ 128 - 2 ^ 64) with 340282366920938463444927863358058659840.
  change (2 ^ 64 - 2 ^ 32) with 18446744069414584320.
  change (2 ^ 32 - 2 ^ 16) with 4294901760.
  change (2 ^ 16 - 2 ^ 8) with 65280.
  change (2 ^ 8 - 2 ^ 4) with 240.
  assert (Hlow : (Z.land i 340282366920938463444927863358058659840 =? 0) = true -> 0 <= i < 2 ^ 64).
  { intros E. apply Z.eqb_eq in E. apply land_hi_zero; [lia|exact E]. }
  destruct (Z.land i 340282366920938463444927863358058659840 =? 0); cbn [negb bind];
  [specialize (Hlow eq_refl)|clear Hlow; assert (Hlow : True) by exact I];
  match goal with |- context [Z.land ?j 18446744069414584320 =? 0] =>
    destruct (Z.land j 18446744069414584320 =? 0) end; cbn [negb bind]; ck_ground; cbn [bind];
  match goal with |- context [Z.land ?j 4294901760 =? 0] =>
    destruct (Z.land j 4294901760 =? 0) end; cbn [negb bind]; ck_ground; cbn [bind];
  match goal with |- context [Z.land ?j 65280 =? 0] =>
    destruct (Z.land j 65280 =? 0) end; cbn [negb bind]; ck_ground; cbn [bind];
  match goal with |- context [Z.land ?j 240 =? 0] =>
    destruct (Z.land j 240 =? 0) end; cbn [negb bind]; ck_ground; cbn [bind].
  all: rewrite cast_id by (apply usz; usz_range H64 Hlow).
  all: reflexivity.
Qed.

Lemma tie_u256_idiv_u64 pf xh xl y : g_u256_idiv_u64 pf xh xl y = u256_idiv_u64 pf xh xl y.
Proof.
  unfold g_u256_idiv_u64, u256_idiv_u64, shl64_add, g_u128_hi, g_u128_lo.
  change 18446744073709551615 with MASK64. fold (u128_hi xh) (u128_lo xh) (u128_hi xl) (u128_lo xl).
  destruct (y =? 1); [reflexivity|]. cbn [bind].
  tie.
Qed.

Lemma tie_loop1 fuel pf : forall q rhat yn0 xn yn1,
  g_u256_idiv_u128_special_loop1 fuel pf q rhat yn0 xn yn1 = corr_loop fuel pf q rhat yn1 yn0 xn.
Proof.
  induction fuel as [|f IH]; intros; [reflexivity|].
  cbn [g_u256_idiv_u128_special_loop1 corr_loop]. change 18446744073709551616 with B64.
  destruct (q >=? B64); cbn [bind].
  - destruct (ck_sub pf U128 q 1); cbn [bind]; try rf.
    destruct (ck_add pf U128 rhat yn1); cbn [bind]; try rf.
    destruct (a0 >=? B64); [rf|apply IH].
  - destruct (ck_mul pf U128 q yn0); cbn [bind]; try rf.
    destruct (ck_mul pf U128 rhat B64); cbn [bind]; try rf.
    destruct (ck_add pf U128 a0 xn); cbn [bind]; try rf.
    destruct (a >? a1); [|rf].
    destruct (ck_sub pf U128 q 1); cbn [bind]; try rf.
    destruct (ck_add pf U128 rhat yn1); cbn [bind]; try rf.
    destruct (a3 >=? B64); [rf|apply IH].
Qed.

Lemma tie_loop2 fuel pf : forall q rhat yn0 xn yn1,
  g_u256_idiv_u128_special_loop2 fuel pf q rhat yn0 xn yn1 = corr_loop fuel pf q rhat yn1 yn0 xn.
Proof.
  induction fuel as [|f IH]; intros; [reflexivity|].
  cbn [g_u256_idiv_u128_special_loop2 corr_loop]. change 18446744073709551616 with B64.
  destruct (q >=? B64); cbn [bind].
  - destruct (ck_sub pf U128 q 1); cbn [bind]; try rf.
    destruct (ck_add pf U128 rhat yn1); cbn [bind]; try rf.
    destruct (a0 >=? B64); [rf|apply IH].
  - destruct (ck_mul pf U128 q yn0); cbn [bind]; try rf.
    destruct (ck_mul pf U128 rhat B64); cbn [bind]; try rf.
    destruct (ck_add pf U128 a0 xn); cbn [bind]; try rf.
    destruct (a >? a1); [|rf].
    destruct (ck_sub pf U128 q 1); cbn [bind]; try rf.
    destruct (ck_add pf U128 rhat yn1); cbn [bind]; try rf.
    destruct (a3 >=? B64); [rf|apply IH].
Qed.

Lemma tie_u256_idiv_u128_special pf xh xl y :
  in_range U128 y = true ->
  g_u256_idiv_u128_special pf xh xl y = u256_idiv_u128_special pf xh xl y.
Proof.
  intros Hy.
  unfold g_u256_idiv_u128_special, u256_idiv_u128_special, g_u128_hi, g_u128_lo, wsub_step.
  change 18446744073709551615 with MASK64. change 18446744073709551616 with B64.
  change LOOP_FUEL with CORR_FUEL.
  rewrite (tie_u128_msb pf y Hy).
  dres (dbg_assert pf (xh <? y)) as u.
  dres (u128_msb pf y) as msb.
  dres (ck_sub pf U8 127 msb) as nb.
  dres (ck_shl pf U128 y nb) as yy.
  fold (u128_hi yy) (u128_lo yy).
  match goal with |- context [bind ?e _] => dres e as sh end.
  dres (ck_shl pf U128 xh nb) as xs.
  dres (ck_shl pf U128 xl nb) as xn10.
  fold (u128_hi xn10) (u128_lo xn10).
  dres (t_div U128 (Z.lor xs sh) (u128_hi yy)) as q1.
  dres (t_rem U128 (Z.lor xs sh) (u128_hi yy)) as rh.
  rewrite tie_loop1.
  destruct (corr_loop CORR_FUEL pf q1 rh (u128_hi yy) (u128_lo yy) (u128_hi xn10)) as [[q1' r1]| | |]; cbn [bind]; [|rf|rf|rf].
  match goal with |- context [t_div U128 ?t ?d] => dres (t_div U128 t d) as q0 end.
  match goal with |- context [t_rem U128 ?t ?d] => dres (t_rem U128 t d) as rh2 end.
  rewrite tie_loop2.
  match goal with |- context [corr_loop ?a ?b ?c ?d ?e ?f ?g] => destruct (corr_loop a b c d e f g) as [[q0' r0]| | |] end; cbn [bind]; try rf.
Qed.

Lemma tie_u256_idiv_u128 pf xh xl y :
  in_range U128 y = true ->
  g_u256_idiv_u128 pf xh xl y = u256_idiv_u128 pf xh xl y.
Proof.
  intros Hy. unfold g_u256_idiv_u128, u256_idiv_u128, g_u128_hi, g_u128_lo. cbn [bind].
  change 18446744073709551615 with MASK64. fold (u128_hi y) (u128_lo y).
  destruct (u128_hi y =? 0); [apply tie_u256_idiv_u64|].
  destruct (xh <? y); [apply tie_u256_idiv_u128_special; exact Hy|].
  dres (t_rem U128 xh y) as t.
  rewrite (tie_u256_idiv_u128_special pf t xl y Hy).
  destruct (u256_idiv_u128_special pf t xl y) as [[[t' xl'] r]| | |]; cbn [bind]; try rf.
Qed.

Lemma abs_U128 x : in_range I128 x = true -> in_range U128 (Z.abs x) = true.
Proof. intros H. apply in_I128_iff in H. apply in_U128_iff. lia. Qed.

Lemma tie_i128_shifted_div_mod_floor pf x p y :
  in_range I128 y = true ->
  g_i128_shifted_div_mod_floor pf x p y = i128_shifted_div_mod_floor pf x p y.
Proof.
  intros Hy. unfold g_i128_shifted_div_mod_floor, i128_shifted_div_mod_floor, unsigned_abs.
  change (g_ten_pow pf p) with (ten_pow p). change g_u128_mul_u128 with u128_mul_u128.
  dres (ten_pow p) as t.
  destruct (u128_mul_u128 pf (Z.abs x) (cast U128 t)) as [[xh xl]| | |]; cbn [bind]; try rf.
  rewrite (tie_u256_idiv_u128 pf xh xl (Z.abs y) (abs_U128 y Hy)).
  destruct (u256_idiv_u128 pf xh xl (Z.abs y)) as [[[xh' xl'] r]| | |]; cbn [bind]; try rf.
  change (cast U128 (tmax I128)) with (tmax I128).
  destruct (negb (xh' =? 0) || (xl' >? tmax I128)); [rf|].
  unfold_helpers.
  destruct (x <? 0); destruct (y <? 0); cbn [bind]; first [ solve [tie] | solve [tie2] ].
Qed.

Lemma tie_i256_div_mod_floor pf x1 x2 y :
  in_range I128 y = true ->
  g_i256_div_mod_floor pf x1 x2 y = i256_div_mod_floor pf x1 x2 y.
Proof.
  intros Hy. unfold g_i256_div_mod_floor, i256_div_mod_floor, unsigned_abs.
  change g_u128_mul_u128 with u128_mul_u128.
  dres (dbg_assert pf (y >? 0)) as u.
  destruct (u128_mul_u128 pf (Z.abs x1) (Z.abs x2)) as [[xh xl]| | |]; cbn [bind]; try rf.
  rewrite (tie_u256_idiv_u128 pf xh xl (Z.abs y) (abs_U128 y Hy)).
  destruct (u256_idiv_u128 pf xh xl (Z.abs y)) as [[[xh' xl'] r]| | |]; cbn [bind]; try rf.
  change (cast U128 (tmax I128)) with (tmax I128).
  destruct (negb (xh' =? 0) || (xl' >? tmax I128)); [rf|].
  unfold_helpers.
  destruct (x1 <? 0); destruct (x2 <? 0); cbn [bind negb Bool.eqb]; first [ solve [tie] | solve [tie2] ].
Qed.

(* round_quot: the model takes the mode the code obtains from RoundingMode::default() when it is passed None *)

(* ---- the kernel theorems restated about the translated source ------------------------------- *)
Lemma src_wide_product pf x y : 0 <= x < 2 ^ 128 -> 0 <= y < 2 ^ 128 ->
  g_u128_mul_u128 pf x y = Val ((x * y) / 2 ^ 128, (x * y) mod 2 ^ 128).
Proof. intros Hx Hy. rewrite tie_u128_mul_u128. apply u128_mul_u128_ok; assumption. Qed.

Lemma src_msb pf i : 0 < i < 2 ^ 128 -> g_u128_msb pf i = Val (Z.log2 i).
Proof.
  intros H. rewrite tie_u128_msb by (apply in_U128_iff; lia). apply u128_msb_ok. exact H.
Qed.

Lemma src_wide_division pf xh xl y : 0 <= xh < 2 ^ 128 -> 0 <= xl < 2 ^ 128 -> 0 < y < 2 ^ 128 ->
  exists qh ql r, g_u256_idiv_u128 pf xh xl y = Val (qh, ql, r) /\
    0 <= qh < 2 ^ 128 /\ 0 <= ql < 2 ^ 128 /\
    qh * 2 ^ 128 + ql = (xh * 2 ^ 128 + xl) / y /\ r = (xh * 2 ^ 128 + xl) mod y.
Proof.
  intros Hh Hl Hy. rewrite tie_u256_idiv_u128 by (apply in_U128_iff; lia).
  apply u256_idiv_u128_ok; assumption.
Qed.

Lemma MAXC_I128 d : - MAXC <= d <= MAXC -> in_range I128 d = true.
Proof. intros H. apply in_I128_iff. rewrite MAXC_val in H. rewrite pow2_127. lia. Qed.

Lemma src_shifted_div_mod_floor pf a k m :
  - MAXC <= a <= MAXC -> 0 <= k <= 38 -> 0 < m <= MAXC ->
  exists o, g_i128_shifted_div_mod_floor pf a k m = Val o /\ floor_ok (a * 10 ^ k) m o.
Proof.
  intros Ha Hk Hm. rewrite tie_i128_shifted_div_mod_floor by (apply MAXC_I128; lia).
  apply sdmf_contract_holds; assumption.
Qed.

Lemma src_i256_div_mod_floor pf a b m :
  - MAXC <= a <= MAXC -> - MAXC <= b <= MAXC -> 0 < m <= MAXC ->
  exists o, g_i256_div_mod_floor pf a b m = Val o /\ floor_ok (a * b) m o.
Proof.
  intros Ha Hb Hm. rewrite tie_i256_div_mod_floor by (apply MAXC_I128; lia).
  apply i256_contract_holds; assumption.
Qed.

