(* CmpFacts.v — C08: comparisons agree with the comparison of the exact values. *)
From FP Require Import Machine SrcConsts Pow10 Cmp RoundSpec Out ArithSpec Run.
From FP Require Import MachineFacts Pow10Facts OutFacts.

Lemma pow10_split a b : 0 <= b <= a -> 10 ^ a = 10 ^ (a - b) * 10 ^ b.
Proof. intros H. rewrite <- Z.pow_add_r by lia. f_equal. lia. Qed.

Lemma compare_scale a b k : 0 < k -> Z.compare (a * k) (b * k) = Z.compare a b.
Proof. intros Hk. symmetry. apply Zmult_compare_compat_r. lia. Qed.

(* a scaled coefficient that leaves the i128 is larger in magnitude than any coefficient *)
Lemma overflow_cmp c k x :
  in_range I128 (c * k) = false -> in_range I128 x = true -> 0 < k ->
  (0 < c -> x < c * k) /\ (c < 0 -> c * k < x) /\ c <> 0.
Proof.
  intros Ho Hx Hk. apply in_range_false_iff in Ho. apply in_I128_iff in Hx.
  rewrite tmin_I128, tmax_I128 in Ho. repeat split; try nia.
Qed.

Lemma partial_cmp_spec x y :
  wf x = true -> wf y = true -> dec_partial_cmp x y = Val (Some (cmp_spec x y)).
Proof.
  intros Hx Hy. pose proof (wf_in_range _ Hx) as Rx. pose proof (wf_in_range _ Hy) as Ry.
  apply wf_iff in Hx. apply wf_iff in Hy.
  unfold dec_partial_cmp, checked_adjust_coeffs, cmp_spec.
  destruct (Z.compare_spec (nfd x) (nfd y)) as [E|L|G]; cbn [bind].
  - rewrite E. rewrite compare_scale by (apply pow10_pos; lia). reflexivity.
  - rewrite checked_mul_pow_ten_ok by lia. cbn [bind]. unfold checked.
    pose proof (pow10_pos (nfd y - nfd x) ltac:(lia)) as Hk.
    pose proof (pow10_pos (nfd x) ltac:(lia)) as Hpx.
    rewrite (pow10_split (nfd y) (nfd x)) by lia.
    rewrite Z.mul_assoc. rewrite compare_scale by assumption.
    destruct (in_range I128 (coeff x * 10 ^ (nfd y - nfd x))) eqn:Ho; [reflexivity|].
    destruct (overflow_cmp _ _ (coeff y) Ho Ry Hk) as (Hp & Hn & Hz).
    destruct (Z.gtb_spec (coeff x) 0).
    + do 2 f_equal. symmetry. apply Z.compare_gt_iff. lia.
    + do 2 f_equal. symmetry. apply Z.compare_lt_iff. lia.
  - rewrite checked_mul_pow_ten_ok by lia. cbn [bind]. unfold checked.
    pose proof (pow10_pos (nfd x - nfd y) ltac:(lia)) as Hk.
    pose proof (pow10_pos (nfd y) ltac:(lia)) as Hpy.
    rewrite (pow10_split (nfd x) (nfd y)) by lia.
    rewrite (Z.mul_assoc (coeff y)). rewrite compare_scale by assumption.
    destruct (in_range I128 (coeff y * 10 ^ (nfd x - nfd y))) eqn:Ho; [reflexivity|].
    destruct (overflow_cmp _ _ (coeff x) Ho Rx Hk) as (Hp & Hn & Hz).
    destruct (Z.ltb_spec (coeff y) 0).
    + do 2 f_equal. symmetry. apply Z.compare_gt_iff. lia.
    + do 2 f_equal. symmetry. apply Z.compare_lt_iff. lia.
Qed.

Lemma eq_model_spec x y :
  wf x = true -> wf y = true -> dec_eq x y = Val (eq_spec x y).
Proof.
  intros Hx Hy. pose proof (wf_in_range _ Hx) as Rx. pose proof (wf_in_range _ Hy) as Ry.
  apply wf_iff in Hx. apply wf_iff in Hy.
  unfold dec_eq, checked_adjust_coeffs, eq_spec, cmp_spec.
  destruct (Z.compare_spec (nfd x) (nfd y)) as [E|L|G]; cbn [bind].
  - rewrite E. rewrite compare_scale by (apply pow10_pos; lia).
    destruct (Z.eqb_spec (coeff x) (coeff y)) as [H|H].
    + rewrite H, Z.compare_refl. reflexivity.
    + destruct (Z.compare_spec (coeff x) (coeff y)); [contradiction|reflexivity|reflexivity].
  - rewrite checked_mul_pow_ten_ok by lia. cbn [bind]. unfold checked.
    pose proof (pow10_pos (nfd y - nfd x) ltac:(lia)) as Hk.
    pose proof (pow10_pos (nfd x) ltac:(lia)) as Hpx.
    rewrite (pow10_split (nfd y) (nfd x)) by lia.
    rewrite Z.mul_assoc. rewrite compare_scale by assumption.
    destruct (in_range I128 (coeff x * 10 ^ (nfd y - nfd x))) eqn:Ho.
    + destruct (Z.eqb_spec (coeff x * 10 ^ (nfd y - nfd x)) (coeff y)) as [H|H].
      * rewrite H, Z.compare_refl. reflexivity.
      * destruct (Z.compare_spec (coeff x * 10 ^ (nfd y - nfd x)) (coeff y)); [contradiction|reflexivity|reflexivity].
    + destruct (overflow_cmp _ _ (coeff y) Ho Ry Hk) as (Hp & Hn & Hz).
      destruct (Z.compare_spec (coeff x * 10 ^ (nfd y - nfd x)) (coeff y)); [lia|reflexivity|reflexivity].
  - rewrite checked_mul_pow_ten_ok by lia. cbn [bind]. unfold checked.
    pose proof (pow10_pos (nfd x - nfd y) ltac:(lia)) as Hk.
    pose proof (pow10_pos (nfd y) ltac:(lia)) as Hpy.
    rewrite (pow10_split (nfd x) (nfd y)) by lia.
    rewrite (Z.mul_assoc (coeff y)). rewrite compare_scale by assumption.
    destruct (in_range I128 (coeff y * 10 ^ (nfd x - nfd y))) eqn:Ho.
    + destruct (Z.eqb_spec (coeff x) (coeff y * 10 ^ (nfd x - nfd y))) as [H|H].
      * rewrite H, Z.compare_refl. reflexivity.
      * destruct (Z.compare_spec (coeff x) (coeff y * 10 ^ (nfd x - nfd y))); [contradiction|reflexivity|reflexivity].
    + destruct (overflow_cmp _ _ (coeff x) Ho Rx Hk) as (Hp & Hn & Hz).
      destruct (Z.compare_spec (coeff x) (coeff y * 10 ^ (nfd x - nfd y))); [lia|reflexivity|reflexivity].
Qed.

(* ---- all Decimal/Decimal comparison operations are accepted ---- *)
Lemma cmp_spec_refl x : cmp_spec x x = Eq.
Proof. unfold cmp_spec. apply Z.compare_refl. Qed.

Lemma cmp_spec_antisym x y : cmp_spec y x = CompOpp (cmp_spec x y).
Proof. unfold cmp_spec. apply Z.compare_antisym. Qed.

Lemma cmp_acc pf m op x y :
  wf x = true -> wf y = true ->
  In op [Beq; Bne; Blt; Ble; Bgt; Bge; Bcmp; Bpcmp; Bmin; Bmax] ->
  acc_dd m op x y 0 (run_dd pf m op x y 0) = true.
Proof.
  intros Hx Hy Hop.
  pose proof (partial_cmp_spec x y Hx Hy) as P. pose proof (partial_cmp_spec y x Hy Hx) as P'.
  pose proof (eq_model_spec x y Hx Hy) as E.
  pose proof (cmp_spec_antisym x y) as A.
  cbn in Hop.
  repeat (destruct Hop as [<-|Hop]); try contradiction;
    cbn [acc_dd run_dd]; unfold dec_ne, dec_lt, dec_le, dec_gt, dec_ge, dec_cmp, dec_min, dec_max, dec_lt;
    rewrite ?E, ?P, ?P'; cbn [bind out_bool out_cmp out_ocmp out_dec of_res];
    try apply out_eqb_refl.
  - destruct (cmp_spec x y); reflexivity.
  - destruct (cmp_spec x y); reflexivity.
  - destruct (cmp_spec x y); reflexivity.
  - destruct (cmp_spec x y); reflexivity.
  - (* min *) unfold acc_minmax. rewrite A.
    destruct (cmp_spec x y) eqn:C; cbn [CompOpp is_lt];
      rewrite ?dec_eqb_refl, ?cmp_spec_refl, ?orb_true_r; cbn [orb andb cmp_is existsb cmp_eqb];
      rewrite ?C, ?A, ?C; reflexivity.
  - (* max *) unfold acc_minmax. rewrite A.
    destruct (cmp_spec x y) eqn:C; cbn [CompOpp is_lt];
      rewrite ?dec_eqb_refl, ?cmp_spec_refl, ?orb_true_r; cbn [orb andb cmp_is existsb cmp_eqb];
      rewrite ?C, ?A, ?C; reflexivity.
Qed.

(* ---- comparisons with a primitive integer ---- *)
Lemma cmp_spec_int_r d i : cmp_spec d (mkdec i 0) = Z.compare (coeff d) (i * 10 ^ nfd d).
Proof. unfold cmp_spec. cbn [coeff nfd]. change (10 ^ 0) with 1. rewrite Z.mul_1_r. reflexivity. Qed.
Lemma cmp_spec_int_l d i : cmp_spec (mkdec i 0) d = Z.compare (i * 10 ^ nfd d) (coeff d).
Proof. unfold cmp_spec. cbn [coeff nfd]. change (10 ^ 0) with 1. rewrite Z.mul_1_r. reflexivity. Qed.

Lemma compare_eq_spec a b : (match Z.compare a b with Eq => true | _ => false end) = (a =? b).
Proof. destruct (Z.compare_spec a b); destruct (Z.eqb_spec a b); try reflexivity; lia. Qed.

Lemma int_cmp_spec t d i :
  wf d = true -> (signed t = false -> 0 <= i) ->
  di_partial_cmp t d i = Val (Some (cmp_spec d (mkdec i 0))) /\
  id_partial_cmp t i d = Val (Some (cmp_spec (mkdec i 0) d)) /\
  di_eq t d i = Val (eq_spec d (mkdec i 0)).
Proof.
  intros Hd Hi. pose proof (wf_in_range _ Hd) as Rd. apply wf_iff in Hd.
  pose proof (pow10_pos (nfd d) ltac:(lia)) as Hk.
  unfold di_partial_cmp, id_partial_cmp, di_eq, eq_spec, is_negative.
  rewrite cmp_spec_int_r, cmp_spec_int_l.
  rewrite checked_mul_pow_ten_ok by lia. cbn [bind]. unfold checked.
  destruct (signed t) eqn:S; cbn [negb andb].
  - destruct (in_range I128 (i * 10 ^ nfd d)) eqn:Ho.
    + repeat split; try reflexivity. rewrite compare_eq_spec. reflexivity.
    + destruct (overflow_cmp _ _ (coeff d) Ho Rd Hk) as (Hp & Hn & Hz).
      repeat split.
      * destruct (Z.geb_spec i 0); do 2 f_equal; symmetry;
          [apply Z.compare_lt_iff|apply Z.compare_gt_iff]; lia.
      * destruct (Z.ltb_spec i 0); do 2 f_equal; symmetry;
          [apply Z.compare_lt_iff|apply Z.compare_gt_iff]; lia.
      * rewrite compare_eq_spec. destruct (Z.eqb_spec (coeff d) (i * 10 ^ nfd d)); [lia|reflexivity].
  - specialize (Hi eq_refl).
    destruct (Z.ltb_spec (coeff d) 0) as [Hneg|Hpos].
    + assert (0 <= i * 10 ^ nfd d) by nia.
      repeat split.
      * do 2 f_equal. symmetry. apply Z.compare_lt_iff. lia.
      * do 2 f_equal. symmetry. apply Z.compare_gt_iff. lia.
      * rewrite compare_eq_spec. destruct (Z.eqb_spec (coeff d) (i * 10 ^ nfd d)); [lia|reflexivity].
    + destruct (in_range I128 (i * 10 ^ nfd d)) eqn:Ho.
      * repeat split; try reflexivity. rewrite compare_eq_spec. reflexivity.
      * destruct (overflow_cmp _ _ (coeff d) Ho Rd Hk) as (Hp & Hn & Hz).
        repeat split.
        -- do 2 f_equal. symmetry. apply Z.compare_lt_iff. lia.
        -- do 2 f_equal. symmetry. apply Z.compare_gt_iff. lia.
        -- rewrite compare_eq_spec. destruct (Z.eqb_spec (coeff d) (i * 10 ^ nfd d)); [lia|reflexivity].
Qed.

Lemma int_cmp_acc pf m op t d i :
  wf d = true -> (signed t = false -> 0 <= i) ->
  In op [Beq; Bne; Blt; Ble; Bgt; Bge; Bpcmp] ->
  acc_di m op d i 0 (run_di pf m op t d i 0) = true /\
  acc_id m op i d 0 (run_id pf m op t i d 0) = true.
Proof.
  intros Hd Hi Hop. destruct (int_cmp_spec t d i Hd Hi) as (P1 & P2 & E).
  assert (E2 : eq_spec (mkdec i 0) d = eq_spec d (mkdec i 0)).
  { unfold eq_spec. rewrite (cmp_spec_antisym d (mkdec i 0)). destruct (cmp_spec d (mkdec i 0)); reflexivity. }
  cbn in Hop.
  repeat (destruct Hop as [<-|Hop]); try contradiction;
    cbn [acc_di acc_id acc_int acc_dd run_di run_id]; unfold id_eq;
    rewrite ?E, ?P1, ?P2; cbn [bind out_bool out_ocmp of_res]; rewrite ?E2;
    split; try apply out_eqb_refl;
    try (destruct (cmp_spec d (mkdec i 0)); reflexivity);
    try (destruct (cmp_spec (mkdec i 0) d); reflexivity).
Qed.

(* ---- the value order is a total order (on Decimals with non-negative scales) ---- *)
Lemma cmp_spec_trans x y z :
  0 <= nfd x -> 0 <= nfd y -> 0 <= nfd z ->
  cmp_spec x y = Lt -> cmp_spec y z = Lt -> cmp_spec x z = Lt.
Proof.
  unfold cmp_spec. intros Hx Hy Hz H1 H2.
  apply Z.compare_lt_iff in H1. apply Z.compare_lt_iff in H2. apply Z.compare_lt_iff.
  pose proof (pow10_pos _ Hx) as Px. pose proof (pow10_pos _ Hy) as Py. pose proof (pow10_pos _ Hz) as Pz.
  set (A := 10 ^ nfd x) in *. set (B := 10 ^ nfd y) in *. set (C := 10 ^ nfd z) in *.
  assert (E1 : coeff x * B * C < coeff y * A * C) by (apply Z.mul_lt_mono_pos_r; assumption).
  assert (E2 : coeff y * C * A < coeff z * B * A) by (apply Z.mul_lt_mono_pos_r; assumption).
  assert (E3 : B * (coeff x * C) < B * (coeff z * A)).
  { replace (B * (coeff x * C)) with (coeff x * B * C) by ring.
    replace (B * (coeff z * A)) with (coeff z * B * A) by ring.
    replace (coeff y * A * C) with (coeff y * C * A) in E1 by ring. lia. }
  apply Z.mul_lt_mono_pos_l in E3; assumption.
Qed.

Lemma cmp_spec_eq_trans x y z :
  0 <= nfd x -> 0 <= nfd y -> 0 <= nfd z ->
  cmp_spec x y = Eq -> cmp_spec y z = Eq -> cmp_spec x z = Eq.
Proof.
  unfold cmp_spec. intros Hx Hy Hz H1 H2.
  apply Z.compare_eq_iff in H1. apply Z.compare_eq_iff in H2. apply Z.compare_eq_iff.
  pose proof (pow10_pos _ Hx) as Px. pose proof (pow10_pos _ Hy) as Py. pose proof (pow10_pos _ Hz) as Pz.
  set (A := 10 ^ nfd x) in *. set (B := 10 ^ nfd y) in *. set (C := 10 ^ nfd z) in *.
  assert (E3 : B * (coeff x * C) = B * (coeff z * A)).
  { replace (B * (coeff x * C)) with (coeff x * B * C) by ring.
    replace (B * (coeff z * A)) with (coeff z * B * A) by ring.
    rewrite H1. replace (coeff y * A * C) with (coeff y * C * A) by ring. rewrite H2. ring. }
  apply Z.mul_reg_l in E3; [assumption|lia].
Qed.
