(* AddSubFacts.v — C01: + - checked_add checked_sub equal the specification. *)
From FP Require Import Machine SrcConsts Pow10 WideDiv Rounding Arith IntForms RoundSpec Out ArithSpec Run.
From FP Require Import MachineFacts Pow10Facts OutFacts.

Definition sres_op (s : sres) : res dec :=
  match s with SVal d => Val d | _ => Panic end.
Definition sres_chk (s : sres) : res (option dec) :=
  match s with SVal d => Val (Some d) | _ => Val None end.

Lemma addsub_model_spec sub x y :
  0 <= nfd x <= 18 -> 0 <= nfd y <= 18 ->
  in_range I128 (coeff x) = true -> in_range I128 (coeff y) = true ->
  dec_addsub sub x y = sres_op (addsub_spec sub x y) /\
  dec_checked_addsub sub x y = sres_chk (addsub_spec sub x y).
Proof.
  intros Hx Hy Rx Ry. unfold dec_addsub, dec_checked_addsub, addsub_spec, addsub_i128.
  destruct (Z.compare_spec (nfd x) (nfd y)) as [E|L|G].
  - rewrite E, Z.max_id, Z.sub_diag. change (10 ^ 0) with 1. rewrite !Z.mul_1_r.
    rewrite Rx, Ry. cbn [andb]. unfold checked.
    destruct (in_range I128 (if sub then coeff x - coeff y else coeff x + coeff y)); split; reflexivity.
  - rewrite Z.max_r by lia. rewrite Z.sub_diag. change (10 ^ 0) with 1. rewrite Z.mul_1_r.
    rewrite mul_pow_ten_ok by lia. rewrite checked_mul_pow_ten_ok by lia. unfold checked.
    rewrite Ry. rewrite andb_true_r.
    destruct (in_range I128 (coeff x * 10 ^ (nfd y - nfd x))); cbn [andb bind obind or_panic]; [|split; reflexivity].
    destruct (in_range I128 (if sub then _ else _)); split; reflexivity.
  - rewrite Z.max_l by lia. rewrite Z.sub_diag. change (10 ^ 0) with 1. rewrite Z.mul_1_r.
    rewrite mul_pow_ten_ok by lia. rewrite checked_mul_pow_ten_ok by lia. unfold checked.
    rewrite Rx. cbn [andb].
    destruct (in_range I128 (coeff y * 10 ^ (nfd x - nfd y))); cbn [andb bind obind or_panic]; [|split; reflexivity].
    destruct (in_range I128 (if sub then _ else _)); split; reflexivity.
Qed.


(* the integer-operand bodies are the Decimal/Decimal body applied to Decimal::from(i) *)
Lemma di_addsub_eq sub d i : 0 <= nfd d ->
  di_addsub sub d i = dec_addsub sub d (mkdec i 0) /\
  di_checked_addsub sub d i = dec_checked_addsub sub d (mkdec i 0).
Proof.
  intros Hd. unfold di_addsub, di_checked_addsub, dec_addsub, dec_checked_addsub. cbn [coeff nfd].
  destruct (Z.eqb_spec (nfd d) 0) as [E|E].
  - rewrite E. cbn [Z.compare]. split; reflexivity.
  - destruct (Z.compare_spec (nfd d) 0); try lia. rewrite Z.sub_0_r. split; reflexivity.
Qed.

Lemma id_addsub_eq sub i d : 0 <= nfd d ->
  id_addsub sub i d = dec_addsub sub (mkdec i 0) d /\
  id_checked_addsub sub i d = dec_checked_addsub sub (mkdec i 0) d.
Proof.
  intros Hd. unfold id_addsub, id_checked_addsub, dec_addsub, dec_checked_addsub. cbn [coeff nfd].
  destruct (Z.eqb_spec (nfd d) 0) as [E|E].
  - rewrite E. cbn [Z.compare]. split; reflexivity.
  - destruct (Z.compare_spec 0 (nfd d)); try lia. rewrite Z.sub_0_r. split; reflexivity.
Qed.

Lemma addsub_acc pf m (sub : bool) x y :
  wf x = true -> wf y = true ->
  acc_dd m (if sub then Bsub else Badd) x y 0 (run_dd pf m (if sub then Bsub else Badd) x y 0) = true /\
  acc_dd m (if sub then Bcsub else Bcadd) x y 0 (run_dd pf m (if sub then Bcsub else Bcadd) x y 0) = true.
Proof.
  intros Hx Hy. pose proof (wf_in_range _ Hx) as Rx. pose proof (wf_in_range _ Hy) as Ry.
  apply wf_iff in Hx. apply wf_iff in Hy.
  destruct (addsub_model_spec sub x y ltac:(lia) ltac:(lia) Rx Ry) as [H1 H2].
  assert (G : acc_op (addsub_spec sub x y) (out_dec (dec_addsub sub x y)) = true /\
              acc_chk (addsub_spec sub x y) (out_odec (dec_checked_addsub sub x y)) = true).
  { rewrite H1, H2. unfold addsub_spec.
    destruct (in_range I128 _ && in_range I128 _ && in_range I128 _); cbn; rewrite ?dec_eqb_refl; auto. }
  destruct sub; exact G.
Qed.

(* integer operands: any i128 value *)
Lemma addsub_int_acc pf m (sub : bool) t d i :
  wf d = true -> in_range I128 i = true ->
  let op := if sub then Bsub else Badd in
  let cop := if sub then Bcsub else Bcadd in
  acc_di m op d i 0 (run_di pf m op t d i 0) = true /\
  acc_di m cop d i 0 (run_di pf m cop t d i 0) = true /\
  acc_id m op i d 0 (run_id pf m op t i d 0) = true /\
  acc_id m cop i d 0 (run_id pf m cop t i d 0) = true.
Proof.
  intros Hd Hi. pose proof (wf_in_range _ Hd) as Rd. apply wf_iff in Hd.
  destruct (di_addsub_eq sub d i ltac:(lia)) as [E1 E2].
  destruct (id_addsub_eq sub i d ltac:(lia)) as [E3 E4].
  destruct (addsub_model_spec sub d (mkdec i 0) ltac:(lia) ltac:(cbn; lia) Rd Hi) as [H1 H2].
  destruct (addsub_model_spec sub (mkdec i 0) d ltac:(cbn; lia) ltac:(lia) Hi Rd) as [H3 H4].
  assert (G : forall a b, acc_op (addsub_spec sub a b) (out_dec (sres_op (addsub_spec sub a b))) = true /\
                          acc_chk (addsub_spec sub a b) (out_odec (sres_chk (addsub_spec sub a b))) = true).
  { intros a b. unfold addsub_spec.
    destruct (in_range I128 _ && in_range I128 _ && in_range I128 _); cbn; rewrite ?dec_eqb_refl; auto. }
  destruct sub; cbn [acc_di acc_id acc_int acc_dd run_di run_id];
    rewrite E1, E2, E3, E4, H1, H2, H3, H4; repeat split; apply G.
Qed.
