(* WideDivFacts.v — C16: most significant bit, the Knuth/Hacker's-Delight digit step
   (without add-back), 256/128-bit division, and the two signed kernels. *)
From FP Require Import Machine SrcConsts Pow10 WideDiv.
From FP Require Import MachineFacts Pow10Facts WideMulFacts.

Local Open Scope Z_scope.

(* ---- u128_msb = floor(log2) ---- *)
Lemma land_high i k : 0 <= k -> 0 <= i < 2 ^ (2 * k) ->
  Z.land i (Z.ldiff (Z.ones (2 * k)) (Z.ones k)) = (i / 2 ^ k) * 2 ^ k.
Proof.
  intros Hk Hi. rewrite Z.ldiff_land. rewrite Z.land_assoc.
  rewrite Z.land_ones by lia. rewrite Z.mod_small by lia.
  rewrite <- Z.ldiff_land. rewrite Z.ldiff_ones_r by lia.
  rewrite Z.shiftl_mul_pow2, Z.shiftr_div_pow2 by lia. reflexivity.
Qed.

Lemma msb_step_ok k mask n i :
  mask = Z.ldiff (Z.ones (2 * k)) (Z.ones k) -> 0 < k -> 0 < i < 2 ^ (2 * k) ->
  let '(n', i') := msb_step mask k (n, i) in
  0 < i' < 2 ^ k /\ n' + Z.log2 i' = n + Z.log2 i.
Proof.
  intros Hm Hk Hi. unfold msb_step. rewrite Hm, land_high by lia.
  pose proof (Z.pow_pos_nonneg 2 k ltac:(lia) ltac:(lia)) as Hp.
  destruct (Z.eqb_spec (i / 2 ^ k * 2 ^ k) 0) as [E|E].
  - assert (i / 2 ^ k = 0) by nia. apply Z.div_small_iff in H; [|lia]. split; lia.
  - assert (Hq : 0 < i / 2 ^ k).
    { assert (0 <= i / 2 ^ k) by (apply Z.div_pos; lia). nia. }
    rewrite Z.shiftr_div_pow2 by lia. split.
    + split; [exact Hq|]. apply Z.div_lt_upper_bound; [lia|]. rewrite <- Z.pow_add_r by lia.
      replace (k + k) with (2 * k) by lia. lia.
    + rewrite <- Z.shiftr_div_pow2 by lia. rewrite Z.log2_shiftr by lia.
      assert (Hge : 2 ^ k <= i).
      { destruct (Z_lt_le_dec i (2 ^ k)); [rewrite Z.div_small in Hq by lia; lia|assumption]. }
      assert (k <= Z.log2 i) by (apply Z.log2_le_pow2; lia).
      lia.
Qed.

Lemma idx_map_ok i : 0 < i < 16 -> index MSB_IDX_MAP i = Val (Z.log2 i + 1).
Proof.
  intros H. assert (i = 1 \/ i = 2 \/ i = 3 \/ i = 4 \/ i = 5 \/ i = 6 \/ i = 7 \/ i = 8 \/ i = 9 \/ i = 10 \/
                    i = 11 \/ i = 12 \/ i = 13 \/ i = 14 \/ i = 15) as C by lia.
  repeat (destruct C as [-> | C]; [reflexivity|]). subst. reflexivity.
Qed.

Lemma u128_msb_ok pf i : 0 < i < 2 ^ 128 -> u128_msb pf i = Val (Z.log2 i).
Proof.
  intros Hi. unfold u128_msb.
  assert (Hd : dbg_assert pf (negb (i =? 0)) = Val tt).
  { unfold dbg_assert. destruct (Z.eqb_spec i 0); [lia|]. cbn. rewrite andb_false_r. reflexivity. }
  rewrite Hd. cbn [bind].
  pose proof (msb_step_ok 64 (2 ^ 128 - 2 ^ 64) 0 i eq_refl ltac:(lia) Hi) as S1.
  destruct (msb_step (2 ^ 128 - 2 ^ 64) 64 (0, i)) as [n1 i1]. destruct S1 as [B1 L1].
  pose proof (msb_step_ok 32 (2 ^ 64 - 2 ^ 32) n1 i1 eq_refl ltac:(lia) B1) as S2.
  destruct (msb_step (2 ^ 64 - 2 ^ 32) 32 (n1, i1)) as [n2 i2]. destruct S2 as [B2 L2].
  pose proof (msb_step_ok 16 (2 ^ 32 - 2 ^ 16) n2 i2 eq_refl ltac:(lia) B2) as S3.
  destruct (msb_step (2 ^ 32 - 2 ^ 16) 16 (n2, i2)) as [n3 i3]. destruct S3 as [B3 L3].
  pose proof (msb_step_ok 8 (2 ^ 16 - 2 ^ 8) n3 i3 eq_refl ltac:(lia) B3) as S4.
  destruct (msb_step (2 ^ 16 - 2 ^ 8) 8 (n3, i3)) as [n4 i4]. destruct S4 as [B4 L4].
  pose proof (msb_step_ok 4 (2 ^ 8 - 2 ^ 4) n4 i4 eq_refl ltac:(lia) B4) as S5.
  destruct (msb_step (2 ^ 8 - 2 ^ 4) 4 (n4, i4)) as [n5 i5]. destruct S5 as [B5 L5].
  rewrite idx_map_ok by (change (2 ^ 4) with 16 in B5; lia). cbn [bind].
  assert (Hl : 0 <= Z.log2 i5 <= 3).
  { split; [apply Z.log2_nonneg|]. assert (Z.log2 i5 < 4) by (apply Z.log2_lt_pow2; lia). lia. }
  assert (Hlog : 0 <= Z.log2 i < 128) by (split; [apply Z.log2_nonneg|apply Z.log2_lt_pow2; lia]).
  pose proof (Z.log2_nonneg i1). pose proof (Z.log2_nonneg i2). pose proof (Z.log2_nonneg i3). pose proof (Z.log2_nonneg i4).
  unfold ck_add, ck_sub.
  rewrite (ck_ok pf U8 (n5 + (Z.log2 i5 + 1))) by (apply in_range_iff; cbn; lia). cbn [bind].
  rewrite ck_ok by (apply in_range_iff; cbn; lia). f_equal. lia.
Qed.

(* ---- the quotient-digit step, over an abstract word base ---- *)
Section Digit.
  Variables B yn1 yn0 hi x : Z.
  Hypothesis H1 : 0 <= yn0 < B.
  Hypothesis H2 : B <= 2 * yn1.
  Hypothesis H3 : yn1 < B.
  Hypothesis H4 : 0 <= hi < yn1 * B + yn0.
  Hypothesis H5 : 0 <= x < B.

  Let y' := yn1 * B + yn0.
  Let u := hi * B + x.
  Let qt := u / y'.

  Lemma digit_y_pos : 0 < y'.
  Proof. unfold y'. nia. Qed.

  Lemma digit_qt_bounds : 0 <= qt < B /\ qt * y' <= u < (qt + 1) * y'.
  Proof.
    pose proof digit_y_pos as Hy.
    pose proof (Z.div_mod u y' ltac:(lia)) as E. pose proof (Z.mod_pos_bound u y' Hy) as Bm.
    fold qt in E. split; [|split; nia].
    split.
    - apply Z.div_pos; [unfold u; nia|exact Hy].
    - apply Z.div_lt_upper_bound; [exact Hy|]. unfold u, y' in *. nia.
  Qed.

  (* the loop test, given the invariant q * yn1 + rhat = hi, is exactly q * y' > u *)
  Lemma digit_test q rhat : q * yn1 + rhat = hi ->
    (q * yn0 > rhat * B + x <-> q * y' > u).
  Proof. intros E. unfold y', u. rewrite <- E. split; intros; nia. Qed.

  Lemma digit_gt q : q * y' > u <-> q > qt.
  Proof.
    destruct digit_qt_bounds as [_ [L U]]. pose proof digit_y_pos. split; intros; nia.
  Qed.

  (* the first estimate exceeds the true digit by at most 2 (normalised divisor) *)
  Lemma digit_estimate : hi / yn1 <= qt + 2.
  Proof.
    assert (Hy1 : 0 < yn1) by lia.
    pose proof (Z.div_mod hi yn1 ltac:(lia)) as E. pose proof (Z.mod_pos_bound hi yn1 Hy1) as Bm.
    set (qh := hi / yn1) in *.
    destruct digit_qt_bounds as [[Q0 Q1] [L U]].
    destruct (Z_le_gt_dec qh (qt + 2)) as [|G]; [assumption|exfalso].
    (* qh >= qt + 3 *)
    assert (Hu : qh * yn1 * B <= u) by (unfold u; nia).
    assert (Hlt : u < (qh - 2) * y') by nia.
    assert (K : 2 * yn1 * B < (qh - 2) * yn0) by (unfold y' in Hlt; nia).
    assert (Hqh : qh <= B + 1).
    { assert (hi < (yn1 + 1) * B) by nia.
      assert (qh * yn1 < (yn1 + 1) * B) by nia.
      destruct (Z_le_gt_dec qh (B + 1)); [assumption|]. assert (B + 2 <= qh) by lia. nia. }
    nia.
  Qed.
End Digit.

(* ---- corr_loop computes the true quotient digit ---- *)
Lemma corr_loop_ok pf B (HB : B = B64) yn1 yn0 hi x :
  0 <= yn0 < B -> B <= 2 * yn1 -> yn1 < B -> 0 <= hi < yn1 * B + yn0 -> 0 <= x < B ->
  forall fuel q rhat,
    q * yn1 + rhat = hi -> 0 <= rhat < B ->
    (hi * B + x) / (yn1 * B + yn0) <= q -> q - (hi * B + x) / (yn1 * B + yn0) < Z.of_nat fuel ->
    q <= (hi * B + x) / (yn1 * B + yn0) + 2 ->
    exists r', corr_loop fuel pf q rhat yn1 yn0 x = Val ((hi * B + x) / (yn1 * B + yn0), r').
Proof.
  intros H1 H2 H3 H4 H5.
  pose proof (digit_qt_bounds B yn1 yn0 hi x H1 H2 H4 H5) as [[Q0 Q1] _].
  set (qt := (hi * B + x) / (yn1 * B + yn0)) in *.
  induction fuel as [|f IH]; intros q rhat Inv Hr Hge Hfuel Hle; [lia|].
  cbn [corr_loop]. rewrite <- HB.
  pose proof (digit_test B yn1 yn0 hi x q rhat Inv) as T.
  pose proof (digit_gt B yn1 yn0 hi x H1 H2 H4 H5 q) as G. fold qt in G.
  assert (Hq0 : 0 <= q) by lia.
  (* evaluate the test *)
  assert (Ec : (if q >=? B then Val true
                else a <- ck_mul pf U128 q yn0 ;; b <- ck_mul pf U128 rhat B ;; b <- ck_add pf U128 b x ;; Val (a >? b))
               = Val (q >? qt)).
  { destruct (Z.geb_spec q B) as [Hb|Hb].
    - f_equal. symmetry. apply Z.gtb_lt. lia.
    - unfold ck_mul, ck_add.
      rewrite (ck_U128' pf B HB (q * yn0)) by nia. cbn [bind].
      rewrite (ck_U128' pf B HB (rhat * B)) by nia. cbn [bind].
      rewrite (ck_U128' pf B HB (rhat * B + x)) by nia. cbn [bind].
      f_equal. destruct (Z.gtb_spec (q * yn0) (rhat * B + x)); destruct (Z.gtb_spec q qt); try reflexivity; exfalso.
      + assert (Hc : q * yn0 > rhat * B + x) by lia. apply T in Hc. apply G in Hc. lia.
      + assert (Hc : q > qt) by lia. apply G in Hc. apply T in Hc. lia. }
  rewrite Ec. cbn [bind].
  destruct (Z.gtb_spec q qt) as [Hgt|Hngt].
  - (* estimate too large: decrement *)
    unfold ck_sub, ck_add.
    rewrite (ck_U128' pf B HB (q - 1)) by nia. cbn [bind].
    rewrite (ck_U128' pf B HB (rhat + yn1)) by nia. cbn [bind].
    destruct (Z.geb_spec (rhat + yn1) B) as [Hbig|Hsmall].
    + (* rhat >= B: (q-1) * y' <= u, so q - 1 is the digit *)
      exists (rhat + yn1). do 2 f_equal.
      assert (Inv' : (q - 1) * yn1 + (rhat + yn1) = hi) by lia.
      pose proof (digit_test B yn1 yn0 hi x (q - 1) (rhat + yn1) Inv') as T'.
      pose proof (digit_gt B yn1 yn0 hi x H1 H2 H4 H5 (q - 1)) as G'. fold qt in G'.
      destruct (Z_le_gt_dec (q - 1) qt); [lia|]. exfalso.
      assert (Hc : q - 1 > qt) by lia. apply G' in Hc. apply T' in Hc.
      assert (q - 1 <= B) by lia. nia.
    + apply IH; try lia.
  - exists rhat. do 2 f_equal. lia.
Qed.

(* ---- helpers for the normalisation and the wrapping subtraction ---- *)
Lemma wrap_U128_mod z : wrap U128 z = z mod 2 ^ 128.
Proof. reflexivity. Qed.

Lemma lor_disjoint m s t : 0 <= s -> 0 <= t < 2 ^ s -> 0 <= m -> Z.lor (m * 2 ^ s) t = m * 2 ^ s + t.
Proof.
  intros Hs Ht Hm.
  assert (L : Z.land (m * 2 ^ s) t = 0).
  { apply Z.bits_inj'. intros n Hn. rewrite Z.land_spec, Z.bits_0.
    destruct (Z_lt_le_dec n s).
    - rewrite Z.mul_pow2_bits_low by lia. reflexivity.
    - assert (Z.testbit t n = false).
      { destruct (Z.eq_dec t 0) as [->|]; [apply Z.bits_0|].
        apply Z.bits_above_log2; [lia|]. assert (Z.log2 t < s) by (apply Z.log2_lt_pow2; lia). lia. }
      rewrite H. apply andb_false_r. }
  rewrite <- Z.lxor_lor by exact L. symmetry. apply Z.add_nocarry_lxor. exact L.
Qed.

Lemma div_le_estimate B yn1 yn0 hi x :
  0 < yn1 -> 0 <= yn0 -> 0 <= hi -> 0 <= x < B ->
  (hi * B + x) / (yn1 * B + yn0) <= hi / yn1.
Proof.
  intros Hy1 Hy0 Hh Hx.
  assert (Hy : 0 < yn1 * B + yn0) by nia.
  pose proof (Z.div_mod (hi * B + x) (yn1 * B + yn0) ltac:(lia)) as E.
  pose proof (Z.mod_pos_bound (hi * B + x) (yn1 * B + yn0) Hy) as Bm.
  set (q := (hi * B + x) / (yn1 * B + yn0)) in *.
  assert (Hq0 : 0 <= q) by (apply Z.div_pos; nia).
  apply Z.div_le_lower_bound; [lia|].
  assert (q * yn1 * B <= hi * B + x) by nia.
  assert (q * yn1 * B < (hi + 1) * B) by nia.
  assert (q * yn1 < hi + 1) by nia. lia.
Qed.

(* two digit steps assemble the quotient of a three-digit number by a two-digit one *)
Lemma two_digits B y' d2 d1 d0 :
  0 < B -> 0 < y' -> 0 <= d2 < y' -> 0 <= d1 < B -> 0 <= d0 < B ->
  let q1 := (d2 * B + d1) / y' in
  let t := (d2 * B + d1) mod y' in
  let q0 := (t * B + d0) / y' in
  let r := (t * B + d0) mod y' in
  d2 * (B * B) + d1 * B + d0 = (q1 * B + q0) * y' + r /\
  0 <= r < y' /\ 0 <= t < y' /\ 0 <= q1 < B /\ 0 <= q0 < B.
Proof.
  intros HB Hy H2 H1 H0 q1 t q0 r.
  pose proof (Z.div_mod (d2 * B + d1) y' ltac:(lia)) as E1. pose proof (Z.mod_pos_bound (d2 * B + d1) y' Hy) as B1.
  pose proof (Z.div_mod (t * B + d0) y' ltac:(lia)) as E0. pose proof (Z.mod_pos_bound (t * B + d0) y' Hy) as B0.
  fold q1 t in E1, B1. fold q0 r in E0, B0.
  assert (Q1 : 0 <= q1 < B).
  { split; [apply Z.div_pos; nia|]. apply Z.div_lt_upper_bound; [lia|]. nia. }
  assert (Q0 : 0 <= q0 < B).
  { split; [apply Z.div_pos; nia|]. apply Z.div_lt_upper_bound; [lia|]. nia. }
  assert (Eq : d2 * (B * B) + d1 * B + d0 = (q1 * B + q0) * y' + r).
  { replace (d2 * (B * B) + d1 * B + d0) with ((d2 * B + d1) * B + d0) by ring.
    rewrite E1. replace ((y' * q1 + t) * B + d0) with (y' * q1 * B + (t * B + d0)) by ring.
    rewrite E0. ring. }
  split; [exact Eq|]. split; [exact B0|]. split; [exact B1|]. split; assumption.
Qed.

Lemma wsub_exact a b c : 0 <= a + b - c < 2 ^ 128 ->
  wrap U128 (wrap U128 (wrap U128 a + b) - wrap U128 c) = a + b - c.
Proof.
  intros H. rewrite !wrap_U128_mod.
  rewrite Zplus_mod_idemp_l. rewrite <- Zminus_mod. apply Z.mod_small. exact H.
Qed.

Lemma ck_shl_U128 pf a n : 0 <= n < 128 -> ck_shl pf U128 a n = Val (wrap U128 (a * 2 ^ n)).
Proof.
  intros Hn. unfold ck_shl. cbn [bits].
  destruct (Z.leb_spec 0 n); [|lia]. destruct (Z.ltb_spec n 128); [|lia]. reflexivity.
Qed.
Lemma ck_shr_U128 pf a n : 0 <= n < 128 -> ck_shr pf U128 a n = Val (a / 2 ^ n).
Proof.
  intros Hn. unfold ck_shr. cbn [bits].
  destruct (Z.leb_spec 0 n); [|lia]. destruct (Z.ltb_spec n 128); [|lia]. reflexivity.
Qed.

Lemma in_U8_small z : 0 <= z <= 255 -> in_range U8 z = true.
Proof. intros. apply in_range_iff. cbn. lia. Qed.

(* normalisation: shifting by the number of leading zeros *)
Lemma normalise_divisor y : 0 < y < 2 ^ 128 ->
  let s := 127 - Z.log2 y in
  0 <= s <= 127 /\ 2 ^ 127 <= y * 2 ^ s < 2 ^ 128.
Proof.
  intros Hy s. pose proof (Z.log2_spec y ltac:(lia)) as [L U].
  assert (0 <= Z.log2 y) by apply Z.log2_nonneg.
  assert (Z.log2 y < 128) by (apply Z.log2_lt_pow2; lia).
  split; [unfold s; lia|].
  assert (P : 2 ^ Z.log2 y * 2 ^ s = 2 ^ 127) by (rewrite <- Z.pow_add_r by (unfold s; lia); f_equal; unfold s; lia).
  assert (P2 : 2 ^ Z.succ (Z.log2 y) * 2 ^ s = 2 ^ 128) by (rewrite <- Z.pow_add_r by (unfold s; lia); f_equal; unfold s; lia).
  assert (0 < 2 ^ s) by (apply Z.pow_pos_nonneg; unfold s; lia).
  split; nia.
Qed.

Lemma shifted_split xh xl s :
  0 <= xh -> 0 <= xl < 2 ^ 128 -> 0 <= s <= 127 ->
  (xh * 2 ^ 128 + xl) * 2 ^ s = (xh * 2 ^ s + xl / 2 ^ (128 - s)) * 2 ^ 128 + (xl * 2 ^ s) mod 2 ^ 128.
Proof.
  intros Hxh Hxl Hs.
  assert (Hps : 0 < 2 ^ s) by (apply Z.pow_pos_nonneg; lia).
  assert (Hpt : 0 < 2 ^ (128 - s)) by (apply Z.pow_pos_nonneg; lia).
  assert (E : 2 ^ 128 = 2 ^ (128 - s) * 2 ^ s) by (rewrite <- Z.pow_add_r by lia; f_equal; lia).
  assert (D : (xl * 2 ^ s) / 2 ^ 128 = xl / 2 ^ (128 - s)).
  { rewrite E. apply Z.div_mul_cancel_r; lia. }
  pose proof (Z.div_mod (xl * 2 ^ s) (2 ^ 128) ltac:(lia)) as M. rewrite D in M.
  lia.
Qed.

Lemma denormalise N y P Q R :
  0 < P -> 0 < y -> N * P = Q * (y * P) + R -> 0 <= R < y * P ->
  Q = N / y /\ R / P = N mod y.
Proof.
  intros HP Hy E HR.
  assert (ER : R = (N - Q * y) * P) by lia.
  assert (HD : 0 <= N - Q * y < y).
  { rewrite ER in HR. destruct HR as [R0 R1]. split.
    - apply Z.mul_nonneg_cancel_r in R0; [lia|]. lia.
    - apply Z.mul_lt_mono_pos_r in R1; lia. }
  assert (ERd : R / P = N - Q * y) by (rewrite ER; apply Z_div_mult; lia).
  rewrite ERd. split.
  - apply (Z.div_unique_pos N y _ (N - Q * y)); [exact HD|]. ring.
  - apply (Z.mod_unique_pos N y Q); [exact HD|]. ring.
Qed.

Lemma mul_bound B q : 0 <= q < B -> 0 <= q * B < B * B.
Proof. intros. nia. Qed.

(* ---- u256_idiv_u128_special ---- *)
Lemma special_ok pf xh xl y :
  0 < y < 2 ^ 128 -> 0 <= xh < y -> 0 <= xl < 2 ^ 128 ->
  exists ql r, u256_idiv_u128_special pf xh xl y = Val (0, ql, r) /\
    0 <= ql < 2 ^ 128 /\ ql = (xh * 2 ^ 128 + xl) / y /\ r = (xh * 2 ^ 128 + xl) mod y.
Proof.
  intros Hy Hxh Hxl. unfold u256_idiv_u128_special.
  assert (Hd : dbg_assert pf (xh <? y) = Val tt).
  { unfold dbg_assert. destruct (Z.ltb_spec xh y); [|lia]. cbn. rewrite andb_false_r. reflexivity. }
  rewrite Hd. cbn [bind]. rewrite u128_msb_ok by exact Hy. cbn [bind].
  destruct (normalise_divisor y Hy) as [Hs Hy']. set (s := 127 - Z.log2 y) in *.
  unfold ck_sub. fold s. rewrite (ck_ok pf U8 s) by (apply in_U8_small; lia). cbn [bind].
  assert (Hps : 0 < 2 ^ s) by (apply Z.pow_pos_nonneg; lia).
  set (N := xh * 2 ^ 128 + xl).
  set (y' := y * 2 ^ s) in *.
  (* y <<= n_bits *)
  rewrite ck_shl_U128 by lia. cbn [bind]. rewrite wrap_U128_mod. rewrite (Z.mod_small y') by lia.
  (* bits shifted from xl into xh *)
  assert (Esh : (if s =? 0 then Val 0 else k <- ck pf U8 (128 - s) ;; ck_shr pf U128 xl k) = Val (xl / 2 ^ (128 - s))).
  { destruct (Z.eqb_spec s 0) as [E0|N0].
    - rewrite E0. change (2 ^ (128 - 0)) with (2 ^ 128). rewrite Z.div_small by lia. reflexivity.
    - rewrite ck_ok by (apply in_U8_small; lia). cbn [bind]. apply ck_shr_U128. lia. }
  rewrite Esh. cbn [bind].
  rewrite ck_shl_U128 by lia. cbn [bind]. rewrite wrap_U128_mod.
  assert (Ha : 0 <= xh * 2 ^ s < y') by (unfold y'; nia).
  rewrite (Z.mod_small (xh * 2 ^ s)) by lia.
  assert (Hsh : 0 <= xl / 2 ^ (128 - s) < 2 ^ s).
  { assert (0 < 2 ^ (128 - s)) by (apply Z.pow_pos_nonneg; lia).
    split; [apply Z.div_pos; lia|]. apply Z.div_lt_upper_bound; [lia|].
    rewrite <- Z.pow_add_r by lia. replace (128 - s + s) with 128 by lia. lia. }
  rewrite lor_disjoint by lia.
  set (xn32 := xh * 2 ^ s + xl / 2 ^ (128 - s)).
  rewrite ck_shl_U128 by lia. cbn [bind]. rewrite wrap_U128_mod.
  set (xn10 := (xl * 2 ^ s) mod 2 ^ 128).
  assert (Hxn10 : 0 <= xn10 < 2 ^ 128) by (apply Z.mod_pos_bound; lia).
  assert (ENs : N * 2 ^ s = xn32 * 2 ^ 128 + xn10) by (apply shifted_split; lia).
  assert (Hxn32 : 0 <= xn32 < y').
  { split; [unfold xn32; lia|].
    assert (N < y * 2 ^ 128) by (unfold N; nia).
    assert (N * 2 ^ s < y' * 2 ^ 128) by (unfold y'; nia). nia. }
  (* digits of the normalised divisor; from here on the word base is abstract *)
  assert (Hyn1 : B64 <= 2 * u128_hi y').
  { rewrite u128_hi_div by lia. assert (2 ^ 127 / B64 <= y' / B64) by (apply Z.div_le_mono; [reflexivity|lia]).
    change (2 ^ 127 / B64) with (2 ^ 63) in H. change B64 with (2 * 2 ^ 63) at 1. lia. }
  rewrite <- B64_sq in *. pose proof B64_pos as HBpos.
  remember B64 as B eqn:HB.
  destruct (hi_lo' B HB y' ltac:(lia)) as (Ey & Hyh & Hyl).
  destruct (hi_lo' B HB xn10 Hxn10) as (Ex & Hx1 & Hx0).
  set (yn1 := u128_hi y') in *. set (yn0 := u128_lo y') in *.
  set (xn1 := u128_hi xn10) in *. set (xn0 := u128_lo xn10) in *.
  assert (Hyn1pos : 0 < yn1) by lia.
  (* first quotient digit *)
  rewrite (t_div_u128 xn32 yn1) by lia. rewrite (t_rem_u128 xn32 yn1) by lia. cbn [bind].
  assert (H4 : 0 <= xn32 < yn1 * B + yn0) by lia.
  pose proof (Z.div_mod xn32 yn1 ltac:(lia)) as Dm. pose proof (Z.mod_pos_bound xn32 yn1 Hyn1pos) as Bm.
  pose proof (digit_estimate B yn1 yn0 xn32 xn1 Hyl Hyn1 ltac:(lia) H4 Hx1) as Est1.
  pose proof (div_le_estimate B yn1 yn0 xn32 xn1 Hyn1pos ltac:(lia) ltac:(lia) Hx1) as Le1.
  destruct (corr_loop_ok pf B HB yn1 yn0 xn32 xn1 Hyl Hyn1 ltac:(lia) H4 Hx1 CORR_FUEL (xn32 / yn1) (xn32 mod yn1)
              ltac:(lia) ltac:(lia) Le1 ltac:(change (Z.of_nat CORR_FUEL) with 4; lia) Est1) as (r1' & C1).
  rewrite C1. cbn [bind].
  destruct (two_digits B (yn1 * B + yn0) xn32 xn1 xn0 HBpos ltac:(lia) H4 Hx1 Hx0) as (Eq2 & HR & HT & HQ1 & HQ0).
  cbv zeta in Eq2, HR, HT, HQ1, HQ0.
  set (qd1 := (xn32 * B + xn1) / (yn1 * B + yn0)) in *.
  set (T := (xn32 * B + xn1) mod (yn1 * B + yn0)) in *.
  set (qd0 := (T * B + xn0) / (yn1 * B + yn0)) in *.
  set (R := (T * B + xn0) mod (yn1 * B + yn0)) in *.
  pose proof (Z.div_mod (xn32 * B + xn1) (yn1 * B + yn0) ltac:(lia)) as DT. fold qd1 T in DT.
  pose proof (Z.div_mod (T * B + xn0) (yn1 * B + yn0) ltac:(lia)) as DR. fold qd0 R in DR.
  (* t = xn32 * B + xn1 - q1 * y, exactly, in wrapping arithmetic *)
  assert (Et : wsub_step xn32 xn1 qd1 y' = T).
  { unfold wsub_step. rewrite <- HB. rewrite wsub_exact; [rewrite Ey; lia|]. rewrite Ey. rewrite <- B64_sq, <- HB. lia. }
  rewrite Et.
  (* second quotient digit *)
  rewrite (t_div_u128 T yn1) by lia. rewrite (t_rem_u128 T yn1) by lia. cbn [bind].
  assert (H4' : 0 <= T < yn1 * B + yn0) by lia.
  pose proof (Z.div_mod T yn1 ltac:(lia)) as Dm'. pose proof (Z.mod_pos_bound T yn1 Hyn1pos) as Bm'.
  pose proof (digit_estimate B yn1 yn0 T xn0 Hyl Hyn1 ltac:(lia) H4' Hx0) as Est0.
  pose proof (div_le_estimate B yn1 yn0 T xn0 Hyn1pos ltac:(lia) ltac:(lia) Hx0) as Le0.
  destruct (corr_loop_ok pf B HB yn1 yn0 T xn0 Hyl Hyn1 ltac:(lia) H4' Hx0 CORR_FUEL (T / yn1) (T mod yn1)
              ltac:(lia) ltac:(lia) Le0 ltac:(change (Z.of_nat CORR_FUEL) with 4; lia) Est0) as (r0' & C0).
  rewrite C0. cbn [bind]. fold qd0.
  (* write back *)
  unfold ck_mul, ck_add. try rewrite <- HB.
  rewrite (ck_U128' pf B HB (qd1 * B)) by (apply mul_bound; assumption). cbn [bind].
  rewrite (ck_U128' pf B HB (qd1 * B + qd0)) by (apply pack_bound; assumption). cbn [bind].
  assert (Er : wsub_step T xn0 qd0 y' = R).
  { unfold wsub_step. try rewrite <- HB. rewrite wsub_exact; [rewrite Ey; lia|]. rewrite Ey. rewrite <- B64_sq, <- HB. lia. }
  rewrite Er. rewrite ck_shr_U128 by lia. cbn [bind].
  exists (qd1 * B + qd0), (R / 2 ^ s). split; [reflexivity|].
  split; [apply pack_bound; assumption|].
  (* de-normalise *)
  assert (EN : N * 2 ^ s = (qd1 * B + qd0) * (y * 2 ^ s) + R).
  { rewrite ENs. rewrite Ex. fold y'. rewrite Ey.
    replace (xn32 * (B * B) + (xn1 * B + xn0)) with (xn32 * (B * B) + xn1 * B + xn0) by ring. exact Eq2. }
  assert (HR' : 0 <= R < y * 2 ^ s) by (fold y'; rewrite Ey; exact HR).
  destruct (denormalise N y (2 ^ s) (qd1 * B + qd0) R Hps ltac:(lia) EN HR') as [D1 D2].
  split; assumption.
Qed.

(* ---- u256_idiv_u128 ---- *)
Lemma u256_idiv_u128_ok pf xh xl y :
  0 <= xh < 2 ^ 128 -> 0 <= xl < 2 ^ 128 -> 0 < y < 2 ^ 128 ->
  exists qh ql r, u256_idiv_u128 pf xh xl y = Val (qh, ql, r) /\
    0 <= qh < 2 ^ 128 /\ 0 <= ql < 2 ^ 128 /\
    qh * 2 ^ 128 + ql = (xh * 2 ^ 128 + xl) / y /\ r = (xh * 2 ^ 128 + xl) mod y.
Proof.
  intros Hxh Hxl Hy. unfold u256_idiv_u128.
  destruct (hi_lo y ltac:(lia)) as (Ey & Hyh & Hyl).
  destruct (Z.eqb_spec (u128_hi y) 0) as [E0|N0].
  - (* divisor fits one word *)
    assert (Ely : u128_lo y = y) by lia.
    rewrite Ely. rewrite cast_id by (apply in_range_iff; cbn; rewrite B64_val in *; lia).
    apply u256_idiv_u64_ok; try assumption. lia.
  - destruct (Z.ltb_spec xh y) as [Hlt|Hge].
    + destruct (special_ok pf xh xl y Hy ltac:(lia) Hxl) as (ql & r & E & Hq & Eq & Er).
      exists 0, ql, r. rewrite E. repeat split; try lia.
    + pose proof (Z.div_mod xh y ltac:(lia)) as D. pose proof (Z.mod_pos_bound xh y ltac:(lia)) as Bm.
      rewrite t_rem_u128 by lia. cbn [bind].
      destruct (special_ok pf (xh mod y) xl y Hy Bm Hxl) as (ql & r & E & Hq & Eq & Er).
      rewrite E. cbn [bind]. rewrite t_div_u128 by lia. cbn [bind].
      exists (xh / y), ql, r. split; [reflexivity|].
      assert (Hqh : 0 <= xh / y < 2 ^ 128).
      { split; [apply Z.div_pos; lia|]. apply Z.div_lt_upper_bound; [lia|]. nia. }
      split; [exact Hqh|]. split; [exact Hq|].
      set (t := xh mod y) in *. set (qh := xh / y) in *.
      pose proof (Z.div_mod (t * 2 ^ 128 + xl) y ltac:(lia)) as D2.
      pose proof (Z.mod_pos_bound (t * 2 ^ 128 + xl) y ltac:(lia)) as B2.
      rewrite <- Eq, <- Er in D2. rewrite <- Er in B2.
      assert (P : xh * 2 ^ 128 + xl = y * (qh * 2 ^ 128 + ql) + r).
      { rewrite D. replace ((y * qh + t) * 2 ^ 128 + xl) with (y * qh * 2 ^ 128 + (t * 2 ^ 128 + xl)) by ring.
        rewrite D2. ring. }
      split.
      * apply (Z.div_unique_pos _ y _ r); [lia|exact P].
      * apply (Z.mod_unique_pos _ y (qh * 2 ^ 128 + ql)); [lia|exact P].
Qed.

(* floor division of a negative number from the division of its magnitude *)
Lemma floor_of_neg P m : 0 < m -> 0 <= P ->
  (P mod m = 0 -> (- P) / m = - (P / m) /\ (- P) mod m = 0) /\
  (P mod m <> 0 -> (- P) / m = - (P / m) - 1 /\ (- P) mod m = m - P mod m).
Proof.
  intros Hm HP. pose proof (Z.div_mod P m ltac:(lia)) as D. pose proof (Z.mod_pos_bound P m Hm) as B.
  set (q := P / m) in *. set (r := P mod m) in *. split; intros Hr.
  - split.
    + symmetry. apply (Z.div_unique_pos (- P) m (- q) 0); lia.
    + symmetry. apply (Z.mod_unique_pos (- P) m (- q)); lia.
  - split.
    + symmetry. apply (Z.div_unique_pos (- P) m (- q - 1) (m - r)); lia.
    + symmetry. apply (Z.mod_unique_pos (- P) m (- q - 1)); lia.
Qed.

(* ---- the two signed kernels satisfy their contracts ---- *)
From FP Require Import Rounding RoundSpec Out ArithSpec Run KernelContract.

Lemma kernel_tail pf (neg : bool) P m qh ql r :
  0 < m <= MAXC -> 0 <= P ->
  0 <= qh -> 0 <= ql < 2 ^ 128 -> qh * 2 ^ 128 + ql = P / m -> r = P mod m ->
  exists o,
    (if negb (qh =? 0) || (ql >? tmax I128) then Val None else
     let q := cast I128 ql in
     let r := cast I128 r in
     if neg then
       if r =? 0 then q' <- ck_neg pf I128 q ;; Val (Some (q', r))
       else q' <- ck_neg pf I128 q ;; q' <- ck_sub pf I128 q' 1 ;; r' <- ck_sub pf I128 m r ;; Val (Some (q', r'))
     else Val (Some (q, r))) = Val o /\
    floor_ok (if neg then - P else P) m o.
Proof.
  intros Hm HP Hqh Hql Eq Er. rewrite MAXC_val in Hm.
  pose proof (Z.mod_pos_bound P m ltac:(lia)) as Bm. rewrite <- Er in Bm.
  assert (Habs : Z.abs (if neg then - P else P) = P) by (destruct neg; lia).
  rewrite tmax_I128, pow2_127.
  destruct (Z.eqb_spec qh 0) as [Q0|Q0]; cbn [negb orb].
  2:{ eexists. split; [reflexivity|]. unfold floor_ok. rewrite Habs, <- Eq, MAXC_val. rewrite pow2_128. nia. }
  destruct (Z.gtb_spec ql (170141183460469231731687303715884105728 - 1)) as [G|G].
  { eexists. split; [reflexivity|]. unfold floor_ok. rewrite Habs, <- Eq, MAXC_val. lia. }
  subst qh. rewrite Z.mul_0_l, Z.add_0_l in Eq.
  rewrite !cast_id by (apply in_I128_iff; rewrite pow2_127; lia). cbv zeta.
  destruct (floor_of_neg P m ltac:(lia) HP) as [F0 F1]. rewrite <- Er, <- Eq in F0, F1.
  destruct neg.
  - destruct (Z.eqb_spec r 0) as [R0|R0].
    + unfold ck_neg. rewrite ck_ok by (apply in_I128_iff; rewrite pow2_127; lia). cbn [bind].
      eexists. split; [reflexivity|]. destruct (F0 R0) as [Fq Fr]. unfold floor_ok. rewrite Habs, <- Eq, MAXC_val.
      repeat split; [lia|symmetry; exact Fq|]. rewrite Fr. exact R0.
    + unfold ck_neg, ck_sub. rewrite (ck_ok pf I128 (- ql)) by (apply in_I128_iff; rewrite pow2_127; lia). cbn [bind].
      rewrite (ck_ok pf I128 (- ql - 1)) by (apply in_I128_iff; rewrite pow2_127; lia). cbn [bind].
      rewrite (ck_ok pf I128 (m - r)) by (apply in_I128_iff; rewrite pow2_127; lia). cbn [bind].
      eexists. split; [reflexivity|]. destruct (F1 R0) as [Fq Fr]. unfold floor_ok. rewrite Habs, <- Eq, MAXC_val.
      repeat split; [lia|symmetry; exact Fq|symmetry; exact Fr].
  - eexists. split; [reflexivity|]. unfold floor_ok. rewrite Habs, <- Eq, MAXC_val. repeat split; [lia|exact Er].
Qed.

Theorem sdmf_contract_holds : sdmf_contract.
Proof.
  intros pf a k m Ha Hk Hm. unfold i128_shifted_div_mod_floor.
  rewrite ten_pow_ok by lia. cbn [bind].
  pose proof (pow10_pos k ltac:(lia)) as Pk. pose proof (pow10_le_38 k Hk) as Pk38. pose proof pow10_38_lt as H38.
  rewrite (cast_id U128 (10 ^ k)) by (apply in_U128_iff; rewrite pow2_128; rewrite pow2_127 in H38; lia).
  unfold unsigned_abs. rewrite MAXC_val in Ha, Hm. rewrite pow2_127 in H38.
  rewrite u128_mul_u128_ok by (rewrite pow2_128; lia). cbn [bind].
  set (P := Z.abs a * 10 ^ k).
  assert (HP : 0 <= P) by (unfold P; nia).
  assert (HPb : P < 2 ^ 127 * 2 ^ 127) by (unfold P; rewrite pow2_127; nia).
  assert (Hxh : 0 <= P / 2 ^ 128 < 2 ^ 128).
  { split; [apply Z.div_pos; lia|]. apply Z.div_lt_upper_bound; [lia|].
    change (2 ^ 128 * 2 ^ 128) with (4 * (2 ^ 127 * 2 ^ 127)). lia. }
  pose proof (Z.mod_pos_bound P (2 ^ 128) ltac:(lia)) as Hxl.
  destruct (u256_idiv_u128_ok pf (P / 2 ^ 128) (P mod 2 ^ 128) (Z.abs m) Hxh Hxl ltac:(rewrite pow2_128; lia))
    as (qh & ql & r & E & Hqh & Hql & Eq & Er).
  rewrite E. cbn [bind].
  rewrite (Z.abs_eq m) in * by lia.
  assert (EP : P / 2 ^ 128 * 2 ^ 128 + P mod 2 ^ 128 = P).
  { pose proof (Z.div_mod P (2 ^ 128) ltac:(lia)). lia. }
  rewrite EP in Eq, Er.
  destruct (Z.ltb_spec m 0); [lia|].
  destruct (kernel_tail pf (a <? 0) P m qh ql r ltac:(rewrite MAXC_val; lia) HP ltac:(lia) Hql Eq Er) as (o & Ho & Hf).
  exists o. split.
  - rewrite <- Ho. destruct (negb (qh =? 0) || (ql >? tmax I128)); [reflexivity|]. cbv zeta.
    destruct (a <? 0); reflexivity.
  - assert (EN : a * 10 ^ k = if a <? 0 then - P else P).
    { unfold P. destruct (Z.ltb_spec a 0); [rewrite Z.abs_neq by lia|rewrite Z.abs_eq by lia]; ring. }
    rewrite EN. exact Hf.
Qed.

Theorem i256_contract_holds : i256_contract.
Proof.
  intros pf a b m Ha Hb Hm. unfold i256_div_mod_floor.
  assert (Hd : dbg_assert pf (m >? 0) = Val tt).
  { unfold dbg_assert. destruct (Z.gtb_spec m 0); [|lia]. cbn. rewrite andb_false_r. reflexivity. }
  rewrite Hd. cbn [bind]. unfold unsigned_abs. rewrite MAXC_val in Ha, Hb, Hm.
  rewrite u128_mul_u128_ok by (rewrite pow2_128; lia). cbn [bind].
  set (P := Z.abs a * Z.abs b).
  assert (HP : 0 <= P) by (unfold P; nia).
  assert (HPb : P < 2 ^ 127 * 2 ^ 127) by (unfold P; rewrite pow2_127; nia).
  assert (Hxh : 0 <= P / 2 ^ 128 < 2 ^ 128).
  { split; [apply Z.div_pos; lia|]. apply Z.div_lt_upper_bound; [lia|].
    change (2 ^ 128 * 2 ^ 128) with (4 * (2 ^ 127 * 2 ^ 127)). lia. }
  pose proof (Z.mod_pos_bound P (2 ^ 128) ltac:(lia)) as Hxl.
  destruct (u256_idiv_u128_ok pf (P / 2 ^ 128) (P mod 2 ^ 128) (Z.abs m) Hxh Hxl ltac:(rewrite pow2_128; lia))
    as (qh & ql & r & E & Hqh & Hql & Eq & Er).
  rewrite E. cbn [bind].
  rewrite (Z.abs_eq m) in * by lia.
  assert (EP : P / 2 ^ 128 * 2 ^ 128 + P mod 2 ^ 128 = P).
  { pose proof (Z.div_mod P (2 ^ 128) ltac:(lia)). lia. }
  rewrite EP in Eq, Er.
  set (ng := negb (Bool.eqb (a <? 0) (b <? 0))).
  destruct (kernel_tail pf ng P m qh ql r ltac:(rewrite MAXC_val; lia) HP ltac:(lia) Hql Eq Er) as (o & Ho & Hf).
  exists o. split.
  - rewrite <- Ho. reflexivity.
  - assert (EN : a * b = if ng then - P else P).
    { unfold P, ng. destruct (Z.ltb_spec a 0); destruct (Z.ltb_spec b 0); cbn [Bool.eqb negb];
        rewrite ?(Z.abs_neq a), ?(Z.abs_eq a), ?(Z.abs_neq b), ?(Z.abs_eq b) by lia; ring. }
    rewrite EN. exact Hf.
Qed.
