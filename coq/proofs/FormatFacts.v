(* FormatFacts.v — C07 / C11: rendering.  The model's digit generators equal the
   specification's; String::from / Debug / Display without flags give [canon]. *)
From FP Require Import Machine SrcConsts Pow10 Rounding Format RoundSpec Out ArithSpec StringSpec Run RunMore.
From FP Require Import MachineFacts Pow10Facts OutFacts RoundSpecFacts RoundingFacts UnopsFacts Lt5Facts.

Local Open Scope Z_scope.

(* ---- digits ---- *)
Lemma digits_aux_S f v acc :
  digits_aux (S f) v acc = if v <? 10 then (48 + v mod 10) :: acc else digits_aux f (v / 10) ((48 + v mod 10) :: acc).
Proof. reflexivity. Qed.
Lemma sdigits_S f v : sdigits (S f) v = if v <? 10 then [48 + v] else sdigits f (v / 10) ++ [48 + v mod 10].
Proof. reflexivity. Qed.

Lemma digits_aux_sdigits : forall f1 f2 v acc,
  0 <= v -> v < 10 ^ Z.of_nat (S f1) -> v < 10 ^ Z.of_nat (S f2) ->
  digits_aux (S f1) v acc = sdigits (S f2) v ++ acc.
Proof.
  induction f1 as [|f1 IH]; intros f2 v acc Hv H1 H2.
  - change (10 ^ Z.of_nat 1) with 10 in H1. rewrite digits_aux_S, sdigits_S.
    destruct (Z.ltb_spec v 10); [|lia]. rewrite Z.mod_small by lia. reflexivity.
  - rewrite digits_aux_S, sdigits_S. destruct (Z.ltb_spec v 10) as [L|G].
    + rewrite Z.mod_small by lia. reflexivity.
    + assert (H1' : v / 10 < 10 ^ Z.of_nat (S f1)).
      { apply Z.div_lt_upper_bound; [lia|]. rewrite (Nat2Z.inj_succ (S f1)), Z.pow_succ_r in H1 by lia. lia. }
      destruct f2 as [|f2].
      { change (10 ^ Z.of_nat 1) with 10 in H2. lia. }
      assert (H2' : v / 10 < 10 ^ Z.of_nat (S f2)).
      { apply Z.div_lt_upper_bound; [lia|]. rewrite (Nat2Z.inj_succ (S f2)), Z.pow_succ_r in H2 by lia. lia. }
      rewrite (IH f2) by (try assumption; apply Z.div_pos; lia).
      rewrite <- app_assoc. reflexivity.
Qed.

Lemma digits_of_sdigits v : 0 <= v < 10 ^ 45 -> digits_of v = sdigits_of v.
Proof.
  intros Hv. unfold digits_of, sdigits_of.
  rewrite (digits_aux_sdigits 44 49 v []); [apply app_nil_r|lia|exact (proj2 Hv)|].
  apply Z.lt_trans with (10 ^ 45); [lia|reflexivity].
Qed.

Lemma zeros_szeros n : zeros n = szeros (Z.to_nat n).
Proof. unfold zeros. induction (Z.to_nat n) as [|k IH]; cbn; [reflexivity|]. rewrite IH. reflexivity. Qed.

Lemma pad0_fixed w v : 0 <= v < 10 ^ 45 -> pad0 w (digits_of v) = fixed_digits w v.
Proof. intros Hv. unfold pad0, fixed_digits. rewrite digits_of_sdigits by assumption. rewrite zeros_szeros. reflexivity. Qed.

(* length and shape of the specification's digit strings *)
Lemma sdigits_length : forall f v k, 0 <= k -> 10 ^ k <= v < 10 ^ (k + 1) -> (Z.to_nat k < f)%nat ->
  Z.of_nat (length (sdigits f v)) = k + 1.
Proof.
  induction f as [|f IH]; intros v k Hk Hv Hf; [lia|].
  cbn [sdigits]. destruct (Z.ltb_spec v 10) as [L|G].
  - assert (k = 0).
    { destruct (Z.eq_dec k 0); [assumption|]. assert (10 ^ 1 <= 10 ^ k) by (apply Z.pow_le_mono_r; lia). change (10 ^ 1) with 10 in *. lia. }
    subst k. reflexivity.
  - assert (Hk1 : 1 <= k).
    { destruct (Z_le_gt_dec 1 k); [assumption|]. assert (k = 0) by lia. subst k. change (10 ^ (0 + 1)) with 10 in Hv. lia. }
    rewrite app_length. cbn [length]. rewrite Nat2Z.inj_add.
    assert (Hb : 10 ^ (k - 1) <= v / 10 < 10 ^ (k - 1 + 1)).
    { assert (E1 : 10 ^ k = 10 * 10 ^ (k - 1)) by (rewrite <- Z.pow_succ_r by lia; f_equal; lia).
      assert (E2 : 10 ^ (k + 1) = 10 * 10 ^ (k - 1 + 1)) by (rewrite <- Z.pow_succ_r by lia; f_equal; lia).
      rewrite E1, E2 in Hv.
      split; [apply Z.div_le_lower_bound; lia|apply Z.div_lt_upper_bound; lia]. }
    rewrite (IH (v / 10) (k - 1) ltac:(lia) Hb ltac:(lia)). cbn. lia.
Qed.

Lemma szeros_length n : length (szeros n) = n.
Proof. induction n; cbn; congruence. Qed.

(* exactly w digits after the point *)
Lemma fixed_digits_length w v : 0 <= v < 10 ^ w -> 0 < w <= 45 ->
  Z.of_nat (length (fixed_digits w v)) = w.
Proof.
  intros Hv Hw. unfold fixed_digits.
  rewrite app_length, szeros_length.
  assert (HL : 1 <= Z.of_nat (length (sdigits_of v)) <= w).
  { destruct (Z.eq_dec v 0) as [->|Nz]; [cbn; lia|].
    (* v in [10^k, 10^(k+1)) for k = ilog10 v *)
    assert (H45 : 10 ^ w <= 10 ^ 45) by (apply Z.pow_le_mono_r; lia).
    destruct (ilog10_spec v) as (Hk & Hb).
    { split; [lia|]. apply Z.lt_trans with (10 ^ 46); [|reflexivity].
      apply Z.lt_le_trans with (10 ^ 45); [lia|]. apply Z.pow_le_mono_r; lia. }
    set (k := ilog10 v) in *.
    assert (Hkw : k + 1 <= w).
    { destruct (Z_le_gt_dec (k + 1) w); [assumption|exfalso].
      assert (10 ^ w <= 10 ^ k) by (apply Z.pow_le_mono_r; lia). lia. }
    unfold sdigits_of. rewrite (sdigits_length 50 v k Hk Hb) by lia. lia. }
  rewrite Nat2Z.inj_add, Z2Nat.id by lia. lia.
Qed.

(* ---- String::from / Debug ---- *)
Lemma abs_lt_pow45 c : - 2 ^ 127 < c < 2 ^ 127 -> 0 <= Z.abs c < 10 ^ 45.
Proof. intros H. split; [lia|]. apply Z.lt_trans with (2 ^ 127); [lia|reflexivity]. Qed.

Lemma display_int_nonneg a : 0 <= a -> display_int a = digits_of a.
Proof. intros H. unfold display_int. destruct (Z.ltb_spec a 0); [lia|reflexivity]. Qed.

Lemma string_from_canon pf d : wf d = true -> string_from pf d = Val (canon d).
Proof.
  intros Hd. destruct (wf_bounds _ Hd) as [Hc Hp]. pose proof (abs_lt_pow45 _ Hc) as Ha.
  unfold string_from, canon, canon_abs.
  destruct (Z.eqb_spec (nfd d) 0) as [E0|N0].
  - rewrite E0. change (10 ^ 0) with 1. rewrite Z.div_1_r. cbn [Z.ltb Z.compare]. rewrite app_nil_r.
    unfold display_int. destruct (Z.ltb_spec (coeff d) 0).
    + rewrite digits_of_sdigits by lia. rewrite Z.abs_neq by lia. reflexivity.
    + rewrite digits_of_sdigits by lia. rewrite Z.abs_eq by lia. reflexivity.
  - unfold ck_abs. rewrite ck_ok by (apply in_I128_iff; lia). cbn [bind].
    rewrite ten_pow_ok by lia. cbn [bind].
    pose proof (pow10_pos (nfd d) ltac:(lia)) as Ht.
    assert (Ht' : 10 ^ nfd d < 2 ^ 127).
    { pose proof (pow10_le_38 (nfd d) ltac:(lia)). pose proof pow10_38_lt. lia. }
    rewrite div_mod_floor_pos by (try apply in_I128_iff; lia). cbn [bind].
    destruct (Z.ltb_spec 0 (nfd d)); [|lia].
    unfold render_parts.
    assert (Hq : 0 <= Z.abs (coeff d) / 10 ^ nfd d < 10 ^ 45).
    { split; [apply Z.div_pos; lia|]. apply Z.le_lt_trans with (Z.abs (coeff d)); [|lia].
      apply Z.div_le_upper_bound; [lia|]. nia. }
    pose proof (Z.mod_pos_bound (Z.abs (coeff d)) (10 ^ nfd d) Ht) as Hm.
    rewrite digits_of_sdigits by exact Hq.
    rewrite pad0_fixed by (split; [lia|]; apply Z.lt_trans with (2 ^ 127); [lia|reflexivity]).
    f_equal. f_equal.
    destruct (Z.geb_spec (coeff d) 0); destruct (Z.ltb_spec (coeff d) 0); try lia; reflexivity.
Qed.

Lemma tostring_acc pf d : wf d = true -> acc_tostring d (run_tostring pf d) = true.
Proof.
  intros Hd. unfold acc_tostring, run_tostring. rewrite string_from_canon by assumption. apply out_eqb_refl.
Qed.

(* shape of the canonical string *)
Lemma canon_fraction_length d : wf d = true -> 0 < nfd d ->
  exists intpart frac, canon d = (if coeff d <? 0 then [45] else []) ++ intpart ++ 46 :: frac /\
                       Z.of_nat (length frac) = nfd d /\ intpart = sdigits_of (Z.abs (coeff d) / 10 ^ nfd d).
Proof.
  intros Hd Hf. destruct (wf_bounds _ Hd) as [Hc Hp].
  unfold canon, canon_abs. destruct (Z.ltb_spec 0 (nfd d)); [|lia].
  eexists. eexists. split; [reflexivity|]. split; [|reflexivity].
  apply fixed_digits_length; [|lia]. apply Z.mod_pos_bound. apply pow10_pos. lia.
Qed.

(* ---- Formatter::pad_integral against the declarative padding ---- *)
Definition conv_align (a : align) : salign :=
  match a with ALeft => SLeft | ARight => SRight | ACenter => SCenter | AUnknown => SDefault end.
Definition conv (fs : fmtspec) : sfmt :=
  mksfmt (f_fill fs) (conv_align (f_align fs)) (f_plus fs) (f_alt fs) (f_zero fs) (f_width fs) (f_prec fs).

Lemma rep_fill_srep n fill : rep_fill n fill = srep n fill.
Proof. induction n as [|n IH]; cbn; [reflexivity|]. rewrite IH. reflexivity. Qed.
Lemma rep_fill_szeros n : rep_fill n [48] = szeros n.
Proof. induction n as [|n IH]; cbn; [reflexivity|]. rewrite IH. reflexivity. Qed.

Lemma half_up pad : 0 <= pad -> (pad + 1) / 2 = pad - pad / 2.
Proof.
  intros H. pose proof (Z.div_mod pad 2 ltac:(lia)). pose proof (Z.mod_pos_bound pad 2 ltac:(lia)).
  assert (pad mod 2 = 0 \/ pad mod 2 = 1) as [E|E] by lia.
  - replace (pad + 1) with (1 + (pad / 2) * 2) by lia. rewrite Z.div_add by lia. cbn. lia.
  - replace (pad + 1) with (0 + (pad / 2 + 1) * 2) by lia. rewrite Z.div_add by lia. cbn. lia.
Qed.

Lemma pad_integral_spec fs nonneg buf :
  pad_integral fs nonneg buf =
  pad_spec (conv fs) (if negb nonneg then [45] else if f_plus fs then [43] else []) buf.
Proof.
  unfold pad_integral, pad_spec, conv. cbn [s_width s_zero s_align s_fill].
  set (sign := if negb nonneg then [45] else if f_plus fs then [43] else []).
  destruct (f_width fs) as [w|]; [|reflexivity].
  rewrite (Z.add_comm (Z.of_nat (length buf))).
  set (n := Z.of_nat (length sign) + Z.of_nat (length buf)).
  destruct (Z.geb_spec n w); destruct (Z.leb_spec w n); try lia; [reflexivity|].
  destruct (f_zero fs).
  - rewrite rep_fill_szeros. reflexivity.
  - unfold padding. destruct (f_align fs); cbn [conv_align]; rewrite ?rep_fill_srep; cbn [Z.to_nat rep_fill srep app];
      rewrite ?app_nil_r; try reflexivity.
    rewrite half_up by lia. try rewrite rep_fill_srep. reflexivity.
Qed.

(* ---- Display with precision / width / flags ---- *)
Lemma pow_le_45 p : 0 <= p <= 18 -> 10 ^ p < 10 ^ 45.
Proof. intros. apply Z.pow_lt_mono_r; lia. Qed.

Lemma canon_abs_model int frac a p :
  0 <= p <= 18 -> 0 <= a -> a / 10 ^ p < 10 ^ 45 -> int = a / 10 ^ p -> frac = a mod 10 ^ p ->
  (if p >? 0 then digits_of int ++ [46] ++ pad0 p (digits_of frac) else digits_of int) = canon_abs a p.
Proof.
  intros Hp Ha Hq' -> ->. unfold canon_abs.
  pose proof (pow10_pos p ltac:(lia)) as Ht. pose proof (pow_le_45 p Hp) as H45.
  assert (Hq : 0 <= a / 10 ^ p < 10 ^ 45) by (split; [apply Z.div_pos; lia|assumption]).
  pose proof (Z.mod_pos_bound a (10 ^ p) Ht) as Hm.
  rewrite digits_of_sdigits by exact Hq.
  rewrite Z.gtb_ltb. destruct (Z.ltb_spec 0 p).
  - rewrite pad0_fixed by lia. reflexivity.
  - rewrite app_nil_r. reflexivity.
Qed.

Lemma div_le_self a t : 0 <= a -> 0 < t -> a / t <= a.
Proof. intros. apply Z.div_le_upper_bound; [lia|]. nia. Qed.

Lemma if_val {A} (b : bool) (x y : A) : (if b then Val x else Val y) = Val (if b then x else y).
Proof. destruct b; reflexivity. Qed.

Lemma display_spec pf m fs d :
  wf d = true -> (forall P, f_prec fs = Some P -> 0 <= P) ->
  display pf m fs d = Val (fmt_spec m (conv fs) d).
Proof.
  intros Hd HP. destruct (wf_bounds _ Hd) as [Hc Hf]. pose proof (abs_lt_pow45 _ Hc) as Ha.
  unfold display, fmt_spec. cbn [conv s_prec s_plus].
  change MAX_N_FRAC_DIGITS with 18.
  (* the effective precision *)
  set (p := match f_prec fs with Some P => Z.min P 18 | None => nfd d end).
  assert (Hp : 0 <= p <= 18).
  { unfold p. destruct (f_prec fs) as [P|] eqn:E; [pose proof (HP P eq_refl); lia|lia]. }
  assert (Ep : match f_prec fs with Some p0 => cast U8 (Z.min p0 18) | None => nfd d end = p).
  { unfold p. destruct (f_prec fs) as [P|] eqn:E; [|reflexivity].
    pose proof (HP P eq_refl). apply cast_id. apply in_range_iff. cbn. lia. }
  rewrite Ep.
  pose proof (pow10_pos (nfd d) ltac:(lia)) as Ht.
  assert (Ht' : 10 ^ nfd d < 2 ^ 127) by (pose proof (pow10_le_38 (nfd d) ltac:(lia)); pose proof pow10_38_lt; lia).
  pose proof (pow10_pos p ltac:(lia)) as Htp.
  assert (Htp' : 10 ^ p < 2 ^ 127) by (pose proof (pow10_le_38 p ltac:(lia)); pose proof pow10_38_lt; lia).
  assert (Sign : (if negb (coeff d >=? 0) then [45] else if f_plus fs then [43] else [])
                 = (if coeff d <? 0 then [45] else if f_plus fs then [43] else [])).
  { destruct (Z.geb_spec (coeff d) 0); destruct (Z.ltb_spec (coeff d) 0); try lia; reflexivity. }
  (* it suffices to show that the body is canon_abs of the right magnitude *)
  assert (Body : forall tmp a, tmp = Val (canon_abs a p) ->
     a = (if p <? nfd d then Z.abs (rnd m (coeff d) (10 ^ (nfd d - p))) else Z.abs (coeff d) * 10 ^ (p - nfd d)) ->
     (t <- tmp ;; Val (pad_integral fs (coeff d >=? 0) t)) =
     Val (pad_spec (conv fs) (if coeff d <? 0 then [45] else if f_plus fs then [43] else [])
            (canon_abs (if p <? nfd d then Z.abs (rnd m (coeff d) (10 ^ (nfd d - p))) else Z.abs (coeff d) * 10 ^ (p - nfd d)) p))).
  { intros tmp a -> ->. cbn [bind]. rewrite pad_integral_spec, Sign. reflexivity. }
  destruct (Z.eqb_spec (nfd d) 0) as [E0|N0].
  - (* integral Decimal *)
    apply (Body _ (Z.abs (coeff d) * 10 ^ p)).
    + unfold ck_abs. rewrite ck_ok by (apply in_I128_iff; lia). cbn [bind].
      rewrite display_int_nonneg by lia. rewrite if_val. f_equal.
      assert (E1 : (Z.abs (coeff d) * 10 ^ p) / 10 ^ p = Z.abs (coeff d)) by (apply Z_div_mult; lia).
      assert (E2 : (Z.abs (coeff d) * 10 ^ p) mod 10 ^ p = 0) by apply Z_mod_mult.
      unfold canon_abs. rewrite E1, E2. rewrite digits_of_sdigits by lia.
      rewrite Z.gtb_ltb. destruct (Z.ltb_spec 0 p).
      * rewrite pad0_fixed by (split; [lia|reflexivity]). reflexivity.
      * rewrite app_nil_r. reflexivity.
    + rewrite E0. destruct (Z.ltb_spec p 0); [lia|]. rewrite Z.sub_0_r. reflexivity.
  - destruct (Z.compare_spec p (nfd d)) as [E|L|G].
    + (* precision = fractional digits *)
      apply (Body _ (Z.abs (coeff d))).
      * unfold ck_abs. rewrite ck_ok by (apply in_I128_iff; lia). cbn [bind].
        rewrite ten_pow_ok by lia. cbn [bind].
        rewrite div_mod_floor_pos by (try apply in_I128_iff; lia). cbn [bind].
        pose proof (Z.mod_pos_bound (Z.abs (coeff d)) (10 ^ nfd d) Ht).
        assert (0 <= Z.abs (coeff d) / 10 ^ nfd d) by (apply Z.div_pos; lia).
        rewrite !display_int_nonneg by lia. rewrite if_val. f_equal. rewrite <- E.
        apply canon_abs_model; try lia; try (rewrite E; reflexivity).
        rewrite E. pose proof (div_le_self (Z.abs (coeff d)) (10 ^ nfd d) ltac:(lia) Ht). lia.
      * destruct (Z.ltb_spec p (nfd d)); [lia|]. rewrite E, Z.sub_diag. change (10 ^ 0) with 1. lia.
    + (* round to fewer digits, then split *)
      set (c' := rnd m (coeff d) (10 ^ (nfd d - p))).
      apply (Body _ (Z.abs c')).
      * rewrite ten_pow_ok by lia. cbn [bind].
        pose proof (pow10_pos (nfd d - p) ltac:(lia)) as Hs.
        assert (Hs' : 10 ^ (nfd d - p) < 2 ^ 127) by (pose proof (pow10_le_38 (nfd d - p) ltac:(lia)); pose proof pow10_38_lt; lia).
        rewrite i128_div_rounded_pos by (try apply in_I128_iff; lia). cbn [bind]. fold c'.
        pose proof (rnd_abs_le m (coeff d) (10 ^ (nfd d - p)) Hs) as Hle. fold c' in Hle.
        unfold ck_abs. rewrite ck_ok by (apply in_I128_iff; lia). cbn [bind].
        rewrite ten_pow_ok by lia. cbn [bind].
        rewrite div_mod_floor_pos by (try apply in_I128_iff; lia). cbn [bind].
        pose proof (Z.mod_pos_bound (Z.abs c') (10 ^ p) Htp).
        assert (0 <= Z.abs c' / 10 ^ p) by (apply Z.div_pos; lia).
        rewrite !display_int_nonneg by lia. rewrite if_val. f_equal.
        apply canon_abs_model; try lia; try reflexivity.
        pose proof (div_le_self (Z.abs c') (10 ^ p) ltac:(lia) Htp). lia.
      * destruct (Z.ltb_spec p (nfd d)); [reflexivity|lia].
    + (* more digits requested: zero-extend the fraction *)
      apply (Body _ (Z.abs (coeff d) * 10 ^ (p - nfd d))).
      * unfold ck_abs. rewrite ck_ok by (apply in_I128_iff; lia). cbn [bind].
        rewrite ten_pow_ok by lia. cbn [bind].
        rewrite div_mod_floor_pos by (try apply in_I128_iff; lia). cbn [bind].
        rewrite ten_pow_ok by lia. cbn [bind].
        pose proof (Z.mod_pos_bound (Z.abs (coeff d)) (10 ^ nfd d) Ht) as Hm.
        pose proof (pow10_pos (p - nfd d) ltac:(lia)) as Hk.
        assert (Esplit : 10 ^ p = 10 ^ nfd d * 10 ^ (p - nfd d)) by (rewrite <- Z.pow_add_r by lia; f_equal; lia).
        assert (Hfr : 0 <= Z.abs (coeff d) mod 10 ^ nfd d * 10 ^ (p - nfd d) < 10 ^ p) by (rewrite Esplit; nia).
        unfold ck_mul. rewrite ck_ok by (apply in_I128_iff; lia). cbn [bind].
        assert (0 <= Z.abs (coeff d) / 10 ^ nfd d) by (apply Z.div_pos; lia).
        rewrite !display_int_nonneg by lia. rewrite if_val. f_equal.
        apply canon_abs_model; try lia.
        -- rewrite Esplit. rewrite Z.div_mul_cancel_r by lia.
           pose proof (div_le_self (Z.abs (coeff d)) (10 ^ nfd d) ltac:(lia) Ht). lia.
        -- rewrite Esplit. rewrite Z.div_mul_cancel_r by lia. reflexivity.
        -- rewrite Esplit. rewrite Z.mul_mod_distr_r by lia. reflexivity.
      * destruct (Z.ltb_spec p (nfd d)); [lia|reflexivity].
Qed.

Lemma conv_align_of a : conv_align (align_of a) = salign_of a.
Proof. unfold align_of, salign_of. destruct (a =? 1); [reflexivity|]. destruct (a =? 2); [reflexivity|]. destruct (a =? 3); reflexivity. Qed.

Lemma optz_nonneg z P : optz z = Some P -> 0 <= P.
Proof. unfold optz. destruct (Z.ltb_spec z 0); [discriminate|]. intros E. injection E as <-. assumption. Qed.

Lemma fmt_acc pf m fill a plus alt zero w p d :
  wf d = true -> acc_fmt m fill a plus alt zero w p d (run_fmt pf m fill a plus alt zero w p d) = true.
Proof.
  intros Hd. unfold acc_fmt, run_fmt.
  rewrite display_spec; [|assumption|cbn [f_prec]; apply optz_nonneg].
  unfold conv. cbn [f_fill f_align f_plus f_alt f_zero f_width f_prec of_res]. rewrite conv_align_of. apply out_eqb_refl.
Qed.

(* without any flag Display is the canonical string *)
Lemma display_plain_canon pf m d : wf d = true ->
  display pf m (mkfmt [32] AUnknown false false false None None) d = Val (canon d).
Proof.
  intros Hd. rewrite display_spec by (assumption || (cbn; discriminate)).
  f_equal. unfold fmt_spec, conv, pad_spec, canon. cbn [s_prec s_width s_plus f_prec f_width f_plus f_fill f_align f_alt f_zero conv_align].
  destruct (Z.ltb_spec (nfd d) (nfd d)); [lia|]. rewrite Z.sub_diag. change (10 ^ 0) with 1. rewrite Z.mul_1_r. reflexivity.
Qed.

(* plain i128 with the same flags: the padding model alone *)
Lemma fmt_int_acc fill a plus alt zero w c :
  - 2 ^ 127 < c < 2 ^ 127 -> acc_fmt_int fill a plus alt zero w c (run_fmt_int fill a plus alt zero w c) = true.
Proof.
  intros Hc. unfold acc_fmt_int, run_fmt_int. rewrite pad_integral_spec.
  unfold conv. cbn [f_fill f_align f_plus f_alt f_zero f_width f_prec]. rewrite conv_align_of.
  rewrite digits_of_sdigits by (apply abs_lt_pow45; assumption).
  assert (S : (if negb (c >=? 0) then [45] else if plus then [43] else []) = (if c <? 0 then [45] else if plus then [43] else [])).
  { destruct (Z.geb_spec c 0); destruct (Z.ltb_spec c 0); try lia; reflexivity. }
  rewrite S. apply out_eqb_refl.
Qed.
