(* RoundingFacts.v — the rounding kernel of the code computes [rnd]. *)
From FP Require Import Machine SrcConsts Pow10 RoundSpec Rounding MachineFacts Pow10Facts RoundSpecFacts.

Lemma div_mod_floor_pos pf x y :
  in_range I128 x = true -> in_range I128 y = true -> 0 < y ->
  i128_div_mod_floor pf x y = Val (x / y, x mod y).
Proof.
  intros Hx Hy Hpos. apply in_I128_iff in Hx. apply in_I128_iff in Hy.
  unfold i128_div_mod_floor.
  rewrite t_div_ok by lia. rewrite t_rem_ok by lia. cbn [bind].
  pose proof (Z.quot_rem' x y) as E.
  pose proof (Z.rem_bound_abs x y ltac:(lia)) as B.
  pose proof (Z.rem_sign_mul x y ltac:(lia)) as S.
  pose proof (Z.div_mod x y ltac:(lia)) as E'.
  pose proof (Z.mod_pos_bound x y Hpos) as B'.
  set (q := Z.quot x y) in *. set (r := Z.rem x y) in *.
  set (q' := x / y) in *. set (r' := x mod y) in *.
  destruct (Z.ltb_spec y 0); [lia|]. rewrite andb_false_r. cbn [orb].
  destruct (Z.gtb_spec y 0); [|lia]. rewrite andb_true_r.
  destruct (Z.ltb_spec r 0) as [Hr|Hr].
  - assert (y * (q' - q) = r - r') by lia.
    assert (q' = q - 1) by nia. assert (r' = r + y) by nia.
    unfold ck_sub, ck_add. rewrite !ck_ok; cbn [bind].
    + congruence.
    + apply in_I128_iff. lia.
    + apply in_I128_iff. assert (x <= q * y) by nia. assert (- 2 ^ 127 <= q) by nia. lia.
  - assert (y * (q' - q) = r - r') by lia.
    assert (q' = q) by nia. assert (r' = r) by nia. congruence.
Qed.

(* round_quot on a floor quotient and its remainder *)
Lemma round_quot_floor pf m q r d :
  in_range I128 q = true -> 0 < d <= 2 ^ 127 -> 0 <= r < d ->
  round_quot pf q r d m = Val (checked I128 (rnd_floor m q r d)).
Proof.
  intros Hq Hd Hr. pose proof Hq as Hq'. apply in_I128_iff in Hq'.
  unfold round_quot, rnd_floor, keep, incr.
  destruct (Z.eqb_spec r 0) as [E|E].
  { rewrite checked_ok by assumption. reflexivity. }
  assert (Hsh : ck_shl pf U128 r 1 = Val (2 * r)).
  { unfold ck_shl. change ((0 <=? 1) && (1 <? bits U128)) with true. cbv iota.
    change (2 ^ 1) with 2. rewrite wrap_id.
    - f_equal. lia.
    - apply in_U128_iff. rewrite pow2_128. rewrite pow2_127 in Hd. lia. }
  assert (Hk : Val (Some q) = Val (checked I128 q)) by (rewrite checked_ok by assumption; reflexivity).
  destruct m.
  - (* 05Up *)
    destruct (Z.geb_spec q 0) as [Hge|Hlt].
    + rewrite t_rem_ok by lia. cbn [bind]. destruct (Z.ltb_spec q 0); [lia|].
      cbn [andb orb].
      destruct (Z.rem q 5 =? 0); cbn [bind orb]; [reflexivity|exact Hk].
    + cbn [bind]. destruct (Z.ltb_spec q 0); [|lia]. unfold ck_add. rewrite ck_ok by (apply in_I128_iff; lia).
      cbn [bind]. rewrite t_rem_ok by lia. cbn [bind andb orb].
      destruct (Z.rem (q + 1) 5 =? 0); cbn [negb]; [exact Hk|reflexivity].
  - reflexivity.
  - destruct (q <? 0); [reflexivity|exact Hk].
  - exact Hk.
  - rewrite Hsh. cbn [bind].
    destruct ((2 * r >? d) || (2 * r =? d) && (q <? 0)); [reflexivity|exact Hk].
  - rewrite Hsh. cbn [bind].
    destruct (Z.gtb_spec (2 * r) d); cbn [bind orb]; [reflexivity|].
    destruct (Z.eqb_spec (2 * r) d); cbn [bind andb].
    + rewrite t_rem_ok by lia. cbn [bind]. destruct (Z.rem q 2 =? 0); cbn [negb]; [exact Hk|reflexivity].
    + exact Hk.
  - rewrite Hsh. cbn [bind].
    destruct ((2 * r >? d) || (2 * r =? d) && (q >=? 0)); [reflexivity|exact Hk].
  - destruct (q >=? 0); [reflexivity|exact Hk].
Qed.

Lemma round_quot_spec pf m n d :
  0 < d <= 2 ^ 127 -> in_range I128 (n / d) = true ->
  round_quot pf (n / d) (n mod d) d m = Val (checked I128 (rnd m n d)).
Proof.
  intros Hd Hq. pose proof (Z.mod_pos_bound n d ltac:(lia)).
  rewrite round_quot_floor by (assumption || lia).
  rewrite <- rnd_floor_eq by lia.
  do 3 f_equal. rewrite (Z.div_mod n d) at 3 by lia. ring.
Qed.

(* for d >= 1 the rounded quotient lies between 0 and the dividend *)
Lemma rnd_between m n d : 0 < d -> Z.min 0 n <= rnd m n d <= Z.max 0 n.
Proof.
  intros Hd. unfold rnd.
  pose proof (Z.quot_rem' n d) as E.
  pose proof (Z.rem_bound_abs n d ltac:(lia)) as B.
  pose proof (Z.rem_sign_mul n d ltac:(lia)) as S.
  set (t := Z.quot n d) in *. set (r := Z.rem n d) in *.
  assert (Ht : Z.min 0 n <= t <= Z.max 0 n) by nia.
  destruct (Z.eqb_spec (Z.abs r) 0); [exact Ht|].
  assert (Ha : Z.min 0 n <= t + Z.sgn n <= Z.max 0 n) by nia.
  destruct m; repeat match goal with |- context [if ?b then _ else _] => destruct b end; assumption.
Qed.

Lemma rnd_abs_le m n d : 0 < d -> Z.abs (rnd m n d) <= Z.abs n.
Proof. intros Hd. pose proof (rnd_between m n d Hd). lia. Qed.

Definition drc (pf : profile) (dd dv : Z) (m : mode) : res Z :=
  '(quot, rem) <- i128_div_mod_floor pf dd dv ;;
  o <- round_quot pf quot (cast U128 rem) (cast U128 dv) m ;;
  match o with
  | Some q => Val q
  | None => Panic
  end.

Lemma drc_ok pf m n d :
  in_range I128 n = true -> in_range I128 d = true -> 0 < d ->
  drc pf n d m = Val (rnd m n d).
Proof.
  intros Hn Hd Hpos. pose proof Hn as Hn'. pose proof Hd as Hd'.
  apply in_I128_iff in Hn'. apply in_I128_iff in Hd'.
  unfold drc.
  rewrite div_mod_floor_pos by assumption. cbn [bind].
  pose proof (Z.mod_pos_bound n d Hpos).
  rewrite !cast_id by (apply in_U128_iff; rewrite pow2_128; rewrite pow2_127 in *; lia).
  assert (Hq : in_range I128 (n / d) = true).
  { apply in_I128_iff. pose proof (Z.div_mod n d ltac:(lia)) as E.
    remember (2 ^ 127) as M. clear HeqM. set (q := n / d) in *. set (r := n mod d) in *.
    clearbody q r. split; nia. }
  rewrite round_quot_spec by (assumption || lia). cbn [bind].
  rewrite checked_ok; [reflexivity|].
  apply in_I128_iff. pose proof (rnd_between m n d Hpos). lia.
Qed.

Lemma i128_div_rounded_pos pf m n d :
  in_range I128 n = true -> in_range I128 d = true -> 0 < d ->
  i128_div_rounded pf n d m = Val (rnd m n d).
Proof.
  intros Hn Hd Hpos. rewrite <- (drc_ok pf) by assumption.
  unfold i128_div_rounded, drc. destruct (Z.ltb_spec d 0); [lia|]. reflexivity.
Qed.

Lemma i128_div_rounded_ok pf m n d :
  - MAXC <= n <= MAXC -> - MAXC <= d <= MAXC -> d <> 0 ->
  i128_div_rounded pf n d m = Val (rndq m n d).
Proof.
  intros Hn Hd Hnz. unfold rndq. rewrite MAXC_val in *.
  destruct (Z.ltb_spec d 0) as [Hneg|Hpos].
  - rewrite <- (drc_ok pf) by (try apply in_I128_iff; try rewrite pow2_127; lia).
    unfold i128_div_rounded, drc. destruct (Z.ltb_spec d 0); [|lia].
    unfold ck_neg. rewrite !ck_ok by (apply in_I128_iff; rewrite pow2_127; lia). reflexivity.
  - apply i128_div_rounded_pos; try apply in_I128_iff; try rewrite pow2_127; lia.
Qed.
