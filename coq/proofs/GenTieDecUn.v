(* GenTieDecUn.v — unary operations and addition/subtraction at the Decimal level (src/unops.rs,
   src/binops/{add_sub,checked_add_sub}.rs) as translated (gen/GenDec.v) equal the model (Unops.v, Arith.v). *)
From FP Require Import Machine SrcConsts Pow10 WideDiv Rounding Arith Unops RoundSpec Out ArithSpec Run GenCore GenDec MachineFacts.
From FP Require Import AddSubFacts UnopsFacts.
From FP Require Import GenTieTac GenTiePow.

(* generic: unfold both sides, rewrite the powers-of-ten kernels, split step by step *)
Ltac un_tie := unfold_helpers_dec; to_model_pow; unfold DZERO;
  first [ solve [rf] | solve [repeat (cbv beta iota zeta; cbn [bind]; try to_model_pow; tie2_step); cbn [bind negb andb orb]; try fin] ].

Lemma tie_neg pf d : g_Neg_neg pf d = dec_neg pf d.
Proof. unfold g_Neg_neg, dec_neg. un_tie. Qed.
Lemma tie_abs pf d : g_Decimal_abs pf d = dec_abs pf d.
Proof. unfold g_Decimal_abs, dec_abs, g_Decimal_coefficient. un_tie. Qed.
Lemma tie_trunc pf d : g_Decimal_trunc pf d = dec_trunc d.
Proof. unfold g_Decimal_trunc, dec_trunc. un_tie. Qed.
Lemma tie_fract pf d : g_Decimal_fract pf d = dec_fract d.
Proof. unfold g_Decimal_fract, dec_fract. un_tie. Qed.
Lemma tie_div_floor pf a b : g_DivModInt_div_floor pf a b = div_floor pf a b.
Proof. unfold g_DivModInt_div_floor, div_floor, g_DivModInt_divmod. un_tie. Qed.
Lemma tie_div_ceil pf a b : g_DivModInt_div_ceil pf a b = div_ceil pf a b.
Proof. unfold g_DivModInt_div_ceil, div_ceil, g_DivModInt_divmod. un_tie. Qed.
Lemma tie_floor pf d : g_Decimal_floor pf d = dec_floor pf d.
Proof.
  unfold g_Decimal_floor, dec_floor. unfold_helpers_dec. to_model_pow.
  destruct (Z.eqb_spec (nfd d) 0); cbv beta iota zeta; cbn [negb bind]; [reflexivity|].
  dres (ten_pow (nfd d)) as t. rewrite tie_div_floor. reflexivity.
Qed.
Lemma tie_ceil pf d : g_Decimal_ceil pf d = dec_ceil pf d.
Proof.
  unfold g_Decimal_ceil, dec_ceil. unfold_helpers_dec. to_model_pow.
  destruct (Z.eqb_spec (nfd d) 0); cbv beta iota zeta; cbn [negb bind]; [reflexivity|].
  dres (ten_pow (nfd d)) as t. rewrite tie_div_ceil. reflexivity.
Qed.

Lemma tie_add pf x y : wf x = true -> wf y = true -> g_Add_add pf x y = dec_add x y.
Proof.
  intros Hx Hy. apply wf_iff in Hx. apply wf_iff in Hy.
  unfold g_Add_add, dec_add, dec_addsub, addsub_i128, g_coeff_or_panic, or_panic. to_model_pow.
  destruct (Z.compare_spec (nfd x) (nfd y)) as [E|E|E].
  - cbn [bind]. destruct (checked I128 (coeff x + coeff y)); reflexivity.
  - rewrite ck_sub_u8_ok by (try apply u8_iff; lia). cbn [bind].
    dres (mul_pow_ten (coeff x) (nfd y - nfd x)) as t. destruct (checked I128 (t + coeff y)); reflexivity.
  - rewrite ck_sub_u8_ok by (try apply u8_iff; lia). cbn [bind].
    dres (mul_pow_ten (coeff y) (nfd x - nfd y)) as t. destruct (checked I128 (coeff x + t)); reflexivity.
Qed.

Lemma tie_sub pf x y : wf x = true -> wf y = true -> g_Sub_sub pf x y = dec_sub x y.
Proof.
  intros Hx Hy. apply wf_iff in Hx. apply wf_iff in Hy.
  unfold g_Sub_sub, dec_sub, dec_addsub, addsub_i128, g_coeff_or_panic, or_panic. to_model_pow.
  destruct (Z.compare_spec (nfd x) (nfd y)) as [E|E|E].
  - cbn [bind]. destruct (checked I128 (coeff x - coeff y)); reflexivity.
  - rewrite ck_sub_u8_ok by (try apply u8_iff; lia). cbn [bind].
    dres (mul_pow_ten (coeff x) (nfd y - nfd x)) as t. destruct (checked I128 (t - coeff y)); reflexivity.
  - rewrite ck_sub_u8_ok by (try apply u8_iff; lia). cbn [bind].
    dres (mul_pow_ten (coeff y) (nfd x - nfd y)) as t. destruct (checked I128 (coeff x - t)); reflexivity.
Qed.

Lemma tie_checked_add pf x y : wf x = true -> wf y = true ->
  g_CheckedAdd_checked_add pf x y = dec_checked_add x y.
Proof.
  intros Hx Hy. apply wf_iff in Hx. apply wf_iff in Hy.
  unfold g_CheckedAdd_checked_add, dec_checked_add, dec_checked_addsub, addsub_i128. to_model_pow.
  destruct (Z.compare_spec (nfd x) (nfd y)) as [E|E|E].
  - destruct (checked I128 (coeff x + coeff y)); reflexivity.
  - rewrite ck_sub_u8_ok by (try apply u8_iff; lia). cbn [bind].
    dres (checked_mul_pow_ten (coeff x) (nfd y - nfd x)) as ot. destruct ot as [t|]; [|reflexivity].
    cbn [obind]. destruct (checked I128 (t + coeff y)); reflexivity.
  - rewrite ck_sub_u8_ok by (try apply u8_iff; lia). cbn [bind].
    dres (checked_mul_pow_ten (coeff y) (nfd x - nfd y)) as ot. destruct ot as [t|]; [|reflexivity].
    cbn [obind]. destruct (checked I128 (coeff x + t)); reflexivity.
Qed.

Lemma tie_checked_sub pf x y : wf x = true -> wf y = true ->
  g_CheckedSub_checked_sub pf x y = dec_checked_sub x y.
Proof.
  intros Hx Hy. apply wf_iff in Hx. apply wf_iff in Hy.
  unfold g_CheckedSub_checked_sub, dec_checked_sub, dec_checked_addsub, addsub_i128. to_model_pow.
  destruct (Z.compare_spec (nfd x) (nfd y)) as [E|E|E].
  - destruct (checked I128 (coeff x - coeff y)); reflexivity.
  - rewrite ck_sub_u8_ok by (try apply u8_iff; lia). cbn [bind].
    dres (checked_mul_pow_ten (coeff x) (nfd y - nfd x)) as ot. destruct ot as [t|]; [|reflexivity].
    cbn [obind]. destruct (checked I128 (t - coeff y)); reflexivity.
  - rewrite ck_sub_u8_ok by (try apply u8_iff; lia). cbn [bind].
    dres (checked_mul_pow_ten (coeff y) (nfd x - nfd y)) as ot. destruct ot as [t|]; [|reflexivity].
    cbn [obind]. destruct (checked I128 (coeff x - t)); reflexivity.
Qed.

(* ---- the acceptance theorems about the translated source ---------------------------------------- *)
Lemma src_addsub_acc pf m (sub : bool) x y : wf x = true -> wf y = true ->
  acc_dd m (if sub then Bsub else Badd) x y 0
         (out_dec (if sub then g_Sub_sub pf x y else g_Add_add pf x y)) = true /\
  acc_dd m (if sub then Bcsub else Bcadd) x y 0
         (out_odec (if sub then g_CheckedSub_checked_sub pf x y else g_CheckedAdd_checked_add pf x y)) = true.
Proof.
  intros Hx Hy. pose proof (addsub_acc pf m sub x y Hx Hy) as H.
  destruct sub; cbn [run_dd] in H.
  - rewrite tie_sub, tie_checked_sub by assumption. exact H.
  - rewrite tie_add, tie_checked_add by assumption. exact H.
Qed.

Definition src_run_un1 (pf : profile) (op : unop) (d : dec) : out :=
  match op with
  | Ufloor => out_dec (g_Decimal_floor pf d)
  | Uceil => out_dec (g_Decimal_ceil pf d)
  | Utrunc => out_dec (g_Decimal_trunc pf d)
  | Ufract => out_dec (g_Decimal_fract pf d)
  | Uabs => out_dec (g_Decimal_abs pf d)
  | Uneg => out_dec (g_Neg_neg pf d)
  | Uiszero => out_bool (g_Decimal_eq_zero pf d)
  | Uisone => out_bool (g_Decimal_eq_one pf d)
  | Uisneg => out_bool (g_Decimal_is_negative pf d)
  | Uispos => out_bool (g_Decimal_is_positive pf d)
  | _ => OP
  end.

Lemma src_unops_acc pf m op d : wf d = true ->
  In op [Ufloor; Uceil; Utrunc; Ufract; Uabs; Uneg; Uiszero; Uisone; Uisneg; Uispos] ->
  acc_un m op d 0 (src_run_un1 pf op d) = true.
Proof.
  intros Hd Hop. pose proof (unops_acc pf m op d Hd Hop) as H.
  cbn [In] in Hop.
  repeat (destruct Hop as [<-|Hop]; [cbn [src_run_un1 run_un] in *;
    first [ exact H | rewrite tie_floor; exact H | rewrite tie_ceil; exact H ]|]).
  contradiction.
Qed.
