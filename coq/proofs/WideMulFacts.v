(* WideMulFacts.v — C16: the 128x128 -> 256 bit product and the division of a
   256-bit number by a 64-bit number. *)
From FP Require Import Machine SrcConsts Pow10 WideDiv.
From FP Require Import MachineFacts Pow10Facts.

Local Open Scope Z_scope.

Lemma B64_val : B64 = 18446744073709551616. Proof. reflexivity. Qed.
Lemma B64_sq : B64 * B64 = 2 ^ 128. Proof. reflexivity. Qed.
Lemma B64_pos : 0 < B64. Proof. reflexivity. Qed.

Lemma u128_hi_div u : 0 <= u -> u128_hi u = u / B64.
Proof. intros H. unfold u128_hi. rewrite Z.shiftr_div_pow2 by lia. reflexivity. Qed.

Lemma u128_lo_mod u : 0 <= u -> u128_lo u = u mod B64.
Proof. intros H. unfold u128_lo, MASK64. change (2 ^ 64 - 1) with (Z.ones 64). rewrite Z.land_ones by lia. reflexivity. Qed.

Lemma hi_lo u : 0 <= u < 2 ^ 128 ->
  u = u128_hi u * B64 + u128_lo u /\ 0 <= u128_hi u < B64 /\ 0 <= u128_lo u < B64.
Proof.
  intros H. rewrite u128_hi_div, u128_lo_mod by lia.
  pose proof (Z.div_mod u B64 ltac:(rewrite B64_val; lia)) as E.
  pose proof (Z.mod_pos_bound u B64 B64_pos) as B.
  split; [lia|]. split; [|exact B].
  split; [apply Z.div_pos; [lia|exact B64_pos]|].
  apply Z.div_lt_upper_bound; [exact B64_pos|]. rewrite B64_sq. lia.
Qed.

Lemma in_U128 z : 0 <= z < 2 ^ 128 -> in_range U128 z = true.
Proof. intros. apply in_U128_iff. lia. Qed.

Lemma ck_U128 pf z : 0 <= z < 2 ^ 128 -> ck pf U128 z = Val z.
Proof. intros. apply ck_ok. apply in_U128. assumption. Qed.

Lemma shl64 pf r : 0 <= r < B64 -> ck_shl pf U128 r 64 = Val (r * B64).
Proof.
  intros H. unfold ck_shl. change ((0 <=? 64) && (64 <? bits U128)) with true. cbv iota.
  rewrite wrap_id; [reflexivity|]. apply in_U128. change (2 ^ 64) with B64. rewrite <- B64_sq.
  split; [pose proof B64_pos; nia|]. apply Z.mul_lt_mono_pos_r; [exact B64_pos|lia].
Qed.

(* The word base is kept abstract in the arithmetic (B with B = B64): nia does not
   terminate on goals that mention 2^64 concretely. *)
Lemma hi_lo' B (HB : B = B64) u : 0 <= u < B * B ->
  u = u128_hi u * B + u128_lo u /\ 0 <= u128_hi u < B /\ 0 <= u128_lo u < B.
Proof. subst B. rewrite B64_sq. apply hi_lo. Qed.

Lemma ck_U128' pf B (HB : B = B64) z : 0 <= z < B * B -> ck pf U128 z = Val z.
Proof. subst B. rewrite B64_sq. apply ck_U128. Qed.

Lemma shl64' pf B (HB : B = B64) r : 0 <= r < B -> ck_shl pf U128 r 64 = Val (r * B).
Proof. subst B. apply shl64. Qed.

Lemma pack_bound B q r : 0 <= q < B -> 0 <= r < B -> 0 <= q * B + r < B * B.
Proof. intros Hq Hr. nia. Qed.

(* ---- u128_mul_u128 ---- *)
Lemma u128_mul_u128_ok pf x y :
  0 <= x < 2 ^ 128 -> 0 <= y < 2 ^ 128 ->
  u128_mul_u128 pf x y = Val ((x * y) / 2 ^ 128, (x * y) mod 2 ^ 128).
Proof.
  intros Hx Hy. unfold u128_mul_u128.
  rewrite <- B64_sq in *. pose proof B64_pos as HBpos.
  remember B64 as B eqn:HB.
  destruct (hi_lo' B HB x Hx) as (Ex & Hxh & Hxl). destruct (hi_lo' B HB y Hy) as (Ey & Hyh & Hyl).
  set (xh := u128_hi x) in *. set (xl := u128_lo x) in *.
  set (yh := u128_hi y) in *. set (yl := u128_lo y) in *.
  assert (Bnd : forall a b, 0 <= a < B -> 0 <= b < B -> 0 <= a * b <= (B - 1) * (B - 1)).
  { intros a b Ha Hb. split; [nia|]. apply Z.mul_le_mono_nonneg; lia. }
  assert (BB1 : (B - 1) * (B - 1) + 2 * (B - 1) < B * B) by nia.
  unfold ck_mul, ck_add.
  pose proof (Bnd xl yl Hxl Hyl) as T0.
  rewrite (ck_U128' pf B HB (xl * yl)) by lia. cbn [bind].
  destruct (hi_lo' B HB (xl * yl) ltac:(lia)) as (E0 & H0h & H0l).
  set (t0h := u128_hi (xl * yl)) in *. set (t0l := u128_lo (xl * yl)) in *.
  pose proof (Bnd xl yh Hxl Hyh) as T1.
  rewrite (ck_U128' pf B HB (xl * yh)) by lia. cbn [bind].
  rewrite (ck_U128' pf B HB (xl * yh + t0h)) by lia. cbn [bind].
  destruct (hi_lo' B HB (xl * yh + t0h) ltac:(lia)) as (E1 & H1h & H1l).
  set (t1h := u128_hi (xl * yh + t0h)) in *. set (t1l := u128_lo (xl * yh + t0h)) in *.
  pose proof (Bnd xh yl Hxh Hyl) as T2.
  rewrite (ck_U128' pf B HB (xh * yl)) by lia. cbn [bind].
  rewrite (ck_U128' pf B HB (xh * yl + t1l)) by lia. cbn [bind].
  destruct (hi_lo' B HB (xh * yl + t1l) ltac:(lia)) as (E2 & H2h & H2l).
  set (t2h := u128_hi (xh * yl + t1l)) in *. set (t2l := u128_lo (xh * yl + t1l)) in *.
  rewrite (shl64' pf B HB) by exact H2l. cbn [bind].
  assert (Lo : 0 <= t0l + t2l * B < B * B) by (pose proof (pack_bound B t2l t0l H2l H0l); lia).
  rewrite (ck_U128' pf B HB (t0l + t2l * B)) by exact Lo. cbn [bind].
  pose proof (Bnd xh yh Hxh Hyh) as T3.
  rewrite (ck_U128' pf B HB (xh * yh)) by lia. cbn [bind].
  rewrite (ck_U128' pf B HB (xh * yh + t2h)) by lia. cbn [bind].
  rewrite (ck_U128' pf B HB (t1h + (xh * yh + t2h))) by lia. cbn [bind].
  assert (P : x * y = (t1h + (xh * yh + t2h)) * (B * B) + (t0l + t2l * B)).
  { rewrite Ex, Ey.
    replace ((xh * B + xl) * (yh * B + yl)) with (xh * yh * (B * B) + (xl * yh) * B + (xh * yl) * B + xl * yl) by ring.
    rewrite E0.
    replace (xh * yh * (B * B) + xl * yh * B + xh * yl * B + (t0h * B + t0l))
      with (xh * yh * (B * B) + (xl * yh + t0h) * B + xh * yl * B + t0l) by ring.
    rewrite E1.
    replace (xh * yh * (B * B) + (t1h * B + t1l) * B + xh * yl * B + t0l)
      with (xh * yh * (B * B) + t1h * (B * B) + (xh * yl + t1l) * B + t0l) by ring.
    rewrite E2. ring. }
  f_equal. f_equal.
  - apply (Z.div_unique_pos (x * y) (B * B) _ (t0l + t2l * B)); [exact Lo|]. rewrite P. ring.
  - apply (Z.mod_unique_pos (x * y) (B * B) (t1h + (xh * yh + t2h))); [exact Lo|]. rewrite P. ring.
Qed.

(* ---- u256_idiv_u64 : schoolbook division of four 64-bit digits by one ---- *)
Lemma t_div_u128 a b : 0 <= a -> 0 < b -> t_div U128 a b = Val (a / b).
Proof.
  intros Ha Hb. unfold t_div. destruct (Z.eqb_spec b 0); [lia|]. cbn [signed andb].
  rewrite Z.quot_div_nonneg by lia. reflexivity.
Qed.
Lemma t_rem_u128 a b : 0 <= a -> 0 < b -> t_rem U128 a b = Val (a mod b).
Proof.
  intros Ha Hb. unfold t_rem. destruct (Z.eqb_spec b 0); [lia|]. cbn [signed andb].
  rewrite Z.rem_mod_nonneg by lia. reflexivity.
Qed.

Lemma shl64_add' pf B (HB : B = B64) r w : 0 <= r < B -> 0 <= w < B -> shl64_add pf r w = Val (r * B + w).
Proof.
  intros Hr Hw. unfold shl64_add. rewrite (shl64' pf B HB) by assumption. cbn [bind].
  unfold ck_add. apply (ck_U128' pf B HB). nia.
Qed.

(* one division step: (r * B + a) by y, with r < y *)
Lemma step_bounds B y r a : 0 < y < B -> 0 <= r < y -> 0 <= a < B ->
  0 <= (r * B + a) / y < B /\ 0 <= (r * B + a) mod y < y.
Proof.
  intros Hy Hr Ha. split; [|apply Z.mod_pos_bound; lia]. split.
  - apply Z.div_pos; nia.
  - apply Z.div_lt_upper_bound; [lia|]. nia.
Qed.

Lemma u256_idiv_u64_ok pf xh xl y :
  0 <= xh < 2 ^ 128 -> 0 <= xl < 2 ^ 128 -> 0 < y < B64 ->
  exists qh ql r, u256_idiv_u64 pf xh xl y = Val (qh, ql, r) /\
    0 <= qh < 2 ^ 128 /\ 0 <= ql < 2 ^ 128 /\
    qh * 2 ^ 128 + ql = (xh * 2 ^ 128 + xl) / y /\ r = (xh * 2 ^ 128 + xl) mod y.
Proof.
  intros Hxh Hxl Hy. unfold u256_idiv_u64.
  destruct (Z.eqb_spec y 1) as [E1|N1].
  { subst y. exists xh, xl, 0. rewrite Z.div_1_r, Z.mod_1_r. repeat split; lia. }
  rewrite <- B64_sq in *. pose proof B64_pos as HBpos.
  remember B64 as B eqn:HB.
  destruct (hi_lo' B HB xh Hxh) as (Eh & Ha3 & Ha2). destruct (hi_lo' B HB xl Hxl) as (El & Ha1 & Ha0).
  set (a3 := u128_hi xh) in *. set (a2 := u128_lo xh) in *.
  set (a1 := u128_hi xl) in *. set (a0 := u128_lo xl) in *.
  assert (H3 : 0 <= a3 / y < B /\ 0 <= a3 mod y < y).
  { split; [|apply Z.mod_pos_bound; lia]. split; [apply Z.div_pos; lia|].
    apply Z.div_lt_upper_bound; [lia|]. nia. }
  destruct H3 as [Hq3 Hr3].
  pose proof (Z.div_mod a3 y ltac:(lia)) as D3.
  set (q3 := a3 / y) in *. set (r3 := a3 mod y) in *.
  rewrite (t_rem_u128 a3 y) by lia. cbn [bind]. fold r3.
  rewrite (shl64_add' pf B HB r3 a2) by lia. cbn [bind].
  rewrite (t_div_u128 a3 y) by lia. cbn [bind]. fold q3.
  destruct (step_bounds B y r3 a2 Hy Hr3 Ha2) as [Hq2 Hr2].
  pose proof (Z.div_mod (r3 * B + a2) y ltac:(lia)) as D2.
  set (q2 := (r3 * B + a2) / y) in *. set (r2 := (r3 * B + a2) mod y) in *.
  rewrite (t_div_u128 (r3 * B + a2) y) by nia. cbn [bind]. fold q2.
  rewrite (shl64_add' pf B HB q3 q2) by lia. cbn [bind].
  rewrite (t_rem_u128 (r3 * B + a2) y) by nia. cbn [bind]. fold r2.
  rewrite (shl64_add' pf B HB r2 a1) by lia. cbn [bind].
  destruct (step_bounds B y r2 a1 Hy Hr2 Ha1) as [Hq1 Hr1].
  pose proof (Z.div_mod (r2 * B + a1) y ltac:(lia)) as D1.
  set (q1 := (r2 * B + a1) / y) in *. set (r1 := (r2 * B + a1) mod y) in *.
  rewrite (t_rem_u128 (r2 * B + a1) y) by nia. cbn [bind]. fold r1.
  rewrite (shl64_add' pf B HB r1 a0) by lia. cbn [bind].
  rewrite (t_div_u128 (r2 * B + a1) y) by nia. cbn [bind]. fold q1.
  destruct (step_bounds B y r1 a0 Hy Hr1 Ha0) as [Hq0 Hr0].
  pose proof (Z.div_mod (r1 * B + a0) y ltac:(lia)) as D0.
  set (q0 := (r1 * B + a0) / y) in *. set (r0 := (r1 * B + a0) mod y) in *.
  rewrite (t_div_u128 (r1 * B + a0) y) by nia. cbn [bind]. fold q0.
  rewrite (shl64_add' pf B HB q1 q0) by lia. cbn [bind].
  rewrite (t_rem_u128 (r1 * B + a0) y) by nia. cbn [bind]. fold r0.
  exists (q3 * B + q2), (q1 * B + q0), r0.
  assert (P : xh * (B * B) + xl = y * ((q3 * B + q2) * (B * B) + (q1 * B + q0)) + r0).
  { rewrite Eh, El.
    replace ((a3 * B + a2) * (B * B) + (a1 * B + a0)) with (((a3 * B + a2) * B + a1) * B + a0) by ring.
    rewrite D3.
    replace ((y * q3 + r3) * B + a2) with (y * q3 * B + (r3 * B + a2)) by ring. rewrite D2.
    replace ((y * q3 * B + (y * q2 + r2)) * B + a1) with (y * q3 * B * B + y * q2 * B + (r2 * B + a1)) by ring.
    rewrite D1.
    replace ((y * q3 * B * B + y * q2 * B + (y * q1 + r1)) * B + a0)
      with (y * q3 * B * B * B + y * q2 * B * B + y * q1 * B + (r1 * B + a0)) by ring.
    rewrite D0. ring. }
  split; [reflexivity|]. split; [apply pack_bound; assumption|]. split; [apply pack_bound; assumption|]. split.
  - apply (Z.div_unique_pos _ y _ r0); [lia|]. exact P.
  - apply (Z.mod_unique_pos _ y ((q3 * B + q2) * (B * B) + (q1 * B + q0))); [lia|]. exact P.
Qed.
