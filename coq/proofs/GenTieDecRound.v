(* GenTieDecRound.v — src/round.rs as translated (gen/GenDec.v) equals the model (model/Round.v). *)
From FP Require Import Machine SrcConsts Pow10 WideDiv Rounding Round RoundSpec Out ArithSpec Run GenCore GenDec MachineFacts.
From FP Require Import RoundFacts.
From FP Require Import GenTieTac GenTiePow GenTieWide GenTieRound.


Lemma tie_round pf dflt d n : g_Round_round pf dflt d n = dec_round pf dflt d n.
Proof.
  unfold g_Round_round, dec_round. unfold_helpers_dec. change ROUND_SHORTCUT with 38. unfold DZERO.
  tie3.
Qed.

Lemma tie_checked_round pf dflt d n : g_Round_checked_round pf dflt d n = dec_checked_round pf dflt d n.
Proof.
  unfold g_Round_checked_round, dec_checked_round. unfold_helpers_dec. change ROUND_SHORTCUT with 38. unfold DZERO.
  tie3.
Qed.

Lemma src_round_acc pf m d n : wf d = true -> -128 <= n <= 127 ->
  acc_un m Uround d n (out_dec (g_Round_round pf m d n)) = true /\
  acc_un m Ucround d n (out_odec (g_Round_checked_round pf m d n)) = true.
Proof. intros Hd Hn. rewrite tie_round, tie_checked_round. apply (round_acc pf m d n Hd Hn). Qed.
