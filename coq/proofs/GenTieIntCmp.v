(* GenTieIntCmp.v - GENERATED ONCE by tools/gen_tie_int.py (static text, committed): the integer-operand forms of == and partial_cmp with an integer,
   as translated from /repo's current source (gen/GenInt.v), equal the model (IntForms.v, Cmp.v). *)
From FP Require Import Machine SrcConsts Pow10 WideDiv Rounding Arith Cmp IntForms GenCore GenDec GenInt MachineFacts.
From FP Require Import GenTieTac GenTiePow GenTieIntBase.


Ltac cmp_fin := unfold_helpers_int; unfold g_Decimal_is_negative, g_Decimal_is_positive, g_Decimal_coefficient, is_negative, is_positive in *;
  cbn [signed negb andb]; to_model_pow;
  first [ solve [rf]
        | solve [repeat (cbv beta iota zeta; cbn [bind]; try to_model_pow; tie2_step); cbn [bind negb andb orb option_map obind]; try fin] ].

Lemma tie_PartialEq_u8 pf d i :
  g_PartialEq_u8_eq pf d i = di_eq U8 d i.
Proof.
  intros. unfold g_PartialEq_u8_eq, di_eq. cmp_fin.
Qed.

Lemma tie_PartialOrd_u8 pf d i :
  g_PartialOrd_u8_partial_cmp pf d i = di_partial_cmp U8 d i.
Proof.
  intros. unfold g_PartialOrd_u8_partial_cmp, di_partial_cmp. cmp_fin.
Qed.

Lemma tie_PartialOrd_by_u8 pf i d :
  g_PartialOrd_by_u8_partial_cmp pf i d = id_partial_cmp U8 i d.
Proof.
  intros. unfold g_PartialOrd_by_u8_partial_cmp, id_partial_cmp. cmp_fin.
Qed.

Lemma tie_PartialEq_i8 pf d i :
  g_PartialEq_i8_eq pf d i = di_eq I8 d i.
Proof.
  intros. unfold g_PartialEq_i8_eq, di_eq. cmp_fin.
Qed.

Lemma tie_PartialOrd_i8 pf d i :
  g_PartialOrd_i8_partial_cmp pf d i = di_partial_cmp I8 d i.
Proof.
  intros. unfold g_PartialOrd_i8_partial_cmp, di_partial_cmp. cmp_fin.
Qed.

Lemma tie_PartialOrd_by_i8 pf i d :
  g_PartialOrd_by_i8_partial_cmp pf i d = id_partial_cmp I8 i d.
Proof.
  intros. unfold g_PartialOrd_by_i8_partial_cmp, id_partial_cmp. cmp_fin.
Qed.

Lemma tie_PartialEq_u16 pf d i :
  g_PartialEq_u16_eq pf d i = di_eq U16 d i.
Proof.
  intros. unfold g_PartialEq_u16_eq, di_eq. cmp_fin.
Qed.

Lemma tie_PartialOrd_u16 pf d i :
  g_PartialOrd_u16_partial_cmp pf d i = di_partial_cmp U16 d i.
Proof.
  intros. unfold g_PartialOrd_u16_partial_cmp, di_partial_cmp. cmp_fin.
Qed.

Lemma tie_PartialOrd_by_u16 pf i d :
  g_PartialOrd_by_u16_partial_cmp pf i d = id_partial_cmp U16 i d.
Proof.
  intros. unfold g_PartialOrd_by_u16_partial_cmp, id_partial_cmp. cmp_fin.
Qed.

Lemma tie_PartialEq_i16 pf d i :
  g_PartialEq_i16_eq pf d i = di_eq I16 d i.
Proof.
  intros. unfold g_PartialEq_i16_eq, di_eq. cmp_fin.
Qed.

Lemma tie_PartialOrd_i16 pf d i :
  g_PartialOrd_i16_partial_cmp pf d i = di_partial_cmp I16 d i.
Proof.
  intros. unfold g_PartialOrd_i16_partial_cmp, di_partial_cmp. cmp_fin.
Qed.

Lemma tie_PartialOrd_by_i16 pf i d :
  g_PartialOrd_by_i16_partial_cmp pf i d = id_partial_cmp I16 i d.
Proof.
  intros. unfold g_PartialOrd_by_i16_partial_cmp, id_partial_cmp. cmp_fin.
Qed.

Lemma tie_PartialEq_u32 pf d i :
  g_PartialEq_u32_eq pf d i = di_eq U32 d i.
Proof.
  intros. unfold g_PartialEq_u32_eq, di_eq. cmp_fin.
Qed.

Lemma tie_PartialOrd_u32 pf d i :
  g_PartialOrd_u32_partial_cmp pf d i = di_partial_cmp U32 d i.
Proof.
  intros. unfold g_PartialOrd_u32_partial_cmp, di_partial_cmp. cmp_fin.
Qed.

Lemma tie_PartialOrd_by_u32 pf i d :
  g_PartialOrd_by_u32_partial_cmp pf i d = id_partial_cmp U32 i d.
Proof.
  intros. unfold g_PartialOrd_by_u32_partial_cmp, id_partial_cmp. cmp_fin.
Qed.

Lemma tie_PartialEq_i32 pf d i :
  g_PartialEq_i32_eq pf d i = di_eq I32 d i.
Proof.
  intros. unfold g_PartialEq_i32_eq, di_eq. cmp_fin.
Qed.

Lemma tie_PartialOrd_i32 pf d i :
  g_PartialOrd_i32_partial_cmp pf d i = di_partial_cmp I32 d i.
Proof.
  intros. unfold g_PartialOrd_i32_partial_cmp, di_partial_cmp. cmp_fin.
Qed.

Lemma tie_PartialOrd_by_i32 pf i d :
  g_PartialOrd_by_i32_partial_cmp pf i d = id_partial_cmp I32 i d.
Proof.
  intros. unfold g_PartialOrd_by_i32_partial_cmp, id_partial_cmp. cmp_fin.
Qed.

Lemma tie_PartialEq_u64 pf d i :
  g_PartialEq_u64_eq pf d i = di_eq U64 d i.
Proof.
  intros. unfold g_PartialEq_u64_eq, di_eq. cmp_fin.
Qed.

Lemma tie_PartialOrd_u64 pf d i :
  g_PartialOrd_u64_partial_cmp pf d i = di_partial_cmp U64 d i.
Proof.
  intros. unfold g_PartialOrd_u64_partial_cmp, di_partial_cmp. cmp_fin.
Qed.

Lemma tie_PartialOrd_by_u64 pf i d :
  g_PartialOrd_by_u64_partial_cmp pf i d = id_partial_cmp U64 i d.
Proof.
  intros. unfold g_PartialOrd_by_u64_partial_cmp, id_partial_cmp. cmp_fin.
Qed.

Lemma tie_PartialEq_i64 pf d i :
  g_PartialEq_i64_eq pf d i = di_eq I64 d i.
Proof.
  intros. unfold g_PartialEq_i64_eq, di_eq. cmp_fin.
Qed.

Lemma tie_PartialOrd_i64 pf d i :
  g_PartialOrd_i64_partial_cmp pf d i = di_partial_cmp I64 d i.
Proof.
  intros. unfold g_PartialOrd_i64_partial_cmp, di_partial_cmp. cmp_fin.
Qed.

Lemma tie_PartialOrd_by_i64 pf i d :
  g_PartialOrd_by_i64_partial_cmp pf i d = id_partial_cmp I64 i d.
Proof.
  intros. unfold g_PartialOrd_by_i64_partial_cmp, id_partial_cmp. cmp_fin.
Qed.

Lemma tie_PartialEq_i128 pf d i :
  g_PartialEq_i128_eq pf d i = di_eq I128 d i.
Proof.
  intros. unfold g_PartialEq_i128_eq, di_eq. cmp_fin.
Qed.

Lemma tie_PartialOrd_i128 pf d i :
  g_PartialOrd_i128_partial_cmp pf d i = di_partial_cmp I128 d i.
Proof.
  intros. unfold g_PartialOrd_i128_partial_cmp, di_partial_cmp. cmp_fin.
Qed.

Lemma tie_PartialOrd_by_i128 pf i d :
  g_PartialOrd_by_i128_partial_cmp pf i d = id_partial_cmp I128 i d.
Proof.
  intros. unfold g_PartialOrd_by_i128_partial_cmp, id_partial_cmp. cmp_fin.
Qed.
