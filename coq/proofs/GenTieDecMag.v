(* GenTieDecMag.v — Decimal::magnitude (src/lib.rs) as translated (gen/GenDec.v) equals the model (Unops.v). *)
From FP Require Import Machine SrcConsts Pow10 Unops RoundSpec Out ArithSpec Run GenCore GenDec MachineFacts.
From FP Require Import GenTieTac GenTiePow GenTieMag MagnitudeFacts.

Lemma tie_magnitude pf d : g_Decimal_magnitude pf d = dec_magnitude pf d.
Proof.
  unfold g_Decimal_magnitude, dec_magnitude. destruct (coeff d =? 0); [reflexivity|].
  rewrite tie_i128_magnitude. reflexivity.
Qed.

Lemma src_magnitude_acc pf m d : wf d = true ->
  acc_un m Umag d 0 (out_int (g_Decimal_magnitude pf d)) = true.
Proof. intros Hd. rewrite tie_magnitude. apply (magnitude_acc pf m d Hd). Qed.

