(* GenTieIntDiv.v - GENERATED ONCE by tools/gen_tie_int.py (static text, committed): the integer-operand forms of / checked_div div_rounded,
   as translated from /repo's current source (gen/GenInt.v), equal the model (IntForms.v). *)
From FP Require Import Machine SrcConsts Pow10 WideDiv Rounding Arith Cmp IntForms GenCore GenDec GenInt MachineFacts.
From FP Require Import GenTieTac GenTiePow GenTieIntBase GenTieWide GenTieRound GenTieDecMul GenTieDecDiv.


Ltac rng T :=
  first [ assumption | apply wf_u8; assumption | apply wf_in_range; assumption
        | (apply (int_in_i128 T); [cbn; tauto | assumption]) | (apply u8_iff; lia) | reflexivity | (vm_compute; split; discriminate) | lia ].
Ltac div_model T :=
  try to_model;
  repeat match goal with
  | |- context [g_checked_div_rounded ?pf ?m ?cx ?px ?cy ?py ?n] =>
      rewrite (tie_checked_div_rounded pf m cx px cy py n) by rng T
  | |- context [g_normalize ?pf ?c ?n] => rewrite (tie_normalize pf c n) by rng T
  end.
Ltac div_fin T := unfold_helpers_int; unfold g_Decimal_eq_zero, g_Decimal_n_frac_digits, g_Decimal_coefficient, div_tail, or_panic, DZERO in *;
  change g_Decimal_eq_one with (fun (_ : profile) => eq_one); cbv beta;
  change g_MAX_N_FRAC_DIGITS with MAX_N_FRAC_DIGITS; unfold eq_zero;
  repeat (cbv beta iota zeta; cbn [bind fst snd]; div_model T; tie2_step); cbn [bind negb andb orb option_map obind fst snd]; try fin.

Lemma tie_Div_u8 pf m d i :
  wf d = true ->
  in_range U8 i = true ->
  g_Div_u8_div pf m d i = di_div pf m d i.
Proof.
  intros. unfold g_Div_u8_div, di_div. div_fin U8.
Qed.

Lemma tie_Div_by_u8 pf m i d :
  wf d = true ->
  in_range U8 i = true ->
  g_Div_by_u8_div pf m i d = id_div pf m i d.
Proof.
  intros. unfold g_Div_by_u8_div, id_div. div_fin U8.
Qed.

Lemma tie_CheckedDiv_u8 pf m d i :
  wf d = true ->
  in_range U8 i = true ->
  g_CheckedDiv_u8_checked_div pf m d i = di_checked_div pf m d i.
Proof.
  intros. unfold g_CheckedDiv_u8_checked_div, di_checked_div. div_fin U8.
Qed.

Lemma tie_CheckedDiv_by_u8 pf m i d :
  wf d = true ->
  in_range U8 i = true ->
  g_CheckedDiv_by_u8_checked_div pf m i d = id_checked_div pf m i d.
Proof.
  intros. unfold g_CheckedDiv_by_u8_checked_div, id_checked_div. div_fin U8.
Qed.

Lemma tie_DivRounded_u8 pf m d i n :
  wf d = true ->
  in_range U8 i = true ->
  g_DivRounded_u8_div_rounded pf m d i n = di_div_rounded pf m d i n.
Proof.
  intros. unfold g_DivRounded_u8_div_rounded, di_div_rounded. div_fin U8.
Qed.

Lemma tie_DivRounded_by_u8 pf m i d n :
  wf d = true ->
  in_range U8 i = true ->
  g_DivRounded_by_u8_div_rounded pf m i d n = id_div_rounded pf m i d n.
Proof.
  intros. unfold g_DivRounded_by_u8_div_rounded, id_div_rounded. div_fin U8.
Qed.

Lemma tie_Div_i8 pf m d i :
  wf d = true ->
  in_range I8 i = true ->
  g_Div_i8_div pf m d i = di_div pf m d i.
Proof.
  intros. unfold g_Div_i8_div, di_div. div_fin I8.
Qed.

Lemma tie_Div_by_i8 pf m i d :
  wf d = true ->
  in_range I8 i = true ->
  g_Div_by_i8_div pf m i d = id_div pf m i d.
Proof.
  intros. unfold g_Div_by_i8_div, id_div. div_fin I8.
Qed.

Lemma tie_CheckedDiv_i8 pf m d i :
  wf d = true ->
  in_range I8 i = true ->
  g_CheckedDiv_i8_checked_div pf m d i = di_checked_div pf m d i.
Proof.
  intros. unfold g_CheckedDiv_i8_checked_div, di_checked_div. div_fin I8.
Qed.

Lemma tie_CheckedDiv_by_i8 pf m i d :
  wf d = true ->
  in_range I8 i = true ->
  g_CheckedDiv_by_i8_checked_div pf m i d = id_checked_div pf m i d.
Proof.
  intros. unfold g_CheckedDiv_by_i8_checked_div, id_checked_div. div_fin I8.
Qed.

Lemma tie_DivRounded_i8 pf m d i n :
  wf d = true ->
  in_range I8 i = true ->
  g_DivRounded_i8_div_rounded pf m d i n = di_div_rounded pf m d i n.
Proof.
  intros. unfold g_DivRounded_i8_div_rounded, di_div_rounded. div_fin I8.
Qed.

Lemma tie_DivRounded_by_i8 pf m i d n :
  wf d = true ->
  in_range I8 i = true ->
  g_DivRounded_by_i8_div_rounded pf m i d n = id_div_rounded pf m i d n.
Proof.
  intros. unfold g_DivRounded_by_i8_div_rounded, id_div_rounded. div_fin I8.
Qed.

Lemma tie_Div_u16 pf m d i :
  wf d = true ->
  in_range U16 i = true ->
  g_Div_u16_div pf m d i = di_div pf m d i.
Proof.
  intros. unfold g_Div_u16_div, di_div. div_fin U16.
Qed.

Lemma tie_Div_by_u16 pf m i d :
  wf d = true ->
  in_range U16 i = true ->
  g_Div_by_u16_div pf m i d = id_div pf m i d.
Proof.
  intros. unfold g_Div_by_u16_div, id_div. div_fin U16.
Qed.

Lemma tie_CheckedDiv_u16 pf m d i :
  wf d = true ->
  in_range U16 i = true ->
  g_CheckedDiv_u16_checked_div pf m d i = di_checked_div pf m d i.
Proof.
  intros. unfold g_CheckedDiv_u16_checked_div, di_checked_div. div_fin U16.
Qed.

Lemma tie_CheckedDiv_by_u16 pf m i d :
  wf d = true ->
  in_range U16 i = true ->
  g_CheckedDiv_by_u16_checked_div pf m i d = id_checked_div pf m i d.
Proof.
  intros. unfold g_CheckedDiv_by_u16_checked_div, id_checked_div. div_fin U16.
Qed.

Lemma tie_DivRounded_u16 pf m d i n :
  wf d = true ->
  in_range U16 i = true ->
  g_DivRounded_u16_div_rounded pf m d i n = di_div_rounded pf m d i n.
Proof.
  intros. unfold g_DivRounded_u16_div_rounded, di_div_rounded. div_fin U16.
Qed.

Lemma tie_DivRounded_by_u16 pf m i d n :
  wf d = true ->
  in_range U16 i = true ->
  g_DivRounded_by_u16_div_rounded pf m i d n = id_div_rounded pf m i d n.
Proof.
  intros. unfold g_DivRounded_by_u16_div_rounded, id_div_rounded. div_fin U16.
Qed.

Lemma tie_Div_i16 pf m d i :
  wf d = true ->
  in_range I16 i = true ->
  g_Div_i16_div pf m d i = di_div pf m d i.
Proof.
  intros. unfold g_Div_i16_div, di_div. div_fin I16.
Qed.

Lemma tie_Div_by_i16 pf m i d :
  wf d = true ->
  in_range I16 i = true ->
  g_Div_by_i16_div pf m i d = id_div pf m i d.
Proof.
  intros. unfold g_Div_by_i16_div, id_div. div_fin I16.
Qed.

Lemma tie_CheckedDiv_i16 pf m d i :
  wf d = true ->
  in_range I16 i = true ->
  g_CheckedDiv_i16_checked_div pf m d i = di_checked_div pf m d i.
Proof.
  intros. unfold g_CheckedDiv_i16_checked_div, di_checked_div. div_fin I16.
Qed.

Lemma tie_CheckedDiv_by_i16 pf m i d :
  wf d = true ->
  in_range I16 i = true ->
  g_CheckedDiv_by_i16_checked_div pf m i d = id_checked_div pf m i d.
Proof.
  intros. unfold g_CheckedDiv_by_i16_checked_div, id_checked_div. div_fin I16.
Qed.

Lemma tie_DivRounded_i16 pf m d i n :
  wf d = true ->
  in_range I16 i = true ->
  g_DivRounded_i16_div_rounded pf m d i n = di_div_rounded pf m d i n.
Proof.
  intros. unfold g_DivRounded_i16_div_rounded, di_div_rounded. div_fin I16.
Qed.

Lemma tie_DivRounded_by_i16 pf m i d n :
  wf d = true ->
  in_range I16 i = true ->
  g_DivRounded_by_i16_div_rounded pf m i d n = id_div_rounded pf m i d n.
Proof.
  intros. unfold g_DivRounded_by_i16_div_rounded, id_div_rounded. div_fin I16.
Qed.

Lemma tie_Div_u32 pf m d i :
  wf d = true ->
  in_range U32 i = true ->
  g_Div_u32_div pf m d i = di_div pf m d i.
Proof.
  intros. unfold g_Div_u32_div, di_div. div_fin U32.
Qed.

Lemma tie_Div_by_u32 pf m i d :
  wf d = true ->
  in_range U32 i = true ->
  g_Div_by_u32_div pf m i d = id_div pf m i d.
Proof.
  intros. unfold g_Div_by_u32_div, id_div. div_fin U32.
Qed.

Lemma tie_CheckedDiv_u32 pf m d i :
  wf d = true ->
  in_range U32 i = true ->
  g_CheckedDiv_u32_checked_div pf m d i = di_checked_div pf m d i.
Proof.
  intros. unfold g_CheckedDiv_u32_checked_div, di_checked_div. div_fin U32.
Qed.

Lemma tie_CheckedDiv_by_u32 pf m i d :
  wf d = true ->
  in_range U32 i = true ->
  g_CheckedDiv_by_u32_checked_div pf m i d = id_checked_div pf m i d.
Proof.
  intros. unfold g_CheckedDiv_by_u32_checked_div, id_checked_div. div_fin U32.
Qed.

Lemma tie_DivRounded_u32 pf m d i n :
  wf d = true ->
  in_range U32 i = true ->
  g_DivRounded_u32_div_rounded pf m d i n = di_div_rounded pf m d i n.
Proof.
  intros. unfold g_DivRounded_u32_div_rounded, di_div_rounded. div_fin U32.
Qed.

Lemma tie_DivRounded_by_u32 pf m i d n :
  wf d = true ->
  in_range U32 i = true ->
  g_DivRounded_by_u32_div_rounded pf m i d n = id_div_rounded pf m i d n.
Proof.
  intros. unfold g_DivRounded_by_u32_div_rounded, id_div_rounded. div_fin U32.
Qed.

Lemma tie_Div_i32 pf m d i :
  wf d = true ->
  in_range I32 i = true ->
  g_Div_i32_div pf m d i = di_div pf m d i.
Proof.
  intros. unfold g_Div_i32_div, di_div. div_fin I32.
Qed.

Lemma tie_Div_by_i32 pf m i d :
  wf d = true ->
  in_range I32 i = true ->
  g_Div_by_i32_div pf m i d = id_div pf m i d.
Proof.
  intros. unfold g_Div_by_i32_div, id_div. div_fin I32.
Qed.

Lemma tie_CheckedDiv_i32 pf m d i :
  wf d = true ->
  in_range I32 i = true ->
  g_CheckedDiv_i32_checked_div pf m d i = di_checked_div pf m d i.
Proof.
  intros. unfold g_CheckedDiv_i32_checked_div, di_checked_div. div_fin I32.
Qed.

Lemma tie_CheckedDiv_by_i32 pf m i d :
  wf d = true ->
  in_range I32 i = true ->
  g_CheckedDiv_by_i32_checked_div pf m i d = id_checked_div pf m i d.
Proof.
  intros. unfold g_CheckedDiv_by_i32_checked_div, id_checked_div. div_fin I32.
Qed.

Lemma tie_DivRounded_i32 pf m d i n :
  wf d = true ->
  in_range I32 i = true ->
  g_DivRounded_i32_div_rounded pf m d i n = di_div_rounded pf m d i n.
Proof.
  intros. unfold g_DivRounded_i32_div_rounded, di_div_rounded. div_fin I32.
Qed.

Lemma tie_DivRounded_by_i32 pf m i d n :
  wf d = true ->
  in_range I32 i = true ->
  g_DivRounded_by_i32_div_rounded pf m i d n = id_div_rounded pf m i d n.
Proof.
  intros. unfold g_DivRounded_by_i32_div_rounded, id_div_rounded. div_fin I32.
Qed.

Lemma tie_Div_u64 pf m d i :
  wf d = true ->
  in_range U64 i = true ->
  g_Div_u64_div pf m d i = di_div pf m d i.
Proof.
  intros. unfold g_Div_u64_div, di_div. div_fin U64.
Qed.

Lemma tie_Div_by_u64 pf m i d :
  wf d = true ->
  in_range U64 i = true ->
  g_Div_by_u64_div pf m i d = id_div pf m i d.
Proof.
  intros. unfold g_Div_by_u64_div, id_div. div_fin U64.
Qed.

Lemma tie_CheckedDiv_u64 pf m d i :
  wf d = true ->
  in_range U64 i = true ->
  g_CheckedDiv_u64_checked_div pf m d i = di_checked_div pf m d i.
Proof.
  intros. unfold g_CheckedDiv_u64_checked_div, di_checked_div. div_fin U64.
Qed.

Lemma tie_CheckedDiv_by_u64 pf m i d :
  wf d = true ->
  in_range U64 i = true ->
  g_CheckedDiv_by_u64_checked_div pf m i d = id_checked_div pf m i d.
Proof.
  intros. unfold g_CheckedDiv_by_u64_checked_div, id_checked_div. div_fin U64.
Qed.

Lemma tie_DivRounded_u64 pf m d i n :
  wf d = true ->
  in_range U64 i = true ->
  g_DivRounded_u64_div_rounded pf m d i n = di_div_rounded pf m d i n.
Proof.
  intros. unfold g_DivRounded_u64_div_rounded, di_div_rounded. div_fin U64.
Qed.

Lemma tie_DivRounded_by_u64 pf m i d n :
  wf d = true ->
  in_range U64 i = true ->
  g_DivRounded_by_u64_div_rounded pf m i d n = id_div_rounded pf m i d n.
Proof.
  intros. unfold g_DivRounded_by_u64_div_rounded, id_div_rounded. div_fin U64.
Qed.

Lemma tie_Div_i64 pf m d i :
  wf d = true ->
  in_range I64 i = true ->
  g_Div_i64_div pf m d i = di_div pf m d i.
Proof.
  intros. unfold g_Div_i64_div, di_div. div_fin I64.
Qed.

Lemma tie_Div_by_i64 pf m i d :
  wf d = true ->
  in_range I64 i = true ->
  g_Div_by_i64_div pf m i d = id_div pf m i d.
Proof.
  intros. unfold g_Div_by_i64_div, id_div. div_fin I64.
Qed.

Lemma tie_CheckedDiv_i64 pf m d i :
  wf d = true ->
  in_range I64 i = true ->
  g_CheckedDiv_i64_checked_div pf m d i = di_checked_div pf m d i.
Proof.
  intros. unfold g_CheckedDiv_i64_checked_div, di_checked_div. div_fin I64.
Qed.

Lemma tie_CheckedDiv_by_i64 pf m i d :
  wf d = true ->
  in_range I64 i = true ->
  g_CheckedDiv_by_i64_checked_div pf m i d = id_checked_div pf m i d.
Proof.
  intros. unfold g_CheckedDiv_by_i64_checked_div, id_checked_div. div_fin I64.
Qed.

Lemma tie_DivRounded_i64 pf m d i n :
  wf d = true ->
  in_range I64 i = true ->
  g_DivRounded_i64_div_rounded pf m d i n = di_div_rounded pf m d i n.
Proof.
  intros. unfold g_DivRounded_i64_div_rounded, di_div_rounded. div_fin I64.
Qed.

Lemma tie_DivRounded_by_i64 pf m i d n :
  wf d = true ->
  in_range I64 i = true ->
  g_DivRounded_by_i64_div_rounded pf m i d n = id_div_rounded pf m i d n.
Proof.
  intros. unfold g_DivRounded_by_i64_div_rounded, id_div_rounded. div_fin I64.
Qed.

Lemma tie_Div_i128 pf m d i :
  wf d = true ->
  in_range I128 i = true ->
  g_Div_i128_div pf m d i = di_div pf m d i.
Proof.
  intros. unfold g_Div_i128_div, di_div. div_fin I128.
Qed.

Lemma tie_Div_by_i128 pf m i d :
  wf d = true ->
  in_range I128 i = true ->
  g_Div_by_i128_div pf m i d = id_div pf m i d.
Proof.
  intros. unfold g_Div_by_i128_div, id_div. div_fin I128.
Qed.

Lemma tie_CheckedDiv_i128 pf m d i :
  wf d = true ->
  in_range I128 i = true ->
  g_CheckedDiv_i128_checked_div pf m d i = di_checked_div pf m d i.
Proof.
  intros. unfold g_CheckedDiv_i128_checked_div, di_checked_div. div_fin I128.
Qed.

Lemma tie_CheckedDiv_by_i128 pf m i d :
  wf d = true ->
  in_range I128 i = true ->
  g_CheckedDiv_by_i128_checked_div pf m i d = id_checked_div pf m i d.
Proof.
  intros. unfold g_CheckedDiv_by_i128_checked_div, id_checked_div. div_fin I128.
Qed.

Lemma tie_DivRounded_i128 pf m d i n :
  wf d = true ->
  in_range I128 i = true ->
  g_DivRounded_i128_div_rounded pf m d i n = di_div_rounded pf m d i n.
Proof.
  intros. unfold g_DivRounded_i128_div_rounded, di_div_rounded. div_fin I128.
Qed.

Lemma tie_DivRounded_by_i128 pf m i d n :
  wf d = true ->
  in_range I128 i = true ->
  g_DivRounded_by_i128_div_rounded pf m i d n = id_div_rounded pf m i d n.
Proof.
  intros. unfold g_DivRounded_by_i128_div_rounded, id_div_rounded. div_fin I128.
Qed.
