(* OutFacts.v — reflexivity of the outcome comparisons. *)
From FP Require Import Machine Out.

Lemma dec_eqb_refl d : dec_eqb d d = true.
Proof. unfold dec_eqb. rewrite !Z.eqb_refl. reflexivity. Qed.

Lemma dec_eqb_eq a b : dec_eqb a b = true -> a = b.
Proof.
  unfold dec_eqb. rewrite andb_true_iff, !Z.eqb_eq. destruct a, b; cbn. intros [-> ->]. reflexivity.
Qed.

Lemma cmp_eqb_refl c : cmp_eqb c c = true.
Proof. destruct c; reflexivity. Qed.

Lemma zlist_eqb_refl l : zlist_eqb l l = true.
Proof. induction l as [|x l IH]; cbn; [reflexivity|]. rewrite Z.eqb_refl, IH. reflexivity. Qed.

Lemma out_eqb_refl o : out_eqb o o = true.
Proof.
  destruct o; cbn; rewrite ?dec_eqb_refl, ?Z.eqb_refl, ?zlist_eqb_refl; try reflexivity.
  - destruct b; reflexivity.
  - destruct c as [c|]; [apply cmp_eqb_refl|reflexivity].
Qed.
