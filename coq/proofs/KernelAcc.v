(* KernelAcc.v — every kernel-level oracle predicate [acc_k] the driver applies to the
   implementation holds of the model, on the kernel's domain: the tie's oracle for the
   `w.*` protocol lines (public kernels and the cfg(fpdec_verif) hooks) is itself a theorem. *)
From FP Require Import Machine SrcConsts Pow10 WideDiv Rounding Arith Unops Parser RoundSpec Out ArithSpec Run.
From FP Require Import MachineFacts Pow10Facts RoundSpecFacts RoundingFacts OutFacts UnopsFacts Lt5Facts MagnitudeFacts
  KernelContract WideMulFacts WideDivFacts DivFacts MulFacts SwarFacts.

Local Open Scope Z_scope.

Lemma acc_floor_of_ok N m o : 0 < m -> floor_ok N m o ->
  acc_floor_qr N m (of_opt (fun '(q, r) => OQ q r) o) = true.
Proof.
  intros Hm H. destruct o as [[q r]|]; cbn [of_opt acc_floor_qr floor_ok] in *.
  - destruct H as (Ht & -> & ->). pose proof (floor_quot_range N m Hm Ht) as R.
    rewrite !Z.eqb_refl.
    assert (EM : MINC = - MAXC - 1) by (unfold MINC; rewrite MAXC_val, pow2_127; reflexivity).
    destruct (Z.leb_spec (Z.abs N / m) (MAXC + 1)); [|lia].
    destruct (Z.leb_spec MINC (N / m)); [|lia]. destruct (Z.leb_spec (N / m) MAXC); [|lia]. reflexivity.
  - apply Z.ltb_lt. exact H.
Qed.

Lemma acc_rounded_of_ok c o : rounded_ok c o -> acc_rounded_int c (of_opt OI o) = true.
Proof.
  intros H. destruct o as [v|]; cbn [of_opt acc_rounded_int rounded_ok] in *.
  - destruct H as [-> [H1 H2]]. rewrite Z.eqb_refl. apply Z.leb_le in H1, H2. rewrite H1, H2. reflexivity.
  - apply Z.ltb_lt. exact H.
Qed.

(* the eight bytes of a word and its lanes *)
Lemma bytes_le_lanes a : 0 <= a < 2 ^ 64 ->
  lanes 8 (bytes_le a) = a /\ length (bytes_le a) = 8%nat /\ Forall byte_ok (bytes_le a).
Proof.
  intros Ha. refine (conj _ (conj eq_refl _)).
  - unfold bytes_le. cbn [map lanes].
    change (8 * 0) with 0. change (8 * 1) with 8. change (8 * 2) with 16. change (8 * 3) with 24.
    change (8 * 4) with 32. change (8 * 5) with 40. change (8 * 6) with 48. change (8 * 7) with 56.
    change (2 ^ 0) with 1. rewrite Z.div_1_r.
    assert (E : forall k, 0 <= k -> a / 2 ^ (k + 8) = a / 2 ^ k / 2 ^ 8).
    { intros k Hk. rewrite Z.pow_add_r, Z.div_div by (try apply Z.pow_pos_nonneg; lia). reflexivity. }
    pose proof (E 0 ltac:(lia)) as E0. pose proof (E 8 ltac:(lia)) as E1. pose proof (E 16 ltac:(lia)) as E2.
    pose proof (E 24 ltac:(lia)) as E3. pose proof (E 32 ltac:(lia)) as E4. pose proof (E 40 ltac:(lia)) as E5.
    pose proof (E 48 ltac:(lia)) as E6. cbn [Z.add Pos.add Pos.succ] in *. change (2 ^ 0) with 1 in E0. rewrite Z.div_1_r in E0.
    assert (a / 2 ^ 56 < 2 ^ 8).
    { apply Z.div_lt_upper_bound; [reflexivity|]. change (2 ^ 56 * 2 ^ 8) with (2 ^ 64). lia. }
    assert (0 <= a / 2 ^ 56) by (apply Z.div_pos; [lia|reflexivity]).
    change (2 ^ 8) with 256 in *.
    pose proof (Z.div_mod a 256 ltac:(lia)). pose proof (Z.div_mod (a / 2 ^ 8) 256 ltac:(lia)).
    pose proof (Z.div_mod (a / 2 ^ 16) 256 ltac:(lia)). pose proof (Z.div_mod (a / 2 ^ 24) 256 ltac:(lia)).
    pose proof (Z.div_mod (a / 2 ^ 32) 256 ltac:(lia)). pose proof (Z.div_mod (a / 2 ^ 40) 256 ltac:(lia)).
    pose proof (Z.div_mod (a / 2 ^ 48) 256 ltac:(lia)).
    rewrite (Z.mod_small (a / 2 ^ 56) 256) by lia. change (2 ^ 8) with 256 in *. lia.
  - unfold bytes_le. cbn [map].
    repeat (apply Forall_cons; [unfold byte_ok;
      match goal with |- 0 <= ?x mod 256 <= 255 => pose proof (Z.mod_pos_bound x 256 ltac:(lia)); lia end|]).
    apply Forall_nil.
Qed.

Definition kdom (op : kop) (a b c : Z) : Prop :=
  match op with
  | Ki256 => - MAXC <= a <= MAXC /\ - MAXC <= b <= MAXC /\ 0 < c <= MAXC
  | Ksdmf => - MAXC <= a <= MAXC /\ 0 <= b <= 38 /\ 0 < c <= MAXC
  | Kdivr => - MAXC <= a <= MAXC /\ - MAXC <= b <= MAXC /\ b <> 0
  | Ksdr => - MAXC <= a <= MAXC /\ 0 <= b <= 38 /\ c <> 0 /\ - MAXC <= c <= MAXC
  | Kmdr => - MAXC <= a <= MAXC /\ - MAXC <= b <= MAXC /\ 0 <= c <= 38
  | Kdmf => in_range I128 a = true /\ in_range I128 b = true /\ 0 < b
  | Kmag => 0 < Z.abs a < 2 ^ 127
  | Kmulw => 0 <= a < 2 ^ 128 /\ 0 <= b < 2 ^ 128
  | Kidiv => 0 <= a < 2 ^ 128 /\ 0 <= b < 2 ^ 128 /\ 0 < c < 2 ^ 128
  | Kidiv64 => 0 <= a < 2 ^ 128 /\ 0 <= b < 2 ^ 128 /\ 0 < c < 2 ^ 64
  | Kidivs => 0 <= a < c /\ 0 <= b < 2 ^ 128 /\ 0 < c < 2 ^ 128
  | Kmsb => 0 < a < 2 ^ 128
  | Klt5 => 0 < a < 100000
  | Kchd | Kchv => 0 <= a < 2 ^ 64
  end.

Theorem kernel_acc pf m op a b c : kdom op a b c -> acc_k m op a b c (run_k pf m op a b c) = true.
Proof.
  destruct op; cbn [kdom acc_k run_k]; intros H.
  - destruct H as (Ha & Hb & Hc). destruct (i256_contract_holds pf a b c Ha Hb Hc) as (o & -> & Ho).
    unfold out_oqr. cbn [of_res]. apply acc_floor_of_ok; [lia|exact Ho].
  - destruct H as (Ha & Hb & Hc). destruct (sdmf_contract_holds pf a b c Ha Hb Hc) as (o & -> & Ho).
    unfold out_oqr. cbn [of_res]. apply acc_floor_of_ok; [lia|exact Ho].
  - destruct H as (Ha & Hb & Hc). rewrite i128_div_rounded_ok by assumption. apply out_eqb_refl.
  - destruct H as (Ha & Hb & Hc & Hd). destruct (sdr_ok sdmf_contract_holds pf m a b c Ha Hb Hc Hd) as (o & -> & Ho).
    unfold out_oint. cbn [of_res]. apply acc_rounded_of_ok. exact Ho.
  - destruct H as (Ha & Hb & Hc). destruct (mdr_ok i256_contract_holds pf m a b c Ha Hb Hc) as (o & -> & Ho).
    unfold out_oint. cbn [of_res]. apply acc_rounded_of_ok. exact Ho.
  - destruct H as (Ha & Hb & Hc). rewrite div_mod_floor_pos by assumption. apply out_eqb_refl.
  - unfold i128_magnitude.
    rewrite log_u128_ok by (split; [lia|]; apply Z.lt_trans with (2 ^ 127); [lia|reflexivity]). cbn [bind].
    pose proof (ilog10_i128 _ H) as Hl. rewrite cast_id by (apply in_U8_iff'; lia). apply out_eqb_refl.
  - destruct H as (Ha & Hb). rewrite u128_mul_u128_ok by assumption. apply out_eqb_refl.
  - destruct H as (Ha & Hb & Hc). destruct (u256_idiv_u128_ok pf a b c Ha Hb Hc) as (qh & ql & r & -> & _ & _ & Eq & ->).
    cbn [of_res]. rewrite Eq. apply out_eqb_refl.
  - destruct H as (Ha & Hb & Hc). destruct (u256_idiv_u64_ok pf a b c Ha Hb Hc) as (qh & ql & r & -> & _ & _ & Eq & ->).
    cbn [of_res]. rewrite Eq. apply out_eqb_refl.
  - destruct H as (Ha & Hb & Hc). destruct (special_ok pf a b c Hc Ha Hb) as (ql & r & -> & _ & -> & ->).
    cbn [of_res]. rewrite Z.mul_0_l, Z.add_0_l. apply out_eqb_refl.
  - rewrite u128_msb_ok by assumption. apply out_eqb_refl.
  - rewrite log_lt5_ok by assumption. apply out_eqb_refl.
  - destruct (bytes_le_lanes a H) as (El & Hlen & Hb).
    rewrite <- El at 1. rewrite contains_spec by assumption. apply out_eqb_refl.
  - destruct (all_digits8 a) eqn:Ed; [|reflexivity].
    destruct (bytes_le_lanes a H) as (El & _ & _).
    unfold all_digits8, bytes_le in Ed. cbn [map forallb] in Ed.
    repeat (apply andb_true_iff in Ed; destruct Ed as [? Ed]).
    repeat match goal with H : (48 <=? ?x) && (?x <=? 57) = true |- _ =>
      apply andb_true_iff in H; destruct H as [?H1 ?H2]; apply Z.leb_le in H1, H2 end.
    unfold digits8_value. rewrite <- El at 1. unfold bytes_le. cbn [map fold_left].
    repeat match goal with |- context [(a / 2 ^ ?k) mod 256] =>
      let b := fresh "b" in set (b := (a / 2 ^ k) mod 256) in * end.
    match goal with |- out_eqb (OI (chunk_to_u64 (lanes 8 [?x0; ?x1; ?x2; ?x3; ?x4; ?x5; ?x6; ?x7]))) _ = true =>
      replace x0 with (48 + (x0 - 48)) at 1 by lia; replace x1 with (48 + (x1 - 48)) at 1 by lia;
      replace x2 with (48 + (x2 - 48)) at 1 by lia; replace x3 with (48 + (x3 - 48)) at 1 by lia;
      replace x4 with (48 + (x4 - 48)) at 1 by lia; replace x5 with (48 + (x5 - 48)) at 1 by lia;
      replace x6 with (48 + (x6 - 48)) at 1 by lia; replace x7 with (48 + (x7 - 48)) at 1 by lia end.
    rewrite chunk_to_u64_digits by lia.
    match goal with |- out_eqb (OI ?x) (OI ?y) = true => replace y with x by ring end. apply out_eqb_refl.
Qed.
