(* FromFloatFacts.v — C13: TryFrom<f64/f32> for Decimal against the specification. *)
From FP Require Import Machine SrcConsts Pow10 Arith Unops Floats RoundSpec Out ArithSpec FloatSpec Run RunMore.
From FP Require Import MachineFacts Pow10Facts RoundSpecFacts RoundingFacts OutFacts UnopsFacts Lt5Facts MagnitudeFacts DivFacts.

Local Open Scope Z_scope.

(* ---------------- small arithmetic facts ---------------- *)
Lemma in_I128 z : - 2 ^ 127 <= z < 2 ^ 127 -> in_range I128 z = true.
Proof. intros. apply in_I128_iff. lia. Qed.
Lemma in_U8r z : 0 <= z <= 255 -> in_range U8 z = true.
Proof. intros. apply in_U8_iff'. lia. Qed.

Lemma pow10_18_lt : 10 ^ 18 < 2 ^ 60.
Proof. reflexivity. Qed.

Lemma land1_odd c : (Z.land c 1 =? 1) = Z.odd c.
Proof.
  change 1 with (Z.ones 1) at 1. rewrite Z.land_ones by lia. change (2 ^ 1) with 2.
  rewrite <- Z.bit0_mod, Z.bit0_odd. destruct (Z.odd c); reflexivity.
Qed.

Lemma rnd_exact m q d : 0 < d -> rnd m (q * d) d = q.
Proof.
  intros Hd. replace (q * d) with (q * d + 0) by lia. rewrite rnd_floor_eq by lia. reflexivity.
Qed.

Lemma rnd_one m n : rnd m n 1 = n.
Proof. rewrite <- (Z.mul_1_r n) at 1. apply rnd_exact. lia. Qed.

Lemma rnd_he_small n d : 0 < d -> 2 * Z.abs n < d -> rnd RHalfEven n d = 0.
Proof.
  intros Hd Hn. unfold rnd.
  assert (Z.quot n d = 0) by (apply Z.quot_small_iff; lia || (destruct (Z_le_gt_dec 0 n); [left; lia|right; lia])).
  assert (Z.rem n d = n).
  { pose proof (Z.quot_rem' n d). lia. }
  rewrite H, H0. destruct (Z.eqb_spec (Z.abs n) 0); [reflexivity|].
  destruct (Z.ltb_spec d (2 * Z.abs n)); [lia|]. destruct (Z.eqb_spec d (2 * Z.abs n)); [lia|]. reflexivity.
Qed.

Lemma rnd_he_opp n d : 0 < d -> rnd RHalfEven (- n) d = - rnd RHalfEven n d.
Proof.
  intros Hd. unfold rnd. rewrite Z.quot_opp_l, Z.rem_opp_l, Z.abs_opp, Z.sgn_opp by lia.
  destruct (Z.abs (Z.rem n d) =? 0); [reflexivity|].
  rewrite Z.odd_opp.
  destruct ((d <? 2 * Z.abs (Z.rem n d)) || ((d =? 2 * Z.abs (Z.rem n d)) && Z.odd (Z.quot n d))); lia.
Qed.

(* stripping trailing zeros does not depend on the fuel once it covers n *)
Lemma strip_fuel : forall (k : nat) f1 f2 c n, n = Z.of_nat k -> (k <= f1)%nat -> (k <= f2)%nat ->
  strip f1 c n = strip f2 c n.
Proof.
  induction k as [|k IH]; intros f1 f2 c n Hn H1 H2.
  - destruct f1, f2; cbn [strip]; try reflexivity; destruct (Z.ltb_spec 0 n); try lia; reflexivity.
  - destruct f1 as [|f1]; [lia|]. destruct f2 as [|f2]; [lia|]. cbn [strip].
    destruct ((0 <? n) && (c mod 10 =? 0)); [|reflexivity]. apply (IH f1 f2); lia.
Qed.

Lemma strip_mul_pow : forall (t : nat) f c n, (t <= f)%nat -> 0 <= n ->
  strip f (c * 10 ^ Z.of_nat t) (n + Z.of_nat t) = strip (f - t) c n.
Proof.
  induction t as [|t IH]; intros f c n Hf Hn.
  - cbn [Z.of_nat]. rewrite Z.pow_0_r, Z.mul_1_r, Z.add_0_r, Nat.sub_0_r. reflexivity.
  - destruct f as [|f]; [lia|]. cbn [strip].
    rewrite Nat2Z.inj_succ, Z.pow_succ_r by lia.
    destruct (Z.ltb_spec 0 (n + Z.succ (Z.of_nat t))); [|lia].
    replace (c * (10 * 10 ^ Z.of_nat t)) with (c * 10 ^ Z.of_nat t * 10) by ring.
    rewrite Z.mod_mul by lia. cbn [andb Z.eqb]. rewrite Z.div_mul by lia.
    replace (n + Z.succ (Z.of_nat t) - 1) with (n + Z.of_nat t) by lia.
    rewrite IH by lia. reflexivity.
Qed.

Lemma strip_abs_le : forall f c n, Z.abs (fst (strip f c n)) <= Z.abs c.
Proof.
  induction f as [|f IH]; intros c n; cbn [strip]; [cbn; lia|].
  destruct ((0 <? n) && (c mod 10 =? 0)); [|cbn; lia].
  specialize (IH (c / 10) (n - 1)). pose proof (Z.div_mod c 10 ltac:(lia)). pose proof (Z.mod_pos_bound c 10 ltac:(lia)). lia.
Qed.

Lemma strip_all_strip f c n : strip_all f c n = strip f c n.
Proof. revert c n. induction f as [|f IH]; intros c n; cbn [strip_all strip]; [reflexivity|]. rewrite IH. reflexivity. Qed.

(* normal form of an exact value written with fewer than 18 digits *)
Lemma normal_scale c j : 0 <= j <= 18 -> c <> 0 -> normal (c * 10 ^ (18 - j)) 18 = normal c j.
Proof.
  intros Hj Hc. unfold normal.
  assert (0 < 10 ^ (18 - j)) by (apply Z.pow_pos_nonneg; lia).
  destruct (Z.eqb_spec (c * 10 ^ (18 - j)) 0); [nia|]. destruct (Z.eqb_spec c 0); [contradiction|].
  replace 18 with (j + Z.of_nat (Z.to_nat (18 - j))) at 2 by lia.
  replace (18 - j) with (Z.of_nat (Z.to_nat (18 - j))) at 1 by lia.
  rewrite strip_mul_pow by lia.
  rewrite (strip_fuel (Z.to_nat j) _ 18 c j) by lia. reflexivity.
Qed.

(* ---------------- the digit loop of approx_rational ---------------- *)
Lemma ilog10_le15 v : 0 < v < 2 ^ 54 -> 0 <= ilog10 v <= 16.
Proof.
  intros Hv. destruct (ilog10_spec v) as (K0 & K1 & K2).
  { split; [lia|]. apply Z.lt_trans with (2 ^ 54); [lia|reflexivity]. }
  split; [assumption|]. destruct (Z_le_gt_dec (ilog10 v) 16); [assumption|].
  assert (10 ^ 17 <= 10 ^ ilog10 v) by (apply Z.pow_le_mono_r; lia).
  assert (2 ^ 54 < 10 ^ 17) by reflexivity. lia.
Qed.

Lemma log_u128_zero pf : log_u128 pf 0 = Val 0.
Proof. destruct pf as [[|] [|]]; vm_compute; reflexivity. Qed.

Lemma div_step m dv j : 0 < dv -> 0 <= j ->
  (m * 10 ^ (j + 1)) / dv = (m * 10 ^ j / dv) * 10 + ((m * 10 ^ j) mod dv * 10) / dv /\
  (m * 10 ^ (j + 1)) mod dv = ((m * 10 ^ j) mod dv * 10) mod dv.
Proof.
  intros Hd Hj. rewrite Z.pow_add_r, Z.pow_1_r by lia.
  set (x := m * 10 ^ j). replace (m * (10 ^ j * 10)) with (x * 10) by (unfold x; ring).
  pose proof (Z.div_mod x dv ltac:(lia)) as E.
  replace (x * 10) with ((x / dv * 10) * dv + x mod dv * 10) by lia.
  split.
  - rewrite Z.div_add_l by lia. reflexivity.
  - rewrite Z.add_comm, Z.mod_add by lia. reflexivity.
Qed.

Lemma approx_loop_ok pf dv m : 0 < dv <= 2 ^ 126 -> 0 <= m < 2 ^ 54 ->
  forall (k : nat) fuel j magn, j = 18 - Z.of_nat k -> 0 <= j -> (k < fuel)%nat -> 0 <= magn <= 16 + j ->
  exists j', j <= j' <= 18 /\ (j' < 18 -> (m * 10 ^ j') mod dv = 0) /\
    approx_loop fuel pf dv (m * 10 ^ j / dv) ((m * 10 ^ j) mod dv) j magn
    = Val (m * 10 ^ j' / dv, (m * 10 ^ j') mod dv, j').
Proof.
  intros Hdv Hm. induction k as [|k IH]; intros fuel j magn Hj Hj0 Hf Hmg.
  - destruct fuel as [|fuel]; [lia|]. cbn [approx_loop]. change MAX_N_FRAC_DIGITS with 18.
    destruct (Z.ltb_spec j 18); [lia|]. rewrite andb_false_r. cbn [andb].
    exists j. split; [lia|]. split; [lia|reflexivity].
  - destruct fuel as [|fuel]; [lia|]. cbn [approx_loop]. change MAX_N_FRAC_DIGITS with 18.
    change (FF_MAGN_I128_MAX - 1) with 37.
    set (x := m * 10 ^ j) in *.
    pose proof (Z.mod_pos_bound x dv ltac:(lia)) as Hr.
    destruct (Z.eqb_spec (x mod dv) 0) as [E0|N0].
    { cbn [negb andb]. exists j. split; [lia|]. split; [intros _; exact E0|reflexivity]. }
    destruct (Z.ltb_spec j 18); [|lia]. destruct (Z.ltb_spec magn 37); [|lia]. cbn [negb andb].
    assert (Hp : 0 < 10 ^ j <= 10 ^ 17).
    { split; [apply Z.pow_pos_nonneg; lia|apply Z.pow_le_mono_r; lia]. }
    assert (Hx : 0 <= x < 2 ^ 54 * 10 ^ 17) by (unfold x; nia).
    assert (H17 : 2 ^ 54 * 10 ^ 17 * 10 + 10 < 2 ^ 127) by reflexivity.
    assert (Hrx : x mod dv <= x) by (apply Z.mod_le; lia).
    assert (Hqx : 0 <= x / dv <= x).
    { split; [apply Z.div_pos; lia|]. apply Z.div_le_upper_bound; [lia|nia]. }
    unfold ck_mul. rewrite (ck_ok pf I128 (x mod dv * 10)) by (apply in_I128; lia). cbn [bind].
    rewrite t_div_ok by lia. rewrite t_rem_ok by lia. cbn [bind].
    rewrite Z.quot_div_nonneg, Z.rem_mod_nonneg by lia.
    unfold ck_add. rewrite (ck_ok pf U8 (j + 1)) by (apply in_U8r; lia). cbn [bind].
    rewrite (ck_ok pf U8 (magn + 1)) by (apply in_U8r; lia). cbn [bind].
    rewrite (ck_ok pf I128 (x / dv * 10)) by (apply in_I128; lia). cbn [bind].
    assert (Hd10 : 0 <= x mod dv * 10 / dv < 10).
    { split; [apply Z.div_pos; lia|apply Z.div_lt_upper_bound; lia]. }
    rewrite (ck_ok pf I128 (x / dv * 10 + x mod dv * 10 / dv)) by (apply in_I128; lia). cbn [bind].
    destruct (div_step m dv j ltac:(lia) Hj0) as [Eq Er]. fold x in Eq, Er.
    rewrite <- Eq, <- Er.
    destruct (IH fuel (j + 1) (magn + 1)) as (j' & Hj' & Hz & E); try lia.
    exists j'. split; [lia|]. split; [exact Hz|exact E].
Qed.

Lemma rnd_he_floor c r dv : 0 < dv -> 0 <= r < dv ->
  (if (2 * r >? dv) || ((2 * r =? dv) && Z.odd c) then c + 1 else c) = rnd RHalfEven (c * dv + r) dv.
Proof.
  intros Hd Hr. rewrite rnd_floor_eq by lia. unfold rnd_floor. rewrite <- odd_rem2.
  destruct (Z.eqb_spec r 0) as [->|N]; [|reflexivity].
  destruct (Z.gtb_spec (2 * 0) dv); [lia|]. destruct (Z.eqb_spec (2 * 0) dv); [lia|]. reflexivity.
Qed.

Lemma approx_rational_ok pf D k : 1 <= k <= 126 -> 0 < Z.abs D < 2 ^ 54 ->
  approx_rational pf D (2 ^ k) =
  Val (let d := normal (rnd RHalfEven (D * 10 ^ 18) (2 ^ k)) 18 in (coeff d, nfd d)).
Proof.
  intros Hk HD.
  assert (Hdv : 2 <= 2 ^ k <= 2 ^ 126).
  { split; [change 2 with (2 ^ 1) at 1|]; apply Z.pow_le_mono_r; lia. }
  set (dv := 2 ^ k) in *. set (m := Z.abs D) in *.
  assert (H54 : 2 ^ 54 < 2 ^ 127) by reflexivity.
  unfold approx_rational. destruct (Z.gtb_spec dv 0); [|lia]. cbn [assert bind].
  destruct (Z.eqb_spec dv 1); [lia|]. destruct (Z.eqb_spec D 0); [lia|].
  unfold ck_abs. fold m. rewrite (ck_ok pf I128 m) by (apply in_I128; lia). cbn [bind].
  rewrite t_div_ok, t_rem_ok by lia. cbn [bind].
  rewrite Z.quot_div_nonneg, Z.rem_mod_nonneg by lia.
  assert (Hq : 0 <= m / dv <= m).
  { split; [apply Z.div_pos; lia|]. apply Z.div_le_upper_bound; [lia|nia]. }
  assert (Hmg : exists magn, i128_magnitude pf (m / dv) = Val magn /\ 0 <= magn <= 16).
  { unfold i128_magnitude. rewrite Z.abs_eq by lia.
    destruct (Z.eqb_spec (m / dv) 0) as [E|N].
    - rewrite E, log_u128_zero. cbn [bind]. exists 0. split; [reflexivity|lia].
    - rewrite log_u128_ok by (split; [lia|]; apply Z.lt_trans with (2 ^ 127); [lia|reflexivity]).
      cbn [bind]. pose proof (ilog10_le15 (m / dv) ltac:(lia)) as B.
      rewrite cast_id by (apply in_U8r; lia). eexists. split; [reflexivity|lia]. }
  destruct Hmg as (magn & -> & Hmagn). cbn [bind].
  destruct (approx_loop_ok pf dv m ltac:(lia) ltac:(lia) 18 64 0 magn ltac:(lia) ltac:(lia) ltac:(lia) ltac:(lia))
    as (j & Hj & Hz & E).
  rewrite Z.pow_0_r, Z.mul_1_r in E. rewrite E. clear E. cbn [bind].
  set (x := m * 10 ^ j) in *.
  assert (Hp : 0 < 10 ^ j <= 10 ^ 18).
  { split; [apply Z.pow_pos_nonneg; lia|apply Z.pow_le_mono_r; lia]. }
  assert (Hx : 0 < x < 2 ^ 54 * 10 ^ 18) by (unfold x; nia).
  assert (H18 : 2 ^ 54 * 10 ^ 18 + 1 < 2 ^ 127) by reflexivity.
  pose proof (Z.mod_pos_bound x dv ltac:(lia)) as Hr.
  pose proof (Z.div_mod x dv ltac:(lia)) as Ex.
  assert (Hc : 0 <= x / dv <= x).
  { split; [apply Z.div_pos; lia|]. apply Z.div_le_upper_bound; [lia|nia]. }
  (* rem <<= 1 *)
  unfold ck_shl. change ((0 <=? 1) && (1 <? bits I128)) with true. cbv iota.
  change (2 ^ 1) with 2.
  assert (H126 : 2 ^ 126 * 2 = 2 ^ 127) by reflexivity.
  rewrite wrap_id by (apply in_I128; lia). cbn [bind].
  rewrite land1_odd. rewrite (Z.mul_comm (x mod dv) 2).
  set (q := rnd RHalfEven x dv).
  assert (Eq : (if (2 * (x mod dv) >? dv) || ((2 * (x mod dv) =? dv) && Z.odd (x / dv)) then x / dv + 1 else x / dv) = q).
  { unfold q. rewrite (rnd_he_floor (x / dv) (x mod dv) dv) by lia. f_equal. lia. }
  assert (Hqb : x / dv <= q <= x / dv + 1).
  { rewrite <- Eq. destruct ((2 * (x mod dv) >? dv) || ((2 * (x mod dv) =? dv) && Z.odd (x / dv))); lia. }
  assert (Estep : (if (2 * (x mod dv) >? dv) || ((2 * (x mod dv) =? dv) && Z.odd (x / dv))
                   then ck_add pf I128 (x / dv) 1 else Val (x / dv)) = Val q).
  { rewrite <- Eq. unfold ck_add.
    destruct ((2 * (x mod dv) >? dv) || ((2 * (x mod dv) =? dv) && Z.odd (x / dv))); [|reflexivity].
    apply ck_ok. apply in_I128. lia. }
  rewrite Estep. cbn [bind].
  assert (Hsg : Z.sgn D = 1 \/ Z.sgn D = -1) by (unfold m in HD; lia).
  unfold ck_mul. rewrite (ck_ok pf I128 (q * Z.sgn D)) by (apply in_I128; destruct Hsg as [-> | ->]; lia).
  cbn [bind].
  rewrite normalize_ok by (destruct Hsg as [S|S]; rewrite ?S; lia).
  (* the value the specification rounds *)
  assert (Espec : normal (q * Z.sgn D) j = normal (rnd RHalfEven (D * 10 ^ 18) dv) 18).
  { assert (ED : D = Z.sgn D * m) by (unfold m; lia).
    destruct (Z.eq_dec j 18) as [-> | Hj18].
    - f_equal. unfold q, x. destruct Hsg as [S|S]; rewrite S in ED.
      + rewrite S, Z.mul_1_r. f_equal. lia.
      + rewrite S. replace (D * 10 ^ 18) with (- (m * 10 ^ 18)) by lia. rewrite rnd_he_opp by lia. lia.
    - assert (E0 : x mod dv = 0) by (apply Hz; lia).
      assert (Exq : x = (x / dv) * dv) by lia.
      assert (Eqx : q = x / dv) by (unfold q; rewrite Exq at 1; apply rnd_exact; lia).
      assert (x / dv <> 0) by nia.
      replace (D * 10 ^ 18) with ((x / dv * Z.sgn D) * 10 ^ (18 - j) * dv).
      2:{ rewrite ED at 2. replace (10 ^ 18) with (10 ^ j * 10 ^ (18 - j)).
          2:{ rewrite <- Z.pow_add_r by lia. f_equal. lia. }
          unfold x in Exq. nia. }
      rewrite rnd_exact by lia. rewrite normal_scale by (try lia; destruct Hsg as [-> | ->]; lia).
      rewrite Eqx. reflexivity. }
  rewrite Espec. reflexivity.
Qed.

(* ---------------- bit fields ---------------- *)
Lemma land_mask a n : 0 <= n -> Z.land a (2 ^ n - 1) = a mod 2 ^ n.
Proof. intros Hn. replace (2 ^ n - 1) with (Z.ones n) by (rewrite Z.ones_equiv; lia). apply Z.land_ones. exact Hn. Qed.

Lemma lor_pow2 x k : 0 <= k -> 0 <= x < 2 ^ k -> Z.lor x (2 ^ k) = x + 2 ^ k.
Proof.
  intros Hk Hx. rewrite <- Z.lxor_lor, <- Z.add_nocarry_lxor; try reflexivity.
  all: apply Z.bits_inj'; intros n Hn; rewrite Z.land_spec, Z.bits_0, Z.pow2_bits_eqb by lia;
    destruct (Z.eqb_spec k n) as [<-|]; [|apply andb_false_r];
    rewrite <- (Z.mod_small x (2 ^ k)) by lia; rewrite Z.mod_pow2_bits_high by lia; reflexivity.
Qed.

(* ---------------- the specification, by cases ---------------- *)
Definition spec_tail (num den : Z) : ffs :=
  let r := rnd RHalfEven (num * 10 ^ 18) den in
  let '(c, n) := if r =? 0 then (0, 0) else strip_all 18 r 18 in
  if in_range I128 c then FSOk (mkdec c n) else FSOverflow.

Lemma from_float_spec_tail f bits :
  from_float_spec f bits =
  let frac := sf_frac f in
  let ebits := sf_bits f - 1 - frac in
  let be := (bits / 2 ^ frac) mod 2 ^ ebits in
  let fr := bits mod 2 ^ frac in
  if be =? 2 ^ ebits - 1 then (if fr =? 0 then FSInf else FSNan)
  else spec_tail (fst (float_value f bits)) (snd (float_value f bits)).
Proof.
  unfold from_float_spec, spec_tail. cbv zeta. destruct (float_value f bits). reflexivity.
Qed.

Lemma spec_tail_zero num den : rnd RHalfEven (num * 10 ^ 18) den = 0 -> spec_tail num den = FSOk DZERO.
Proof. intros E. unfold spec_tail. rewrite E. reflexivity. Qed.

Lemma spec_tail_normal num den :
  Z.abs (rnd RHalfEven (num * 10 ^ 18) den) < 2 ^ 127 ->
  spec_tail num den = FSOk (normal (rnd RHalfEven (num * 10 ^ 18) den) 18).
Proof.
  intros Hr. unfold spec_tail, normal. set (r := rnd RHalfEven (num * 10 ^ 18) den) in *.
  destruct (Z.eqb_spec r 0); [reflexivity|]. rewrite strip_all_strip.
  pose proof (strip_abs_le 18 r 18) as Hs. destruct (strip 18 r 18) as [c n0]. cbn [fst] in Hs.
  rewrite in_I128 by lia. reflexivity.
Qed.

Lemma spec_tail_int v : v <> 0 ->
  spec_tail v 1 = if in_range I128 v then FSOk (mkdec v 0) else FSOverflow.
Proof.
  intros Hv. unfold spec_tail. rewrite rnd_one.
  assert (0 < 10 ^ 18) by reflexivity.
  destruct (Z.eqb_spec (v * 10 ^ 18) 0); [nia|]. rewrite strip_all_strip.
  change 18 with (0 + Z.of_nat 18) at 2. change (10 ^ 18) with (10 ^ Z.of_nat 18).
  rewrite strip_mul_pow by lia. cbn [Nat.sub strip]. reflexivity.
Qed.

(* ---------------- TryFrom<f64> / TryFrom<f32> ---------------- *)
Definition conv_ffs (s : ffs) : ffres :=
  match s with FSOk d => FOk d | FSInf => FInf | FSNan => FNan | FSOverflow => FOverflow end.

Record fmt_ok (W F B E : Z) (is64 : bool) : Prop := {
  fo_F : 23 <= F <= 52; fo_E : 8 <= E <= 11; fo_W : W = 1 + E + F; fo_B : B = 2 ^ (E - 1) - 1;
  fo_max : is64 = false -> 2 ^ (E - 1) - 1 - F <= 127 }.

Lemma in_I16 z : - 32768 <= z <= 32767 -> in_range I16 z = true.
Proof. intros. apply in_range_iff. cbn [tmin tmax signed bits]. lia. Qed.
Lemma in_I8 z : - 128 <= z <= 127 -> in_range I8 z = true.
Proof. intros. apply in_I8_iff'. lia. Qed.

Lemma shl_I128_one pf e : 0 <= e <= 127 -> ck_shl pf I128 1 e = Val (wrap I128 (2 ^ e)).
Proof.
  intros He. unfold ck_shl. change (bits I128) with 128.
  destruct (Z.leb_spec 0 e); [|lia]. destruct (Z.ltb_spec e 128); [|lia]. cbn [andb].
  rewrite Z.mul_1_l. reflexivity.
Qed.

Lemma float_decode_ok pf W F B E is64 bits : fmt_ok W F B E is64 -> 0 <= bits < 2 ^ W ->
  let be := (bits / 2 ^ F) mod 2 ^ E in
  let fr := bits mod 2 ^ F in
  let s := bits / 2 ^ (W - 1) in
  be <> 2 ^ E - 1 ->
  0 <= s <= 1 /\ 0 <= be < 2 ^ E /\ 0 <= fr < 2 ^ F /\
  float_decode pf (mkffmt W F B is64) bits =
  Val (if be =? 0 then (0, 0, 0) else (fr + 2 ^ F, be - B - F, 1 - s * 2)).
Proof.
  intros [HF HE HW HB Hmax] Hb be fr s Nm.
  assert (HpF : 0 < 2 ^ F) by (apply Z.pow_pos_nonneg; lia).
  assert (HpE : 2 ^ E <= 2 ^ 11) by (apply Z.pow_le_mono_r; lia).
  assert (HpE0 : 0 < 2 ^ E) by (apply Z.pow_pos_nonneg; lia).
  assert (HpE1 : 2 ^ E = 2 * 2 ^ (E - 1)) by (rewrite <- Z.pow_succ_r by lia; f_equal; lia).
  assert (Hbe : 0 <= be < 2 ^ E) by (apply Z.mod_pos_bound; lia).
  assert (Hfr : 0 <= fr < 2 ^ F) by (apply Z.mod_pos_bound; lia).
  assert (Hs : 0 <= s <= 1).
  { assert (0 < 2 ^ (W - 1)) by (apply Z.pow_pos_nonneg; lia).
    assert (2 ^ W = 2 ^ (W - 1) * 2) by (rewrite Z.mul_comm, <- Z.pow_succ_r by lia; f_equal; lia).
    unfold s. split; [apply Z.div_pos; lia|]. assert (bits / 2 ^ (W - 1) < 2) by (apply Z.div_lt_upper_bound; lia). lia. }
  refine (conj Hs (conj Hbe (conj Hfr _))).
  unfold float_decode, exp_mask. cbn [ff_bits ff_frac ff_bias ff_is64].
  replace (W - 1 - F) with E by lia.
  rewrite !Z.shiftr_div_pow2 by lia. rewrite !land_mask by lia. fold be fr s.
  rewrite (cast_id U8 s) by (apply in_U8r; lia).
  rewrite (cast_id I16 be) by (apply in_I16; lia).
  destruct (Z.eqb_spec be (2 ^ E - 1)); [contradiction|]. cbn [negb assert bind].
  destruct (Z.eqb_spec be 0); [reflexivity|].
  unfold ck_sub. rewrite (ck_ok pf I16 (be - B)) by (apply in_I16; lia). cbn [bind].
  rewrite (ck_ok pf I16 (be - B - F)) by (apply in_I16; lia). cbn [bind].
  unfold ck_shl. change ((0 <=? 1) && (1 <? Machine.bits U8)) with true. cbv iota. change (2 ^ 1) with 2.
  rewrite wrap_id by (apply in_U8r; lia). cbn [bind].
  rewrite cast_id by (apply in_I8; lia).
  rewrite (ck_ok pf I8 (1 - s * 2)) by (apply in_I8; lia). cbn [bind].
  rewrite lor_pow2 by lia. reflexivity.
Qed.

Lemma try_from_float_ok pf W F B E is64 bits : fmt_ok W F B E is64 -> 0 <= bits < 2 ^ W ->
  try_from_float pf (mkffmt W F B is64) bits = Val (conv_ffs (from_float_spec (mksffmt W F B) bits)).
Proof.
  intros Hfm Hb. pose proof Hfm as [HF HE HW HB Hmax].
  rewrite from_float_spec_tail. unfold try_from_float, float_value, exp_mask.
  cbn [ff_bits ff_frac ff_bias ff_is64 sf_bits sf_frac sf_bias]. cbv zeta.
  replace (W - 1 - F) with E by lia.
  rewrite !Z.shiftr_div_pow2 by lia. rewrite !land_mask by lia.
  set (be := (bits / 2 ^ F) mod 2 ^ E). set (fr := bits mod 2 ^ F). set (s := bits / 2 ^ (W - 1)).
  destruct (Z.eqb_spec be (2 ^ E - 1)) as [Em|Nm].
  { cbn [andb]. destruct (fr =? 0); reflexivity. }
  cbn [andb].
  destruct (float_decode_ok pf W F B E is64 bits Hfm Hb Nm) as (Hs & Hbe & Hfr & Ed).
  fold be fr s in Hs, Hbe, Hfr, Ed. rewrite Ed. clear Ed. cbn [bind].
  assert (HpF : 2 ^ 23 <= 2 ^ F <= 2 ^ 52) by (split; apply Z.pow_le_mono_r; lia).
  assert (HpE1 : 2 ^ E = 2 * 2 ^ (E - 1)) by (rewrite <- Z.pow_succ_r by lia; f_equal; lia).
  assert (HpE7 : 2 ^ 7 <= 2 ^ (E - 1) <= 2 ^ 10) by (split; apply Z.pow_le_mono_r; lia).
  pose proof pow10_18_lt as H18.
  change (- FF_MIN_EXP) with (-126).
  destruct (Z.eqb_spec be 0) as [E0|N0].
  - (* zero and subnormal numbers *)
    change (0 <? -126) with false. change (0 <? 0) with false. change (0 >=? 128) with false.
    rewrite andb_false_r. cbv iota.
    unfold ck_mul. rewrite (ck_ok pf I128 (0 * 0)) by reflexivity. cbn [bind].
    rewrite shl_I128_one by lia. cbn [bind]. change (wrap I128 (2 ^ 0)) with 1.
    change (checked I128 (0 * 0 * 1)) with (Some 0). cbv iota.
    destruct (Z.ltb_spec (1 - B - F) 0); [|lia]. cbn [fst snd].
    rewrite spec_tail_zero; [reflexivity|].
    apply rnd_he_small; [apply Z.pow_pos_nonneg; lia|].
    assert (2 ^ 113 <= 2 ^ (- (1 - B - F))) by (apply Z.pow_le_mono_r; lia).
    assert (2 * (2 ^ 52 * 2 ^ 60) = 2 ^ 113) by reflexivity.
    assert (Z.abs ((if s =? 1 then - fr else fr) * 10 ^ 18) = fr * 10 ^ 18) by (destruct (s =? 1); lia).
    nia.
  - (* normal numbers *)
    set (m := fr + 2 ^ F) in *. set (e := be - B - F) in *. set (sg := 1 - s * 2).
    assert (Hm : 2 ^ 23 <= m < 2 ^ 53).
    { assert (2 ^ 52 + 2 ^ 52 = 2 ^ 53) by reflexivity. unfold m. lia. }
    assert (Hsg : (if s =? 1 then - m else m) = sg * m).
    { unfold sg. destruct (Z.eqb_spec s 1); nia. }
    assert (Hsg1 : sg = 1 \/ sg = -1) by (unfold sg; lia).
    assert (Habs : Z.abs (sg * m) = m) by (destruct Hsg1 as [-> | ->]; lia).
    rewrite Hsg.
    assert (H53 : 2 ^ 53 * 2 ^ 60 = 2 ^ 113) by reflexivity.
    assert (H113 : 2 ^ 113 < 2 ^ 127) by reflexivity.
    destruct (Z.ltb_spec e (-126)) as [Hlo|Hlo].
    + (* below 2^-74 (f64) / 2^-102 (f32): zero *)
      destruct (Z.ltb_spec e 0); [|lia]. cbn [fst snd].
      rewrite spec_tail_zero; [reflexivity|].
      apply rnd_he_small; [apply Z.pow_pos_nonneg; lia|].
      assert (2 ^ 127 <= 2 ^ (- e)) by (apply Z.pow_le_mono_r; lia).
      rewrite Z.abs_mul, Habs, (Z.abs_eq (10 ^ 18)) by lia. nia.
    + destruct (Z.ltb_spec e 0) as [Hneg|Hpos].
      * (* fractional: long division by 2^-e *)
        cbn [fst snd].
        unfold ck_mul. rewrite (ck_ok pf I128 (sg * m)) by (apply in_I128; destruct Hsg1 as [-> | ->]; lia).
        cbn [bind]. unfold ck_neg. rewrite (ck_ok pf I16 (- e)) by (apply in_I16; lia). cbn [bind].
        rewrite shl_I128_one by lia. cbn [bind].
        assert (2 ^ (- e) <= 2 ^ 126) by (apply Z.pow_le_mono_r; lia).
        assert (0 < 2 ^ (- e)) by (apply Z.pow_pos_nonneg; lia).
        assert (H126 : 2 ^ 126 < 2 ^ 127) by reflexivity.
        rewrite wrap_id by (apply in_I128; lia).
        rewrite approx_rational_ok by (try lia; rewrite Habs; assert (2 ^ 53 < 2 ^ 54) by reflexivity; lia).
        cbn [bind].
        rewrite spec_tail_normal.
        2:{ pose proof (rnd_abs_le RHalfEven (sg * m * 10 ^ 18) (2 ^ (- e)) ltac:(lia)) as Hr.
            rewrite Z.abs_mul, Habs, (Z.abs_eq (10 ^ 18)) in Hr by lia. nia. }
        cbn [conv_ffs]. destruct (normal (rnd RHalfEven (sg * m * 10 ^ 18) (2 ^ (- e))) 18). reflexivity.
      * (* integral: shift *)
        cbn [fst snd].
        assert (0 < 2 ^ e) by (apply Z.pow_pos_nonneg; lia).
        assert (Hv : sg * m * 2 ^ e <> 0) by (destruct Hsg1 as [-> | ->]; nia).
        rewrite spec_tail_int by exact Hv.
        destruct (is64 && (e >=? 128)) eqn:Hbig.
        -- apply andb_true_iff in Hbig. destruct Hbig as [_ Hbig]. apply Z.geb_le in Hbig.
           assert (2 ^ 128 <= 2 ^ e) by (apply Z.pow_le_mono_r; lia).
           assert (2 ^ 127 < 2 ^ 128) by reflexivity.
           rewrite (proj2 (in_range_false_iff I128 (sg * m * 2 ^ e))); [reflexivity|].
           rewrite tmin_I128, tmax_I128. destruct Hsg1 as [-> | ->]; [right|left]; nia.
        -- assert (He : e <= 127).
           { destruct is64; cbn [andb] in Hbig.
             - destruct (Z.geb_spec e 128); [discriminate|lia].
             - specialize (Hmax eq_refl). unfold e. lia. }
           unfold ck_mul. rewrite (ck_ok pf I128 (sg * m)) by (apply in_I128; destruct Hsg1 as [-> | ->]; lia).
           cbn [bind]. rewrite shl_I128_one by lia. cbn [bind].
           destruct (Z.eq_dec e 127) as [E127|N127].
           ++ rewrite E127. change (wrap I128 (2 ^ 127)) with (- 2 ^ 127).
              assert (2 ^ 23 * 2 ^ 127 = 2 ^ 150) by reflexivity. assert (2 ^ 127 < 2 ^ 150) by reflexivity.
              rewrite checked_none.
              2:{ apply in_range_false_iff. rewrite tmin_I128, tmax_I128. destruct Hsg1 as [-> | ->]; [left|right]; nia. }
              rewrite (proj2 (in_range_false_iff I128 (sg * m * 2 ^ 127))); [reflexivity|].
              rewrite tmin_I128, tmax_I128. destruct Hsg1 as [-> | ->]; [right|left]; nia.
           ++ assert (2 ^ e <= 2 ^ 126) by (apply Z.pow_le_mono_r; lia).
              assert (H126 : 2 ^ 126 < 2 ^ 127) by reflexivity.
              rewrite wrap_id by (apply in_I128; lia). unfold checked.
              destruct (in_range I128 (sg * m * 2 ^ e)); reflexivity.
Qed.

Lemma fmt_ok_64 : fmt_ok 64 52 1023 11 true.
Proof. constructor; try lia; try reflexivity; try discriminate. Qed.
Lemma fmt_ok_32 : fmt_ok 32 23 127 8 false.
Proof. constructor; try lia; try reflexivity; try (intros _; cbv; discriminate). Qed.

Theorem from_float_acc pf is64 bits : 0 <= bits < 2 ^ (if is64 : bool then 64 else 32) ->
  acc_fromfloat is64 bits (run_fromfloat pf is64 bits) = true.
Proof.
  intros Hb. unfold acc_fromfloat, run_fromfloat, out_ffres. destruct is64.
  - unfold F64, SF64. rewrite (try_from_float_ok pf 64 52 1023 11 true bits fmt_ok_64 Hb). cbn [of_res].
    destruct (from_float_spec (mksffmt 64 52 1023) bits); apply out_eqb_refl.
  - unfold F32, SF32. rewrite (try_from_float_ok pf 32 23 127 8 false bits fmt_ok_32 Hb). cbn [of_res].
    destruct (from_float_spec (mksffmt 32 23 127) bits); apply out_eqb_refl.
Qed.

(* ---------------- what the specification's normal form means ---------------- *)
Lemma strip_meaning : forall f c n, 0 <= n ->
  let '(c', n') := strip f c n in
  c' * 10 ^ (n - n') = c /\ 0 <= n' <= n /\ (n <= Z.of_nat f -> n' = 0 \/ c' mod 10 <> 0).
Proof.
  induction f as [|f IH]; intros c n Hn; cbn [strip].
  - rewrite Z.sub_diag, Z.pow_0_r. split; [lia|]. split; [lia|]. intros. left. lia.
  - destruct (Z.ltb_spec 0 n) as [Hp|Hp]; cbn [andb].
    + destruct (Z.eqb_spec (c mod 10) 0) as [E0|N0].
      * specialize (IH (c / 10) (n - 1) ltac:(lia)). destruct (strip f (c / 10) (n - 1)) as [c' n'].
        destruct IH as (E & B & M). split; [|split; [lia|intros; apply M; lia]].
        replace (n - n') with (Z.succ (n - 1 - n')) by lia. rewrite Z.pow_succ_r by lia.
        pose proof (Z.div_mod c 10 ltac:(lia)). lia.
      * rewrite Z.sub_diag, Z.pow_0_r. split; [lia|]. split; [lia|]. intros. right. exact N0.
    + rewrite Z.sub_diag, Z.pow_0_r. split; [lia|]. split; [lia|]. intros. left. lia.
Qed.

Lemma spec_tail_meaning num den d : 0 < den -> spec_tail num den = FSOk d ->
  let r := rnd RHalfEven (num * 10 ^ 18) den in
  coeff d * 10 ^ (18 - nfd d) = r /\ 0 <= nfd d <= 18 /\ (nfd d = 0 \/ coeff d mod 10 <> 0) /\
  in_range I128 (coeff d) = true.
Proof.
  intros Hden. unfold spec_tail. cbv zeta. set (r := rnd RHalfEven (num * 10 ^ 18) den).
  destruct (Z.eqb_spec r 0) as [E0|N0].
  - cbn. intros H. injection H as <-. cbn. rewrite E0. refine (conj eq_refl (conj _ (conj (or_introl eq_refl) eq_refl))). lia.
  - rewrite strip_all_strip. pose proof (strip_meaning 18 r 18 ltac:(lia)) as M.
    destruct (strip 18 r 18) as [c n]. destruct M as (E & B & M).
    destruct (in_range I128 c) eqn:R; [|discriminate]. intros H. injection H as <-. cbn [coeff nfd].
    refine (conj E (conj B (conj _ R))). apply M. cbn. lia.
Qed.

(* the specification's rounded value is a nearest integer to value * 10^18, the even one on a tie *)
Lemma spec_round_nearest num den : 0 < den ->
  let r := rnd RHalfEven (num * 10 ^ 18) den in
  2 * Z.abs (num * 10 ^ 18 - r * den) <= den /\ (2 * Z.abs (num * 10 ^ 18 - r * den) = den -> Z.even r = true).
Proof.
  intros Hd r. pose proof (Z.div_mod (num * 10 ^ 18) den ltac:(lia)) as Ed.
  pose proof (Z.mod_pos_bound (num * 10 ^ 18) den Hd) as Hr.
  set (N := num * 10 ^ 18) in *.
  assert (Em : r = rnd RHalfEven (N / den * den + N mod den) den) by (unfold r; f_equal; lia).
  rewrite rnd_floor_eq in Em by lia. unfold rnd_floor in Em. rewrite <- odd_rem2 in Em.
  set (q := N / den) in *. set (m := N mod den) in *. clearbody r q m.
  destruct (Z.eqb_spec m 0); [subst r; split; nia|].
  destruct (Z.gtb_spec (2 * m) den); cbn [orb] in Em; [subst r; split; nia|].
  destruct (Z.eqb_spec (2 * m) den); cbn [andb] in Em; [|subst r; split; nia].
  destruct (Z.odd q) eqn:Od; subst r.
  - split; [nia|]. intros _. rewrite Z.even_add, <- Z.negb_odd, Od. reflexivity.
  - split; [nia|]. intros _. rewrite <- Z.negb_odd, Od. reflexivity.
Qed.
