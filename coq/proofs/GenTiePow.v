(* GenTiePow.v — part of the tie between the translated source (gen/GenCore.v, regenerated from /repo by tools/rs2v.py on
   every run) and the hand-written model: powers_of_ten.rs, i128_div_mod_floor, checked_adjust_coeffs. *)
From FP Require Import Machine SrcConsts Pow10 Rounding Cmp GenCore MachineFacts Pow10Facts GenTieTac.

Lemma tie_POWERS_OF_10 : g_POWERS_OF_10 = POWERS_OF_10.
Proof. reflexivity. Qed.

Lemma tie_ten_pow pf n : g_ten_pow pf n = ten_pow n.
Proof. reflexivity. Qed.

Lemma tie_checked_ten_pow pf n : g_checked_ten_pow pf n = checked_ten_pow n.
Proof. reflexivity. Qed.

Lemma tie_mul_pow_ten pf v n : g_mul_pow_ten pf v n = mul_pow_ten v n.
Proof. reflexivity. Qed.

Lemma tie_checked_mul_pow_ten pf v n : g_checked_mul_pow_ten pf v n = checked_mul_pow_ten v n.
Proof. reflexivity. Qed.

Lemma tie_i128_div_mod_floor pf x y : g_i128_div_mod_floor pf x y = i128_div_mod_floor pf x y.
Proof. reflexivity. Qed.

Lemma ten_pow_range p t : ten_pow p = Val t -> in_range I128 t = true.
Proof.
  intros H. destruct (Z_lt_le_dec p 0) as [Hn|Hn].
  { unfold ten_pow, index in H. destruct (Z.ltb_spec p 0); [discriminate|lia]. }
  destruct (Z_le_gt_dec p 38) as [Hp|Hp].
  - rewrite Pow10Facts.ten_pow_ok in H by lia. apply Val_inj in H. subst t.
    apply in_I128_iff. pose proof (Pow10Facts.pow10_pos p Hn). pose proof (Pow10Facts.pow10_le_38 p ltac:(lia)).
    pose proof Pow10Facts.pow10_38_lt. lia.
  - rewrite Pow10Facts.ten_pow_oob in H by lia. discriminate.
Qed.

Lemma tie_checked_adjust_coeffs pf x p y q :
  in_range U8 p = true -> in_range U8 q = true ->
  g_checked_adjust_coeffs pf x p y q = checked_adjust_coeffs x p y q.
Proof.
  intros Hp Hq. apply in_range_iff in Hp. apply in_range_iff in Hq.
  change (tmin U8) with 0 in *. change (tmax U8) with 255 in *.
  unfold g_checked_adjust_coeffs, checked_adjust_coeffs.
  change g_checked_mul_pow_ten with (fun (_ : profile) => checked_mul_pow_ten). cbv beta.
  destruct (Z.compare_spec p q) as [E|E|E]; [rf| |].
  - unfold ck_sub. rewrite ck_ok by (apply in_range_iff; change (tmin U8) with 0; change (tmax U8) with 255; lia).
    cbn [bind]. dres (checked_mul_pow_ten x (q - p)) as o. rf.
  - unfold ck_sub. rewrite ck_ok by (apply in_range_iff; change (tmin U8) with 0; change (tmax U8) with 255; lia).
    cbn [bind]. dres (checked_mul_pow_ten y (p - q)) as o. rf.
Qed.


(* ---- the kernel theorems restated about the translated source ------------------------------- *)
Lemma src_ten_pow pf n : 0 <= n <= 38 -> g_ten_pow pf n = Val (10 ^ n).
Proof. intros H. rewrite tie_ten_pow. apply ten_pow_ok. exact H. Qed.

Lemma src_mul_pow_ten pf v n : 0 <= n <= 38 ->
  g_mul_pow_ten pf v n = if in_range I128 (v * 10 ^ n) then Val (v * 10 ^ n) else Panic.
Proof. intros H. rewrite tie_mul_pow_ten. apply mul_pow_ten_ok. exact H. Qed.

Lemma src_checked_mul_pow_ten pf v n : 0 <= n <= 38 ->
  g_checked_mul_pow_ten pf v n = Val (checked I128 (v * 10 ^ n)).
Proof. intros H. rewrite tie_checked_mul_pow_ten. apply checked_mul_pow_ten_ok. exact H. Qed.

Lemma src_checked_adjust_coeffs pf x p y q : 0 <= p <= 18 -> 0 <= q <= 18 ->
  g_checked_adjust_coeffs pf x p y q =
  Val (match Z.compare p q with
       | Eq => (Some x, Some y)
       | Gt => (Some x, checked I128 (y * 10 ^ (p - q)))
       | Lt => (checked I128 (x * 10 ^ (q - p)), Some y)
       end).
Proof.
  intros Hp Hq. rewrite tie_checked_adjust_coeffs
    by (apply in_range_iff; change (tmin U8) with 0; change (tmax U8) with 255; lia).
  unfold checked_adjust_coeffs. destruct (Z.compare_spec p q) as [E|E|E]; [reflexivity| |].
  - rewrite checked_mul_pow_ten_ok by lia. reflexivity.
  - rewrite checked_mul_pow_ten_ok by lia. reflexivity.
Qed.


(* rewrite the translated powers-of-ten functions into their model counterparts (they are convertible) *)
Ltac to_model_pow :=
  repeat first
    [ progress change g_ten_pow with (fun (_ : profile) => ten_pow)
    | progress change g_checked_ten_pow with (fun (_ : profile) => checked_ten_pow)
    | progress change g_mul_pow_ten with (fun (_ : profile) => mul_pow_ten)
    | progress change g_checked_mul_pow_ten with (fun (_ : profile) => checked_mul_pow_ten)
    | progress change g_i128_div_mod_floor with i128_div_mod_floor ];
  cbv beta iota.
