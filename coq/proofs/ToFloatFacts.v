(* ToFloatFacts.v — C12: f64::from(Decimal) / f32::from(Decimal) against the specification. *)
From FP Require Import Machine SrcConsts Pow10 Arith Unops Floats RoundSpec Out ArithSpec FloatSpec Run RunMore.
From FP Require Import MachineFacts Pow10Facts RoundSpecFacts RoundingFacts OutFacts UnopsFacts MagnitudeFacts WideMulFacts FromFloatFacts.

Local Open Scope Z_scope.

(* ---------------- rounding is invariant under scaling ---------------- *)
Lemma rnd_he_scale n d c : 0 < d -> 0 < c -> rnd RHalfEven (n * c) (d * c) = rnd RHalfEven n d.
Proof.
  intros Hd Hc. unfold rnd.
  rewrite Z.quot_mul_cancel_r, Z.mul_rem_distr_r by lia.
  rewrite Z.abs_mul, (Z.abs_eq c) by lia. rewrite Z.sgn_mul, (Z.sgn_pos c), Z.mul_1_r by lia.
  set (r := Z.abs (Z.rem n d)). assert (0 <= r) by (unfold r; lia).
  destruct (Z.eqb_spec (r * c) 0), (Z.eqb_spec r 0); try nia; try reflexivity.
  destruct (Z.ltb_spec (d * c) (2 * (r * c))), (Z.ltb_spec d (2 * r)); try nia; try reflexivity.
  destruct (Z.eqb_spec (d * c) (2 * (r * c))), (Z.eqb_spec d (2 * r)); try nia; reflexivity.
Qed.

(* ---------------- the floor of num / (den * 2^e) ---------------- *)
Lemma q_floor_shift num den e s : 0 < den -> 0 <= s -> 0 <= s + e ->
  q_floor num den e = (num * 2 ^ s) / (den * 2 ^ (s + e)).
Proof.
  intros Hd Hs Hse. unfold q_floor.
  assert (0 < 2 ^ (s + e)) by (apply Z.pow_pos_nonneg; lia).
  destruct (Z.ltb_spec e 0).
  - replace (2 ^ s) with (2 ^ (- e) * 2 ^ (s + e)) by (rewrite <- Z.pow_add_r by lia; f_equal; lia).
    rewrite Z.mul_assoc, Z.div_mul_cancel_r by lia. reflexivity.
  - assert (0 < 2 ^ s) by (apply Z.pow_pos_nonneg; lia).
    rewrite Z.pow_add_r by lia. replace (den * (2 ^ s * 2 ^ e)) with (den * 2 ^ e * 2 ^ s) by ring.
    assert (0 < 2 ^ e) by (apply Z.pow_pos_nonneg; lia).
    rewrite Z.div_mul_cancel_r by nia. reflexivity.
Qed.

Lemma q_floor_above num den frac e0 e : 0 < den -> 0 <= num -> 0 <= frac ->
  q_floor num den e0 < 2 ^ (frac + 1) -> e0 < e -> q_floor num den e < 2 ^ frac.
Proof.
  intros Hd Hn Hf Hq He.
  set (s := Z.max 0 (- e0)).
  rewrite (q_floor_shift num den e0 s) in Hq by lia.
  rewrite (q_floor_shift num den e s) by lia.
  replace (s + e) with ((s + e0) + (e - e0)) by lia. rewrite Z.pow_add_r by lia.
  rewrite Z.mul_assoc, <- Z.div_div.
  2:{ assert (0 < 2 ^ (s + e0)) by (apply Z.pow_pos_nonneg; lia). nia. }
  2:{ apply Z.pow_pos_nonneg; lia. }
  set (q := num * 2 ^ s / (den * 2 ^ (s + e0))) in *.
  assert (2 ^ 1 <= 2 ^ (e - e0)) by (apply Z.pow_le_mono_r; lia). change (2 ^ 1) with 2 in *.
  rewrite Z.pow_add_r, Z.pow_1_r in Hq by lia.
  apply Z.div_lt_upper_bound; [lia|]. assert (0 < 2 ^ frac) by (apply Z.pow_pos_nonneg; lia). nia.
Qed.

Lemma find_e_spec num den frac e0 : 0 < den -> 0 <= num -> 0 <= frac ->
  2 ^ frac <= q_floor num den e0 < 2 ^ (frac + 1) ->
  forall (fuel : nat) e, e0 <= e -> e - e0 < Z.of_nat fuel -> find_e fuel num den frac e = e0.
Proof.
  intros Hd Hn Hf Hq. induction fuel as [|fuel IH]; intros e He Hfu; [lia|].
  cbn [find_e]. destruct (Z.eq_dec e e0) as [->|Ne].
  - destruct (Z.leb_spec (2 ^ frac) (q_floor num den e0)); [reflexivity|lia].
  - pose proof (q_floor_above num den frac e0 e Hd Hn Hf (proj2 Hq) ltac:(lia)).
    destruct (Z.leb_spec (2 ^ frac) (q_floor num den e)); [lia|]. apply IH; lia.
Qed.

(* nearest_float_bits with the exponent given *)
Definition enc (f : sffmt) (neg : bool) (e num den : Z) : Z :=
  let frac := sf_frac f in
  let m := if e <? 0 then rnd RHalfEven (num * 2 ^ (- e)) den else rnd RHalfEven num (den * 2 ^ e) in
  let '(m, e) := if m =? 2 ^ (frac + 1) then (2 ^ frac, e + 1) else (m, e) in
  (if neg then 2 ^ (sf_bits f - 1) else 0) + (e + frac + sf_bias f) * 2 ^ frac + (m - 2 ^ frac).

Lemma nearest_enc f neg num den e0 : 0 < den -> 0 <= num -> 0 <= sf_frac f ->
  2 ^ sf_frac f <= q_floor num den e0 < 2 ^ (sf_frac f + 1) -> - 260 < e0 <= 140 ->
  nearest_float_bits f neg num den = enc f neg e0 num den.
Proof.
  intros Hd Hn Hf Hq He. unfold nearest_float_bits, enc. cbv zeta.
  rewrite (find_e_spec num den (sf_frac f) e0 Hd Hn Hf Hq 400 140) by lia. reflexivity.
Qed.

(* the value of the encoding: one formula with or without the carry *)
Lemma enc_bits f neg e num den : 0 <= sf_frac f ->
  enc f neg e num den =
  (if neg then 2 ^ (sf_bits f - 1) else 0) + (e + sf_frac f + sf_bias f - 1) * 2 ^ sf_frac f +
  (if e <? 0 then rnd RHalfEven (num * 2 ^ (- e)) den else rnd RHalfEven num (den * 2 ^ e)).
Proof.
  intros Hf. unfold enc. cbv zeta.
  set (m := if e <? 0 then rnd RHalfEven (num * 2 ^ (- e)) den else rnd RHalfEven num (den * 2 ^ e)).
  rewrite Z.pow_add_r, Z.pow_1_r by lia.
  destruct (Z.eqb_spec m (2 ^ sf_frac f * 2)) as [E|N]; [rewrite E|]; ring.
Qed.

(* the rounded significand from floor quotient and remainder of suitably scaled operands *)
Lemma enc_round num den e N D : 0 < den -> 0 <= num -> 0 < D ->
  (exists s, 0 <= s /\ 0 <= s + e /\ N = num * 2 ^ s /\ D = den * 2 ^ (s + e)) ->
  (if e <? 0 then rnd RHalfEven (num * 2 ^ (- e)) den else rnd RHalfEven num (den * 2 ^ e))
  = rnd RHalfEven N D.
Proof.
  intros Hd Hn HD (s & Hs & Hse & -> & ->).
  destruct (Z.ltb_spec e 0).
  - replace (2 ^ s) with (2 ^ (- e) * 2 ^ (s + e)) by (rewrite <- Z.pow_add_r by lia; f_equal; lia).
    rewrite Z.mul_assoc. rewrite rnd_he_scale; [reflexivity|lia|apply Z.pow_pos_nonneg; lia].
  - rewrite Z.pow_add_r by lia. replace (den * (2 ^ s * 2 ^ e)) with (den * 2 ^ e * 2 ^ s) by ring.
    assert (0 < 2 ^ e) by (apply Z.pow_pos_nonneg; lia).
    rewrite rnd_he_scale; [reflexivity|nia|apply Z.pow_pos_nonneg; lia].
Qed.

(* ---------------- guard bits and sticky bit ---------------- *)
Lemma guard_round adj signif g rem den' :
  (adj = 0 \/ adj = 1) -> 0 <= g < 2 ^ (3 - adj) -> 0 <= rem < den' ->
  signif + (if (Z.lor (g * 2 ^ adj) (if rem =? 0 then 0 else 1) >? 4) ||
               ((Z.lor (g * 2 ^ adj) (if rem =? 0 then 0 else 1) =? 4) && (Z.land signif 1 =? 1))
            then 1 else 0)
  = rnd RHalfEven ((signif * 2 ^ (3 - adj) + g) * den' + rem) (den' * 2 ^ (3 - adj)).
Proof.
  intros Hadj Hg Hr. rewrite land1_odd.
  set (G := 2 ^ (3 - adj)) in *.
  replace ((signif * G + g) * den' + rem) with (signif * (den' * G) + (g * den' + rem)) by ring.
  assert (HG : G = 8 /\ adj = 0 \/ G = 4 /\ adj = 1) by (unfold G; destruct Hadj as [-> | ->]; [left|right]; split; reflexivity).
  rewrite <- rnd_he_floor by (destruct HG as [[-> _]|[-> _]]; nia).
  assert (Hcases : g = 0 \/ g = 1 \/ g = 2 \/ g = 3 \/ g = 4 \/ g = 5 \/ g = 6 \/ g = 7) by (destruct HG as [[E _]|[E _]]; lia).
  destruct HG as [[EG ->]|[EG ->]]; rewrite EG in *; clear G EG Hadj;
  repeat (destruct Hcases as [->|Hcases]); try subst g; try lia;
  (destruct (Z.eqb_spec rem 0) as [E0|N0];
   match goal with |- context [Z.lor ?a ?b] => let v := eval vm_compute in (Z.lor a b) in change (Z.lor a b) with v end;
   match goal with |- context [?a >? 4] => let v := eval vm_compute in (a >? 4) in change (a >? 4) with v end;
   match goal with |- context [?a =? 4] => let v := eval vm_compute in (a =? 4) in change (a =? 4) with v end;
   cbn [orb andb];
   match goal with |- context [?a >? ?b] => destruct (Z.gtb_spec a b) end;
   match goal with |- context [?a =? ?b] => destruct (Z.eqb_spec a b) end;
   cbn [orb andb]; try lia; destruct (Z.odd signif); lia).
Qed.

(* ---------------- bit lengths ---------------- *)
Lemma lz128 v : 0 < v -> lz 128 v = 127 - Z.log2 v.
Proof. intros Hv. unfold lz. destruct (Z.leb_spec v 0); lia. Qed.

Lemma scaled_quot_bounds num den x y A :
  2 ^ x <= num < 2 ^ (x + 1) -> 2 ^ y <= den < 2 ^ (y + 1) -> x - y = A -> 0 <= y -> 1 <= A ->
  2 ^ (A - 1) <= num / den < 2 ^ (A + 1).
Proof.
  intros Hn Hd HA Hy H1.
  assert (0 < 2 ^ y) by (apply Z.pow_pos_nonneg; lia).
  assert (E1 : 2 ^ x = 2 ^ (A - 1) * 2 ^ (y + 1)) by (rewrite <- Z.pow_add_r by lia; f_equal; lia).
  assert (E2 : 2 ^ (x + 1) = 2 ^ (A + 1) * 2 ^ y) by (rewrite <- Z.pow_add_r by lia; f_equal; lia).
  assert (0 < 2 ^ (A - 1)) by (apply Z.pow_pos_nonneg; lia).
  assert (0 < 2 ^ (A + 1)) by (apply Z.pow_pos_nonneg; lia).
  split.
  - apply Z.div_le_lower_bound; [lia|]. nia.
  - apply Z.div_lt_upper_bound; [lia|]. nia.
Qed.

Lemma log2_bounds v : 0 < v -> 2 ^ Z.log2 v <= v < 2 ^ (Z.log2 v + 1).
Proof. intros Hv. pose proof (Z.log2_spec v Hv). lia. Qed.

Lemma log2_unique' v k : 0 <= k -> 2 ^ k <= v < 2 ^ (k + 1) -> Z.log2 v = k.
Proof. intros Hk Hv. apply Z.log2_unique; lia. Qed.

Lemma log2_pow10 n : 1 <= n <= 18 -> 3 <= Z.log2 (10 ^ n) <= 59.
Proof.
  intros Hn. assert (10 ^ 1 <= 10 ^ n <= 10 ^ 18) by (split; apply Z.pow_le_mono_r; lia).
  split.
  - change 3 with (Z.log2 (10 ^ 1)). apply Z.log2_le_mono. lia.
  - change 59 with (Z.log2 (10 ^ 18)). apply Z.log2_le_mono. lia.
Qed.

Lemma in_U32 z : 0 <= z < 2 ^ 32 -> in_range U32 z = true.
Proof. intros. apply in_U32_iff. lia. Qed.
Lemma in_I32 z : - 2 ^ 31 <= z < 2 ^ 31 -> in_range I32 z = true.
Proof. intros. apply in_range_iff. cbn [tmin tmax signed bits]. lia. Qed.
Lemma in_U64' z : 0 <= z < 2 ^ 64 -> in_range U64 z = true.
Proof. intros. apply in_U64_iff. lia. Qed.
Lemma in_U128 z : 0 <= z < 2 ^ 128 -> in_range U128 z = true.
Proof. intros. apply in_U128_iff. lia. Qed.

Lemma ck_shl_ok pf t a n : 0 <= n < bits t -> in_range t (a * 2 ^ n) = true ->
  ck_shl pf t a n = Val (a * 2 ^ n).
Proof.
  intros Hn Hr. unfold ck_shl. destruct (Z.leb_spec 0 n); [|lia]. destruct (Z.ltb_spec n (bits t)); [|lia].
  cbn [andb]. rewrite wrap_id by exact Hr. reflexivity.
Qed.

Lemma ck_shr_ok pf t a n : 0 <= n < bits t -> ck_shr pf t a n = Val (a / 2 ^ n).
Proof.
  intros Hn. unfold ck_shr. destruct (Z.leb_spec 0 n); [|lia]. destruct (Z.ltb_spec n (bits t)); [|lia]. reflexivity.
Qed.

Lemma sat_sub_max a b : sat_sub a b = Z.max 0 (a - b).
Proof. unfold sat_sub. destruct (Z.ltb_spec a b); lia. Qed.

Lemma pow2_scale_bounds v l k : 0 <= l -> 0 <= k -> 2 ^ l <= v < 2 ^ (l + 1) ->
  2 ^ (l + k) <= v * 2 ^ k < 2 ^ (l + k + 1).
Proof.
  intros Hl Hk Hv. assert (0 < 2 ^ k) by (apply Z.pow_pos_nonneg; lia).
  replace (l + k + 1) with (l + 1 + k) by lia. rewrite (Z.pow_add_r 2 l k), (Z.pow_add_r 2 (l + 1) k) by lia. nia.
Qed.

(* ---------------- Float::from_decimal ---------------- *)
(* phase 1, arithmetic only: the scaled operands and their quotient *)
Lemma scaling_facts num den F :
  0 < num < 2 ^ 127 -> 10 <= den <= 10 ^ 18 -> 23 <= F <= 52 ->
  let la := Z.log2 num in let lb := Z.log2 den in
  let t := lb - la + (F + 3) in
  let ns := Z.max 0 t in let ds := Z.max 0 (- t) in
  let num' := num * 2 ^ ns in let den' := den * 2 ^ ds in
  0 <= la <= 126 /\ 3 <= lb <= 59 /\ 0 <= ns < 128 /\ 0 <= ds < 128 /\ ns - ds = t /\
  0 < num' < 2 ^ 128 /\ 0 < den' < 2 ^ 128 /\
  2 ^ (F + 2) <= num' / den' < 2 ^ (F + 4).
Proof.
  intros Hnum Hden HF la lb t ns ds num' den'.
  pose proof (log2_bounds num ltac:(lia)) as Hla. pose proof (log2_bounds den ltac:(lia)) as Hlb.
  assert (Hlb' : 3 <= lb <= 59).
  { unfold lb. split.
    - change 3 with (Z.log2 10). apply Z.log2_le_mono. lia.
    - change 59 with (Z.log2 (10 ^ 18)). apply Z.log2_le_mono. lia. }
  assert (Hla' : 0 <= la <= 126).
  { split; [apply Z.log2_nonneg|]. assert (Z.log2 num < 127) by (apply Z.log2_lt_pow2; lia). unfold la. lia. }
  fold la in Hla. fold lb in Hlb.
  assert (Hns : 0 <= ns /\ 0 <= ds /\ ns - ds = t /\ la + ns <= 126 /\ lb + ds <= 126) by (unfold ns, ds, t; lia).
  destruct Hns as (Hns & Hds & Hnd & Hlan & Hlbd).
  pose proof (pow2_scale_bounds num la ns ltac:(lia) Hns Hla) as Hnum'.
  pose proof (pow2_scale_bounds den lb ds ltac:(lia) Hds Hlb) as Hden'.
  fold num' in Hnum'. fold den' in Hden'.
  assert (Hp127a : 2 ^ (la + ns + 1) <= 2 ^ 127) by (apply Z.pow_le_mono_r; lia).
  assert (Hp127b : 2 ^ (lb + ds + 1) <= 2 ^ 127) by (apply Z.pow_le_mono_r; lia).
  assert (H127 : 2 ^ 127 < 2 ^ 128) by reflexivity.
  assert (H0a : 0 < 2 ^ (la + ns)) by (apply Z.pow_pos_nonneg; lia).
  assert (H0b : 0 < 2 ^ (lb + ds)) by (apply Z.pow_pos_nonneg; lia).
  pose proof (scaled_quot_bounds num' den' (la + ns) (lb + ds) (F + 3) Hnum' Hden' ltac:(unfold t in Hnd; lia) ltac:(lia) ltac:(lia)) as Hq.
  replace (F + 3 - 1) with (F + 2) in Hq by lia. replace (F + 3 + 1) with (F + 4) in Hq by lia.
  repeat split; try lia.
Qed.

(* phase 2: quotient, guard bits, significand *)
Lemma signif_facts quot F :
  23 <= F <= 52 -> 2 ^ (F + 2) <= quot < 2 ^ (F + 4) ->
  let adj := if Z.log2 quot + 1 =? F + 3 then 1 else 0 in
  let G := 3 - adj in
  (adj = 0 \/ adj = 1) /\ 0 < 2 ^ G <= 8 /\ 1 <= 2 ^ adj <= 2 /\
  index IF_MASK_EXTRA_BITS adj = Val (2 ^ G - 1) /\
  2 ^ F <= quot / 2 ^ G < 2 ^ (F + 1).
Proof.
  intros HF Hq adj G.
  assert (H0 : 0 < 2 ^ (F + 2)) by (apply Z.pow_pos_nonneg; lia).
  assert (Hcase : (2 ^ (F + 3) <= quot /\ Z.log2 quot = F + 3) \/ (quot < 2 ^ (F + 3) /\ Z.log2 quot = F + 2)).
  { destruct (Z_le_gt_dec (2 ^ (F + 3)) quot); [left|right]; (split; [lia|]); apply log2_unique'; try lia.
    - replace (F + 3 + 1) with (F + 4) by lia. lia.
    - replace (F + 2 + 1) with (F + 3) by lia. lia. }
  assert (Hadj : (adj = 0 /\ 2 ^ (F + 3) <= quot < 2 ^ (F + 4)) \/ (adj = 1 /\ 2 ^ (F + 2) <= quot < 2 ^ (F + 3))).
  { unfold adj. destruct Hcase as [[H1 ->]|[H1 ->]].
    - destruct (Z.eqb_spec (F + 3 + 1) (F + 3)); [lia|]. left. lia.
    - destruct (Z.eqb_spec (F + 2 + 1) (F + 3)); [|lia]. right. lia. }
  clearbody adj. clear Hcase.
  assert (E3 : 2 ^ (F + 3) = 2 ^ F * 8) by (rewrite Z.pow_add_r by lia; reflexivity).
  assert (E4 : 2 ^ (F + 4) = 2 ^ (F + 1) * 8) by (replace (F + 4) with (F + 1 + 3) by lia; rewrite Z.pow_add_r by lia; reflexivity).
  assert (E2 : 2 ^ (F + 2) = 2 ^ F * 4) by (rewrite Z.pow_add_r by lia; reflexivity).
  assert (E3' : 2 ^ (F + 3) = 2 ^ (F + 1) * 4) by (replace (F + 3) with (F + 1 + 2) by lia; rewrite Z.pow_add_r by lia; reflexivity).
  unfold G. destruct Hadj as [[-> Hq']|[-> Hq']].
  - change (2 ^ (3 - 0)) with 8. change (2 ^ 0) with 1.
    refine (conj (or_introl eq_refl) (conj _ (conj _ (conj eq_refl _)))); try lia.
    split; [apply Z.div_le_lower_bound; lia|apply Z.div_lt_upper_bound; lia].
  - change (2 ^ (3 - 1)) with 4. change (2 ^ 1) with 2.
    refine (conj (or_intror eq_refl) (conj _ (conj _ (conj eq_refl _)))); try lia.
    split; [apply Z.div_le_lower_bound; lia|apply Z.div_lt_upper_bound; lia].
Qed.

Lemma from_decimal_ok pf W F B E is64 d :
  fmt_ok W F B E is64 -> W = (if is64 then 64 else 32) -> wf d = true -> coeff d <> 0 -> 0 < nfd d ->
  from_decimal pf (mkffmt W F B is64) d = Val (to_float_spec (mksffmt W F B) d).
Proof.
  intros [HF HE HW HB Hmax] HW' Hd Hc0 Hn0.
  destruct (wf_bounds _ Hd) as [Hc Hp].
  unfold from_decimal, to_float_spec. cbn [ff_bits ff_frac ff_bias ff_is64].
  change IF_EXTRA_BITS with 3. change IF_TIE with 4.
  destruct (Z.eqb_spec (coeff d) 0) as [Ez|_]; [contradiction|].
  set (num := Z.abs (coeff d)).
  assert (Hnum : 0 < num < 2 ^ 127) by (unfold num; lia).
  set (sgn := coeff d <? 0). clearbody sgn. clearbody num. clear Hc Hc0 Hd.
  set (n := nfd d) in *. clearbody n.
  rewrite (cast_id U32 n) by (apply in_U32; lia).
  assert (Hden : 10 <= 10 ^ n <= 10 ^ 18).
  { change 10 with (10 ^ 1) at 1. split; apply Z.pow_le_mono_r; lia. }
  set (den := 10 ^ n) in *. clearbody den. clear Hp Hn0 n.
  assert (H1018 : 10 ^ 18 < 2 ^ 60) by reflexivity.
  rewrite (ck_ok pf U128 den) by (apply in_U128; lia). cbn [bind].
  rewrite !lz128 by lia.
  destruct (scaling_facts num den F Hnum Hden HF) as (Hla & Hlb & Hns & Hds & Hnd & Hnum' & Hden' & Hq).
  set (la := Z.log2 num) in *. set (lb := Z.log2 den) in *. clearbody la lb.
  unfold ck_add at 1. rewrite (ck_ok pf U32 (127 - la + (F + 3))) by (apply in_U32; lia). cbn [bind].
  rewrite !sat_sub_max.
  replace (Z.max 0 (127 - la + (F + 3) - (127 - lb))) with (Z.max 0 (lb - la + (F + 3))) by lia.
  replace (Z.max 0 (Z.max 0 (127 - lb - (127 - la)) - (F + 3))) with (Z.max 0 (- (lb - la + (F + 3)))) by lia.
  set (ns := Z.max 0 (lb - la + (F + 3))) in *. set (ds := Z.max 0 (- (lb - la + (F + 3)))) in *.
  clearbody ns ds.
  rewrite (ck_shl_ok pf U128 num ns) by (try (apply in_U128); change (bits U128) with 128; lia). cbn [bind].
  rewrite (ck_shl_ok pf U128 den ds) by (try (apply in_U128); change (bits U128) with 128; lia). cbn [bind].
  set (num' := num * 2 ^ ns) in *. set (den' := den * 2 ^ ds) in *.
  rewrite t_div_u128, t_rem_u128 by lia. cbn [bind].
  set (quot := num' / den') in *. set (rem := num' mod den').
  pose proof (Z.mod_pos_bound num' den' ltac:(lia)) as Hrem. fold rem in Hrem.
  pose proof (Z.div_mod num' den' ltac:(lia)) as Edm. fold quot rem in Edm.
  assert (Hq0 : 0 < 2 ^ (F + 2)) by (apply Z.pow_pos_nonneg; lia).
  rewrite lz128 by lia.
  replace (128 - (127 - Z.log2 quot)) with (Z.log2 quot + 1) by lia.
  destruct (signif_facts quot F HF Hq) as (Hadj & H2G & H2adj & Hmask & Hsig).
  set (adj := if Z.log2 quot + 1 =? F + 3 then 1 else 0) in *. clearbody adj.
  rewrite Hmask. cbn [bind]. set (G := 3 - adj) in *.
  assert (HG : 2 <= G <= 3) by (unfold G; lia).
  rewrite land_mask by lia.
  set (g := quot mod 2 ^ G). pose proof (Z.mod_pos_bound quot (2 ^ G) ltac:(lia)) as Hg. fold g in Hg.
  set (signif := quot / 2 ^ G) in *.
  pose proof (Z.div_mod quot (2 ^ G) ltac:(lia)) as Eq. fold signif g in Eq.
  (* everything the machine steps need is now in a handful of hypotheses *)
  assert (HpF : 2 ^ 23 <= 2 ^ F <= 2 ^ 52) by (split; apply Z.pow_le_mono_r; lia).
  assert (HpF1 : 2 ^ (F + 1) = 2 * 2 ^ F) by (rewrite Z.pow_add_r by lia; lia).
  assert (HB' : 127 <= B <= 1023).
  { assert (2 ^ 7 <= 2 ^ (E - 1) <= 2 ^ 10) by (split; apply Z.pow_le_mono_r; lia). lia. }
  assert (HE2 : 2 ^ E = 2 * B + 2).
  { rewrite HB. replace E with (Z.succ (E - 1)) at 1 by lia. rewrite Z.pow_succ_r by lia. lia. }
  assert (Hgs : 0 <= g * 2 ^ adj <= 16) by (clear - Hg H2G H2adj; nia).
  assert (Hd0 : 0 < den) by lia. assert (Hn0 : 0 <= num) by lia. assert (Hden'0 : 0 < den') by lia.
  clear Hq Hq0 Hnum' Hden' Hmask H1018 Hmax Hden Hnum.
  rewrite (cast_id U32 g) by (apply in_U32; lia).
  rewrite (ck_shl_ok pf U32 g adj) by (try (apply in_U32); change (bits U32) with 32; lia). cbn [bind].
  unfold ck_sub at 1. rewrite (ck_ok pf U32 (3 - adj)) by (apply in_U32; lia). cbn [bind]. fold G.
  rewrite (ck_shr_ok pf U128 quot G) by (change (bits U128) with 128; lia). cbn [bind]. fold signif.
  rewrite (cast_id U64 signif) by (apply in_U64'; lia).
  rewrite !cast_id by (apply in_I32; lia).
  unfold ck_sub. rewrite (ck_ok pf I32 (127 - lb - (127 - la))) by (apply in_I32; lia). cbn [bind].
  rewrite (ck_ok pf I32 (127 - lb - (127 - la) - adj)) by (apply in_I32; lia). cbn [bind].
  unfold ck_add. rewrite (ck_ok pf I32 (B + (127 - lb - (127 - la) - adj))) by (apply in_I32; lia). cbn [bind].
  rewrite (ck_ok pf I32 (B + (127 - lb - (127 - la) - adj) - 1)) by (apply in_I32; lia). cbn [bind].
  set (e3 := B + (127 - lb - (127 - la) - adj) - 1).
  assert (He3 : 0 <= e3 <= B + 122) by (unfold e3; lia).
  assert (Ee3 : e3 = B + la - lb - adj - 1) by (unfold e3; lia). clearbody e3.
  rewrite (cast_id U64 e3) by (apply in_U64'; lia).
  assert (H6452 : 2 ^ 11 * 2 ^ 52 < 2 ^ 64) by reflexivity.
  assert (He3F : 0 <= e3 * 2 ^ F <= (B + 122) * 2 ^ F) by (clear - He3 HpF; nia).
  assert (HBF : (B + 124) * 2 ^ F < 2 ^ 64) by (clear - HB' HpF H6452; nia).
  assert (HBE : (B + 124) * 2 ^ F < 2 ^ E * 2 ^ F) by (clear - HE2 HB' HpF; nia).
  rewrite (ck_shl_ok pf U64 e3 F) by (try (apply in_U64'); change (bits U64) with 64; lia). cbn [bind].
  rewrite (ck_ok pf U64 (signif + e3 * 2 ^ F)) by (apply in_U64'; lia). cbn [bind].
  set (up := (Z.lor (g * 2 ^ adj) (if rem =? 0 then 0 else 1) >? 4) ||
             ((Z.lor (g * 2 ^ adj) (if rem =? 0 then 0 else 1) =? 4) && (Z.land signif 1 =? 1))).
  rewrite (ck_ok pf U64 (signif + e3 * 2 ^ F + (if up then 1 else 0))) by (apply in_U64'; destruct up; lia).
  cbn [bind].
  set (body := signif + e3 * 2 ^ F + (if up then 1 else 0)).
  assert (Hbody : 0 <= body < 2 ^ (W - 1)).
  { replace (W - 1) with (E + F) by lia. rewrite Z.pow_add_r by lia. unfold body. destruct up; lia. }
  assert (HW1 : 0 <= W - 1 < 64) by (destruct is64; lia).
  assert (Hsgn : forall sb, (sb = 0 \/ sb = 1) -> ck_shl pf U64 sb (W - 1) = Val (sb * 2 ^ (W - 1))).
  { intros sb Hsb. apply ck_shl_ok; [change (bits U64) with 64; lia|]. apply in_U64'.
    assert (2 ^ (W - 1) <= 2 ^ 63) by (apply Z.pow_le_mono_r; lia). assert (2 ^ 63 < 2 ^ 64) by reflexivity.
    assert (0 < 2 ^ (W - 1)) by (apply Z.pow_pos_nonneg; lia). destruct Hsb as [-> | ->]; lia. }
  rewrite Hsgn by (destruct sgn; auto). cbn [bind].
  assert (Elor : Z.lor body ((if sgn then 1 else 0) * 2 ^ (W - 1)) = (if sgn then 2 ^ (W - 1) else 0) + body).
  { destruct sgn.
    - rewrite Z.mul_1_l, lor_pow2 by lia. lia.
    - rewrite Z.mul_0_l, Z.lor_0_r. lia. }
  rewrite Elor.
  assert (Ecast : (if is64 then (if sgn then 2 ^ (W - 1) else 0) + body
                   else cast U32 ((if sgn then 2 ^ (W - 1) else 0) + body))
                  = (if sgn then 2 ^ (W - 1) else 0) + body).
  { destruct is64; [reflexivity|]. apply cast_id. apply in_U32. rewrite HW' in Hbody |- *.
    change (32 - 1) with 31 in *. assert (2 ^ 31 + 2 ^ 31 = 2 ^ 32) by reflexivity. destruct sgn; lia. }
  rewrite Ecast. f_equal.
  (* the specification *)
  set (e0 := la - lb - F - adj).
  assert (Ens : ns + e0 = ds + G) by (unfold e0, G; lia).
  assert (Eqf : q_floor num den e0 = signif).
  { rewrite (q_floor_shift num den e0 ns) by lia. rewrite Ens.
    rewrite Z.pow_add_r, Z.mul_assoc by lia. fold num' den'.
    rewrite <- Z.div_div by lia. reflexivity. }
  rewrite (nearest_enc (mksffmt W F B) sgn num den e0) by (cbn [sf_frac]; try lia; rewrite Eqf; exact Hsig).
  rewrite enc_bits by (cbn [sf_frac]; lia). cbn [sf_bits sf_frac sf_bias].
  assert (Hex : exists s, 0 <= s /\ 0 <= s + e0 /\ num' = num * 2 ^ s /\ den' * 2 ^ G = den * 2 ^ (s + e0)).
  { exists ns. split; [lia|]. split; [lia|]. split; [reflexivity|].
    unfold den'. rewrite Ens. rewrite Z.pow_add_r by lia. ring. }
  rewrite (enc_round num den e0 num' (den' * 2 ^ G) Hd0 Hn0 ltac:(lia) Hex).
  pose proof (guard_round adj signif g rem den' Hadj ltac:(fold G; lia) Hrem) as Hgr.
  fold G in Hgr. fold up in Hgr.
  replace ((signif * 2 ^ G + g) * den' + rem) with num' in Hgr by lia.
  rewrite <- Hgr. unfold body, e0. rewrite Ee3. ring.
Qed.

(* ---------------- the primitive cast `i128 as f64 / f32` (modelled) ---------------- *)
Lemma q_floor_int_bracket num F : 0 <= F -> 0 < num ->
  2 ^ F <= q_floor num 1 (Z.log2 num - F) < 2 ^ (F + 1).
Proof.
  intros HF Hn. pose proof (log2_bounds num Hn) as Hl. pose proof (Z.log2_nonneg num) as Hl0.
  set (la := Z.log2 num) in *. unfold q_floor.
  destruct (Z.ltb_spec (la - F) 0).
  - rewrite Z.div_1_r. replace (- (la - F)) with (F - la) by lia.
    pose proof (pow2_scale_bounds num la (F - la) Hl0 ltac:(lia) Hl) as Hs.
    replace (la + (F - la)) with F in Hs by lia. exact Hs.
  - rewrite Z.mul_1_l.
    assert (0 < 2 ^ (la - F)) by (apply Z.pow_pos_nonneg; lia).
    assert (E1 : 2 ^ la = 2 ^ F * 2 ^ (la - F)) by (rewrite <- Z.pow_add_r by lia; f_equal; lia).
    assert (E2 : 2 ^ (la + 1) = 2 ^ (F + 1) * 2 ^ (la - F)) by (rewrite <- Z.pow_add_r by lia; f_equal; lia).
    split; [apply Z.div_le_lower_bound; lia|apply Z.div_lt_upper_bound; lia].
Qed.

Lemma rne_bits_ok W F B is64 neg num : 23 <= F <= 52 -> 0 < num <= 2 ^ 127 ->
  rne_bits (mkffmt W F B is64) neg num 1 = nearest_float_bits (mksffmt W F B) neg num 1.
Proof.
  intros HF Hn.
  pose proof (q_floor_int_bracket num F ltac:(lia) ltac:(lia)) as Hb.
  assert (Hla : 0 <= Z.log2 num <= 127).
  { split; [apply Z.log2_nonneg|]. assert (Z.log2 num < 128) by (apply Z.log2_lt_pow2; [lia|]; assert (2 ^ 127 < 2 ^ 128) by reflexivity; lia). lia. }
  set (e0 := Z.log2 num - F) in *.
  rewrite (nearest_enc (mksffmt W F B) neg num 1 e0) by (cbn [sf_frac]; lia).
  unfold rne_bits, enc. cbn [ff_bits ff_frac ff_bias sf_bits sf_frac sf_bias]. cbv zeta.
  change (Z.log2 1) with 0. replace (F + 1 - 1) with F by lia.
  replace (Z.log2 num - 0 - (F + 1) + 1) with e0 by (unfold e0; lia).
  (* the two exponent probes *)
  assert (Efl : (let '(a, b) := if e0 <? 0 then (num * 2 ^ (- e0), 1) else (num, 1 * 2 ^ e0) in a / b) = q_floor num 1 e0).
  { unfold q_floor. destruct (e0 <? 0); reflexivity. }
  rewrite Efl. destruct (Z.ltb_spec (q_floor num 1 e0) (2 ^ F)); [lia|].
  rewrite Efl. destruct (Z.ltb_spec (q_floor num 1 e0) (2 ^ F)); [lia|].
  (* rounding *)
  assert (Ernd : forall a b, 0 < b ->
     (if (b <? 2 * (a mod b)) || ((b =? 2 * (a mod b)) && Z.odd (a / b)) then a / b + 1 else a / b) = rnd RHalfEven a b).
  { intros a b Hb0. pose proof (Z.mod_pos_bound a b Hb0). pose proof (Z.div_mod a b ltac:(lia)) as Ed.
    transitivity (rnd RHalfEven (a / b * b + a mod b) b); [|f_equal; lia].
    rewrite <- rnd_he_floor by lia.
    rewrite Z.gtb_ltb, (Z.eqb_sym b). reflexivity. }
  destruct (Z.ltb_spec e0 0).
  - rewrite Ernd by lia.
    destruct (rnd RHalfEven (num * 2 ^ (- e0)) 1 =? 2 ^ (F + 1)); ring.
  - assert (0 < 2 ^ e0) by (apply Z.pow_pos_nonneg; lia).
    rewrite Ernd by lia.
    destruct (rnd RHalfEven num (1 * 2 ^ e0) =? 2 ^ (F + 1)); ring.
Qed.

(* ---------------- From<Decimal> for f64 / f32 ---------------- *)
Theorem dec_to_float_ok pf W F B E is64 d :
  fmt_ok W F B E is64 -> W = (if is64 then 64 else 32) -> wf d = true ->
  dec_to_float pf (mkffmt W F B is64) d = Val (to_float_spec (mksffmt W F B) d).
Proof.
  intros Hfm HW' Hd. pose proof Hfm as [HF HE HW HB Hmax].
  destruct (wf_bounds _ Hd) as [Hc Hp].
  unfold dec_to_float.
  destruct (Z.eqb_spec (coeff d) 0) as [Ec|Nc].
  - rewrite orb_true_r. unfold int_to_float, to_float_spec. rewrite Ec. reflexivity.
  - rewrite orb_false_r. destruct (Z.eqb_spec (nfd d) 0) as [En|Nn].
    + unfold int_to_float, to_float_spec. destruct (Z.eqb_spec (coeff d) 0); [contradiction|].
      rewrite En. change (10 ^ 0) with 1. f_equal. apply (rne_bits_ok W F B is64); lia.
    + apply (from_decimal_ok pf W F B E is64); try assumption. lia.
Qed.

Theorem to_float_acc pf is64 d : wf d = true -> acc_tofloat is64 d (run_tofloat pf is64 d) = true.
Proof.
  intros Hd. unfold acc_tofloat, run_tofloat. destruct is64.
  - unfold F64, SF64. rewrite (dec_to_float_ok pf 64 52 1023 11 true d fmt_ok_64 eq_refl Hd). apply out_eqb_refl.
  - unfold F32, SF32. rewrite (dec_to_float_ok pf 32 23 127 8 false d fmt_ok_32 eq_refl Hd). apply out_eqb_refl.
Qed.

(* ---------------- what the specification's rounding means ---------------- *)
(* m = RoundHalfEven(N / D) is a nearest integer to N / D, and the even one on a tie *)
Lemma rnd_he_nearest N D : 0 < D ->
  let m := rnd RHalfEven N D in
  2 * Z.abs (N - m * D) <= D /\ (2 * Z.abs (N - m * D) = D -> Z.even m = true).
Proof.
  intros HD m. pose proof (Z.div_mod N D ltac:(lia)) as Ed. pose proof (Z.mod_pos_bound N D HD) as Hr.
  assert (Em : m = rnd RHalfEven (N / D * D + N mod D) D) by (unfold m; f_equal; lia).
  rewrite <- rnd_he_floor in Em by lia.
  set (q := N / D) in *. set (r := N mod D) in *. clearbody m q r.
  destruct (Z.gtb_spec (2 * r) D) as [H1|H1]; cbn [orb] in Em.
  - subst m. split; [nia|nia].
  - destruct (Z.eqb_spec (2 * r) D) as [H2|H2]; cbn [andb] in Em.
    + destruct (Z.odd q) eqn:Od; subst m.
      * split; [nia|]. intros _. rewrite Z.even_add, <- Z.negb_odd, Od. reflexivity.
      * split; [nia|]. intros _. rewrite <- Z.negb_odd, Od. reflexivity.
    + subst m. split; [nia|nia].
Qed.

(* ---------------- the exponent bracket exists for every Decimal, and the encoding decodes ---------------- *)
Lemma spec_bracket num den F :
  0 < num < 2 ^ 127 -> (den = 1 \/ 10 <= den <= 10 ^ 18) -> 23 <= F <= 52 ->
  exists e0, 2 ^ F <= q_floor num den e0 < 2 ^ (F + 1) /\ - 113 <= e0 <= 126 - F.
Proof.
  intros Hnum Hden HF. destruct Hden as [-> | Hden].
  - exists (Z.log2 num - F). split; [apply q_floor_int_bracket; lia|].
    assert (Z.log2 num < 127) by (apply Z.log2_lt_pow2; lia). pose proof (Z.log2_nonneg num). lia.
  - destruct (scaling_facts num den F Hnum Hden HF) as (Hla & Hlb & Hns & Hds & Hnd & Hnum' & Hden' & Hq).
    set (la := Z.log2 num) in *. set (lb := Z.log2 den) in *.
    set (ns := Z.max 0 (lb - la + (F + 3))) in *. set (ds := Z.max 0 (- (lb - la + (F + 3)))) in *.
    set (num' := num * 2 ^ ns) in *. set (den' := den * 2 ^ ds) in *.
    destruct (signif_facts (num' / den') F HF Hq) as (Hadj & H2G & H2adj & _ & Hsig).
    set (adj := if Z.log2 (num' / den') + 1 =? F + 3 then 1 else 0) in *. clearbody adj.
    set (G := 3 - adj) in *.
    exists (la - lb - F - adj). split; [|lia].
    assert (Ens : ns + (la - lb - F - adj) = ds + G) by (unfold G; lia).
    rewrite (q_floor_shift num den (la - lb - F - adj) ns) by lia. rewrite Ens.
    rewrite Z.pow_add_r, Z.mul_assoc by lia. fold num' den'.
    rewrite <- Z.div_div by lia. exact Hsig.
Qed.

(* fields of an encoded normal number *)
Lemma enc_fields W F B E (neg : bool) m e :
  23 <= F <= 52 -> 8 <= E <= 11 -> W = 1 + E + F ->
  2 ^ F <= m < 2 ^ (F + 1) -> 1 <= e + F + B <= 2 ^ E - 2 ->
  let bits := (if neg then 2 ^ (W - 1) else 0) + (e + F + B) * 2 ^ F + (m - 2 ^ F) in
  bits / 2 ^ (W - 1) = (if neg then 1 else 0) /\
  (bits / 2 ^ F) mod 2 ^ E = e + F + B /\ bits mod 2 ^ F = m - 2 ^ F.
Proof.
  intros HF HE HW Hm He bits.
  assert (HpF : 0 < 2 ^ F) by (apply Z.pow_pos_nonneg; lia).
  assert (HpE : 0 < 2 ^ E) by (apply Z.pow_pos_nonneg; lia).
  assert (EF1 : 2 ^ (F + 1) = 2 * 2 ^ F) by (rewrite Z.pow_add_r by lia; lia).
  assert (EW : 2 ^ (W - 1) = 2 ^ E * 2 ^ F) by (rewrite <- Z.pow_add_r by lia; f_equal; lia).
  set (S := if neg then 1 else 0). assert (HS : 0 <= S <= 1) by (unfold S; destruct neg; lia).
  assert (Eb : bits = (S * 2 ^ E + (e + F + B)) * 2 ^ F + (m - 2 ^ F)).
  { unfold bits, S. rewrite EW. destruct neg; ring. }
  assert (Hlow : 0 <= m - 2 ^ F < 2 ^ F) by lia.
  refine (conj _ (conj _ _)).
  - rewrite Eb, EW. fold S.
    replace ((S * 2 ^ E + (e + F + B)) * 2 ^ F + (m - 2 ^ F)) with (S * (2 ^ E * 2 ^ F) + ((e + F + B) * 2 ^ F + (m - 2 ^ F))) by ring.
    rewrite Z.div_add_l by nia. rewrite Z.div_small by nia. lia.
  - rewrite Eb. rewrite Z.div_add_l by lia. rewrite (Z.div_small (m - 2 ^ F)) by lia. rewrite Z.add_0_r.
    rewrite Z.add_comm, Z.mod_add by lia. apply Z.mod_small. lia.
  - rewrite Eb. rewrite Z.add_comm, Z.mod_add by lia. apply Z.mod_small. lia.
Qed.
