(* ThreadsFacts.v — C19: in every interleaving, what a thread observes depends only
   on its own earlier set_default calls. *)
From FP Require Import Machine SrcConsts Pow10 Rounding Arith Round Format Threads Out RunMore.
From FP Require Import OutFacts.

Lemma lookup_update_same s t m : lookup (update s t m) t = m.
Proof. unfold update. cbn. rewrite Z.eqb_refl. reflexivity. Qed.

Lemma lookup_update_other s t t' m : t' <> t -> lookup (update s t' m) t = lookup s t.
Proof. intros H. unfold update. cbn. destruct (Z.eqb_spec t' t); [contradiction|reflexivity]. Qed.

(* projection: the observations of thread t in a run from store s are those of t's
   own events run alone, starting from the mode s holds for t *)
Lemma projection pf t : forall h s,
  proj_obs t (trun pf s h) = trun_single pf (lookup s t) (proj_events t h).
Proof.
  induction h as [|e h IH]; intros s; [reflexivity|].
  cbn [trun]. destruct (tstep pf s e) as [s' o] eqn:St.
  unfold proj_obs, proj_events in *. cbn [filter fst map snd].
  destruct (Z.eqb_spec (tid e) t) as [E|E].
  - (* an event of thread t *)
    cbn [map snd]. destruct e; cbn [tid] in E; subst; cbn [tstep] in St; injection St as <- <-;
      cbn [trun_single]; f_equal; rewrite IH, ?lookup_update_same; reflexivity.
  - (* an event of another thread: t's cell is untouched *)
    rewrite IH. f_equal.
    destruct e; cbn [tid] in E; cbn [tstep] in St; injection St as <- <-; try reflexivity.
    apply lookup_update_other. exact E.
Qed.

(* from the initial (empty) store every thread starts with the initial mode *)
Theorem per_thread pf t h :
  proj_obs t (trun pf [] h) = trun_single pf INITIAL_MODE (proj_events t h).
Proof. apply (projection pf t h []). Qed.

Lemma initial_mode_is_half_even : INITIAL_MODE = RHalfEven.
Proof. reflexivity. Qed.

(* the store-based model and the "last set of the same thread" specification agree *)
Lemma lookup_last_set : forall rev_prefix t,
  lookup (fold_right (fun e s => fst (tstep dev s e)) [] rev_prefix) t = last_set t rev_prefix.
Proof.
  induction rev_prefix as [|e r IH]; intros t; [reflexivity|].
  cbn [fold_right last_set]. destruct e; cbn [tstep fst]; try apply IH.
  unfold update. cbn [lookup]. destruct (Z.eqb_spec t0 t); [reflexivity|apply IH].
Qed.

Lemma tstep_store_pf pf s e : fst (tstep pf s e) = fst (tstep dev s e).
Proof. destruct e; reflexivity. Qed.

Lemma trun_spec pf : forall h rev_prefix,
  trun pf (fold_right (fun e s => fst (tstep dev s e)) [] rev_prefix) h = spec_thr pf rev_prefix h.
Proof.
  induction h as [|e h IH]; intros rp; [reflexivity|].
  cbn [trun spec_thr].
  destruct (tstep pf _ e) as [s' o] eqn:St.
  assert (Hs : s' = fold_right (fun e s => fst (tstep dev s e)) [] (e :: rp)).
  { cbn [fold_right]. rewrite <- (tstep_store_pf pf). rewrite St. reflexivity. }
  rewrite Hs, IH. f_equal. f_equal.
  pose proof (lookup_last_set rp (tid e)) as L.
  destruct e; cbn [tstep] in St; injection St as _ <-; cbn [obs_with tid] in *; rewrite ?L; reflexivity.
Qed.

Theorem thr_acc pf h : acc_thr pf h (run_thr pf h) = true.
Proof.
  unfold acc_thr, run_thr. rewrite <- (trun_spec pf h []). apply out_eqb_refl.
Qed.
