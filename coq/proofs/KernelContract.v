(* KernelContract.v — statement of what the 256-bit kernels must compute (proved in
   WideDivFacts.v), and what the rounded wrappers compute given that. *)
From FP Require Import Machine SrcConsts Pow10 WideDiv Rounding RoundSpec Out ArithSpec Run.
From FP Require Import MachineFacts Pow10Facts RoundSpecFacts RoundingFacts.

(* floor quotient/remainder of N by m > 0, or None exactly when |N| / m exceeds 2^127 - 1 *)
Definition floor_ok (N m : Z) (o : option (Z * Z)) : Prop :=
  match o with
  | Some (q, r) => Z.abs N / m <= MAXC /\ q = N / m /\ r = N mod m
  | None => MAXC < Z.abs N / m
  end.

Definition sdmf_contract : Prop :=
  forall pf a k m, - MAXC <= a <= MAXC -> 0 <= k <= 38 -> 0 < m <= MAXC ->
    exists o, i128_shifted_div_mod_floor pf a k m = Val o /\ floor_ok (a * 10 ^ k) m o.

Definition i256_contract : Prop :=
  forall pf a b m, - MAXC <= a <= MAXC -> - MAXC <= b <= MAXC -> 0 < m <= MAXC ->
    exists o, i256_div_mod_floor pf a b m = Val o /\ floor_ok (a * b) m o.

(* a rounded quotient: the value when it is an i128, None when it is not; and it is
   None only if the magnitude of the exact quotient is >= 2^127 - 1/2 or so - more
   precisely the result is the one [classify] accepts *)
Definition rounded_ok (c : Z) (o : option Z) : Prop :=
  match o with
  | Some v => v = c /\ MINC <= c <= MAXC
  | None => MAXC < Z.abs c
  end.

Lemma floor_quot_range N m : 0 < m -> Z.abs N / m <= MAXC -> - MAXC - 1 <= N / m <= MAXC.
Proof.
  intros Hm H. pose proof (Z.div_mod N m ltac:(lia)) as E. pose proof (Z.mod_pos_bound N m Hm) as B.
  pose proof (Z.div_mod (Z.abs N) m ltac:(lia)) as E'. pose proof (Z.mod_pos_bound (Z.abs N) m Hm) as B'.
  set (q := N / m) in *. set (t := Z.abs N / m) in *.
  split; nia.
Qed.

Lemma abs_quot N d : 0 < d -> Z.abs N / d = Z.abs (Z.quot N d).
Proof.
  intros Hd.
  { rewrite <- (Z.quot_div_nonneg (Z.abs N) d) by lia.
    destruct (Z_le_gt_dec 0 N) as [Hn|Hn].
    - rewrite (Z.abs_eq N) by lia. symmetry. apply Z.abs_eq. apply Z.quot_pos; lia.
    - rewrite (Z.abs_neq N) by lia. rewrite Z.quot_opp_l by lia.
      assert (0 <= Z.quot (- N) d) by (apply Z.quot_pos; lia).
      rewrite Z.quot_opp_l in H by lia. symmetry. apply Z.abs_neq. lia. }
Qed.

Lemma rnd_ge_trunc m N d : 0 < d -> Z.abs N / d <= Z.abs (rnd m N d).
Proof.
  intros Hd. unfold rnd.
  pose proof (Z.quot_rem' N d) as E. pose proof (Z.rem_bound_abs N d ltac:(lia)) as B.
  pose proof (Z.rem_sign_mul N d ltac:(lia)) as S.
  assert (Hq : Z.abs N / d = Z.abs (Z.quot N d)) by (apply abs_quot; assumption).
  rewrite Hq. set (t := Z.quot N d) in *. set (r := Z.rem N d) in *.
  destruct (Z.eqb_spec (Z.abs r) 0); [lia|].
  assert (Ha : Z.abs t <= Z.abs (t + Z.sgn N)) by nia.
  destruct m; repeat match goal with |- context [if ?b then _ else _] => destruct b end; lia.
Qed.

Lemma round_after_floor pf m N d o :
  0 < d <= MAXC -> floor_ok N d o ->
  exists o', (match o with
              | None => Val None
              | Some (quot, rem) => round_quot pf quot (cast U128 rem) (cast U128 d) m
              end) = Val o' /\ rounded_ok (rnd m N d) o'.
Proof.
  intros Hd Ho. rewrite MAXC_val in Hd. destruct o as [[q r]|].
  - destruct Ho as (Ht & -> & ->).
    pose proof (floor_quot_range N d ltac:(lia) Ht) as Rq. rewrite MAXC_val in Rq.
    pose proof (Z.mod_pos_bound N d ltac:(lia)) as B.
    rewrite !cast_id by (apply in_U128_iff; rewrite pow2_128; lia).
    rewrite round_quot_spec by (try apply in_I128_iff; rewrite ?pow2_127; lia).
    unfold checked. destruct (in_range I128 (rnd m N d)) eqn:R.
    + eexists. split; [reflexivity|]. cbn. apply in_I128_iff in R. unfold MINC. rewrite ?MAXC_val, ?pow2_127 in *. lia.
    + eexists. split; [reflexivity|]. cbn. apply in_range_false_iff in R.
      rewrite tmin_I128, tmax_I128, pow2_127 in R. rewrite ?MAXC_val. lia.
  - cbn in Ho. eexists. split; [reflexivity|]. cbn.
    pose proof (rnd_ge_trunc m N d ltac:(lia)). lia.
Qed.

(* acceptance of a rounded coefficient at scale n by [classify] *)
Lemma classify_acc c n o :
  rounded_ok c o ->
  acc_op (classify c n) (match o with Some v => OV (mkdec v n) | None => OP end) = true /\
  acc_chk (classify c n) (match o with Some v => OV (mkdec v n) | None => ON end) = true.
Proof.
  intros H. unfold classify. destruct o as [v|]; unfold rounded_ok in H.
  - destruct H as [-> R]. destruct (Z.leb_spec (Z.abs c) MAXC).
    + cbn. unfold dec_eqb. cbn. rewrite !Z.eqb_refl. auto.
    + assert (c = MINC) by (unfold MINC in *; rewrite MAXC_val in *; rewrite pow2_127 in *; lia).
      destruct (Z.eqb_spec c MINC); [|contradiction]. cbn. unfold dec_eqb. cbn. rewrite !Z.eqb_refl. auto.
  - destruct (Z.leb_spec (Z.abs c) MAXC); [lia|]. destruct (c =? MINC); cbn; auto.
Qed.
