(* SwarFacts.v — C06: the SWAR tricks of the parser on ALL 64-bit words built from
   eight bytes, by lane reasoning. *)
From FP Require Import Machine SrcConsts Pow10 Parser.
From FP Require Import MachineFacts Pow10Facts.

Local Open Scope Z_scope.

(* ---- lanes: land / lor distribute over a low part and a shifted high part ---- *)
Lemma land_low_high a A k : 0 <= k -> 0 <= a < 2 ^ k -> 0 <= A -> Z.land a (A * 2 ^ k) = 0.
Proof.
  intros Hk Ha HA. apply Z.bits_inj'. intros n Hn. rewrite Z.land_spec, Z.bits_0.
  destruct (Z_lt_le_dec n k).
  - rewrite Z.mul_pow2_bits_low by lia. apply andb_false_r.
  - assert (Z.testbit a n = false).
    { destruct (Z.eq_dec a 0) as [->|]; [apply Z.bits_0|].
      apply Z.bits_above_log2; [lia|]. assert (Z.log2 a < k) by (apply Z.log2_lt_pow2; lia). lia. }
    rewrite H. reflexivity.
Qed.

Lemma add_is_lor a A k : 0 <= k -> 0 <= a < 2 ^ k -> 0 <= A -> a + A * 2 ^ k = Z.lor a (A * 2 ^ k).
Proof.
  intros Hk Ha HA. pose proof (land_low_high a A k Hk Ha HA) as L.
  rewrite <- Z.lxor_lor by exact L. apply Z.add_nocarry_lxor. exact L.
Qed.

Lemma land_lt_pow2 a m k : 0 <= k -> 0 <= a -> 0 <= m < 2 ^ k -> 0 <= Z.land a m < 2 ^ k.
Proof.
  intros Hk Ha Hm.
  assert (E : Z.land a m = Z.land a m mod 2 ^ k).
  { rewrite <- Z.land_ones by lia. rewrite <- Z.land_assoc. rewrite (Z.land_ones m) by lia.
    rewrite Z.mod_small by lia. reflexivity. }
  rewrite E. apply Z.mod_pos_bound. apply Z.pow_pos_nonneg; lia.
Qed.

Lemma lane_land a A m M k :
  0 <= k -> 0 <= a < 2 ^ k -> 0 <= m < 2 ^ k -> 0 <= A -> 0 <= M ->
  Z.land (a + A * 2 ^ k) (m + M * 2 ^ k) = Z.land a m + Z.land A M * 2 ^ k.
Proof.
  intros Hk Ha Hm HA HM.
  rewrite (add_is_lor a A k), (add_is_lor m M k) by assumption.
  rewrite Z.land_lor_distr_l, !Z.land_lor_distr_r.
  rewrite (land_low_high a M k) by assumption.
  rewrite (Z.land_comm (A * 2 ^ k) m), (land_low_high m A k) by assumption.
  rewrite Z.lor_0_r, Z.lor_0_l.
  assert (E : Z.land (A * 2 ^ k) (M * 2 ^ k) = Z.land A M * 2 ^ k).
  { rewrite <- !Z.shiftl_mul_pow2 by lia. symmetry. apply Z.shiftl_land. }
  rewrite E. symmetry. apply add_is_lor; [assumption| |apply Z.land_nonneg; lia].
  apply land_lt_pow2; lia.
Qed.

(* the same for lor *)
Lemma lane_lor a A m M k :
  0 <= k -> 0 <= a < 2 ^ k -> 0 <= m < 2 ^ k -> 0 <= A -> 0 <= M ->
  Z.lor (a + A * 2 ^ k) (m + M * 2 ^ k) = Z.lor a m + Z.lor A M * 2 ^ k.
Proof.
  intros Hk Ha Hm HA HM.
  rewrite (add_is_lor a A k), (add_is_lor m M k) by assumption.
  assert (E : Z.lor (A * 2 ^ k) (M * 2 ^ k) = Z.lor A M * 2 ^ k).
  { rewrite <- !Z.shiftl_mul_pow2 by lia. symmetry. apply Z.shiftl_lor. }
  assert (Hl : 0 <= Z.lor a m < 2 ^ k).
  { assert (El : Z.lor a m = Z.lor a m mod 2 ^ k).
    { rewrite <- Z.land_ones by lia. rewrite Z.land_lor_distr_l. rewrite !Z.land_ones by lia.
      rewrite !Z.mod_small by lia. reflexivity. }
    rewrite El. apply Z.mod_pos_bound. apply Z.pow_pos_nonneg; lia. }
  rewrite (add_is_lor (Z.lor a m) (Z.lor A M) k) by (try assumption; apply Z.lor_nonneg; lia).
  rewrite <- E.
  rewrite <- !Z.lor_assoc. f_equal. rewrite (Z.lor_comm (A * 2 ^ k)), <- Z.lor_assoc. f_equal. apply Z.lor_comm.
Qed.

(* ---- words as lists of lanes (little endian) ---- *)
Fixpoint lanes (w : Z) (l : list Z) : Z :=
  match l with
  | [] => 0
  | b :: l' => b + lanes w l' * 2 ^ w
  end.

Definition lane_ok (w : Z) (b : Z) : Prop := 0 <= b < 2 ^ w.

Lemma lanes_bounds w l : 0 <= w -> Forall (lane_ok w) l -> 0 <= lanes w l < 2 ^ (w * Z.of_nat (length l)).
Proof.
  intros Hw H. induction H as [|b l Hb Hl IH]; cbn [lanes length].
  - cbn. rewrite Z.mul_0_r. cbn. lia.
  - unfold lane_ok in Hb. rewrite Nat2Z.inj_succ.
    replace (w * Z.succ (Z.of_nat (length l))) with (w + w * Z.of_nat (length l)) by lia.
    rewrite Z.pow_add_r by (try lia; apply Z.mul_nonneg_nonneg; lia).
    assert (0 < 2 ^ w) by (apply Z.pow_pos_nonneg; lia). nia.
Qed.

Lemma lanes_land w : 0 <= w -> forall l m,
  Forall (lane_ok w) l -> Forall (lane_ok w) m -> length l = length m ->
  Z.land (lanes w l) (lanes w m) = lanes w (map (fun p => Z.land (fst p) (snd p)) (combine l m)).
Proof.
  intros Hw l. induction l as [|a l IH]; intros m Hl Hm Hlen; destruct m as [|b m]; try discriminate.
  - reflexivity.
  - inversion Hl as [|? ? Ha Hl']; subst. inversion Hm as [|? ? Hb Hm']; subst.
    cbn [lanes combine map fst snd].
    rewrite lane_land; try assumption.
    + rewrite IH by (try assumption; cbn in Hlen; congruence). reflexivity.
    + apply (lanes_bounds w l Hw Hl').
    + apply (lanes_bounds w m Hw Hm').
Qed.

Lemma lanes_lor w : 0 <= w -> forall l m,
  Forall (lane_ok w) l -> Forall (lane_ok w) m -> length l = length m ->
  Z.lor (lanes w l) (lanes w m) = lanes w (map (fun p => Z.lor (fst p) (snd p)) (combine l m)).
Proof.
  intros Hw l. induction l as [|a l IH]; intros m Hl Hm Hlen; destruct m as [|b m]; try discriminate.
  - reflexivity.
  - inversion Hl as [|? ? Ha Hl']; subst. inversion Hm as [|? ? Hb Hm']; subst.
    cbn [lanes combine map fst snd].
    rewrite lane_lor; try assumption.
    + rewrite IH by (try assumption; cbn in Hlen; congruence). reflexivity.
    + apply (lanes_bounds w l Hw Hl').
    + apply (lanes_bounds w m Hw Hm').
Qed.

Lemma lanes_zero w l : Forall (fun b => b = 0) l -> lanes w l = 0.
Proof. intros H. induction H as [|b l -> Hl IH]; cbn [lanes]; [reflexivity|]. rewrite IH. reflexivity. Qed.

(* shifting right by one lane drops the first lane *)
Lemma lanes_shiftr w b l : 0 <= w -> lane_ok w b -> Z.shiftr (lanes w (b :: l)) w = lanes w l.
Proof.
  intros Hw Hb. unfold lane_ok in Hb. cbn [lanes]. rewrite Z.shiftr_div_pow2 by lia.
  rewrite Z.div_add by (apply Z.pow_nonzero; lia). rewrite Z.div_small by lia. lia.
Qed.

(* the little-endian word of eight bytes *)
Lemma read_u64_lanes b0 b1 b2 b3 b4 b5 b6 b7 rest :
  read_u64 (b0 :: b1 :: b2 :: b3 :: b4 :: b5 :: b6 :: b7 :: rest) = Some (lanes 8 [b0; b1; b2; b3; b4; b5; b6; b7]).
Proof. cbn [read_u64 lanes]. f_equal. ring. Qed.

(* ---- chunk_to_u64 on eight ASCII digits ---- *)
Lemma land_ones_small t n : 0 <= n -> 0 <= t < 2 ^ n -> Z.land t (Z.ones n) = t.
Proof. intros Hn Ht. rewrite Z.land_ones by lia. apply Z.mod_small. lia. Qed.

Lemma land_digit d : 0 <= d <= 9 -> Z.land (48 + d) 15 = d.
Proof.
  intros Hd. change 15 with (Z.ones 4). rewrite Z.land_ones by lia.
  replace (48 + d) with (d + 3 * 2 ^ 4) by (change (2 ^ 4) with 16; lia).
  rewrite Z_mod_plus_full. apply Z.mod_small. change (2 ^ 4) with 16. lia.
Qed.

Ltac lanes_ok := repeat constructor; unfold lane_ok; try (change (2 ^ 8) with 256); try (change (2 ^ 16) with 65536);
                 try (change (2 ^ 32) with 4294967296); lia.

Lemma chunk_to_u64_digits d0 d1 d2 d3 d4 d5 d6 d7 :
  0 <= d0 <= 9 -> 0 <= d1 <= 9 -> 0 <= d2 <= 9 -> 0 <= d3 <= 9 ->
  0 <= d4 <= 9 -> 0 <= d5 <= 9 -> 0 <= d6 <= 9 -> 0 <= d7 <= 9 ->
  chunk_to_u64 (lanes 8 [48 + d0; 48 + d1; 48 + d2; 48 + d3; 48 + d4; 48 + d5; 48 + d6; 48 + d7])
  = d0 * 10 ^ 7 + d1 * 10 ^ 6 + d2 * 10 ^ 5 + d3 * 10 ^ 4 + d4 * 10 ^ 3 + d5 * 10 ^ 2 + d6 * 10 + d7.
Proof.
  intros H0 H1 H2 H3 H4 H5 H6 H7. unfold chunk_to_u64.
  (* chunk &= 0x0f0f0f0f0f0f0f0f *)
  change SWAR_M1 with (lanes 8 [15; 15; 15; 15; 15; 15; 15; 15]).
  rewrite lanes_land by (try lia; try reflexivity; lanes_ok).
  cbn [combine map fst snd]. rewrite !land_digit by assumption.
  set (c1 := lanes 8 [d0; d1; d2; d3; d4; d5; d6; d7]).
  (* pairs *)
  change SWAR_M2 with (lanes 8 [15; 0; 15; 0; 15; 0; 15; 0]).
  assert (Sh1 : Z.shiftr c1 8 = lanes 8 [d1; d2; d3; d4; d5; d6; d7; 0]).
  { unfold c1. rewrite lanes_shiftr by (try lia; unfold lane_ok; change (2 ^ 8) with 256; lia). cbn [lanes]. ring. }
  rewrite Sh1. unfold c1.
  rewrite !lanes_land by (try lia; try reflexivity; lanes_ok).
  cbn [combine map fst snd]. rewrite !Z.land_0_r.
  change 15 with (Z.ones 4). rewrite !land_ones_small by (try lia; change (2 ^ 4) with 16; lia).
  set (t0 := 10 * d0 + d1). set (t1 := 10 * d2 + d3). set (t2 := 10 * d4 + d5). set (t3 := 10 * d6 + d7).
  assert (E2 : lanes 8 [d0; 0; d2; 0; d4; 0; d6; 0] * 10 + lanes 8 [d1; 0; d3; 0; d5; 0; d7; 0] = lanes 16 [t0; t1; t2; t3]).
  { unfold t0, t1, t2, t3. cbn [lanes]. change (2 ^ 16) with (2 ^ 8 * 2 ^ 8). ring. }
  assert (R2 : 0 <= lanes 16 [t0; t1; t2; t3] < 2 ^ 64) by (apply (lanes_bounds 16 [t0; t1; t2; t3]); [lia|unfold t0, t1, t2, t3; lanes_ok]).
  assert (R2a : 0 <= lanes 8 [d0; 0; d2; 0; d4; 0; d6; 0] * 10 < 2 ^ 64).
  { pose proof (lanes_bounds 8 [d1; 0; d3; 0; d5; 0; d7; 0] ltac:(lia) ltac:(lanes_ok)).
    pose proof (lanes_bounds 8 [d0; 0; d2; 0; d4; 0; d6; 0] ltac:(lia) ltac:(lanes_ok)). lia. }
  rewrite (wrap_id U64 (lanes 8 [d0; 0; d2; 0; d4; 0; d6; 0] * 10)) by (apply in_range_iff; cbn [tmin tmax signed bits]; lia).
  rewrite E2. rewrite (wrap_id U64 (lanes 16 [t0; t1; t2; t3])) by (apply in_range_iff; cbn [tmin tmax signed bits]; lia).
  (* quadruples *)
  change SWAR_M3 with (lanes 16 [127; 0; 127; 0]).
  assert (Sh2 : Z.shiftr (lanes 16 [t0; t1; t2; t3]) 16 = lanes 16 [t1; t2; t3; 0]).
  { rewrite lanes_shiftr by (try lia; unfold lane_ok, t0; change (2 ^ 16) with 65536; lia). cbn [lanes]. ring. }
  rewrite Sh2.
  rewrite !lanes_land by (try lia; try reflexivity; unfold t0, t1, t2, t3; lanes_ok).
  cbn [combine map fst snd]. rewrite !Z.land_0_r.
  change 127 with (Z.ones 7). rewrite !land_ones_small by (try lia; unfold t0, t1, t2, t3; change (2 ^ 7) with 128; lia).
  set (q0 := 100 * t0 + t1). set (q1 := 100 * t2 + t3).
  assert (E3 : lanes 16 [t0; 0; t2; 0] * 100 + lanes 16 [t1; 0; t3; 0] = lanes 32 [q0; q1]).
  { unfold q0, q1. cbn [lanes]. change (2 ^ 32) with (2 ^ 16 * 2 ^ 16). ring. }
  assert (R3 : 0 <= lanes 32 [q0; q1] < 2 ^ 64) by (apply (lanes_bounds 32 [q0; q1]); [lia|unfold q0, q1, t0, t1, t2, t3; lanes_ok]).
  assert (R3a : 0 <= lanes 16 [t0; 0; t2; 0] * 100 < 2 ^ 64).
  { pose proof (lanes_bounds 16 [t1; 0; t3; 0] ltac:(lia) ltac:(unfold t1, t3; lanes_ok)).
    pose proof (lanes_bounds 16 [t0; 0; t2; 0] ltac:(lia) ltac:(unfold t0, t2; lanes_ok)). lia. }
  rewrite (wrap_id U64 (lanes 16 [t0; 0; t2; 0] * 100)) by (apply in_range_iff; cbn [tmin tmax signed bits]; lia).
  rewrite E3. rewrite (wrap_id U64 (lanes 32 [q0; q1])) by (apply in_range_iff; cbn [tmin tmax signed bits]; lia).
  (* halves *)
  change SWAR_M4 with (lanes 32 [16383; 0]).
  assert (Sh3 : Z.shiftr (lanes 32 [q0; q1]) 32 = lanes 32 [q1; 0]).
  { rewrite lanes_shiftr by (try lia; unfold lane_ok, q0, t0, t1; change (2 ^ 32) with 4294967296; lia). cbn [lanes]. ring. }
  rewrite Sh3.
  rewrite !lanes_land by (try lia; try reflexivity; unfold q0, q1, t0, t1, t2, t3; lanes_ok).
  cbn [combine map fst snd]. rewrite !Z.land_0_r.
  change 16383 with (Z.ones 14). rewrite !land_ones_small by (try lia; unfold q0, q1, t0, t1, t2, t3; change (2 ^ 14) with 16384; lia).
  cbn [lanes]. rewrite !Z.mul_0_l, !Z.add_0_r.
  rewrite (wrap_id U64 (q0 * 10000)) by (apply in_range_iff; cbn [tmin tmax signed bits]; unfold q0, t0, t1; lia).
  rewrite wrap_id by (apply in_range_iff; cbn [tmin tmax signed bits]; unfold q0, q1, t0, t1, t2, t3; lia).
  unfold q0, q1, t0, t1, t2, t3. ring.
Qed.

(* ---- chunk_contains_8_digits ---- *)
Definition isdig (b : Z) : bool := (48 <=? b) && (b <=? 57).
Definition byte_ok (b : Z) : Prop := 0 <= b <= 255.

Lemma lanes_app w l1 l2 : 0 <= w ->
  lanes w (l1 ++ l2) = lanes w l1 + lanes w l2 * 2 ^ (w * Z.of_nat (length l1)).
Proof.
  intros Hw. induction l1 as [|a l1 IH]; cbn [app lanes length].
  - rewrite Z.mul_0_r. change (2 ^ 0) with 1. lia.
  - rewrite IH. rewrite Nat2Z.inj_succ.
    replace (w * Z.succ (Z.of_nat (length l1))) with (w * Z.of_nat (length l1) + w) by lia.
    rewrite Z.pow_add_r by (try lia; apply Z.mul_nonneg_nonneg; lia). ring.
Qed.

Lemma lanes_map_add w c l : lanes w (map (fun b => b + c) l) = lanes w l + lanes w (map (fun _ => c) l).
Proof. induction l as [|a l IH]; cbn [map lanes]; [reflexivity|]. rewrite IH. ring. Qed.

(* bit 7 of lane j of (Lo + T * 2^(8j)) mod 2^64 is bit 7 of T mod 256 *)
Lemma lane_bit7 Lo T j :
  0 <= j <= 7 -> 0 <= Lo < 2 ^ (8 * j) ->
  Z.testbit ((Lo + T * 2 ^ (8 * j)) mod 2 ^ 64) (8 * j + 7) = Z.testbit (T mod 2 ^ 8) 7.
Proof.
  intros Hj HLo.
  rewrite Z.mod_pow2_bits_low by lia.
  replace (8 * j + 7) with (7 + 8 * j) by lia.
  rewrite <- Z.div_pow2_bits by lia.
  rewrite Z.div_add by (apply Z.pow_nonzero; lia). rewrite Z.div_small by lia. rewrite Z.add_0_l.
  rewrite Z.mod_pow2_bits_low by lia. reflexivity.
Qed.

Lemma nondigit_bit7 : forallb (fun b => isdig b || Z.testbit ((b - 48) mod 2 ^ 8) 7 || Z.testbit ((b + 70) mod 2 ^ 8) 7)
                              (map Z.of_nat (seq 0 256)) = true.
Proof. vm_compute. reflexivity. Qed.

Lemma nondigit_bit7_spec b : byte_ok b -> isdig b = false ->
  Z.testbit ((b - 48) mod 2 ^ 8) 7 || Z.testbit ((b + 70) mod 2 ^ 8) 7 = true.
Proof.
  intros Hb Hd. pose proof nondigit_bit7 as H. rewrite forallb_forall in H.
  specialize (H b). unfold byte_ok in Hb.
  assert (Hin : In b (map Z.of_nat (seq 0 256))).
  { apply in_map_iff. exists (Z.to_nat b). split; [lia|]. apply in_seq. lia. }
  specialize (H Hin). rewrite Hd in H. cbn [orb] in H. exact H.
Qed.

Lemma hi_bit j : 0 <= j <= 7 -> Z.testbit SWAR_HI (8 * j + 7) = true.
Proof.
  intros Hj. assert (j = 0 \/ j = 1 \/ j = 2 \/ j = 3 \/ j = 4 \/ j = 5 \/ j = 6 \/ j = 7) as C by lia.
  repeat (destruct C as [-> | C]; [reflexivity|]). subst. reflexivity.
Qed.

Lemma lanes_const_split c (j : nat) (post_len : nat) :
  lanes 8 (repeat c (j + S post_len)) = lanes 8 (repeat c j) + (c + lanes 8 (repeat c post_len) * 2 ^ 8) * 2 ^ (8 * Z.of_nat j).
Proof.
  rewrite repeat_app. rewrite lanes_app by lia. rewrite repeat_length. cbn [repeat lanes]. reflexivity.
Qed.

Lemma map_const_repeat {A} (c : Z) (l : list A) : map (fun _ => c) l = repeat c (length l).
Proof. induction l; cbn; congruence. Qed.

Lemma lanes_map_sub w c l : lanes w (map (fun b => b - c) l) = lanes w l - lanes w (repeat c (length l)).
Proof. induction l as [|a l IH]; cbn [map lanes length repeat]; [reflexivity|]. rewrite IH. ring. Qed.

(* a non-digit byte whose predecessors are all digits makes the test fail *)
Lemma contains_false pre b post :
  Forall (fun x => isdig x = true) pre -> byte_ok b -> isdig b = false -> Forall byte_ok post ->
  length (pre ++ b :: post) = 8%nat ->
  chunk_contains_8_digits (lanes 8 (pre ++ b :: post)) = false.
Proof.
  intros Hpre Hb Hnd Hpost Hlen. unfold chunk_contains_8_digits.
  set (j := Z.of_nat (length pre)).
  assert (Hj : 0 <= j <= 7) by (rewrite app_length in Hlen; cbn in Hlen; unfold j; lia).
  set (k := lanes 8 (pre ++ b :: post)).
  assert (Ek : k = lanes 8 pre + (b + lanes 8 post * 2 ^ 8) * 2 ^ (8 * j)).
  { unfold k. rewrite lanes_app by lia. cbn [lanes]. reflexivity. }
  assert (Elen : (8 = length pre + S (length post))%nat) by (rewrite app_length in Hlen; cbn in Hlen; lia).
  (* x = k - 0x30..30 *)
  assert (Ex : k - SWAR_SUB = lanes 8 (map (fun x => x - 48) pre)
               + ((b - 48) + (lanes 8 post - lanes 8 (repeat 48 (length post))) * 2 ^ 8) * 2 ^ (8 * j)).
  { change SWAR_SUB with (lanes 8 (repeat 48 8)). rewrite Elen. rewrite lanes_const_split.
    rewrite lanes_map_sub. rewrite Ek. fold j. ring. }
  assert (Ey : k + SWAR_ADD = lanes 8 (map (fun x => x + 70) pre)
               + ((b + 70) + (lanes 8 post + lanes 8 (repeat 70 (length post))) * 2 ^ 8) * 2 ^ (8 * j)).
  { change SWAR_ADD with (lanes 8 (repeat 70 8)). rewrite Elen. rewrite lanes_const_split.
    rewrite lanes_map_add. rewrite map_const_repeat. rewrite Ek. fold j. ring. }
  (* the low lanes are in range: no borrow, no carry reaches lane j *)
  assert (Lx : 0 <= lanes 8 (map (fun x => x - 48) pre) < 2 ^ (8 * j)).
  { unfold j. rewrite <- (map_length (fun x => x - 48) pre). apply lanes_bounds; [lia|].
    apply Forall_map. eapply Forall_impl; [|exact Hpre]. intros a Ha. unfold isdig in Ha. unfold lane_ok.
    apply andb_true_iff in Ha. destruct Ha as [A1 A2]. apply Z.leb_le in A1, A2. change (2 ^ 8) with 256. lia. }
  assert (Ly : 0 <= lanes 8 (map (fun x => x + 70) pre) < 2 ^ (8 * j)).
  { unfold j. rewrite <- (map_length (fun x => x + 70) pre). apply lanes_bounds; [lia|].
    apply Forall_map. eapply Forall_impl; [|exact Hpre]. intros a Ha. unfold isdig in Ha. unfold lane_ok.
    apply andb_true_iff in Ha. destruct Ha as [A1 A2]. apply Z.leb_le in A1, A2. change (2 ^ 8) with 256. lia. }
  destruct (Z.eqb_spec (Z.land (Z.lor (wrap U64 (k - SWAR_SUB)) (wrap U64 (k + SWAR_ADD))) SWAR_HI) 0) as [E0|]; [exfalso|reflexivity].
  assert (Hbit : Z.testbit (Z.land (Z.lor (wrap U64 (k - SWAR_SUB)) (wrap U64 (k + SWAR_ADD))) SWAR_HI) (8 * j + 7) = true).
  { rewrite Z.land_spec, Z.lor_spec. rewrite hi_bit by lia. rewrite andb_true_r.
    change (wrap U64 (k - SWAR_SUB)) with ((k - SWAR_SUB) mod 2 ^ 64).
    change (wrap U64 (k + SWAR_ADD)) with ((k + SWAR_ADD) mod 2 ^ 64).
    rewrite Ex, Ey. rewrite !lane_bit7 by assumption.
    rewrite !Z_mod_plus_full. apply nondigit_bit7_spec; assumption. }
  rewrite E0 in Hbit. rewrite Z.bits_0 in Hbit. discriminate.
Qed.

Lemma lor_lt_128 a b : 0 <= a < 128 -> 0 <= b < 128 -> 0 <= Z.lor a b < 128.
Proof.
  intros Ha Hb.
  assert (El : Z.lor a b = Z.lor a b mod 2 ^ 7).
  { rewrite <- Z.land_ones by lia. rewrite Z.land_lor_distr_l. rewrite !Z.land_ones by lia.
    change (2 ^ 7) with 128. rewrite !Z.mod_small by lia. reflexivity. }
  rewrite El. change (2 ^ 7) with 128. apply Z.mod_pos_bound. lia.
Qed.

Lemma land_128_small v : 0 <= v < 128 -> Z.land v 128 = 0.
Proof. intros H. change 128 with (1 * 2 ^ 7). apply land_low_high; try lia; change (2 ^ 7) with 128; lia. Qed.

Lemma contains_true d0 d1 d2 d3 d4 d5 d6 d7 :
  0 <= d0 <= 9 -> 0 <= d1 <= 9 -> 0 <= d2 <= 9 -> 0 <= d3 <= 9 ->
  0 <= d4 <= 9 -> 0 <= d5 <= 9 -> 0 <= d6 <= 9 -> 0 <= d7 <= 9 ->
  chunk_contains_8_digits (lanes 8 [48 + d0; 48 + d1; 48 + d2; 48 + d3; 48 + d4; 48 + d5; 48 + d6; 48 + d7]) = true.
Proof.
  intros H0 H1 H2 H3 H4 H5 H6 H7. unfold chunk_contains_8_digits.
  set (k := lanes 8 [48 + d0; 48 + d1; 48 + d2; 48 + d3; 48 + d4; 48 + d5; 48 + d6; 48 + d7]).
  assert (Ex : k - SWAR_SUB = lanes 8 [d0; d1; d2; d3; d4; d5; d6; d7]).
  { change SWAR_SUB with (lanes 8 [48; 48; 48; 48; 48; 48; 48; 48]). unfold k. cbn [lanes]. ring. }
  assert (Ey : k + SWAR_ADD = lanes 8 [118 + d0; 118 + d1; 118 + d2; 118 + d3; 118 + d4; 118 + d5; 118 + d6; 118 + d7]).
  { change SWAR_ADD with (lanes 8 [70; 70; 70; 70; 70; 70; 70; 70]). unfold k. cbn [lanes]. ring. }
  rewrite Ex, Ey.
  pose proof (lanes_bounds 8 [d0; d1; d2; d3; d4; d5; d6; d7] ltac:(lia) ltac:(lanes_ok)) as Bx.
  pose proof (lanes_bounds 8 [118 + d0; 118 + d1; 118 + d2; 118 + d3; 118 + d4; 118 + d5; 118 + d6; 118 + d7] ltac:(lia) ltac:(lanes_ok)) as By.
  change (2 ^ (8 * Z.of_nat (length [d0; d1; d2; d3; d4; d5; d6; d7]))) with (2 ^ 64) in Bx.
  change (2 ^ (8 * Z.of_nat (length [118 + d0; 118 + d1; 118 + d2; 118 + d3; 118 + d4; 118 + d5; 118 + d6; 118 + d7]))) with (2 ^ 64) in By.
  rewrite !wrap_id by (apply in_range_iff; cbn [tmin tmax signed bits]; lia).
  rewrite lanes_lor by (try lia; try reflexivity; lanes_ok).
  cbn [combine map fst snd].
  change SWAR_HI with (lanes 8 [128; 128; 128; 128; 128; 128; 128; 128]).
  pose proof (lor_lt_128 d0 (118 + d0) ltac:(lia) ltac:(lia)). pose proof (lor_lt_128 d1 (118 + d1) ltac:(lia) ltac:(lia)).
  pose proof (lor_lt_128 d2 (118 + d2) ltac:(lia) ltac:(lia)). pose proof (lor_lt_128 d3 (118 + d3) ltac:(lia) ltac:(lia)).
  pose proof (lor_lt_128 d4 (118 + d4) ltac:(lia) ltac:(lia)). pose proof (lor_lt_128 d5 (118 + d5) ltac:(lia) ltac:(lia)).
  pose proof (lor_lt_128 d6 (118 + d6) ltac:(lia) ltac:(lia)). pose proof (lor_lt_128 d7 (118 + d7) ltac:(lia) ltac:(lia)).
  rewrite lanes_land by (try lia; try reflexivity; lanes_ok).
  cbn [combine map fst snd]. rewrite !land_128_small by assumption.
  reflexivity.
Qed.

(* the test is true exactly for eight ASCII digits, for every word of eight bytes *)
Lemma split_first_nondigit : forall l, forallb isdig l = false ->
  exists pre b post, l = pre ++ b :: post /\ Forall (fun x => isdig x = true) pre /\ isdig b = false.
Proof.
  induction l as [|a l IH]; intros H; [discriminate|]. cbn [forallb] in H.
  destruct (isdig a) eqn:Ea.
  - cbn [andb] in H. destruct (IH H) as (pre & b & post & E & Hp & Hb).
    exists (a :: pre), b, post. subst l. repeat split; try assumption. constructor; assumption.
  - exists [], a, l. repeat split; [constructor|assumption].
Qed.

Lemma isdig_digit b : isdig b = true -> exists d, b = 48 + d /\ 0 <= d <= 9.
Proof.
  unfold isdig. intros H. apply andb_true_iff in H. destruct H as [A B]. apply Z.leb_le in A, B.
  exists (b - 48). lia.
Qed.

Lemma contains_spec l : length l = 8%nat -> Forall byte_ok l ->
  chunk_contains_8_digits (lanes 8 l) = forallb isdig l.
Proof.
  intros Hlen Hb. destruct (forallb isdig l) eqn:F.
  - do 8 (destruct l as [|? l]; [discriminate|]). destruct l; [|discriminate].
    cbn [forallb] in F. repeat (apply andb_true_iff in F; destruct F as [? F]).
    repeat match goal with H : isdig _ = true |- _ => apply isdig_digit in H; destruct H as (? & -> & ?) end.
    apply contains_true; assumption.
  - destruct (split_first_nondigit l F) as (pre & b & post & E & Hp & Hnb). subst l.
    apply Forall_app in Hb. destruct Hb as [_ Hb]. inversion Hb; subst.
    apply contains_false; assumption.
Qed.
