(* MacroFacts.v — C18: the exponent folding of Dec! and of Decimal::from_str agree. *)
From FP Require Import Machine SrcConsts Pow10 Parser Out RunMore.
From FP Require Import MachineFacts Pow10Facts OutFacts.

(* same Ok value, or both an error (compile error for the macro) *)
Definition same_result (a b : res (pres dec)) : Prop :=
  match a, b with
  | Val (POk x), Val (POk y) => x = y
  | Val (PErr _), Val (PErr _) => True
  | _, _ => False
  end.

Lemma in_I64_iff z : in_range I64 z = true <-> - 2 ^ 63 <= z <= 2 ^ 63 - 1.
Proof. rewrite in_range_iff. reflexivity. Qed.

Lemma fold_agree pf c e :
  in_range I128 c = true -> - 2 ^ 63 < e < 2 ^ 63 ->
  same_result (macro_fold pf c e) (from_str_fold pf c e).
Proof.
  intros Hc He. unfold macro_fold, from_str_fold.
  unfold ck_neg. rewrite ck_ok by (apply in_I64_iff; lia). cbn [bind].
  change MAX_N_FRAC_DIGITS with 18. change MACRO_EXP_MAX with 38. change FROMSTR_EXP_MAX with 38.
  destruct (Z.gtb_spec (- e) 18); [exact I|].
  destruct (Z.gtb_spec e 38); [exact I|].
  destruct (Z.gtb_spec e 0) as [Hpos|Hnp].
  - destruct (Z.ltb_spec e 0); [lia|].
    assert (Hu32 : cast U32 e = e) by (apply cast_id; apply in_range_iff; cbn; lia).
    assert (Hu8 : cast U8 e = e) by (apply cast_id; apply in_range_iff; cbn; lia).
    rewrite Hu32, Hu8.
    assert (Hp : in_range I128 (10 ^ e) = true).
    { apply in_I128_iff. pose proof (pow10_pos e ltac:(lia)). pose proof (pow10_le_38 e ltac:(lia)).
      pose proof pow10_38_lt. lia. }
    rewrite ck_ok by exact Hp. cbn [bind].
    rewrite checked_mul_pow_ten_ok by lia. cbn [bind]. unfold checked.
    destruct (in_range I128 (c * 10 ^ e)); cbn; auto.
  - destruct (Z.ltb_spec e 0) as [Hneg|Hz].
    + cbn. reflexivity.
    + assert (e = 0) by lia. subst e. cbn [Z.opp].
      rewrite (cast_id U8 0) by reflexivity.
      rewrite checked_mul_pow_ten_ok by lia. cbn [bind]. unfold checked.
      change (10 ^ 0) with 1. rewrite Z.mul_1_r, Hc. cbn. reflexivity.
Qed.

(* Dec!(lit) and from_str(lit) consume the same str_to_dec and fold alike *)
Lemma macro_agrees pf s :
  (forall c e, str_to_dec pf (strip_sign_blank s) = Val (POk (c, e)) ->
               in_range I128 c = true /\ - 2 ^ 63 < e < 2 ^ 63) ->
  (exists r, str_to_dec pf (strip_sign_blank s) = Val r) ->
  same_result (dec_macro pf s) (from_str pf (strip_sign_blank s)).
Proof.
  intros Hr [r Hs]. unfold dec_macro, from_str. rewrite Hs. cbn [bind].
  destruct r as [[c e]|err]; [|exact I].
  destruct (Hr c e Hs) as [Hc He]. apply fold_agree; assumption.
Qed.

Lemma strip_sign_blank_spec sg rest :
  (sg = 45 \/ sg = 43) -> strip_sign_blank (sg :: 32 :: rest) = sg :: rest.
Proof. intros [-> | ->]; reflexivity. Qed.

