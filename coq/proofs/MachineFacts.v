(* MachineFacts.v — lemmas about the machine layer. *)
From FP Require Import Machine.

Lemma tmin_I128 : tmin I128 = - 2 ^ 127. Proof. reflexivity. Qed.
Lemma tmax_I128 : tmax I128 = 2 ^ 127 - 1. Proof. reflexivity. Qed.
Lemma tmin_U128 : tmin U128 = 0. Proof. reflexivity. Qed.
Lemma tmax_U128 : tmax U128 = 2 ^ 128 - 1. Proof. reflexivity. Qed.

Lemma in_range_iff t z : in_range t z = true <-> tmin t <= z <= tmax t.
Proof. unfold in_range. rewrite andb_true_iff, !Z.leb_le. tauto. Qed.

Lemma in_range_false_iff t z : in_range t z = false <-> (z < tmin t \/ tmax t < z).
Proof.
  unfold in_range. rewrite andb_false_iff, !Z.leb_gt. tauto.
Qed.

Lemma in_I128_iff z : in_range I128 z = true <-> - 2 ^ 127 <= z <= 2 ^ 127 - 1.
Proof. rewrite in_range_iff. reflexivity. Qed.

Lemma in_U128_iff z : in_range U128 z = true <-> 0 <= z <= 2 ^ 128 - 1.
Proof. rewrite in_range_iff. reflexivity. Qed.

Lemma ck_ok pf t z : in_range t z = true -> ck pf t z = Val z.
Proof. unfold ck. intros ->. reflexivity. Qed.

Lemma checked_ok t z : in_range t z = true -> checked t z = Some z.
Proof. unfold checked. intros ->. reflexivity. Qed.

Lemma checked_none t z : in_range t z = false -> checked t z = None.
Proof. unfold checked. intros ->. reflexivity. Qed.

Lemma wrap_id t z : in_range t z = true -> wrap t z = z.
Proof.
  intros H. apply in_range_iff in H. unfold wrap, tmin, tmax in *.
  assert (Hb : 0 < bits t) by (destruct t; reflexivity).
  assert (Hp : 2 ^ bits t = 2 * 2 ^ (bits t - 1)).
  { rewrite <- Z.pow_succ_r by lia. f_equal. lia. }
  destruct (signed t).
  - rewrite Z.mod_small by lia. lia.
  - rewrite Z.mod_small by lia. lia.
Qed.

Lemma cast_id t z : in_range t z = true -> cast t z = z.
Proof. apply wrap_id. Qed.

Lemma wf_iff d : wf d = true <-> (- MAXC <= coeff d <= MAXC /\ 0 <= nfd d <= 18).
Proof. unfold wf. rewrite !andb_true_iff, !Z.leb_le. tauto. Qed.

Lemma MAXC_val : MAXC = 170141183460469231731687303715884105727.
Proof. reflexivity. Qed.

Lemma pow2_127 : 2 ^ 127 = 170141183460469231731687303715884105728.
Proof. reflexivity. Qed.
Lemma pow2_128 : 2 ^ 128 = 340282366920938463463374607431768211456.
Proof. reflexivity. Qed.

Lemma t_div_ok a b : b <> 0 -> (a <> - 2 ^ 127 \/ b <> -1) -> t_div I128 a b = Val (Z.quot a b).
Proof.
  intros Hb H. unfold t_div. destruct (Z.eqb_spec b 0); [contradiction|].
  cbn [signed andb]. rewrite tmin_I128.
  destruct (Z.eqb_spec a (- 2 ^ 127)); destruct (Z.eqb_spec b (-1)); cbn; try reflexivity.
  lia.
Qed.

Lemma t_rem_ok a b : b <> 0 -> (a <> - 2 ^ 127 \/ b <> -1) -> t_rem I128 a b = Val (Z.rem a b).
Proof.
  intros Hb H. unfold t_rem. destruct (Z.eqb_spec b 0); [contradiction|].
  cbn [signed andb]. rewrite tmin_I128.
  destruct (Z.eqb_spec a (- 2 ^ 127)); destruct (Z.eqb_spec b (-1)); cbn; try reflexivity.
  lia.
Qed.

Lemma wf_in_range d : wf d = true -> in_range I128 (coeff d) = true.
Proof.
  intros H. apply wf_iff in H. apply in_I128_iff. rewrite MAXC_val in H. rewrite pow2_127. lia.
Qed.
