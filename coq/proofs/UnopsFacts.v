(* UnopsFacts.v — C14, C15: conversions to integers, floor/ceil/trunc/fract/abs/neg,
   sign predicates. (magnitude: MagnitudeFacts.v) *)
From FP Require Import Machine SrcConsts Pow10 Arith Cmp Unops IntForms RoundSpec Out ArithSpec Run.
From FP Require Import MachineFacts Pow10Facts OutFacts.

Lemma wf_bounds d : wf d = true ->
  - 2 ^ 127 < coeff d < 2 ^ 127 /\ 0 <= nfd d <= 18.
Proof. intros H. apply wf_iff in H. rewrite MAXC_val in H. rewrite pow2_127. lia. Qed.

Lemma quot_rem_exact c t : 0 < t -> Z.rem c t = 0 -> c mod t = 0 /\ Z.quot c t = c / t.
Proof.
  intros Ht Hr. pose proof (Z.quot_rem' c t) as E. rewrite Hr in E.
  assert (c = t * Z.quot c t) by lia.
  assert (Hm : c mod t = 0).
  { rewrite H. rewrite Z.mul_comm. apply Z_mod_mult. }
  split; [exact Hm|].
  rewrite H at 2. rewrite Z.mul_comm. rewrite Z_div_mult by lia. reflexivity.
Qed.

Lemma rem_nonzero_mod c t : 0 < t -> Z.rem c t <> 0 -> c mod t <> 0.
Proof.
  intros Ht Hr Hm. apply Hr. apply Z.rem_divide; [lia|]. apply Z.mod_divide; [lia|exact Hm].
Qed.

Lemma to_int_model_spec t d : wf d = true ->
  out_toint (to_int t d) = out_toint_s (to_int_spec t d).
Proof.
  intros Hd. destruct (wf_bounds _ Hd) as [Hc Hp].
  unfold to_int, to_i128, to_int_spec.
  destruct (Z.eqb_spec (nfd d) 0) as [E0|E0]; cbn [orb].
  - rewrite E0. change (10 ^ 0) with 1. rewrite Z.mod_1_r, Z.div_1_r. cbn [Z.eqb bind].
    destruct (in_range t (coeff d)); reflexivity.
  - destruct (Z.eqb_spec (coeff d) 0) as [Ec|Ec].
    + rewrite Ec. rewrite Z.mod_0_l, Z.div_0_l by (apply Z.pow_nonzero; lia). cbn [Z.eqb bind].
      destruct (in_range t 0); reflexivity.
    + rewrite ten_pow_ok by lia. cbn [bind].
      pose proof (pow10_pos (nfd d) ltac:(lia)) as Ht.
      rewrite t_rem_ok by lia. cbn [bind].
      destruct (Z.eqb_spec (Z.rem (coeff d) (10 ^ nfd d)) 0) as [Hr|Hr].
      * destruct (quot_rem_exact _ _ Ht Hr) as [Hm Hq].
        rewrite t_div_ok by lia. cbn [bind]. rewrite Hm, Hq. cbn [Z.eqb].
        destruct (in_range t (coeff d / 10 ^ nfd d)); reflexivity.
      * pose proof (rem_nonzero_mod _ _ Ht Hr) as Hm.
        destruct (Z.eqb_spec (coeff d mod 10 ^ nfd d) 0); [contradiction|]. reflexivity.
Qed.

Lemma div_floor_ok pf c t :
  - 2 ^ 127 < c < 2 ^ 127 -> 0 < t < 2 ^ 127 -> div_floor pf c t = Val (c / t).
Proof.
  intros Hc Ht. unfold div_floor. rewrite t_div_ok, t_rem_ok by lia. cbn [bind].
  pose proof (Z.quot_rem' c t) as E.
  pose proof (Z.rem_bound_abs c t ltac:(lia)) as B.
  pose proof (Z.rem_sign_mul c t ltac:(lia)) as S.
  pose proof (Z.div_mod c t ltac:(lia)) as E'.
  pose proof (Z.mod_pos_bound c t ltac:(lia)) as B'.
  set (q := Z.quot c t) in *. set (r := Z.rem c t) in *.
  set (q' := c / t) in *. set (r' := c mod t) in *.
  destruct (Z.ltb_spec t 0); [lia|]. rewrite andb_false_r. cbn [orb].
  destruct (Z.gtb_spec t 0); [|lia]. rewrite andb_true_r.
  destruct (Z.ltb_spec r 0).
  - assert (t * (q' - q) = r - r') by lia. assert (q' = q - 1) by nia.
    unfold ck_sub. rewrite ck_ok; [congruence|]. apply in_I128_iff.
    assert (- 2 ^ 127 <= q) by nia. assert (q <= 2 ^ 127) by nia. lia.
  - assert (t * (q' - q) = r - r') by lia. assert (q' = q) by nia. congruence.
Qed.

Lemma div_ceil_ok pf c t :
  - 2 ^ 127 < c < 2 ^ 127 -> 0 < t < 2 ^ 127 -> div_ceil pf c t = Val (- ((- c) / t)).
Proof.
  intros Hc Ht. unfold div_ceil. rewrite t_div_ok, t_rem_ok by lia. cbn [bind].
  pose proof (Z.quot_rem' c t) as E.
  pose proof (Z.rem_bound_abs c t ltac:(lia)) as B.
  pose proof (Z.rem_sign_mul c t ltac:(lia)) as S.
  pose proof (Z.div_mod (- c) t ltac:(lia)) as E'.
  pose proof (Z.mod_pos_bound (- c) t ltac:(lia)) as B'.
  set (q := Z.quot c t) in *. set (r := Z.rem c t) in *.
  set (q' := (- c) / t) in *. set (r' := (- c) mod t) in *.
  destruct (Z.ltb_spec t 0); [lia|]. rewrite andb_false_r, orb_false_r.
  destruct (Z.gtb_spec t 0); [|lia]. rewrite andb_true_r.
  destruct (Z.gtb_spec r 0).
  - assert (t * (q' + q) = - r - r') by lia. assert (q' = - q - 1) by nia.
    unfold ck_add. rewrite ck_ok; [f_equal; lia|]. apply in_I128_iff.
    assert (- 2 ^ 127 <= q) by nia. assert (q < 2 ^ 127 - 1) by nia. lia.
  - assert (t * (q' + q) = - r - r') by lia. assert (q' = - q) by nia. f_equal. lia.
Qed.

Lemma unops_acc pf m op d :
  wf d = true ->
  In op [Ufloor; Uceil; Utrunc; Ufract; Uabs; Uneg; Uiszero; Uisone; Uisneg; Uispos] ->
  acc_un m op d 0 (run_un pf m op d 0) = true.
Proof.
  intros Hd Hop. destruct (wf_bounds _ Hd) as [Hc Hp].
  pose proof (pow10_pos (nfd d) ltac:(lia)) as Ht.
  assert (Ht' : 10 ^ nfd d < 2 ^ 127).
  { pose proof (pow10_le_38 (nfd d) ltac:(lia)). pose proof pow10_38_lt. lia. }
  cbn in Hop.
  repeat (destruct Hop as [<-|Hop]); try contradiction; cbn [acc_un run_un].
  - unfold dec_floor, floor_spec. destruct (Z.eqb_spec (nfd d) 0) as [E|E].
    + cbn. rewrite E. change (10 ^ 0) with 1. rewrite Z.div_1_r. unfold dec_eqb. cbn.
      rewrite E, !Z.eqb_refl. reflexivity.
    + rewrite ten_pow_ok by lia. cbn [bind]. rewrite div_floor_ok by lia. cbn. apply dec_eqb_refl.
  - unfold dec_ceil, ceil_spec. destruct (Z.eqb_spec (nfd d) 0) as [E|E].
    + cbn. rewrite E. change (10 ^ 0) with 1. rewrite Z.div_1_r. unfold dec_eqb. cbn.
      rewrite E, Z.opp_involutive, !Z.eqb_refl. reflexivity.
    + rewrite ten_pow_ok by lia. cbn [bind]. rewrite div_ceil_ok by lia. cbn. apply dec_eqb_refl.
  - unfold dec_trunc, trunc_spec. destruct (Z.eqb_spec (nfd d) 0) as [E|E].
    + cbn. rewrite E. change (10 ^ 0) with 1. rewrite Z.quot_1_r. unfold dec_eqb. cbn.
      rewrite E, !Z.eqb_refl. reflexivity.
    + rewrite ten_pow_ok by lia. cbn [bind]. rewrite t_div_ok by lia. cbn. apply dec_eqb_refl.
  - unfold dec_fract, fract_spec. destruct (Z.eqb_spec (nfd d) 0) as [E|E].
    + cbn. reflexivity.
    + rewrite ten_pow_ok by lia. cbn [bind]. rewrite t_rem_ok by lia. cbn. apply dec_eqb_refl.
  - unfold dec_abs, ck_abs. rewrite ck_ok by (apply in_I128_iff; lia). cbn. apply dec_eqb_refl.
  - unfold dec_neg, ck_neg. rewrite ck_ok by (apply in_I128_iff; lia). cbn. apply dec_eqb_refl.
  - unfold eq_zero, is_zero. apply out_eqb_refl.
  - unfold eq_one, is_one. rewrite ten_pow_ok by lia. cbn. apply Bool.eqb_reflx.
  - unfold is_negative. apply out_eqb_refl.
  - unfold is_positive. cbn. rewrite Z.gtb_ltb. apply Bool.eqb_reflx.
Qed.

Lemma toint_acc pf m t d : wf d = true ->
  acc_un m (Utoint t) d 0 (run_un pf m (Utoint t) d 0) = true.
Proof.
  intros Hd. cbn [acc_un run_un]. rewrite to_int_model_spec by assumption. apply out_eqb_refl.
Qed.

Lemma fromint_acc i : acc_fromint i (run_fromint i) = true.
Proof. unfold acc_fromint, run_fromint, from_int. apply out_eqb_refl. Qed.

Lemma fromu128_acc u : 0 <= u -> acc_fromu128 u (run_fromu128 u) = true.
Proof.
  intros Hu. unfold acc_fromu128, run_fromu128, try_from_u128, from_int.
  destruct (in_range I128 u) eqn:R.
  - apply in_I128_iff in R. rewrite MAXC_val. rewrite pow2_127 in R.
    destruct (Z.leb_spec u 170141183460469231731687303715884105727); [apply out_eqb_refl|lia].
  - apply in_range_false_iff in R. rewrite tmin_I128, tmax_I128, pow2_127 in R. rewrite MAXC_val.
    destruct (Z.leb_spec u 170141183460469231731687303715884105727); [lia|apply out_eqb_refl].
Qed.
