(* ParserFacts.v — C06: the parser against the literal grammar. *)
From FP Require Import Machine SrcConsts Pow10 Parser RoundSpec Out ArithSpec StringSpec Run RunMore.
From FP Require Import MachineFacts Pow10Facts OutFacts SwarFacts.

Local Open Scope Z_scope.

(* ---- digits, as the specification sees them ---- *)
Definition dv (acc : Z) (ds : list Z) : Z := fold_left (fun a d => a * 10 + d) ds acc.

Lemma dv_app acc a b : dv acc (a ++ b) = dv (dv acc a) b.
Proof. unfold dv. apply fold_left_app. Qed.

Lemma dv_mono acc ds : 0 <= acc -> Forall (fun d => 0 <= d <= 9) ds -> acc <= dv acc ds.
Proof.
  intros Ha H. revert acc Ha. induction H as [|d ds Hd Hds IH]; intros acc Ha; cbn [dv fold_left]; [lia|].
  fold (dv (acc * 10 + d) ds). specialize (IH (acc * 10 + d) ltac:(lia)). lia.
Qed.

Lemma digits_value_dv ds : digits_value ds = dv 0 ds.
Proof. reflexivity. Qed.

Lemma dv_scale acc ds : dv acc ds = acc * 10 ^ Z.of_nat (length ds) + dv 0 ds.
Proof.
  revert acc. induction ds as [|d ds IH]; intros acc; cbn [dv fold_left length].
  - cbn. lia.
  - fold (dv (acc * 10 + d) ds). fold (dv (0 * 10 + d) ds). rewrite (IH (acc * 10 + d)), (IH (0 * 10 + d)).
    rewrite Nat2Z.inj_succ, Z.pow_succ_r by lia. ring.
Qed.

Lemma take_digits_digits s : Forall (fun d => 0 <= d <= 9) (fst (take_digits s)).
Proof.
  induction s as [|b s IH]; cbn [take_digits]; [constructor|].
  unfold digit_val. destruct ((48 <=? b) && (b <=? 57)) eqn:E; [|constructor].
  destruct (take_digits s) as [ds r]. cbn [fst] in *. constructor; [|exact IH].
  apply andb_true_iff in E. destruct E as [A B]. apply Z.leb_le in A, B. lia.
Qed.

(* the byte test of the code: c.wrapping_sub(b'0') < 10 *)
Lemma digit_test b : byte_ok b ->
  (wrap U8 (b - B_0) <? 10) = isdig b /\ (isdig b = true -> wrap U8 (b - B_0) = b - 48).
Proof.
  intros Hb. unfold byte_ok in Hb. unfold isdig, B_0. change (wrap U8 (b - 48)) with ((b - 48) mod 2 ^ 8).
  change (2 ^ 8) with 256.
  destruct (Z_lt_le_dec b 48) as [L|G].
  - replace ((b - 48) mod 256) with (b + 208) by (apply (Z.mod_unique_pos _ 256 (-1)); lia).
    split; [|intros H; apply andb_true_iff in H; destruct H as [H _]; apply Z.leb_le in H; lia].
    destruct (Z.ltb_spec (b + 208) 10); [lia|]. destruct (Z.leb_spec 48 b); [lia|reflexivity].
  - rewrite Z.mod_small by lia. split; [|reflexivity].
    destruct (Z.ltb_spec (b - 48) 10); destruct (Z.leb_spec 48 b); destruct (Z.leb_spec b 57); try lia; reflexivity.
Qed.

Lemma digit_val_isdig b : digit_val b = if isdig b then Some (b - 48) else None.
Proof. reflexivity. Qed.

(* ---- the overflow-tracking accumulator ---- *)
Definition Inv (V c : Z) (o : bool) : Prop :=
  0 <= c < 2 ^ 128 /\ 0 <= V /\ (if o then 2 ^ 128 <= V else c = V).

Lemma ovf_step V c o mul add :
  Inv V c o -> 1 <= mul -> 0 <= add ->
  let '(c', o') := ovf_mul_add c mul add o in Inv (V * mul + add) c' o'.
Proof.
  intros (Hc & HV & Ho) Hm Ha. unfold ovf_mul_add.
  assert (Hw : forall z, 0 <= wrap U128 z < 2 ^ 128) by (intros z; apply Z.mod_pos_bound; lia).
  unfold Inv. split; [apply Hw|]. split; [nia|].
  destruct o.
  - cbn [orb]. nia.
  - subst c. cbn [orb].
    destruct (in_range U128 (V * mul)) eqn:R1; cbn [negb orb].
    + rewrite (wrap_id U128 (V * mul)) by assumption.
      destruct (in_range U128 (V * mul + add)) eqn:R2; cbn [negb].
      * apply wrap_id. assumption.
      * apply in_range_false_iff in R2. rewrite tmin_U128, tmax_U128 in R2. nia.
    + apply in_range_false_iff in R1. rewrite tmin_U128, tmax_U128 in R1. nia.
Qed.

(* ---- accum_coeff: second loop (one digit at a time) ---- *)
Lemma accum_digits_spec : forall s c o n V,
  Forall byte_ok s -> Inv V c o ->
  exists c' o', accum_digits s c o n = (snd (take_digits s), c', o', n + Z.of_nat (length (fst (take_digits s)))) /\
                Inv (dv V (fst (take_digits s))) c' o'.
Proof.
  induction s as [|b s IH]; intros c o n V Hb HI.
  - exists c, o. cbn. rewrite Z.add_0_r. auto.
  - inversion Hb as [|? ? Hb0 Hbs]; subst.
    cbn [accum_digits take_digits]. rewrite digit_val_isdig.
    destruct (digit_test b Hb0) as [T1 T2]. rewrite T1.
    destruct (isdig b) eqn:Ed.
    + rewrite (T2 eq_refl).
      pose proof (isdig_digit b Ed) as (d & Eb & Hd).
      pose proof (ovf_step V c o 10 (b - 48) HI ltac:(lia) ltac:(lia)) as HS.
      destruct (ovf_mul_add c 10 (b - 48) o) as [c1 o1].
      destruct (IH c1 o1 (n + 1) (V * 10 + (b - 48)) Hbs HS) as (c' & o' & E & HI').
      destruct (take_digits s) as [ds r]. cbn [fst snd] in *.
      exists c', o'. split; [|exact HI'].
      rewrite E. cbn [length]. rewrite Nat2Z.inj_succ. f_equal. lia.
    + exists c, o. cbn. rewrite Z.add_0_r. auto.
Qed.

(* ---- first loop (chunks of eight digits, SWAR) ---- *)
Lemma take_digits_app_digits pre s :
  Forall (fun x => isdig x = true) pre ->
  take_digits (pre ++ s) = (map (fun b => b - 48) pre ++ fst (take_digits s), snd (take_digits s)).
Proof.
  intros H. induction H as [|b pre Hb Hpre IH]; cbn [app map take_digits].
  - destruct (take_digits s); reflexivity.
  - rewrite digit_val_isdig, Hb, IH. reflexivity.
Qed.

Lemma dv8 V d0 d1 d2 d3 d4 d5 d6 d7 :
  dv V [d0; d1; d2; d3; d4; d5; d6; d7] =
  V * 100000000 + (d0 * 10 ^ 7 + d1 * 10 ^ 6 + d2 * 10 ^ 5 + d3 * 10 ^ 4 + d4 * 10 ^ 3 + d5 * 10 ^ 2 + d6 * 10 + d7).
Proof. cbn [dv fold_left]. ring. Qed.

Lemma accum_chunks_spec : forall fuel s c o n V,
  Forall byte_ok s -> Inv V c o ->
  exists pre s' c' o',
    accum_chunks fuel s c o n = Val (s', c', o', n + Z.of_nat (length pre)) /\
    s = pre ++ s' /\ Forall (fun x => isdig x = true) pre /\
    Inv (dv V (map (fun b => b - 48) pre)) c' o'.
Proof.
  induction fuel as [|f IH]; intros s c o n V Hb HI.
  - exists [], s, c, o. cbn [accum_chunks length app map dv fold_left]. rewrite Z.add_0_r. split; [reflexivity|]. split; [reflexivity|]. split; [constructor|exact HI].
  - cbn [accum_chunks].
    destruct s as [|b0 [|b1 [|b2 [|b3 [|b4 [|b5 [|b6 [|b7 rest]]]]]]]];
      try (eexists [], _, c, o; cbn [read_u64 length app map dv fold_left]; rewrite Z.add_0_r; split; [reflexivity|]; split; [reflexivity|]; split; [constructor|exact HI]).
    rewrite read_u64_lanes.
    change (b0 :: b1 :: b2 :: b3 :: b4 :: b5 :: b6 :: b7 :: rest) with ([b0; b1; b2; b3; b4; b5; b6; b7] ++ rest) in Hb.
    apply Forall_app in Hb. destruct Hb as [Hb8 Hrest].
    rewrite contains_spec by (reflexivity || assumption).
    destruct (forallb isdig [b0; b1; b2; b3; b4; b5; b6; b7]) eqn:F.
    + pose proof F as F'. cbn [forallb] in F'. repeat (apply andb_true_iff in F'; destruct F' as [? F']).
      assert (Hpre : Forall (fun x => isdig x = true) [b0; b1; b2; b3; b4; b5; b6; b7]) by (repeat constructor; assumption).
      repeat match goal with H : isdig _ = true |- _ => apply isdig_digit in H; destruct H as (? & -> & ?) end.
      rewrite chunk_to_u64_digits by assumption.
      match goal with |- context [ovf_mul_add c CHUNK_MUL ?v o] => set (val := v) end.
      assert (Hval : 0 <= val) by (unfold val; lia).
      pose proof (ovf_step V c o CHUNK_MUL val HI ltac:(change CHUNK_MUL with 100000000; lia) Hval) as HS.
      destruct (ovf_mul_add c CHUNK_MUL val o) as [c1 o1].
      cbn [skip_n bind].
      destruct (IH rest c1 o1 (n + 8) (V * CHUNK_MUL + val) Hrest HS) as (pre & s' & c' & o' & E & Es & Hp & HI').
      eexists (_ :: _ :: _ :: _ :: _ :: _ :: _ :: _ :: pre), s', c', o'.
      split; [rewrite E; cbn [length]; rewrite !Nat2Z.inj_succ; do 2 f_equal; lia|].
      split; [cbn [app]; rewrite Es; reflexivity|].
      split; [assert (HF : Forall (fun x => isdig x = true) ([48 + x6; 48 + x5; 48 + x4; 48 + x3; 48 + x2; 48 + x1; 48 + x0; 48 + x] ++ pre)) by (apply Forall_app; split; assumption); exact HF|].
      cbn [map]. 
      match goal with |- Inv (dv V (?a0 :: ?a1 :: ?a2 :: ?a3 :: ?a4 :: ?a5 :: ?a6 :: ?a7 :: ?t)) _ _ =>
        change (a0 :: a1 :: a2 :: a3 :: a4 :: a5 :: a6 :: a7 :: t) with ([a0; a1; a2; a3; a4; a5; a6; a7] ++ t) end.
      rewrite dv_app, dv8.
      replace (48 + x - 48) with x by lia. replace (48 + x0 - 48) with x0 by lia. replace (48 + x1 - 48) with x1 by lia.
      replace (48 + x2 - 48) with x2 by lia. replace (48 + x3 - 48) with x3 by lia. replace (48 + x4 - 48) with x4 by lia.
      replace (48 + x5 - 48) with x5 by lia. replace (48 + x6 - 48) with x6 by lia.
      change CHUNK_MUL with 100000000 in HI'. exact HI'.
    + exists [], (b0 :: b1 :: b2 :: b3 :: b4 :: b5 :: b6 :: b7 :: rest), c, o. cbn [length app map dv fold_left]. rewrite Z.add_0_r. split; [reflexivity|]. split; [reflexivity|]. split; [constructor|exact HI].
Qed.

Lemma accum_coeff_spec s c o V :
  Forall byte_ok s -> Inv V c o ->
  exists c' o', accum_coeff s c o = Val (snd (take_digits s), c', o', Z.of_nat (length (fst (take_digits s)))) /\
                Inv (dv V (fst (take_digits s))) c' o'.
Proof.
  intros Hb HI. unfold accum_coeff.
  destruct (accum_chunks_spec (length s) s c o 0 V Hb HI) as (pre & s' & c1 & o1 & E & Es & Hp & HI1).
  rewrite E. cbn [bind].
  assert (Hb' : Forall byte_ok s') by (rewrite Es in Hb; apply Forall_app in Hb; tauto).
  destruct (accum_digits_spec s' c1 o1 (0 + Z.of_nat (length pre)) _ Hb' HI1) as (c' & o' & E2 & HI2).
  exists c', o'. rewrite E2. rewrite Es at 1 2. rewrite take_digits_app_digits by exact Hp. cbn [fst snd].
  split.
  - rewrite app_length, map_length, Nat2Z.inj_add. repeat f_equal; try lia.
  - rewrite Es. rewrite take_digits_app_digits by exact Hp. cbn [fst]. rewrite dv_app. exact HI2.
Qed.

(* ---- accum_exp ---- *)
Lemma accum_exp_spec : forall s exp n,
  Forall byte_ok s -> 0 <= exp <= 200000000 ->
  exists exp', accum_exp s exp n = (snd (take_digits s), exp', n + Z.of_nat (length (fst (take_digits s)))) /\
               0 <= exp' <= 200000000 /\
               (dv exp (fst (take_digits s)) < EXP_CLAMP -> exp' = dv exp (fst (take_digits s))).
Proof.
  induction s as [|b s IH]; intros exp n Hb He.
  - exists exp. cbn. rewrite Z.add_0_r. auto.
  - inversion Hb as [|? ? Hb0 Hbs]; subst.
    cbn [accum_exp take_digits]. rewrite digit_val_isdig.
    destruct (digit_test b Hb0) as [T1 T2]. rewrite T1.
    destruct (isdig b) eqn:Ed.
    + rewrite (T2 eq_refl). pose proof (isdig_digit b Ed) as (d & Eb & Hd).
      change EXP_CLAMP with 16777216.
      set (exp1 := if exp <? 16777216 then wrap I64 (wrap I64 (exp * 10) + (b - 48)) else exp).
      assert (H1 : 0 <= exp1 <= 200000000 /\ (exp < 16777216 -> exp1 = exp * 10 + (b - 48))).
      { unfold exp1. destruct (Z.ltb_spec exp 16777216).
        - rewrite (wrap_id I64 (exp * 10)) by (apply in_range_iff; cbn [tmin tmax signed bits]; lia).
          rewrite wrap_id by (apply in_range_iff; cbn [tmin tmax signed bits]; lia). split; [lia|auto].
        - split; [lia|intros; lia]. }
      destruct H1 as [B1 E1].
      destruct (IH exp1 (n + 1) Hbs B1) as (exp' & E & B & F).
      destruct (take_digits s) as [ds r] eqn:Etd. cbn [fst snd] in *.
      exists exp'. split; [|split; [exact B|]].
      * rewrite E. cbn [length]. rewrite Nat2Z.inj_succ. f_equal. lia.
      * intros Hlt. cbn [dv fold_left] in Hlt |- *. fold (dv (exp * 10 + (b - 48)) ds) in Hlt |- *.
        assert (Hds : Forall (fun d => 0 <= d <= 9) ds).
        { pose proof (take_digits_digits s) as P. rewrite Etd in P. exact P. }
        pose proof (dv_mono (exp * 10 + (b - 48)) ds ltac:(lia) Hds).
        assert (exp < 16777216) by lia.
        rewrite <- (E1 H0) in *. apply F. exact Hlt.
    + exists exp. cbn. rewrite Z.add_0_r. auto.
Qed.

Lemma skip_leading_zeroes_len s : (length (skip_leading_zeroes s) <= length s)%nat.
Proof. induction s as [|b s IH]; cbn; [lia|]. destruct (b =? B_0); cbn; lia. Qed.

Lemma skip_leading_zeroes_bytes s : Forall byte_ok s -> Forall byte_ok (skip_leading_zeroes s).
Proof.
  intros H. induction H as [|b s Hb Hs IH]; cbn; [constructor|]. destruct (b =? B_0); [exact IH|constructor; assumption].
Qed.

(* ---- a functional reference for str_to_dec, over take_digits ---- *)
Definition exp_part (s4 : list Z) : pres (list Z * Z) :=
  match s4 with
  | [] => POk ([], 0)
  | c :: s4' =>
      if (c =? B_e) || (c =? B_E) then
        match s4' with
        | [] => PErr PInvalid
        | c2 :: s5' =>
            let '(eneg, s5) := if c2 =? B_MINUS then (true, s5') else if c2 =? B_PLUS then (false, s5') else (false, s4') in
            let '(ed, s6) := take_digits s5 in
            if Z.of_nat (length ed) =? 0 then PErr PInvalid
            else if Z.of_nat (length ed) >? EXP_MAX_DIGITS then PErr PFracLimit
            else POk (s6, if eneg : bool then - dv 0 ed else dv 0 ed)
        end
      else PErr PInvalid
  end.

Definition core (s : list Z) : pres (Z * Z) :=
  match s with
  | [] => PErr PEmpty
  | c :: rest =>
      let '(neg, s1) := if c =? B_MINUS then (true, rest) else if c =? B_PLUS then (false, rest) else (false, s) in
      match s1 with
      | [] => PErr PInvalid
      | _ =>
          let s2 := skip_leading_zeroes s1 in
          match s2 with
          | [] => POk (0, 0)
          | _ =>
              let nlz := len s1 - len s2 in
              let '(ip, s3) := take_digits s2 in
              let '(fp, s4) := match s3 with
                               | c :: s3' => if c =? B_DOT then take_digits s3' else ([], s3)
                               | [] => ([], s3)
                               end in
              if nlz + Z.of_nat (length ip) + Z.of_nat (length fp) =? 0 then PErr PInvalid else
              let D := dv 0 (ip ++ fp) in
              if MAXC <? D then PErr POverflow else
              match exp_part s4 with
              | PErr e => PErr e
              | POk (s7, exp) =>
                  match s7 with
                  | _ :: _ => PErr PInvalid
                  | [] =>
                      let e := exp - Z.of_nat (length fp) in
                      if - e >? MAX_N_FRAC_DIGITS then PErr PFracLimit
                      else POk (if neg : bool then - D else D, e)
                  end
              end
          end
      end
  end.

Lemma in_U64 z : 0 <= z < 2 ^ 64 -> in_range U64 z = true.
Proof. intros. apply in_range_iff. cbn [tmin tmax signed bits]. lia. Qed.
Lemma in_I64 z : - 2 ^ 63 <= z < 2 ^ 63 -> in_range I64 z = true.
Proof. intros. apply in_range_iff. cbn [tmin tmax signed bits]. lia. Qed.

Lemma exp_part_model pf s4 :
  Forall byte_ok s4 ->
  (match s4 with
   | [] => Val (POk (s4, 0))
   | c :: s4' =>
       if (c =? B_e) || (c =? B_E) then
         match s4' with
         | [] => Val (PErr PInvalid)
         | c2 :: s5' =>
             let '(exp_neg, s5) :=
               if c2 =? B_MINUS then (true, s5') else if c2 =? B_PLUS then (false, s5') else (false, s4') in
             let '(s6, exp, n_exp) := accum_exp s5 0 0 in
             if n_exp =? 0 then Val (PErr PInvalid) else
             exp <- (if exp_neg : bool then ck_neg pf I64 exp else Val exp) ;;
             if n_exp >? EXP_MAX_DIGITS then Val (PErr PFracLimit) else Val (POk (s6, exp))
         end
       else Val (PErr PInvalid)
   end) = Val (exp_part s4) /\
  (forall s7 e, exp_part s4 = POk (s7, e) -> -99 <= e <= 99).
Proof.
  intros Hb. destruct s4 as [|c s4']; [split; [reflexivity|intros ? ? E; injection E as <- <-; lia]|].
  cbn [exp_part]. destruct ((c =? B_e) || (c =? B_E)); [|split; [reflexivity|discriminate]].
  destruct s4' as [|c2 s5']; [split; [reflexivity|discriminate]|].
  inversion Hb as [|? ? _ Hb1]; subst. inversion Hb1 as [|? ? _ Hb2]; subst.
  set (p := if c2 =? B_MINUS then (true, s5') else if c2 =? B_PLUS then (false, s5') else (false, c2 :: s5')).
  assert (Hp : Forall byte_ok (snd p)) by (unfold p; destruct (c2 =? B_MINUS); [assumption|destruct (c2 =? B_PLUS); assumption]).
  destruct p as [eneg s5]. cbn [snd] in Hp.
  destruct (accum_exp_spec s5 0 0 Hp ltac:(lia)) as (exp' & E & B & F).
  rewrite E. destruct (take_digits s5) as [ed s6] eqn:Etd. cbn [fst snd] in *.
  rewrite Z.add_0_l.
  destruct (Z.eqb_spec (Z.of_nat (length ed)) 0); [split; [reflexivity|discriminate]|].
  change EXP_MAX_DIGITS with 2.
  assert (Hneg : (if eneg then ck_neg pf I64 exp' else Val exp') = Val (if eneg then - exp' else exp')).
  { destruct eneg; [|reflexivity]. unfold ck_neg. apply ck_ok. apply in_I64. lia. }
  rewrite Hneg. cbn [bind].
  destruct (Z.gtb_spec (Z.of_nat (length ed)) 2) as [G|L]; [split; [reflexivity|discriminate]|].
  (* at most two exponent digits: the clamp is not reached *)
  assert (Hds : Forall (fun d => 0 <= d <= 9) ed).
  { pose proof (take_digits_digits s5) as P. rewrite Etd in P. exact P. }
  assert (Hv : 0 <= dv 0 ed <= 99).
  { destruct ed as [|d1 [|d2 [|d3 ed]]]; cbn [length] in *; try lia.
    - inversion Hds; subst. cbn. lia.
    - inversion Hds as [|? ? H1 H2]; subst. inversion H2; subst. cbn. lia. }
  rewrite (F ltac:(change EXP_CLAMP with 16777216; lia)).
  split; [reflexivity|]. intros s7 e Eq. injection Eq as <- <-. destruct eneg; lia.
Qed.

Lemma Inv_final D c o : Inv D c o -> (o || (c >? tmax I128)) = (MAXC <? D).
Proof.
  intros (Hc & HD & Ho). rewrite tmax_I128, MAXC_val, pow2_127. rewrite pow2_128 in *.
  destruct o; cbn [orb].
  - symmetry. apply Z.ltb_lt. lia.
  - subst c. rewrite Z.gtb_ltb. reflexivity.
Qed.

Lemma str_to_dec_core pf s :
  Forall byte_ok s -> len s < 2 ^ 62 -> str_to_dec pf s = Val (core s).
Proof.
  intros Hb Hlen. unfold str_to_dec, core. destruct s as [|c rest]; [reflexivity|].
  set (p := if c =? B_MINUS then (true, rest) else if c =? B_PLUS then (false, rest) else (false, c :: rest)).
  assert (Hp : Forall byte_ok (snd p) /\ len (snd p) <= len (c :: rest)).
  { inversion Hb; subst. unfold p, len. destruct (c =? B_MINUS); [|destruct (c =? B_PLUS)]; cbn [snd length]; split; try assumption; lia. }
  destruct p as [neg s1]. cbn [snd] in Hp. destruct Hp as [Hb1 Hl1].
  destruct s1 as [|c1 s1']; [reflexivity|].
  set (s1 := c1 :: s1') in *.
  pose proof (skip_leading_zeroes_len s1) as Hsl. pose proof (skip_leading_zeroes_bytes s1 Hb1) as Hb2.
  destruct (skip_leading_zeroes s1) as [|c2 s2'] eqn:Es2; [reflexivity|].
  set (s2 := c2 :: s2') in *.
  assert (Hl2 : 0 <= len s2 <= len s1 /\ len s1 < 2 ^ 62) by (unfold len in *; lia).
  unfold ck_sub. rewrite (ck_ok pf U64 (len s1 - len s2)) by (apply in_U64; lia). cbn [bind].
  (* integral digits *)
  assert (I0 : Inv 0 0 false) by (unfold Inv; lia).
  destruct (accum_coeff_spec s2 0 false 0 Hb2 I0) as (c3 & o3 & E3 & I3).
  rewrite E3. cbn [bind].
  destruct (take_digits s2) as [ip s3] eqn:Etd2. cbn [fst snd] in *.
  assert (Hb3 : Forall byte_ok s3 /\ Z.of_nat (length ip) + len s3 <= len s2).
  { clear - Etd2 Hb2. revert ip s3 Etd2. induction Hb2 as [|b l Hb0 Hl IH]; intros ip s3 E; cbn [take_digits] in E.
    - injection E as <- <-. split; [constructor|cbn; lia].
    - rewrite digit_val_isdig in E. destruct (isdig b).
      + destruct (take_digits l) as [ds r] eqn:El. injection E as <- <-. destruct (IH ds r eq_refl) as [A B].
        split; [exact A|]. unfold len in *. cbn [length]. lia.
      + injection E as <- <-. split; [constructor; assumption|unfold len; cbn [length]; lia]. }
  destruct Hb3 as [Hb3 Hl3].
  (* fractional digits *)
  set (fr := match s3 with
             | c :: s3' => if c =? B_DOT then take_digits s3' else ([], s3)
             | [] => ([], s3)
             end).
  assert (Hfr : exists c4 o4,
     (match s3 with
      | c :: s3' => if c =? B_DOT then accum_coeff s3' c3 o3 else Val (s3, c3, o3, 0)
      | [] => Val (s3, c3, o3, 0)
      end) = Val (snd fr, c4, o4, Z.of_nat (length (fst fr))) /\
     Inv (dv 0 (ip ++ fst fr)) c4 o4 /\ Forall byte_ok (snd fr) /\ Z.of_nat (length (fst fr)) <= len s3).
  { unfold fr. destruct s3 as [|c' s3'].
    - exists c3, o3. cbn [fst snd length]. rewrite app_nil_r. refine (conj eq_refl (conj I3 (conj _ _))); [constructor|unfold len; cbn; lia].
    - destruct (c' =? B_DOT).
      + inversion Hb3 as [|? ? _ Hb3']; subst.
        destruct (accum_coeff_spec s3' c3 o3 _ Hb3' I3) as (c4 & o4 & E4 & I4).
        exists c4, o4. rewrite E4. split; [reflexivity|]. split; [rewrite dv_app; exact I4|].
        clear - Hb3'. split.
        * induction Hb3' as [|b l Hb0 Hl IH]; cbn [take_digits]; [constructor|].
          rewrite digit_val_isdig. destruct (isdig b); [|constructor; assumption].
          destruct (take_digits l). exact IH.
        * unfold len. cbn [length]. induction s3' as [|b l IH]; cbn [take_digits length fst]; [lia|].
          rewrite digit_val_isdig. destruct (isdig b); [|cbn; lia].
          inversion Hb3'; subst. specialize (IH H2). destruct (take_digits l). cbn [fst length] in *. lia.
      + exists c3, o3. cbn [fst snd length]. rewrite app_nil_r. refine (conj eq_refl (conj I3 (conj Hb3 _))). unfold len; cbn; lia. }
  destruct Hfr as (c4 & o4 & E4 & I4 & Hb4 & Hl4).
  rewrite E4. cbn [bind]. destruct fr as [fp s4]. cbn [fst snd] in *.
  unfold ck_add.
  rewrite (ck_ok pf U64 (len s1 - len s2 + Z.of_nat (length ip))) by (apply in_U64; unfold len in *; lia). cbn [bind].
  rewrite (ck_ok pf U64 (len s1 - len s2 + Z.of_nat (length ip) + Z.of_nat (length fp))) by (apply in_U64; unfold len in *; lia). cbn [bind].
  destruct (len s1 - len s2 + Z.of_nat (length ip) + Z.of_nat (length fp) =? 0); [reflexivity|].
  rewrite (Inv_final _ _ _ I4).
  destruct (Z.ltb_spec MAXC (dv 0 (ip ++ fp))) as [Hov|Hin]; [reflexivity|].
  (* exponent *)
  destruct (exp_part_model pf s4 Hb4) as [Ee Be]. rewrite Ee. cbn [bind].
  destruct (exp_part s4) as [[s7 e]|err]; [|reflexivity].
  destruct s7; [|reflexivity].
  specialize (Be [] e eq_refl).
  rewrite (ck_ok pf I64 (e - Z.of_nat (length fp))) by (apply in_I64; unfold len in *; lia). cbn [bind].
  unfold ck_neg. rewrite (ck_ok pf I64 (- (e - Z.of_nat (length fp)))) by (apply in_I64; unfold len in *; lia). cbn [bind].
  destruct (- (e - Z.of_nat (length fp)) >? MAX_N_FRAC_DIGITS); [reflexivity|].
  destruct I4 as (Hc4 & _ & Ho4).
  assert (Ec4 : c4 = dv 0 (ip ++ fp)).
  { destruct o4; [rewrite MAXC_val in Hin; rewrite pow2_128 in Ho4; lia|exact Ho4]. }
  rewrite Ec4.
  assert (HD0 : 0 <= dv 0 (ip ++ fp)) by (rewrite <- Ec4; lia).
  rewrite MAXC_val in Hin.
  rewrite cast_id by (apply in_I128_iff; rewrite pow2_127; lia).
  destruct neg; [|reflexivity].
  rewrite ck_ok by (apply in_I128_iff; rewrite pow2_127; lia). reflexivity.
Qed.

(* ================= the specification's scanner against [core] ================= *)
Lemma take_digits_skip s :
  exists z, take_digits s = (repeat 0 z ++ fst (take_digits (skip_leading_zeroes s)),
                             snd (take_digits (skip_leading_zeroes s)))
            /\ Z.of_nat z = len s - len (skip_leading_zeroes s).
Proof.
  induction s as [|b s IH].
  - exists 0%nat. split; reflexivity.
  - cbn [skip_leading_zeroes]. unfold B_0. destruct (Z.eqb_spec b 48) as [->|Hb].
    + destruct IH as (z & E & L). exists (S z). cbn [take_digits]. change (digit_val 48) with (Some 0).
      rewrite E. cbn [repeat app fst snd]. split; [reflexivity|]. unfold len in *. cbn [length]. lia.
    + exists 0%nat. cbn [repeat app]. split; [destruct (take_digits (b :: s)); reflexivity|unfold len; lia].
Qed.

Lemma dv_zeros z x : dv 0 (repeat 0 z ++ x) = dv 0 x.
Proof. induction z as [|z IH]; [reflexivity|]. unfold dv in *. cbn [repeat app fold_left]. exact IH. Qed.

Lemma both_empty_len a b : both_empty a b = (len a + len b =? 0).
Proof. unfold len. destruct a, b; cbn [both_empty length]; try reflexivity; symmetry; apply Z.eqb_neq; lia. Qed.

Definition core_of (neg : bool) (D nf e n : Z) : pres (Z * Z) :=
  if MAXC <? D then PErr POverflow else
  if n >? EXP_MAX_DIGITS then PErr PFracLimit else
  if - (e - nf) >? MAX_N_FRAC_DIGITS then PErr PFracLimit else
  POk (if neg then - D else D, e - nf).

Definition scan_matches (l : lit) (r : pres (Z * Z)) : Prop :=
  match l with
  | LitEmpty => r = PErr PEmpty
  | LitBad => exists e, r = PErr e /\ e <> PEmpty
  | LitOk neg ip fp e n => r = core_of neg (digits_value (ip ++ fp)) (len fp) e n
  end.

Ltac bad_lit :=
  cbn [scan_matches];
  repeat match goal with |- context [if ?b then _ else _] => destruct b end;
  eexists; (split; [reflexivity|discriminate]).

Lemma core_scan_tail neg (ipz : list Z) (nlz : Z) ip fp s4 :
  len ipz = nlz + len ip -> dv 0 (ipz ++ fp) = dv 0 (ip ++ fp) ->
  scan_matches
    (if both_empty ipz fp then LitBad else
     match s4 with
     | [] => LitOk neg ipz fp 0 0
     | c :: r =>
         if (c =? 101) || (c =? 69) then
           let '(eneg, r1) := take_sign r in
           let '(ed, r2) := take_digits r1 in
           match ed, r2 with
           | _ :: _, [] => LitOk neg ipz fp (if eneg then - digits_value ed else digits_value ed) (Z.of_nat (length ed))
           | _, _ => LitBad
           end
         else LitBad
     end)
    (if nlz + Z.of_nat (length ip) + Z.of_nat (length fp) =? 0 then PErr PInvalid else
     let D := dv 0 (ip ++ fp) in
     if MAXC <? D then PErr POverflow else
     match exp_part s4 with
     | PErr e => PErr e
     | POk (s7, exp) =>
         match s7 with
         | _ :: _ => PErr PInvalid
         | [] =>
             let e := exp - Z.of_nat (length fp) in
             if - e >? MAX_N_FRAC_DIGITS then PErr PFracLimit
             else POk (if neg : bool then - D else D, e)
         end
     end).
Proof.
  intros Hl HD. rewrite both_empty_len. rewrite Hl. fold (len ip) (len fp).
  destruct (nlz + len ip + len fp =? 0); [bad_lit|].
  cbv zeta. destruct s4 as [|c4 s4'].
  - cbn [scan_matches exp_part]. unfold core_of, digits_value. fold (dv 0 (ipz ++ fp)). rewrite HD.
    change (0 >? EXP_MAX_DIGITS) with false. reflexivity.
  - cbn [exp_part]. change B_e with 101. change B_E with 69.
    destruct ((c4 =? 101) || (c4 =? 69)); [|bad_lit].
    destruct s4' as [|c5 s5']; [cbn [take_sign take_digits]; bad_lit|].
    unfold take_sign. change B_MINUS with 45. change B_PLUS with 43.
    set (p := if c5 =? 45 then (true, s5') else if c5 =? 43 then (false, s5') else (false, c5 :: s5')).
    destruct p as [eneg s5]. destruct (take_digits s5) as [ed s6].
    destruct ed as [|d ed']; [cbn [length]; change (Z.of_nat 0 =? 0) with true; bad_lit|].
    destruct (Z.eqb_spec (Z.of_nat (length (d :: ed'))) 0) as [E0|_]; [cbn [length] in E0; lia|].
    destruct s6 as [|c6 s6']; [|bad_lit].
    cbn [scan_matches]. unfold core_of, digits_value. fold (dv 0 (ipz ++ fp)) (dv 0 (d :: ed')). rewrite HD.
    destruct (MAXC <? dv 0 (ip ++ fp)); [reflexivity|].
    destruct (Z.of_nat (length (d :: ed')) >? EXP_MAX_DIGITS); reflexivity.
Qed.

Lemma core_scan s : scan_matches (scan s) (core s).
Proof.
  destruct s as [|c rest]; [reflexivity|].
  unfold scan, core, take_sign. change B_MINUS with 45. change B_PLUS with 43.
  set (p := if c =? 45 then (true, rest) else if c =? 43 then (false, rest) else (false, c :: rest)).
  destruct p as [neg s1].
  destruct s1 as [|c1 s1']; [cbn [take_digits both_empty]; bad_lit|].
  set (s1 := c1 :: s1') in *.
  destruct (take_digits_skip s1) as (z & E & L). rewrite E. clear E.
  assert (H1 : 1 <= len s1) by (unfold len, s1; cbn [length]; lia).
  destruct (skip_leading_zeroes s1) as [|c2 s2'].
  - cbn [take_digits fst snd both_empty]. rewrite both_empty_len.
    destruct (Z.eqb_spec (len (repeat 0 z ++ []) + len []) 0) as [E0|_].
    { exfalso. unfold len in *. rewrite app_length, repeat_length in E0. cbn [length] in *. lia. }
    cbn [scan_matches]. unfold digits_value. fold (dv 0 ((repeat 0 z ++ []) ++ [])).
    rewrite !app_nil_r, <- (app_nil_r (repeat 0 z)), dv_zeros.
    unfold core_of, dv, len. cbn [fold_left length]. rewrite MAXC_val. destruct neg; reflexivity.
  - set (s2 := c2 :: s2') in *. destruct (take_digits s2) as [ip s3]. cbn [fst snd].
    assert (Hlen : len (repeat 0 z ++ ip) = len s1 - len s2 + len ip).
    { unfold len in *. rewrite app_length, repeat_length. lia. }
    assert (Hdv : forall fp, dv 0 ((repeat 0 z ++ ip) ++ fp) = dv 0 (ip ++ fp)).
    { intros fp. rewrite <- app_assoc. apply dv_zeros. }
    destruct s3 as [|c3 s3'].
    + apply (core_scan_tail neg (repeat 0 z ++ ip) (len s1 - len s2) ip [] []); [exact Hlen|apply Hdv].
    + change B_DOT with 46. destruct (c3 =? 46).
      * destruct (take_digits s3') as [fp s4].
        apply (core_scan_tail neg (repeat 0 z ++ ip) (len s1 - len s2) ip fp s4); [exact Hlen|apply Hdv].
      * apply (core_scan_tail neg (repeat 0 z ++ ip) (len s1 - len s2) ip [] (c3 :: s3')); [exact Hlen|apply Hdv].
Qed.

(* ---- facts about an accepted literal ---- *)
Lemma dv_bound ds : Forall (fun d => 0 <= d <= 9) ds -> 0 <= dv 0 ds < 10 ^ Z.of_nat (length ds).
Proof.
  intros H. induction H as [|d ds Hd Hds IH]; [cbn; lia|].
  unfold dv in *. cbn [fold_left length]. fold (dv (0 * 10 + d) ds). rewrite dv_scale. unfold dv.
  rewrite Nat2Z.inj_succ, Z.pow_succ_r by lia.
  set (P := 10 ^ Z.of_nat (length ds)) in *. set (v := fold_left (fun a d0 : Z => a * 10 + d0) ds 0) in *. nia.
Qed.

Lemma scan_tail_facts neg ip fp s3 neg' ip' fp' e n :
  (if both_empty ip fp then LitBad else
   match s3 with
   | [] => LitOk neg ip fp 0 0
   | c :: r =>
       if (c =? 101) || (c =? 69) then
         let '(eneg, r1) := take_sign r in
         let '(ed, r2) := take_digits r1 in
         match ed, r2 with
         | _ :: _, [] => LitOk neg ip fp (if eneg then - digits_value ed else digits_value ed) (Z.of_nat (length ed))
         | _, _ => LitBad
         end
       else LitBad
   end) = LitOk neg' ip' fp' e n ->
  ip' = ip /\ fp' = fp /\ Z.abs e < 10 ^ n /\ 0 <= n.
Proof.
  destruct (both_empty ip fp); [discriminate|].
  destruct s3 as [|c r]; [intros H; injection H as <- <- <- <- <-; repeat split; cbn; lia|].
  destruct ((c =? 101) || (c =? 69)); [|discriminate].
  destruct (take_sign r) as [eneg r1]. pose proof (take_digits_digits r1) as Hd.
  destruct (take_digits r1) as [ed r2]. cbn [fst] in Hd.
  destruct ed as [|d ed']; [discriminate|]. destruct r2; [|discriminate].
  set (edl := d :: ed') in *. clearbody edl.
  intros H; injection H as <- <- <- <- <-. refine (conj eq_refl (conj eq_refl (conj _ _))); [|lia].
  rewrite digits_value_dv. pose proof (dv_bound _ Hd). destruct eneg; lia.
Qed.

Lemma take_digits_length s :
  (length (fst (take_digits s)) + length (snd (take_digits s)) = length s)%nat.
Proof.
  induction s as [|b s IH]; [reflexivity|]. cbn [take_digits].
  destruct (digit_val b); [|reflexivity]. destruct (take_digits s). cbn [fst snd length] in *. lia.
Qed.

Lemma take_sign_length s : (length (snd (take_sign s)) <= length s)%nat.
Proof.
  unfold take_sign. destruct s as [|c r]; [cbn; lia|].
  destruct (c =? 45); [cbn; lia|]. destruct (c =? 43); cbn; lia.
Qed.

Lemma scan_facts s neg ip fp e n :
  scan s = LitOk neg ip fp e n ->
  Forall (fun d => 0 <= d <= 9) ip /\ Forall (fun d => 0 <= d <= 9) fp /\ Z.abs e < 10 ^ n /\ 0 <= n /\
  len fp <= len s.
Proof.
  unfold scan. destruct s as [|c0 s0]; [discriminate|].
  pose proof (take_sign_length (c0 :: s0)) as Ls.
  destruct (take_sign (c0 :: s0)) as [neg' s1]. cbn [snd] in Ls.
  pose proof (take_digits_digits s1) as Hip. pose proof (take_digits_length s1) as L1.
  destruct (take_digits s1) as [ip' s2]. cbn [fst snd] in Hip, L1.
  destruct s2 as [|c r].
  - intros H. apply (scan_tail_facts neg' ip' [] []) in H. destruct H as (-> & -> & He & Hn).
    repeat split; auto; unfold len; cbn [length]; lia.
  - destruct (c =? 46).
    + pose proof (take_digits_digits r) as Hfp. pose proof (take_digits_length r) as L2.
      destruct (take_digits r) as [f r']. cbn [fst snd] in Hfp, L2.
      intros H. apply (scan_tail_facts neg' ip' f r') in H. destruct H as (-> & -> & He & Hn).
      repeat split; auto; unfold len; cbn [length] in *; lia.
    + intros H. apply (scan_tail_facts neg' ip' [] (c :: r)) in H. destruct H as (-> & -> & He & Hn).
      repeat split; auto; unfold len; cbn [length]; lia.
Qed.

(* ---- folding the exponent: FromStr against the specification ---- *)
Definition fold_spec (neg : bool) (D nf e : Z) : parse_s :=
  let k := nf - e in
  if 18 <? k then PSErr else
  let '(c, n) := if 0 <=? k then (D, k) else (D * 10 ^ (- k), 0) in
  if MAXC <? c then PSErr else PSOk (mkdec (if neg then - c else c) n).

(* the form the specification uses: no power with an unbounded exponent is ever formed *)
Definition fold_spec2 (neg : bool) (D nf e : Z) : parse_s :=
  let k := nf - e in
  if 18 <? k then PSErr else
  if 0 <=? k then (if MAXC <? D then PSErr else PSOk (mkdec (if neg then - D else D) k)) else
  if D =? 0 then PSOk (mkdec 0 0) else
  if 39 <=? - k then PSErr else
  let c := D * 10 ^ (- k) in
  if MAXC <? c then PSErr else PSOk (mkdec (if neg then - c else c) 0).

Lemma fold_spec2_eq neg D nf e : 0 <= D -> fold_spec2 neg D nf e = fold_spec neg D nf e.
Proof.
  intros HD. unfold fold_spec2, fold_spec. cbv zeta. set (k := nf - e).
  destruct (18 <? k); [reflexivity|]. destruct (Z.leb_spec 0 k); [reflexivity|].
  destruct (Z.eqb_spec D 0) as [->|N0].
  - rewrite Z.mul_0_l. rewrite MAXC_val. destruct neg; reflexivity.
  - destruct (Z.leb_spec 39 (- k)) as [H39|H39]; [|reflexivity].
    assert (10 ^ 39 <= 10 ^ (- k)) by (apply Z.pow_le_mono_r; lia).
    assert (MAXC < 10 ^ 39) by (rewrite MAXC_val; reflexivity).
    assert (1 * 10 ^ (- k) <= D * 10 ^ (- k)) by (apply Z.mul_le_mono_nonneg_r; lia).
    destruct (Z.ltb_spec MAXC (D * 10 ^ (- k))); [reflexivity|lia].
Qed.

Definition acc_fold (p : parse_s) (o : out) : bool :=
  match p, o with
  | PSOk d, OV e => dec_eqb d e
  | PSEmpty, OE k => k =? E_EMPTY
  | PSErr, OE k => negb (k =? E_EMPTY)
  | _, _ => false
  end.

Lemma in_U8 z : 0 <= z < 256 -> in_range U8 z = true.
Proof. intros. apply in_range_iff. cbn [tmin tmax signed bits]. lia. Qed.

Lemma MAXC_lt_pow39 : MAXC < 10 ^ 39.
Proof. rewrite MAXC_val. reflexivity. Qed.

Lemma fold_acc pf neg D nf e n :
  0 <= D -> 0 <= nf < 2 ^ 62 -> Z.abs e < 10 ^ n -> 0 <= n -> (2 <? n) = false ->
  ((D =? 0) && (38 <? e - nf)) = false ->
  acc_fold (fold_spec neg D nf e)
    (out_pres (match core_of neg D nf e n with
               | PErr er => Val (PErr er)
               | POk (c, x) => from_str_fold pf c x
               end)) = true.
Proof.
  intros HD Hnf He Hn Hn2 HK4. apply Z.ltb_ge in Hn2.
  assert (He' : Z.abs e < 100).
  { assert (10 ^ n <= 10 ^ 2) by (apply Z.pow_le_mono_r; lia). lia. }
  unfold fold_spec, core_of. change EXP_MAX_DIGITS with 2. change MAX_N_FRAC_DIGITS with 18.
  set (k := nf - e). cbv zeta.
  destruct (Z.ltb_spec MAXC D) as [Hov|Hin].
  { (* coefficient too large: the specification rejects as well *)
    destruct (Z.ltb_spec 18 k); [reflexivity|].
    destruct (Z.leb_spec 0 k).
    - destruct (Z.ltb_spec MAXC D); [reflexivity|lia].
    - assert (0 < 10 ^ (- k)) by (apply Z.pow_pos_nonneg; lia).
      destruct (Z.ltb_spec MAXC (D * 10 ^ (- k))); [reflexivity|nia]. }
  destruct (Z.gtb_spec n 2); [lia|].
  destruct (Z.gtb_spec (- (e - nf)) 18) as [Hf|Hf].
  { destruct (Z.ltb_spec 18 k); [reflexivity|lia]. }
  destruct (Z.ltb_spec 18 k); [lia|].
  set (x := e - nf) in *. set (c := if neg then - D else D).
  unfold from_str_fold, ck_neg. rewrite (ck_ok pf I64 (- x)) by (apply in_I64; lia). cbn [bind].
  change MAX_N_FRAC_DIGITS with 18. change FROMSTR_EXP_MAX with 38.
  destruct (Z.gtb_spec (- x) 18); [lia|].
  destruct (Z.gtb_spec x 38) as [Hbig|Hsm].
  { (* folded exponent above 38: overflow unless all digits are zero (K4) *)
    destruct (Z.leb_spec 0 k); [lia|].
    assert (D <> 0).
    { destruct (Z.eqb_spec D 0); [|assumption]. cbn [andb] in HK4. apply Z.ltb_ge in HK4. lia. }
    assert (10 ^ 39 <= 10 ^ (- k)) by (apply Z.pow_le_mono_r; lia).
    pose proof MAXC_lt_pow39.
    assert (1 * 10 ^ (- k) <= D * 10 ^ (- k)) by (apply Z.mul_le_mono_nonneg_r; lia).
    destruct (Z.ltb_spec MAXC (D * 10 ^ (- k))); [reflexivity|lia]. }
  destruct (Z.ltb_spec x 0) as [Hneg|Hpos].
  { (* fractional result *)
    rewrite cast_id by (apply in_U8; lia).
    destruct (Z.leb_spec 0 k); [|lia].
    destruct (Z.ltb_spec MAXC D); [lia|].
    cbn. unfold dec_eqb. cbn [coeff nfd]. replace (- x) with k by lia. rewrite !Z.eqb_refl. reflexivity. }
  (* integral result: scale up *)
  rewrite cast_id by (apply in_U8; lia).
  rewrite checked_mul_pow_ten_ok by lia. cbn [bind].
  rewrite MAXC_val in Hin.
  destruct (Z.leb_spec 0 k) as [Hk0|Hk0].
  { assert (x = 0) by lia. assert (k = 0) by lia.
    replace (c * 10 ^ x) with c by (replace x with 0 by lia; lia).
    destruct (Z.ltb_spec MAXC D); [rewrite MAXC_val in *; lia|].
    rewrite checked_ok by (apply in_I128_iff; rewrite pow2_127; unfold c; destruct neg; lia).
    cbn. unfold dec_eqb. cbn [coeff nfd]. replace k with 0 by lia. rewrite !Z.eqb_refl. reflexivity. }
  replace (- k) with x by lia.
  assert (Hc : c * 10 ^ x = if neg then - (D * 10 ^ x) else D * 10 ^ x) by (unfold c; destruct neg; lia).
  rewrite Hc.
  assert (Hdiv : exists m, D * 10 ^ x = 10 * m).
  { exists (D * 10 ^ (x - 1)). replace x with (Z.succ (x - 1)) at 1 by lia. rewrite Z.pow_succ_r by lia. lia. }
  destruct Hdiv as (m & Hm). set (P := D * 10 ^ x) in *.
  destruct (Z.ltb_spec MAXC P) as [Hb|Hb]; rewrite MAXC_val in Hb.
  - rewrite checked_none; [reflexivity|].
    apply in_range_false_iff. rewrite tmin_I128, tmax_I128, pow2_127. destruct neg; lia.
  - assert (0 <= P) by (unfold P; apply Z.mul_nonneg_nonneg; [lia|apply Z.pow_nonneg; lia]).
    rewrite checked_ok by (apply in_I128_iff; rewrite pow2_127; destruct neg; lia).
    cbn. unfold dec_eqb. cbn [coeff nfd]. rewrite !Z.eqb_refl. reflexivity.
Qed.

Theorem from_str_acc pf s :
  Forall byte_ok s -> len s < 2 ^ 62 -> known_str s = 0 ->
  acc_parse s (out_pres (from_str pf s)) = true.
Proof.
  intros Hb Hl Hk. unfold from_str. rewrite str_to_dec_core by assumption. cbn [bind].
  pose proof (core_scan s) as Hc. change (acc_parse s) with (acc_fold (parse_spec s)).
  unfold parse_spec. unfold known_str, known_K2, known_K4 in Hk.
  destruct (scan s) as [| |neg ip fp e n] eqn:Es; cbn [scan_matches] in Hc.
  - rewrite Hc. reflexivity.
  - destruct Hc as (er & -> & Hne). destruct er; try reflexivity. contradiction.
  - destruct (scan_facts _ _ _ _ _ _ Es) as (Hip & Hfp & He & Hn & Hlf).
    rewrite Hc.
    destruct (2 <? n) eqn:Hn2; [discriminate Hk|].
    destruct ((digits_value (ip ++ fp) =? 0) && (38 <? e - Z.of_nat (length fp))) eqn:HK4; [discriminate Hk|].
    assert (HD : 0 <= digits_value (ip ++ fp)).
    { rewrite digits_value_dv. apply dv_bound. apply Forall_app. auto. }
    pose proof (fold_acc pf neg (digits_value (ip ++ fp)) (len fp) e n HD ltac:(unfold len in *; lia) He Hn Hn2 HK4) as A.
    rewrite <- (fold_spec2_eq neg _ _ _ HD) in A. exact A.
Qed.

(* ---- what str_to_dec can return; totality and profile independence ---- *)
Lemma core_range s c x : len s < 2 ^ 62 -> core s = POk (c, x) -> - MAXC <= c <= MAXC /\ - 18 <= x <= 99.
Proof.
  intros Hl E. pose proof (core_scan s) as Hc. rewrite E in Hc.
  destruct (scan s) as [| |neg ip fp e n] eqn:Es; cbn [scan_matches] in Hc.
  - discriminate.
  - destruct Hc as (er & Hc & _). discriminate.
  - destruct (scan_facts _ _ _ _ _ _ Es) as (Hip & Hfp & He & Hn & Hlf).
    unfold core_of in Hc. change EXP_MAX_DIGITS with 2 in Hc. change MAX_N_FRAC_DIGITS with 18 in Hc.
    assert (HD : 0 <= digits_value (ip ++ fp)).
    { rewrite digits_value_dv. apply dv_bound. apply Forall_app. auto. }
    destruct (Z.ltb_spec MAXC (digits_value (ip ++ fp))); [discriminate|].
    destruct (Z.gtb_spec n 2); [discriminate|].
    destruct (Z.gtb_spec (- (e - len fp)) 18); [discriminate|].
    injection Hc as -> ->.
    assert (10 ^ n <= 10 ^ 2) by (apply Z.pow_le_mono_r; lia).
    assert (0 <= len fp) by (unfold len; lia).
    split; [destruct neg; lia|lia].
Qed.

Theorem str_to_dec_range pf s c x :
  Forall byte_ok s -> len s < 2 ^ 62 -> str_to_dec pf s = Val (POk (c, x)) ->
  in_range I128 c = true /\ - 2 ^ 63 < x < 2 ^ 63.
Proof.
  intros Hb Hl E. rewrite str_to_dec_core in E by assumption. injection E as E.
  destruct (core_range s c x Hl E) as [Hc Hx]. rewrite MAXC_val in Hc.
  split; [apply in_I128_iff; rewrite pow2_127; lia|lia].
Qed.

(* the exponent folding of FromStr as a pure function *)
Definition fold_ref (c x : Z) : pres dec :=
  if - x >? 18 then PErr PFracLimit else
  if x >? 38 then PErr POverflow else
  if x <? 0 then POk (mkdec c (- x)) else
  match checked I128 (c * 10 ^ x) with
  | None => PErr POverflow
  | Some c' => POk (mkdec c' 0)
  end.

Lemma from_str_fold_ref pf c x : - 2 ^ 63 < x < 2 ^ 63 -> from_str_fold pf c x = Val (fold_ref c x).
Proof.
  intros Hx. unfold from_str_fold, fold_ref, ck_neg.
  rewrite (ck_ok pf I64 (- x)) by (apply in_I64; lia). cbn [bind].
  change MAX_N_FRAC_DIGITS with 18. change FROMSTR_EXP_MAX with 38.
  destruct (Z.gtb_spec (- x) 18); [reflexivity|].
  destruct (Z.gtb_spec x 38); [reflexivity|].
  destruct (Z.ltb_spec x 0).
  - rewrite cast_id by (apply in_U8; lia). reflexivity.
  - rewrite cast_id by (apply in_U8; lia). rewrite checked_mul_pow_ten_ok by lia. cbn [bind].
    destruct (checked I128 (c * 10 ^ x)); reflexivity.
Qed.

Definition from_str_ref (s : list Z) : pres dec :=
  match core s with
  | PErr e => PErr e
  | POk (c, x) => fold_ref c x
  end.

(* for every byte string: no panic, no out-of-bounds read, no dependence on the profile *)
Theorem from_str_total pf s :
  Forall byte_ok s -> len s < 2 ^ 62 -> from_str pf s = Val (from_str_ref s).
Proof.
  intros Hb Hl. unfold from_str, from_str_ref. rewrite str_to_dec_core by assumption. cbn [bind].
  destruct (core s) as [[c x]|er] eqn:E; [|reflexivity].
  destruct (core_range s c x Hl E) as [_ Hx]. apply from_str_fold_ref. lia.
Qed.

(* Empty is reported for the empty string only *)
Theorem from_str_empty_iff pf s :
  Forall byte_ok s -> len s < 2 ^ 62 -> (from_str pf s = Val (PErr PEmpty) <-> s = []).
Proof.
  intros Hb Hl. rewrite from_str_total by assumption. unfold from_str_ref. split.
  - intros E. destruct s as [|c r]; [reflexivity|exfalso].
    pose proof (core_scan (c :: r)) as Hc.
    destruct (core (c :: r)) as [[c0 x]|er] eqn:Ec.
    + unfold fold_ref in E. injection E as E.
      repeat match type of E with context [if ?b then _ else _] => destruct b end; try discriminate.
      destruct (checked I128 (c0 * 10 ^ x)); discriminate.
    + injection E as ->. remember (scan (c :: r)) as l eqn:El. destruct l as [| |neg ip fp e n]; cbn [scan_matches] in Hc.
      * unfold scan in El. destruct (take_sign (c :: r)), (take_digits l) in El.
        repeat match type of El with context [match ?b with _ => _ end] => destruct b end; discriminate.
      * destruct Hc as (er & Hc & Hne). congruence.
      * unfold core_of in Hc. repeat match type of Hc with context [if ?b then _ else _] => destruct b end; discriminate.
  - intros ->. reflexivity.
Qed.
