(* ProfileFree.v — C20: the rounded operations (mul, div, checked_mul, checked_div, mul_rounded,
   div_rounded, quantize) equal closed-form functions that do not mention the build profile:
   in particular the outcome at the single coefficient the specification leaves open
   (-2^127) is the same in every profile. *)
From FP Require Import Machine SrcConsts Pow10 WideDiv Rounding Arith RoundSpec Out ArithSpec Run.
From FP Require Import MachineFacts Pow10Facts RoundSpecFacts RoundingFacts UnopsFacts KernelContract
  WideMulFacts WideDivFacts MulFacts RemFacts DivFacts.

Local Open Scope Z_scope.

(* the rounded quotient of N by d > 0 as the 256-bit path returns it: None when the floor of |N|/d
   does not fit, else the checked rounding *)
Definition wide_round (m : mode) (N d : Z) : option Z :=
  if MAXC <? Z.abs N / d then None else checked I128 (rnd m N d).

Lemma round_after_floor_closed pf m N d o :
  0 < d <= MAXC -> floor_ok N d o ->
  (match o with
   | None => Val None
   | Some (quot, rem) => round_quot pf quot (cast U128 rem) (cast U128 d) m
   end) = Val (wide_round m N d).
Proof.
  intros Hd Ho. unfold wide_round. rewrite MAXC_val in Hd. destruct o as [[q r]|].
  - destruct Ho as (Ht & -> & ->).
    pose proof (floor_quot_range N d ltac:(lia) Ht) as Rq. rewrite MAXC_val in Rq.
    pose proof (Z.mod_pos_bound N d ltac:(lia)) as B.
    rewrite !cast_id by (apply in_U128_iff; rewrite pow2_128; lia).
    rewrite round_quot_spec by (try apply in_I128_iff; rewrite ?pow2_127; lia).
    destruct (Z.ltb_spec MAXC (Z.abs N / d)); [lia|]. reflexivity.
  - cbn [floor_ok] in Ho. destruct (Z.ltb_spec MAXC (Z.abs N / d)); [reflexivity|lia].
Qed.

Lemma mdr_closed pf m x y p :
  - MAXC <= x <= MAXC -> - MAXC <= y <= MAXC -> 0 <= p <= 38 ->
  i128_mul_div_ten_pow_rounded pf x y p m = Val (wide_round m (x * y) (10 ^ p)).
Proof.
  intros Hx Hy Hp. unfold i128_mul_div_ten_pow_rounded. rewrite ten_pow_ok by lia. cbn [bind].
  pose proof (pow10_pos p ltac:(lia)) as Hpos. pose proof (pow10_le_38 p Hp) as Hle.
  pose proof pow10_38_lt as H38.
  assert (Hd : 0 < 10 ^ p <= MAXC) by (rewrite MAXC_val; rewrite pow2_127 in H38; lia).
  destruct (i256_contract_holds pf x y (10 ^ p) Hx Hy Hd) as (o & Ho & Hf). rewrite Ho. cbn [bind].
  exact (round_after_floor_closed pf m (x * y) (10 ^ p) o Hd Hf).
Qed.

Definition sdr_fun (m : mode) (a k d : Z) : option Z :=
  if d <? 0 then wide_round m (- a * 10 ^ k) (- d) else wide_round m (a * 10 ^ k) d.

Lemma sdr_closed pf m a k d :
  - MAXC <= a <= MAXC -> 0 <= k <= 38 -> d <> 0 -> - MAXC <= d <= MAXC ->
  i128_shifted_div_rounded pf a k d m = Val (sdr_fun m a k d).
Proof.
  intros Ha Hk Hd Hdr. unfold i128_shifted_div_rounded, sdr_fun.
  assert (G : forall a' d', - MAXC <= a' <= MAXC -> 0 < d' <= MAXC ->
    (o0 <- i128_shifted_div_mod_floor pf a' k d' ;;
     match o0 with
     | None => Val None
     | Some (quot, rem) => round_quot pf quot (cast U128 rem) (cast U128 d') m
     end) = Val (wide_round m (a' * 10 ^ k) d')).
  { intros a' d' Ha' Hd'. destruct (sdmf_contract_holds pf a' k d' Ha' Hk Hd') as (o0 & E0 & F0). rewrite E0. cbn [bind].
    exact (round_after_floor_closed pf m (a' * 10 ^ k) d' o0 Hd' F0). }
  rewrite MAXC_val in Ha, Hdr.
  destruct (Z.ltb_spec d 0) as [Hn|Hp].
  - unfold ck_neg. rewrite !ck_ok by (apply in_I128_iff; rewrite pow2_127; lia). cbn [bind].
    apply G; rewrite MAXC_val; lia.
  - cbn [bind]. apply G; rewrite MAXC_val; lia.
Qed.

(* ---- checked_mul_rounded ---- *)
Definition cmr_fun (m : mode) (x y : dec) (n : Z) : option dec :=
  let s := nfd x + nfd y in
  if n >=? s then option_map (fun c => mkdec c s) (checked I128 (coeff x * coeff y))
  else match checked I128 (coeff x * coeff y) with
       | Some c => Some (mkdec (rnd m c (10 ^ (s - n))) n)
       | None => option_map (fun c => mkdec c n) (wide_round m (coeff x * coeff y) (10 ^ (s - n)))
       end.

Lemma cmr_closed pf m x y n :
  wf x = true -> wf y = true -> 0 <= n <= 18 ->
  checked_mul_rounded pf m x y n = Val (cmr_fun m x y n).
Proof.
  intros Hx Hy Hn. destruct (wf_bounds _ Hx) as [Hcx Hpx]. destruct (wf_bounds _ Hy) as [Hcy Hpy].
  unfold checked_mul_rounded, cmr_fun. unfold ck_add. rewrite ck_ok by (apply in_U8_iff2; lia). cbn [bind].
  set (s := nfd x + nfd y).
  destruct (Z.geb_spec n s) as [G|L]; [reflexivity|].
  unfold checked. destruct (in_range I128 (coeff x * coeff y)) eqn:R.
  - rewrite ten_pow_ok by (unfold s; lia). cbn [bind].
    pose proof (pow10_pos (s - n) ltac:(lia)) as Hpos.
    pose proof (pow10_le_38 (s - n) ltac:(unfold s; lia)) as Hle. pose proof pow10_38_lt as H38.
    rewrite i128_div_rounded_pos by (try assumption; try (apply in_I128_iff; lia)). reflexivity.
  - assert (Hx' : - MAXC <= coeff x <= MAXC) by (rewrite MAXC_val; rewrite pow2_127 in Hcx; lia).
    assert (Hy' : - MAXC <= coeff y <= MAXC) by (rewrite MAXC_val; rewrite pow2_127 in Hcy; lia).
    rewrite mdr_closed by (try assumption; unfold s; lia). reflexivity.
Qed.

(* ---- checked_div_rounded ---- *)
Definition cdr_fun (m : mode) (cx px cy py n : Z) : option Z :=
  let s := n + py in
  match Z.compare px s with
  | Eq => Some (rndq m cx cy)
  | Lt => match checked I128 (cx * 10 ^ (s - px)) with
          | Some sd => Some (rndq m sd cy)
          | None => sdr_fun m cx (s - px) cy
          end
  | Gt => if cx mod cy =? 0 then Some (rndq m (cx / cy) (10 ^ (px - s)))
          else Some (rndq m (2 * (cx / cy) + 1) (10 ^ (px - s) * 2))
  end.

Lemma cdr_closed pf m cx px cy py n :
  - MAXC <= cx <= MAXC -> - MAXC <= cy <= MAXC -> cy <> 0 ->
  0 <= px <= 18 -> 0 <= py <= 18 -> 0 <= n <= 18 ->
  checked_div_rounded pf m cx px cy py n = Val (cdr_fun m cx px cy py n).
Proof.
  intros Hx Hy Hnz Hpx Hpy Hn. unfold checked_div_rounded, cdr_fun.
  unfold ck_add. rewrite ck_ok by (apply in_U8_iff2; lia). cbn [bind]. cbv zeta.
  assert (Hxr : - 2 ^ 127 < cx < 2 ^ 127) by (rewrite MAXC_val in Hx; rewrite pow2_127; lia).
  assert (Hyr : - 2 ^ 127 < cy < 2 ^ 127) by (rewrite MAXC_val in Hy; rewrite pow2_127; lia).
  destruct (Z.compare_spec px (n + py)) as [E|L|G].
  - rewrite i128_div_rounded_ok by assumption. reflexivity.
  - set (k := n + py - px). assert (Hk : 0 < k <= 36) by (unfold k; lia).
    rewrite checked_mul_pow_ten_ok by lia. cbn [bind]. unfold checked.
    destruct (in_range I128 (cx * 10 ^ k)) eqn:R.
    + apply in_I128_iff in R. pose proof (scaled_ne_min cx k ltac:(lia)).
      rewrite i128_div_rounded_ok by (rewrite ?MAXC_val; rewrite ?pow2_127 in *; lia || assumption). reflexivity.
    + apply sdr_closed; try assumption; lia.
  - set (k := px - (n + py)). assert (Hk : 0 < k <= 18) by (unfold k; lia).
    rewrite div_mod_floor_any by assumption. cbn [bind].
    rewrite ten_pow_ok by lia. cbn [bind].
    pose proof (pow10_pos k ltac:(lia)) as Pk.
    assert (Pk18 : 10 ^ k <= 10 ^ 18) by (apply Z.pow_le_mono_r; lia).
    change (10 ^ 18) with 1000000000000000000 in Pk18.
    destruct (Z.eqb_spec (cx mod cy) 0) as [R0|R0]; cbn [negb bind].
    + assert (Ecx : cx = (cx / cy) * cy).
      { pose proof (Z.div_mod cx cy Hnz). lia. }
      assert (Hq : Z.abs (cx / cy) <= Z.abs cx).
      { rewrite Ecx at 2. rewrite Z.abs_mul. assert (1 <= Z.abs cy) by lia. nia. }
      rewrite i128_div_rounded_ok by (rewrite ?MAXC_val in *; lia). reflexivity.
    + assert (Hcy2 : 2 <= Z.abs cy).
      { destruct (Z.eq_dec (Z.abs cy) 1) as [E1|]; [|lia]. exfalso. apply R0.
        destruct (Z.abs_spec cy) as [[? A]|[? A]]; rewrite A in E1.
        - rewrite E1. apply Z.mod_1_r.
        - replace cy with (-1) by lia. pose proof (Z.mod_neg_bound cx (-1) ltac:(lia)). lia. }
      pose proof (Z.div_mod cx cy Hnz) as Ed.
      assert (Hq : 2 * Z.abs (cx / cy) <= Z.abs cx + 2).
      { assert (Hm : Z.abs (cx mod cy) < Z.abs cy).
        { destruct (Z_lt_le_dec 0 cy).
          - pose proof (Z.mod_pos_bound cx cy ltac:(lia)). lia.
          - pose proof (Z.mod_neg_bound cx cy ltac:(lia)). lia. }
        assert (A : Z.abs (cy * (cx / cy)) <= Z.abs cx + Z.abs cy) by lia.
        rewrite Z.abs_mul in A.
        set (Aa := Z.abs cy) in *. set (Q := Z.abs (cx / cy)) in *. set (X := Z.abs cx) in *.
        assert (0 <= Q) by (unfold Q; lia).
        destruct (Z.eq_dec Q 0); [lia|]. assert (2 * (Q - 1) <= Aa * (Q - 1)) by nia. lia. }
      assert (Hq' : 2 * (cx / cy) <= Z.abs cx).
      { destruct (Z_le_gt_dec (cx / cy) 0); [lia|].
        destruct (Z_lt_le_dec 0 cy).
        - pose proof (Z.mod_pos_bound cx cy ltac:(lia)). assert (2 * (cx / cy) <= cy * (cx / cy)) by nia. lia.
        - pose proof (Z.mod_neg_bound cx cy ltac:(lia)). assert (2 * (cx / cy) <= - cy * (cx / cy)) by nia. lia. }
      rewrite pow2_127 in Hxr.
      unfold ck_mul, ck_add.
      rewrite (ck_ok pf I128 (2 * (cx / cy))) by (apply in_I128_iff; rewrite pow2_127; lia). cbn [bind].
      rewrite (ck_ok pf I128 (2 * (cx / cy) + 1)) by (apply in_I128_iff; rewrite pow2_127; lia). cbn [bind].
      rewrite (ck_ok pf I128 (10 ^ k * 2)) by (apply in_I128_iff; rewrite pow2_127; lia). cbn [bind].
      rewrite i128_div_rounded_ok by (rewrite ?MAXC_val in *; rewrite ?pow2_127 in *; lia). reflexivity.
Qed.

(* the 256-bit kernel also accepts the coefficient -2^127 as first factor (|x| = 2^127 exactly):
   needed for quantize, whose intermediate quotient may be that value *)
Lemma i256_floor_min pf b m : - MAXC <= b <= MAXC -> 0 < m <= MAXC ->
  exists o, i256_div_mod_floor pf MINC b m = Val o /\ floor_ok (MINC * b) m o.
Proof.
  intros Hb Hm. unfold i256_div_mod_floor.
  assert (Hd : dbg_assert pf (m >? 0) = Val tt).
  { unfold dbg_assert. destruct (Z.gtb_spec m 0); [|lia]. cbn. rewrite andb_false_r. reflexivity. }
  rewrite Hd. cbn [bind]. unfold unsigned_abs. rewrite MAXC_val in Hb, Hm.
  assert (EM : Z.abs MINC = 2 ^ 127) by reflexivity. rewrite EM.
  rewrite u128_mul_u128_ok by (rewrite pow2_128, ?pow2_127; lia). cbn [bind].
  set (P := 2 ^ 127 * Z.abs b).
  assert (HP : 0 <= P) by (unfold P; rewrite pow2_127; nia).
  assert (HPb : P < 2 ^ 127 * 2 ^ 127) by (unfold P; rewrite pow2_127; nia).
  assert (Hxh : 0 <= P / 2 ^ 128 < 2 ^ 128).
  { split; [apply Z.div_pos; lia|]. apply Z.div_lt_upper_bound; [lia|].
    change (2 ^ 128 * 2 ^ 128) with (4 * (2 ^ 127 * 2 ^ 127)). lia. }
  pose proof (Z.mod_pos_bound P (2 ^ 128) ltac:(lia)) as Hxl.
  destruct (u256_idiv_u128_ok pf (P / 2 ^ 128) (P mod 2 ^ 128) (Z.abs m) Hxh Hxl ltac:(rewrite pow2_128; lia))
    as (qh & ql & r & E & Hqh & Hql & Eq & Er).
  rewrite E. cbn [bind].
  rewrite (Z.abs_eq m) in * by lia.
  assert (EP : P / 2 ^ 128 * 2 ^ 128 + P mod 2 ^ 128 = P).
  { pose proof (Z.div_mod P (2 ^ 128) ltac:(lia)). lia. }
  rewrite EP in Eq, Er.
  set (ng := negb (Bool.eqb (MINC <? 0) (b <? 0))).
  destruct (kernel_tail pf ng P m qh ql r ltac:(rewrite MAXC_val; lia) HP ltac:(lia) Hql Eq Er) as (o & Ho & Hf).
  exists o. split.
  - rewrite <- Ho. reflexivity.
  - assert (EN : MINC * b = if ng then - P else P).
    { unfold P, ng. change (MINC <? 0) with true. change MINC with (- 2 ^ 127).
      destruct (Z.ltb_spec b 0); cbn [Bool.eqb negb]; rewrite ?(Z.abs_neq b), ?(Z.abs_eq b) by lia; ring. }
    rewrite EN. exact Hf.
Qed.

Lemma mdr_closed_min pf m y p :
  - MAXC <= y <= MAXC -> 0 <= p <= 38 ->
  i128_mul_div_ten_pow_rounded pf MINC y p m = Val (wide_round m (MINC * y) (10 ^ p)).
Proof.
  intros Hy Hp. unfold i128_mul_div_ten_pow_rounded. rewrite ten_pow_ok by lia. cbn [bind].
  pose proof (pow10_pos p ltac:(lia)) as Hpos. pose proof (pow10_le_38 p Hp) as Hle.
  pose proof pow10_38_lt as H38.
  assert (Hd : 0 < 10 ^ p <= MAXC) by (rewrite MAXC_val; rewrite pow2_127 in H38; lia).
  destruct (i256_floor_min pf y (10 ^ p) Hy Hd) as (o & Ho & Hf). rewrite Ho. cbn [bind].
  exact (round_after_floor_closed pf m (MINC * y) (10 ^ p) o Hd Hf).
Qed.

(* checked_mul_rounded with a first operand whose coefficient is any i128 *)
Lemma cmr_closed_wide pf m x y n :
  in_range I128 (coeff x) = true -> 0 <= nfd x <= 18 -> wf y = true -> 0 <= n <= 18 ->
  checked_mul_rounded pf m x y n = Val (cmr_fun m x y n).
Proof.
  intros Hx Hpx Hy Hn. apply in_I128_iff in Hx. rewrite pow2_127 in Hx.
  destruct (Z.eq_dec (coeff x) MINC) as [EM|NM].
  2:{ apply cmr_closed; try assumption. apply wf_iff. rewrite MAXC_val. unfold MINC in NM. rewrite pow2_127 in NM. lia. }
  destruct (wf_bounds _ Hy) as [Hcy Hpy].
  unfold checked_mul_rounded, cmr_fun. unfold ck_add. rewrite ck_ok by (apply in_U8_iff2; lia). cbn [bind].
  set (s := nfd x + nfd y).
  destruct (Z.geb_spec n s) as [G|L]; [reflexivity|].
  unfold checked. destruct (in_range I128 (coeff x * coeff y)) eqn:R.
  - rewrite ten_pow_ok by (unfold s; lia). cbn [bind].
    pose proof (pow10_pos (s - n) ltac:(lia)) as Hpos.
    pose proof (pow10_le_38 (s - n) ltac:(unfold s; lia)) as Hle. pose proof pow10_38_lt as H38.
    rewrite i128_div_rounded_pos by (try assumption; try (apply in_I128_iff; lia)). reflexivity.
  - assert (Hy' : - MAXC <= coeff y <= MAXC) by (rewrite MAXC_val; rewrite pow2_127 in Hcy; lia).
    rewrite EM. rewrite mdr_closed_min by (try assumption; unfold s; lia). reflexivity.
Qed.

(* ---------------- the operations ---------------- *)
Lemma dec_mul_pf pf1 pf2 m x y :
  in_range I128 (coeff x) = true -> 0 <= nfd x <= 18 -> wf y = true ->
  dec_mul pf1 m x y = dec_mul pf2 m x y /\ dec_checked_mul pf1 x y = dec_checked_mul pf2 x y.
Proof.
  intros Hx Hpx Hy. destruct (wf_bounds _ Hy) as [Hcy Hpy].
  unfold dec_mul, dec_checked_mul, eq_one. destruct (eq_zero x || eq_zero y); [split; reflexivity|].
  rewrite !ten_pow_ok by lia. cbn [bind].
  destruct (coeff y =? 10 ^ nfd y); [split; reflexivity|].
  destruct (coeff x =? 10 ^ nfd x); [split; reflexivity|].
  change MAX_N_FRAC_DIGITS with 18.
  rewrite (cmr_closed_wide pf1), (cmr_closed_wide pf2) by (assumption || lia).
  unfold ck_add. rewrite !ck_ok by (apply in_U8_iff2; lia). split; reflexivity.
Qed.

Lemma dec_mul_rounded_pf pf1 pf2 m x y n : wf x = true -> wf y = true -> 0 <= n ->
  dec_mul_rounded pf1 m x y n = dec_mul_rounded pf2 m x y n.
Proof.
  intros Hx Hy Hn. unfold dec_mul_rounded. change MAX_N_FRAC_DIGITS with 18.
  destruct (Z.gtb_spec n 18); [reflexivity|]. destruct (eq_zero x || eq_zero y); [reflexivity|].
  rewrite (cmr_closed pf1), (cmr_closed pf2) by (assumption || lia). reflexivity.
Qed.

Lemma div_tail_pf pf1 pf2 m x y : wf x = true -> wf y = true -> coeff y <> 0 ->
  div_tail pf1 m (coeff x) (nfd x) (coeff y) (nfd y) = div_tail pf2 m (coeff x) (nfd x) (coeff y) (nfd y).
Proof.
  intros Hx Hy Hnz. apply wf_iff in Hx. apply wf_iff in Hy. destruct Hx as [Hcx Hpx]. destruct Hy as [Hcy Hpy].
  unfold div_tail. change MAX_N_FRAC_DIGITS with 18.
  rewrite (cdr_closed pf1), (cdr_closed pf2) by (assumption || lia). reflexivity.
Qed.

Lemma dec_div_pf pf1 pf2 m x y : wf x = true -> wf y = true ->
  dec_div pf1 m x y = dec_div pf2 m x y /\ dec_checked_div pf1 m x y = dec_checked_div pf2 m x y.
Proof.
  intros Hx Hy. unfold dec_div, dec_checked_div, eq_zero.
  destruct (Z.eqb_spec (coeff y) 0) as [E0|N0]; [split; reflexivity|].
  destruct (coeff x =? 0); [split; reflexivity|].
  rewrite (div_tail_pf pf1 pf2 m x y Hx Hy N0). split; reflexivity.
Qed.

Lemma dec_div_rounded_pf pf1 pf2 m x y n : wf x = true -> wf y = true -> 0 <= n ->
  dec_div_rounded pf1 m x y n = dec_div_rounded pf2 m x y n.
Proof.
  intros Hx Hy Hn. pose proof Hx as Hx'. pose proof Hy as Hy'.
  apply wf_iff in Hx'. apply wf_iff in Hy'. destruct Hx' as [Hcx Hpx]. destruct Hy' as [Hcy Hpy].
  unfold dec_div_rounded, eq_zero. change MAX_N_FRAC_DIGITS with 18.
  destruct (Z.gtb_spec n 18); [reflexivity|].
  destruct (Z.eqb_spec (coeff y) 0) as [E0|N0]; [reflexivity|].
  destruct (coeff x =? 0); [reflexivity|].
  rewrite (cdr_closed pf1), (cdr_closed pf2) by (assumption || lia). reflexivity.
Qed.

(* what div_rounded(.., 0) can return: an i128 coefficient at scale 0 *)
Lemma div_rounded0_range pf m x y d : wf x = true -> wf y = true ->
  dec_div_rounded pf m x y 0 = Val d -> in_range I128 (coeff d) = true /\ nfd d = 0.
Proof.
  intros Hx Hy. pose proof Hx as Hx'. pose proof Hy as Hy'.
  apply wf_iff in Hx'. apply wf_iff in Hy'. destruct Hx' as [Hcx Hpx]. destruct Hy' as [Hcy Hpy].
  unfold dec_div_rounded, eq_zero. change MAX_N_FRAC_DIGITS with 18. change (0 >? 18) with false. cbv iota.
  destruct (Z.eqb_spec (coeff y) 0) as [E0|N0]; [discriminate|].
  destruct (coeff x =? 0).
  { intros E. injection E as <-. split; reflexivity. }
  destruct (checked_div_rounded_ok sdmf_contract_holds pf m (coeff x) (nfd x) (coeff y) (nfd y) 0
              Hcx Hcy N0 Hpx Hpy ltac:(lia)) as (o & Ho & Hr).
  rewrite Ho. cbn [bind]. destruct o as [c|]; cbn [or_panic bind]; [|discriminate].
  intros E. injection E as <-. cbn [coeff nfd]. split; [|reflexivity].
  destruct Hr as [-> [H1 H2]]. apply in_I128_iff. unfold MINC in H1. rewrite MAXC_val in H2. rewrite pow2_127 in *. lia.
Qed.

Lemma dec_quantize_pf pf1 pf2 m x q : wf x = true -> wf q = true ->
  dec_quantize pf1 m x q = dec_quantize pf2 m x q.
Proof.
  intros Hx Hq. unfold dec_quantize.
  rewrite (dec_div_rounded_pf pf1 pf2 m x q 0 Hx Hq ltac:(lia)).
  destruct (dec_div_rounded pf2 m x q 0) as [d| | |] eqn:E; try reflexivity. cbn [bind].
  destruct (div_rounded0_range pf2 m x q d Hx Hq E) as [Hr Hn].
  apply (dec_mul_pf pf1 pf2 m d q); [exact Hr|lia|exact Hq].
Qed.

Theorem rounded_ops_profile_free pf1 pf2 m op x y n :
  wf x = true -> wf y = true -> 0 <= n <= 255 ->
  In op [Bmul; Bcmul; Bdiv; Bcdiv; Bdivr; Bmulr; Bquant] ->
  run_dd pf1 m op x y n = run_dd pf2 m op x y n.
Proof.
  intros Hx Hy Hn Hop. cbn in Hop.
  assert (Hxr : in_range I128 (coeff x) = true) by (apply wf_in_range; exact Hx).
  destruct (wf_bounds _ Hx) as [_ Hpx].
  repeat (destruct Hop as [<-|Hop]); try contradiction; cbn [run_dd].
  - rewrite (proj1 (dec_mul_pf pf1 pf2 m x y Hxr Hpx Hy)). reflexivity.
  - rewrite (proj2 (dec_mul_pf pf1 pf2 m x y Hxr Hpx Hy)). reflexivity.
  - rewrite (proj1 (dec_div_pf pf1 pf2 m x y Hx Hy)). reflexivity.
  - rewrite (proj2 (dec_div_pf pf1 pf2 m x y Hx Hy)). reflexivity.
  - rewrite (dec_div_rounded_pf pf1 pf2 m x y n Hx Hy ltac:(lia)). reflexivity.
  - rewrite (dec_mul_rounded_pf pf1 pf2 m x y n Hx Hy ltac:(lia)). reflexivity.
  - rewrite (dec_quantize_pf pf1 pf2 m x y Hx Hy). reflexivity.
Qed.

(* ---------------- the integer-operand bodies ---------------- *)
From FP Require Import IntForms.

Lemma cdr_pf pf1 pf2 m cx px cy py n :
  - MAXC <= cx <= MAXC -> - MAXC <= cy <= MAXC -> cy <> 0 ->
  0 <= px <= 18 -> 0 <= py <= 18 -> 0 <= n <= 18 ->
  checked_div_rounded pf1 m cx px cy py n = checked_div_rounded pf2 m cx px cy py n.
Proof. intros. rewrite (cdr_closed pf1), (cdr_closed pf2) by assumption. reflexivity. Qed.

Lemma div_tail_pf' pf1 pf2 m cx px cy py :
  - MAXC <= cx <= MAXC -> - MAXC <= cy <= MAXC -> cy <> 0 -> 0 <= px <= 18 -> 0 <= py <= 18 ->
  div_tail pf1 m cx px cy py = div_tail pf2 m cx px cy py.
Proof.
  intros. unfold div_tail. change MAX_N_FRAC_DIGITS with 18.
  rewrite (cdr_pf pf1 pf2) by (assumption || lia). reflexivity.
Qed.

Lemma cdr_range pf m cx px cy py n c :
  - MAXC <= cx <= MAXC -> - MAXC <= cy <= MAXC -> cy <> 0 ->
  0 <= px <= 18 -> 0 <= py <= 18 -> 0 <= n <= 18 ->
  checked_div_rounded pf m cx px cy py n = Val (Some c) -> in_range I128 c = true.
Proof.
  intros Hx Hy Hnz Hpx Hpy Hn E.
  destruct (checked_div_rounded_ok sdmf_contract_holds pf m cx px cy py n Hx Hy Hnz Hpx Hpy Hn) as (o & Ho & Hr).
  rewrite E in Ho. injection Ho as <-. destruct Hr as [-> [H1 H2]].
  apply in_I128_iff. unfold MINC in H1. rewrite MAXC_val in H2. rewrite pow2_127 in *. lia.
Qed.

Theorem int_forms_profile_free pf1 pf2 m op t d i j n :
  wf d = true -> - MAXC <= i <= MAXC -> - MAXC <= j <= MAXC -> 0 <= n <= 18 ->
  run_di pf1 m op t d i n = run_di pf2 m op t d i n /\
  run_id pf1 m op t i d n = run_id pf2 m op t i d n /\
  run_ii pf1 m op i j n = run_ii pf2 m op i j n.
Proof.
  intros Hd Hi Hj Hn. pose proof Hd as Hd'. apply wf_iff in Hd'. destruct Hd' as [Hcd Hpd].
  assert (Hdr : in_range I128 (coeff d) = true) by (apply wf_in_range; exact Hd).
  refine (conj _ (conj _ _)).
  - (* Decimal op integer *)
    destruct op; cbn [run_di]; try reflexivity.
    + unfold di_div. destruct (Z.eqb_spec i 0); [reflexivity|]. destruct (eq_zero d); [reflexivity|].
      destruct (i =? 1); [reflexivity|]. rewrite (div_tail_pf' pf1 pf2) by (assumption || lia). reflexivity.
    + unfold di_checked_div. destruct (Z.eqb_spec i 0); [reflexivity|]. destruct (eq_zero d); [reflexivity|].
      destruct (i =? 1); [reflexivity|]. rewrite (div_tail_pf' pf1 pf2) by (assumption || lia). reflexivity.
    + unfold di_div_rounded. destruct (Z.eqb_spec i 0); [reflexivity|]. destruct (eq_zero d); [reflexivity|].
      rewrite (cdr_pf pf1 pf2) by (assumption || lia). reflexivity.
    + unfold di_quantize, di_div_rounded. destruct (Z.eqb_spec i 0); [reflexivity|]. destruct (eq_zero d); [reflexivity|].
      rewrite (cdr_pf pf1 pf2) by (assumption || lia). reflexivity.
  - (* integer op Decimal *)
    destruct op; cbn [run_id]; try reflexivity.
    + unfold id_div, eq_zero. destruct (Z.eqb_spec (coeff d) 0); [reflexivity|]. destruct (i =? 0); [reflexivity|].
      unfold eq_one. rewrite ten_pow_ok by lia. cbn [bind]. destruct (coeff d =? 10 ^ nfd d); [reflexivity|].
      rewrite (div_tail_pf' pf1 pf2) by (assumption || lia). reflexivity.
    + unfold id_checked_div, eq_zero. destruct (Z.eqb_spec (coeff d) 0); [reflexivity|]. destruct (i =? 0); [reflexivity|].
      unfold eq_one. rewrite ten_pow_ok by lia. cbn [bind]. destruct (coeff d =? 10 ^ nfd d); [reflexivity|].
      rewrite (div_tail_pf' pf1 pf2) by (assumption || lia). reflexivity.
    + unfold id_div_rounded, eq_zero. destruct (Z.eqb_spec (coeff d) 0); [reflexivity|]. destruct (i =? 0); [reflexivity|].
      rewrite (cdr_pf pf1 pf2) by (assumption || lia). reflexivity.
    + unfold id_quantize, id_div_rounded, eq_zero. destruct (Z.eqb_spec (coeff d) 0); [reflexivity|].
      destruct (i =? 0) eqn:Ei0.
      { cbn [bind]. apply f_equal. apply (dec_mul_pf pf1 pf2 m DZERO d); [reflexivity|cbn; lia|exact Hd]. }
      rewrite (cdr_pf pf1 pf2 m i 0 (coeff d) (nfd d) 0) by (assumption || lia).
      destruct (checked_div_rounded pf2 m i 0 (coeff d) (nfd d) 0) as [[c|]| | |] eqn:E; try reflexivity.
      cbn [bind or_panic]. apply f_equal.
      apply (dec_mul_pf pf1 pf2 m (mkdec c 0) d); [|cbn; lia|exact Hd]. cbn [coeff].
      apply (cdr_range pf2 m i 0 (coeff d) (nfd d) 0 c); try assumption; lia.
  - (* integer op integer *)
    destruct op; cbn [run_ii]; try reflexivity.
    + unfold ii_div_rounded. destruct (Z.eqb_spec j 0); [reflexivity|]. destruct (i =? 0); [reflexivity|].
      rewrite (cdr_pf pf1 pf2) by (assumption || lia). reflexivity.
    + unfold ii_quantize, ii_div_rounded. destruct (Z.eqb_spec j 0); [reflexivity|]. destruct (i =? 0); [reflexivity|].
      rewrite (cdr_pf pf1 pf2) by (assumption || lia). reflexivity.
Qed.
