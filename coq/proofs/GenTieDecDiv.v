(* GenTieDecDiv.v — division at the Decimal level (src/binops/{div,checked_div,div_rounded}.rs, normalize of
   src/lib.rs) as translated (gen/GenDec.v) equals the model (model/Arith.v). *)
From FP Require Import Machine SrcConsts Pow10 WideDiv Rounding Arith RoundSpec Out ArithSpec Run GenCore GenDec MachineFacts.
From FP Require Import KernelContract WideDivFacts DivFacts.
From FP Require Import GenTieTac GenTiePow GenTieWide GenTieRound.

Lemma tie_normalize_loop fuel pf : forall c n, 0 <= n <= 255 ->
  g_normalize_loop1 fuel pf c n = normalize_loop fuel c n.
Proof.
  induction fuel as [|f IH]; intros c n Hn; [reflexivity|].
  cbn [g_normalize_loop1 normalize_loop].
  dres (t_rem I128 c 10) as r.
  destruct (r =? 0); cbn [andb]; [|reflexivity].
  destruct (Z.gtb_spec n 0) as [H|H]; [|reflexivity].
  dres (t_div I128 c 10) as c'.
  rewrite ck_sub_u8_ok by (try (apply u8_iff); lia). cbn [bind].
  apply IH. lia.
Qed.

Lemma tie_normalize pf c n : 0 <= n <= 255 ->
  g_normalize pf c n = (r <- normalize c n ;; Val (fst r, snd r, tt)).
Proof.
  intros Hn. unfold g_normalize, normalize. change FUEL_normalize with 256%nat.
  destruct (Z.eqb_spec c 0) as [->|Hc]; cbn [bind fst snd]; [reflexivity|].
  rewrite tie_normalize_loop by exact Hn.
  destruct (normalize_loop 256 c n) as [[c' n']| | |]; reflexivity.
Qed.

Lemma tie_checked_div_rounded pf dflt cx px cy py n :
  in_range U8 px = true -> in_range I128 cy = true ->
  g_checked_div_rounded pf dflt cx px cy py n = checked_div_rounded pf dflt cx px cy py n.
Proof.
  intros Hpx Hcy. unfold g_checked_div_rounded, checked_div_rounded. apply u8_iff in Hpx.
  destruct (ck_add pf U8 n py) as [sh| | |] eqn:E; cbn [bind]; [|rf|rf|rf].
  apply ck_range in E. pose proof (proj1 (u8_iff _) E) as Hs.
  destruct (Z.compare_spec px sh) as [H|H|H].
  - to_model. reflexivity.
  - rewrite ck_sub_u8_ok by (try assumption; lia). cbn [bind]. to_model.
    dres (checked_mul_pow_ten cx (sh - px)) as os. destruct os as [sd|].
    + to_model. reflexivity.
    + rewrite tie_i128_shifted_div_rounded by exact Hcy. reflexivity.
  - rewrite ck_sub_u8_ok by (try (apply u8_iff); lia). cbn [bind]. to_model.
    destruct (i128_div_mod_floor pf cx cy) as [[q r]| | |]; cbn [bind]; [|rf|rf|rf].
    dres (ten_pow (px - sh)) as dv.
    match goal with |- context [bind ?e _] => destruct e as [[q' d']| | |] end; cbn [bind]; [|rf|rf|rf].
    to_model. reflexivity.
Qed.

Lemma wf_u8 d : wf d = true -> in_range U8 (nfd d) = true.
Proof. intros H. apply wf_iff in H. apply u8_iff. lia. Qed.

Lemma tie_div_tail pf dflt cx px cy py :
  in_range U8 px = true -> in_range I128 cy = true ->
  (tmp <- g_checked_div_rounded pf dflt cx px cy py MAX_N_FRAC_DIGITS ;;
   match tmp with
   | None => Val None
   | Some c => '(c', n', _) <- g_normalize pf c MAX_N_FRAC_DIGITS ;; Val (Some (mkdec c' n'))
   end) = div_tail pf dflt cx px cy py.
Proof.
  intros Hp Hc. unfold div_tail. rewrite tie_checked_div_rounded by assumption.
  dres (checked_div_rounded pf dflt cx px cy py MAX_N_FRAC_DIGITS) as o.
  destruct o as [c|]; [|reflexivity].
  rewrite tie_normalize by (vm_compute; split; discriminate).
  destruct (normalize c MAX_N_FRAC_DIGITS) as [[c' n']| | |]; reflexivity.
Qed.

Lemma tie_checked_div pf dflt x y : wf x = true -> wf y = true ->
  g_CheckedDiv_checked_div pf dflt x y = dec_checked_div pf dflt x y.
Proof.
  intros Hx Hy. unfold g_CheckedDiv_checked_div, dec_checked_div, g_Decimal_eq_zero.
  change g_Decimal_eq_one with (fun (_ : profile) => eq_one). cbv beta.
  change g_MAX_N_FRAC_DIGITS with MAX_N_FRAC_DIGITS.
  cbn [bind]. fold (eq_zero x) (eq_zero y). unfold DZERO.
  destruct (eq_zero y); [reflexivity|]. destruct (eq_zero x); [reflexivity|].
  dres (eq_one y) as oy. destruct oy; [reflexivity|].
  rewrite <- (tie_div_tail pf dflt (coeff x) (nfd x) (coeff y) (nfd y)) by (try apply wf_u8; try apply wf_in_range; assumption).
  reflexivity.
Qed.

Lemma tie_div pf dflt x y : wf x = true -> wf y = true ->
  g_Div_div pf dflt x y = dec_div pf dflt x y.
Proof.
  intros Hx Hy. unfold g_Div_div, dec_div, g_Decimal_eq_zero.
  change g_Decimal_eq_one with (fun (_ : profile) => eq_one). cbv beta.
  change g_MAX_N_FRAC_DIGITS with MAX_N_FRAC_DIGITS.
  cbn [bind]. fold (eq_zero x) (eq_zero y). unfold DZERO, or_panic.
  destruct (eq_zero y); cbn [bind]; [reflexivity|]. destruct (eq_zero x); [reflexivity|].
  dres (eq_one y) as oy. destruct oy; [reflexivity|].
  rewrite <- (tie_div_tail pf dflt (coeff x) (nfd x) (coeff y) (nfd y)) by (try apply wf_u8; try apply wf_in_range; assumption).
  dres (g_checked_div_rounded pf dflt (coeff x) (nfd x) (coeff y) (nfd y) MAX_N_FRAC_DIGITS) as o.
  destruct o as [c|]; [|reflexivity].
  destruct (g_normalize pf c MAX_N_FRAC_DIGITS) as [[[c' n'] u]| | |]; reflexivity.
Qed.

Lemma tie_div_rounded pf dflt x y n : wf x = true -> wf y = true ->
  g_DivRounded_div_rounded pf dflt x y n = dec_div_rounded pf dflt x y n.
Proof.
  intros Hx Hy. unfold g_DivRounded_div_rounded, dec_div_rounded, g_Decimal_eq_zero.
  change g_MAX_N_FRAC_DIGITS with MAX_N_FRAC_DIGITS.
  cbn [bind]. fold (eq_zero x) (eq_zero y). unfold DZERO, or_panic.
  destruct (n >? MAX_N_FRAC_DIGITS); cbn [bind]; [reflexivity|].
  destruct (eq_zero y); cbn [bind]; [reflexivity|]. destruct (eq_zero x); [reflexivity|].
  rewrite tie_checked_div_rounded by (try apply wf_u8; try apply wf_in_range; assumption).
  dres (checked_div_rounded pf dflt (coeff x) (nfd x) (coeff y) (nfd y) n) as o.
  destruct o; reflexivity.
Qed.

Lemma src_div_acc pf m x y : wf x = true -> wf y = true ->
  acc_dd m Bdiv x y 0 (out_dec (g_Div_div pf m x y)) = true /\
  acc_dd m Bcdiv x y 0 (out_odec (g_CheckedDiv_checked_div pf m x y)) = true.
Proof. intros Hx Hy. rewrite tie_div, tie_checked_div by assumption. apply (div_acc sdmf_contract_holds pf m x y Hx Hy). Qed.

Lemma src_div_rounded_acc pf m x y n : wf x = true -> wf y = true -> 0 <= n <= 255 ->
  acc_dd m Bdivr x y n (out_dec (g_DivRounded_div_rounded pf m x y n)) = true.
Proof. intros Hx Hy Hn. rewrite tie_div_rounded by assumption. apply (div_rounded_acc sdmf_contract_holds pf m x y n Hx Hy Hn). Qed.

(* the translated multiplication and division do not depend on the build profile (C20) *)
From FP Require Import ProfileFree GenTieDecMul.
Lemma src_muldiv_profile_free pf1 pf2 m x y n :
  wf x = true -> wf y = true -> 0 <= n <= 255 ->
  out_dec (g_Mul_mul pf1 m x y) = out_dec (g_Mul_mul pf2 m x y) /\
  out_dec (g_Div_div pf1 m x y) = out_dec (g_Div_div pf2 m x y) /\
  out_dec (g_MulRounded_mul_rounded pf1 m x y n) = out_dec (g_MulRounded_mul_rounded pf2 m x y n) /\
  out_dec (g_DivRounded_div_rounded pf1 m x y n) = out_dec (g_DivRounded_div_rounded pf2 m x y n).
Proof.
  intros Hx Hy Hn.
  rewrite !tie_mul, !tie_div, !tie_mul_rounded, !tie_div_rounded by (try assumption; lia).
  pose proof (rounded_ops_profile_free pf1 pf2 m Bmul x y n Hx Hy Hn ltac:(cbn; tauto)) as H1.
  pose proof (rounded_ops_profile_free pf1 pf2 m Bdiv x y n Hx Hy Hn ltac:(cbn; tauto)) as H2.
  pose proof (rounded_ops_profile_free pf1 pf2 m Bmulr x y n Hx Hy Hn ltac:(cbn; tauto)) as H3.
  pose proof (rounded_ops_profile_free pf1 pf2 m Bdivr x y n Hx Hy Hn ltac:(cbn; tauto)) as H4.
  cbn [run_dd] in H1, H2, H3, H4. auto.
Qed.
