(* RoundFacts.v — Decimal::round / checked_round compute [round_spec]. *)
From FP Require Import Machine SrcConsts Pow10 RoundSpec Rounding Round ArithSpec.
From FP Require Import MachineFacts Pow10Facts RoundSpecFacts RoundingFacts.

Lemma in_I8_iff z : in_range I8 z = true <-> -128 <= z <= 127.
Proof. rewrite in_range_iff. reflexivity. Qed.
Lemma in_U8_iff z : in_range U8 z = true <-> 0 <= z <= 255.
Proof. rewrite in_range_iff. reflexivity. Qed.

(* a dividend of magnitude below half the divisor: only the sign matters *)
Lemma rnd_tiny m c d : 0 < d -> 2 * Z.abs c < d -> 2 < d -> rnd m c d = rnd m (Z.sgn c) 10.
Proof.
  intros Hd Hc Hd2.
  assert (Hq : Z.quot c d = 0) by (apply Z.quot_small_iff; lia).
  assert (Hr : Z.rem c d = c).
  { pose proof (Z.quot_rem' c d). rewrite Hq in *. lia. }
  assert (Hq' : Z.quot (Z.sgn c) 10 = 0) by (apply Z.quot_small_iff; lia).
  assert (Hr' : Z.rem (Z.sgn c) 10 = Z.sgn c).
  { pose proof (Z.quot_rem' (Z.sgn c) 10). rewrite Hq' in *. lia. }
  unfold rnd. rewrite Hq, Hr, Hq', Hr'. rewrite Z.sgn_sgn.
  destruct (Z.eqb_spec (Z.abs c) 0); destruct (Z.eqb_spec (Z.abs (Z.sgn c)) 0); try lia.
  replace (Z.abs (Z.sgn c)) with 1 by lia.
  destruct m; try reflexivity.
  - destruct (Z.ltb_spec 0 c); destruct (Z.ltb_spec 0 (Z.sgn c)); lia.
  - destruct (Z.ltb_spec c 0); destruct (Z.ltb_spec (Z.sgn c) 0); lia.
  - destruct (Z.ltb_spec d (2 * Z.abs c)); [lia|]. reflexivity.
  - destruct (Z.ltb_spec d (2 * Z.abs c)); destruct (Z.eqb_spec d (2 * Z.abs c)); try lia. reflexivity.
  - destruct (Z.leb_spec d (2 * Z.abs c)); [lia|]. reflexivity.
Qed.

Lemma rnd_unit m s : -1 <= s <= 1 -> -1 <= rnd m s 10 <= 1.
Proof.
  intros Hs. assert (s = -1 \/ s = 0 \/ s = 1) as [->|[->| ->]] by lia; destruct m; vm_compute; split; discriminate.
Qed.

Lemma pow10_ge_39 k : 39 <= k -> 2 ^ 128 < 10 ^ k.
Proof.
  intros Hk. apply Z.lt_le_trans with (10 ^ 39); [reflexivity|]. apply Z.pow_le_mono_r; lia.
Qed.

Lemma dec_round_both pf m d n :
  wf d = true -> -128 <= n <= 127 ->
  dec_round pf m d n = sig (round_spec m d n) /\
  dec_checked_round pf m d n = Val (round_spec m d n).
Proof.
  intros Hwf Hn. apply wf_iff in Hwf. destruct Hwf as [Hc Hp].
  unfold dec_round, dec_checked_round, round_spec.
  rewrite (cast_id I8 (nfd d)) by (apply in_I8_iff; lia).
  destruct (Z.geb_spec n (nfd d)) as [Hge|Hlt]; [split; reflexivity|].
  change ROUND_SHORTCUT with 38. unfold ck_sub.
  rewrite (ck_ok pf I8 (nfd d - 38)) by (apply in_I8_iff; lia). cbn [bind].
  rewrite MAXC_val in Hc.
  destruct (Z.ltb_spec n (nfd d - 38)) as [Hsc|Hsc].
  - (* short cut: shift beyond the table *)
    rewrite i128_div_rounded_ok by (rewrite ?MAXC_val; lia). cbn [bind].
    unfold rndq. cbn [Z.ltb Z.compare].
    assert (Hk : 39 <= nfd d - n) by lia.
    pose proof (pow10_ge_39 _ Hk) as Hbig. rewrite pow2_128 in Hbig.
    rewrite (rnd_tiny m (coeff d) (10 ^ (nfd d - n))) by lia.
    set (u := rnd m (Z.sgn (coeff d)) 10).
    assert (Hu : -1 <= u <= 1) by (apply rnd_unit; lia).
    destruct (Z.geb_spec n 0); [lia|].
    replace (Z.abs n) with (- n) by lia.
    destruct (Z.eqb_spec u 0) as [E|E].
    + rewrite E. cbn [Z.mul]. split; reflexivity.
    + destruct (Z_le_gt_dec (- n) 38) as [Hs|Hs].
      * rewrite checked_mul_pow_ten_ok by lia. cbn [bind]. unfold checked.
        destruct (in_range I128 (u * 10 ^ (- n))); split; reflexivity.
      * rewrite checked_mul_pow_ten_big by lia. cbn [bind].
        assert (Hr : in_range I128 (u * 10 ^ (- n)) = false).
        { apply in_range_false_iff. rewrite tmin_I128, tmax_I128, pow2_127.
          pose proof (pow10_ge_39 (- n) ltac:(lia)) as Hb. rewrite pow2_128 in Hb. nia. }
        rewrite Hr. split; reflexivity.
  - rewrite (ck_ok pf I8 (nfd d - n)) by (apply in_I8_iff; lia). cbn [bind].
    rewrite (cast_id U8 (nfd d - n)) by (apply in_U8_iff; lia).
    rewrite ten_pow_ok by lia. cbn [bind].
    pose proof (pow10_pos (nfd d - n) ltac:(lia)) as Hpos.
    pose proof (pow10_le_38 (nfd d - n) ltac:(lia)) as Hle. pose proof pow10_38_lt as H38.
    rewrite pow2_127 in H38.
    rewrite i128_div_rounded_ok by (rewrite ?MAXC_val; lia). cbn [bind].
    unfold rndq. destruct (Z.ltb_spec (10 ^ (nfd d - n)) 0); [lia|].
    destruct (Z.geb_spec n 0).
    + rewrite (cast_id U8 n) by (apply in_U8_iff; lia). split; reflexivity.
    + unfold ck_neg. rewrite (ck_ok pf I8 (- n)) by (apply in_I8_iff; lia). cbn [bind].
      rewrite (cast_id U8 (- n)) by (apply in_U8_iff; lia).
      rewrite ten_pow_ok by lia. cbn [bind]. unfold checked.
      destruct (in_range I128 _); split; reflexivity.
Qed.

(* ---- the same, phrased on observable outcomes (what the check evaluates) ---- *)
From FP Require Import Out Run OutFacts.

Lemma round_acc pf m d n :
  wf d = true -> -128 <= n <= 127 ->
  acc_un m Uround d n (run_un pf m Uround d n) = true /\
  acc_un m Ucround d n (run_un pf m Ucround d n) = true.
Proof.
  intros Hwf Hn. destruct (dec_round_both pf m d n Hwf Hn) as [H1 H2].
  cbn [acc_un run_un]. rewrite H1, H2. unfold round_sres.
  destruct (round_spec m d n) as [r|]; cbn; rewrite ?dec_eqb_refl; auto.
Qed.
