(* GenTieConv.v - the integer conversions (src/from_int.rs, src/into_int.rs) as translated from /repo's current source
   (gen/GenConv.v) equal the model (IntForms.v); the repeated statements were produced once by a script (static text). *)
From FP Require Import Machine SrcConsts Pow10 WideDiv Rounding Arith Unops IntForms RoundSpec Out ArithSpec Run GenCore GenDec GenConv MachineFacts.
From FP Require Import GenTieTac GenTiePow UnopsFacts.

Definition conv_res (r : toint) : Z + tferr :=
  match r with TOk v => inl v | TNotInt => inr TE_NotAnIntValue | TRange => inr TE_ValueOutOfRange end.

Lemma tie_TryFrom_u128 pf u :
  g_TryFrom_u128_try_from pf u = Val (match try_from_u128 u with Some d => inl d | None => inr E_InternalOverflow end).
Proof. unfold g_TryFrom_u128_try_from, try_from_u128, g_From_i128_from, from_int. destruct (in_range I128 u); reflexivity. Qed.

Lemma tie_to_i128 pf d : g_TryFrom_by_i128_try_from pf d = (r <- to_i128 d ;; Val (conv_res r)).
Proof.
  unfold g_TryFrom_by_i128_try_from, to_i128. to_model_pow.
  repeat (cbv beta iota zeta; cbn [bind conv_res]; tie2_step); cbn [bind conv_res]; try fin.
Qed.

Lemma tie_From_u8 pf i : g_From_u8_from pf i = Val (from_int i).
Proof. reflexivity. Qed.
Lemma tie_From_i8 pf i : g_From_i8_from pf i = Val (from_int i).
Proof. reflexivity. Qed.
Lemma tie_From_u16 pf i : g_From_u16_from pf i = Val (from_int i).
Proof. reflexivity. Qed.
Lemma tie_From_i16 pf i : g_From_i16_from pf i = Val (from_int i).
Proof. reflexivity. Qed.
Lemma tie_From_u32 pf i : g_From_u32_from pf i = Val (from_int i).
Proof. reflexivity. Qed.
Lemma tie_From_i32 pf i : g_From_i32_from pf i = Val (from_int i).
Proof. reflexivity. Qed.
Lemma tie_From_u64 pf i : g_From_u64_from pf i = Val (from_int i).
Proof. reflexivity. Qed.
Lemma tie_From_i64 pf i : g_From_i64_from pf i = Val (from_int i).
Proof. reflexivity. Qed.
Lemma tie_From_i128 pf i : g_From_i128_from pf i = Val (from_int i).
Proof. reflexivity. Qed.
Lemma tie_to_u8 pf d : g_TryFrom_by_u8_try_from pf d = (r <- to_int U8 d ;; Val (conv_res r)).
Proof.
  unfold g_TryFrom_by_u8_try_from, to_int. rewrite tie_to_i128.
  destruct (to_i128 d) as [[v| |]| | |]; cbn [bind conv_res]; try reflexivity.
  destruct (in_range U8 v); reflexivity.
Qed.
Lemma tie_to_i8 pf d : g_TryFrom_by_i8_try_from pf d = (r <- to_int I8 d ;; Val (conv_res r)).
Proof.
  unfold g_TryFrom_by_i8_try_from, to_int. rewrite tie_to_i128.
  destruct (to_i128 d) as [[v| |]| | |]; cbn [bind conv_res]; try reflexivity.
  destruct (in_range I8 v); reflexivity.
Qed.
Lemma tie_to_u16 pf d : g_TryFrom_by_u16_try_from pf d = (r <- to_int U16 d ;; Val (conv_res r)).
Proof.
  unfold g_TryFrom_by_u16_try_from, to_int. rewrite tie_to_i128.
  destruct (to_i128 d) as [[v| |]| | |]; cbn [bind conv_res]; try reflexivity.
  destruct (in_range U16 v); reflexivity.
Qed.
Lemma tie_to_i16 pf d : g_TryFrom_by_i16_try_from pf d = (r <- to_int I16 d ;; Val (conv_res r)).
Proof.
  unfold g_TryFrom_by_i16_try_from, to_int. rewrite tie_to_i128.
  destruct (to_i128 d) as [[v| |]| | |]; cbn [bind conv_res]; try reflexivity.
  destruct (in_range I16 v); reflexivity.
Qed.
Lemma tie_to_u32 pf d : g_TryFrom_by_u32_try_from pf d = (r <- to_int U32 d ;; Val (conv_res r)).
Proof.
  unfold g_TryFrom_by_u32_try_from, to_int. rewrite tie_to_i128.
  destruct (to_i128 d) as [[v| |]| | |]; cbn [bind conv_res]; try reflexivity.
  destruct (in_range U32 v); reflexivity.
Qed.
Lemma tie_to_i32 pf d : g_TryFrom_by_i32_try_from pf d = (r <- to_int I32 d ;; Val (conv_res r)).
Proof.
  unfold g_TryFrom_by_i32_try_from, to_int. rewrite tie_to_i128.
  destruct (to_i128 d) as [[v| |]| | |]; cbn [bind conv_res]; try reflexivity.
  destruct (in_range I32 v); reflexivity.
Qed.
Lemma tie_to_u64 pf d : g_TryFrom_by_u64_try_from pf d = (r <- to_int U64 d ;; Val (conv_res r)).
Proof.
  unfold g_TryFrom_by_u64_try_from, to_int. rewrite tie_to_i128.
  destruct (to_i128 d) as [[v| |]| | |]; cbn [bind conv_res]; try reflexivity.
  destruct (in_range U64 v); reflexivity.
Qed.
Lemma tie_to_i64 pf d : g_TryFrom_by_i64_try_from pf d = (r <- to_int I64 d ;; Val (conv_res r)).
Proof.
  unfold g_TryFrom_by_i64_try_from, to_int. rewrite tie_to_i128.
  destruct (to_i128 d) as [[v| |]| | |]; cbn [bind conv_res]; try reflexivity.
  destruct (in_range I64 v); reflexivity.
Qed.
Lemma tie_to_u128 pf d : g_TryFrom_by_u128_try_from pf d = (r <- to_int U128 d ;; Val (conv_res r)).
Proof.
  unfold g_TryFrom_by_u128_try_from, to_int. rewrite tie_to_i128.
  destruct (to_i128 d) as [[v| |]| | |]; cbn [bind conv_res]; try reflexivity.
  destruct (in_range U128 v); reflexivity.
Qed.

(* ---- the acceptance theorems about the translated conversions ------------------------------------ *)
Definition src_out_toint (r : res (Z + tferr)) : out :=
  of_res (fun s => match s with inl v => OI v | inr TE_NotAnIntValue => OE E_NOTINT | inr TE_ValueOutOfRange => OE E_RANGE end) r.

Definition src_try_from_decimal (t : ity) (pf : profile) (d : dec) : res (Z + tferr) :=
  match t with
  | U8 => g_TryFrom_by_u8_try_from pf d | I8 => g_TryFrom_by_i8_try_from pf d
  | U16 => g_TryFrom_by_u16_try_from pf d | I16 => g_TryFrom_by_i16_try_from pf d
  | U32 => g_TryFrom_by_u32_try_from pf d | I32 => g_TryFrom_by_i32_try_from pf d
  | U64 => g_TryFrom_by_u64_try_from pf d | I64 => g_TryFrom_by_i64_try_from pf d
  | U128 => g_TryFrom_by_u128_try_from pf d
  | _ => Panic
  end.

Lemma src_out_conv r : src_out_toint (x <- r ;; Val (conv_res x)) = out_toint r.
Proof. destruct r as [[v| |]| | |]; reflexivity. Qed.

Lemma src_toint_acc pf m t d :
  In t [U8; I8; U16; I16; U32; I32; U64; I64; U128] -> wf d = true ->
  acc_un m (Utoint t) d 0 (src_out_toint (src_try_from_decimal t pf d)) = true.
Proof.
  intros Ht Hd. pose proof (toint_acc pf m t d Hd) as H. cbn [run_un] in H.
  cbn [In] in Ht. repeat (destruct Ht as [<-|Ht]; [cbn [src_try_from_decimal];
    first [ rewrite tie_to_u8 | rewrite tie_to_i8 | rewrite tie_to_u16 | rewrite tie_to_i16 | rewrite tie_to_u32
          | rewrite tie_to_i32 | rewrite tie_to_u64 | rewrite tie_to_i64 | rewrite tie_to_u128 ];
    rewrite src_out_conv; exact H|]).
  contradiction.
Qed.

Lemma src_fromint_acc pf i :
  acc_fromint i (of_res OV (g_From_i128_from pf i)) = true /\ acc_fromint i (of_res OV (g_From_u8_from pf i)) = true.
Proof. split; exact (fromint_acc i). Qed.

Lemma src_fromu128_acc pf u : 0 <= u ->
  acc_fromu128 u (of_res (fun s => match s with inl d => OV d | inr _ => OE E_OVERFLOW end) (g_TryFrom_u128_try_from pf u)) = true.
Proof.
  intros Hu. rewrite tie_TryFrom_u128. pose proof (fromu128_acc u Hu) as H. unfold run_fromu128 in H.
  destruct (try_from_u128 u); exact H.
Qed.
