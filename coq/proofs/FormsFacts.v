(* FormsFacts.v — C17: the separately written integer-operand bodies agree with the
   Decimal/Decimal bodies on Decimal::from(i); C20: profile independence. *)
From FP Require Import Machine SrcConsts Pow10 WideDiv Rounding Arith Cmp Unops IntForms Round RoundSpec Out ArithSpec Run.
From FP Require Import MachineFacts Pow10Facts OutFacts RoundFacts AddSubFacts CmpFacts UnopsFacts Lt5Facts MagnitudeFacts
                       RemFacts KernelContract MulFacts DivFacts WideMulFacts WideDivFacts.

(* ---- multiplication: same value whenever both return; only the Decimal/Decimal form
        short-cuts an operand equal to one ---- *)
Definition mul_forms_agree (a b : res dec) (one_involved : bool) : Prop :=
  match a, b with
  | Val r1, Val r2 => cmp_spec r1 r2 = Eq
  | Panic, Panic => True
  | Panic, Val _ => one_involved = true
  | _, _ => False
  end.

Lemma mul_forms pf m d i :
  wf d = true -> - MAXC <= i <= MAXC ->
  mul_forms_agree (di_mul d i) (dec_mul pf m d (mkdec i 0)) (is_one d || (i =? 1)).
Proof.
  intros Hd Hi. destruct (wf_bounds _ Hd) as [Hc Hp].
  unfold di_mul, dec_mul, eq_zero, eq_one, is_one. cbn [coeff nfd].
  rewrite ten_pow_0, ten_pow_ok by lia. cbn [bind].
  unfold checked.
  destruct (Z.eqb_spec (coeff d) 0) as [Ed|Nd].
  { cbn [orb]. rewrite Ed, Z.mul_0_l. cbn. unfold cmp_spec. cbn. reflexivity. }
  destruct (Z.eqb_spec i 0) as [Ei|Ni].
  { cbn [orb]. rewrite Ei, Z.mul_0_r. cbn. unfold cmp_spec. cbn. reflexivity. }
  cbn [orb].
  destruct (Z.eqb_spec i 1) as [E1|N1].
  { rewrite E1, Z.mul_1_r, orb_true_r.
    rewrite (proj2 (in_I128_iff (coeff d))) by lia. cbn [or_panic bind option_map mul_forms_agree]. unfold cmp_spec. cbn [coeff nfd]. apply Z.compare_refl. }
  rewrite orb_false_r.
  destruct (Z.eqb_spec (coeff d) (10 ^ nfd d)) as [Eo|No].
  { (* the Decimal is one: D*D returns from(i); the integer form multiplies *)
    destruct (in_range I128 (coeff d * i)) eqn:R; cbn; [|reflexivity].
    unfold cmp_spec. cbn [coeff nfd]. rewrite Eo. change (10 ^ 0) with 1.
    apply Z.compare_eq_iff. ring. }
  (* general case: p + 0 <= 18, the exact product *)
  unfold checked_mul_rounded. cbn [coeff nfd]. unfold ck_add. rewrite Z.add_0_r.
  rewrite ck_ok by (apply in_range_iff; cbn; lia). cbn [bind].
  change MAX_N_FRAC_DIGITS with 18. destruct (Z.geb_spec 18 (nfd d)); [|lia].
  unfold checked. destruct (in_range I128 (coeff d * i)); cbn [or_panic bind option_map mul_forms_agree]; [unfold cmp_spec; cbn [coeff nfd]; apply Z.compare_refl|exact I].
Qed.

(* ---- div_rounded: identical for n <= 18 ---- *)
Lemma divr_forms pf m d i n : 0 <= n <= 18 ->
  di_div_rounded pf m d i n = dec_div_rounded pf m d (mkdec i 0) n /\
  id_div_rounded pf m i d n = dec_div_rounded pf m (mkdec i 0) d n.
Proof.
  intros Hn. unfold di_div_rounded, id_div_rounded, dec_div_rounded, eq_zero. cbn [coeff nfd].
  change MAX_N_FRAC_DIGITS with 18. destruct (Z.gtb_spec n 18); [lia|]. split; reflexivity.
Qed.

(* ---- comparisons: both forms are the value order ---- *)
Lemma cmp_forms t d i :
  wf d = true -> - MAXC <= i <= MAXC -> (signed t = false -> 0 <= i) ->
  di_partial_cmp t d i = dec_partial_cmp d (mkdec i 0) /\
  id_partial_cmp t i d = dec_partial_cmp (mkdec i 0) d /\
  di_eq t d i = dec_eq d (mkdec i 0).
Proof.
  intros Hd Hi Hs.
  assert (Hw : wf (mkdec i 0) = true) by (apply wf_iff; cbn [coeff nfd]; lia).
  destruct (int_cmp_spec t d i Hd Hs) as (A & B & C).
  rewrite A, B, C. rewrite !partial_cmp_spec, eq_model_spec by assumption. auto.
Qed.

(* ---- C20: operations whose model equals a profile-free function ---- *)
Lemma round_profile_free pf1 pf2 m d n : wf d = true -> -128 <= n <= 127 ->
  dec_round pf1 m d n = dec_round pf2 m d n /\ dec_checked_round pf1 m d n = dec_checked_round pf2 m d n.
Proof.
  intros Hd Hn. destruct (dec_round_both pf1 m d n Hd Hn) as [A1 B1].
  destruct (dec_round_both pf2 m d n Hd Hn) as [A2 B2]. rewrite A1, A2, B1, B2. auto.
Qed.

Lemma floor_ok_unique N m o1 o2 : floor_ok N m o1 -> floor_ok N m o2 -> o1 = o2.
Proof.
  destruct o1 as [[q1 r1]|]; destruct o2 as [[q2 r2]|]; cbn; intros H1 H2; try lia; [|reflexivity].
  destruct H1 as (_ & -> & ->). destruct H2 as (_ & -> & ->). reflexivity.
Qed.

Lemma kernels_profile_free pf1 pf2 a b k m :
  - MAXC <= a <= MAXC -> - MAXC <= b <= MAXC -> 0 <= k <= 38 -> 0 < m <= MAXC ->
  i128_shifted_div_mod_floor pf1 a k m = i128_shifted_div_mod_floor pf2 a k m /\
  i256_div_mod_floor pf1 a b m = i256_div_mod_floor pf2 a b m.
Proof.
  intros Ha Hb Hk Hm.
  destruct (sdmf_contract_holds pf1 a k m Ha Hk Hm) as (o1 & E1 & F1).
  destruct (sdmf_contract_holds pf2 a k m Ha Hk Hm) as (o2 & E2 & F2).
  destruct (i256_contract_holds pf1 a b m Ha Hb Hm) as (p1 & G1 & K1).
  destruct (i256_contract_holds pf2 a b m Ha Hb Hm) as (p2 & G2 & K2).
  rewrite E1, E2, G1, G2. rewrite (floor_ok_unique _ _ _ _ F1 F2), (floor_ok_unique _ _ _ _ K1 K2). auto.
Qed.

Lemma unops_profile_free pf1 pf2 m op d :
  wf d = true ->
  In op [Ufloor; Uceil; Utrunc; Ufract; Uabs; Uneg; Umag; Uiszero; Uisone; Uisneg; Uispos] ->
  run_un pf1 m op d 0 = run_un pf2 m op d 0.
Proof.
  intros Hd Hop. destruct (wf_bounds _ Hd) as [Hc Hp].
  pose proof (pow10_pos (nfd d) ltac:(lia)) as Ht.
  assert (Ht' : 10 ^ nfd d < 2 ^ 127).
  { pose proof (pow10_le_38 (nfd d) ltac:(lia)). pose proof pow10_38_lt. lia. }
  cbn in Hop.
  repeat (destruct Hop as [<-|Hop]); try contradiction; cbn [run_un]; try reflexivity.
  - unfold dec_floor. destruct (nfd d =? 0); [reflexivity|]. rewrite ten_pow_ok by lia. cbn [bind].
    rewrite !div_floor_ok by lia. reflexivity.
  - unfold dec_ceil. destruct (nfd d =? 0); [reflexivity|]. rewrite ten_pow_ok by lia. cbn [bind].
    rewrite !div_ceil_ok by lia. reflexivity.
  - unfold dec_abs, ck_abs. rewrite !ck_ok by (apply in_I128_iff; lia). reflexivity.
  - unfold dec_neg, ck_neg. rewrite !ck_ok by (apply in_I128_iff; lia). reflexivity.
  - unfold dec_magnitude, i128_magnitude. destruct (Z.eqb_spec (coeff d) 0); [reflexivity|].
    assert (Ha : 0 < Z.abs (coeff d) < 2 ^ 127) by lia.
    rewrite !log_u128_ok by (split; [lia|]; apply Z.lt_trans with (2 ^ 127); [lia|reflexivity]).
    cbn [bind]. pose proof (ilog10_i128 _ Ha) as Hl.
    rewrite (cast_id U8) by (apply in_U8_iff'; lia).
    rewrite !(cast_id I8) by (apply in_I8_iff'; lia).
    unfold ck_sub. rewrite !ck_ok by (apply in_I8_iff'; lia). reflexivity.
Qed.
