(* MagnitudeFacts.v — C15: the log10 cascade and Decimal::magnitude. *)
From FP Require Import Machine SrcConsts Pow10 Unops RoundSpec Out ArithSpec Run.
From FP Require Import MachineFacts Pow10Facts OutFacts UnopsFacts Lt5Facts.

(* ---- composing the cascade ---- *)
Lemma ilog10_shift v j : 0 <= j -> 10 ^ j <= v < 10 ^ 60 ->
  ilog10 v = j + ilog10 (v / 10 ^ j).
Proof.
  intros Hj Hv. pose proof (pow10_pos j Hj) as HT. set (T := 10 ^ j) in *.
  assert (Hq : 0 < v / T) by (apply Z.div_str_pos; lia).
  assert (Hq60 : v / T < 10 ^ 60).
  { apply Z.le_lt_trans with v; [|lia]. apply Z.div_le_upper_bound; [lia|]. nia. }
  destruct (ilog10_spec (v / T) ltac:(lia)) as (K0 & K1 & K2).
  destruct (ilog10_spec v ltac:(lia)) as (L0 & L1 & L2).
  set (k := ilog10 (v / T)) in *.
  apply (log10_unique v); try lia.
  pose proof (Z.div_mod v T ltac:(lia)) as E. pose proof (Z.mod_pos_bound v T HT) as B.
  replace (j + k + 1) with (j + (k + 1)) by lia.
  rewrite (Z.pow_add_r 10 j k), (Z.pow_add_r 10 j (k + 1)) by lia. fold T.
  set (P := 10 ^ k) in *. set (Q := 10 ^ (k + 1)) in *. set (w := v / T) in *.
  split.
  - apply Z.le_trans with (T * w); [apply Z.mul_le_mono_nonneg_l; lia|lia].
  - apply Z.lt_le_trans with (T * (w + 1)); [replace (T * (w + 1)) with (T * w + T) by ring; lia|].
    apply Z.mul_le_mono_nonneg_l; lia.
Qed.

Lemma t_div_u t a b : signed t = false -> 0 <= a -> 0 < b -> t_div t a b = Val (a / b).
Proof.
  intros S Ha Hb. unfold t_div. destruct (Z.eqb_spec b 0); [lia|]. rewrite S. cbn [andb].
  rewrite Z.quot_div_nonneg by lia. reflexivity.
Qed.

Lemma in_U32_iff z : in_range U32 z = true <-> 0 <= z <= 4294967295.
Proof. rewrite in_range_iff. reflexivity. Qed.
Lemma in_U64_iff z : in_range U64 z = true <-> 0 <= z <= 18446744073709551615.
Proof. rewrite in_range_iff. reflexivity. Qed.

Lemma ilog10_small v : 0 < v < 100000 -> 0 <= ilog10 v <= 4.
Proof.
  intros Hv. destruct (ilog10_spec v ltac:(split; [lia|]; apply Z.lt_trans with 100000; [lia|reflexivity])) as (K0 & K1 & K2).
  split; [assumption|].
  destruct (Z_le_gt_dec (ilog10 v) 4); [assumption|].
  assert (10 ^ 5 <= 10 ^ ilog10 v) by (apply Z.pow_le_mono_r; lia).
  change (10 ^ 5) with 100000 in *. lia.
Qed.

Lemma lt60 v : v < 2 ^ 128 -> v < 10 ^ 60.
Proof. intros. apply Z.lt_trans with (2 ^ 128); [assumption|reflexivity]. Qed.

Lemma log_u32_ok pf v : 0 < v < 2 ^ 32 -> log_u32 pf v = Val (ilog10 v).
Proof.
  intros Hv. unfold log_u32. change LOG_U32_T with (10 ^ 5).
  change (2 ^ 32) with 4294967296 in Hv.
  destruct (Z.geb_spec v (10 ^ 5)) as [G|L].
  - rewrite t_div_u by (reflexivity || lia || apply pow10_pos; lia). cbn [bind].
    assert (Hq : 0 < v / 10 ^ 5 < 100000).
    { split; [apply Z.div_str_pos; change (10 ^ 5) with 100000 in *; lia|].
      apply Z.div_lt_upper_bound; [reflexivity|]. change (10 ^ 5) with 100000. lia. }
    rewrite log_lt5_ok by exact Hq. cbn [bind].
    pose proof (ilog10_small _ Hq). unfold ck_add. rewrite ck_ok by (apply in_U32_iff; lia).
    f_equal. symmetry. apply (ilog10_shift v 5); [lia|]. split; [assumption|]. apply lt60.
    apply Z.lt_trans with 4294967296; [lia|reflexivity].
  - change (10 ^ 5) with 100000 in L. apply log_lt5_ok. lia.
Qed.

Lemma log_u64_ok pf v : 0 < v < 2 ^ 64 -> log_u64 pf v = Val (ilog10 v).
Proof.
  intros Hv. unfold log_u64. change LOG_U64_T1 with (10 ^ 10). change LOG_U64_T2 with (10 ^ 5).
  change (2 ^ 64) with 18446744073709551616 in Hv.
  assert (H60 : v < 10 ^ 60) by (apply lt60; apply Z.lt_trans with 18446744073709551616; [lia|reflexivity]).
  (* stage 1 *)
  assert (S1 : exists v1 l1, 0 < v1 < 10 ^ 10 /\ (l1 = 0 \/ l1 = 10) /\ ilog10 v = l1 + ilog10 v1 /\
     (if v >=? 10 ^ 10 then v1' <- t_div U64 v (10 ^ 10) ;; Val (v1', 10) else Val (v, 0)) = Val (v1, l1)).
  { destruct (Z.geb_spec v (10 ^ 10)) as [G|L].
    - exists (v / 10 ^ 10), 10. rewrite t_div_u by (reflexivity || lia || apply pow10_pos; lia). cbn [bind].
      refine (conj (conj _ _) (conj _ (conj _ _))).
      + apply Z.div_str_pos. change (10 ^ 10) with 10000000000 in *. lia.
      + apply Z.div_lt_upper_bound; [reflexivity|]. change (10 ^ 10 * 10 ^ 10) with 100000000000000000000. lia.
      + right; reflexivity.
      + apply ilog10_shift; lia.
      + reflexivity.
    - exists v, 0. refine (conj (conj _ _) (conj _ (conj _ _))); try lia; try reflexivity. }
  destruct S1 as (v1 & l1 & Hv1 & Hl1 & E1 & R1). rewrite R1. cbn [bind].
  assert (S2 : exists v2 l2, 0 < v2 < 100000 /\ (l2 = l1 \/ l2 = l1 + 5) /\ ilog10 v = l2 + ilog10 v2 /\
     (if v1 >=? 10 ^ 5 then v2' <- t_div U64 v1 (10 ^ 5) ;; l <- ck_add pf U32 l1 5 ;; Val (v2', l) else Val (v1, l1)) = Val (v2, l2)).
  { destruct (Z.geb_spec v1 (10 ^ 5)) as [G|L].
    - exists (v1 / 10 ^ 5), (l1 + 5). rewrite t_div_u by (reflexivity || lia || apply pow10_pos; lia). cbn [bind].
      unfold ck_add. rewrite ck_ok by (apply in_U32_iff; lia). cbn [bind].
      refine (conj (conj _ _) (conj _ (conj _ _))).
      + apply Z.div_str_pos. change (10 ^ 5) with 100000 in *. lia.
      + apply Z.div_lt_upper_bound; [reflexivity|]. change (10 ^ 10) with (10 ^ 5 * 100000) in Hv1. lia.
      + right; reflexivity.
      + rewrite E1. rewrite (ilog10_shift v1 5); [lia|lia|]. split; [assumption|].
        apply Z.lt_trans with (10 ^ 10); [lia|reflexivity].
      + reflexivity.
    - exists v1, l1. change (10 ^ 5) with 100000 in L.
      refine (conj (conj _ _) (conj _ (conj _ _))); try lia; try reflexivity. }
  destruct S2 as (v2 & l2 & Hv2 & Hl2 & E2 & R2). rewrite R2. cbn [bind].
  rewrite (cast_id U32 v2) by (apply in_U32_iff; lia).
  rewrite log_lt5_ok by exact Hv2. cbn [bind].
  pose proof (ilog10_small _ Hv2). unfold ck_add. rewrite ck_ok by (apply in_U32_iff; lia).
  f_equal. lia.
Qed.

Lemma log_u128_ok pf v : 0 < v < 2 ^ 128 -> log_u128 pf v = Val (ilog10 v).
Proof.
  intros Hv. unfold log_u128. change LOG_U128_T1 with (10 ^ 32). change LOG_U128_T2 with (10 ^ 16).
  assert (H60 : v < 10 ^ 60) by (apply lt60; lia).
  rewrite pow2_128 in Hv.
  destruct (Z.geb_spec v (10 ^ 32)) as [G|L].
  - rewrite t_div_u by (reflexivity || lia || apply pow10_pos; lia). cbn [bind].
    assert (Hq : 0 < v / 10 ^ 32 < 2 ^ 32).
    { split; [apply Z.div_str_pos; change (10 ^ 32) with 100000000000000000000000000000000 in *; lia|].
      apply Z.div_lt_upper_bound; [reflexivity|].
      change (10 ^ 32 * 2 ^ 32) with 429496729600000000000000000000000000000000. lia. }
    rewrite (cast_id U32) by (apply in_U32_iff; change (2 ^ 32) with 4294967296 in Hq; lia).
    rewrite log_u32_ok by exact Hq. cbn [bind].
    assert (Hs : 0 <= ilog10 (v / 10 ^ 32) <= 9).
    { destruct (ilog10_spec (v / 10 ^ 32)) as (K0 & K1 & K2).
      { split; [lia|]. apply Z.lt_trans with (2 ^ 32); [lia|reflexivity]. }
      split; [assumption|]. destruct (Z_le_gt_dec (ilog10 (v / 10 ^ 32)) 9); [assumption|].
      assert (10 ^ 10 <= 10 ^ ilog10 (v / 10 ^ 32)) by (apply Z.pow_le_mono_r; lia).
      change (10 ^ 10) with 10000000000 in *. change (2 ^ 32) with 4294967296 in Hq. lia. }
    unfold ck_add. rewrite ck_ok by (apply in_U32_iff; lia).
    f_equal. symmetry. apply ilog10_shift; lia.
  - assert (S1 : exists v1 l1, 0 < v1 < 2 ^ 64 /\ (l1 = 0 \/ l1 = 16) /\ ilog10 v = l1 + ilog10 v1 /\
       (if v >=? 10 ^ 16 then v1' <- t_div U128 v (10 ^ 16) ;; Val (v1', 16) else Val (v, 0)) = Val (v1, l1)).
    { destruct (Z.geb_spec v (10 ^ 16)) as [G|L2].
      - exists (v / 10 ^ 16), 16. rewrite t_div_u by (reflexivity || lia || apply pow10_pos; lia). cbn [bind].
        refine (conj (conj _ _) (conj _ (conj _ _))).
        + apply Z.div_str_pos. change (10 ^ 16) with 10000000000000000 in *. lia.
        + apply Z.div_lt_upper_bound; [reflexivity|].
          change (10 ^ 32) with (10 ^ 16 * 10 ^ 16) in L.
          apply Z.lt_le_trans with (10 ^ 16 * 10 ^ 16); [lia|].
          apply Z.mul_le_mono_nonneg_l; [apply Z.lt_le_incl; reflexivity|]. apply Z.lt_le_incl. reflexivity.
        + right; reflexivity.
        + apply ilog10_shift; lia.
        + reflexivity.
      - exists v, 0. refine (conj (conj _ _) (conj _ (conj _ _))); try lia; try reflexivity. }
    destruct S1 as (v1 & l1 & Hv1 & Hl1 & E1 & R1). rewrite R1. cbn [bind].
    rewrite (cast_id U64) by (apply in_U64_iff; change (2 ^ 64) with 18446744073709551616 in Hv1; lia).
    rewrite log_u64_ok by exact Hv1. cbn [bind].
    assert (Hs : 0 <= ilog10 v1 <= 19).
    { destruct (ilog10_spec v1) as (K0 & K1 & K2).
      { split; [lia|]. apply Z.lt_trans with (2 ^ 64); [lia|reflexivity]. }
      split; [assumption|]. destruct (Z_le_gt_dec (ilog10 v1) 19); [assumption|].
      assert (10 ^ 20 <= 10 ^ ilog10 v1) by (apply Z.pow_le_mono_r; lia).
      change (10 ^ 20) with 100000000000000000000 in *. change (2 ^ 64) with 18446744073709551616 in Hv1. lia. }
    unfold ck_add. rewrite ck_ok by (apply in_U32_iff; lia).
    f_equal. lia.
Qed.

Lemma in_I8_iff' z : in_range I8 z = true <-> -128 <= z <= 127.
Proof. rewrite in_range_iff. reflexivity. Qed.
Lemma in_U8_iff' z : in_range U8 z = true <-> 0 <= z <= 255.
Proof. rewrite in_range_iff. reflexivity. Qed.

Lemma ilog10_i128 v : 0 < v < 2 ^ 127 -> 0 <= ilog10 v <= 38.
Proof.
  intros Hv. destruct (ilog10_spec v) as (K0 & K1 & K2).
  { split; [lia|]. apply Z.lt_trans with (2 ^ 127); [lia|reflexivity]. }
  split; [assumption|]. destruct (Z_le_gt_dec (ilog10 v) 38); [assumption|].
  assert (10 ^ 39 <= 10 ^ ilog10 v) by (apply Z.pow_le_mono_r; lia).
  pose proof pow10_39_gt. lia.
Qed.

Lemma magnitude_acc pf m d : wf d = true ->
  acc_un m Umag d 0 (run_un pf m Umag d 0) = true.
Proof.
  intros Hd. destruct (wf_bounds _ Hd) as [Hc Hp].
  cbn [acc_un run_un]. unfold dec_magnitude, magnitude_spec, i128_magnitude.
  destruct (Z.eqb_spec (coeff d) 0); [apply out_eqb_refl|].
  assert (Ha : 0 < Z.abs (coeff d) < 2 ^ 127) by lia.
  rewrite log_u128_ok by (split; [lia|]; apply Z.lt_trans with (2 ^ 127); [lia|reflexivity]).
  cbn [bind]. pose proof (ilog10_i128 _ Ha) as Hl.
  rewrite (cast_id U8) by (apply in_U8_iff'; lia).
  rewrite !(cast_id I8) by (apply in_I8_iff'; lia).
  unfold ck_sub. rewrite ck_ok by (apply in_I8_iff'; lia). cbn. apply Z.eqb_refl.
Qed.
