(* RemFacts.v — C10: % and checked_rem compute the truncated-division remainder exactly. *)
From FP Require Import Machine SrcConsts Pow10 WideDiv Rounding Arith IntForms RoundSpec Out ArithSpec Run.
From FP Require Import MachineFacts Pow10Facts OutFacts CmpFacts UnopsFacts.

(* characterisation of the truncated remainder *)
Lemma rem_char x b r q :
  b <> 0 -> x = b * q + r -> Z.abs r < Z.abs b -> 0 <= r * x -> r = Z.rem x b.
Proof.
  intros Hb E Hr Hs.
  pose proof (Z.quot_rem' x b) as E'.
  pose proof (Z.rem_bound_abs x b Hb) as B.
  pose proof (Z.rem_sign_mul x b Hb) as S.
  set (r' := Z.rem x b) in *. set (q' := Z.quot x b) in *.
  assert (D : b * (q - q') = r' - r) by lia.
  destruct (Z.eq_dec q q') as [->|Hq]; [lia|].
  exfalso.
  assert (Z.abs b <= Z.abs (r' - r)).
  { rewrite <- D. rewrite Z.abs_mul. assert (1 <= Z.abs (q - q')) by lia. nia. }
  destruct (Z.lt_trichotomy x 0) as [Hx|[Hx|Hx]].
  - assert (r <= 0) by nia. assert (r' <= 0) by nia. lia.
  - assert (r' = 0) by (unfold r'; rewrite Hx; apply Z.rem_0_l; assumption).
    assert (b * q = - r) by lia. assert (Z.abs b * Z.abs q = Z.abs r) by (rewrite <- Z.abs_mul; lia).
    destruct (Z.eq_dec q 0); [subst; lia|]. assert (1 <= Z.abs q) by lia. nia.
  - assert (0 <= r) by nia. assert (0 <= r') by nia. lia.
Qed.

Lemma rem_scale a b k : 0 < k -> b <> 0 -> Z.rem (a * k) (b * k) = Z.rem a b * k.
Proof.
  intros Hk Hb. symmetry. apply (rem_char _ _ _ (Z.quot a b)); try nia.
  - pose proof (Z.quot_rem' a b). nia.
  - pose proof (Z.rem_bound_abs a b Hb). rewrite !Z.abs_mul. nia.
  - pose proof (Z.rem_sign_mul a b Hb). nia.
Qed.

Lemma rem_small_abs a b : Z.abs a < Z.abs b -> Z.rem a b = a.
Proof.
  intros H. symmetry. apply (rem_char _ _ _ 0); try lia; try nia.
Qed.

(* one step of the digit-by-digit reduction *)
Lemma rem_step a b c : b <> 0 -> 0 < c -> Z.rem (Z.rem a b * c) b = Z.rem (a * c) b.
Proof.
  intros Hb Hc.
  pose proof (Z.quot_rem' a b) as E. pose proof (Z.rem_bound_abs a b Hb) as B.
  pose proof (Z.rem_sign_mul a b Hb) as S.
  set (r := Z.rem a b) in *. set (q := Z.quot a b) in *.
  pose proof (Z.quot_rem' (r * c) b) as E2. pose proof (Z.rem_bound_abs (r * c) b Hb) as B2.
  pose proof (Z.rem_sign_mul (r * c) b Hb) as S2.
  set (r2 := Z.rem (r * c) b) in *. set (q2 := Z.quot (r * c) b) in *.
  apply (rem_char _ _ _ (q * c + q2)); try assumption.
  - nia.
  - (* sign: r2 has the sign of r*c, which has the sign of a*c *)
    destruct (Z.lt_trichotomy a 0) as [Ha|[Ha|Ha]].
    + destruct (Z.eq_dec r 0) as [R0|R0].
      * assert (r2 = 0) by (unfold r2; rewrite R0, Z.mul_0_l; apply Z.rem_0_l; assumption). nia.
      * assert (r < 0) by nia. assert (r * c < 0) by nia. assert (r2 <= 0) by nia.
        assert (a * c < 0) by nia. nia.
    + rewrite Ha, Z.mul_0_l, Z.mul_0_r. lia.
    + destruct (Z.eq_dec r 0) as [R0|R0].
      * assert (r2 = 0) by (unfold r2; rewrite R0, Z.mul_0_l; apply Z.rem_0_l; assumption). nia.
      * assert (0 < r) by nia. assert (0 < r * c) by nia. assert (0 <= r2) by nia.
        assert (0 < a * c) by nia. nia.
Qed.

Lemma rem_loop_spec fuel : forall r d k,
  d <> 0 -> 0 <= k -> (Z.to_nat k < fuel)%nat ->
  in_range I128 r = true -> in_range I128 d = true -> (r <> tmin I128 \/ d <> -1) ->
  Z.abs r < Z.abs d ->
  (rem_loop fuel r d k = Val None \/
   rem_loop fuel r d k = Val (Some (Z.rem (r * 10 ^ k) d))).
Proof.
  induction fuel as [|f IH]; intros r d k Hd Hk Hf Rr Rd Hm Hlt; [lia|].
  cbn [rem_loop].
  destruct (Z.eqb_spec r 0) as [E|E]; cbn [negb andb].
  - right. subst r. rewrite Z.mul_0_l, Z.rem_0_l by assumption. reflexivity.
  - destruct (Z.gtb_spec k 0) as [Hpos|Hz].
    + unfold checked. destruct (in_range I128 (r * 10)) eqn:R10; [|left; reflexivity].
      apply in_I128_iff in R10. apply in_I128_iff in Rd.
      rewrite t_rem_ok by (rewrite ?tmin_I128 in *; lia). cbn [bind].
      pose proof (Z.rem_bound_abs (r * 10) d Hd) as B.
      assert (Rr' : in_range I128 (Z.rem (r * 10) d) = true).
      { apply in_I128_iff. lia. }
      destruct (IH (Z.rem (r * 10) d) d (k - 1) Hd ltac:(lia) ltac:(lia) Rr' ltac:(apply in_I128_iff; lia)
                   ltac:(left; rewrite tmin_I128; lia) B) as [H|H].
      * left; exact H.
      * right. rewrite H. do 2 f_equal.
        rewrite rem_step by (assumption || lia).
        replace k with (1 + (k - 1)) at 2 by lia. rewrite Z.pow_add_r by lia. change (10 ^ 1) with 10.
        f_equal. ring.
    + right. assert (k = 0) by lia. subst k. change (10 ^ 0) with 1. rewrite Z.mul_1_r.
      rewrite rem_small_abs by assumption. reflexivity.
Qed.

Lemma scaled_ne_min c k : 0 < k -> c * 10 ^ k <> - 2 ^ 127.
Proof.
  intros Hk E.
  assert (H : (c * 10 ^ k) mod 5 = 0).
  { replace k with (1 + (k - 1)) by lia. rewrite Z.pow_add_r by lia. change (10 ^ 1) with (2 * 5).
    replace (c * (2 * 5 * 10 ^ (k - 1))) with (c * 2 * 10 ^ (k - 1) * 5) by ring. apply Z_mod_mult. }
  rewrite E in H. vm_compute in H. discriminate.
Qed.

(* ---- fn rem ---- *)
Definition rem_ok (cx px cy py : Z) (o : option (Z * Z)) : Prop :=
  let p := Z.max px py in
  let a := cx * 10 ^ (p - px) in
  let b := cy * 10 ^ (p - py) in
  match o with
  | Some (r, n) => n = p /\ r = Z.rem a b
  | None => px < py /\ in_range I128 a = false
  end.

Lemma rem_core_spec cx px cy py :
  - 2 ^ 127 < cx < 2 ^ 127 -> - 2 ^ 127 < cy < 2 ^ 127 -> cy <> 0 ->
  0 <= px <= 18 -> 0 <= py <= 18 ->
  exists o, rem_core cx px cy py = Val o /\ rem_ok cx px cy py o.
Proof.
  intros Hx Hy Hnz Hpx Hpy. unfold rem_core, rem_ok.
  destruct (Z.compare_spec px py) as [E|L|G].
  - subst py. rewrite Z.max_id, Z.sub_diag. change (10 ^ 0) with 1. rewrite !Z.mul_1_r.
    rewrite t_rem_ok by lia. cbn [bind]. eexists. split; [reflexivity|]. cbn. auto.
  - (* dividend has fewer digits: scale the dividend, fall back to the digit loop *)
    rewrite Z.max_r by lia. rewrite Z.sub_diag. change (10 ^ 0) with 1. rewrite Z.mul_1_r.
    rewrite checked_mul_pow_ten_ok by lia. cbn [bind]. unfold checked.
    pose proof (pow10_pos (py - px) ltac:(lia)) as Hk.
    destruct (in_range I128 (cx * 10 ^ (py - px))) eqn:Ho.
    + apply in_I128_iff in Ho. pose proof (scaled_ne_min cx (py - px) ltac:(lia)).
      rewrite t_rem_ok by (assumption || (left; assumption)). cbn [bind].
      eexists. split; [reflexivity|]. cbn. auto.
    + rewrite t_rem_ok by lia. cbn [bind].
      pose proof (Z.rem_bound_abs cx cy Hnz) as B.
      destruct (rem_loop_spec 256 (Z.rem cx cy) cy (py - px) Hnz ltac:(lia) ltac:(lia)) as [H|H].
      * apply in_I128_iff. lia.
      * apply in_I128_iff. lia.
      * left. rewrite tmin_I128. lia.
      * exact B.
      * rewrite H. cbn [bind option_map]. eexists. split; [reflexivity|]. cbn. auto.
      * rewrite H. cbn [bind option_map]. eexists. split; [reflexivity|]. cbn. split; [reflexivity|].
        apply rem_step; assumption.
  - (* divisor has fewer digits: scale the divisor; if that overflows the dividend is the remainder *)
    rewrite Z.max_l by lia. rewrite Z.sub_diag. change (10 ^ 0) with 1. rewrite Z.mul_1_r.
    rewrite checked_mul_pow_ten_ok by lia. cbn [bind]. unfold checked.
    pose proof (pow10_pos (px - py) ltac:(lia)) as Hk.
    destruct (in_range I128 (cy * 10 ^ (px - py))) eqn:Ho.
    + apply in_I128_iff in Ho. rewrite t_rem_ok by nia. cbn [bind].
      eexists. split; [reflexivity|]. cbn. auto.
    + eexists. split; [reflexivity|]. cbn. split; [reflexivity|].
      symmetry. apply rem_small_abs.
      apply in_range_false_iff in Ho. rewrite tmin_I128, tmax_I128 in Ho. lia.
Qed.

Lemma veq_intro c p d : 0 <= nfd d <= p -> coeff d * 10 ^ p = c * 10 ^ nfd d -> veq c p d = true.
Proof.
  intros Hn E. unfold veq. rewrite E, Z.eqb_refl. cbn [andb].
  destruct (Z.leb_spec 0 (nfd d)); [|lia]. destruct (Z.leb_spec (nfd d) p); [reflexivity|lia].
Qed.

Lemma rem_acc_general x y :
  wf x = true -> wf y = true -> coeff y <> 0 ->
  forall o, rem_ok (coeff x) (nfd x) (coeff y) (nfd y) o ->
  acc_op (rem_spec x y) (match o with Some (c, n) => OV (mkdec c n) | None => OP end) = true /\
  acc_chk (rem_spec x y) (match o with Some (c, n) => OV (mkdec c n) | None => ON end) = true.
Proof.
  intros Hx Hy Hnz o Ho. destruct (wf_bounds _ Hx) as [Hcx Hpx]. destruct (wf_bounds _ Hy) as [Hcy Hpy].
  unfold rem_spec, is_zero. destruct (Z.eqb_spec (coeff y) 0); [contradiction|].
  unfold rem_ok in Ho. cbv zeta in Ho.
  set (p := Z.max (nfd x) (nfd y)) in *.
  destruct o as [[r n0]|].
  - destruct Ho as [-> ->].
    assert (V : veq (Z.rem (coeff x * 10 ^ (p - nfd x)) (coeff y * 10 ^ (p - nfd y))) p
                    (mkdec (Z.rem (coeff x * 10 ^ (p - nfd x)) (coeff y * 10 ^ (p - nfd y))) p) = true).
    { apply veq_intro; cbn [nfd coeff]; [lia|reflexivity]. }
    destruct ((nfd x <? nfd y) && negb (in_range I128 (coeff x * 10 ^ (p - nfd x)))); cbn; rewrite V; auto.
  - destruct Ho as [L Hr]. destruct (Z.ltb_spec (nfd x) (nfd y)); [|lia]. rewrite Hr. cbn. auto.
Qed.

Lemma acc_value_zero (s : sres) :
  (exists p, 0 <= p /\ (s = SValue 0 p \/ s = SValueOrFail 0 p)) ->
  acc_op s (OV DZERO) = true /\ acc_chk s (OV DZERO) = true.
Proof.
  intros [p [Hp [-> | ->]]]; cbn; unfold veq; cbn;
    (destruct (Z.leb_spec 0 p); [split; reflexivity|lia]).
Qed.

Lemma rem_spec_zero_dividend x y :
  coeff x = 0 -> coeff y <> 0 -> 0 <= nfd x -> 0 <= nfd y ->
  exists p, 0 <= p /\ (rem_spec x y = SValue 0 p \/ rem_spec x y = SValueOrFail 0 p).
Proof.
  intros Hx Hy Px Py. unfold rem_spec, is_zero. destruct (Z.eqb_spec (coeff y) 0); [contradiction|].
  rewrite Hx, Z.mul_0_l. rewrite Z.rem_0_l.
  - exists (Z.max (nfd x) (nfd y)). split; [lia|].
    destruct ((nfd x <? nfd y) && negb (in_range I128 0)); auto.
  - pose proof (pow10_pos (Z.max (nfd x) (nfd y) - nfd y) ltac:(lia)). nia.
Qed.

Lemma rem_all_acc pf m x y :
  wf x = true -> wf y = true ->
  acc_dd m Brem x y 0 (run_dd pf m Brem x y 0) = true /\
  acc_dd m Bcrem x y 0 (run_dd pf m Bcrem x y 0) = true.
Proof.
  intros Hx Hy. destruct (wf_bounds _ Hx) as [Hcx Hpx]. destruct (wf_bounds _ Hy) as [Hcy Hpy].
  cbn [acc_dd run_dd]. unfold dec_rem, dec_checked_rem, eq_zero, eq_one.
  destruct (Z.eqb_spec (coeff y) 0) as [Ey|Ey].
  { unfold rem_spec, is_zero. rewrite Ey. cbn. auto. }
  destruct (Z.eqb_spec (coeff x) 0) as [Ex|Ex].
  { cbn. apply acc_value_zero. apply rem_spec_zero_dividend; lia. }
  rewrite ten_pow_ok by lia. cbn [bind].
  destruct (Z.eqb_spec (coeff y) (10 ^ nfd y)) as [E1|E1].
  - (* divisor equals one: fract *)
    set (p := Z.max (nfd x) (nfd y)).
    pose proof (pow10_pos (nfd x) ltac:(lia)) as Ppx.
    pose proof (pow10_pos (p - nfd x) ltac:(unfold p; lia)) as Pk.
    assert (Hb : coeff y * 10 ^ (p - nfd y) = 10 ^ nfd x * 10 ^ (p - nfd x)).
    { rewrite E1. rewrite <- !Z.pow_add_r by (unfold p; lia). f_equal. lia. }
    assert (Hr : Z.rem (coeff x * 10 ^ (p - nfd x)) (coeff y * 10 ^ (p - nfd y))
                 = Z.rem (coeff x) (10 ^ nfd x) * 10 ^ (p - nfd x)).
    { rewrite Hb. apply rem_scale; lia. }
    assert (S : exists q : Z, rem_spec x y = SValue (Z.rem (coeff x) (10 ^ nfd x) * 10 ^ (p - nfd x)) p \/
                          rem_spec x y = SValueOrFail (Z.rem (coeff x) (10 ^ nfd x) * 10 ^ (p - nfd x)) p).
    { exists 0. unfold rem_spec, is_zero. destruct (Z.eqb_spec (coeff y) 0); [contradiction|]. fold p.
      rewrite Hr. destruct ((nfd x <? nfd y) && negb (in_range I128 _)); auto. }
    destruct S as [_ S].
    unfold dec_fract. destruct (Z.eqb_spec (nfd x) 0) as [E0|E0].
    + (* integral dividend: ZERO *)
      assert (Z0 : Z.rem (coeff x) (10 ^ nfd x) = 0) by (rewrite E0; apply Z.rem_1_r).
      rewrite Z0, Z.mul_0_l in S. cbn [bind out_dec out_odec of_res of_opt].
      apply acc_value_zero. exists p. split; [unfold p; lia|exact S].
    + rewrite ten_pow_ok by lia. cbn [bind]. rewrite t_rem_ok by lia. cbn [bind out_dec out_odec of_res of_opt].
      assert (V : veq (Z.rem (coeff x) (10 ^ nfd x) * 10 ^ (p - nfd x)) p (mkdec (Z.rem (coeff x) (10 ^ nfd x)) (nfd x)) = true).
      { apply veq_intro; cbn [coeff nfd]; [unfold p; lia|].
        rewrite <- Z.mul_assoc. f_equal. rewrite <- Z.pow_add_r by (unfold p; lia). f_equal. lia. }
      destruct S as [-> | ->]; cbn; rewrite V; auto.
  - destruct (rem_core_spec (coeff x) (nfd x) (coeff y) (nfd y)) as (o & Ho & Hok); try lia.
    rewrite Ho. cbn [bind].
    destruct (rem_acc_general x y Hx Hy Ey o Hok) as [A1 A2].
    destruct o as [[c n]|]; cbn [out_dec out_odec of_res of_opt option_map]; split; assumption.
Qed.

(* ---- integer operands: the separately written bodies are the Decimal/Decimal body on Decimal::from(i) ---- *)
Lemma ten_pow_0 : ten_pow 0 = Val 1.
Proof. reflexivity. Qed.

Lemma di_rem_eq d i :
  di_rem d i = dec_rem d (mkdec i 0) /\ di_checked_rem d i = dec_checked_rem d (mkdec i 0).
Proof.
  unfold di_rem, di_checked_rem, dec_rem, dec_checked_rem, eq_zero, eq_one. cbn [coeff nfd].
  rewrite ten_pow_0. cbn [bind].
  destruct (i =? 0); [split; reflexivity|].
  destruct (coeff d =? 0); [split; reflexivity|].
  destruct (i =? 1).
  - cbn [bind]. destruct (dec_fract d); split; reflexivity.
  - destruct (rem_core (coeff d) (nfd d) i 0) as [[[c n]|]| | |]; split; reflexivity.
Qed.

Lemma id_rem_eq i d :
  id_rem i d = dec_rem (mkdec i 0) d /\ id_checked_rem i d = dec_checked_rem (mkdec i 0) d.
Proof.
  unfold id_rem, id_checked_rem, dec_rem, dec_checked_rem, eq_zero, eq_one. cbn [coeff nfd].
  destruct (coeff d =? 0); [split; reflexivity|].
  destruct (i =? 0); [split; reflexivity|].
  destruct (ten_pow (nfd d)) as [t| | |]; cbn [bind]; try (split; reflexivity).
  destruct (coeff d =? t).
  - unfold dec_fract. cbn [nfd Z.eqb bind]. split; reflexivity.
  - destruct (rem_core i 0 (coeff d) (nfd d)) as [[[c n]|]| | |]; split; reflexivity.
Qed.

Lemma rem_int_acc pf m t d i :
  wf d = true -> - MAXC <= i <= MAXC ->
  acc_di m Brem d i 0 (run_di pf m Brem t d i 0) = true /\
  acc_di m Bcrem d i 0 (run_di pf m Bcrem t d i 0) = true /\
  acc_id m Brem i d 0 (run_id pf m Brem t i d 0) = true /\
  acc_id m Bcrem i d 0 (run_id pf m Bcrem t i d 0) = true.
Proof.
  intros Hd Hi.
  assert (Hw : wf (mkdec i 0) = true) by (apply wf_iff; cbn [coeff nfd]; lia).
  destruct (di_rem_eq d i) as [E1 E2]. destruct (id_rem_eq i d) as [E3 E4].
  destruct (rem_all_acc pf m d (mkdec i 0) Hd Hw) as [A1 A2].
  destruct (rem_all_acc pf m (mkdec i 0) d Hw Hd) as [A3 A4].
  cbn [acc_di acc_id acc_int acc_dd run_di run_id run_dd] in *.
  rewrite E1, E2, E3, E4. auto.
Qed.
