(* RoundSpecFacts.v — facts about the specification [rnd] itself, and the
   bridge from the floor quotient / non-negative remainder the code computes to
   the sign-magnitude form of the specification. *)
From FP Require Import Machine RoundSpec MachineFacts.

(* truncated quotient and remainder from floor quotient q and remainder r *)
Lemma quot_rem_of_floor q r d :
  0 < d -> 0 <= r < d ->
  let n := q * d + r in
  (r = 0 -> Z.quot n d = q /\ Z.rem n d = 0) /\
  (0 < r -> 0 <= q -> Z.quot n d = q /\ Z.rem n d = r) /\
  (0 < r -> q < 0 -> Z.quot n d = q + 1 /\ Z.rem n d = r - d).
Proof.
  intros Hd Hr n.
  pose proof (Z.quot_rem' n d) as E.
  pose proof (Z.rem_bound_abs n d ltac:(lia)) as B.
  pose proof (Z.rem_sign_mul n d ltac:(lia)) as S.
  assert (Hn : n = q * d + r) by reflexivity. clearbody n.
  repeat split; intros.
  - subst r. assert (Z.quot n d = q) by nia. nia.
  - subst r. assert (Z.quot n d = q) by nia. nia.
  - assert (0 <= n) by nia. assert (Z.quot n d = q) by nia. lia.
  - assert (0 <= n) by nia. assert (Z.quot n d = q) by nia. nia.
  - assert (n < 0) by nia. assert (Z.quot n d = q + 1) by nia. lia.
  - assert (n < 0) by nia. assert (Z.quot n d = q + 1) by nia. nia.
Qed.

(* the same rounding decision, expressed on floor quotient and remainder *)
Definition rnd_floor (m : mode) (q r d : Z) : Z :=
  if r =? 0 then q else
  match m with
  | RDown => if q <? 0 then q + 1 else q
  | RUp => if q >=? 0 then q + 1 else q
  | RCeiling => q + 1
  | RFloor => q
  | RHalfUp => if (2 * r >? d) || ((2 * r =? d) && (q >=? 0)) then q + 1 else q
  | RHalfDown => if (2 * r >? d) || ((2 * r =? d) && (q <? 0)) then q + 1 else q
  | RHalfEven => if (2 * r >? d) || ((2 * r =? d) && negb (Z.rem q 2 =? 0)) then q + 1 else q
  | R05Up => if ((q >=? 0) && (Z.rem q 5 =? 0)) || ((q <? 0) && negb (Z.rem (q + 1) 5 =? 0))
             then q + 1 else q
  end.

Lemma odd_rem2 q : Z.odd q = negb (Z.rem q 2 =? 0).
Proof.
  rewrite <- Z.negb_even. f_equal.
  destruct (Z.eqb_spec (Z.rem q 2) 0) as [E|E].
  - apply Z.even_spec. pose proof (Z.quot_rem' q 2). exists (Z.quot q 2). lia.
  - destruct (Z.even q) eqn:Ev; [|reflexivity]. exfalso. apply E.
    apply Z.even_spec in Ev. destruct Ev as [k ->]. rewrite Z.mul_comm. apply Z.rem_mul. lia.
Qed.

Lemma rnd_floor_eq m q r d :
  0 < d -> 0 <= r < d -> rnd m (q * d + r) d = rnd_floor m q r d.
Proof.
  intros Hd Hr. destruct (quot_rem_of_floor q r d Hd Hr) as (H0 & Hp & Hn).
  unfold rnd, rnd_floor. set (n := q * d + r) in *.
  destruct (Z.eqb_spec r 0) as [Er|Er].
  - destruct (H0 Er) as [-> ->]. reflexivity.
  - assert (0 < r) by lia.
    destruct (Z_lt_le_dec q 0) as [Hq|Hq].
    + destruct (Hn ltac:(lia) Hq) as [-> ->].
      assert (Hneg : n < 0) by (unfold n; nia).
      replace (Z.abs (r - d)) with (d - r) by lia.
      replace (Z.sgn n) with (-1) by lia.
      destruct (Z.eqb_spec (d - r) 0); [lia|].
      replace (q + 1 + -1) with q by lia.
      destruct m.
      * destruct (Z.ltb_spec q 0); [|lia]. destruct (Z.geb_spec q 0); [lia|]. cbn [andb orb].
        destruct (Z.eqb_spec (Z.rem (q + 1) 5) 0); reflexivity.
      * destruct (Z.ltb_spec 0 n); [lia|reflexivity].
      * destruct (Z.ltb_spec q 0); [reflexivity|lia].
      * destruct (Z.ltb_spec n 0); [reflexivity|lia].
      * destruct (Z.ltb_spec d (2 * (d - r))); destruct (Z.gtb_spec (2 * r) d);
          destruct (Z.eqb_spec (2 * r) d); destruct (Z.ltb_spec q 0); cbn [andb orb]; lia.
      * rewrite (odd_rem2 (q + 1)).
        destruct (Z.ltb_spec d (2 * (d - r))); destruct (Z.gtb_spec (2 * r) d);
          destruct (Z.eqb_spec (2 * r) d); destruct (Z.eqb_spec d (2 * (d - r)));
          cbn [andb orb]; try lia.
        rewrite <- !odd_rem2. replace (q + 1) with (Z.succ q) by lia. rewrite Z.odd_succ.
        rewrite <- Z.negb_odd. destruct (Z.odd q); reflexivity.
      * destruct (Z.leb_spec d (2 * (d - r))); destruct (Z.gtb_spec (2 * r) d);
          destruct (Z.eqb_spec (2 * r) d); destruct (Z.geb_spec q 0); cbn [andb orb]; lia.
      * destruct (Z.geb_spec q 0); [lia|reflexivity].
    + destruct (Hp ltac:(lia) Hq) as [-> ->].
      assert (Hpos : 0 < n) by (unfold n; nia).
      replace (Z.abs r) with r by lia.
      replace (Z.sgn n) with 1 by lia.
      destruct (Z.eqb_spec r 0); [lia|].
      destruct m.
      * destruct (Z.ltb_spec q 0); [lia|]. destruct (Z.geb_spec q 0); [|lia]. cbn [andb orb].
        destruct (Z.eqb_spec (Z.rem q 5) 0); reflexivity.
      * destruct (Z.ltb_spec 0 n); [reflexivity|lia].
      * destruct (Z.ltb_spec q 0); [lia|reflexivity].
      * destruct (Z.ltb_spec n 0); [lia|reflexivity].
      * destruct (Z.ltb_spec d (2 * r)); destruct (Z.gtb_spec (2 * r) d);
          destruct (Z.eqb_spec (2 * r) d); destruct (Z.ltb_spec q 0); cbn [andb orb]; lia.
      * rewrite (odd_rem2 q).
        destruct (Z.ltb_spec d (2 * r)); destruct (Z.gtb_spec (2 * r) d);
          destruct (Z.eqb_spec (2 * r) d); destruct (Z.eqb_spec d (2 * r));
          cbn [andb orb]; lia.
      * destruct (Z.leb_spec d (2 * r)); destruct (Z.gtb_spec (2 * r) d);
          destruct (Z.eqb_spec (2 * r) d); destruct (Z.geb_spec q 0); cbn [andb orb]; lia.
      * destruct (Z.geb_spec q 0); [reflexivity|lia].
Qed.

Lemma rnd_floor_range m q r d : rnd_floor m q r d = q \/ rnd_floor m q r d = q + 1.
Proof.
  unfold rnd_floor. destruct (r =? 0); [auto|].
  destruct m; repeat match goal with |- context [if ?b then _ else _] => destruct b end; auto.
Qed.
