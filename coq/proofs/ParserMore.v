(* ParserMore.v — consequences of the parser theorems: the Dec! macro premise (C18) and
   the round trip parse (to_string d) = d (C07). *)
From FP Require Import Machine SrcConsts Pow10 Parser Format RoundSpec Out ArithSpec StringSpec Run RunMore.
From FP Require Import MachineFacts Pow10Facts OutFacts SwarFacts ParserFacts MacroFacts FormatFacts.

Local Open Scope Z_scope.

(* ---------------- C18: the premise of macro_agrees holds for every string ---------------- *)
Lemma strip_cases s :
  strip_sign_blank s = s \/ exists c rest, s = c :: 32 :: rest /\ strip_sign_blank s = c :: rest.
Proof.
  destruct s as [|c [|b rest]]; [left; reflexivity|left; reflexivity|].
  unfold strip_sign_blank.
  destruct b as [|p|p]; try (left; reflexivity).
  do 6 (try (destruct p as [p|p|]; try (left; reflexivity))).
  destruct ((c =? B_MINUS) || (c =? B_PLUS)); [right; eexists _, _; split; reflexivity|left; reflexivity].
Qed.

Lemma strip_ok s : Forall byte_ok s -> len s < 2 ^ 62 ->
  Forall byte_ok (strip_sign_blank s) /\ len (strip_sign_blank s) < 2 ^ 62.
Proof.
  intros Hb Hl. destruct (strip_cases s) as [->|(c & rest & -> & ->)]; [auto|].
  inversion Hb as [|? ? Hc Hr]; subst. inversion Hr as [|? ? _ Hr']; subst.
  split; [constructor; assumption|]. unfold len in *. cbn [length] in *. lia.
Qed.

Theorem macro_agrees_total pf s : Forall byte_ok s -> len s < 2 ^ 62 ->
  same_result (dec_macro pf s) (from_str pf (strip_sign_blank s)).
Proof.
  intros Hb Hl. destruct (strip_ok s Hb Hl) as [Hb' Hl']. apply macro_agrees.
  - intros c e E. exact (str_to_dec_range pf _ c e Hb' Hl' E).
  - eexists. apply str_to_dec_core; assumption.
Qed.

(* ---------------- C07: the round trip ---------------- *)
Definition sub48 (b : Z) : Z := b - 48.
Definition alldig (l : list Z) : Prop := Forall (fun x => isdig x = true) l.

Lemma isdig_48 v : 0 <= v <= 9 -> isdig (48 + v) = true.
Proof. intros H. unfold isdig. apply andb_true_iff. split; apply Z.leb_le; lia. Qed.

Lemma sdigits_props : forall f v, 0 <= v < 10 ^ Z.of_nat f -> (0 < f)%nat ->
  alldig (sdigits f v) /\ dv 0 (map sub48 (sdigits f v)) = v /\ (0 < length (sdigits f v) <= f)%nat.
Proof.
  induction f as [|f IH]; intros v Hv Hf; [lia|]. rewrite sdigits_S. destruct (Z.ltb_spec v 10) as [Hs|Hs].
  - refine (conj _ (conj _ _)).
    + constructor; [apply isdig_48; lia|constructor].
    + unfold dv, sub48. cbn [map fold_left]. lia.
    + cbn [length]. lia.
  - rewrite Nat2Z.inj_succ, Z.pow_succ_r in Hv by lia.
    destruct f as [|f]; [cbn in Hv; lia|].
    destruct (IH (v / 10)) as (A & B & C); [|lia|].
    { split; [apply Z.div_pos; lia|apply Z.div_lt_upper_bound; lia]. }
    pose proof (Z.mod_pos_bound v 10 ltac:(lia)) as Hm. pose proof (Z.div_mod v 10 ltac:(lia)) as Ed.
    refine (conj _ (conj _ _)).
    + apply Forall_app. split; [exact A|]. constructor; [apply isdig_48; lia|constructor].
    + rewrite map_app, dv_app, B. unfold dv, sub48. cbn [map fold_left]. lia.
    + rewrite app_length. cbn [length]. lia.
Qed.

Lemma map_szeros n : map sub48 (szeros n) = repeat 0 n.
Proof. induction n as [|n IH]; [reflexivity|]. cbn [szeros map repeat]. rewrite IH. reflexivity. Qed.
Lemma alldig_szeros n : alldig (szeros n).
Proof. induction n as [|n IH]; [constructor|]. cbn [szeros]. constructor; [reflexivity|exact IH]. Qed.

Lemma sdigits_of_props v : 0 <= v < 10 ^ 45 ->
  alldig (sdigits_of v) /\ dv 0 (map sub48 (sdigits_of v)) = v /\ (0 < length (sdigits_of v) <= 50)%nat.
Proof.
  intros Hv. apply sdigits_props; [|lia]. change (Z.of_nat 50) with 50.
  assert (10 ^ 45 < 10 ^ 50) by reflexivity. lia.
Qed.

Lemma fixed_digits_props w v : 0 <= v < 10 ^ w -> 0 < w <= 45 ->
  alldig (fixed_digits w v) /\ dv 0 (map sub48 (fixed_digits w v)) = v /\ Z.of_nat (length (fixed_digits w v)) = w.
Proof.
  intros Hv Hw. pose proof (fixed_digits_length w v Hv Hw) as L.
  assert (Hv' : 0 <= v < 10 ^ 45).
  { assert (10 ^ w <= 10 ^ 45) by (apply Z.pow_le_mono_r; lia). lia. }
  destruct (sdigits_of_props v Hv') as (A & B & C).
  unfold fixed_digits in *. refine (conj _ (conj _ L)).
  - apply Forall_app. split; [apply alldig_szeros|exact A].
  - rewrite map_app, map_szeros, dv_zeros. exact B.
Qed.

Lemma alldig_byte_ok l : alldig l -> Forall byte_ok l.
Proof.
  intros H. induction H as [|b l Hb Hl IH]; constructor; [|exact IH].
  unfold isdig in Hb. apply andb_true_iff in Hb. destruct Hb as [H1 H2].
  apply Z.leb_le in H1, H2. unfold byte_ok. lia.
Qed.

Lemma take_digits_all pre : alldig pre -> take_digits pre = (map sub48 pre, []).
Proof.
  intros H. rewrite <- (app_nil_r pre) at 1. rewrite take_digits_app_digits by exact H.
  cbn [take_digits fst snd]. rewrite app_nil_r. reflexivity.
Qed.

Lemma take_digits_dot pre r : alldig pre -> take_digits (pre ++ 46 :: r) = (map sub48 pre, 46 :: r).
Proof.
  intros H. rewrite take_digits_app_digits by exact H.
  cbn [take_digits fst snd]. change (digit_val 46) with (@None Z). cbn [fst snd]. rewrite app_nil_r. reflexivity.
Qed.

(* scanning an integer part followed by an optional fraction *)
Lemma scan_plain neg I F :
  alldig I -> I <> [] -> alldig F ->
  scan ((if neg : bool then [45] else []) ++ I ++ (match F with [] => [] | _ => 46 :: F end))
  = LitOk neg (map sub48 I) (map sub48 F) 0 0.
Proof.
  intros HI Hne HF. destruct I as [|i0 I']; [contradiction|].
  assert (Hi0 : isdig i0 = true) by (inversion HI; assumption).
  assert (Hs : take_sign ((i0 :: I') ++ match F with [] => [] | _ :: _ => 46 :: F end)
               = (false, (i0 :: I') ++ match F with [] => [] | _ :: _ => 46 :: F end)).
  { cbn [app take_sign]. unfold isdig in Hi0. apply andb_true_iff in Hi0. destruct Hi0 as [H1 H2].
    apply Z.leb_le in H1, H2.
    destruct (Z.eqb_spec i0 45); [lia|]. destruct (Z.eqb_spec i0 43); [lia|]. reflexivity. }
  assert (Hbody : forall s, take_sign s = (neg, (i0 :: I') ++ match F with [] => [] | _ :: _ => 46 :: F end) ->
          s <> [] -> scan s = LitOk neg (map sub48 (i0 :: I')) (map sub48 F) 0 0).
  { intros s Hts Hsne. unfold scan. destruct s as [|s0 s']; [contradiction|]. rewrite Hts.
    destruct F as [|f0 F'].
    - rewrite app_nil_r. rewrite take_digits_all by exact HI. cbn [map both_empty]. reflexivity.
    - rewrite take_digits_dot by exact HI. change (46 =? 46) with true. cbv iota.
      rewrite take_digits_all by exact HF. cbn [map both_empty]. reflexivity. }
  destruct neg.
  - apply Hbody; [|discriminate]. reflexivity.
  - apply Hbody; [exact Hs|discriminate].
Qed.

Lemma scan_canon d : wf d = true ->
  exists I F, scan (canon d) = LitOk (coeff d <? 0) (map sub48 I) (map sub48 F) 0 0 /\
    dv 0 (map sub48 I) = Z.abs (coeff d) / 10 ^ nfd d /\
    dv 0 (map sub48 F) = Z.abs (coeff d) mod 10 ^ nfd d /\
    Z.of_nat (length F) = nfd d /\
    Forall byte_ok (canon d) /\ len (canon d) < 100.
Proof.
  intros Hd. destruct (UnopsFacts.wf_bounds _ Hd) as [Hc Hp]. pose proof (abs_lt_pow45 _ Hc) as Ha.
  set (a := Z.abs (coeff d)) in *. set (f := nfd d) in *.
  pose proof (pow10_pos f ltac:(lia)) as Ht.
  assert (Hq : 0 <= a / 10 ^ f < 10 ^ 45).
  { split; [apply Z.div_pos; lia|]. apply Z.le_lt_trans with a; [|lia].
    apply Z.div_le_upper_bound; [lia|]. nia. }
  destruct (sdigits_of_props _ Hq) as (AI & VI & LI).
  assert (HneI : sdigits_of (a / 10 ^ f) <> []) by (intros E; rewrite E in LI; cbn in LI; lia).
  pose proof (Z.mod_pos_bound a (10 ^ f) Ht) as Hm.
  unfold canon, canon_abs. fold a f.
  destruct (Z.ltb_spec 0 f) as [Hf|Hf].
  - destruct (fixed_digits_props f (a mod 10 ^ f) Hm ltac:(lia)) as (AF & VF & LF).
    exists (sdigits_of (a / 10 ^ f)), (fixed_digits f (a mod 10 ^ f)).
    assert (HneF : fixed_digits f (a mod 10 ^ f) <> []) by (intros E; rewrite E in LF; cbn in LF; lia).
    refine (conj _ (conj VI (conj VF (conj LF (conj _ _))))).
    + pose proof (scan_plain (coeff d <? 0) _ _ AI HneI AF) as S.
      destruct (fixed_digits f (a mod 10 ^ f)) as [|f0 F'] eqn:EF; [contradiction|]. exact S.
    + apply Forall_app. split; [destruct (coeff d <? 0); repeat constructor; unfold byte_ok; lia|].
      apply Forall_app. split; [apply alldig_byte_ok; exact AI|].
      constructor; [unfold byte_ok; lia|apply alldig_byte_ok; exact AF].
    + unfold len. rewrite !app_length. cbn [length]. destruct (coeff d <? 0); cbn [length]; lia.
  - assert (f = 0) by lia.
    exists (sdigits_of (a / 10 ^ f)), [].
    refine (conj _ (conj VI (conj _ (conj _ (conj _ _))))).
    + exact (scan_plain (coeff d <? 0) _ [] AI HneI (Forall_nil _)).
    + replace f with 0 by lia. change (10 ^ 0) with 1. rewrite Z.mod_1_r. reflexivity.
    + cbn [length]. lia.
    + apply Forall_app. split; [destruct (coeff d <? 0); repeat constructor; unfold byte_ok; lia|].
      rewrite app_nil_r. apply alldig_byte_ok; exact AI.
    + unfold len. rewrite !app_length. cbn [length]. destruct (coeff d <? 0); cbn [length]; lia.
Qed.

Theorem parse_spec_canon d : wf d = true -> parse_spec (canon d) = PSOk d /\ known_str (canon d) = 0.
Proof.
  intros Hd. destruct (scan_canon d Hd) as (I & F & S & VI & VF & LF & _ & _).
  destruct (UnopsFacts.wf_bounds _ Hd) as [Hc Hp].
  pose proof (pow10_pos (nfd d) ltac:(lia)) as Ht.
  assert (HD : digits_value (map sub48 I ++ map sub48 F) = Z.abs (coeff d)).
  { rewrite digits_value_dv, dv_app, dv_scale, VI, VF, map_length, LF.
    pose proof (Z.div_mod (Z.abs (coeff d)) (10 ^ nfd d) ltac:(lia)). lia. }
  split.
  - unfold parse_spec. rewrite S, HD. rewrite map_length, LF. rewrite Z.sub_0_r.
    destruct (Z.ltb_spec 18 (nfd d)); [lia|]. destruct (Z.leb_spec 0 (nfd d)); [|lia].
    rewrite MAXC_val. rewrite pow2_127 in Hc.
    destruct (Z.ltb_spec 170141183460469231731687303715884105727 (Z.abs (coeff d))); [lia|].
    f_equal. destruct d as [c n]. cbn [coeff nfd] in *. f_equal.
    destruct (Z.ltb_spec c 0); lia.
  - unfold known_str, known_K2, known_K4. rewrite S. change (2 <? 0) with false. cbv iota.
    rewrite map_length, LF. destruct (Z.ltb_spec 38 (0 - nfd d)); [lia|]. rewrite andb_false_r. reflexivity.
Qed.

(* parse (to_string d) = d, for every well-formed Decimal and every profile *)
Theorem roundtrip pf d : wf d = true -> from_str pf (canon d) = Val (POk d).
Proof.
  intros Hd. destruct (scan_canon d Hd) as (I & F & _ & _ & _ & _ & Hb & Hl).
  destruct (parse_spec_canon d Hd) as [Hp Hk].
  assert (Hl' : len (canon d) < 2 ^ 62) by (assert (100 < 2 ^ 62) by reflexivity; lia).
  pose proof (from_str_acc pf _ Hb Hl' Hk) as A.
  rewrite from_str_total in A |- * by assumption.
  unfold acc_parse in A. rewrite Hp in A. unfold out_pres in A. cbn [of_res] in A.
  destruct (from_str_ref (canon d)) as [e|er]; [|destruct er; discriminate].
  apply dec_eqb_eq in A. rewrite A. reflexivity.
Qed.

Theorem roundtrip_acc pf d : wf d = true -> acc_roundtrip d (run_roundtrip pf d) = true.
Proof.
  intros Hd. unfold acc_roundtrip, run_roundtrip. rewrite string_from_canon by assumption.
  cbn [of_res]. rewrite roundtrip by assumption. apply out_eqb_refl.
Qed.

(* the macro's oracle predicate: a literal that needs no blank removed compiles to the Decimal the
   grammar prescribes, or does not compile *)
Theorem macro_acc pf s : Forall byte_ok s -> len s < 2 ^ 62 -> strip_sign_blank s = s -> known_str s = 0 ->
  acc_str Smacro s (run_str pf Smacro s) = true.
Proof.
  intros Hb Hl Hs Hk. cbn [acc_str run_str].
  pose proof (macro_agrees_total pf s Hb Hl) as A. rewrite Hs in A.
  pose proof (from_str_acc pf s Hb Hl Hk) as F.
  rewrite from_str_total in A, F by assumption.
  unfold acc_macro, acc_parse in *. unfold same_result in A.
  destruct (dec_macro pf s) as [[d|e]| | |]; try contradiction; cbn [out_pres of_res] in *.
  - destruct (from_str_ref s) as [d'|e']; [|contradiction]. subst d'. exact F.
  - destruct (from_str_ref s) as [d'|e']; [contradiction|]. cbn [of_res] in F.
    destruct (parse_spec s); [reflexivity|reflexivity|]. destruct e'; discriminate.
Qed.
