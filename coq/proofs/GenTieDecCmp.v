(* GenTieDecCmp.v — comparison at the Decimal level (src/binops/cmp.rs: PartialEq, PartialOrd, Ord for Decimal, read
   through the single-arm macros impl_partial_eq! / impl_partial_ord!) as translated (gen/GenDec.v) equals the model (Cmp.v). *)
From FP Require Import Machine SrcConsts Pow10 Cmp RoundSpec Out ArithSpec Run GenCore GenDec MachineFacts.
From FP Require Import GenTieTac GenTiePow CmpFacts.

Lemma wf_u8' d : wf d = true -> in_range U8 (nfd d) = true.
Proof. intros H. apply wf_iff in H. apply u8_iff. lia. Qed.

Lemma tie_dec_eq pf x y : wf x = true -> wf y = true -> g_PartialEq_eq pf x y = dec_eq x y.
Proof.
  intros Hx Hy. unfold g_PartialEq_eq, dec_eq.
  rewrite tie_checked_adjust_coeffs by (apply wf_u8'; assumption).
  destruct (checked_adjust_coeffs (coeff x) (nfd x) (coeff y) (nfd y)) as [[[a|] [b|]]| | |]; reflexivity.
Qed.

Lemma tie_partial_cmp pf x y : wf x = true -> wf y = true ->
  g_PartialOrd_partial_cmp pf x y = dec_partial_cmp x y.
Proof.
  intros Hx Hy. unfold g_PartialOrd_partial_cmp, dec_partial_cmp.
  rewrite tie_checked_adjust_coeffs by (apply wf_u8'; assumption).
  destruct (checked_adjust_coeffs (coeff x) (nfd x) (coeff y) (nfd y)) as [[[a|] [b|]]| | |]; cbn [bind]; try reflexivity.
  - destruct (coeff y <? 0); reflexivity.
  - destruct (coeff x >? 0); reflexivity.
Qed.

Lemma tie_cmp pf x y : wf x = true -> wf y = true -> g_Ord_cmp pf x y = dec_cmp x y.
Proof.
  intros Hx Hy. unfold g_Ord_cmp, dec_cmp. rewrite tie_partial_cmp by assumption.
  destruct (dec_partial_cmp x y) as [[c|]| | |]; reflexivity.
Qed.

Lemma src_cmp_value_order pf x y : wf x = true -> wf y = true ->
  g_PartialOrd_partial_cmp pf x y = Val (Some (cmp_spec x y)) /\
  g_PartialEq_eq pf x y = Val (eq_spec x y) /\
  g_Ord_cmp pf x y = Val (cmp_spec x y).
Proof.
  intros Hx Hy. rewrite tie_partial_cmp, tie_dec_eq, tie_cmp by assumption.
  unfold dec_cmp. rewrite (partial_cmp_spec x y Hx Hy). cbn [bind].
  refine (conj eq_refl (conj _ eq_refl)). exact (eq_model_spec x y Hx Hy).
Qed.

