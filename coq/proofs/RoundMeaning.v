(* RoundMeaning.v — what the specification's rounding function [rnd] means, mode by mode, stated
   on the exact quotient n / d (d > 0) without reference to how [rnd] is computed: the
   specification is part of the trusted base, these theorems let a reader check it against the
   documentation of the eight modes. *)
From FP Require Import Machine RoundSpec MachineFacts RoundSpecFacts.

Local Open Scope Z_scope.

(* every mode returns one of the two integers around n / d, and the quotient itself when exact *)
Lemma rnd_adjacent m n d : 0 < d ->
  let q := rnd m n d in
  Z.abs (n - q * d) < d /\ (n mod d = 0 -> q * d = n).
Proof.
  intros Hd q. pose proof (Z.div_mod n d ltac:(lia)) as E. pose proof (Z.mod_pos_bound n d Hd) as B.
  assert (Eq : q = rnd m (n / d * d + n mod d) d) by (unfold q; f_equal; lia).
  rewrite rnd_floor_eq in Eq by lia.
  pose proof (rnd_floor_range m (n / d) (n mod d) d) as R. rewrite <- Eq in R.
  split.
  - unfold rnd_floor in Eq. destruct (Z.eqb_spec (n mod d) 0); destruct R as [R|R]; nia.
  - intros H0. unfold rnd_floor in Eq. rewrite H0 in Eq. cbn in Eq. nia.
Qed.

Ltac floor_form n d q Hq :=
  let E := fresh "E" in let B := fresh "B" in
  pose proof (Z.div_mod n d ltac:(lia)) as E; pose proof (Z.mod_pos_bound n d ltac:(lia)) as B;
  assert (Hq : q = rnd_floor _ (n / d) (n mod d) d)
    by (unfold q; rewrite <- rnd_floor_eq by lia; f_equal; lia);
  unfold rnd_floor in Hq.

(* RoundFloor: the largest integer <= n / d *)
Theorem floor_meaning n d : 0 < d -> let q := rnd RFloor n d in q * d <= n < (q + 1) * d.
Proof.
  intros Hd q. floor_form n d q Hq. destruct (n mod d =? 0) eqn:Z0; [apply Z.eqb_eq in Z0|]; nia.
Qed.

(* RoundCeiling: the smallest integer >= n / d *)
Theorem ceiling_meaning n d : 0 < d -> let q := rnd RCeiling n d in (q - 1) * d < n <= q * d.
Proof.
  intros Hd q. floor_form n d q Hq. destruct (Z.eqb_spec (n mod d) 0); nia.
Qed.

(* RoundDown: toward zero *)
Theorem down_meaning n d : 0 < d ->
  let q := rnd RDown n d in Z.abs (q * d) <= Z.abs n /\ Z.abs (n - q * d) < d.
Proof.
  intros Hd q. floor_form n d q Hq.
  destruct (Z.eqb_spec (n mod d) 0); [nia|]. destruct (Z.ltb_spec (n / d) 0); nia.
Qed.

(* RoundUp: away from zero *)
Theorem up_meaning n d : 0 < d ->
  let q := rnd RUp n d in Z.abs n <= Z.abs (q * d) /\ Z.abs (n - q * d) < d.
Proof.
  intros Hd q. floor_form n d q Hq.
  destruct (Z.eqb_spec (n mod d) 0); [nia|]. destruct (Z.geb_spec (n / d) 0); nia.
Qed.

(* the three nearest modes: within half a unit; they differ only on exact ties *)
Theorem half_modes_nearest m n d : 0 < d -> (m = RHalfUp \/ m = RHalfDown \/ m = RHalfEven) ->
  2 * Z.abs (n - rnd m n d * d) <= d.
Proof.
  intros Hd Hm. set (q := rnd m n d). floor_form n d q Hq.
  destruct (Z.eqb_spec (n mod d) 0); [nia|].
  destruct Hm as [-> | [-> | ->]];
    destruct (Z.gtb_spec (2 * (n mod d)) d); cbn [orb] in Hq; try nia;
    destruct (Z.eqb_spec (2 * (n mod d)) d); cbn [andb] in Hq; try nia;
    match type of Hq with context [if ?b then _ else _] => destruct b end; nia.
Qed.

(* on a tie: HalfUp goes away from zero, HalfDown toward zero, HalfEven to the even neighbour *)
Theorem half_up_tie n d : 0 < d -> 2 * Z.abs (n - rnd RHalfUp n d * d) = d ->
  Z.abs n < Z.abs (rnd RHalfUp n d * d).
Proof.
  intros Hd. set (q := rnd RHalfUp n d). floor_form n d q Hq. intros T.
  destruct (Z.eqb_spec (n mod d) 0); [nia|].
  destruct (Z.gtb_spec (2 * (n mod d)) d); cbn [orb] in Hq; [nia|].
  destruct (Z.eqb_spec (2 * (n mod d)) d); cbn [andb] in Hq; [|nia].
  destruct (Z.geb_spec (n / d) 0); nia.
Qed.

Theorem half_down_tie n d : 0 < d -> 2 * Z.abs (n - rnd RHalfDown n d * d) = d ->
  Z.abs (rnd RHalfDown n d * d) < Z.abs n.
Proof.
  intros Hd. set (q := rnd RHalfDown n d). floor_form n d q Hq. intros T.
  destruct (Z.eqb_spec (n mod d) 0); [nia|].
  destruct (Z.gtb_spec (2 * (n mod d)) d); cbn [orb] in Hq; [nia|].
  destruct (Z.eqb_spec (2 * (n mod d)) d); cbn [andb] in Hq; [|nia].
  destruct (Z.ltb_spec (n / d) 0); nia.
Qed.

Theorem half_even_tie n d : 0 < d -> 2 * Z.abs (n - rnd RHalfEven n d * d) = d ->
  Z.even (rnd RHalfEven n d) = true.
Proof.
  intros Hd. set (q := rnd RHalfEven n d). floor_form n d q Hq. intros T.
  rewrite <- odd_rem2 in Hq.
  destruct (Z.eqb_spec (n mod d) 0); [nia|].
  destruct (Z.gtb_spec (2 * (n mod d)) d); cbn [orb] in Hq; [nia|].
  destruct (Z.eqb_spec (2 * (n mod d)) d); cbn [andb] in Hq; [|nia].
  destruct (Z.odd (n / d)) eqn:Od; rewrite Hq.
  - rewrite Z.even_add, <- Z.negb_odd, Od. reflexivity.
  - rewrite <- Z.negb_odd, Od. reflexivity.
Qed.

(* Round05Up: toward zero, except that a truncated quotient ending in 0 or 5 is stepped away from
   zero when anything was cut off *)
Theorem r05up_meaning n d : 0 < d ->
  let t := Z.quot n d in
  rnd R05Up n d = if (Z.rem n d =? 0) then t else if Z.rem t 5 =? 0 then t + Z.sgn n else t.
Proof.
  intros Hd t. unfold rnd. fold t.
  destruct (Z.eqb_spec (Z.rem n d) 0) as [E|E].
  - rewrite E. reflexivity.
  - destruct (Z.eqb_spec (Z.abs (Z.rem n d)) 0); [lia|reflexivity].
Qed.

(* rounding is odd-symmetric in the symmetric modes and swaps Floor with Ceiling *)
Theorem rnd_symmetry m n d : 0 < d ->
  rnd m (- n) d = - rnd (match m with RFloor => RCeiling | RCeiling => RFloor | m' => m' end) n d.
Proof.
  intros Hd. unfold rnd. rewrite Z.quot_opp_l, Z.rem_opp_l, Z.abs_opp, Z.sgn_opp by lia.
  destruct (Z.abs (Z.rem n d) =? 0); [reflexivity|].
  destruct m; rewrite ?Z.odd_opp, ?Z.rem_opp_l by lia;
    repeat match goal with |- context [if ?b then _ else _] => destruct b eqn:? end; try lia.
  all: try (apply Z.ltb_lt in Heqb; apply Z.ltb_ge in Heqb0; lia).
  all: try (apply Z.ltb_ge in Heqb; apply Z.ltb_lt in Heqb0; lia).
  all: try (apply Z.eqb_eq in Heqb; apply Z.eqb_neq in Heqb0; lia).
  all: try (apply Z.eqb_neq in Heqb; apply Z.eqb_eq in Heqb0; lia).
Qed.
