(* GenTieIntRem.v - GENERATED ONCE by tools/gen_tie_int.py (static text, committed): the integer-operand forms of % checked_rem,
   as translated from /repo's current source (gen/GenInt.v), equal the model (IntForms.v). *)
From FP Require Import Machine SrcConsts Pow10 WideDiv Rounding Arith Cmp IntForms GenCore GenDec GenInt MachineFacts.
From FP Require Import GenTieTac GenTiePow GenTieIntBase GenTieDecRem.


Ltac rem_model :=
  try to_model_pow;
  repeat match goal with
  | |- context [g_rem ?pf ?cx ?px ?cy ?py] =>
      rewrite (tie_rem_core pf cx px cy py) by (first [ lia | (match goal with H : wf ?d = true |- _ => apply wf_iff in H end; lia) ])
  end.
Ltac rem_fin := unfold_helpers_int; unfold g_Decimal_eq_zero, g_Decimal_n_frac_digits, g_Decimal_coefficient, or_panic, DZERO, rem_result in *;
  change g_Decimal_eq_one with (fun (_ : profile) => eq_one); change g_Decimal_fract with (fun (_ : profile) => dec_fract); cbv beta;
  unfold eq_zero;
  repeat (cbv beta iota zeta; cbn [bind]; rem_model; tie2_step); cbn [bind negb andb orb option_map obind]; try fin;
  try (unfold rem_result in *; repeat match goal with a : option (Z * Z) |- _ => destruct a as [[? ?]|] end; cbn [option_map] in *; congruence).

Lemma tie_Rem_u8 pf d i :
  wf d = true ->
  in_range U8 i = true ->
  g_Rem_u8_rem pf d i = di_rem d i.
Proof.
  intros. unfold g_Rem_u8_rem, di_rem, di_checked_rem. rem_fin.
Qed.

Lemma tie_Rem_by_u8 pf i d :
  wf d = true ->
  in_range U8 i = true ->
  g_Rem_by_u8_rem pf i d = id_rem i d.
Proof.
  intros. unfold g_Rem_by_u8_rem, id_rem, id_checked_rem. rem_fin.
Qed.

Lemma tie_CheckedRem_u8 pf d i :
  wf d = true ->
  in_range U8 i = true ->
  g_CheckedRem_u8_checked_rem pf d i = di_checked_rem d i.
Proof.
  intros. unfold g_CheckedRem_u8_checked_rem, di_checked_rem. rem_fin.
Qed.

Lemma tie_CheckedRem_by_u8 pf i d :
  wf d = true ->
  in_range U8 i = true ->
  g_CheckedRem_by_u8_checked_rem pf i d = id_checked_rem i d.
Proof.
  intros. unfold g_CheckedRem_by_u8_checked_rem, id_checked_rem. rem_fin.
Qed.

Lemma tie_Rem_i8 pf d i :
  wf d = true ->
  in_range I8 i = true ->
  g_Rem_i8_rem pf d i = di_rem d i.
Proof.
  intros. unfold g_Rem_i8_rem, di_rem, di_checked_rem. rem_fin.
Qed.

Lemma tie_Rem_by_i8 pf i d :
  wf d = true ->
  in_range I8 i = true ->
  g_Rem_by_i8_rem pf i d = id_rem i d.
Proof.
  intros. unfold g_Rem_by_i8_rem, id_rem, id_checked_rem. rem_fin.
Qed.

Lemma tie_CheckedRem_i8 pf d i :
  wf d = true ->
  in_range I8 i = true ->
  g_CheckedRem_i8_checked_rem pf d i = di_checked_rem d i.
Proof.
  intros. unfold g_CheckedRem_i8_checked_rem, di_checked_rem. rem_fin.
Qed.

Lemma tie_CheckedRem_by_i8 pf i d :
  wf d = true ->
  in_range I8 i = true ->
  g_CheckedRem_by_i8_checked_rem pf i d = id_checked_rem i d.
Proof.
  intros. unfold g_CheckedRem_by_i8_checked_rem, id_checked_rem. rem_fin.
Qed.

Lemma tie_Rem_u16 pf d i :
  wf d = true ->
  in_range U16 i = true ->
  g_Rem_u16_rem pf d i = di_rem d i.
Proof.
  intros. unfold g_Rem_u16_rem, di_rem, di_checked_rem. rem_fin.
Qed.

Lemma tie_Rem_by_u16 pf i d :
  wf d = true ->
  in_range U16 i = true ->
  g_Rem_by_u16_rem pf i d = id_rem i d.
Proof.
  intros. unfold g_Rem_by_u16_rem, id_rem, id_checked_rem. rem_fin.
Qed.

Lemma tie_CheckedRem_u16 pf d i :
  wf d = true ->
  in_range U16 i = true ->
  g_CheckedRem_u16_checked_rem pf d i = di_checked_rem d i.
Proof.
  intros. unfold g_CheckedRem_u16_checked_rem, di_checked_rem. rem_fin.
Qed.

Lemma tie_CheckedRem_by_u16 pf i d :
  wf d = true ->
  in_range U16 i = true ->
  g_CheckedRem_by_u16_checked_rem pf i d = id_checked_rem i d.
Proof.
  intros. unfold g_CheckedRem_by_u16_checked_rem, id_checked_rem. rem_fin.
Qed.

Lemma tie_Rem_i16 pf d i :
  wf d = true ->
  in_range I16 i = true ->
  g_Rem_i16_rem pf d i = di_rem d i.
Proof.
  intros. unfold g_Rem_i16_rem, di_rem, di_checked_rem. rem_fin.
Qed.

Lemma tie_Rem_by_i16 pf i d :
  wf d = true ->
  in_range I16 i = true ->
  g_Rem_by_i16_rem pf i d = id_rem i d.
Proof.
  intros. unfold g_Rem_by_i16_rem, id_rem, id_checked_rem. rem_fin.
Qed.

Lemma tie_CheckedRem_i16 pf d i :
  wf d = true ->
  in_range I16 i = true ->
  g_CheckedRem_i16_checked_rem pf d i = di_checked_rem d i.
Proof.
  intros. unfold g_CheckedRem_i16_checked_rem, di_checked_rem. rem_fin.
Qed.

Lemma tie_CheckedRem_by_i16 pf i d :
  wf d = true ->
  in_range I16 i = true ->
  g_CheckedRem_by_i16_checked_rem pf i d = id_checked_rem i d.
Proof.
  intros. unfold g_CheckedRem_by_i16_checked_rem, id_checked_rem. rem_fin.
Qed.

Lemma tie_Rem_u32 pf d i :
  wf d = true ->
  in_range U32 i = true ->
  g_Rem_u32_rem pf d i = di_rem d i.
Proof.
  intros. unfold g_Rem_u32_rem, di_rem, di_checked_rem. rem_fin.
Qed.

Lemma tie_Rem_by_u32 pf i d :
  wf d = true ->
  in_range U32 i = true ->
  g_Rem_by_u32_rem pf i d = id_rem i d.
Proof.
  intros. unfold g_Rem_by_u32_rem, id_rem, id_checked_rem. rem_fin.
Qed.

Lemma tie_CheckedRem_u32 pf d i :
  wf d = true ->
  in_range U32 i = true ->
  g_CheckedRem_u32_checked_rem pf d i = di_checked_rem d i.
Proof.
  intros. unfold g_CheckedRem_u32_checked_rem, di_checked_rem. rem_fin.
Qed.

Lemma tie_CheckedRem_by_u32 pf i d :
  wf d = true ->
  in_range U32 i = true ->
  g_CheckedRem_by_u32_checked_rem pf i d = id_checked_rem i d.
Proof.
  intros. unfold g_CheckedRem_by_u32_checked_rem, id_checked_rem. rem_fin.
Qed.

Lemma tie_Rem_i32 pf d i :
  wf d = true ->
  in_range I32 i = true ->
  g_Rem_i32_rem pf d i = di_rem d i.
Proof.
  intros. unfold g_Rem_i32_rem, di_rem, di_checked_rem. rem_fin.
Qed.

Lemma tie_Rem_by_i32 pf i d :
  wf d = true ->
  in_range I32 i = true ->
  g_Rem_by_i32_rem pf i d = id_rem i d.
Proof.
  intros. unfold g_Rem_by_i32_rem, id_rem, id_checked_rem. rem_fin.
Qed.

Lemma tie_CheckedRem_i32 pf d i :
  wf d = true ->
  in_range I32 i = true ->
  g_CheckedRem_i32_checked_rem pf d i = di_checked_rem d i.
Proof.
  intros. unfold g_CheckedRem_i32_checked_rem, di_checked_rem. rem_fin.
Qed.

Lemma tie_CheckedRem_by_i32 pf i d :
  wf d = true ->
  in_range I32 i = true ->
  g_CheckedRem_by_i32_checked_rem pf i d = id_checked_rem i d.
Proof.
  intros. unfold g_CheckedRem_by_i32_checked_rem, id_checked_rem. rem_fin.
Qed.

Lemma tie_Rem_u64 pf d i :
  wf d = true ->
  in_range U64 i = true ->
  g_Rem_u64_rem pf d i = di_rem d i.
Proof.
  intros. unfold g_Rem_u64_rem, di_rem, di_checked_rem. rem_fin.
Qed.

Lemma tie_Rem_by_u64 pf i d :
  wf d = true ->
  in_range U64 i = true ->
  g_Rem_by_u64_rem pf i d = id_rem i d.
Proof.
  intros. unfold g_Rem_by_u64_rem, id_rem, id_checked_rem. rem_fin.
Qed.

Lemma tie_CheckedRem_u64 pf d i :
  wf d = true ->
  in_range U64 i = true ->
  g_CheckedRem_u64_checked_rem pf d i = di_checked_rem d i.
Proof.
  intros. unfold g_CheckedRem_u64_checked_rem, di_checked_rem. rem_fin.
Qed.

Lemma tie_CheckedRem_by_u64 pf i d :
  wf d = true ->
  in_range U64 i = true ->
  g_CheckedRem_by_u64_checked_rem pf i d = id_checked_rem i d.
Proof.
  intros. unfold g_CheckedRem_by_u64_checked_rem, id_checked_rem. rem_fin.
Qed.

Lemma tie_Rem_i64 pf d i :
  wf d = true ->
  in_range I64 i = true ->
  g_Rem_i64_rem pf d i = di_rem d i.
Proof.
  intros. unfold g_Rem_i64_rem, di_rem, di_checked_rem. rem_fin.
Qed.

Lemma tie_Rem_by_i64 pf i d :
  wf d = true ->
  in_range I64 i = true ->
  g_Rem_by_i64_rem pf i d = id_rem i d.
Proof.
  intros. unfold g_Rem_by_i64_rem, id_rem, id_checked_rem. rem_fin.
Qed.

Lemma tie_CheckedRem_i64 pf d i :
  wf d = true ->
  in_range I64 i = true ->
  g_CheckedRem_i64_checked_rem pf d i = di_checked_rem d i.
Proof.
  intros. unfold g_CheckedRem_i64_checked_rem, di_checked_rem. rem_fin.
Qed.

Lemma tie_CheckedRem_by_i64 pf i d :
  wf d = true ->
  in_range I64 i = true ->
  g_CheckedRem_by_i64_checked_rem pf i d = id_checked_rem i d.
Proof.
  intros. unfold g_CheckedRem_by_i64_checked_rem, id_checked_rem. rem_fin.
Qed.

Lemma tie_Rem_i128 pf d i :
  wf d = true ->
  in_range I128 i = true ->
  g_Rem_i128_rem pf d i = di_rem d i.
Proof.
  intros. unfold g_Rem_i128_rem, di_rem, di_checked_rem. rem_fin.
Qed.

Lemma tie_Rem_by_i128 pf i d :
  wf d = true ->
  in_range I128 i = true ->
  g_Rem_by_i128_rem pf i d = id_rem i d.
Proof.
  intros. unfold g_Rem_by_i128_rem, id_rem, id_checked_rem. rem_fin.
Qed.

Lemma tie_CheckedRem_i128 pf d i :
  wf d = true ->
  in_range I128 i = true ->
  g_CheckedRem_i128_checked_rem pf d i = di_checked_rem d i.
Proof.
  intros. unfold g_CheckedRem_i128_checked_rem, di_checked_rem. rem_fin.
Qed.

Lemma tie_CheckedRem_by_i128 pf i d :
  wf d = true ->
  in_range I128 i = true ->
  g_CheckedRem_by_i128_checked_rem pf i d = id_checked_rem i d.
Proof.
  intros. unfold g_CheckedRem_by_i128_checked_rem, id_checked_rem. rem_fin.
Qed.
