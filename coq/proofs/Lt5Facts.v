(* Lt5Facts.v — C15: the specification's ilog10 and the less_than_5 bit trick (finite sweep). *)
From FP Require Import Machine SrcConsts Pow10 Unops RoundSpec Out ArithSpec Run.
From FP Require Import MachineFacts Pow10Facts OutFacts UnopsFacts.

(* ---- the specification's ilog10 is floor(log10 v) ---- *)
Lemma ilog10_aux_spec fuel : forall v acc,
  0 < v -> v < 10 ^ Z.of_nat fuel ->
  let k := ilog10_aux fuel v acc - acc in
  0 <= k /\ 10 ^ k <= v < 10 ^ (k + 1).
Proof.
  induction fuel as [|f IH]; intros v acc Hv Hlt.
  - cbn in Hlt. lia.
  - cbn [ilog10_aux]. destruct (Z.ltb_spec v 10) as [H10|H10].
    + rewrite Z.sub_diag. cbn. lia.
    + assert (Hv' : 0 < v / 10) by (apply Z.div_str_pos; lia).
      assert (Hlt' : v / 10 < 10 ^ Z.of_nat f).
      { apply Z.div_lt_upper_bound; [lia|]. rewrite Nat2Z.inj_succ, Z.pow_succ_r in Hlt by lia. lia. }
      specialize (IH (v / 10) (acc + 1) Hv' Hlt'). cbv zeta in IH.
      set (r := ilog10_aux f (v / 10) (acc + 1)) in *.
      destruct IH as (K0 & K1 & K2).
      replace (r - acc) with ((r - (acc + 1)) + 1) by lia.
      set (k := r - (acc + 1)) in *.
      pose proof (Z.div_mod v 10 ltac:(lia)). pose proof (Z.mod_pos_bound v 10 ltac:(lia)).
      rewrite (Z.pow_add_r 10 (k + 1) 1) by lia. rewrite (Z.pow_add_r 10 k 1) in * by lia.
      change (10 ^ 1) with 10 in *.
      split; [lia|]. split; lia.
Qed.

Lemma ilog10_spec v : 0 < v < 10 ^ 60 ->
  0 <= ilog10 v /\ 10 ^ ilog10 v <= v < 10 ^ (ilog10 v + 1).
Proof.
  intros Hv. pose proof (ilog10_aux_spec 60 v 0 ltac:(lia) ltac:(exact (proj2 Hv))) as H.
  cbv zeta in H. rewrite Z.sub_0_r in H. exact H.
Qed.

Lemma log10_unique v a b : 0 <= a -> 0 <= b -> 10 ^ a <= v < 10 ^ (a + 1) -> 10 ^ b <= v < 10 ^ (b + 1) -> a = b.
Proof.
  intros Ha Hb [A1 A2] [B1 B2].
  destruct (Z.lt_trichotomy a b) as [L|[E|G]]; [|exact E|].
  - assert (10 ^ (a + 1) <= 10 ^ b) by (apply Z.pow_le_mono_r; lia). lia.
  - assert (10 ^ (b + 1) <= 10 ^ a) by (apply Z.pow_le_mono_r; lia). lia.
Qed.

(* ---- less_than_5 : finite sweep over 1 ..= 99999, lifted ---- *)
Definition lt5_ok (v : Z) : bool :=
  match log_lt5 dev v, log_lt5 release v with
  | Val a, Val b => (a =? ilog10 v) && (b =? ilog10 v)
  | _, _ => false
  end.

(* all v in [lo, lo + 2^k) by binary splitting (no large unary numbers) *)
Fixpoint allb (f : Z -> bool) (lo : Z) (k : nat) : bool :=
  match k with
  | O => f lo
  | S k' => allb f lo k' && allb f (lo + 2 ^ Z.of_nat k') k'
  end.

Lemma allb_spec f k : forall lo v, allb f lo k = true -> lo <= v < lo + 2 ^ Z.of_nat k -> f v = true.
Proof.
  induction k as [|k IH]; intros lo v H Hv.
  - cbn in H, Hv. replace v with lo by lia. exact H.
  - cbn [allb] in H. apply andb_true_iff in H. destruct H as [H1 H2].
    rewrite Nat2Z.inj_succ, Z.pow_succ_r in Hv by lia.
    destruct (Z_lt_le_dec v (lo + 2 ^ Z.of_nat k)).
    + apply (IH lo); [exact H1|lia].
    + apply (IH (lo + 2 ^ Z.of_nat k)); [exact H2|lia].
Qed.

Definition lt5_ok' (v : Z) : bool := if (0 <? v) && (v <? 100000) then lt5_ok v else true.

Lemma lt5_sweep : allb lt5_ok' 0 17 = true.
Proof. vm_compute. reflexivity. Qed.

Lemma log_lt5_profile pf v : log_lt5 pf v = log_lt5 dev v \/ log_lt5 pf v = log_lt5 release v.
Proof. destruct pf as [[|] [|]]; auto. Qed.

Lemma log_lt5_ok pf v : 0 < v < 100000 -> log_lt5 pf v = Val (ilog10 v).
Proof.
  intros Hv. pose proof (allb_spec lt5_ok' 17 0 v lt5_sweep) as H.
  assert (Hr : 0 <= v < 0 + 2 ^ Z.of_nat 17) by (change (2 ^ Z.of_nat 17) with 131072; lia).
  specialize (H Hr). unfold lt5_ok' in H.
  destruct (Z.ltb_spec 0 v); [|lia]. destruct (Z.ltb_spec v 100000); [|lia]. cbn [andb] in H.
  unfold lt5_ok in H.
  destruct (log_lt5 dev v) as [a| | |] eqn:Ea; try discriminate.
  destruct (log_lt5 release v) as [b| | |] eqn:Eb; try discriminate.
  apply andb_true_iff in H. destruct H as [Ha Hb]. apply Z.eqb_eq in Ha, Hb. subst a b.
  assert (Hd : forall o c, log_lt5 {| ovf_checks := o; dbg_asserts := c |} v = log_lt5 {| ovf_checks := o; dbg_asserts := true |} v).
  { intros o c. reflexivity. }
  destruct pf as [o c]. destruct o.
  - rewrite Hd. exact Ea.
  - rewrite Hd. change {| ovf_checks := false; dbg_asserts := true |} with {| ovf_checks := false; dbg_asserts := true |}.
    transitivity (log_lt5 release v); [reflexivity|exact Eb].
Qed.

