(* GenTieSwar.v — the two SWAR helpers of fpdec-core/src/parser.rs as translated (gen/GenCore.v) equal the model (Parser.v);
   the theorems of SwarFacts.v (digit test and digit conversion correct for every 64-bit word) therefore hold of the source. *)
From FP Require Import Machine SrcConsts Pow10 Parser GenCore MachineFacts SwarFacts.

Lemma tie_chunk_contains_8_digits pf k : g_chunk_contains_8_digits pf k = Val (chunk_contains_8_digits k).
Proof. reflexivity. Qed.

Lemma tie_chunk_to_u64 pf k : g_chunk_to_u64 pf k = Val (chunk_to_u64 k).
Proof. reflexivity. Qed.

Lemma src_swar_digit_test pf l : length l = 8%nat -> Forall byte_ok l ->
  g_chunk_contains_8_digits pf (lanes 8 l) = Val (forallb isdig l).
Proof. intros Hl Hb. rewrite tie_chunk_contains_8_digits, (contains_spec l Hl Hb). reflexivity. Qed.

Lemma src_swar_convert pf d0 d1 d2 d3 d4 d5 d6 d7 :
  0 <= d0 <= 9 -> 0 <= d1 <= 9 -> 0 <= d2 <= 9 -> 0 <= d3 <= 9 ->
  0 <= d4 <= 9 -> 0 <= d5 <= 9 -> 0 <= d6 <= 9 -> 0 <= d7 <= 9 ->
  g_chunk_to_u64 pf (lanes 8 [48 + d0; 48 + d1; 48 + d2; 48 + d3; 48 + d4; 48 + d5; 48 + d6; 48 + d7])
  = Val (d0 * 10 ^ 7 + d1 * 10 ^ 6 + d2 * 10 ^ 5 + d3 * 10 ^ 4 + d4 * 10 ^ 3 + d5 * 10 ^ 2 + d6 * 10 + d7).
Proof. intros. rewrite tie_chunk_to_u64, chunk_to_u64_digits by assumption. reflexivity. Qed.
