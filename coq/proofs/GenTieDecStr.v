(* GenTieDecStr.v — impl FromStr for Decimal (src/from_str.rs) as translated (gen/GenDec.v): the exponent folding after the
   byte-level parser.  str_to_dec itself (slices, unsafe reads, SWAR loop) is outside the translated subset and enters as a
   function parameter [ext]; the lemma holds for every [ext] that returns what the model's str_to_dec returns. *)
From FP Require Import Machine SrcConsts Pow10 Parser GenCore GenDec MachineFacts.
From FP Require Import GenTieTac GenTiePow.

Definition perr_of (e : gperr) : perr :=
  match e with GP_Empty => PEmpty | GP_Invalid => PInvalid | GP_FracDigitLimitExceeded => PFracLimit | GP_InternalOverflow => POverflow end.
Definition gperr_of (e : perr) : gperr :=
  match e with PEmpty => GP_Empty | PInvalid => GP_Invalid | PFracLimit => GP_FracDigitLimitExceeded | POverflow => GP_InternalOverflow end.
Definition sum_of_pres {A} (r : pres A) : A + gperr := match r with POk a => inl a | PErr e => inr (gperr_of e) end.

Lemma tie_from_str pf (ext : list Z -> res ((Z * Z) + gperr)) s :
  ext s = (r <- str_to_dec pf s ;; Val (sum_of_pres r)) ->
  g_FromStr_from_str pf ext s = (r <- from_str pf s ;; Val (sum_of_pres r)).
Proof.
  intros Hext. unfold g_FromStr_from_str, from_str. rewrite Hext.
  destruct (str_to_dec pf s) as [[[c e]|err]| | |]; cbn [bind sum_of_pres]; try reflexivity.
  unfold from_str_fold. to_model_pow. change g_MAX_N_FRAC_DIGITS with MAX_N_FRAC_DIGITS. change FROMSTR_EXP_MAX with 38.
  change (ck_neg pf Isize e) with (ck_neg pf I64 e).
  repeat (cbv beta iota zeta; cbn [bind sum_of_pres gperr_of]; tie2_step); cbn [bind sum_of_pres gperr_of]; try fin.
Qed.
