(* GenTieIntBase.v - shared by the integer-operand tie files. *)
From FP Require Import Machine SrcConsts Pow10 WideDiv Rounding Arith Cmp IntForms GenCore GenDec GenInt MachineFacts.
From FP Require Import GenTieTac GenTiePow.

Lemma int_in_i128 t i : In t [U8; I8; U16; I16; U32; I32; U64; I64; I128] -> in_range t i = true -> in_range I128 i = true.
Proof.
  intros Ht H. apply in_range_iff in H. apply in_I128_iff.
  cbn [In] in Ht.
  repeat (destruct Ht as [<-|Ht]; [unfold tmin, tmax in H; cbn [signed bits] in H; lia|]).
  contradiction.
Qed.

Ltac int_fin := unfold_helpers_int; unfold g_coeff_or_panic, addsub_i128, or_panic, DZERO in *; to_model_pow;
  first [ solve [rf]
        | solve [repeat (cbv beta iota zeta; cbn [bind]; try to_model_pow; tie2_step); cbn [bind negb andb orb option_map obind]; try fin] ].
