(* GenTieIntAdd.v - GENERATED ONCE by tools/gen_tie_int.py (static text, committed): the integer-operand forms of + - checked_add checked_sub,
   as translated from /repo's current source (gen/GenInt.v), equal the model (IntForms.v). *)
From FP Require Import Machine SrcConsts Pow10 WideDiv Rounding Arith Cmp IntForms GenCore GenDec GenInt MachineFacts.
From FP Require Import GenTieTac GenTiePow GenTieIntBase.


Lemma tie_Add_u8 pf d i :
  g_Add_u8_add pf d i = di_addsub false d i.
Proof.
  intros. unfold g_Add_u8_add, di_addsub. int_fin.
Qed.

Lemma tie_Add_by_u8 pf i d :
  g_Add_by_u8_add pf i d = id_addsub false i d.
Proof.
  intros. unfold g_Add_by_u8_add, id_addsub. int_fin.
Qed.

Lemma tie_Sub_u8 pf d i :
  g_Sub_u8_sub pf d i = di_addsub true d i.
Proof.
  intros. unfold g_Sub_u8_sub, di_addsub. int_fin.
Qed.

Lemma tie_Sub_by_u8 pf i d :
  g_Sub_by_u8_sub pf i d = id_addsub true i d.
Proof.
  intros. unfold g_Sub_by_u8_sub, id_addsub. int_fin.
Qed.

Lemma tie_CheckedAdd_u8 pf d i :
  g_CheckedAdd_u8_checked_add pf d i = di_checked_addsub false d i.
Proof.
  intros. unfold g_CheckedAdd_u8_checked_add, di_checked_addsub. int_fin.
Qed.

Lemma tie_CheckedAdd_by_u8 pf i d :
  g_CheckedAdd_by_u8_checked_add pf i d = id_checked_addsub false i d.
Proof.
  intros. unfold g_CheckedAdd_by_u8_checked_add, id_checked_addsub. int_fin.
Qed.

Lemma tie_CheckedSub_u8 pf d i :
  g_CheckedSub_u8_checked_sub pf d i = di_checked_addsub true d i.
Proof.
  intros. unfold g_CheckedSub_u8_checked_sub, di_checked_addsub. int_fin.
Qed.

Lemma tie_CheckedSub_by_u8 pf i d :
  g_CheckedSub_by_u8_checked_sub pf i d = id_checked_addsub true i d.
Proof.
  intros. unfold g_CheckedSub_by_u8_checked_sub, id_checked_addsub. int_fin.
Qed.

Lemma tie_Add_i8 pf d i :
  g_Add_i8_add pf d i = di_addsub false d i.
Proof.
  intros. unfold g_Add_i8_add, di_addsub. int_fin.
Qed.

Lemma tie_Add_by_i8 pf i d :
  g_Add_by_i8_add pf i d = id_addsub false i d.
Proof.
  intros. unfold g_Add_by_i8_add, id_addsub. int_fin.
Qed.

Lemma tie_Sub_i8 pf d i :
  g_Sub_i8_sub pf d i = di_addsub true d i.
Proof.
  intros. unfold g_Sub_i8_sub, di_addsub. int_fin.
Qed.

Lemma tie_Sub_by_i8 pf i d :
  g_Sub_by_i8_sub pf i d = id_addsub true i d.
Proof.
  intros. unfold g_Sub_by_i8_sub, id_addsub. int_fin.
Qed.

Lemma tie_CheckedAdd_i8 pf d i :
  g_CheckedAdd_i8_checked_add pf d i = di_checked_addsub false d i.
Proof.
  intros. unfold g_CheckedAdd_i8_checked_add, di_checked_addsub. int_fin.
Qed.

Lemma tie_CheckedAdd_by_i8 pf i d :
  g_CheckedAdd_by_i8_checked_add pf i d = id_checked_addsub false i d.
Proof.
  intros. unfold g_CheckedAdd_by_i8_checked_add, id_checked_addsub. int_fin.
Qed.

Lemma tie_CheckedSub_i8 pf d i :
  g_CheckedSub_i8_checked_sub pf d i = di_checked_addsub true d i.
Proof.
  intros. unfold g_CheckedSub_i8_checked_sub, di_checked_addsub. int_fin.
Qed.

Lemma tie_CheckedSub_by_i8 pf i d :
  g_CheckedSub_by_i8_checked_sub pf i d = id_checked_addsub true i d.
Proof.
  intros. unfold g_CheckedSub_by_i8_checked_sub, id_checked_addsub. int_fin.
Qed.

Lemma tie_Add_u16 pf d i :
  g_Add_u16_add pf d i = di_addsub false d i.
Proof.
  intros. unfold g_Add_u16_add, di_addsub. int_fin.
Qed.

Lemma tie_Add_by_u16 pf i d :
  g_Add_by_u16_add pf i d = id_addsub false i d.
Proof.
  intros. unfold g_Add_by_u16_add, id_addsub. int_fin.
Qed.

Lemma tie_Sub_u16 pf d i :
  g_Sub_u16_sub pf d i = di_addsub true d i.
Proof.
  intros. unfold g_Sub_u16_sub, di_addsub. int_fin.
Qed.

Lemma tie_Sub_by_u16 pf i d :
  g_Sub_by_u16_sub pf i d = id_addsub true i d.
Proof.
  intros. unfold g_Sub_by_u16_sub, id_addsub. int_fin.
Qed.

Lemma tie_CheckedAdd_u16 pf d i :
  g_CheckedAdd_u16_checked_add pf d i = di_checked_addsub false d i.
Proof.
  intros. unfold g_CheckedAdd_u16_checked_add, di_checked_addsub. int_fin.
Qed.

Lemma tie_CheckedAdd_by_u16 pf i d :
  g_CheckedAdd_by_u16_checked_add pf i d = id_checked_addsub false i d.
Proof.
  intros. unfold g_CheckedAdd_by_u16_checked_add, id_checked_addsub. int_fin.
Qed.

Lemma tie_CheckedSub_u16 pf d i :
  g_CheckedSub_u16_checked_sub pf d i = di_checked_addsub true d i.
Proof.
  intros. unfold g_CheckedSub_u16_checked_sub, di_checked_addsub. int_fin.
Qed.

Lemma tie_CheckedSub_by_u16 pf i d :
  g_CheckedSub_by_u16_checked_sub pf i d = id_checked_addsub true i d.
Proof.
  intros. unfold g_CheckedSub_by_u16_checked_sub, id_checked_addsub. int_fin.
Qed.

Lemma tie_Add_i16 pf d i :
  g_Add_i16_add pf d i = di_addsub false d i.
Proof.
  intros. unfold g_Add_i16_add, di_addsub. int_fin.
Qed.

Lemma tie_Add_by_i16 pf i d :
  g_Add_by_i16_add pf i d = id_addsub false i d.
Proof.
  intros. unfold g_Add_by_i16_add, id_addsub. int_fin.
Qed.

Lemma tie_Sub_i16 pf d i :
  g_Sub_i16_sub pf d i = di_addsub true d i.
Proof.
  intros. unfold g_Sub_i16_sub, di_addsub. int_fin.
Qed.

Lemma tie_Sub_by_i16 pf i d :
  g_Sub_by_i16_sub pf i d = id_addsub true i d.
Proof.
  intros. unfold g_Sub_by_i16_sub, id_addsub. int_fin.
Qed.

Lemma tie_CheckedAdd_i16 pf d i :
  g_CheckedAdd_i16_checked_add pf d i = di_checked_addsub false d i.
Proof.
  intros. unfold g_CheckedAdd_i16_checked_add, di_checked_addsub. int_fin.
Qed.

Lemma tie_CheckedAdd_by_i16 pf i d :
  g_CheckedAdd_by_i16_checked_add pf i d = id_checked_addsub false i d.
Proof.
  intros. unfold g_CheckedAdd_by_i16_checked_add, id_checked_addsub. int_fin.
Qed.

Lemma tie_CheckedSub_i16 pf d i :
  g_CheckedSub_i16_checked_sub pf d i = di_checked_addsub true d i.
Proof.
  intros. unfold g_CheckedSub_i16_checked_sub, di_checked_addsub. int_fin.
Qed.

Lemma tie_CheckedSub_by_i16 pf i d :
  g_CheckedSub_by_i16_checked_sub pf i d = id_checked_addsub true i d.
Proof.
  intros. unfold g_CheckedSub_by_i16_checked_sub, id_checked_addsub. int_fin.
Qed.

Lemma tie_Add_u32 pf d i :
  g_Add_u32_add pf d i = di_addsub false d i.
Proof.
  intros. unfold g_Add_u32_add, di_addsub. int_fin.
Qed.

Lemma tie_Add_by_u32 pf i d :
  g_Add_by_u32_add pf i d = id_addsub false i d.
Proof.
  intros. unfold g_Add_by_u32_add, id_addsub. int_fin.
Qed.

Lemma tie_Sub_u32 pf d i :
  g_Sub_u32_sub pf d i = di_addsub true d i.
Proof.
  intros. unfold g_Sub_u32_sub, di_addsub. int_fin.
Qed.

Lemma tie_Sub_by_u32 pf i d :
  g_Sub_by_u32_sub pf i d = id_addsub true i d.
Proof.
  intros. unfold g_Sub_by_u32_sub, id_addsub. int_fin.
Qed.

Lemma tie_CheckedAdd_u32 pf d i :
  g_CheckedAdd_u32_checked_add pf d i = di_checked_addsub false d i.
Proof.
  intros. unfold g_CheckedAdd_u32_checked_add, di_checked_addsub. int_fin.
Qed.

Lemma tie_CheckedAdd_by_u32 pf i d :
  g_CheckedAdd_by_u32_checked_add pf i d = id_checked_addsub false i d.
Proof.
  intros. unfold g_CheckedAdd_by_u32_checked_add, id_checked_addsub. int_fin.
Qed.

Lemma tie_CheckedSub_u32 pf d i :
  g_CheckedSub_u32_checked_sub pf d i = di_checked_addsub true d i.
Proof.
  intros. unfold g_CheckedSub_u32_checked_sub, di_checked_addsub. int_fin.
Qed.

Lemma tie_CheckedSub_by_u32 pf i d :
  g_CheckedSub_by_u32_checked_sub pf i d = id_checked_addsub true i d.
Proof.
  intros. unfold g_CheckedSub_by_u32_checked_sub, id_checked_addsub. int_fin.
Qed.

Lemma tie_Add_i32 pf d i :
  g_Add_i32_add pf d i = di_addsub false d i.
Proof.
  intros. unfold g_Add_i32_add, di_addsub. int_fin.
Qed.

Lemma tie_Add_by_i32 pf i d :
  g_Add_by_i32_add pf i d = id_addsub false i d.
Proof.
  intros. unfold g_Add_by_i32_add, id_addsub. int_fin.
Qed.

Lemma tie_Sub_i32 pf d i :
  g_Sub_i32_sub pf d i = di_addsub true d i.
Proof.
  intros. unfold g_Sub_i32_sub, di_addsub. int_fin.
Qed.

Lemma tie_Sub_by_i32 pf i d :
  g_Sub_by_i32_sub pf i d = id_addsub true i d.
Proof.
  intros. unfold g_Sub_by_i32_sub, id_addsub. int_fin.
Qed.

Lemma tie_CheckedAdd_i32 pf d i :
  g_CheckedAdd_i32_checked_add pf d i = di_checked_addsub false d i.
Proof.
  intros. unfold g_CheckedAdd_i32_checked_add, di_checked_addsub. int_fin.
Qed.

Lemma tie_CheckedAdd_by_i32 pf i d :
  g_CheckedAdd_by_i32_checked_add pf i d = id_checked_addsub false i d.
Proof.
  intros. unfold g_CheckedAdd_by_i32_checked_add, id_checked_addsub. int_fin.
Qed.

Lemma tie_CheckedSub_i32 pf d i :
  g_CheckedSub_i32_checked_sub pf d i = di_checked_addsub true d i.
Proof.
  intros. unfold g_CheckedSub_i32_checked_sub, di_checked_addsub. int_fin.
Qed.

Lemma tie_CheckedSub_by_i32 pf i d :
  g_CheckedSub_by_i32_checked_sub pf i d = id_checked_addsub true i d.
Proof.
  intros. unfold g_CheckedSub_by_i32_checked_sub, id_checked_addsub. int_fin.
Qed.

Lemma tie_Add_u64 pf d i :
  g_Add_u64_add pf d i = di_addsub false d i.
Proof.
  intros. unfold g_Add_u64_add, di_addsub. int_fin.
Qed.

Lemma tie_Add_by_u64 pf i d :
  g_Add_by_u64_add pf i d = id_addsub false i d.
Proof.
  intros. unfold g_Add_by_u64_add, id_addsub. int_fin.
Qed.

Lemma tie_Sub_u64 pf d i :
  g_Sub_u64_sub pf d i = di_addsub true d i.
Proof.
  intros. unfold g_Sub_u64_sub, di_addsub. int_fin.
Qed.

Lemma tie_Sub_by_u64 pf i d :
  g_Sub_by_u64_sub pf i d = id_addsub true i d.
Proof.
  intros. unfold g_Sub_by_u64_sub, id_addsub. int_fin.
Qed.

Lemma tie_CheckedAdd_u64 pf d i :
  g_CheckedAdd_u64_checked_add pf d i = di_checked_addsub false d i.
Proof.
  intros. unfold g_CheckedAdd_u64_checked_add, di_checked_addsub. int_fin.
Qed.

Lemma tie_CheckedAdd_by_u64 pf i d :
  g_CheckedAdd_by_u64_checked_add pf i d = id_checked_addsub false i d.
Proof.
  intros. unfold g_CheckedAdd_by_u64_checked_add, id_checked_addsub. int_fin.
Qed.

Lemma tie_CheckedSub_u64 pf d i :
  g_CheckedSub_u64_checked_sub pf d i = di_checked_addsub true d i.
Proof.
  intros. unfold g_CheckedSub_u64_checked_sub, di_checked_addsub. int_fin.
Qed.

Lemma tie_CheckedSub_by_u64 pf i d :
  g_CheckedSub_by_u64_checked_sub pf i d = id_checked_addsub true i d.
Proof.
  intros. unfold g_CheckedSub_by_u64_checked_sub, id_checked_addsub. int_fin.
Qed.

Lemma tie_Add_i64 pf d i :
  g_Add_i64_add pf d i = di_addsub false d i.
Proof.
  intros. unfold g_Add_i64_add, di_addsub. int_fin.
Qed.

Lemma tie_Add_by_i64 pf i d :
  g_Add_by_i64_add pf i d = id_addsub false i d.
Proof.
  intros. unfold g_Add_by_i64_add, id_addsub. int_fin.
Qed.

Lemma tie_Sub_i64 pf d i :
  g_Sub_i64_sub pf d i = di_addsub true d i.
Proof.
  intros. unfold g_Sub_i64_sub, di_addsub. int_fin.
Qed.

Lemma tie_Sub_by_i64 pf i d :
  g_Sub_by_i64_sub pf i d = id_addsub true i d.
Proof.
  intros. unfold g_Sub_by_i64_sub, id_addsub. int_fin.
Qed.

Lemma tie_CheckedAdd_i64 pf d i :
  g_CheckedAdd_i64_checked_add pf d i = di_checked_addsub false d i.
Proof.
  intros. unfold g_CheckedAdd_i64_checked_add, di_checked_addsub. int_fin.
Qed.

Lemma tie_CheckedAdd_by_i64 pf i d :
  g_CheckedAdd_by_i64_checked_add pf i d = id_checked_addsub false i d.
Proof.
  intros. unfold g_CheckedAdd_by_i64_checked_add, id_checked_addsub. int_fin.
Qed.

Lemma tie_CheckedSub_i64 pf d i :
  g_CheckedSub_i64_checked_sub pf d i = di_checked_addsub true d i.
Proof.
  intros. unfold g_CheckedSub_i64_checked_sub, di_checked_addsub. int_fin.
Qed.

Lemma tie_CheckedSub_by_i64 pf i d :
  g_CheckedSub_by_i64_checked_sub pf i d = id_checked_addsub true i d.
Proof.
  intros. unfold g_CheckedSub_by_i64_checked_sub, id_checked_addsub. int_fin.
Qed.

Lemma tie_Add_i128 pf d i :
  g_Add_i128_add pf d i = di_addsub false d i.
Proof.
  intros. unfold g_Add_i128_add, di_addsub. int_fin.
Qed.

Lemma tie_Add_by_i128 pf i d :
  g_Add_by_i128_add pf i d = id_addsub false i d.
Proof.
  intros. unfold g_Add_by_i128_add, id_addsub. int_fin.
Qed.

Lemma tie_Sub_i128 pf d i :
  g_Sub_i128_sub pf d i = di_addsub true d i.
Proof.
  intros. unfold g_Sub_i128_sub, di_addsub. int_fin.
Qed.

Lemma tie_Sub_by_i128 pf i d :
  g_Sub_by_i128_sub pf i d = id_addsub true i d.
Proof.
  intros. unfold g_Sub_by_i128_sub, id_addsub. int_fin.
Qed.

Lemma tie_CheckedAdd_i128 pf d i :
  g_CheckedAdd_i128_checked_add pf d i = di_checked_addsub false d i.
Proof.
  intros. unfold g_CheckedAdd_i128_checked_add, di_checked_addsub. int_fin.
Qed.

Lemma tie_CheckedAdd_by_i128 pf i d :
  g_CheckedAdd_by_i128_checked_add pf i d = id_checked_addsub false i d.
Proof.
  intros. unfold g_CheckedAdd_by_i128_checked_add, id_checked_addsub. int_fin.
Qed.

Lemma tie_CheckedSub_i128 pf d i :
  g_CheckedSub_i128_checked_sub pf d i = di_checked_addsub true d i.
Proof.
  intros. unfold g_CheckedSub_i128_checked_sub, di_checked_addsub. int_fin.
Qed.

Lemma tie_CheckedSub_by_i128 pf i d :
  g_CheckedSub_by_i128_checked_sub pf i d = id_checked_addsub true i d.
Proof.
  intros. unfold g_CheckedSub_by_i128_checked_sub, id_checked_addsub. int_fin.
Qed.
