(* GenTieIntMul.v - GENERATED ONCE by tools/gen_tie_int.py (static text, committed): the integer-operand forms of * checked_mul,
   as translated from /repo's current source (gen/GenInt.v), equal the model (IntForms.v). *)
From FP Require Import Machine SrcConsts Pow10 WideDiv Rounding Arith Cmp IntForms GenCore GenDec GenInt MachineFacts.
From FP Require Import GenTieTac GenTiePow GenTieIntBase.


Lemma tie_Mul_u8 pf d i :
  g_Mul_u8_mul pf d i = di_mul d i.
Proof.
  intros. unfold g_Mul_u8_mul, di_mul. int_fin.
Qed.

Lemma tie_Mul_by_u8 pf i d :
  g_Mul_by_u8_mul pf i d = id_mul i d.
Proof.
  intros. unfold g_Mul_by_u8_mul, id_mul. int_fin.
Qed.

Lemma tie_CheckedMul_u8 pf d i :
  g_CheckedMul_u8_checked_mul pf d i = di_checked_mul d i.
Proof.
  intros. unfold g_CheckedMul_u8_checked_mul, di_checked_mul. int_fin.
Qed.

Lemma tie_CheckedMul_by_u8 pf i d :
  g_CheckedMul_by_u8_checked_mul pf i d = id_checked_mul i d.
Proof.
  intros. unfold g_CheckedMul_by_u8_checked_mul, id_checked_mul. int_fin.
Qed.

Lemma tie_Mul_i8 pf d i :
  g_Mul_i8_mul pf d i = di_mul d i.
Proof.
  intros. unfold g_Mul_i8_mul, di_mul. int_fin.
Qed.

Lemma tie_Mul_by_i8 pf i d :
  g_Mul_by_i8_mul pf i d = id_mul i d.
Proof.
  intros. unfold g_Mul_by_i8_mul, id_mul. int_fin.
Qed.

Lemma tie_CheckedMul_i8 pf d i :
  g_CheckedMul_i8_checked_mul pf d i = di_checked_mul d i.
Proof.
  intros. unfold g_CheckedMul_i8_checked_mul, di_checked_mul. int_fin.
Qed.

Lemma tie_CheckedMul_by_i8 pf i d :
  g_CheckedMul_by_i8_checked_mul pf i d = id_checked_mul i d.
Proof.
  intros. unfold g_CheckedMul_by_i8_checked_mul, id_checked_mul. int_fin.
Qed.

Lemma tie_Mul_u16 pf d i :
  g_Mul_u16_mul pf d i = di_mul d i.
Proof.
  intros. unfold g_Mul_u16_mul, di_mul. int_fin.
Qed.

Lemma tie_Mul_by_u16 pf i d :
  g_Mul_by_u16_mul pf i d = id_mul i d.
Proof.
  intros. unfold g_Mul_by_u16_mul, id_mul. int_fin.
Qed.

Lemma tie_CheckedMul_u16 pf d i :
  g_CheckedMul_u16_checked_mul pf d i = di_checked_mul d i.
Proof.
  intros. unfold g_CheckedMul_u16_checked_mul, di_checked_mul. int_fin.
Qed.

Lemma tie_CheckedMul_by_u16 pf i d :
  g_CheckedMul_by_u16_checked_mul pf i d = id_checked_mul i d.
Proof.
  intros. unfold g_CheckedMul_by_u16_checked_mul, id_checked_mul. int_fin.
Qed.

Lemma tie_Mul_i16 pf d i :
  g_Mul_i16_mul pf d i = di_mul d i.
Proof.
  intros. unfold g_Mul_i16_mul, di_mul. int_fin.
Qed.

Lemma tie_Mul_by_i16 pf i d :
  g_Mul_by_i16_mul pf i d = id_mul i d.
Proof.
  intros. unfold g_Mul_by_i16_mul, id_mul. int_fin.
Qed.

Lemma tie_CheckedMul_i16 pf d i :
  g_CheckedMul_i16_checked_mul pf d i = di_checked_mul d i.
Proof.
  intros. unfold g_CheckedMul_i16_checked_mul, di_checked_mul. int_fin.
Qed.

Lemma tie_CheckedMul_by_i16 pf i d :
  g_CheckedMul_by_i16_checked_mul pf i d = id_checked_mul i d.
Proof.
  intros. unfold g_CheckedMul_by_i16_checked_mul, id_checked_mul. int_fin.
Qed.

Lemma tie_Mul_u32 pf d i :
  g_Mul_u32_mul pf d i = di_mul d i.
Proof.
  intros. unfold g_Mul_u32_mul, di_mul. int_fin.
Qed.

Lemma tie_Mul_by_u32 pf i d :
  g_Mul_by_u32_mul pf i d = id_mul i d.
Proof.
  intros. unfold g_Mul_by_u32_mul, id_mul. int_fin.
Qed.

Lemma tie_CheckedMul_u32 pf d i :
  g_CheckedMul_u32_checked_mul pf d i = di_checked_mul d i.
Proof.
  intros. unfold g_CheckedMul_u32_checked_mul, di_checked_mul. int_fin.
Qed.

Lemma tie_CheckedMul_by_u32 pf i d :
  g_CheckedMul_by_u32_checked_mul pf i d = id_checked_mul i d.
Proof.
  intros. unfold g_CheckedMul_by_u32_checked_mul, id_checked_mul. int_fin.
Qed.

Lemma tie_Mul_i32 pf d i :
  g_Mul_i32_mul pf d i = di_mul d i.
Proof.
  intros. unfold g_Mul_i32_mul, di_mul. int_fin.
Qed.

Lemma tie_Mul_by_i32 pf i d :
  g_Mul_by_i32_mul pf i d = id_mul i d.
Proof.
  intros. unfold g_Mul_by_i32_mul, id_mul. int_fin.
Qed.

Lemma tie_CheckedMul_i32 pf d i :
  g_CheckedMul_i32_checked_mul pf d i = di_checked_mul d i.
Proof.
  intros. unfold g_CheckedMul_i32_checked_mul, di_checked_mul. int_fin.
Qed.

Lemma tie_CheckedMul_by_i32 pf i d :
  g_CheckedMul_by_i32_checked_mul pf i d = id_checked_mul i d.
Proof.
  intros. unfold g_CheckedMul_by_i32_checked_mul, id_checked_mul. int_fin.
Qed.

Lemma tie_Mul_u64 pf d i :
  g_Mul_u64_mul pf d i = di_mul d i.
Proof.
  intros. unfold g_Mul_u64_mul, di_mul. int_fin.
Qed.

Lemma tie_Mul_by_u64 pf i d :
  g_Mul_by_u64_mul pf i d = id_mul i d.
Proof.
  intros. unfold g_Mul_by_u64_mul, id_mul. int_fin.
Qed.

Lemma tie_CheckedMul_u64 pf d i :
  g_CheckedMul_u64_checked_mul pf d i = di_checked_mul d i.
Proof.
  intros. unfold g_CheckedMul_u64_checked_mul, di_checked_mul. int_fin.
Qed.

Lemma tie_CheckedMul_by_u64 pf i d :
  g_CheckedMul_by_u64_checked_mul pf i d = id_checked_mul i d.
Proof.
  intros. unfold g_CheckedMul_by_u64_checked_mul, id_checked_mul. int_fin.
Qed.

Lemma tie_Mul_i64 pf d i :
  g_Mul_i64_mul pf d i = di_mul d i.
Proof.
  intros. unfold g_Mul_i64_mul, di_mul. int_fin.
Qed.

Lemma tie_Mul_by_i64 pf i d :
  g_Mul_by_i64_mul pf i d = id_mul i d.
Proof.
  intros. unfold g_Mul_by_i64_mul, id_mul. int_fin.
Qed.

Lemma tie_CheckedMul_i64 pf d i :
  g_CheckedMul_i64_checked_mul pf d i = di_checked_mul d i.
Proof.
  intros. unfold g_CheckedMul_i64_checked_mul, di_checked_mul. int_fin.
Qed.

Lemma tie_CheckedMul_by_i64 pf i d :
  g_CheckedMul_by_i64_checked_mul pf i d = id_checked_mul i d.
Proof.
  intros. unfold g_CheckedMul_by_i64_checked_mul, id_checked_mul. int_fin.
Qed.

Lemma tie_Mul_i128 pf d i :
  g_Mul_i128_mul pf d i = di_mul d i.
Proof.
  intros. unfold g_Mul_i128_mul, di_mul. int_fin.
Qed.

Lemma tie_Mul_by_i128 pf i d :
  g_Mul_by_i128_mul pf i d = id_mul i d.
Proof.
  intros. unfold g_Mul_by_i128_mul, id_mul. int_fin.
Qed.

Lemma tie_CheckedMul_i128 pf d i :
  g_CheckedMul_i128_checked_mul pf d i = di_checked_mul d i.
Proof.
  intros. unfold g_CheckedMul_i128_checked_mul, di_checked_mul. int_fin.
Qed.

Lemma tie_CheckedMul_by_i128 pf i d :
  g_CheckedMul_by_i128_checked_mul pf i d = id_checked_mul i d.
Proof.
  intros. unfold g_CheckedMul_by_i128_checked_mul, id_checked_mul. int_fin.
Qed.
