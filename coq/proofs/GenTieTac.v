(* GenTieTac.v — part of the tie between the translated source (gen/GenCore.v, regenerated from /repo by tools/rs2v.py on
   every run) and the hand-written model: tactics that see through differences of form, and range facts of machine results.
   A change of behaviour of a translated Rust function breaks its tie lemma (a broken proof obligation, answered by
   check.py with a search for a failing input); a change of form only (renamed locals, comments, layout, reordered
   items, an equivalent rewrite these tactics see through) does not. *)
From FP Require Import Machine SrcConsts MachineFacts.

(* ---- tactics that see through differences of form ------------------------------------------- *)
Ltac ground z := lazymatch z with Z0 => idtac | Zpos _ => idtac | Zneg _ => idtac end.

(* closed arithmetic on literals is evaluated:  ck_add pf U32 0 5  ~>  Val 5  (by conversion) *)
Ltac ck_ground :=
  repeat match goal with
  | |- context [ck_add ?pf ?t ?a ?b] => ground a; ground b;
      let r := eval vm_compute in (a + b) in change (ck_add pf t a b) with (@Val Z r)
  | |- context [ck_sub ?pf ?t ?a ?b] => ground a; ground b;
      let r := eval vm_compute in (a - b) in change (ck_sub pf t a b) with (@Val Z r)
  end.

(* case analysis on the innermost effectful computation of a bind chain *)
Ltac head_eff e :=
  lazymatch e with
  | bind ?a _ => head_eff a
  | (if ?c then _ else _) => destruct c eqn:?
  | match ?o with _ => _ end => destruct o eqn:?
  | Val _ => fail
  | _ => destruct e eqn:?
  end.
(* reflexivity that cannot get lost in a failing conversion of two big terms *)
Ltac rf := first [ match goal with |- ?a = ?b => constr_eq a b; reflexivity end | timeout 5 reflexivity ].
Ltac tie_step :=
  cbn [bind]; ck_ground; cbn [bind];
  try rf;
  match goal with
  | |- context [bind ?e _] => head_eff e
  | |- context [if ?c then _ else _] => destruct c eqn:?
  end.
Ltac tie := repeat tie_step; cbn [bind]; try rf.

(* division and remainder by a literal other than 0 and -1 cannot panic *)
Lemma t_rem_lit t a b : b <> 0 -> b <> -1 -> t_rem t a b = Val (Z.rem a b).
Proof.
  intros H0 H1. unfold t_rem. destruct (Z.eqb_spec b 0); [contradiction|].
  destruct (Z.eqb_spec b (-1)); [contradiction|]. rewrite andb_false_r. reflexivity.
Qed.
Lemma t_div_lit t a b : b <> 0 -> b <> -1 -> t_div t a b = Val (Z.quot a b).
Proof.
  intros H0 H1. unfold t_div. destruct (Z.eqb_spec b 0); [contradiction|].
  destruct (Z.eqb_spec b (-1)); [contradiction|]. rewrite andb_false_r. reflexivity.
Qed.
Ltac lit_divs :=
  repeat match goal with
  | |- context [t_rem ?t ?a ?b] => ground b; rewrite (t_rem_lit t a b) by lia
  | |- context [t_div ?t ?a ?b] => ground b; rewrite (t_div_lit t a b) by lia
  end.

(* a stronger variant: comparisons are split with their specifications, so that branches that contradict each
   other (x > y in one form, compare x y = Lt in the other) are closed by lia *)
Ltac dcmp c :=
  lazymatch c with
  | match (?a ?= ?b) with Eq => _ | Lt => _ | Gt => _ end => destruct (Z.compare_spec a b)
  | (?a =? ?b) => destruct (Z.eqb_spec a b)
  | (?a <? ?b) => destruct (Z.ltb_spec a b)
  | (?a <=? ?b) => destruct (Z.leb_spec a b)
  | (?a >? ?b) => rewrite (Z.gtb_ltb a b); destruct (Z.ltb_spec b a)
  | (?a >=? ?b) => rewrite (Z.geb_leb a b); destruct (Z.leb_spec b a)
  | (?a ?= ?b) => destruct (Z.compare_spec a b)
  | (if ?x then _ else _) => dcmp x
  | negb ?x => dcmp x
  | andb ?x _ => dcmp x
  | orb ?x _ => dcmp x
  | Bool.eqb ?x _ => dcmp x
  | _ => destruct c eqn:?
  end.
Ltac head_eff2 e :=
  lazymatch e with
  | bind ?a _ => head_eff2 a
  | (if ?c then _ else _) => dcmp c
  | match ?o with _ => _ end => dcmp o
  | Val _ => fail
  | _ => destruct e eqn:?
  end.
Ltac fin := first [ rf | exfalso; lia | f_equal; lia ].
Ltac tie2_step :=
  cbv beta iota zeta; cbn [bind negb andb orb Bool.eqb fst snd]; ck_ground; cbn [bind negb andb orb];
  try (match goal with |- ?a = ?b => constr_eq a b end; reflexivity);
  match goal with
  | |- context [bind ?e _] => head_eff2 e
  | |- context [if ?c then _ else _] => dcmp c
  | |- context [match (?a ?= ?b) with _ => _ end] => destruct (Z.compare_spec a b)
  | |- context [match ?o with Some _ => _ | None => _ end] => destruct o eqn:?; cbn [option_map obind]
  | |- context [option_map _ ?o] => destruct o eqn:?; cbn [option_map obind]
  | |- context [fst ?p] => is_var p; destruct p; cbn [fst snd]
  | |- context [snd ?p] => is_var p; destruct p; cbn [fst snd]
  | |- context [match ?p with pair _ _ => _ end] => is_var p; destruct p
  | |- context [match ?s with inl _ => _ | inr _ => _ end] => destruct s eqn:?
  end.
Ltac tie2 := lit_divs; repeat tie2_step; cbn [bind negb andb orb]; try fin.

Tactic Notation "dres" constr(e) "as" ident(x) := destruct e as [x| | |]; cbn [bind]; [ | rf | rf | rf ].

(* ---- ranges of results (a value produced by a machine operation lies in its type) ------------ *)
Lemma wrap_range t z : in_range t (wrap t z) = true.
Proof.
  apply in_range_iff. unfold wrap, tmin, tmax.
  assert (Hb : 0 < bits t) by (destruct t; reflexivity).
  assert (Hp : 2 ^ bits t = 2 * 2 ^ (bits t - 1)).
  { rewrite <- Z.pow_succ_r by lia. f_equal. lia. }
  assert (Hq : 0 < 2 ^ (bits t - 1)) by (apply Z.pow_pos_nonneg; lia).
  destruct (signed t).
  - pose proof (Z.mod_pos_bound (z + 2 ^ (bits t - 1)) (2 ^ bits t) ltac:(lia)). lia.
  - pose proof (Z.mod_pos_bound z (2 ^ bits t) ltac:(lia)). lia.
Qed.

Lemma Val_inj {A} (a b : A) : Val a = Val b -> a = b.
Proof. congruence. Qed.

Lemma ck_range pf t z a : ck pf t z = Val a -> in_range t a = true.
Proof.
  unfold ck. destruct (in_range t z) eqn:E.
  - intros [= <-]. exact E.
  - destruct (ovf_checks pf); [discriminate|]. intros [= <-]. apply wrap_range.
Qed.


Lemma u8_iff z : in_range U8 z = true <-> 0 <= z <= 255.
Proof. rewrite in_range_iff. change (tmin U8) with 0. change (tmax U8) with 255. reflexivity. Qed.

Lemma ck_sub_u8_ok pf a b : in_range U8 a = true -> 0 <= b <= a -> ck_sub pf U8 a b = Val (a - b).
Proof. intros Ha Hb. apply u8_iff in Ha. unfold ck_sub. apply ck_ok. apply u8_iff. lia. Qed.
