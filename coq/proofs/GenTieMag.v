(* GenTieMag.v — part of the tie between the translated source (gen/GenCore.v, regenerated from /repo by tools/rs2v.py on
   every run) and the hand-written model: the log10 bit tricks (less_than_5, u32, u64, u128, i128_magnitude). *)
From FP Require Import Machine SrcConsts Pow10 Unops GenCore MachineFacts GenTieTac.
From FP Require Import RoundSpec Out ArithSpec Lt5Facts MagnitudeFacts.

Lemma tie_less_than_5 pf v : g_less_than_5 pf v = log_lt5 pf v.
Proof. reflexivity. Qed.

Lemma land_u32 a b : in_range U32 a = true -> in_range U32 b = true -> 0 <= Z.land a b < 2 ^ 32.
Proof.
  intros Ha Hb. apply in_range_iff in Ha. apply in_range_iff in Hb.
  change (tmin U32) with 0 in *. change (tmax U32) with (2 ^ 32 - 1) in *.
  split. { apply Z.land_nonneg. lia. }
  destruct (Z.eq_dec (Z.land a b) 0) as [->|Hn]; [lia|].
  apply Z.log2_lt_pow2. { pose proof (Z.land_nonneg a b). lia. }
  pose proof (Z.log2_land a b ltac:(lia) ltac:(lia)).
  destruct (Z.eq_dec a 0) as [->|Ha0]. { rewrite Z.land_0_l in Hn. lia. }
  assert (Z.log2 a < 32) by (apply Z.log2_lt_pow2; lia). lia.
Qed.

Lemma lt5_range pf v a : log_lt5 pf v = Val a -> 0 <= a < 2 ^ 15.
Proof.
  unfold log_lt5, ck_add.
  destruct (ck pf U32 (v + LT5_C1)) as [x1| | |] eqn:E1; cbn [bind]; try discriminate.
  destruct (ck pf U32 (v + LT5_C2)) as [x2| | |] eqn:E2; cbn [bind]; try discriminate.
  destruct (ck pf U32 (v + LT5_C3)) as [x3| | |] eqn:E3; cbn [bind]; try discriminate.
  destruct (ck pf U32 (v + LT5_C4)) as [x4| | |] eqn:E4; cbn [bind]; try discriminate.
  intros [= <-].
  apply ck_range in E1, E2, E3, E4.
  pose proof (land_u32 _ _ E1 E2) as H12. pose proof (land_u32 _ _ E3 E4) as H34.
  set (p := Z.land x1 x2) in *. set (q := Z.land x3 x4) in *. clearbody p q.
  change LT5_SHIFT with 17. rewrite Z.shiftr_div_pow2 by lia.
  assert (Hx : 0 <= Z.lxor p q < 2 ^ 32).
  { split. { apply Z.lxor_nonneg. lia. }
    destruct (Z.eq_dec (Z.lxor p q) 0) as [->|Hn]; [lia|].
    apply Z.log2_lt_pow2. { pose proof (proj2 (Z.lxor_nonneg p q)). lia. }
    pose proof (Z.log2_lxor p q ltac:(lia) ltac:(lia)).
    assert (Z.log2 p < 32). { destruct (Z.eq_dec p 0) as [->|]; [cbn; lia|apply Z.log2_lt_pow2; lia]. }
    assert (Z.log2 q < 32). { destruct (Z.eq_dec q 0) as [->|]; [cbn; lia|apply Z.log2_lt_pow2; lia]. }
    lia. }
  split. { apply Z.div_pos; lia. }
  apply Z.div_lt_upper_bound; [lia|]. change (2 ^ 17 * 2 ^ 15) with (2 ^ 32). lia.
Qed.

Lemma add0_u32 pf a : 0 <= a < 2 ^ 15 -> ck_add pf U32 0 a = Val a.
Proof. intros H. unfold ck_add. rewrite Z.add_0_l. apply ck_ok. apply in_range_iff. change (tmin U32) with 0. change (tmax U32) with (2^32-1). lia. Qed.

Lemma tie_u32 pf v : g_u32 pf v = log_u32 pf v.
Proof.
  unfold g_u32, log_u32. change LOG_U32_T with 100000. change g_less_than_5 with log_lt5.
  destruct (v >=? 100000); cbn [bind].
  - destruct (t_div U32 v 100000); cbn [bind]; reflexivity.
  - destruct (log_lt5 pf v) eqn:E; cbn [bind]; try reflexivity.
    apply add0_u32. eapply lt5_range; eassumption.
Qed.

Lemma u32_log_range pf v a : log_u32 pf v = Val a -> 0 <= a < 2 ^ 16.
Proof.
  unfold log_u32. destruct (v >=? LOG_U32_T).
  - destruct (t_div U32 v LOG_U32_T); cbn [bind]; try discriminate.
    destruct (log_lt5 pf a0) eqn:E; cbn [bind]; try discriminate.
    apply lt5_range in E. unfold ck_add. rewrite ck_ok.
    + intros Hv. apply Val_inj in Hv. lia.
    + apply in_range_iff. change (tmin U32) with 0. change (tmax U32) with (2^32-1). lia.
  - intros E. apply lt5_range in E. lia.
Qed.

Lemma tie_u64 pf v : g_u64 pf v = log_u64 pf v.
Proof.
  unfold g_u64, log_u64. change LOG_U64_T1 with 10000000000. change LOG_U64_T2 with 100000.
  change g_less_than_5 with log_lt5. tie.
Qed.

Lemma tie_u128 pf v : g_u128 pf v = log_u128 pf v.
Proof.
  unfold g_u128, log_u128.
  change LOG_U128_T1 with 100000000000000000000000000000000. change LOG_U128_T2 with 10000000000000000.
  destruct (v >=? 100000000000000000000000000000000); cbn [bind].
  - destruct (t_div U128 v 100000000000000000000000000000000); cbn [bind]; [|rf|rf|rf]. ck_ground. cbn [bind].
    rewrite tie_u32. reflexivity.
  - destruct (v >=? 10000000000000000); cbn [bind].
    + destruct (t_div U128 v 10000000000000000); cbn [bind]; [|rf|rf|rf]. ck_ground. cbn [bind].
      rewrite tie_u64. reflexivity.
    + rewrite tie_u64. reflexivity.
Qed.

Lemma tie_i128_magnitude pf i : g_i128_magnitude pf i = i128_magnitude pf i.
Proof. unfold g_i128_magnitude, i128_magnitude. rewrite tie_u128. reflexivity. Qed.


(* ---- the kernel theorems restated about the translated source ------------------------------- *)
Lemma src_log10 pf v : 0 < v < 2 ^ 128 -> g_u128 pf v = Val (ilog10 v).
Proof. intros H. rewrite tie_u128. apply log_u128_ok. exact H. Qed.

Lemma src_magnitude pf i : 0 < Z.abs i < 2 ^ 128 -> g_i128_magnitude pf i = Val (cast U8 (ilog10 (Z.abs i))).
Proof.
  intros H. rewrite tie_i128_magnitude. unfold i128_magnitude. rewrite log_u128_ok by exact H. reflexivity.
Qed.


Lemma tie_u16 pf v : g_u16 pf v = log_lt5 pf v.
Proof. reflexivity. Qed.
