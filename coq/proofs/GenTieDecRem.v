(* GenTieDecRem.v — remainder at the Decimal level (src/binops/{rem,checked_rem}.rs) as translated (gen/GenDec.v)
   equals the model (Arith.v); fn rem returns Result<(i128, u8), DecimalError>, translated as a sum type. *)
From FP Require Import Machine SrcConsts Pow10 WideDiv Rounding Arith RoundSpec Out ArithSpec Run GenCore GenDec MachineFacts.
From FP Require Import GenTieTac GenTiePow RemFacts.

Definition rem_loop_rel (g : res ((Z * Z) + ((Z * Z) + derr))) (m : res (option Z)) : Prop :=
  match g, m with
  | Val (inl (r, _)), Val (Some r') => r = r'
  | Val (inr (inr E_InternalOverflow)), Val None => True
  | Panic, Panic => True
  | UB, UB => True
  | Fuel, Fuel => True
  | _, _ => False
  end.

Lemma tie_rem_loop fuel pf cy : forall r s, 0 <= s <= 255 ->
  rem_loop_rel (g_rem_loop1 fuel pf r s cy) (rem_loop fuel r cy s).
Proof.
  induction fuel as [|f IH]; intros r s Hs; [exact I|].
  cbn [g_rem_loop1 rem_loop].
  destruct (negb (r =? 0)); cbn [andb]; [|exact eq_refl].
  destruct (Z.gtb_spec s 0) as [H|H]; [|exact eq_refl].
  destruct (checked I128 (r * 10)) as [sr|]; [|exact I].
  destruct (t_rem I128 sr cy) as [r'| | |]; cbn [bind]; try exact I.
  rewrite ck_sub_u8_ok by (try (apply u8_iff); lia). cbn [bind].
  apply IH. lia.
Qed.

Definition rem_result (o : option (Z * Z)) : (Z * Z) + derr :=
  match o with Some v => inl v | None => inr E_InternalOverflow end.

Lemma tie_rem_core pf cx px cy py : 0 <= px <= 255 -> 0 <= py <= 255 ->
  g_rem pf cx px cy py = (o <- rem_core cx px cy py ;; Val (rem_result o)).
Proof.
  intros Hpx Hpy. unfold g_rem, rem_core. to_model_pow. change FUEL_rem with 256%nat.
  destruct (Z.compare_spec px py) as [E|E|E].
  - dres (t_rem I128 cx cy) as r. reflexivity.
  - rewrite ck_sub_u8_ok by (try (apply u8_iff); lia). cbn [bind].
    dres (checked_mul_pow_ten cx (py - px)) as os. destruct os as [sx|].
    + dres (t_rem I128 sx cy) as r. reflexivity.
    + dres (t_rem I128 cx cy) as r0.
      pose proof (tie_rem_loop 256 pf cy r0 (py - px) ltac:(lia)) as H.
      destruct (g_rem_loop1 256 pf r0 (py - px) cy) as [[[r s]|[[r s]|e]]| | |];
        destruct (rem_loop 256 r0 cy (py - px)) as [[r'|]| | |]; cbn [rem_loop_rel] in H; try contradiction;
        cbn [bind option_map rem_result]; try reflexivity.
      * subst r'. reflexivity.
      * destruct e; cbn in H; contradiction.
      * destruct e; cbn in H; try contradiction; reflexivity.
      * destruct e; cbn in H; contradiction.
      * destruct e; cbn in H; contradiction.
      * destruct e; cbn in H; contradiction.
  - rewrite ck_sub_u8_ok by (try (apply u8_iff); lia). cbn [bind].
    dres (checked_mul_pow_ten cy (px - py)) as os. destruct os as [sd|].
    + dres (t_rem I128 cx sd) as r. reflexivity.
    + reflexivity.
Qed.

Lemma tie_rem pf x y : wf x = true -> wf y = true -> g_Rem_rem pf x y = dec_rem x y.
Proof.
  intros Hx Hy. pose proof (proj1 (wf_iff _) Hx) as Bx. pose proof (proj1 (wf_iff _) Hy) as By.
  unfold g_Rem_rem, dec_rem, g_Decimal_eq_zero. change g_Decimal_eq_one with (fun (_ : profile) => eq_one).
  change g_Decimal_fract with (fun (_ : profile) => dec_fract). cbv beta.
  cbn [bind]. fold (eq_zero x) (eq_zero y). unfold DZERO.
  destruct (eq_zero y); cbn [bind]; [reflexivity|]. destruct (eq_zero x); [reflexivity|].
  dres (eq_one y) as oy. destruct oy; [tie|].
  rewrite tie_rem_core by lia.
  dres (rem_core (coeff x) (nfd x) (coeff y) (nfd y)) as o. destruct o as [[c n]|]; reflexivity.
Qed.

Lemma tie_checked_rem pf x y : wf x = true -> wf y = true ->
  g_CheckedRem_checked_rem pf x y = dec_checked_rem x y.
Proof.
  intros Hx Hy. pose proof (proj1 (wf_iff _) Hx) as Bx. pose proof (proj1 (wf_iff _) Hy) as By.
  unfold g_CheckedRem_checked_rem, dec_checked_rem, g_Decimal_eq_zero. change g_Decimal_eq_one with (fun (_ : profile) => eq_one).
  change g_Decimal_fract with (fun (_ : profile) => dec_fract). cbv beta.
  cbn [bind]. fold (eq_zero x) (eq_zero y). unfold DZERO.
  destruct (eq_zero y); cbn [bind]; [reflexivity|]. destruct (eq_zero x); [reflexivity|].
  dres (eq_one y) as oy. destruct oy; [tie|].
  rewrite tie_rem_core by lia.
  dres (rem_core (coeff x) (nfd x) (coeff y) (nfd y)) as o. destruct o as [[c n]|]; reflexivity.
Qed.

Lemma src_rem_acc pf m x y : wf x = true -> wf y = true ->
  acc_dd m Brem x y 0 (out_dec (g_Rem_rem pf x y)) = true /\
  acc_dd m Bcrem x y 0 (out_odec (g_CheckedRem_checked_rem pf x y)) = true.
Proof. intros Hx Hy. rewrite tie_rem, tie_checked_rem by assumption. apply (rem_all_acc pf m x y Hx Hy). Qed.

