(* FlocqBridge.v — the specification of C12 against an independent formalisation of IEEE-754:
   the significand/exponent pair that FloatSpec.nearest_float_bits encodes is Flocq's
   round radix2 (FLT_exp emin prec) ZnearestE of the exact rational value.
   This file (and only this file) depends on the axioms of Coq's real numbers and on the
   classical axioms Flocq imports; no property theorem about the code depends on it. *)
From Coq Require Import ZArith Reals Lia Lra.
From Flocq Require Import Core.
From FP Require Import Machine RoundSpec FloatSpec MachineFacts RoundSpecFacts UnopsFacts FromFloatFacts ToFloatFacts.

Local Open Scope R_scope.

(* ---- round-half-even of a rational: Flocq's ZnearestE = the specification's rnd RHalfEven ---- *)
Lemma ZnearestE_rational (N D : Z) : (0 < D)%Z ->
  ZnearestE (IZR N / IZR D) = rnd RHalfEven N D.
Proof.
  intros HD.
  pose proof (Z.div_mod N D ltac:(lia)) as Ed. pose proof (Z.mod_pos_bound N D HD) as Hr.
  set (q := (N / D)%Z) in *. set (r := (N mod D)%Z) in *.
  assert (HDr : 0 < IZR D) by (apply IZR_lt; lia).
  assert (Ex : IZR N / IZR D = IZR q + IZR r / IZR D).
  { rewrite Ed, plus_IZR, mult_IZR. field. lra. }
  assert (Efl : Zfloor (IZR N / IZR D) = q) by (apply Zfloor_div; lia).
  assert (Ernd : rnd RHalfEven N D = rnd_floor RHalfEven q r D).
  { rewrite <- rnd_floor_eq by lia. f_equal. lia. }
  rewrite Ernd. unfold rnd_floor, Znearest. rewrite Efl. rewrite <- odd_rem2.
  assert (Efrac : IZR N / IZR D - IZR q = IZR r / IZR D) by (rewrite Ex; ring).
  rewrite Efrac.
  destruct (Z.eqb_spec r 0) as [R0|R0].
  - rewrite R0. unfold Rdiv. rewrite Rmult_0_l. rewrite Rcompare_Lt by lra. reflexivity.
  - assert (Hceil : Zceil (IZR N / IZR D) = (q + 1)%Z).
    { rewrite Zceil_floor_neq; rewrite Efl; [reflexivity|].
      intros E. assert (IZR r / IZR D = 0) by lra.
      assert (IZR r = 0) by (apply (Rmult_eq_reg_r (/ IZR D)); [unfold Rdiv in H; lra|apply Rinv_neq_0_compat; lra]).
      apply eq_IZR_R0 in H0. contradiction. }
    rewrite Hceil.
    destruct (Z.gtb_spec (2 * r) D) as [G|G]; cbn [orb].
    + rewrite Rcompare_Gt; [reflexivity|].
      apply (Rmult_lt_reg_r (IZR D)); [lra|]. unfold Rdiv. rewrite Rmult_assoc, Rinv_l, Rmult_1_r by lra.
      apply IZR_lt in G. rewrite mult_IZR in G. lra.
    + destruct (Z.eqb_spec (2 * r) D) as [E|E]; cbn [andb].
      * rewrite Rcompare_Eq.
        { rewrite Z.negb_even. destruct (Z.odd q); reflexivity. }
        apply (Rmult_eq_reg_r (IZR D)); [|lra]. unfold Rdiv. rewrite Rmult_assoc, Rinv_l, Rmult_1_r by lra.
        apply (f_equal IZR) in E. rewrite mult_IZR in E. lra.
      * rewrite Rcompare_Lt; [reflexivity|].
        apply (Rmult_lt_reg_r (IZR D)); [lra|]. unfold Rdiv. rewrite Rmult_assoc, Rinv_l, Rmult_1_r by lra.
        assert (L : (2 * r < D)%Z) by lia. apply IZR_lt in L. rewrite mult_IZR in L. lra.
Qed.

(* ---- the specification's significand and exponent against Flocq's rounding operator ---- *)
Lemma bracket_real (N D K : Z) : (0 < D)%Z -> (0 < K)%Z -> (K <= N / D < 2 * K)%Z ->
  IZR K <= IZR N / IZR D < IZR (2 * K).
Proof.
  intros HD HK [H1 H2].
  assert (HDr : 0 < IZR D) by (apply IZR_lt; lia).
  pose proof (Z.div_mod N D ltac:(lia)) as Ed. pose proof (Z.mod_pos_bound N D HD) as Hr.
  assert (L1 : (K * D <= N)%Z) by nia. assert (L2 : (N < 2 * K * D)%Z) by nia.
  apply IZR_le in L1. apply IZR_lt in L2. rewrite !mult_IZR in *.
  split.
  - apply (Rmult_le_reg_r (IZR D)); [lra|]. unfold Rdiv. rewrite Rmult_assoc, Rinv_l, Rmult_1_r by lra. lra.
  - apply (Rmult_lt_reg_r (IZR D)); [lra|]. unfold Rdiv. rewrite Rmult_assoc, Rinv_l, Rmult_1_r by lra. lra.
Qed.

Theorem spec_significand_is_flocq_round (frac emin num den e0 : Z) :
  (0 < den)%Z -> (0 < num)%Z -> (0 <= frac)%Z ->
  (2 ^ frac <= q_floor num den e0 < 2 ^ (frac + 1))%Z -> (emin <= e0)%Z ->
  let m := if (e0 <? 0)%Z then rnd RHalfEven (num * 2 ^ (- e0)) den else rnd RHalfEven num (den * 2 ^ e0) in
  F2R (Float radix2 m e0) = round radix2 (FLT_exp emin (frac + 1)) ZnearestE (IZR num / IZR den).
Proof.
  intros Hden Hnum Hfrac Hq Hemin m.
  set (x := IZR num / IZR den).
  set (N := if (e0 <? 0)%Z then (num * 2 ^ (- e0))%Z else num).
  set (D := if (e0 <? 0)%Z then den else (den * 2 ^ e0)%Z).
  assert (HD : (0 < D)%Z).
  { unfold D. destruct (Z.ltb_spec e0 0); [lia|]. assert (0 < 2 ^ e0)%Z by (apply Z.pow_pos_nonneg; lia). nia. }
  assert (Hm : m = rnd RHalfEven N D) by (unfold m, N, D; destruct (e0 <? 0)%Z; reflexivity).
  assert (Hqf : q_floor num den e0 = (N / D)%Z) by (unfold q_floor, N, D; destruct (e0 <? 0)%Z; reflexivity).
  assert (Hdr : 0 < IZR den) by (apply IZR_lt; lia).
  assert (HDr : 0 < IZR D) by (apply IZR_lt; lia).
  (* the scaled value *)
  assert (Hs : x * bpow radix2 (- e0) = IZR N / IZR D).
  { unfold x, N, D. destruct (Z.ltb_spec e0 0).
    - rewrite <- IZR_Zpower by lia. rewrite mult_IZR. change (radix2 ^ (- e0))%Z with (2 ^ (- e0))%Z. field. lra.
    - rewrite bpow_opp, <- IZR_Zpower by lia. change (radix2 ^ e0)%Z with (2 ^ e0)%Z. rewrite mult_IZR.
      assert (0 < IZR (2 ^ e0)) by (apply IZR_lt; apply Z.pow_pos_nonneg; lia). field. lra. }
  (* magnitude *)
  rewrite Hqf in Hq.
  assert (E2 : (2 ^ (frac + 1) = 2 * 2 ^ frac)%Z) by (rewrite Z.pow_add_r by lia; lia).
  rewrite E2 in Hq.
  pose proof (bracket_real N D (2 ^ frac) HD ltac:(apply Z.pow_pos_nonneg; lia) Hq) as Hb.
  rewrite <- E2 in Hb. rewrite <- Hs in Hb.
  change (2 ^ frac)%Z with (radix2 ^ frac)%Z in Hb. change (2 ^ (frac + 1))%Z with (radix2 ^ (frac + 1))%Z in Hb.
  rewrite !IZR_Zpower in Hb by lia.
  assert (Hmag : mag radix2 x = (e0 + frac + 1)%Z :> Z).
  { apply mag_unique_pos.
    replace (e0 + frac + 1 - 1)%Z with (frac + e0)%Z by lia. replace (e0 + frac + 1)%Z with (frac + 1 + e0)%Z by lia.
    rewrite (bpow_plus radix2 frac e0), (bpow_plus radix2 (frac + 1) e0). assert (Hp : 0 < bpow radix2 e0) by apply bpow_gt_0.
    assert (Ex : x = x * bpow radix2 (- e0) * bpow radix2 e0).
    { rewrite Rmult_assoc, <- bpow_plus. replace (- e0 + e0)%Z with 0%Z by lia. simpl. ring. }
    rewrite Ex. split.
    - apply Rmult_le_compat_r; lra.
    - apply Rmult_lt_compat_r; lra. }
  unfold round, scaled_mantissa, cexp. rewrite Hmag. unfold FLT_exp.
  replace (Z.max (e0 + frac + 1 - (frac + 1)) emin) with e0 by lia.
  fold x. rewrite Hs. rewrite ZnearestE_rational by exact HD. rewrite Hm. reflexivity.
Qed.

(* ---- the bit pattern of the specification, decoded, is Flocq's IEEE-754 rounding of the Decimal ---- *)
Lemma F2R_carry (F e : Z) : (0 <= F)%Z ->
  F2R (Float radix2 (2 ^ F) (e + 1)) = F2R (Float radix2 (2 ^ (F + 1)) e).
Proof.
  intros HF. unfold F2R. cbn [Fnum Fexp]. rewrite bpow_plus.
  rewrite Z.pow_add_r by lia. rewrite mult_IZR. change (bpow radix2 1) with 2. change (IZR (2 ^ 1)) with 2. ring.
Qed.

Theorem spec_decodes_to_flocq_round W F B E is64 d :
  fmt_ok W F B E is64 -> wf d = true -> coeff d <> 0%Z ->
  let f := mksffmt W F B in
  let v := float_value f (to_float_spec f d) in
  IZR (fst v) / IZR (snd v) =
  (if (coeff d <? 0)%Z then -1 else 1) *
  round radix2 (FLT_exp (1 - B - F) (F + 1)) ZnearestE (IZR (Z.abs (coeff d)) / IZR (10 ^ nfd d)).
Proof.
  intros [HF HE HW HB Hmax] Hd Hc0. cbv zeta. set (f := mksffmt W F B).
  destruct (UnopsFacts.wf_bounds _ Hd) as [Hc Hp].
  set (num := Z.abs (coeff d)) in *. set (den := (10 ^ nfd d)%Z) in *.
  assert (Hnum : (0 < num < 2 ^ 127)%Z) by (unfold num; lia).
  assert (Hden : (den = 1 \/ 10 <= den <= 10 ^ 18)%Z).
  { unfold den. destruct (Z.eq_dec (nfd d) 0) as [->|N0]; [left; reflexivity|right].
    change 10%Z with (10 ^ 1)%Z at 1. split; apply Z.pow_le_mono_r; lia. }
  assert (Hden0 : (0 < den)%Z) by (destruct Hden as [->|?]; lia).
  destruct (spec_bracket num den F Hnum Hden HF) as (e0 & Hq & He0).
  assert (HB' : (127 <= B <= 1023)%Z).
  { assert (2 ^ 7 <= 2 ^ (E - 1) <= 2 ^ 10)%Z by (split; apply Z.pow_le_mono_r; lia). lia. }
  assert (HE2 : (2 ^ E = 2 * B + 2)%Z).
  { rewrite HB. replace E with (Z.succ (E - 1)) at 1 by lia. rewrite Z.pow_succ_r by lia. lia. }
  (* the specification's bits *)
  assert (Ebits : to_float_spec f d = enc f (coeff d <? 0)%Z e0 num den).
  { unfold to_float_spec. destruct (Z.eqb_spec (coeff d) 0); [contradiction|].
    fold num den. apply nearest_enc; cbn [sf_frac f]; lia. }
  rewrite Ebits. unfold enc, f. cbn [sf_frac sf_bits sf_bias]. cbv zeta.
  set (m := if (e0 <? 0)%Z then rnd RHalfEven (num * 2 ^ (- e0)) den else rnd RHalfEven num (den * 2 ^ e0)).
  (* the rounded significand is the floor or the floor plus one *)
  assert (Hm : (2 ^ F <= m <= 2 ^ (F + 1))%Z).
  { set (N := if (e0 <? 0)%Z then (num * 2 ^ (- e0))%Z else num).
    set (D := if (e0 <? 0)%Z then den else (den * 2 ^ e0)%Z).
    assert (HD : (0 < D)%Z).
    { unfold D. destruct (Z.ltb_spec e0 0); [lia|]. assert (0 < 2 ^ e0)%Z by (apply Z.pow_pos_nonneg; lia). nia. }
    assert (Em : m = rnd RHalfEven N D) by (unfold m, N, D; destruct (e0 <? 0)%Z; reflexivity).
    assert (Hqf : q_floor num den e0 = (N / D)%Z) by (unfold q_floor, N, D; destruct (e0 <? 0)%Z; reflexivity).
    pose proof (Z.div_mod N D ltac:(lia)) as Ed. pose proof (Z.mod_pos_bound N D HD) as Hr.
    assert (Em' : m = rnd RHalfEven (N / D * D + N mod D) D) by (rewrite Em; f_equal; lia).
    rewrite rnd_floor_eq in Em' by lia.
    pose proof (rnd_floor_range RHalfEven (N / D) (N mod D) D) as R. rewrite <- Em' in R. rewrite Hqf in Hq. lia. }
  set (me := if (m =? 2 ^ (F + 1))%Z then ((2 ^ F)%Z, (e0 + 1)%Z) else (m, e0)).
  assert (Hme : (2 ^ F <= fst me < 2 ^ (F + 1))%Z /\ (e0 <= snd me <= e0 + 1)%Z /\
                F2R (Float radix2 (fst me) (snd me)) = F2R (Float radix2 m e0)).
  { unfold me. assert (2 ^ (F + 1) = 2 * 2 ^ F)%Z by (rewrite Z.pow_add_r by lia; lia).
    assert (0 < 2 ^ F)%Z by (apply Z.pow_pos_nonneg; lia).
    destruct (Z.eqb_spec m (2 ^ (F + 1))) as [->|Nm]; cbn [fst snd].
    - split; [lia|]. split; [lia|]. apply F2R_carry. lia.
    - split; [lia|]. split; [lia|reflexivity]. }
  destruct me as [m' e']. cbn [fst snd] in Hme. destruct Hme as (Hm' & He' & EF).
  (* decode *)
  destruct (enc_fields W F B E (coeff d <? 0)%Z m' e' HF HE HW Hm' ltac:(lia)) as (Fs & Fe & Ff).
  cbv zeta in Fs, Fe, Ff.
  unfold float_value. cbn [sf_frac sf_bits sf_bias]. cbv zeta.
  replace (W - 1 - F)%Z with E by lia. rewrite Fs, Fe, Ff.
  destruct (Z.eqb_spec (e' + F + B) 0); [lia|].
  replace (m' - 2 ^ F + 2 ^ F)%Z with m' by lia. replace (e' + F + B - B - F)%Z with e' by lia.
  (* Flocq side *)
  pose proof (spec_significand_is_flocq_round F (1 - B - F) num den e0 Hden0 ltac:(lia) ltac:(lia) Hq ltac:(lia)) as Hfl.
  cbv zeta in Hfl. fold m in Hfl. rewrite <- Hfl, <- EF. unfold F2R. cbn [Fnum Fexp].
  assert (Hsgn : (if (if (coeff d <? 0)%Z then 1 else 0) =? 1 then - m' else m')%Z
                 = ((if (coeff d <? 0)%Z then -1 else 1) * m')%Z) by (destruct (coeff d <? 0)%Z; [change (1 =? 1)%Z with true|change (0 =? 1)%Z with false]; cbv iota; lia).
  rewrite Hsgn.
  destruct (Z.ltb_spec e' 0); cbn [fst snd].
  - rewrite mult_IZR. rewrite <- (Z.opp_involutive e') at 2. rewrite bpow_opp.
    rewrite <- IZR_Zpower by lia. change (radix2 ^ (- e'))%Z with (2 ^ (- e'))%Z.
    assert (0 < IZR (2 ^ (- e'))) by (apply IZR_lt; apply Z.pow_pos_nonneg; lia).
    destruct (coeff d <? 0)%Z; field; lra.
  - rewrite !mult_IZR. rewrite <- IZR_Zpower by lia. change (radix2 ^ e')%Z with (2 ^ e')%Z.
    destruct (coeff d <? 0)%Z; field.
Qed.
