(* GenTieDecMul.v — multiplication at the Decimal level (src/binops/{mul,checked_mul,mul_rounded}.rs, the basic
   predicates of src/binops/cmp.rs) as translated (gen/GenDec.v) equals the model (model/Arith.v). *)
From FP Require Import Machine SrcConsts Pow10 WideDiv Rounding Arith RoundSpec Out ArithSpec Run GenCore GenDec MachineFacts.
From FP Require Import KernelContract WideDivFacts MulFacts.
From FP Require Import GenTieTac GenTiePow GenTieWide GenTieRound.


Ltac dec_fin := repeat (cbv beta iota zeta; cbn [bind]; try to_model; tie2_step); cbn [bind negb andb orb]; try fin.

Lemma tie_eq_zero pf d : g_Decimal_eq_zero pf d = Val (eq_zero d).
Proof. reflexivity. Qed.
Lemma tie_eq_one pf d : g_Decimal_eq_one pf d = eq_one d.
Proof. reflexivity. Qed.

Lemma tie_checked_mul_rounded pf dflt x y n :
  0 <= n ->
  g_checked_mul_rounded pf dflt x y n = checked_mul_rounded pf dflt x y n.
Proof.
  intros Hn. unfold g_checked_mul_rounded, checked_mul_rounded. to_model.
  destruct (ck_add pf U8 (nfd x) (nfd y)) as [mx| | |] eqn:E; cbn [bind]; [|rf|rf|rf].
  apply ck_range in E.
  destruct (Z.geb_spec n mx) as [H|H].
  - destruct (checked I128 (coeff x * coeff y)); reflexivity.
  - rewrite ck_sub_u8_ok by (try assumption; lia). cbn [bind].
    destruct (checked I128 (coeff x * coeff y)) as [c|].
    + dres (ten_pow (mx - n)) as t. to_model. reflexivity.
    + to_model. dres (i128_mul_div_ten_pow_rounded pf (coeff x) (coeff y) (mx - n) dflt) as o.
      destruct o; reflexivity.
Qed.

Ltac mul_model :=
  try to_model;
  repeat match goal with |- context [g_checked_mul_rounded ?pf ?dflt ?x ?y ?n] =>
    rewrite (tie_checked_mul_rounded pf dflt x y n) by (first [assumption | lia | (vm_compute; discriminate)]) end.
Ltac mul_fin := repeat (cbv beta iota zeta; cbn [bind]; mul_model; tie2_step); cbn [bind negb andb orb]; try fin.

Lemma tie_mul pf dflt x y : g_Mul_mul pf dflt x y = dec_mul pf dflt x y.
Proof.
  unfold g_Mul_mul, dec_mul, g_Decimal_eq_zero. unfold_helpers_dec.
  change g_Decimal_eq_one with (fun (_ : profile) => eq_one). cbv beta.
  change g_MAX_N_FRAC_DIGITS with MAX_N_FRAC_DIGITS.
  cbn [bind]. fold (eq_zero x) (eq_zero y). unfold DZERO, or_panic.
  destruct (eq_zero x); cbn [bind orb]; [reflexivity|].
  destruct (eq_zero y); cbn [bind]; [reflexivity|].
  mul_fin.
Qed.

Lemma tie_mul_rounded pf dflt x y n : 0 <= n ->
  g_MulRounded_mul_rounded pf dflt x y n = dec_mul_rounded pf dflt x y n.
Proof.
  intros Hn. unfold g_MulRounded_mul_rounded, dec_mul_rounded, g_Decimal_eq_zero. unfold_helpers_dec.
  change g_MAX_N_FRAC_DIGITS with MAX_N_FRAC_DIGITS.
  cbn [bind]. fold (eq_zero x) (eq_zero y). unfold DZERO, or_panic.
  destruct (n >? MAX_N_FRAC_DIGITS) eqn:En; cbn [bind]; [reflexivity|].
  destruct (eq_zero x); cbn [bind orb]; [reflexivity|].
  destruct (eq_zero y); cbn [bind]; [reflexivity|].
  mul_fin.
Qed.

Lemma tie_checked_mul pf x y : g_CheckedMul_checked_mul pf x y = dec_checked_mul pf x y.
Proof.
  unfold g_CheckedMul_checked_mul, dec_checked_mul, g_Decimal_eq_zero. unfold_helpers_dec.
  change g_Decimal_eq_one with (fun (_ : profile) => eq_one). cbv beta.
  change g_MAX_N_FRAC_DIGITS with MAX_N_FRAC_DIGITS.
  cbn [bind]. fold (eq_zero x) (eq_zero y). unfold DZERO.
  destruct (eq_zero x); cbn [bind orb]; [reflexivity|].
  destruct (eq_zero y); cbn [bind]; [reflexivity|].
  dec_fin.
Qed.

Lemma src_mul_acc pf m x y : wf x = true -> wf y = true ->
  acc_dd m Bmul x y 0 (out_dec (g_Mul_mul pf m x y)) = true /\
  acc_dd m Bcmul x y 0 (out_odec (g_CheckedMul_checked_mul pf x y)) = true.
Proof. intros Hx Hy. rewrite tie_mul, tie_checked_mul. apply (mul_acc i256_contract_holds pf m x y Hx Hy). Qed.

Lemma src_mul_rounded_acc pf m x y n : wf x = true -> wf y = true -> 0 <= n <= 255 ->
  acc_dd m Bmulr x y n (out_dec (g_MulRounded_mul_rounded pf m x y n)) = true.
Proof. intros Hx Hy Hn. rewrite tie_mul_rounded by lia. apply (mul_rounded_acc i256_contract_holds pf m x y n Hx Hy Hn). Qed.
