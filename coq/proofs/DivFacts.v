(* DivFacts.v — C03 / C04: /, checked_div, div_rounded, quantize against the
   specification, given the contract of the 256-bit kernel. *)
From FP Require Import Machine SrcConsts Pow10 WideDiv Rounding Arith IntForms RoundSpec Out ArithSpec Run.
From FP Require Import MachineFacts Pow10Facts OutFacts RoundSpecFacts RoundingFacts UnopsFacts RemFacts KernelContract MulFacts.

(* ---- floor division with a divisor of either sign ---- *)
Lemma div_mod_floor_any pf x y :
  - 2 ^ 127 < x < 2 ^ 127 -> - 2 ^ 127 < y < 2 ^ 127 -> y <> 0 ->
  i128_div_mod_floor pf x y = Val (x / y, x mod y).
Proof.
  intros Hx Hy Hnz. unfold i128_div_mod_floor.
  rewrite t_div_ok by lia. rewrite t_rem_ok by lia. cbn [bind].
  pose proof (Z.quot_rem' x y) as E.
  pose proof (Z.rem_bound_abs x y Hnz) as B.
  pose proof (Z.rem_sign_mul x y Hnz) as S.
  pose proof (Z.div_mod x y Hnz) as E'.
  set (q := Z.quot x y) in *. set (r := Z.rem x y) in *.
  set (q' := x / y) in *. set (r' := x mod y) in *.
  assert (Hqb : Z.abs q <= Z.abs x).
  { unfold q. rewrite <- Z.quot_abs by assumption. rewrite Z.quot_div_nonneg by lia.
    apply Z.div_le_upper_bound; [lia|]. nia. }
  destruct (Z_lt_le_dec 0 y) as [Hpos|Hneg].
  - pose proof (Z.mod_pos_bound x y Hpos) as B'.
    destruct (Z.ltb_spec y 0); [lia|]. rewrite andb_false_r. cbn [orb].
    destruct (Z.gtb_spec y 0); [|lia]. rewrite andb_true_r.
    destruct (Z.ltb_spec r 0).
    + assert (y * (q' - q) = r - r') by lia. assert (q' = q - 1) by nia. assert (r' = r + y) by nia.
      unfold ck_sub, ck_add. rewrite !ck_ok by (apply in_I128_iff; lia). cbn [bind]. congruence.
    + assert (y * (q' - q) = r - r') by lia. assert (q' = q) by nia. assert (r' = r) by nia. congruence.
  - assert (Hn : y < 0) by lia. pose proof (Z.mod_neg_bound x y Hn) as B'.
    destruct (Z.gtb_spec y 0); [lia|]. rewrite andb_false_r, orb_false_r.
    destruct (Z.ltb_spec y 0); [|lia]. rewrite andb_true_r.
    destruct (Z.gtb_spec r 0).
    + assert (y * (q' - q) = r - r') by lia. assert (q' = q - 1) by nia. assert (r' = r + y) by nia.
      unfold ck_sub, ck_add. rewrite !ck_ok by (apply in_I128_iff; lia). cbn [bind]. congruence.
    + assert (y * (q' - q) = r - r') by lia. assert (q' = q) by nia. assert (r' = r) by nia. congruence.
Qed.

(* ---- scaling numerator and denominator does not change the rounded quotient ---- *)
Lemma rnd_scale m n d k : 0 < d -> 0 < k -> rnd m (n * k) (d * k) = rnd m n d.
Proof.
  intros Hd Hk. unfold rnd.
  rewrite Z.quot_mul_cancel_r by lia.
  rewrite rem_scale by lia.
  rewrite Z.abs_mul, (Z.abs_eq k) by lia.
  assert (Hs : Z.sgn (n * k) = Z.sgn n) by (rewrite Z.sgn_mul; rewrite (Z.sgn_pos k) by lia; lia).
  rewrite Hs.
  set (t := Z.quot n d). set (rr := Z.abs (Z.rem n d)).
  assert (E0 : (rr * k =? 0) = (rr =? 0)).
  { destruct (Z.eqb_spec rr 0) as [->|]; [reflexivity|]. destruct (Z.eqb_spec (rr * k) 0); [nia|reflexivity]. }
  rewrite E0. destruct (rr =? 0); [reflexivity|].
  assert (C1 : (d * k <=? 2 * (rr * k)) = (d <=? 2 * rr)).
  { destruct (Z.leb_spec (d * k) (2 * (rr * k))); destruct (Z.leb_spec d (2 * rr)); try reflexivity; nia. }
  assert (C2 : (d * k <? 2 * (rr * k)) = (d <? 2 * rr)).
  { destruct (Z.ltb_spec (d * k) (2 * (rr * k))); destruct (Z.ltb_spec d (2 * rr)); try reflexivity; nia. }
  assert (C3 : (d * k =? 2 * (rr * k)) = (d =? 2 * rr)).
  { destruct (Z.eqb_spec (d * k) (2 * (rr * k))); destruct (Z.eqb_spec d (2 * rr)); try reflexivity; nia. }
  assert (C4 : (0 <? n * k) = (0 <? n)).
  { destruct (Z.ltb_spec 0 (n * k)); destruct (Z.ltb_spec 0 n); try reflexivity; nia. }
  assert (C5 : (n * k <? 0) = (n <? 0)).
  { destruct (Z.ltb_spec (n * k) 0); destruct (Z.ltb_spec n 0); try reflexivity; nia. }
  destruct m; rewrite ?C1, ?C2, ?C3, ?C4, ?C5; reflexivity.
Qed.

Lemma rndq_scale m n d k : d <> 0 -> 0 < k -> rndq m (n * k) (d * k) = rndq m n d.
Proof.
  intros Hd Hk. unfold rndq.
  destruct (Z.ltb_spec d 0); destruct (Z.ltb_spec (d * k) 0); try nia.
  - replace (- (n * k)) with (- n * k) by ring. replace (- (d * k)) with (- d * k) by ring.
    apply rnd_scale; lia.
  - apply rnd_scale; lia.
Qed.

Lemma rndq_opp m n d : d <> 0 -> rndq m (- n) (- d) = rndq m n d.
Proof.
  intros Hd. unfold rndq. destruct (Z.ltb_spec d 0); destruct (Z.ltb_spec (- d) 0); try lia;
    rewrite ?Z.opp_involutive; reflexivity.
Qed.

(* scaling by a factor of either sign *)
Lemma rndq_scale_any m n d k : d <> 0 -> k <> 0 -> rndq m (n * k) (d * k) = rndq m n d.
Proof.
  intros Hd Hk. destruct (Z_lt_le_dec 0 k).
  - apply rndq_scale; assumption.
  - replace (n * k) with (- (n * (- k))) by ring. replace (d * k) with (- (d * (- k))) by ring.
    rewrite rndq_opp by nia. apply rndq_scale; lia.
Qed.

Lemma rndq_pos m n d : 0 < d -> rndq m n d = rnd m n d.
Proof. intros. unfold rndq. destruct (Z.ltb_spec d 0); [lia|reflexivity]. Qed.

(* ---- the sticky bit: rounding (2*floor(x/y) + 1) / (2T) = rounding x / (y T) when y does not divide x ---- *)
Lemma rnd_floor_class m a R1 d1 R2 d2 :
  R1 <> 0 -> R2 <> 0 ->
  (2 * R1 >? d1) = (2 * R2 >? d2) -> (2 * R1 =? d1) = (2 * R2 =? d2) ->
  rnd_floor m a R1 d1 = rnd_floor m a R2 d2.
Proof.
  intros H1 H2 G E. unfold rnd_floor.
  destruct (Z.eqb_spec R1 0); [contradiction|]. destruct (Z.eqb_spec R2 0); [contradiction|].
  rewrite G, E. reflexivity.
Qed.

Lemma rnd_sticky_pos m cx cy T h :
  0 < cy -> 0 < h -> T = 2 * h -> cx mod cy <> 0 ->
  rnd m cx (cy * T) = rnd m (2 * (cx / cy) + 1) (2 * T).
Proof.
  intros Hcy Hh HT Hr.
  pose proof (Z.div_mod cx cy ltac:(lia)) as E. pose proof (Z.mod_pos_bound cx cy Hcy) as B.
  set (q := cx / cy) in *. set (r := cx mod cy) in *.
  assert (HTpos : 0 < T) by lia.
  pose proof (Z.div_mod q T ltac:(lia)) as E2. pose proof (Z.mod_pos_bound q T HTpos) as B2.
  set (a := q / T) in *. set (b := q mod T) in *.
  assert (L : cx = a * (cy * T) + (cy * b + r)) by (rewrite E, E2; ring).
  assert (R : 2 * q + 1 = a * (2 * T) + (2 * b + 1)) by (rewrite E2; ring).
  assert (Bb : b <= T - 1) by lia.
  assert (B1 : 0 <= cy * b + r < cy * T) by nia.
  rewrite L, R.
  rewrite (rnd_floor_eq m a (cy * b + r) (cy * T)) by nia.
  rewrite (rnd_floor_eq m a (2 * b + 1) (2 * T)) by lia.
  apply rnd_floor_class; try nia.
  destruct (Z_lt_le_dec b h) as [Lb|Gb].
  - assert (b <= h - 1) by lia.
    assert (2 * (cy * b + r) < cy * T) by nia.
    destruct (Z.gtb_spec (2 * (cy * b + r)) (cy * T)); [lia|].
    destruct (Z.gtb_spec (2 * (2 * b + 1)) (2 * T)); [lia|reflexivity].
  - assert (2 * (cy * b + r) > cy * T) by nia.
    destruct (Z.gtb_spec (2 * (cy * b + r)) (cy * T)); [|lia].
    destruct (Z.gtb_spec (2 * (2 * b + 1)) (2 * T)); [reflexivity|lia].
Qed.

Lemma rnd_sticky m cx cy T h :
  cy <> 0 -> 0 < h -> T = 2 * h -> cx mod cy <> 0 ->
  rndq m cx (cy * T) = rnd m (2 * (cx / cy) + 1) (2 * T).
Proof.
  intros Hcy Hh HT Hr. unfold rndq.
  destruct (Z.ltb_spec (cy * T) 0) as [Hn|Hp].
  - assert (cy < 0) by nia.
    replace (- (cy * T)) with (- cy * T) by ring.
    rewrite (rnd_sticky_pos m (- cx) (- cy) T h) by (try lia; rewrite Z.mod_opp_opp by lia; lia).
    rewrite Z.div_opp_opp by lia. reflexivity.
  - assert (0 < cy) by nia. apply (rnd_sticky_pos m cx cy T h); assumption.
Qed.

(* ---- i128_shifted_div_rounded under the kernel contract ---- *)
Lemma sdr_ok (K : sdmf_contract) pf m a k d :
  - MAXC <= a <= MAXC -> 0 <= k <= 38 -> d <> 0 -> - MAXC <= d <= MAXC ->
  exists o, i128_shifted_div_rounded pf a k d m = Val o /\ rounded_ok (rndq m (a * 10 ^ k) d) o.
Proof.
  intros Ha Hk Hd Hdr. unfold i128_shifted_div_rounded.
  assert (G : forall a' d', - MAXC <= a' <= MAXC -> 0 < d' <= MAXC ->
    exists o, (o0 <- i128_shifted_div_mod_floor pf a' k d' ;;
               match o0 with
               | None => Val None
               | Some (quot, rem) => round_quot pf quot (cast U128 rem) (cast U128 d') m
               end) = Val o /\ rounded_ok (rnd m (a' * 10 ^ k) d') o).
  { intros a' d' Ha' Hd'. destruct (K pf a' k d' Ha' Hk Hd') as (o0 & E0 & F0). rewrite E0. cbn [bind].
    exact (round_after_floor pf m (a' * 10 ^ k) d' o0 Hd' F0). }
  rewrite MAXC_val in *.
  destruct (Z.ltb_spec d 0) as [Hn|Hp].
  - unfold ck_neg. rewrite !ck_ok by (apply in_I128_iff; rewrite pow2_127; lia). cbn [bind].
    destruct (G (- a) (- d) ltac:(lia) ltac:(lia)) as (o & E & F).
    exists o. split; [exact E|]. unfold rndq. destruct (Z.ltb_spec d 0); [|lia].
    replace (- (a * 10 ^ k)) with (- a * 10 ^ k) by ring. exact F.
  - cbn [bind].
    destruct (G a d ltac:(lia) ltac:(lia)) as (o & E & F).
    exists o. split; [exact E|]. rewrite rndq_pos by lia. exact F.
Qed.

Lemma rndq_abs_le m n d : d <> 0 -> Z.abs (rndq m n d) <= Z.abs n.
Proof.
  intros Hd. unfold rndq. destruct (Z.ltb_spec d 0).
  - pose proof (rnd_abs_le m (- n) (- d) ltac:(lia)). lia.
  - apply rnd_abs_le. lia.
Qed.

(* ---- checked_div_rounded: one rounding of the exact quotient, all three branches ---- *)
Lemma checked_div_rounded_ok (K : sdmf_contract) pf m cx px cy py n :
  - MAXC <= cx <= MAXC -> - MAXC <= cy <= MAXC -> cy <> 0 ->
  0 <= px <= 18 -> 0 <= py <= 18 -> 0 <= n <= 18 ->
  exists o, checked_div_rounded pf m cx px cy py n = Val o /\
            rounded_ok (rndq m (cx * 10 ^ (n + py)) (cy * 10 ^ px)) o.
Proof.
  intros Hx Hy Hnz Hpx Hpy Hn. unfold checked_div_rounded.
  unfold ck_add. rewrite ck_ok by (apply in_U8_iff2; lia). cbn [bind].
  pose proof (pow10_pos px ltac:(lia)) as Ppx.
  assert (Hxr : - 2 ^ 127 < cx < 2 ^ 127) by (rewrite MAXC_val in Hx; rewrite pow2_127; lia).
  assert (Hyr : - 2 ^ 127 < cy < 2 ^ 127) by (rewrite MAXC_val in Hy; rewrite pow2_127; lia).
  destruct (Z.compare_spec px (n + py)) as [E|L|G].
  - (* equal scales *)
    rewrite i128_div_rounded_ok by assumption. cbn [bind].
    eexists. split; [reflexivity|]. rewrite <- E. rewrite rndq_scale by lia.
    unfold rounded_ok. split; [reflexivity|]. pose proof (rndq_abs_le m cx cy Hnz). unfold MINC. rewrite MAXC_val in *. lia.
  - (* dividend is scaled *)
    set (k := n + py - px).
    assert (Hk : 0 < k <= 36) by (unfold k; lia).
    assert (Es : rndq m (cx * 10 ^ (n + py)) (cy * 10 ^ px) = rndq m (cx * 10 ^ k) cy).
    { assert (Enp : 10 ^ (n + py) = 10 ^ k * 10 ^ px).
      { rewrite <- Z.pow_add_r by lia. f_equal. unfold k. lia. }
      rewrite Enp. rewrite Z.mul_assoc. apply rndq_scale; lia. }
    rewrite Es.
    rewrite checked_mul_pow_ten_ok by lia. cbn [bind]. unfold checked.
    destruct (in_range I128 (cx * 10 ^ k)) eqn:R.
    + apply in_I128_iff in R. pose proof (scaled_ne_min cx k ltac:(lia)).
      rewrite i128_div_rounded_ok by (rewrite ?MAXC_val; rewrite ?pow2_127 in *; lia || assumption). cbn [bind].
      eexists. split; [reflexivity|]. unfold rounded_ok. split; [reflexivity|].
      pose proof (rndq_abs_le m (cx * 10 ^ k) cy Hnz). unfold MINC. rewrite MAXC_val in *. rewrite pow2_127 in *. lia.
    + exact (sdr_ok K pf m cx k cy Hx ltac:(lia) Hnz Hy).
  - (* divisor is scaled: floor quotient, sticky bit, one rounding *)
    set (k := px - (n + py)).
    assert (Hk : 0 < k <= 18) by (unfold k; lia).
    assert (Es : rndq m (cx * 10 ^ (n + py)) (cy * 10 ^ px) = rndq m cx (cy * 10 ^ k)).
    { assert (Epx : 10 ^ px = 10 ^ k * 10 ^ (n + py)).
      { rewrite <- Z.pow_add_r by lia. f_equal. unfold k. lia. }
      rewrite Epx. rewrite Z.mul_assoc. apply rndq_scale; [|apply pow10_pos; lia].
      pose proof (pow10_pos k ltac:(lia)). nia. }
    rewrite Es.
    rewrite div_mod_floor_any by assumption. cbn [bind].
    rewrite ten_pow_ok by lia. cbn [bind].
    pose proof (pow10_pos k ltac:(lia)) as Pk.
    assert (Pk18 : 10 ^ k <= 10 ^ 18) by (apply Z.pow_le_mono_r; lia).
    change (10 ^ 18) with 1000000000000000000 in Pk18.
    destruct (Z.eqb_spec (cx mod cy) 0) as [R0|R0]; cbn [negb bind].
    + (* exact: cx = q * cy *)
      assert (Ecx : cx = (cx / cy) * cy).
      { pose proof (Z.div_mod cx cy Hnz). lia. }
      assert (Hq : Z.abs (cx / cy) <= Z.abs cx).
      { rewrite Ecx at 2. rewrite Z.abs_mul. assert (1 <= Z.abs cy) by lia. nia. }
      rewrite i128_div_rounded_ok by (rewrite ?MAXC_val in *; lia). cbn [bind].
      eexists. split; [reflexivity|].
      assert (Er : rndq m cx (cy * 10 ^ k) = rndq m (cx / cy) (10 ^ k)).
      { rewrite Ecx at 1. rewrite (Z.mul_comm cy). apply rndq_scale_any; lia. }
      rewrite Er. unfold rounded_ok. split; [reflexivity|].
      pose proof (rndq_abs_le m (cx / cy) (10 ^ k) ltac:(lia)). unfold MINC. rewrite MAXC_val in *. lia.
    + (* inexact: |cy| >= 2, hence |q| <= 2^126 *)
      assert (Hcy2 : 2 <= Z.abs cy).
      { destruct (Z.eq_dec (Z.abs cy) 1) as [E1|]; [|lia]. exfalso. apply R0.
        destruct (Z.abs_spec cy) as [[? A]|[? A]]; rewrite A in E1.
        - rewrite E1. apply Z.mod_1_r.
        - replace cy with (-1) by lia. pose proof (Z.mod_neg_bound cx (-1) ltac:(lia)). lia. }
      pose proof (Z.div_mod cx cy Hnz) as Ed.
      assert (Hq : 2 * Z.abs (cx / cy) <= Z.abs cx + 2).
      { assert (Hm : Z.abs (cx mod cy) < Z.abs cy).
        { destruct (Z_lt_le_dec 0 cy).
          - pose proof (Z.mod_pos_bound cx cy ltac:(lia)). lia.
          - pose proof (Z.mod_neg_bound cx cy ltac:(lia)). lia. }
        assert (A : Z.abs (cy * (cx / cy)) <= Z.abs cx + Z.abs cy) by lia.
        rewrite Z.abs_mul in A.
        set (Aa := Z.abs cy) in *. set (Q := Z.abs (cx / cy)) in *. set (X := Z.abs cx) in *.
        assert (0 <= Q) by (unfold Q; lia).
        destruct (Z.eq_dec Q 0); [lia|]. assert (2 * (Q - 1) <= Aa * (Q - 1)) by nia. lia. }
      assert (Hq' : 2 * (cx / cy) <= Z.abs cx).
      { destruct (Z_le_gt_dec (cx / cy) 0); [lia|].
        destruct (Z_lt_le_dec 0 cy).
        - pose proof (Z.mod_pos_bound cx cy ltac:(lia)). assert (2 * (cx / cy) <= cy * (cx / cy)) by nia. lia.
        - pose proof (Z.mod_neg_bound cx cy ltac:(lia)). assert (2 * (cx / cy) <= - cy * (cx / cy)) by nia. lia. }
      rewrite pow2_127 in Hxr.
      unfold ck_mul, ck_add.
      rewrite (ck_ok pf I128 (2 * (cx / cy))) by (apply in_I128_iff; rewrite pow2_127; lia). cbn [bind].
      rewrite (ck_ok pf I128 (2 * (cx / cy) + 1)) by (apply in_I128_iff; rewrite pow2_127; lia). cbn [bind].
      rewrite (ck_ok pf I128 (10 ^ k * 2)) by (apply in_I128_iff; rewrite pow2_127; lia). cbn [bind].
      rewrite i128_div_rounded_ok by (rewrite ?MAXC_val in *; rewrite ?pow2_127 in *; lia). cbn [bind].
      eexists. split; [reflexivity|].
      assert (Ev : exists h, 0 < h /\ 10 ^ k = 2 * h).
      { exists (5 * 10 ^ (k - 1)). pose proof (pow10_pos (k - 1) ltac:(lia)). split; [lia|].
        replace k with (1 + (k - 1)) at 1 by lia. rewrite Z.pow_add_r by lia. change (10 ^ 1) with 10. ring. }
      destruct Ev as (h & Hh & Eh).
      rewrite (rnd_sticky m cx cy (10 ^ k) h Hnz Hh Eh R0).
      rewrite rndq_pos by lia. rewrite (Z.mul_comm (10 ^ k) 2).
      unfold rounded_ok. split; [reflexivity|].
      pose proof (rnd_abs_le m (2 * (cx / cy) + 1) (2 * 10 ^ k) ltac:(lia)).
      (* |rounded| <= |(2q+1)| / 20 + 1 is far inside the range; a coarse bound suffices *)
      pose proof (rnd_between m (2 * (cx / cy) + 1) (2 * 10 ^ k) ltac:(lia)) as Bt.
      assert (Hs : Z.abs (rnd m (2 * (cx / cy) + 1) (2 * 10 ^ k)) <= MAXC).
      { assert (10 <= 10 ^ k) by (change 10 with (10 ^ 1) at 1; apply Z.pow_le_mono_r; lia).
        apply rnd_small; [lia|]. rewrite MAXC_val in *. rewrite pow2_127. lia. }
      unfold MINC. rewrite MAXC_val in *. lia.
Qed.

(* ---- normalize strips exactly the trailing fractional zeros ---- *)
Lemma normalize_loop_strip : forall (k : nat) f1 f2 c n,
  n = Z.of_nat k -> (k < f1)%nat -> (k <= f2)%nat -> - 2 ^ 127 <= c < 2 ^ 127 ->
  normalize_loop f1 c n = Val (strip f2 c n).
Proof.
  induction k as [|k IH]; intros f1 f2 c n Hn H1 H2 Hc.
  - destruct f1 as [|f1]; [lia|]. cbn [normalize_loop]. rewrite t_rem_ok by lia. cbn [bind].
    destruct (Z.gtb_spec n 0); [lia|]. rewrite andb_false_r.
    destruct f2; cbn [strip]; [reflexivity|]. destruct (Z.ltb_spec 0 n); [lia|]. reflexivity.
  - destruct f1 as [|f1]; [lia|]. destruct f2 as [|f2]; [lia|].
    cbn [normalize_loop strip]. rewrite t_rem_ok by lia. cbn [bind].
    destruct (Z.gtb_spec n 0); [|lia]. destruct (Z.ltb_spec 0 n); [|lia]. rewrite andb_true_r. cbn [andb].
    destruct (Z.eqb_spec (Z.rem c 10) 0) as [R|R].
    + destruct (quot_rem_exact c 10 ltac:(lia) R) as [Hm Hq]. rewrite Hm. cbn [Z.eqb].
      rewrite t_div_ok by lia. cbn [bind]. rewrite Hq.
      apply IH; try lia.
      pose proof (Z.div_mod c 10 ltac:(lia)). lia.
    + pose proof (rem_nonzero_mod c 10 ltac:(lia) R) as Hm.
      destruct (Z.eqb_spec (c mod 10) 0); [contradiction|]. reflexivity.
Qed.

Lemma normalize_ok c n : - 2 ^ 127 <= c < 2 ^ 127 -> 0 <= n <= 18 ->
  normalize c n = Val (let d := normal c n in (coeff d, nfd d)).
Proof.
  intros Hc Hn. unfold normalize, normal. destruct (Z.eqb_spec c 0); [reflexivity|].
  rewrite (normalize_loop_strip (Z.to_nat n) 256 18 c n) by lia.
  destruct (strip 18 c n). reflexivity.
Qed.

(* the tail of Div / CheckedDiv: round to 18 digits, then normalise *)
Lemma div_tail_ok (K : sdmf_contract) pf m cx px cy py :
  - MAXC <= cx <= MAXC -> - MAXC <= cy <= MAXC -> cy <> 0 -> 0 <= px <= 18 -> 0 <= py <= 18 ->
  let s := map_sres (fun d => normal (coeff d) (nfd d))
                    (classify (rndq m (cx * 10 ^ (18 + py)) (cy * 10 ^ px)) 18) in
  exists o, div_tail pf m cx px cy py = Val o /\
            acc_op s (out_dec (or_panic o)) = true /\ acc_chk s (out_odec (Val o)) = true.
Proof.
  intros Hx Hy Hnz Hpx Hpy s. unfold div_tail. change MAX_N_FRAC_DIGITS with 18.
  destruct (checked_div_rounded_ok K pf m cx px cy py 18 Hx Hy Hnz Hpx Hpy ltac:(lia)) as (o & Ho & Hr).
  rewrite Ho. cbn [bind]. subst s. set (r := rndq m (cx * 10 ^ (18 + py)) (cy * 10 ^ px)) in *.
  destruct o as [v|].
  - destruct Hr as [-> Hr]. unfold MINC in Hr. rewrite MAXC_val in Hr.
    rewrite normalize_ok by (rewrite ?pow2_127; lia). cbn [bind].
    eexists. split; [reflexivity|].
    unfold classify. destruct (Z.leb_spec (Z.abs r) MAXC).
    + cbn. unfold dec_eqb. cbn [coeff nfd]. rewrite !Z.eqb_refl. auto.
    + assert (r = MINC) by (unfold MINC; rewrite MAXC_val in *; rewrite pow2_127; lia).
      destruct (Z.eqb_spec r MINC); [|contradiction]. cbn. unfold dec_eqb. cbn [coeff nfd]. rewrite !Z.eqb_refl. auto.
  - eexists. split; [reflexivity|]. unfold rounded_ok in Hr. unfold classify.
    destruct (Z.leb_spec (Z.abs r) MAXC); [lia|]. destruct (r =? MINC); cbn; auto.
Qed.

Lemma div_acc (K : sdmf_contract) pf m x y :
  wf x = true -> wf y = true ->
  acc_dd m Bdiv x y 0 (run_dd pf m Bdiv x y 0) = true /\
  acc_dd m Bcdiv x y 0 (run_dd pf m Bcdiv x y 0) = true.
Proof.
  intros Hx Hy. apply wf_iff in Hx. apply wf_iff in Hy. destruct Hx as [Hcx Hpx]. destruct Hy as [Hcy Hpy].
  cbn [acc_dd run_dd]. unfold dec_div, dec_checked_div, div_spec, eq_zero, eq_one, is_zero, is_one.
  destruct (Z.eqb_spec (coeff y) 0). { cbn. auto. }
  destruct (coeff x =? 0). { cbn. auto. }
  rewrite ten_pow_ok by lia. cbn [bind].
  destruct (coeff y =? 10 ^ nfd y). { cbn. rewrite dec_eqb_refl. auto. }
  destruct (div_tail_ok K pf m (coeff x) (nfd x) (coeff y) (nfd y) Hcx Hcy ltac:(assumption) Hpx Hpy) as (o & Ho & A1 & A2).
  rewrite Ho. cbn [bind]. split; assumption.
Qed.

(* integer operands: the separately written bodies are the Decimal/Decimal body on Decimal::from(i) *)
Lemma di_div_eq pf m d i :
  di_div pf m d i = dec_div pf m d (mkdec i 0) /\ di_checked_div pf m d i = dec_checked_div pf m d (mkdec i 0).
Proof.
  unfold di_div, di_checked_div, dec_div, dec_checked_div, eq_zero, eq_one. cbn [coeff nfd].
  rewrite ten_pow_0. cbn [bind].
  destruct (i =? 0); [split; reflexivity|]. destruct (coeff d =? 0); [split; reflexivity|].
  destruct (i =? 1); split; reflexivity.
Qed.

Lemma id_div_eq pf m i d :
  id_div pf m i d = dec_div pf m (mkdec i 0) d /\ id_checked_div pf m i d = dec_checked_div pf m (mkdec i 0) d.
Proof.
  unfold id_div, id_checked_div, dec_div, dec_checked_div, eq_zero, eq_one. cbn [coeff nfd].
  destruct (coeff d =? 0); [split; reflexivity|]. destruct (i =? 0); [split; reflexivity|].
  split; reflexivity.
Qed.

Lemma div_int_acc (K : sdmf_contract) pf m t d i :
  wf d = true -> - MAXC <= i <= MAXC ->
  acc_di m Bdiv d i 0 (run_di pf m Bdiv t d i 0) = true /\
  acc_di m Bcdiv d i 0 (run_di pf m Bcdiv t d i 0) = true /\
  acc_id m Bdiv i d 0 (run_id pf m Bdiv t i d 0) = true /\
  acc_id m Bcdiv i d 0 (run_id pf m Bcdiv t i d 0) = true.
Proof.
  intros Hd Hi.
  assert (Hw : wf (mkdec i 0) = true) by (apply wf_iff; cbn [coeff nfd]; lia).
  destruct (di_div_eq pf m d i) as [E1 E2]. destruct (id_div_eq pf m i d) as [E3 E4].
  destruct (div_acc K pf m d (mkdec i 0) Hd Hw) as [A1 A2].
  destruct (div_acc K pf m (mkdec i 0) d Hw Hd) as [A3 A4].
  cbn [acc_di acc_id acc_int acc_dd run_di run_id run_dd] in *.
  rewrite E1, E2, E3, E4. auto.
Qed.

(* ---- div_rounded ---- *)
Lemma div_rounded_core (K : sdmf_contract) pf m cx px cy py n :
  - MAXC <= cx <= MAXC -> - MAXC <= cy <= MAXC -> cy <> 0 ->
  0 <= px <= 18 -> 0 <= py <= 18 -> 0 <= n <= 18 ->
  acc_op (classify (rndq m (cx * 10 ^ (n + py)) (cy * 10 ^ px)) n)
         (out_dec (o <- checked_div_rounded pf m cx px cy py n ;; c <- or_panic o ;; Val (mkdec c n))) = true.
Proof.
  intros Hx Hy Hnz Hpx Hpy Hn.
  destruct (checked_div_rounded_ok K pf m cx px cy py n Hx Hy Hnz Hpx Hpy Hn) as (o & Ho & Hr).
  rewrite Ho. cbn [bind].
  pose proof (proj1 (classify_acc _ n o Hr)) as A. destruct o; exact A.
Qed.

Lemma div_rounded_acc (K : sdmf_contract) pf m x y n :
  wf x = true -> wf y = true -> 0 <= n <= 255 ->
  acc_dd m Bdivr x y n (run_dd pf m Bdivr x y n) = true.
Proof.
  intros Hx Hy Hn. apply wf_iff in Hx. apply wf_iff in Hy. destruct Hx as [Hcx Hpx]. destruct Hy as [Hcy Hpy].
  cbn [acc_dd run_dd]. unfold dec_div_rounded, div_rounded_spec, eq_zero, is_zero.
  change MAX_N_FRAC_DIGITS with 18. rewrite Z.gtb_ltb.
  destruct (Z.ltb_spec 18 n). { reflexivity. }
  destruct (Z.eqb_spec (coeff y) 0). { reflexivity. }
  destruct (coeff x =? 0). { reflexivity. }
  apply (div_rounded_core K); (assumption || lia).
Qed.

(* integer operands, n <= 18 (n > 18 is known finding K1) *)
Lemma div_rounded_int_acc (K : sdmf_contract) pf m t d i j n :
  wf d = true -> - MAXC <= i <= MAXC -> - MAXC <= j <= MAXC -> 0 <= n <= 18 ->
  acc_di m Bdivr d i n (run_di pf m Bdivr t d i n) = true /\
  acc_id m Bdivr i d n (run_id pf m Bdivr t i d n) = true /\
  acc_ii m Bdivr i j n (run_ii pf m Bdivr i j n) = true.
Proof.
  intros Hd Hi Hj Hn. apply wf_iff in Hd. destruct Hd as [Hcd Hpd].
  cbn [acc_di acc_id acc_ii acc_int acc_dd run_di run_id run_ii].
  unfold di_div_rounded, id_div_rounded, ii_div_rounded, div_rounded_spec, eq_zero, is_zero. cbn [coeff nfd].
  destruct (Z.ltb_spec 18 n); [lia|].
  repeat split.
  - destruct (Z.eqb_spec i 0). { reflexivity. } destruct (coeff d =? 0). { reflexivity. }
    apply (div_rounded_core K); (assumption || lia).
  - destruct (Z.eqb_spec (coeff d) 0). { reflexivity. } destruct (i =? 0). { reflexivity. }
    apply (div_rounded_core K); (assumption || lia).
  - destruct (Z.eqb_spec j 0). { reflexivity. } destruct (i =? 0). { reflexivity. }
    apply (div_rounded_core K); (assumption || lia).
Qed.

(* ---- quantize = div_rounded(q, 0) * q ---- *)
Definition qspec (c pq : Z) : sres :=
  if Z.abs c <=? MAXC then SValue c pq
  else let '(c', _) := strip 18 c pq in
       if (Z.abs c' <=? MAXC) || (c =? MINC) then SValueOrFail c pq else SFail.

Lemma quantize_spec_unfold m x q :
  quantize_spec m x q =
  if is_zero q then SFail
  else qspec (rndq m (coeff x * 10 ^ nfd q) (coeff q * 10 ^ nfd x) * coeff q) (nfd q).
Proof. reflexivity. Qed.

Lemma qspec_value c pq d :
  veq c pq d = true ->
  (Z.abs c <= MAXC \/ c = MINC \/ Z.abs (fst (strip 18 c pq)) <= MAXC) ->
  acc_op (qspec c pq) (OV d) = true.
Proof.
  intros V H. unfold qspec. destruct (Z.leb_spec (Z.abs c) MAXC); [cbn; exact V|].
  destruct (strip 18 c pq) as [c' n'] eqn:S. cbn [fst] in H.
  destruct H as [H|[H|H]]; [lia| |].
  - subst c. rewrite Z.eqb_refl, orb_true_r. cbn. exact V.
  - destruct (Z.leb_spec (Z.abs c') MAXC); [|lia]. cbn. exact V.
Qed.

Lemma qspec_fail c pq : MAXC < Z.abs c -> acc_op (qspec c pq) OP = true.
Proof.
  intros H. unfold qspec. destruct (Z.leb_spec (Z.abs c) MAXC); [lia|].
  destruct (strip 18 c pq) as [c' n']. destruct ((Z.abs c' <=? MAXC) || (c =? MINC)); reflexivity.
Qed.

Lemma strip_pow : forall (n : nat) (f : nat) k, (n <= f)%nat ->
  strip f (k * 10 ^ Z.of_nat n) (Z.of_nat n) = strip (f - n) k 0.
Proof.
  induction n as [|n IH]; intros f k Hf.
  - cbn [Z.of_nat]. change (10 ^ 0) with 1. rewrite Z.mul_1_r, Nat.sub_0_r. reflexivity.
  - destruct f as [|f]; [lia|]. cbn [strip].
    destruct (Z.ltb_spec 0 (Z.of_nat (S n))); [|lia]. cbn [andb].
    rewrite Nat2Z.inj_succ. rewrite Z.pow_succ_r by lia.
    replace (k * (10 * 10 ^ Z.of_nat n)) with (k * 10 ^ Z.of_nat n * 10) by ring.
    rewrite Z_mod_mult. cbn [Z.eqb]. rewrite Z_div_mult by lia.
    replace (Z.succ (Z.of_nat n) - 1) with (Z.of_nat n) by lia.
    rewrite IH by lia. reflexivity.
Qed.

Lemma strip_zero_scale f k : strip f k 0 = (k, 0).
Proof. destruct f; reflexivity. Qed.

Lemma rnd_zero m d : d <> 0 -> rnd m 0 d = 0.
Proof. intros Hd. unfold rnd. rewrite Z.quot_0_l, Z.rem_0_l by assumption. reflexivity. Qed.

Lemma rndq_zero m d : d <> 0 -> rndq m 0 d = 0.
Proof.
  intros Hd. unfold rndq. destruct (d <? 0); [change (- 0) with 0|]; apply rnd_zero; lia.
Qed.

Lemma veq_self c p : 0 <= p -> veq c p (mkdec c p) = true.
Proof. intros. apply veq_intro; cbn [coeff nfd]; [lia|reflexivity]. Qed.

Lemma quantize_acc (K : sdmf_contract) pf m x q :
  wf x = true -> wf q = true ->
  acc_dd m Bquant x q 0 (run_dd pf m Bquant x q 0) = true.
Proof.
  intros Hx Hq. pose proof Hx as Hx'. pose proof Hq as Hq'.
  apply wf_iff in Hx. apply wf_iff in Hq. destruct Hx as [Hcx Hpx]. destruct Hq as [Hcq Hpq].
  pose proof (pow10_pos (nfd x) ltac:(lia)) as Ppx. pose proof (pow10_pos (nfd q) ltac:(lia)) as Ppq.
  cbn [acc_dd run_dd]. rewrite quantize_spec_unfold.
  unfold dec_quantize, dec_div_rounded, eq_zero, is_zero. change MAX_N_FRAC_DIGITS with 18.
  cbn [Z.gtb Z.compare].
  destruct (Z.eqb_spec (coeff q) 0) as [Eq0|Nq0]. { reflexivity. }
  set (k := rndq m (coeff x * 10 ^ nfd q) (coeff q * 10 ^ nfd x)).
  destruct (Z.eqb_spec (coeff x) 0) as [Ex0|Nx0].
  { (* zero dividend *)
    cbn [bind]. unfold dec_mul, eq_zero. cbn [coeff DZERO Z.eqb orb out_dec of_res].
    assert (Ek : k = 0) by (unfold k; rewrite Ex0, Z.mul_0_l; apply rndq_zero; nia).
    rewrite Ek, Z.mul_0_l. apply qspec_value; [|left; rewrite MAXC_val; cbn; lia].
    apply veq_intro; cbn [coeff nfd DZERO]; lia. }
  destruct (checked_div_rounded_ok K pf m (coeff x) (nfd x) (coeff q) (nfd q) 0 Hcx Hcq Nq0 Hpx Hpq ltac:(lia)) as (o & Ho & Hr).
  rewrite Z.add_0_l in Hr. fold k in Hr.
  rewrite Ho. cbn [bind].
  destruct o as [v|]; cbn [or_panic bind].
  2:{ (* the quotient itself is not representable *)
      unfold rounded_ok in Hr. cbn [out_dec of_res]. apply qspec_fail.
      rewrite Z.abs_mul. assert (1 <= Z.abs (coeff q)) by lia. nia. }
  destruct Hr as [-> Hk].
  unfold dec_mul, eq_zero, eq_one. cbn [coeff nfd].
  destruct (Z.eqb_spec k 0) as [Ek0|Nk0].
  { cbn [orb out_dec of_res]. rewrite Ek0, Z.mul_0_l.
    apply qspec_value; [|left; rewrite MAXC_val; cbn; lia]. apply veq_intro; cbn [coeff nfd DZERO]; lia. }
  destruct (Z.eqb_spec (coeff q) 0); [contradiction|]. cbn [orb].
  rewrite ten_pow_ok by lia. cbn [bind].
  destruct (Z.eqb_spec (coeff q) (10 ^ nfd q)) as [E1|N1].
  { (* quantum equal to one: the rounded quotient itself *)
    cbn [out_dec of_res]. rewrite E1.
    assert (Hkb : Z.abs k <= MAXC).
    { unfold k. rewrite E1. rewrite (Z.mul_comm (10 ^ nfd q) (10 ^ nfd x)). rewrite rndq_scale by lia.
      pose proof (rndq_abs_le m (coeff x) (10 ^ nfd x) ltac:(lia)). lia. }
    apply qspec_value.
    - apply veq_intro; cbn [coeff nfd]; [lia|]. change (10 ^ 0) with 1. ring.
    - right. right. replace (nfd q) with (Z.of_nat (Z.to_nat (nfd q))) by lia.
      rewrite strip_pow by lia. rewrite strip_zero_scale. cbn [fst]. exact Hkb. }
  rewrite ten_pow_0. cbn [bind].
  destruct (Z.eqb_spec k 1) as [Ek1|Nk1].
  { cbn [out_dec of_res]. rewrite Ek1, Z.mul_1_l. apply qspec_value; [|left; lia].
    apply veq_intro; [lia|reflexivity]. }
  (* general case: exact product at the quantum's scale *)
  unfold checked_mul_rounded. cbn [coeff nfd]. unfold ck_add. rewrite Z.add_0_l.
  rewrite ck_ok by (apply in_U8_iff2; lia). cbn [bind].
  change MAX_N_FRAC_DIGITS with 18. destruct (Z.geb_spec 18 (nfd q)); [|lia].
  unfold checked. destruct (in_range I128 (k * coeff q)) eqn:R; cbn [option_map bind or_panic out_dec of_res].
  - apply in_I128_iff in R. apply qspec_value; [apply veq_self; lia|].
    destruct (Z_le_gt_dec (Z.abs (k * coeff q)) MAXC); [left; assumption|].
    right. left. unfold MINC. rewrite MAXC_val in *. rewrite pow2_127 in R. lia.
  - apply in_range_false_iff in R. rewrite tmin_I128, tmax_I128, pow2_127 in R.
    apply qspec_fail. rewrite MAXC_val. lia.
Qed.

Lemma id_quantize_eq pf m i d : id_quantize pf m i d = dec_quantize pf m (mkdec i 0) d.
Proof.
  unfold id_quantize, dec_quantize, id_div_rounded, dec_div_rounded, eq_zero. cbn [coeff nfd].
  change (0 >? MAX_N_FRAC_DIGITS) with false. cbv iota. reflexivity.
Qed.

(* Decimal.quantize(int) and int.quantize(int): the product is Decimal * int (no short-cuts) *)
Lemma quantize_int_core (K : sdmf_contract) pf m cx px j :
  - MAXC <= cx <= MAXC -> 0 <= px <= 18 -> - MAXC <= j <= MAXC ->
  acc_op (quantize_spec m (mkdec cx px) (mkdec j 0))
    (out_dec (q <- (if j =? 0 then Panic else if cx =? 0 then Val DZERO else
                    o <- checked_div_rounded pf m cx px j 0 0 ;; c <- or_panic o ;; Val (mkdec c 0)) ;;
              di_mul q j)) = true.
Proof.
  intros Hx Hpx Hj. rewrite quantize_spec_unfold. unfold is_zero. cbn [coeff nfd].
  pose proof (pow10_pos px ltac:(lia)) as Ppx.
  destruct (Z.eqb_spec j 0) as [Ej|Nj]. { reflexivity. }
  change (10 ^ 0) with 1. rewrite Z.mul_1_r.
  set (k := rndq m cx (j * 10 ^ px)).
  destruct (Z.eqb_spec cx 0) as [E0|N0].
  { cbn [bind]. unfold di_mul. cbn [coeff nfd DZERO]. rewrite Z.mul_0_l. cbn.
    assert (Ek : k = 0) by (unfold k; rewrite E0; apply rndq_zero; nia).
    rewrite Ek, Z.mul_0_l. apply qspec_value; [|left; rewrite MAXC_val; cbn; lia].
    apply veq_intro; cbn [coeff nfd]; lia. }
  destruct (checked_div_rounded_ok K pf m cx px j 0 0 Hx Hj Nj Hpx ltac:(lia) ltac:(lia)) as (o & Ho & Hr).
  rewrite Z.add_0_l in Hr. change (10 ^ 0) with 1 in Hr. rewrite Z.mul_1_r in Hr. fold k in Hr.
  rewrite Ho. cbn [bind].
  destruct o as [v|]; cbn [or_panic bind].
  2:{ unfold rounded_ok in Hr. cbn [out_dec of_res]. apply qspec_fail.
      rewrite Z.abs_mul. assert (1 <= Z.abs j) by lia. nia. }
  destruct Hr as [-> Hk]. unfold di_mul. cbn [coeff nfd]. unfold checked.
  destruct (in_range I128 (k * j)) eqn:R; cbn [or_panic bind out_dec of_res].
  - apply in_I128_iff in R. apply qspec_value; [apply veq_self; lia|].
    destruct (Z_le_gt_dec (Z.abs (k * j)) MAXC); [left; assumption|].
    right. left. unfold MINC. rewrite MAXC_val in *. rewrite pow2_127 in R. lia.
  - apply in_range_false_iff in R. rewrite tmin_I128, tmax_I128, pow2_127 in R.
    apply qspec_fail. rewrite MAXC_val. lia.
Qed.

Lemma quantize_int_acc (K : sdmf_contract) pf m t d i j :
  wf d = true -> - MAXC <= i <= MAXC -> - MAXC <= j <= MAXC ->
  acc_di m Bquant d j 0 (run_di pf m Bquant t d j 0) = true /\
  acc_id m Bquant i d 0 (run_id pf m Bquant t i d 0) = true /\
  acc_ii m Bquant i j 0 (run_ii pf m Bquant i j 0) = true.
Proof.
  intros Hd Hi Hj. pose proof Hd as Hd'. apply wf_iff in Hd. destruct Hd as [Hcd Hpd].
  assert (Hw : wf (mkdec i 0) = true) by (apply wf_iff; cbn [coeff nfd]; lia).
  cbn [acc_di acc_id acc_ii acc_int acc_dd run_di run_id run_ii].
  repeat split.
  - pose proof (quantize_int_core K pf m (coeff d) (nfd d) j Hcd Hpd Hj) as A.
    destruct d as [cd pd]. cbn [coeff nfd] in *. unfold di_quantize, di_div_rounded, eq_zero. cbn [coeff nfd]. exact A.
  - rewrite id_quantize_eq. exact (quantize_acc K pf m (mkdec i 0) d Hw Hd').
  - pose proof (quantize_int_core K pf m i 0 j Hi ltac:(lia) Hj) as A.
    unfold ii_quantize, ii_div_rounded. exact A.
Qed.
