(* GenTieDecRatio.v — src/as_integer_ratio.rs (gcd_special with its binary-gcd loop, Decimal::as_integer_ratio) as
   translated (gen/GenDec.v) equals the model (Ratio.v); impl Hash for Decimal feeds exactly this pair to the hasher. *)
From FP Require Import Machine SrcConsts Pow10 Ratio GenCore GenDec MachineFacts.
From FP Require Import GenTieTac GenTiePow RatioFacts.

Lemma tie_gcd_loop fuel pf : forall u v,
  g_gcd_special_loop1 fuel pf v u = (g <- gcd_loop fuel pf u v ;; Val (0, g)).
Proof.
  induction fuel as [|f IH]; intros u v; [reflexivity|].
  cbn [g_gcd_special_loop1 gcd_loop].
  destruct (Z.eqb_spec v 0) as [->|Hv]; cbn [negb bind]; [reflexivity|].
  dres (ck_shr pf I128 v (tz 128 v)) as v1.
  destruct (u >? v1); cbn [bind].
  - dres (ck_sub pf I128 u v1) as v3. apply IH.
  - dres (ck_sub pf I128 v1 u) as v3. apply IH.
Qed.

Lemma tie_gcd_special pf n e : g_gcd_special pf n e = gcd_special pf n e.
Proof.
  unfold g_gcd_special, gcd_special. to_model_pow. change FUEL_gcd_special with 400%nat.
  dres (assert (negb (n =? 0))) as u1. dres (assert (e <=? 38)) as u2.
  dres (ck_abs pf I128 n) as u. dres (ck_shr pf I128 u (tz 128 u)) as u'.
  dres (ten_pow (cast U8 e)) as t. dres (ck_shr pf I128 t e) as v.
  rewrite tie_gcd_loop. dres (gcd_loop 400 pf u' v) as g. reflexivity.
Qed.

Lemma tie_as_integer_ratio pf d : g_AsIntegerRatio_as_integer_ratio pf d = as_integer_ratio pf d.
Proof.
  unfold g_AsIntegerRatio_as_integer_ratio, as_integer_ratio. to_model_pow.
  destruct ((nfd d =? 0) || (coeff d =? 0)); [reflexivity|].
  rewrite tie_gcd_special. reflexivity.
Qed.

(* ---- the theorems about the translated source ---------------------------------------------------- *)
From FP Require Import RoundSpec Out ArithSpec FloatSpec.

Lemma src_gcd_special pf c e : c <> 0 -> - MAXC <= c <= MAXC -> 0 <= e <= 18 ->
  g_gcd_special pf c e = Val (Z.gcd c (10 ^ e)).
Proof. intros. rewrite tie_gcd_special. apply gcd_special_ok; assumption. Qed.

Lemma src_ratio_equals_spec pf d : wf d = true ->
  g_AsIntegerRatio_as_integer_ratio pf d = Val (ratio_spec d).
Proof. intros. rewrite tie_as_integer_ratio. apply ratio_model_spec; assumption. Qed.
