(* MulFacts.v — C02 / C04: *, checked_mul, mul_rounded against the specification,
   given the contract of the 256-bit kernel (KernelContract.i256_contract). *)
From FP Require Import Machine SrcConsts Pow10 WideDiv Rounding Arith IntForms RoundSpec Out ArithSpec Run.
From FP Require Import MachineFacts Pow10Facts OutFacts RoundSpecFacts RoundingFacts UnopsFacts KernelContract.

Lemma in_U8_iff2 z : in_range U8 z = true <-> 0 <= z <= 255.
Proof. rewrite in_range_iff. reflexivity. Qed.

Lemma mdr_ok (K : i256_contract) pf m x y p :
  - MAXC <= x <= MAXC -> - MAXC <= y <= MAXC -> 0 <= p <= 38 ->
  exists o, i128_mul_div_ten_pow_rounded pf x y p m = Val o /\ rounded_ok (rnd m (x * y) (10 ^ p)) o.
Proof.
  intros Hx Hy Hp. unfold i128_mul_div_ten_pow_rounded. rewrite ten_pow_ok by lia. cbn [bind].
  pose proof (pow10_pos p ltac:(lia)) as Hpos. pose proof (pow10_le_38 p Hp) as Hle.
  pose proof pow10_38_lt as H38.
  assert (Hd : 0 < 10 ^ p <= MAXC) by (rewrite MAXC_val; rewrite pow2_127 in H38; lia).
  destruct (K pf x y (10 ^ p) Hx Hy Hd) as (o & Ho & Hf). rewrite Ho. cbn [bind].
  destruct (round_after_floor pf m (x * y) (10 ^ p) o Hd Hf) as (o' & Ho' & Hr).
  exists o'. split; [|exact Hr]. destruct o as [[q r]|]; exact Ho'.
Qed.

Lemma rnd_small m N d : 10 <= d -> - 2 ^ 127 <= N <= 2 ^ 127 -> Z.abs (rnd m N d) <= MAXC.
Proof.
  intros Hd HN. pose proof (rnd_between m N d ltac:(lia)) as B.
  (* |rnd| <= |N / d| + 1 *)
  unfold rnd in *.
  pose proof (Z.quot_rem' N d) as E. pose proof (Z.rem_bound_abs N d ltac:(lia)) as Bd.
  set (t := Z.quot N d) in *. set (r := Z.rem N d) in *.
  assert (Ht : Z.abs t * 10 <= 2 ^ 127).
  { unfold t. rewrite <- abs_quot by lia. pose proof (Z.mul_div_le (Z.abs N) d ltac:(lia)).
    assert (0 <= Z.abs N / d) by (apply Z.div_pos; lia). nia. }
  rewrite MAXC_val. rewrite pow2_127 in *.
  destruct (Z.eqb_spec (Z.abs r) 0); [lia|].
  assert (Ha : Z.abs (t + Z.sgn N) <= Z.abs t + 1) by lia.
  destruct m; repeat match goal with |- context [if ?b then _ else _] => destruct b end; lia.
Qed.

Lemma checked_mul_rounded_ok (K : i256_contract) pf m x y n :
  wf x = true -> wf y = true -> 0 <= n <= 18 ->
  let s := nfd x + nfd y in
  exists o, checked_mul_rounded pf m x y n = Val o /\
    (if n >=? s then o = option_map (fun c => mkdec c s) (checked I128 (coeff x * coeff y))
     else rounded_ok (rnd m (coeff x * coeff y) (10 ^ (s - n))) (option_map coeff o) /\
          (forall d, o = Some d -> nfd d = n)).
Proof.
  intros Hx Hy Hn s. destruct (wf_bounds _ Hx) as [Hcx Hpx]. destruct (wf_bounds _ Hy) as [Hcy Hpy].
  unfold checked_mul_rounded. unfold ck_add. rewrite ck_ok by (apply in_U8_iff2; lia). cbn [bind]. fold s.
  destruct (Z.geb_spec n s) as [G|L].
  - eexists. split; reflexivity.
  - unfold checked. destruct (in_range I128 (coeff x * coeff y)) eqn:R.
    + rewrite ten_pow_ok by (unfold s; lia). cbn [bind].
      pose proof (pow10_pos (s - n) ltac:(lia)) as Hpos.
      pose proof (pow10_le_38 (s - n) ltac:(unfold s; lia)) as Hle. pose proof pow10_38_lt as H38.
      rewrite i128_div_rounded_pos by (try assumption; try (apply in_I128_iff; lia)). cbn [bind].
      eexists. split; [reflexivity|]. cbn [option_map coeff]. split.
      * cbn. split; [reflexivity|]. apply in_I128_iff in R.
        assert (10 <= 10 ^ (s - n)).
        { change 10 with (10 ^ 1) at 1. apply Z.pow_le_mono_r; lia. }
        pose proof (rnd_small m (coeff x * coeff y) (10 ^ (s - n)) H ltac:(lia)) as RS. rewrite MAXC_val in RS. lia.
      * intros d E. injection E as <-. reflexivity.
    + assert (Hx' : - MAXC <= coeff x <= MAXC) by (rewrite MAXC_val; rewrite pow2_127 in Hcx; lia).
      assert (Hy' : - MAXC <= coeff y <= MAXC) by (rewrite MAXC_val; rewrite pow2_127 in Hcy; lia).
      destruct (mdr_ok K pf m (coeff x) (coeff y) (s - n) Hx' Hy' ltac:(unfold s; lia)) as (o & Ho & Hr).
      rewrite Ho. cbn [bind]. eexists. split; [reflexivity|]. split.
      * destruct o; exact Hr.
      * intros d E. destruct o; [|discriminate]. injection E as <-. reflexivity.
Qed.

Lemma exact_acc c n :
  acc_op (exact c n) (out_dec (or_panic (option_map (fun c => mkdec c n) (checked I128 c)))) = true /\
  acc_chk (exact c n) (out_odec (Val (option_map (fun c => mkdec c n) (checked I128 c)))) = true.
Proof.
  unfold exact, checked. destruct (in_range I128 c); cbn; rewrite ?dec_eqb_refl; auto.
Qed.

Lemma rounded_dec_acc c n (o : option dec) :
  rounded_ok c (option_map coeff o) -> (forall d, o = Some d -> nfd d = n) ->
  acc_op (classify c n) (out_dec (or_panic o)) = true /\
  acc_chk (classify c n) (out_odec (Val o)) = true.
Proof.
  intros H Hn. destruct o as [d|].
  - pose proof (Hn d eq_refl) as E. destruct d as [cd nd]. cbn in E. subst nd.
    exact (classify_acc c n (Some cd) H).
  - exact (classify_acc c n None H).
Qed.

Lemma mul_acc (K : i256_contract) pf m x y :
  wf x = true -> wf y = true ->
  acc_dd m Bmul x y 0 (run_dd pf m Bmul x y 0) = true /\
  acc_dd m Bcmul x y 0 (run_dd pf m Bcmul x y 0) = true.
Proof.
  intros Hx Hy. destruct (wf_bounds _ Hx) as [Hcx Hpx]. destruct (wf_bounds _ Hy) as [Hcy Hpy].
  cbn [acc_dd run_dd]. unfold dec_mul, dec_checked_mul, mul_spec, checked_mul_spec, eq_zero, eq_one, is_zero, is_one.
  destruct ((coeff x =? 0) || (coeff y =? 0)).
  { cbn. auto. }
  rewrite !ten_pow_ok by lia. cbn [bind].
  destruct (coeff y =? 10 ^ nfd y). { cbn. rewrite dec_eqb_refl. auto. }
  destruct (coeff x =? 10 ^ nfd x). { cbn. rewrite dec_eqb_refl. auto. }
  unfold ck_add. rewrite ck_ok by (apply in_U8_iff2; lia). cbn [bind].
  change MAX_N_FRAC_DIGITS with 18.
  destruct (checked_mul_rounded_ok K pf m x y 18 Hx Hy ltac:(lia)) as (o & Ho & Hs). cbv zeta in Hs.
  rewrite Ho. cbn [bind].
  destruct (Z.gtb_spec (nfd x + nfd y) 18) as [G|L].
  - (* more than 18 digits: * rounds, checked_mul gives None *)
    destruct (Z.geb_spec 18 (nfd x + nfd y)); [lia|]. destruct (Z.leb_spec (nfd x + nfd y) 18); [lia|].
    destruct Hs as [Hr Hn]. split.
    + exact (proj1 (rounded_dec_acc _ 18 o Hr Hn)).
    + reflexivity.
  - destruct (Z.geb_spec 18 (nfd x + nfd y)); [|lia]. destruct (Z.leb_spec (nfd x + nfd y) 18); [|lia].
    subst o. split; apply exact_acc.
Qed.

Lemma mul_int_acc pf m t d i :
  acc_di m Bmul d i 0 (run_di pf m Bmul t d i 0) = true /\
  acc_di m Bcmul d i 0 (run_di pf m Bcmul t d i 0) = true /\
  acc_id m Bmul i d 0 (run_id pf m Bmul t i d 0) = true /\
  acc_id m Bcmul i d 0 (run_id pf m Bcmul t i d 0) = true.
Proof.
  cbn [acc_di acc_id run_di run_id]. unfold di_mul, id_mul, di_checked_mul, id_checked_mul, mul_int_spec.
  rewrite (Z.mul_comm i (coeff d)).
  pose proof (exact_acc (coeff d * i) (nfd d)) as [A B].
  unfold out_dec, out_odec in *.
  assert (E : forall o : option Z, c <- or_panic o ;; Val (mkdec c (nfd d)) = or_panic (option_map (fun c => mkdec c (nfd d)) o)).
  { intros [c|]; reflexivity. }
  rewrite E. auto.
Qed.

Lemma mul_rounded_acc (K : i256_contract) pf m x y n :
  wf x = true -> wf y = true -> 0 <= n <= 255 ->
  acc_dd m Bmulr x y n (run_dd pf m Bmulr x y n) = true.
Proof.
  intros Hx Hy Hn. destruct (wf_bounds _ Hx) as [Hcx Hpx]. destruct (wf_bounds _ Hy) as [Hcy Hpy].
  cbn [acc_dd run_dd]. unfold dec_mul_rounded, mul_rounded_spec, eq_zero, is_zero.
  change MAX_N_FRAC_DIGITS with 18. rewrite Z.gtb_ltb.
  destruct (Z.ltb_spec 18 n). { reflexivity. }
  destruct ((coeff x =? 0) || (coeff y =? 0)). { reflexivity. }
  destruct (checked_mul_rounded_ok K pf m x y n Hx Hy ltac:(lia)) as (o & Ho & Hs). cbv zeta in Hs.
  rewrite Ho. cbn [bind].
  destruct (Z.geb_spec n (nfd x + nfd y)) as [G|L].
  - destruct (Z.leb_spec (nfd x + nfd y) n); [|lia]. subst o. apply exact_acc.
  - destruct (Z.leb_spec (nfd x + nfd y) n); [lia|]. destruct Hs as [Hr Hd].
    exact (proj1 (rounded_dec_acc _ n o Hr Hd)).
Qed.
