(* GenTieRound.v — part of the tie between the translated source (gen/GenCore.v, regenerated from /repo by tools/rs2v.py on
   every run) and the hand-written model: rounding.rs (round_quot, i128_div_rounded, i128_shifted_div_rounded, i128_mul_div_ten_pow_rounded). *)
From FP Require Import Machine SrcConsts Pow10 WideDiv Rounding GenCore MachineFacts GenTieTac GenTiePow GenTieWide.
From FP Require Import RoundSpec KernelContract WideDivFacts RoundingFacts MulFacts DivFacts.

Lemma tie_round_quot pf dflt quot rem divisor om :
  g_round_quot pf dflt quot rem divisor om =
  round_quot pf quot rem divisor (match om with None => dflt | Some m => m end).
Proof.
  unfold g_round_quot, round_quot, incr, keep. unfold_helpers.
  destruct (rem =? 0); [rf|].
  destruct (match om with None => dflt | Some m => m end); first [ rf | tie2 ].
Qed.

Lemma tie_i128_div_rounded pf dflt n d om :
  g_i128_div_rounded pf dflt n d om =
  i128_div_rounded pf n d (match om with None => dflt | Some m => m end).
Proof.
  unfold g_i128_div_rounded, i128_div_rounded.
  change g_i128_div_mod_floor with i128_div_mod_floor.
  match goal with |- context [bind ?e _] => destruct e as [[dd dv]| | |] end; cbn [bind]; try rf.
  all: try (destruct (i128_div_mod_floor pf dd dv) as [[q r]| | |]; cbn [bind]; try rf).
  all: try (rewrite tie_round_quot; rf).
Qed.

Lemma neg_range pf a b : ck_neg pf I128 a = Val b -> in_range I128 b = true.
Proof. apply ck_range. Qed.

Lemma tie_i128_shifted_div_rounded pf dflt n p d om :
  in_range I128 d = true ->
  g_i128_shifted_div_rounded pf dflt n p d om =
  i128_shifted_div_rounded pf n p d (match om with None => dflt | Some m => m end).
Proof.
  intros Hd. unfold g_i128_shifted_div_rounded, i128_shifted_div_rounded.
  destruct (d <? 0); cbn [bind].
  - dres (ck_neg pf I128 n) as n'.
    destruct (ck_neg pf I128 d) as [d'| | |] eqn:E; cbn [bind]; try rf.
    rewrite (tie_i128_shifted_div_mod_floor pf n' p d' (neg_range _ _ _ E)).
    destruct (i128_shifted_div_mod_floor pf n' p d') as [[[q r]|]| | |]; cbn [bind]; try rf.
    all: try apply tie_round_quot.
  - rewrite (tie_i128_shifted_div_mod_floor pf n p d Hd).
    destruct (i128_shifted_div_mod_floor pf n p d) as [[[q r]|]| | |]; cbn [bind]; try rf.
    all: try apply tie_round_quot.
Qed.

Lemma tie_i128_mul_div_ten_pow_rounded pf dflt x y p om :
  g_i128_mul_div_ten_pow_rounded pf dflt x y p om =
  i128_mul_div_ten_pow_rounded pf x y p (match om with None => dflt | Some m => m end).
Proof.
  unfold g_i128_mul_div_ten_pow_rounded, i128_mul_div_ten_pow_rounded.
  change (g_ten_pow pf p) with (ten_pow p).
  destruct (ten_pow p) as [t| | |] eqn:E; cbn [bind]; try rf.
  rewrite (tie_i256_div_mod_floor pf x y t (ten_pow_range p t E)).
  destruct (i256_div_mod_floor pf x y t) as [[[q r]|]| | |]; cbn [bind]; try rf.
  all: try apply tie_round_quot.
Qed.

(* checked_adjust_coeffs: u8 subtraction of the larger minus the smaller count cannot overflow *)

(* ---- the kernel theorems restated about the translated source ------------------------------- *)
Definition or_default (dflt : mode) (om : option mode) : mode := match om with None => dflt | Some m => m end.

Lemma src_div_rounded pf dflt om n d :
  - MAXC <= n <= MAXC -> - MAXC <= d <= MAXC -> d <> 0 ->
  g_i128_div_rounded pf dflt n d om = Val (rndq (or_default dflt om) n d).
Proof. intros Hn Hd Hz. rewrite tie_i128_div_rounded. apply i128_div_rounded_ok; assumption. Qed.

Lemma src_shifted_div_rounded pf dflt om a k d :
  - MAXC <= a <= MAXC -> 0 <= k <= 38 -> d <> 0 -> - MAXC <= d <= MAXC ->
  exists o, g_i128_shifted_div_rounded pf dflt a k d om = Val o /\
            rounded_ok (rndq (or_default dflt om) (a * 10 ^ k) d) o.
Proof.
  intros Ha Hk Hz Hd. rewrite tie_i128_shifted_div_rounded by (apply MAXC_I128; lia).
  apply (DivFacts.sdr_ok sdmf_contract_holds); assumption.
Qed.

Lemma src_mul_div_ten_pow_rounded pf dflt om x y p :
  - MAXC <= x <= MAXC -> - MAXC <= y <= MAXC -> 0 <= p <= 38 ->
  exists o, g_i128_mul_div_ten_pow_rounded pf dflt x y p om = Val o /\
            rounded_ok (rnd (or_default dflt om) (x * y) (10 ^ p)) o.
Proof.
  intros Hx Hy Hp. rewrite tie_i128_mul_div_ten_pow_rounded.
  apply (MulFacts.mdr_ok i256_contract_holds); assumption.
Qed.


Lemma src_kernels_profile_free pf1 pf2 dflt om n d v :
  - MAXC <= n <= MAXC -> - MAXC <= d <= MAXC -> d <> 0 -> 0 <= v < 2 ^ 128 ->
  g_i128_div_rounded pf1 dflt n d om = g_i128_div_rounded pf2 dflt n d om /\
  g_u128_mul_u128 pf1 v v = g_u128_mul_u128 pf2 v v.
Proof.
  intros Hn Hd Hz Hv. split.
  - rewrite !src_div_rounded by assumption. reflexivity.
  - rewrite !src_wide_product by assumption. reflexivity.
Qed.

(* rewrite every translated kernel into its model counterpart *)
Ltac to_model :=
  repeat first
    [ match goal with |- context [g_i128_div_rounded ?pf ?dflt ?n ?d ?om] => rewrite (tie_i128_div_rounded pf dflt n d om) end
    | match goal with |- context [g_i128_mul_div_ten_pow_rounded ?pf ?dflt ?x ?y ?p ?om] =>
        rewrite (tie_i128_mul_div_ten_pow_rounded pf dflt x y p om) end
    | progress change g_ten_pow with (fun (_ : profile) => ten_pow)
    | progress change g_checked_ten_pow with (fun (_ : profile) => checked_ten_pow)
    | progress change g_mul_pow_ten with (fun (_ : profile) => mul_pow_ten)
    | progress change g_checked_mul_pow_ten with (fun (_ : profile) => checked_mul_pow_ten)
    | progress change g_i128_div_mod_floor with i128_div_mod_floor ];
  cbv beta iota.

(* the generic tie tactic for functions that call translated kernels: rewrite the kernels that have become visible
   into their model counterparts, split one more step, repeat *)
Ltac tie3 := repeat (cbv beta iota zeta; cbn [bind]; try to_model; tie2_step); cbn [bind]; try to_model; cbn [bind negb andb orb]; try fin.
