(* Pow10Facts.v — the table of powers of ten read from the Rust source is
   correct, and the four helpers compute what their names say. *)
From FP Require Import Machine SrcConsts Pow10 MachineFacts.

Lemma pow10_table_ok :
  forallb (fun i => match nth_error POWERS_OF_10 (Z.to_nat i) with
                    | Some v => v =? 10 ^ i | None => false end)
          (map Z.of_nat (seq 0 39)) = true.
Proof. vm_compute. reflexivity. Qed.

Lemma pow10_table_len : Z.of_nat (length POWERS_OF_10) = 39.
Proof. vm_compute. reflexivity. Qed.

Lemma pow10_nth i : 0 <= i <= 38 -> nth_error POWERS_OF_10 (Z.to_nat i) = Some (10 ^ i).
Proof.
  intros Hi. pose proof pow10_table_ok as H. rewrite forallb_forall in H.
  specialize (H i). 
  assert (Hin : In i (map Z.of_nat (seq 0 39))).
  { apply in_map_iff. exists (Z.to_nat i). split; [lia|]. apply in_seq. lia. }
  specialize (H Hin). destruct (nth_error POWERS_OF_10 (Z.to_nat i)); [|discriminate].
  apply Z.eqb_eq in H. congruence.
Qed.

Lemma ten_pow_ok n : 0 <= n <= 38 -> ten_pow n = Val (10 ^ n).
Proof.
  intros Hn. unfold ten_pow, index. destruct (Z.ltb_spec n 0); [lia|].
  rewrite pow10_nth by lia. reflexivity.
Qed.

Lemma ten_pow_oob n : 38 < n -> ten_pow n = Panic.
Proof.
  intros Hn. unfold ten_pow, index. destruct (Z.ltb_spec n 0); [lia|].
  assert (H' : nth_error POWERS_OF_10 (Z.to_nat n) = None).
  { apply nth_error_None. pose proof pow10_table_len. lia. }
  rewrite H'. reflexivity.
Qed.

Lemma checked_ten_pow_ok n : 0 <= n <= 38 -> checked_ten_pow n = Val (Some (10 ^ n)).
Proof.
  intros Hn. unfold checked_ten_pow. change CHECKED_TEN_POW_LIMIT with 38.
  destruct (Z.gtb_spec n 38); [lia|].
  unfold index. destruct (Z.ltb_spec n 0); [lia|]. rewrite pow10_nth by lia. reflexivity.
Qed.

Lemma checked_ten_pow_none n : 38 < n -> checked_ten_pow n = Val None.
Proof.
  intros Hn. unfold checked_ten_pow. change CHECKED_TEN_POW_LIMIT with 38.
  destruct (Z.gtb_spec n 38); [reflexivity|lia].
Qed.

Lemma mul_pow_ten_ok v n : 0 <= n <= 38 ->
  mul_pow_ten v n = if in_range I128 (v * 10 ^ n) then Val (v * 10 ^ n) else Panic.
Proof.
  intros Hn. unfold mul_pow_ten. rewrite ten_pow_ok by lia. cbn [bind]. unfold checked.
  destruct (in_range I128 (v * 10 ^ n)); reflexivity.
Qed.

Lemma checked_mul_pow_ten_ok v n : 0 <= n <= 38 ->
  checked_mul_pow_ten v n = Val (checked I128 (v * 10 ^ n)).
Proof.
  intros Hn. unfold checked_mul_pow_ten. rewrite checked_ten_pow_ok by lia. reflexivity.
Qed.

Lemma checked_mul_pow_ten_big v n : 38 < n -> checked_mul_pow_ten v n = Val None.
Proof.
  intros Hn. unfold checked_mul_pow_ten. rewrite checked_ten_pow_none by lia. reflexivity.
Qed.

Lemma pow10_pos n : 0 <= n -> 0 < 10 ^ n.
Proof. intros. apply Z.pow_pos_nonneg; lia. Qed.

Lemma pow10_38_lt : 10 ^ 38 < 2 ^ 127. Proof. reflexivity. Qed.
Lemma pow10_39_gt : 2 * 2 ^ 127 < 10 ^ 39. Proof. reflexivity. Qed.

Lemma pow10_le_38 n : 0 <= n <= 38 -> 10 ^ n <= 10 ^ 38.
Proof. intros. apply Z.pow_le_mono_r; lia. Qed.
