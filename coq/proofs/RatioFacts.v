(* RatioFacts.v — C09: the binary gcd specialised to powers of ten, the reduced ratio,
   hashing agrees with equality. *)
From FP Require Import Machine SrcConsts Pow10 Ratio RoundSpec Out ArithSpec FloatSpec Run RunMore.
From FP Require Import MachineFacts Pow10Facts OutFacts CmpFacts.
From Coq Require Import Znumtheory.

Local Open Scope Z_scope.

(* ---- trailing zeros ---- *)
Lemma tz_pos_spec p : Zpos p = Zpos p / 2 ^ tz_pos p * 2 ^ tz_pos p /\ Z.odd (Zpos p / 2 ^ tz_pos p) = true /\ 0 <= tz_pos p.
Proof.
  induction p as [p IH|p IH|].
  - cbn [tz_pos]. change (2 ^ 0) with 1. rewrite Z.div_1_r, Z.mul_1_r. repeat split; try reflexivity; try lia.
  - cbn [tz_pos]. destruct IH as (E & O & P).
    assert (Hp : 0 < 2 ^ tz_pos p) by (apply Z.pow_pos_nonneg; lia).
    replace (2 ^ (1 + tz_pos p)) with (2 * 2 ^ tz_pos p) by (rewrite Z.pow_add_r by lia; reflexivity).
    change (Z.pos p~0) with (2 * Z.pos p).
    rewrite Z.div_mul_cancel_l by lia. repeat split; [|exact O|lia].
    rewrite E at 1. ring.
  - cbn. repeat split; try reflexivity; try lia.
Qed.

Lemma tz_spec v : 0 < v ->
  let k := tz 128 v in 0 <= k /\ v = v / 2 ^ k * 2 ^ k /\ Z.odd (v / 2 ^ k) = true.
Proof.
  intros Hv. destruct v as [|p|p]; try lia. cbn [tz]. destruct (tz_pos_spec p) as (E & O & P). auto.
Qed.

Lemma tz_odd v : 0 < v -> Z.odd v = true -> tz 128 v = 0.
Proof. intros Hv Ho. destruct v as [|p|p]; try lia. destruct p; cbn in *; try reflexivity; discriminate. Qed.

Lemma tz_bound v : 0 < v < 2 ^ 127 -> 0 <= tz 128 v < 127.
Proof.
  intros Hv. destruct (tz_spec v ltac:(lia)) as (K0 & E & O). cbv zeta in *. set (k := tz 128 v) in *.
  split; [assumption|]. destruct (Z_lt_le_dec k 127); [assumption|exfalso].
  assert (2 ^ 127 <= 2 ^ k) by (apply Z.pow_le_mono_r; lia).
  assert (1 <= v / 2 ^ k).
  { destruct (Z.eq_dec (v / 2 ^ k) 0) as [Z0|]; [rewrite Z0 in O; discriminate|].
    assert (0 <= v / 2 ^ k) by (apply Z.div_pos; lia). lia. }
  nia.
Qed.

(* ---- gcd with an odd number ignores factors of two ---- *)
Lemma odd_not_div2 u : Z.odd u = true -> forall d, (d | u) -> Z.odd d = true.
Proof.
  intros Ho d [q E]. subst u. rewrite Z.odd_mul in Ho. apply andb_true_iff in Ho. tauto.
Qed.

Lemma gcd_odd_double u w : Z.odd u = true -> Z.gcd u (2 * w) = Z.gcd u w.
Proof.
  intros Ho. apply Z.gcd_unique.
  - apply Z.gcd_nonneg.
  - apply Z.gcd_divide_l.
  - apply Z.divide_mul_r. apply Z.gcd_divide_r.
  - intros q Hu Hw. apply Z.gcd_greatest; [assumption|].
    assert (Hq : Z.odd q = true) by (apply (odd_not_div2 u Ho); assumption).
    apply (Gauss q 2 w); [assumption|].
    apply rel_prime_sym. apply prime_rel_prime; [apply prime_2|].
    intros [t Et]. subst q. rewrite Z.odd_mul in Hq. cbn in Hq. rewrite andb_false_r in Hq. discriminate.
Qed.

Lemma gcd_odd_pow2 u w k : Z.odd u = true -> 0 <= k -> Z.gcd u (w * 2 ^ k) = Z.gcd u w.
Proof.
  intros Ho Hk. revert w. pattern k. apply natlike_ind; [| |assumption].
  - intros w. change (2 ^ 0) with 1. rewrite Z.mul_1_r. reflexivity.
  - intros x Hx IH w. rewrite Z.pow_succ_r by lia.
    replace (w * (2 * 2 ^ x)) with (2 * (w * 2 ^ x)) by ring. rewrite gcd_odd_double by assumption. apply IH.
Qed.

(* ---- the subtraction loop (Stein's algorithm on odd u) ---- *)
Definition gmeasure (u v : Z) : Z :=
  if v =? 0 then 0 else 2 * (Z.log2 u + Z.log2 v) + (if Z.odd v then 2 else 1).

Lemma ck_shr_I128 pf a n : 0 <= n < 128 -> ck_shr pf I128 a n = Val (a / 2 ^ n).
Proof.
  intros Hn. unfold ck_shr. cbn [bits].
  destruct (Z.leb_spec 0 n); [|lia]. destruct (Z.ltb_spec n 128); [|lia]. reflexivity.
Qed.

Lemma gcd_loop_ok pf : forall fuel u v,
  0 < u < 2 ^ 127 -> Z.odd u = true -> 0 <= v < 2 ^ 127 -> gmeasure u v < Z.of_nat fuel ->
  gcd_loop fuel pf u v = Val (Z.gcd u v).
Proof.
  induction fuel as [|f IH]; intros u v Hu Ou Hv Hm.
  { unfold gmeasure in Hm. destruct (v =? 0); [lia|].
    pose proof (Z.log2_nonneg u). pose proof (Z.log2_nonneg v). destruct (Z.odd v); lia. }
  cbn [gcd_loop]. destruct (Z.eqb_spec v 0) as [E0|N0].
  { subst v. rewrite Z.gcd_0_r. f_equal. lia. }
  assert (Hvpos : 0 < v) by lia.
  destruct (tz_spec v Hvpos) as (K0 & Ev & Ow). cbv zeta in *.
  pose proof (tz_bound v ltac:(lia)) as Kb.
  set (k := tz 128 v) in *. set (w := v / 2 ^ k) in *.
  rewrite ck_shr_I128 by lia. cbn [bind]. fold w.
  assert (Hp : 0 < 2 ^ k) by (apply Z.pow_pos_nonneg; lia).
  assert (Hw : 0 < w <= v).
  { assert (0 <= w) by (apply Z.div_pos; lia). destruct (Z.eq_dec w 0) as [W0|]; [rewrite W0 in Ow; discriminate|]. nia. }
  assert (Gw : Z.gcd u v = Z.gcd u w) by (rewrite Ev; apply gcd_odd_pow2; assumption).
  assert (Lw : Z.log2 v = k + Z.log2 w) by (rewrite Ev at 1; apply Z.log2_mul_pow2; lia).
  (* the two orders *)
  assert (Step : forall a b, 0 < a < 2 ^ 127 -> Z.odd a = true -> a <= b -> b < 2 ^ 127 -> Z.odd b = true ->
            Z.log2 a + Z.log2 b <= Z.log2 u + Z.log2 w -> Z.gcd a b = Z.gcd u w ->
            (v3 <- ck_sub pf I128 b a ;; gcd_loop f pf a v3) = Val (Z.gcd u v)).
  { intros a b Ha Oa Hab Hb Ob HL HG.
    unfold ck_sub. rewrite ck_ok by (apply in_I128_iff; lia). cbn [bind].
    rewrite IH; try assumption; try lia.
    - f_equal. rewrite Gw, <- HG. rewrite Z.gcd_sub_diag_r. reflexivity.
    - (* measure decreases *)
      unfold gmeasure in *. destruct (Z.eqb_spec (b - a) 0); [pose proof (Z.log2_nonneg u); pose proof (Z.log2_nonneg v); destruct (Z.eqb_spec v 0); [lia|]; destruct (Z.odd v); lia|].
      destruct (Z.eqb_spec v 0); [lia|].
      assert (Ev3 : Z.odd (b - a) = false).
      { rewrite Z.odd_sub, Oa, Ob. reflexivity. }
      rewrite Ev3.
      assert (Z.log2 (b - a) <= Z.log2 b) by (apply Z.log2_le_mono; lia).
      destruct (Z.odd v) eqn:Ov.
      + lia.
      + (* v even: k >= 1 *)
        assert (k <> 0).
        { intros K. unfold w in Ow. rewrite K in Ow. change (2 ^ 0) with 1 in Ow. rewrite Z.div_1_r in Ow. congruence. }
        lia. }
  destruct (Z.gtb_spec u w) as [G|L].
  - apply Step; try assumption; try lia. rewrite Z.gcd_comm. reflexivity.
  - apply Step; try assumption; try lia.
Qed.

(* ---- gcd_special ---- *)
Lemma gcd_pow2_parts u v a e :
  Z.odd u = true -> Z.odd v = true -> 0 <= a -> 0 <= e ->
  Z.gcd (u * 2 ^ a) (v * 2 ^ e) = Z.gcd u v * 2 ^ Z.min a e.
Proof.
  intros Ou Ov Ha He. destruct (Z_le_gt_dec a e) as [L|G].
  - rewrite Z.min_l by lia.
    replace (v * 2 ^ e) with (v * 2 ^ (e - a) * 2 ^ a) by (rewrite <- Z.mul_assoc, <- Z.pow_add_r by lia; do 2 f_equal; lia).
    rewrite Z.gcd_mul_mono_r_nonneg by (apply Z.pow_nonneg; lia).
    rewrite gcd_odd_pow2 by (assumption || lia). reflexivity.
  - rewrite Z.min_r by lia.
    replace (u * 2 ^ a) with (u * 2 ^ (a - e) * 2 ^ e) by (rewrite <- Z.mul_assoc, <- Z.pow_add_r by lia; do 2 f_equal; lia).
    rewrite Z.gcd_mul_mono_r_nonneg by (apply Z.pow_nonneg; lia).
    rewrite (Z.gcd_comm (u * 2 ^ (a - e)) v). rewrite gcd_odd_pow2 by (assumption || lia).
    rewrite Z.gcd_comm. reflexivity.
Qed.

Lemma pow5_odd e : 0 <= e -> Z.odd (5 ^ e) = true.
Proof.
  intros He. pattern e. apply natlike_ind; [reflexivity| |assumption].
  intros x Hx IH. rewrite Z.pow_succ_r by lia. rewrite Z.odd_mul, IH. reflexivity.
Qed.

Lemma pow10_split25 e : 0 <= e -> 10 ^ e = 5 ^ e * 2 ^ e.
Proof. intros. change 10 with (5 * 2). apply Z.pow_mul_l. Qed.

Lemma log2_pow5_18 e : 0 <= e <= 18 -> Z.log2 (5 ^ e) <= 41.
Proof.
  intros He. assert (5 ^ e <= 5 ^ 18) by (apply Z.pow_le_mono_r; lia).
  assert (0 < 5 ^ e) by (apply Z.pow_pos_nonneg; lia).
  assert (Z.log2 (5 ^ e) <= Z.log2 (5 ^ 18)) by (apply Z.log2_le_mono; lia).
  change (Z.log2 (5 ^ 18)) with 41 in H1. lia.
Qed.

Lemma gcd_special_ok pf c e :
  c <> 0 -> - MAXC <= c <= MAXC -> 0 <= e <= 18 ->
  gcd_special pf c e = Val (Z.gcd c (10 ^ e)).
Proof.
  intros Hc Hr He. rewrite MAXC_val in Hr. unfold gcd_special.
  destruct (Z.eqb_spec c 0); [contradiction|]. cbn [negb assert bind].
  destruct (Z.leb_spec e 38); [|lia]. cbn [assert bind].
  unfold ck_abs. rewrite ck_ok by (apply in_I128_iff; rewrite pow2_127; lia). cbn [bind].
  assert (Ha : 0 < Z.abs c < 2 ^ 127) by (rewrite pow2_127; lia).
  destruct (tz_spec (Z.abs c) ltac:(lia)) as (K0 & Eu & Ou). cbv zeta in *.
  pose proof (tz_bound (Z.abs c) Ha) as Kb.
  set (a := tz 128 (Z.abs c)) in *. set (u := Z.abs c / 2 ^ a) in *.
  rewrite ck_shr_I128 by lia. cbn [bind]. fold u.
  rewrite (cast_id U8 e) by (apply in_range_iff; cbn; lia).
  rewrite ten_pow_ok by lia. cbn [bind].
  rewrite ck_shr_I128 by lia. cbn [bind].
  assert (E5 : 10 ^ e / 2 ^ e = 5 ^ e).
  { rewrite pow10_split25 by lia. apply Z_div_mult. apply Z.lt_gt. apply Z.pow_pos_nonneg; lia. }
  rewrite E5.
  assert (Hp : 0 < 2 ^ a) by (apply Z.pow_pos_nonneg; lia).
  assert (Hu : 0 < u <= Z.abs c).
  { assert (0 <= u) by (apply Z.div_pos; lia). destruct (Z.eq_dec u 0) as [U0|]; [rewrite U0 in Ou; discriminate|]. nia. }
  assert (H5 : 0 < 5 ^ e) by (apply Z.pow_pos_nonneg; lia).
  assert (H5b : 5 ^ e < 2 ^ 127).
  { assert (5 ^ e <= 5 ^ 18) by (apply Z.pow_le_mono_r; lia). apply Z.le_lt_trans with (5 ^ 18); [assumption|reflexivity]. }
  rewrite gcd_loop_ok; try assumption; try lia.
  - cbn [bind].
    assert (G : Z.gcd c (10 ^ e) = Z.gcd u (5 ^ e) * 2 ^ Z.min a e).
    { rewrite <- Z.gcd_abs_l. rewrite Eu at 1. rewrite pow10_split25 by lia.
      apply gcd_pow2_parts; try assumption; try lia. apply pow5_odd. lia. }
    rewrite G.
    assert (Gpos : 0 < Z.gcd u (5 ^ e)).
    { pose proof (Z.gcd_nonneg u (5 ^ e)). destruct (Z.eq_dec (Z.gcd u (5 ^ e)) 0) as [Z0|]; [|lia].
      apply Z.gcd_eq_0_l in Z0. lia. }
    assert (Gle : Z.gcd c (10 ^ e) <= Z.abs c).
    { apply Z.divide_pos_le; [lia|]. rewrite <- (Z.gcd_abs_l c). apply Z.gcd_divide_l. }
    unfold ck_shl. cbn [bits].
    assert (Hmin : 0 <= Z.min a e < 128) by lia.
    destruct (Z.leb_spec 0 (Z.min a e)); [|lia]. destruct (Z.ltb_spec (Z.min a e) 128); [|lia]. cbn [andb].
    rewrite wrap_id; [reflexivity|]. apply in_I128_iff. rewrite <- G. lia.
  - unfold gmeasure. destruct (5 ^ e =? 0); [cbn; lia|].
    assert (Z.log2 u <= 126).
    { assert (Z.log2 u < 127) by (apply Z.log2_lt_pow2; lia). lia. }
    pose proof (log2_pow5_18 e He). pose proof (Z.log2_nonneg u). pose proof (Z.log2_nonneg (5 ^ e)).
    change (Z.of_nat 400) with 400. destruct (Z.odd (5 ^ e)); lia.
Qed.

(* exact truncated division *)
Lemma quot_exact a g : g <> 0 -> (g | a) -> Z.quot a g = a / g.
Proof.
  intros Hg [q E]. subst a. rewrite Z.quot_mul by assumption. rewrite Z_div_mult_full by assumption. reflexivity.
Qed.

Lemma ratio_model_spec pf d : wf d = true -> as_integer_ratio pf d = Val (ratio_spec d).
Proof.
  intros Hd. apply wf_iff in Hd. destruct Hd as [Hc Hp].
  unfold as_integer_ratio, ratio_spec.
  pose proof (pow10_pos (nfd d) ltac:(lia)) as Ht.
  destruct (Z.eqb_spec (nfd d) 0) as [E0|N0]; cbn [orb].
  { rewrite E0. change (10 ^ 0) with 1. rewrite Z.gcd_1_r, !Z.div_1_r. reflexivity. }
  destruct (Z.eqb_spec (coeff d) 0) as [C0|NC].
  { rewrite C0. rewrite Z.gcd_0_l, Z.abs_eq by lia. rewrite Z.div_0_l, Z.div_same by lia. reflexivity. }
  rewrite gcd_special_ok by (assumption || lia). cbn [bind].
  set (g := Z.gcd (coeff d) (10 ^ nfd d)).
  assert (Gpos : 0 < g).
  { pose proof (Z.gcd_nonneg (coeff d) (10 ^ nfd d)). destruct (Z.eq_dec g 0) as [Z0|]; [|unfold g in *; lia].
    apply Z.gcd_eq_0_r in Z0. lia. }
  assert (Gl : g <= Z.abs (coeff d)).
  { apply Z.divide_pos_le; [lia|]. unfold g. rewrite <- (Z.gcd_abs_l (coeff d)). apply Z.gcd_divide_l. }
  rewrite MAXC_val in Hc.
  rewrite t_div_ok by (rewrite ?pow2_127; lia). cbn [bind].
  rewrite ten_pow_ok by lia. cbn [bind].
  rewrite t_div_ok by (rewrite ?pow2_127; lia). cbn [bind].
  rewrite (quot_exact (coeff d) g); [|lia|unfold g; apply Z.gcd_divide_l].
  rewrite (quot_exact (10 ^ nfd d) g); [|lia|unfold g; apply Z.gcd_divide_r].
  reflexivity.
Qed.

(* ---- the specification: the reduced fraction, unique; equal values give equal ratios ---- *)
Lemma ratio_spec_reduced d : 0 <= nfd d ->
  let '(n, m) := ratio_spec d in
  0 < m /\ n * 10 ^ nfd d = coeff d * m /\ Z.gcd n m = 1.
Proof.
  intros Hp. unfold ratio_spec. pose proof (pow10_pos (nfd d) Hp) as Ht.
  set (T := 10 ^ nfd d) in *. set (g := Z.gcd (coeff d) T).
  assert (Gpos : 0 < g).
  { pose proof (Z.gcd_nonneg (coeff d) T). destruct (Z.eq_dec g 0) as [Z0|]; [|unfold g in *; lia].
    apply Z.gcd_eq_0_r in Z0. lia. }
  destruct (Z.gcd_divide_l (coeff d) T) as [n En]. destruct (Z.gcd_divide_r (coeff d) T) as [m Em]. fold g in En, Em.
  assert (Hn : coeff d / g = n) by (rewrite En; apply Z_div_mult; lia).
  assert (Hm : T / g = m) by (rewrite Em; apply Z_div_mult; lia).
  rewrite Hn, Hm. split; [nia|]. split; [rewrite En, Em; ring|].
  rewrite <- Hn, <- Hm. apply Z.gcd_div_gcd; [lia|reflexivity].
Qed.

Lemma reduced_unique a b c d :
  0 < b -> 0 < d -> Z.gcd a b = 1 -> Z.gcd c d = 1 -> a * d = c * b -> a = c /\ b = d.
Proof.
  intros Hb Hd G1 G2 E.
  assert (Dbd : (b | d)).
  { apply (Gauss b a d). - exists c. lia. - apply Zgcd_1_rel_prime. rewrite Z.gcd_comm. exact G1. }
  assert (Ddb : (d | b)).
  { apply (Gauss d c b). - exists a. lia. - apply Zgcd_1_rel_prime. rewrite Z.gcd_comm. exact G2. }
  assert (b = d) by (apply Z.divide_antisym_nonneg; lia || assumption).
  subst d. split; [|reflexivity]. nia.
Qed.

Lemma ratio_value_eq x y : 0 <= nfd x -> 0 <= nfd y -> cmp_spec x y = Eq -> ratio_spec x = ratio_spec y.
Proof.
  intros Hx Hy E. unfold cmp_spec in E. apply Z.compare_eq_iff in E.
  pose proof (ratio_spec_reduced x Hx) as Rx. pose proof (ratio_spec_reduced y Hy) as Ry.
  destruct (ratio_spec x) as [nx mx]. destruct (ratio_spec y) as [ny my].
  destruct Rx as (Mx & Ex & Gx). destruct Ry as (My & Ey & Gy).
  pose proof (pow10_pos (nfd x) Hx) as Tx. pose proof (pow10_pos (nfd y) Hy) as Ty.
  set (A := 10 ^ nfd x) in *. set (B := 10 ^ nfd y) in *.
  assert (K : nx * my = ny * mx).
  { assert (K1 : (nx * my) * (A * B) = (ny * mx) * (A * B)).
    { replace (nx * my * (A * B)) with ((nx * A) * my * B) by ring. rewrite Ex.
      replace (ny * mx * (A * B)) with ((ny * B) * mx * A) by ring. rewrite Ey.
      replace (coeff x * mx * my * B) with ((coeff x * B) * mx * my) by ring. rewrite E. ring. }
    apply Z.mul_reg_r in K1; [exact K1|nia]. }
  destruct (reduced_unique nx mx ny my Mx My Gx Gy K) as [-> ->]. reflexivity.
Qed.

Lemma ratio_acc pf d : wf d = true -> acc_ratio d (run_ratio pf d) = true.
Proof.
  intros Hd. unfold acc_ratio, run_ratio. rewrite ratio_model_spec by assumption.
  destruct (ratio_spec d) as [n m]. cbn. rewrite !Z.eqb_refl. reflexivity.
Qed.

(* equal Decimals feed the same data to any Hasher *)
Lemma hash_agrees_with_eq pf x y : wf x = true -> wf y = true -> cmp_spec x y = Eq ->
  hash_feed pf x = hash_feed pf y.
Proof.
  intros Hx Hy E. unfold hash_feed. rewrite !ratio_model_spec by assumption.
  f_equal. apply wf_iff in Hx. apply wf_iff in Hy. apply ratio_value_eq; lia || assumption.
Qed.
