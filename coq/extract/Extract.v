(* Extract.v — extraction of the executable model and specification to OCaml.
   Only ExtrOcamlBasic is used: bool, option, unit, list, prod, sumbool, sumor
   are mapped to their OCaml counterparts; Z / positive / N stay the extracted
   inductive types (no mapping to machine integers, no Extract Constant). *)
From Coq Require Import Extraction ExtrOcamlBasic.
From FP Require Import Machine SrcConsts Out Run.

Extraction Language OCaml.
Extraction "../ocaml/model.ml"
  dev release all_modes out_eqb
  run_dd acc_dd run_di acc_di run_id acc_id run_ii acc_ii known_K1
  run_un acc_un run_fromint acc_fromint run_fromu128 acc_fromu128
  run_k acc_k.
