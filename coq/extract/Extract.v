(* Extract.v — extraction of the executable model and specification to OCaml.
   Only ExtrOcamlBasic is used: bool, option, unit, list, prod, sumbool, sumor
   are mapped to their OCaml counterparts; Z / positive / N stay the extracted
   inductive types (no mapping to machine integers, no Extract Constant). *)
From Coq Require Import Extraction ExtrOcamlBasic.
From FP Require Import Machine SrcConsts Pow10 RoundSpec Rounding Round ArithSpec.

Extraction Language OCaml.
Extraction "../ocaml/model.ml"
  dev release all_modes
  ten_pow mul_pow_ten checked_mul_pow_ten
  i128_div_mod_floor i128_div_rounded rndq rnd
  dec_round dec_checked_round round_spec.
