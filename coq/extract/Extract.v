(* Extract.v — extraction of the executable model and specification to OCaml.
   Only ExtrOcamlBasic is used: bool, option, unit, list, prod, sumbool, sumor
   are mapped to their OCaml counterparts; Z / positive / N stay the extracted
   inductive types (no mapping to machine integers, no Extract Constant). *)
From Coq Require Import Extraction ExtrOcamlBasic.
From FP Require Import Machine SrcConsts Out Run RunMore Threads.

Extraction Language OCaml.
Extraction "../ocaml/model.ml"
  dev release all_modes out_eqb
  run_dd acc_dd run_di acc_di run_id acc_id run_ii acc_ii known_K1
  run_un acc_un run_fromint acc_fromint run_fromu128 acc_fromu128
  run_k acc_k
  run_str acc_str canon_perr known_str run_tostring acc_tostring run_roundtrip acc_roundtrip
  run_fmt acc_fmt run_fmt_int acc_fmt_int run_tofloat acc_tofloat run_fromfloat acc_fromfloat
  run_ratio acc_ratio run_thr acc_thr.
