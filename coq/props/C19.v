(* C19 — the default rounding mode is per thread and starts as HalfEven. *)
From FP Require Import Machine SrcConsts Threads Out RunMore.
From FP Require Import ThreadsFacts.

(* For ALL histories (any number of threads, any interleaving of set_default,
   default() and rounding operations): the observations of thread t are exactly
   those of t's own events run alone from the initial mode. *)
Theorem C19_per_thread_projection :
  forall pf t h, proj_obs t (trun pf [] h) = trun_single pf INITIAL_MODE (proj_events t h).
Proof. exact per_thread. Qed.
Check C19_per_thread_projection :
  forall pf t h, proj_obs t (trun pf [] h) = trun_single pf INITIAL_MODE (proj_events t h).
Print Assumptions C19_per_thread_projection.

(* the initial value read from the source is RoundHalfEven *)
Theorem C19_initial_mode : INITIAL_MODE = RHalfEven.
Proof. exact initial_mode_is_half_even. Qed.
Check C19_initial_mode : INITIAL_MODE = RHalfEven.
Print Assumptions C19_initial_mode.

(* the oracle applied to the implementation ("mode in effect = last set by the SAME
   thread, HalfEven if none") accepts the model on every history *)
Theorem C19_history_accepted : forall pf h, acc_thr pf h (run_thr pf h) = true.
Proof. exact thr_acc. Qed.
Check C19_history_accepted : forall pf h, acc_thr pf h (run_thr pf h) = true.
Print Assumptions C19_history_accepted.

Example C19_nonvacuous :
  let h := [TSet 0 RUp; TRound 1 (mkdec 25 1) 0; TSet 1 RDown; TRound 0 (mkdec 25 1) 0; TRound 1 (mkdec 25 1) 0; TGet 2] in
  proj_obs 0 (trun dev [] h) = [ObsNone; ObsDec (Val (mkdec 3 0))] /\
  proj_obs 1 (trun dev [] h) = [ObsDec (Val (mkdec 2 0)); ObsNone; ObsDec (Val (mkdec 2 0))] /\
  proj_obs 2 (trun dev [] h) = [ObsMode RHalfEven].
Proof. vm_compute. repeat split. Qed.
