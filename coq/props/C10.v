(* C10 — remainder satisfies the truncated-division identity exactly. *)
From FP Require Import Machine SrcConsts Pow10 Arith IntForms Out ArithSpec Run.
From FP Require Import MachineFacts RemFacts.

(* x % y and checked_rem for every pair of well-formed Decimals: zero divisor ->
   panic / None; otherwise any representation, with at most max(p,q) fractional
   digits, of the truncated remainder of the aligned coefficients; the failure
   signal is accepted only when the dividend has fewer fractional digits than the
   divisor and cannot be re-expressed in the i128 range; checked_rem never panics *)
Theorem C10_rem_accepted :
  forall pf m x y, wf x = true -> wf y = true ->
    acc_dd m Brem x y 0 (run_dd pf m Brem x y 0) = true /\
    acc_dd m Bcrem x y 0 (run_dd pf m Bcrem x y 0) = true.
Proof. exact rem_all_acc. Qed.
Check C10_rem_accepted :
  forall pf m x y, wf x = true -> wf y = true ->
    acc_dd m Brem x y 0 (run_dd pf m Brem x y 0) = true /\
    acc_dd m Bcrem x y 0 (run_dd pf m Bcrem x y 0) = true.
Print Assumptions C10_rem_accepted.

(* the general path returns exactly Z.rem of the aligned coefficients at scale max(p,q) *)
Theorem C10_rem_core_exact :
  forall cx px cy py,
    - 2 ^ 127 < cx < 2 ^ 127 -> - 2 ^ 127 < cy < 2 ^ 127 -> cy <> 0 ->
    0 <= px <= 18 -> 0 <= py <= 18 ->
    exists o, rem_core cx px cy py = Val o /\ rem_ok cx px cy py o.
Proof. exact rem_core_spec. Qed.
Check C10_rem_core_exact :
  forall cx px cy py,
    - 2 ^ 127 < cx < 2 ^ 127 -> - 2 ^ 127 < cy < 2 ^ 127 -> cy <> 0 ->
    0 <= px <= 18 -> 0 <= py <= 18 ->
    exists o, rem_core cx px cy py = Val o /\ rem_ok cx px cy py o.
Print Assumptions C10_rem_core_exact.

(* integer operands on either side (every value of the nine types except i128::MIN,
   which is outside Decimal's range) *)
Theorem C10_integer_operands :
  forall pf m t d i, wf d = true -> - MAXC <= i <= MAXC ->
    acc_di m Brem d i 0 (run_di pf m Brem t d i 0) = true /\
    acc_di m Bcrem d i 0 (run_di pf m Bcrem t d i 0) = true /\
    acc_id m Brem i d 0 (run_id pf m Brem t i d 0) = true /\
    acc_id m Bcrem i d 0 (run_id pf m Bcrem t i d 0) = true.
Proof. exact rem_int_acc. Qed.
Check C10_integer_operands :
  forall pf m t d i, wf d = true -> - MAXC <= i <= MAXC ->
    acc_di m Brem d i 0 (run_di pf m Brem t d i 0) = true /\
    acc_di m Bcrem d i 0 (run_di pf m Bcrem t d i 0) = true /\
    acc_id m Brem i d 0 (run_id pf m Brem t i d 0) = true /\
    acc_id m Bcrem i d 0 (run_id pf m Bcrem t i d 0) = true.
Print Assumptions C10_integer_operands.

(* the specification's remainder is THE r with x = y*t + r, |r| < |y|, r zero or of the sign of x *)
Theorem C10_truncated_remainder_unique :
  forall x b r q, b <> 0 -> x = b * q + r -> Z.abs r < Z.abs b -> 0 <= r * x -> r = Z.rem x b.
Proof. exact rem_char. Qed.
Check C10_truncated_remainder_unique :
  forall x b r q, b <> 0 -> x = b * q + r -> Z.abs r < Z.abs b -> 0 <= r * x -> r = Z.rem x b.
Print Assumptions C10_truncated_remainder_unique.

Example C10_nonvacuous :
  wf (mkdec (- (MAXC / 30)) 1) = true /\ wf (mkdec (MAXC / 500) 3) = true /\
  dec_rem (mkdec (- (MAXC / 30)) 1) (mkdec (MAXC / 500) 3) = Val (mkdec (-226854911280625642308916404954512874) 3) /\
  dec_checked_rem (mkdec (MAXC - 5) 0) (mkdec MAXC 1) = Val None /\
  dec_rem (mkdec 7 0) (mkdec 0 5) = Panic.
Proof. vm_compute. repeat split. Qed.

(* ---- the Decimal-level functions as translated from /repo's current source (gen/GenDec.v) ---- *)
From FP Require Import GenDec GenTieDecRem.

Theorem C10_source_rem_accepted :
  forall pf m x y, wf x = true -> wf y = true ->
    acc_dd m Brem x y 0 (out_dec (g_Rem_rem pf x y)) = true /\
    acc_dd m Bcrem x y 0 (out_odec (g_CheckedRem_checked_rem pf x y)) = true.
Proof. exact src_rem_acc. Qed.
Check C10_source_rem_accepted :
  forall pf m x y, wf x = true -> wf y = true ->
    acc_dd m Brem x y 0 (out_dec (g_Rem_rem pf x y)) = true /\
    acc_dd m Bcrem x y 0 (out_odec (g_CheckedRem_checked_rem pf x y)) = true.
Print Assumptions C10_source_rem_accepted.
