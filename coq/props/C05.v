(* C05 — round / checked_round implement all eight rounding modes exactly.
   Property theorems only: each is closed by [exact] of a lemma proved in
   coq/proofs, pinned by [Check], and followed by [Print Assumptions]. *)
From FP Require Import Machine SrcConsts Pow10 RoundSpec Rounding Round Out ArithSpec Run.
From FP Require Import MachineFacts RoundSpecFacts RoundingFacts RoundFacts RoundMeaning.

(* Decimal::round and Decimal::checked_round equal the specification [round_spec]
   (the multiple of 10^-n selected by the mode, for negative n as well; failure
   signal exactly when that value is not representable) — for every build
   profile, every mode, every well-formed Decimal and every i8 argument. *)
Theorem C05_round_equals_spec :
  forall pf m d n, wf d = true -> -128 <= n <= 127 ->
    dec_round pf m d n = sig (round_spec m d n) /\
    dec_checked_round pf m d n = Val (round_spec m d n).
Proof. exact dec_round_both. Qed.
Check C05_round_equals_spec :
  forall pf m d n, wf d = true -> -128 <= n <= 127 ->
    dec_round pf m d n = sig (round_spec m d n) /\
    dec_checked_round pf m d n = Val (round_spec m d n).
Print Assumptions C05_round_equals_spec.

(* the same on observable outcomes: the oracle the check applies to the
   implementation accepts the model, in particular checked_round never panics *)
Theorem C05_round_accepted :
  forall pf m d n, wf d = true -> -128 <= n <= 127 ->
    acc_un m Uround d n (run_un pf m Uround d n) = true /\
    acc_un m Ucround d n (run_un pf m Ucround d n) = true.
Proof. exact round_acc. Qed.
Check C05_round_accepted :
  forall pf m d n, wf d = true -> -128 <= n <= 127 ->
    acc_un m Uround d n (run_un pf m Uround d n) = true /\
    acc_un m Ucround d n (run_un pf m Ucround d n) = true.
Print Assumptions C05_round_accepted.

(* the integer rounding kernel, for every dividend and every non-zero divisor *)
Theorem C05_kernel :
  forall pf m n d, - MAXC <= n <= MAXC -> - MAXC <= d <= MAXC -> d <> 0 ->
    i128_div_rounded pf n d m = Val (rndq m n d).
Proof. exact i128_div_rounded_ok. Qed.
Check C05_kernel :
  forall pf m n d, - MAXC <= n <= MAXC -> - MAXC <= d <= MAXC -> d <> 0 ->
    i128_div_rounded pf n d m = Val (rndq m n d).
Print Assumptions C05_kernel.

(* the specification itself, re-expressed on the floor quotient and remainder
   (the class table of the quantifier: sign of quotient, parity / mod 5 of the
   quotient, remainder <, =, > half, remainder 0) *)
Theorem C05_rnd_class_table :
  forall m q r d, 0 < d -> 0 <= r < d -> rnd m (q * d + r) d = rnd_floor m q r d.
Proof. exact rnd_floor_eq. Qed.
Check C05_rnd_class_table :
  forall m q r d, 0 < d -> 0 <= r < d -> rnd m (q * d + r) d = rnd_floor m q r d.
Print Assumptions C05_rnd_class_table.

(* what the specification's eight modes mean, stated on the exact quotient n / d without reference to
   how rnd is computed (the specification is trusted: these let a reader check it against the
   documentation of the modes) *)
Theorem C05_modes_meaning :
  forall n d, 0 < d ->
    (rnd RFloor n d * d <= n < (rnd RFloor n d + 1) * d) /\
    ((rnd RCeiling n d - 1) * d < n <= rnd RCeiling n d * d) /\
    (Z.abs (rnd RDown n d * d) <= Z.abs n /\ Z.abs (n - rnd RDown n d * d) < d) /\
    (Z.abs n <= Z.abs (rnd RUp n d * d) /\ Z.abs (n - rnd RUp n d * d) < d) /\
    (2 * Z.abs (n - rnd RHalfUp n d * d) <= d /\
     (2 * Z.abs (n - rnd RHalfUp n d * d) = d -> Z.abs n < Z.abs (rnd RHalfUp n d * d))) /\
    (2 * Z.abs (n - rnd RHalfDown n d * d) <= d /\
     (2 * Z.abs (n - rnd RHalfDown n d * d) = d -> Z.abs (rnd RHalfDown n d * d) < Z.abs n)) /\
    (2 * Z.abs (n - rnd RHalfEven n d * d) <= d /\
     (2 * Z.abs (n - rnd RHalfEven n d * d) = d -> Z.even (rnd RHalfEven n d) = true)) /\
    (rnd R05Up n d = if Z.rem n d =? 0 then Z.quot n d
                     else if Z.rem (Z.quot n d) 5 =? 0 then Z.quot n d + Z.sgn n else Z.quot n d).
Proof.
  intros n d Hd.
  refine (conj (floor_meaning n d Hd) (conj (ceiling_meaning n d Hd) (conj (down_meaning n d Hd) (conj (up_meaning n d Hd)
    (conj (conj (half_modes_nearest RHalfUp n d Hd (or_introl eq_refl)) (half_up_tie n d Hd))
    (conj (conj (half_modes_nearest RHalfDown n d Hd (or_intror (or_introl eq_refl))) (half_down_tie n d Hd))
    (conj (conj (half_modes_nearest RHalfEven n d Hd (or_intror (or_intror eq_refl))) (half_even_tie n d Hd))
          (r05up_meaning n d Hd)))))))).
Qed.
Print Assumptions C05_modes_meaning.

Theorem C05_every_mode_adjacent_and_exact :
  forall m n d, 0 < d -> Z.abs (n - rnd m n d * d) < d /\ (n mod d = 0 -> rnd m n d * d = n).
Proof. exact rnd_adjacent. Qed.
Check C05_every_mode_adjacent_and_exact :
  forall m n d, 0 < d -> Z.abs (n - rnd m n d * d) < d /\ (n mod d = 0 -> rnd m n d * d = n).
Print Assumptions C05_every_mode_adjacent_and_exact.

(* non-vacuity: a concrete tie, negative, negative n, non-default mode *)
Example C05_nonvacuous :
  wf (mkdec (-12350) 1) = true /\
  dec_round dev RHalfEven (mkdec (-12350) 1) (-1) = Val (mkdec (-1240) 0) /\
  dec_round release RUp (mkdec 1 18) (-21) = Val (mkdec (10 ^ 21) 0) /\
  dec_checked_round dev RHalfUp (mkdec MAXC 0) (-3) = Val None.
Proof. vm_compute. repeat split. Qed.

(* ---- the same kernel facts about the functions translated from /repo's current source (gen/GenCore.v,
   regenerated by tools/rs2v.py on every run; tie lemmas in proofs/GenTie*.v) ---- *)
From FP Require Import GenCore GenTieRound.

Theorem C05_source_kernel :
  forall pf dflt om n d, - MAXC <= n <= MAXC -> - MAXC <= d <= MAXC -> d <> 0 ->
    g_i128_div_rounded pf dflt n d om = Val (rndq (or_default dflt om) n d).
Proof. exact src_div_rounded. Qed.
Check C05_source_kernel :
  forall pf dflt om n d, - MAXC <= n <= MAXC -> - MAXC <= d <= MAXC -> d <> 0 ->
    g_i128_div_rounded pf dflt n d om = Val (rndq (or_default dflt om) n d).
Print Assumptions C05_source_kernel.

(* ---- the Decimal-level functions as translated from /repo's current source (gen/GenDec.v): the translated
   function's outcome is accepted by the specification, for all well-formed operands ---- *)
From FP Require Import GenDec GenTieDecRound.

Theorem C05_source_round_accepted :
  forall pf m d n, wf d = true -> -128 <= n <= 127 ->
    acc_un m Uround d n (out_dec (g_Round_round pf m d n)) = true /\
    acc_un m Ucround d n (out_odec (g_Round_checked_round pf m d n)) = true.
Proof. exact src_round_acc. Qed.
Check C05_source_round_accepted :
  forall pf m d n, wf d = true -> -128 <= n <= 127 ->
    acc_un m Uround d n (out_dec (g_Round_round pf m d n)) = true /\
    acc_un m Ucround d n (out_odec (g_Round_checked_round pf m d n)) = true.
Print Assumptions C05_source_round_accepted.
