(* C16 — results stay correct when intermediates exceed 128 bits. *)
From FP Require Import Machine SrcConsts Pow10 WideDiv Rounding RoundSpec Out ArithSpec Run.
From FP Require Import MachineFacts KernelContract WideMulFacts WideDivFacts MulFacts DivFacts KernelAcc.

(* 128 x 128 -> 256 bit product: exact, no internal overflow, every profile *)
Theorem C16_wide_product :
  forall pf x y, 0 <= x < 2 ^ 128 -> 0 <= y < 2 ^ 128 ->
    u128_mul_u128 pf x y = Val ((x * y) / 2 ^ 128, (x * y) mod 2 ^ 128).
Proof. exact u128_mul_u128_ok. Qed.
Check C16_wide_product :
  forall pf x y, 0 <= x < 2 ^ 128 -> 0 <= y < 2 ^ 128 ->
    u128_mul_u128 pf x y = Val ((x * y) / 2 ^ 128, (x * y) mod 2 ^ 128).
Print Assumptions C16_wide_product.

(* 256 / 128 bit division, every dividend and every divisor >= 1: quotient and
   remainder of the exact division (one-word divisor: schoolbook; two-word divisor:
   normalise, two quotient digits by the Hacker's-Delight / Knuth-D step WITHOUT
   add-back - the omission is justified by this theorem) *)
Theorem C16_wide_division :
  forall pf xh xl y, 0 <= xh < 2 ^ 128 -> 0 <= xl < 2 ^ 128 -> 0 < y < 2 ^ 128 ->
    exists qh ql r, u256_idiv_u128 pf xh xl y = Val (qh, ql, r) /\
      0 <= qh < 2 ^ 128 /\ 0 <= ql < 2 ^ 128 /\
      qh * 2 ^ 128 + ql = (xh * 2 ^ 128 + xl) / y /\ r = (xh * 2 ^ 128 + xl) mod y.
Proof. exact u256_idiv_u128_ok. Qed.
Check C16_wide_division :
  forall pf xh xl y, 0 <= xh < 2 ^ 128 -> 0 <= xl < 2 ^ 128 -> 0 < y < 2 ^ 128 ->
    exists qh ql r, u256_idiv_u128 pf xh xl y = Val (qh, ql, r) /\
      0 <= qh < 2 ^ 128 /\ 0 <= ql < 2 ^ 128 /\
      qh * 2 ^ 128 + ql = (xh * 2 ^ 128 + xl) / y /\ r = (xh * 2 ^ 128 + xl) mod y.
Print Assumptions C16_wide_division.

(* the quotient-digit correction loop returns the true digit within its fuel *)
Theorem C16_quotient_digit :
  forall pf B (HB : B = B64) yn1 yn0 hi x,
    0 <= yn0 < B -> B <= 2 * yn1 -> yn1 < B -> 0 <= hi < yn1 * B + yn0 -> 0 <= x < B ->
    forall fuel q rhat,
      q * yn1 + rhat = hi -> 0 <= rhat < B ->
      (hi * B + x) / (yn1 * B + yn0) <= q -> q - (hi * B + x) / (yn1 * B + yn0) < Z.of_nat fuel ->
      q <= (hi * B + x) / (yn1 * B + yn0) + 2 ->
      exists r', corr_loop fuel pf q rhat yn1 yn0 x = Val ((hi * B + x) / (yn1 * B + yn0), r').
Proof. exact corr_loop_ok. Qed.
Check C16_quotient_digit :
  forall pf B (HB : B = B64) yn1 yn0 hi x,
    0 <= yn0 < B -> B <= 2 * yn1 -> yn1 < B -> 0 <= hi < yn1 * B + yn0 -> 0 <= x < B ->
    forall fuel q rhat,
      q * yn1 + rhat = hi -> 0 <= rhat < B ->
      (hi * B + x) / (yn1 * B + yn0) <= q -> q - (hi * B + x) / (yn1 * B + yn0) < Z.of_nat fuel ->
      q <= (hi * B + x) / (yn1 * B + yn0) + 2 ->
      exists r', corr_loop fuel pf q rhat yn1 yn0 x = Val ((hi * B + x) / (yn1 * B + yn0), r').
Print Assumptions C16_quotient_digit.

(* a * 10^k = q * m + r and a * b = q * m + r with 0 <= r < m for every positive m,
   or the report that |q| exceeds the i128 range - every sign combination, also
   when the division is exact *)
Theorem C16_shifted_div_mod_floor : sdmf_contract.
Proof. exact sdmf_contract_holds. Qed.
Check C16_shifted_div_mod_floor :
  forall pf a k m, - MAXC <= a <= MAXC -> 0 <= k <= 38 -> 0 < m <= MAXC ->
    exists o, i128_shifted_div_mod_floor pf a k m = Val o /\ floor_ok (a * 10 ^ k) m o.
Print Assumptions C16_shifted_div_mod_floor.

Theorem C16_i256_div_mod_floor : i256_contract.
Proof. exact i256_contract_holds. Qed.
Check C16_i256_div_mod_floor :
  forall pf a b m, - MAXC <= a <= MAXC -> - MAXC <= b <= MAXC -> 0 < m <= MAXC ->
    exists o, i256_div_mod_floor pf a b m = Val o /\ floor_ok (a * b) m o.
Print Assumptions C16_i256_div_mod_floor.

(* the rounded wrappers on top *)
Theorem C16_shifted_div_rounded :
  forall pf m a k d, - MAXC <= a <= MAXC -> 0 <= k <= 38 -> d <> 0 -> - MAXC <= d <= MAXC ->
    exists o, i128_shifted_div_rounded pf a k d m = Val o /\ rounded_ok (rndq m (a * 10 ^ k) d) o.
Proof. exact (sdr_ok sdmf_contract_holds). Qed.
Check C16_shifted_div_rounded :
  forall pf m a k d, - MAXC <= a <= MAXC -> 0 <= k <= 38 -> d <> 0 -> - MAXC <= d <= MAXC ->
    exists o, i128_shifted_div_rounded pf a k d m = Val o /\ rounded_ok (rndq m (a * 10 ^ k) d) o.
Print Assumptions C16_shifted_div_rounded.

Theorem C16_msb : forall pf i, 0 < i < 2 ^ 128 -> u128_msb pf i = Val (Z.log2 i).
Proof. exact u128_msb_ok. Qed.
Check C16_msb : forall pf i, 0 < i < 2 ^ 128 -> u128_msb pf i = Val (Z.log2 i).
Print Assumptions C16_msb.

(* every kernel-level oracle predicate the correspondence driver applies to the implementation
   (protocol lines w.*: the public kernels and the private ones behind the cfg(fpdec_verif) hooks:
   128x128 product, 256/64, 256/128 general and special case, msb, the 17-bit log10 kernel, the two
   SWAR helpers) holds of the model on the kernel's whole domain, in every profile and mode *)
Theorem C16_kernel_oracles_hold :
  forall pf m op a b c, kdom op a b c -> acc_k m op a b c (run_k pf m op a b c) = true.
Proof. exact kernel_acc. Qed.
Check C16_kernel_oracles_hold :
  forall pf m op a b c, kdom op a b c -> acc_k m op a b c (run_k pf m op a b c) = true.
Print Assumptions C16_kernel_oracles_hold.

Example C16_nonvacuous :
  i256_div_mod_floor dev (- 10 ^ 21) (10 ^ 18) (10 ^ 19) = Val (Some (- 10 ^ 20, 0)) /\
  i128_shifted_div_mod_floor release (- (2 * 10 ^ 20)) 18 3 = Val (Some (- 66666666666666666666666666666666666667, 1)) /\
  (exists r, u256_idiv_u128 dev 5 7 (2 ^ 65 + 3) = Val (0, (5 * 2 ^ 128 + 7) / (2 ^ 65 + 3), r)) /\
  i256_div_mod_floor dev MAXC MAXC 1 = Val None.
Proof. vm_compute. repeat split. eexists. reflexivity. Qed.

(* ---- the same kernel facts about the functions translated from /repo's current source (gen/GenCore.v,
   regenerated by tools/rs2v.py on every run; tie lemmas in proofs/GenTie*.v) ---- *)
From FP Require Import GenCore GenTieWide.

Theorem C16_source_wide_product :
  forall pf x y, 0 <= x < 2 ^ 128 -> 0 <= y < 2 ^ 128 ->
    g_u128_mul_u128 pf x y = Val ((x * y) / 2 ^ 128, (x * y) mod 2 ^ 128).
Proof. exact src_wide_product. Qed.
Check C16_source_wide_product :
  forall pf x y, 0 <= x < 2 ^ 128 -> 0 <= y < 2 ^ 128 ->
    g_u128_mul_u128 pf x y = Val ((x * y) / 2 ^ 128, (x * y) mod 2 ^ 128).
Print Assumptions C16_source_wide_product.

Theorem C16_source_wide_division :
  forall pf xh xl y, 0 <= xh < 2 ^ 128 -> 0 <= xl < 2 ^ 128 -> 0 < y < 2 ^ 128 ->
    exists qh ql r, g_u256_idiv_u128 pf xh xl y = Val (qh, ql, r) /\
      0 <= qh < 2 ^ 128 /\ 0 <= ql < 2 ^ 128 /\
      qh * 2 ^ 128 + ql = (xh * 2 ^ 128 + xl) / y /\ r = (xh * 2 ^ 128 + xl) mod y.
Proof. exact src_wide_division. Qed.
Check C16_source_wide_division :
  forall pf xh xl y, 0 <= xh < 2 ^ 128 -> 0 <= xl < 2 ^ 128 -> 0 < y < 2 ^ 128 ->
    exists qh ql r, g_u256_idiv_u128 pf xh xl y = Val (qh, ql, r) /\
      0 <= qh < 2 ^ 128 /\ 0 <= ql < 2 ^ 128 /\
      qh * 2 ^ 128 + ql = (xh * 2 ^ 128 + xl) / y /\ r = (xh * 2 ^ 128 + xl) mod y.
Print Assumptions C16_source_wide_division.

Theorem C16_source_msb :
  forall pf i, 0 < i < 2 ^ 128 -> g_u128_msb pf i = Val (Z.log2 i).
Proof. exact src_msb. Qed.
Check C16_source_msb :
  forall pf i, 0 < i < 2 ^ 128 -> g_u128_msb pf i = Val (Z.log2 i).
Print Assumptions C16_source_msb.

Theorem C16_source_shifted_div_mod_floor :
  forall pf a k m, - MAXC <= a <= MAXC -> 0 <= k <= 38 -> 0 < m <= MAXC ->
    exists o, g_i128_shifted_div_mod_floor pf a k m = Val o /\ floor_ok (a * 10 ^ k) m o.
Proof. exact src_shifted_div_mod_floor. Qed.
Check C16_source_shifted_div_mod_floor :
  forall pf a k m, - MAXC <= a <= MAXC -> 0 <= k <= 38 -> 0 < m <= MAXC ->
    exists o, g_i128_shifted_div_mod_floor pf a k m = Val o /\ floor_ok (a * 10 ^ k) m o.
Print Assumptions C16_source_shifted_div_mod_floor.

Theorem C16_source_i256_div_mod_floor :
  forall pf a b m, - MAXC <= a <= MAXC -> - MAXC <= b <= MAXC -> 0 < m <= MAXC ->
    exists o, g_i256_div_mod_floor pf a b m = Val o /\ floor_ok (a * b) m o.
Proof. exact src_i256_div_mod_floor. Qed.
Check C16_source_i256_div_mod_floor :
  forall pf a b m, - MAXC <= a <= MAXC -> - MAXC <= b <= MAXC -> 0 < m <= MAXC ->
    exists o, g_i256_div_mod_floor pf a b m = Val o /\ floor_ok (a * b) m o.
Print Assumptions C16_source_i256_div_mod_floor.
