(* C12 (specification side) — the bit pattern prescribed by FloatSpec.to_float_spec, decoded by
   FloatSpec.float_value, is Flocq's IEEE-754 rounding (radix 2, FLT format with the format's
   precision and minimal exponent, round to nearest, ties to even) of the exact decimal value,
   with the sign of the Decimal.  Together with C12_to_float_equals_spec (props/C12.v, no axioms)
   this ties f64::from / f32::from to an independent formalisation of the standard.
   This file depends on Coq's real numbers and on Flocq: its theorems rest on the axioms
   ClassicalDedekindReals.sig_forall_dec and FunctionalExtensionality.functional_extensionality_dep
   (both declared by Coq's standard library; allow-listed by name in tools/check.py). *)
From Coq Require Import ZArith Reals.
From Flocq Require Import Core.
From FP Require Import Machine RoundSpec FloatSpec FromFloatFacts FlocqBridge.

Theorem C12_spec_is_flocq_round :
  forall W F B E is64 d,
    fmt_ok W F B E is64 -> wf d = true -> coeff d <> 0%Z ->
    let f := mksffmt W F B in
    let v := float_value f (to_float_spec f d) in
    (IZR (fst v) / IZR (snd v) =
     (if (coeff d <? 0)%Z then -1 else 1) *
     round radix2 (FLT_exp (1 - B - F) (F + 1)) ZnearestE (IZR (Z.abs (coeff d)) / IZR (10 ^ nfd d)))%R.
Proof. exact spec_decodes_to_flocq_round. Qed.
Check C12_spec_is_flocq_round :
  forall W F B E is64 d,
    fmt_ok W F B E is64 -> wf d = true -> coeff d <> 0%Z ->
    let f := mksffmt W F B in
    let v := float_value f (to_float_spec f d) in
    (IZR (fst v) / IZR (snd v) =
     (if (coeff d <? 0)%Z then -1 else 1) *
     round radix2 (FLT_exp (1 - B - F) (F + 1)) ZnearestE (IZR (Z.abs (coeff d)) / IZR (10 ^ nfd d)))%R.
Print Assumptions C12_spec_is_flocq_round.

(* half-to-even rounding of a rational: Flocq's choice function and the specification's rnd agree *)
Theorem C12_rounding_is_flocq_ZnearestE :
  forall N D : Z, (0 < D)%Z -> ZnearestE (IZR N / IZR D) = rnd RHalfEven N D.
Proof. exact ZnearestE_rational. Qed.
Check C12_rounding_is_flocq_ZnearestE :
  forall N D : Z, (0 < D)%Z -> ZnearestE (IZR N / IZR D) = rnd RHalfEven N D.
Print Assumptions C12_rounding_is_flocq_ZnearestE.
