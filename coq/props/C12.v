(* C12 — Decimal to f64/f32 conversion is correctly rounded. *)
From FP Require Import Machine SrcConsts Pow10 Arith Floats RoundSpec Out ArithSpec FloatSpec Run RunMore.
From FP Require Import MachineFacts FromFloatFacts ToFloatFacts.

(* For every well-formed Decimal (|coefficient| <= 2^127-1, 0..18 fractional digits, in
   any representation) and every build profile, f64::from(d) and f32::from(d) return -
   without panicking - the bit pattern the specification prescribes: +0.0 for zero,
   otherwise sign, the exponent e with 2^frac <= floor(|d| / 2^e) < 2^(frac+1), and the
   significand RoundHalfEven(|d| / 2^e), a carry moving to the next binade *)
Theorem C12_to_float_equals_spec :
  forall pf is64 d, wf d = true -> acc_tofloat is64 d (run_tofloat pf is64 d) = true.
Proof. exact to_float_acc. Qed.
Check C12_to_float_equals_spec :
  forall pf is64 d, wf d = true -> acc_tofloat is64 d (run_tofloat pf is64 d) = true.
Print Assumptions C12_to_float_equals_spec.

Theorem C12_f64 :
  forall pf d, wf d = true -> dec_to_float pf F64 d = Val (to_float_spec SF64 d).
Proof. intros pf d H. exact (dec_to_float_ok pf 64 52 1023 11 true d fmt_ok_64 eq_refl H). Qed.
Check C12_f64 :
  forall pf d, wf d = true -> dec_to_float pf F64 d = Val (to_float_spec SF64 d).
Print Assumptions C12_f64.

Theorem C12_f32 :
  forall pf d, wf d = true -> dec_to_float pf F32 d = Val (to_float_spec SF32 d).
Proof. intros pf d H. exact (dec_to_float_ok pf 32 23 127 8 false d fmt_ok_32 eq_refl H). Qed.
Check C12_f32 :
  forall pf d, wf d = true -> dec_to_float pf F32 d = Val (to_float_spec SF32 d).
Print Assumptions C12_f32.

(* the three guard bits (two when the quotient has one bit less) and the sticky bit
   decide exactly as RoundHalfEven on the exact quotient *)
Theorem C12_guard_and_sticky_bits :
  forall adj signif g rem den',
    (adj = 0 \/ adj = 1) -> 0 <= g < 2 ^ (3 - adj) -> 0 <= rem < den' ->
    signif + (if (Z.lor (g * 2 ^ adj) (if rem =? 0 then 0 else 1) >? 4) ||
                 ((Z.lor (g * 2 ^ adj) (if rem =? 0 then 0 else 1) =? 4) && (Z.land signif 1 =? 1))
              then 1 else 0)
    = rnd RHalfEven ((signif * 2 ^ (3 - adj) + g) * den' + rem) (den' * 2 ^ (3 - adj)).
Proof. exact guard_round. Qed.
Check C12_guard_and_sticky_bits :
  forall adj signif g rem den',
    (adj = 0 \/ adj = 1) -> 0 <= g < 2 ^ (3 - adj) -> 0 <= rem < den' ->
    signif + (if (Z.lor (g * 2 ^ adj) (if rem =? 0 then 0 else 1) >? 4) ||
                 ((Z.lor (g * 2 ^ adj) (if rem =? 0 then 0 else 1) =? 4) && (Z.land signif 1 =? 1))
              then 1 else 0)
    = rnd RHalfEven ((signif * 2 ^ (3 - adj) + g) * den' + rem) (den' * 2 ^ (3 - adj)).
Print Assumptions C12_guard_and_sticky_bits.

(* the specification's exponent search finds the unique bracketing exponent *)
Theorem C12_spec_exponent :
  forall f neg num den e0, 0 < den -> 0 <= num -> 0 <= sf_frac f ->
    2 ^ sf_frac f <= q_floor num den e0 < 2 ^ (sf_frac f + 1) -> - 260 < e0 <= 140 ->
    nearest_float_bits f neg num den = enc f neg e0 num den.
Proof. exact nearest_enc. Qed.
Check C12_spec_exponent :
  forall f neg num den e0, 0 < den -> 0 <= num -> 0 <= sf_frac f ->
    2 ^ sf_frac f <= q_floor num den e0 < 2 ^ (sf_frac f + 1) -> - 260 < e0 <= 140 ->
    nearest_float_bits f neg num den = enc f neg e0 num den.
Print Assumptions C12_spec_exponent.

(* and its significand is a nearest integer to the scaled value, the even one on a tie *)
Theorem C12_spec_nearest_even :
  forall N D, 0 < D ->
    let m := rnd RHalfEven N D in
    2 * Z.abs (N - m * D) <= D /\ (2 * Z.abs (N - m * D) = D -> Z.even m = true).
Proof. exact rnd_he_nearest. Qed.
Check C12_spec_nearest_even :
  forall N D, 0 < D ->
    let m := rnd RHalfEven N D in
    2 * Z.abs (N - m * D) <= D /\ (2 * Z.abs (N - m * D) = D -> Z.even m = true).
Print Assumptions C12_spec_nearest_even.

(* the model of the primitive cast agrees with the same specification *)
Theorem C12_integer_cast_model :
  forall W F B is64 neg num, 23 <= F <= 52 -> 0 < num <= 2 ^ 127 ->
    rne_bits (mkffmt W F B is64) neg num 1 = nearest_float_bits (mksffmt W F B) neg num 1.
Proof. exact rne_bits_ok. Qed.
Check C12_integer_cast_model :
  forall W F B is64 neg num, 23 <= F <= 52 -> 0 < num <= 2 ^ 127 ->
    rne_bits (mkffmt W F B is64) neg num 1 = nearest_float_bits (mksffmt W F B) neg num 1.
Print Assumptions C12_integer_cast_model.

(* 0.1 -> 0x3FB999999999999A; 0.010101010101010101 (issue #13); -0.5 exactly; the
   midpoint 1 + 2^-53 = 1.00000000000000011102230246251565404236316680908203125 has
   more than 18 digits, so take 2^53 + 1 scaled: 9007199254740993 / 10 ties to even;
   non-normalised zero; f32 of 16777217 / 10^0 goes through the cast *)
Example C12_nonvacuous :
  dec_to_float dev F64 (mkdec 1 1) = Val 4591870180066957722 /\
  dec_to_float dev F64 (mkdec 10101010101010101 18) = Val 4576976457662906202 /\
  dec_to_float release F64 (mkdec (-5) 1) = Val (2 ^ 63 + Z.shiftl 1022 52) /\
  dec_to_float dev F64 (mkdec 90071992547409930 1) = Val (Z.shiftl (1023 + 53) 52) /\
  dec_to_float dev F64 (mkdec 90071992547409950 1) = Val (Z.shiftl (1023 + 53) 52 + 2) /\
  dec_to_float dev F64 (mkdec 0 7) = Val 0 /\
  dec_to_float dev F32 (mkdec 16777217 0) = Val (Z.shiftl (127 + 24) 23) /\
  dec_to_float dev F32 (mkdec 1 1) = Val 1036831949.
Proof. vm_compute. repeat split. Qed.
