(* C17 — all operand forms of an operator compute the same function.
   The theorems relate the separately written integer-operand bodies to the
   Decimal/Decimal bodies.  The by-reference and compound-assignment forwarders have
   no counterpart in Gallina; that half is the exhaustive enumeration of the finite set
   of trait implementations on the implementation (harness `frm.` operations). *)
From FP Require Import Machine SrcConsts Pow10 WideDiv Rounding Arith Cmp IntForms RoundSpec Out ArithSpec Run.
From FP Require Import MachineFacts AddSubFacts RemFacts DivFacts FormsFacts.

Theorem C17_add_sub_forms :
  forall sub d i, 0 <= nfd d ->
    di_addsub sub d i = dec_addsub sub d (mkdec i 0) /\
    di_checked_addsub sub d i = dec_checked_addsub sub d (mkdec i 0) /\
    id_addsub sub i d = dec_addsub sub (mkdec i 0) d /\
    id_checked_addsub sub i d = dec_checked_addsub sub (mkdec i 0) d.
Proof.
  intros sub d i H. destruct (di_addsub_eq sub d i H). destruct (id_addsub_eq sub i d H). auto.
Qed.
Check C17_add_sub_forms :
  forall sub d i, 0 <= nfd d ->
    di_addsub sub d i = dec_addsub sub d (mkdec i 0) /\
    di_checked_addsub sub d i = dec_checked_addsub sub d (mkdec i 0) /\
    id_addsub sub i d = dec_addsub sub (mkdec i 0) d /\
    id_checked_addsub sub i d = dec_checked_addsub sub (mkdec i 0) d.
Print Assumptions C17_add_sub_forms.

Theorem C17_div_rem_forms :
  forall pf m d i,
    di_div pf m d i = dec_div pf m d (mkdec i 0) /\ di_checked_div pf m d i = dec_checked_div pf m d (mkdec i 0) /\
    id_div pf m i d = dec_div pf m (mkdec i 0) d /\ id_checked_div pf m i d = dec_checked_div pf m (mkdec i 0) d /\
    di_rem d i = dec_rem d (mkdec i 0) /\ di_checked_rem d i = dec_checked_rem d (mkdec i 0) /\
    id_rem i d = dec_rem (mkdec i 0) d /\ id_checked_rem i d = dec_checked_rem (mkdec i 0) d /\
    id_quantize pf m i d = dec_quantize pf m (mkdec i 0) d.
Proof.
  intros pf m d i. destruct (di_div_eq pf m d i). destruct (id_div_eq pf m i d).
  destruct (di_rem_eq d i). destruct (id_rem_eq i d). pose proof (id_quantize_eq pf m i d). auto 10.
Qed.
Check C17_div_rem_forms :
  forall pf m d i,
    di_div pf m d i = dec_div pf m d (mkdec i 0) /\ di_checked_div pf m d i = dec_checked_div pf m d (mkdec i 0) /\
    id_div pf m i d = dec_div pf m (mkdec i 0) d /\ id_checked_div pf m i d = dec_checked_div pf m (mkdec i 0) d /\
    di_rem d i = dec_rem d (mkdec i 0) /\ di_checked_rem d i = dec_checked_rem d (mkdec i 0) /\
    id_rem i d = dec_rem (mkdec i 0) d /\ id_checked_rem i d = dec_checked_rem (mkdec i 0) d /\
    id_quantize pf m i d = dec_quantize pf m (mkdec i 0) d.
Print Assumptions C17_div_rem_forms.

(* multiplication: same value whenever both return, same failure - except that only the
   Decimal/Decimal form short-cuts an operand equal to one *)
Theorem C17_mul_forms :
  forall pf m d i, wf d = true -> - MAXC <= i <= MAXC ->
    mul_forms_agree (di_mul d i) (dec_mul pf m d (mkdec i 0)) (is_one d || (i =? 1)).
Proof. exact mul_forms. Qed.
Check C17_mul_forms :
  forall pf m d i, wf d = true -> - MAXC <= i <= MAXC ->
    mul_forms_agree (di_mul d i) (dec_mul pf m d (mkdec i 0)) (is_one d || (i =? 1)).
Print Assumptions C17_mul_forms.

(* div_rounded: identical for n <= 18; for n > 18 the forms differ (known finding K1) *)
Theorem C17_div_rounded_forms :
  forall pf m d i n, 0 <= n <= 18 ->
    di_div_rounded pf m d i n = dec_div_rounded pf m d (mkdec i 0) n /\
    id_div_rounded pf m i d n = dec_div_rounded pf m (mkdec i 0) d n.
Proof. exact divr_forms. Qed.
Check C17_div_rounded_forms :
  forall pf m d i n, 0 <= n <= 18 ->
    di_div_rounded pf m d i n = dec_div_rounded pf m d (mkdec i 0) n /\
    id_div_rounded pf m i d n = dec_div_rounded pf m (mkdec i 0) d n.
Print Assumptions C17_div_rounded_forms.

Theorem C17_K1_forms_differ :
  di_div_rounded dev RHalfEven (mkdec 1 0) 3 19 <> dec_div_rounded dev RHalfEven (mkdec 1 0) (mkdec 3 0) 19.
Proof. vm_compute. discriminate. Qed.
Check C17_K1_forms_differ :
  di_div_rounded dev RHalfEven (mkdec 1 0) 3 19 <> dec_div_rounded dev RHalfEven (mkdec 1 0) (mkdec 3 0) 19.
Print Assumptions C17_K1_forms_differ.

Theorem C17_comparison_forms :
  forall t d i, wf d = true -> - MAXC <= i <= MAXC -> (signed t = false -> 0 <= i) ->
    di_partial_cmp t d i = dec_partial_cmp d (mkdec i 0) /\
    id_partial_cmp t i d = dec_partial_cmp (mkdec i 0) d /\
    di_eq t d i = dec_eq d (mkdec i 0).
Proof. exact cmp_forms. Qed.
Check C17_comparison_forms :
  forall t d i, wf d = true -> - MAXC <= i <= MAXC -> (signed t = false -> 0 <= i) ->
    di_partial_cmp t d i = dec_partial_cmp d (mkdec i 0) /\
    id_partial_cmp t i d = dec_partial_cmp (mkdec i 0) d /\
    di_eq t d i = dec_eq d (mkdec i 0).
Print Assumptions C17_comparison_forms.

Example C17_nonvacuous :
  di_mul (mkdec MAXC 0) 1 = Val (mkdec MAXC 0) /\
  di_mul (mkdec (10 ^ 5) 5) MAXC = Panic /\
  dec_mul dev RHalfEven (mkdec (10 ^ 5) 5) (mkdec MAXC 0) = Val (mkdec MAXC 0) /\
  id_partial_cmp I128 MAXC (mkdec 15 1) = dec_partial_cmp (mkdec MAXC 0) (mkdec 15 1).
Proof. vm_compute. repeat split. Qed.

(* ---- the translated source (gen/GenInt.v, gen/GenDec.v): each macro-generated integer-operand form, for every one of the
   nine integer types and both operand orders (src_di_* / src_id_* dispatch on the type tag), computes what the translated
   Decimal/Decimal function computes on the integer converted to a Decimal ---- *)
From FP Require Import GenDec GenInt GenTieIntForms.

Theorem C17_source_add_sub_forms :
  forall t pf d i, In t int_types -> wf d = true -> - MAXC <= i <= MAXC ->
    src_di_add t pf d i = g_Add_add pf d (mkdec i 0) /\ src_id_add t pf i d = g_Add_add pf (mkdec i 0) d /\
    src_di_sub t pf d i = g_Sub_sub pf d (mkdec i 0) /\ src_id_sub t pf i d = g_Sub_sub pf (mkdec i 0) d /\
    src_di_cadd t pf d i = g_CheckedAdd_checked_add pf d (mkdec i 0) /\ src_id_cadd t pf i d = g_CheckedAdd_checked_add pf (mkdec i 0) d /\
    src_di_csub t pf d i = g_CheckedSub_checked_sub pf d (mkdec i 0) /\ src_id_csub t pf i d = g_CheckedSub_checked_sub pf (mkdec i 0) d.
Proof. exact src_addsub_forms. Qed.
Check C17_source_add_sub_forms :
  forall t pf d i, In t int_types -> wf d = true -> - MAXC <= i <= MAXC ->
    src_di_add t pf d i = g_Add_add pf d (mkdec i 0) /\ src_id_add t pf i d = g_Add_add pf (mkdec i 0) d /\
    src_di_sub t pf d i = g_Sub_sub pf d (mkdec i 0) /\ src_id_sub t pf i d = g_Sub_sub pf (mkdec i 0) d /\
    src_di_cadd t pf d i = g_CheckedAdd_checked_add pf d (mkdec i 0) /\ src_id_cadd t pf i d = g_CheckedAdd_checked_add pf (mkdec i 0) d /\
    src_di_csub t pf d i = g_CheckedSub_checked_sub pf d (mkdec i 0) /\ src_id_csub t pf i d = g_CheckedSub_checked_sub pf (mkdec i 0) d.
Print Assumptions C17_source_add_sub_forms.

Theorem C17_source_div_rem_forms :
  forall t pf m d i, In t int_types -> wf d = true -> in_range t i = true -> - MAXC <= i <= MAXC ->
    src_di_div t pf m d i = g_Div_div pf m d (mkdec i 0) /\ src_id_div t pf m i d = g_Div_div pf m (mkdec i 0) d /\
    src_di_cdiv t pf m d i = g_CheckedDiv_checked_div pf m d (mkdec i 0) /\ src_id_cdiv t pf m i d = g_CheckedDiv_checked_div pf m (mkdec i 0) d /\
    src_di_rem t pf d i = g_Rem_rem pf d (mkdec i 0) /\ src_id_rem t pf i d = g_Rem_rem pf (mkdec i 0) d /\
    src_di_crem t pf d i = g_CheckedRem_checked_rem pf d (mkdec i 0) /\ src_id_crem t pf i d = g_CheckedRem_checked_rem pf (mkdec i 0) d.
Proof. exact src_div_rem_forms. Qed.
Check C17_source_div_rem_forms :
  forall t pf m d i, In t int_types -> wf d = true -> in_range t i = true -> - MAXC <= i <= MAXC ->
    src_di_div t pf m d i = g_Div_div pf m d (mkdec i 0) /\ src_id_div t pf m i d = g_Div_div pf m (mkdec i 0) d /\
    src_di_cdiv t pf m d i = g_CheckedDiv_checked_div pf m d (mkdec i 0) /\ src_id_cdiv t pf m i d = g_CheckedDiv_checked_div pf m (mkdec i 0) d /\
    src_di_rem t pf d i = g_Rem_rem pf d (mkdec i 0) /\ src_id_rem t pf i d = g_Rem_rem pf (mkdec i 0) d /\
    src_di_crem t pf d i = g_CheckedRem_checked_rem pf d (mkdec i 0) /\ src_id_crem t pf i d = g_CheckedRem_checked_rem pf (mkdec i 0) d.
Print Assumptions C17_source_div_rem_forms.

Theorem C17_source_comparison_forms :
  forall t pf d i, In t int_types -> wf d = true -> in_range t i = true -> - MAXC <= i <= MAXC ->
    src_di_pcmp t pf d i = g_PartialOrd_partial_cmp pf d (mkdec i 0) /\
    src_id_pcmp t pf i d = g_PartialOrd_partial_cmp pf (mkdec i 0) d.
Proof. exact src_cmp_forms. Qed.
Check C17_source_comparison_forms :
  forall t pf d i, In t int_types -> wf d = true -> in_range t i = true -> - MAXC <= i <= MAXC ->
    src_di_pcmp t pf d i = g_PartialOrd_partial_cmp pf d (mkdec i 0) /\
    src_id_pcmp t pf i d = g_PartialOrd_partial_cmp pf (mkdec i 0) d.
Print Assumptions C17_source_comparison_forms.
