(* C09 — Hash agrees with equality; as_integer_ratio is the reduced fraction. *)
From FP Require Import Machine SrcConsts Pow10 Cmp Ratio Out ArithSpec FloatSpec Run RunMore.
From FP Require Import MachineFacts CmpFacts RatioFacts.

(* the hand-written binary gcd specialised to powers of ten is the gcd *)
Theorem C09_gcd_special :
  forall pf c e, c <> 0 -> - MAXC <= c <= MAXC -> 0 <= e <= 18 ->
    gcd_special pf c e = Val (Z.gcd c (10 ^ e)).
Proof. exact gcd_special_ok. Qed.
Check C09_gcd_special :
  forall pf c e, c <> 0 -> - MAXC <= c <= MAXC -> 0 <= e <= 18 ->
    gcd_special pf c e = Val (Z.gcd c (10 ^ e)).
Print Assumptions C09_gcd_special.

Theorem C09_ratio_model_equals_spec :
  forall pf d, wf d = true -> as_integer_ratio pf d = Val (ratio_spec d).
Proof. exact ratio_model_spec. Qed.
Check C09_ratio_model_equals_spec :
  forall pf d, wf d = true -> as_integer_ratio pf d = Val (ratio_spec d).
Print Assumptions C09_ratio_model_equals_spec.

(* the specification is THE pair n/m with m > 0, n/m = value, gcd(n, m) = 1 *)
Theorem C09_ratio_is_reduced :
  forall d, 0 <= nfd d ->
    let '(n, m) := ratio_spec d in 0 < m /\ n * 10 ^ nfd d = coeff d * m /\ Z.gcd n m = 1.
Proof. exact ratio_spec_reduced. Qed.
Check C09_ratio_is_reduced :
  forall d, 0 <= nfd d ->
    let '(n, m) := ratio_spec d in 0 < m /\ n * 10 ^ nfd d = coeff d * m /\ Z.gcd n m = 1.
Print Assumptions C09_ratio_is_reduced.

Theorem C09_reduced_fraction_unique :
  forall a b c d, 0 < b -> 0 < d -> Z.gcd a b = 1 -> Z.gcd c d = 1 -> a * d = c * b -> a = c /\ b = d.
Proof. exact reduced_unique. Qed.
Check C09_reduced_fraction_unique :
  forall a b c d, 0 < b -> 0 < d -> Z.gcd a b = 1 -> Z.gcd c d = 1 -> a * d = c * b -> a = c /\ b = d.
Print Assumptions C09_reduced_fraction_unique.

(* Decimals that compare equal feed identical data to any Hasher (the data of their
   (numerator, denominator) pair) *)
Theorem C09_hash_agrees_with_equality :
  forall pf x y, wf x = true -> wf y = true -> cmp_spec x y = Eq -> hash_feed pf x = hash_feed pf y.
Proof. exact hash_agrees_with_eq. Qed.
Check C09_hash_agrees_with_equality :
  forall pf x y, wf x = true -> wf y = true -> cmp_spec x y = Eq -> hash_feed pf x = hash_feed pf y.
Print Assumptions C09_hash_agrees_with_equality.

Theorem C09_accepted : forall pf d, wf d = true -> acc_ratio d (run_ratio pf d) = true.
Proof. exact ratio_acc. Qed.
Check C09_accepted : forall pf d, wf d = true -> acc_ratio d (run_ratio pf d) = true.
Print Assumptions C09_accepted.

Example C09_nonvacuous :
  as_integer_ratio dev (mkdec (5 ^ 28) 10) = Val (5 ^ 18, 2 ^ 10) /\
  as_integer_ratio dev (mkdec 700 2) = Val (7, 1) /\
  as_integer_ratio release (mkdec (- (2 ^ 126)) 18) = Val (- (2 ^ 108), 5 ^ 18) /\
  hash_feed dev (mkdec 34 1) = hash_feed dev (mkdec 3400 3).
Proof. vm_compute. repeat split. Qed.

(* ---- src/as_integer_ratio.rs as translated from /repo's current source (gen/GenDec.v): the binary gcd and the reduced
   fraction; impl Hash for Decimal feeds exactly this pair to the hasher (the generic fn hash itself is not translated) ---- *)
From FP Require Import GenDec GenTieDecRatio.

Theorem C09_source_gcd_special :
  forall pf c e, c <> 0 -> - MAXC <= c <= MAXC -> 0 <= e <= 18 ->
    g_gcd_special pf c e = Val (Z.gcd c (10 ^ e)).
Proof. exact src_gcd_special. Qed.
Check C09_source_gcd_special :
  forall pf c e, c <> 0 -> - MAXC <= c <= MAXC -> 0 <= e <= 18 ->
    g_gcd_special pf c e = Val (Z.gcd c (10 ^ e)).
Print Assumptions C09_source_gcd_special.

Theorem C09_source_ratio_equals_spec :
  forall pf d, wf d = true -> g_AsIntegerRatio_as_integer_ratio pf d = Val (ratio_spec d).
Proof. exact src_ratio_equals_spec. Qed.
Check C09_source_ratio_equals_spec :
  forall pf d, wf d = true -> g_AsIntegerRatio_as_integer_ratio pf d = Val (ratio_spec d).
Print Assumptions C09_source_ratio_equals_spec.
