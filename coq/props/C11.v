(* C11 — formatting with precision, width, fill, alignment and sign flags is correct. *)
From FP Require Import Machine SrcConsts Pow10 Rounding Format Out ArithSpec StringSpec Run RunMore.
From FP Require Import MachineFacts FormatFacts.

(* Display::fmt equals the specification for every well-formed Decimal, every mode,
   every formatter state (fill, alignment, +, #, 0, width, precision >= 0) and every
   profile: d rounded to min(P, 18) digits under the mode (zero-extended when P exceeds
   d's digits), the sign taken from d, then Rust's integer padding *)
Theorem C11_display_equals_spec :
  forall pf m fs d, wf d = true -> (forall P, f_prec fs = Some P -> 0 <= P) ->
    display pf m fs d = Val (fmt_spec m (conv fs) d).
Proof. exact display_spec. Qed.
Check C11_display_equals_spec :
  forall pf m fs d, wf d = true -> (forall P, f_prec fs = Some P -> 0 <= P) ->
    display pf m fs d = Val (fmt_spec m (conv fs) d).
Print Assumptions C11_display_equals_spec.

Theorem C11_accepted :
  forall pf m fill a plus alt zero w p d, wf d = true ->
    acc_fmt m fill a plus alt zero w p d (run_fmt pf m fill a plus alt zero w p d) = true.
Proof. exact fmt_acc. Qed.
Check C11_accepted :
  forall pf m fill a plus alt zero w p d, wf d = true ->
    acc_fmt m fill a plus alt zero w p d (run_fmt pf m fill a plus alt zero w p d) = true.
Print Assumptions C11_accepted.

(* the model of core::fmt's pad_integral equals the declarative padding rules *)
Theorem C11_padding :
  forall fs nonneg buf,
    pad_integral fs nonneg buf =
    pad_spec (conv fs) (if negb nonneg then [45] else if f_plus fs then [43] else []) buf.
Proof. exact pad_integral_spec. Qed.
Check C11_padding :
  forall fs nonneg buf,
    pad_integral fs nonneg buf =
    pad_spec (conv fs) (if negb nonneg then [45] else if f_plus fs then [43] else []) buf.
Print Assumptions C11_padding.

(* the padding model alone, on a plain i128 with the same flags (this is how core::fmt's pad_integral,
   which is modelled and not verified, is tied to the implementation: protocol lines fmt.<id>.i) *)
Theorem C11_int_padding_accepted :
  forall fill a plus alt zero w c, - 2 ^ 127 < c < 2 ^ 127 ->
    acc_fmt_int fill a plus alt zero w c (run_fmt_int fill a plus alt zero w c) = true.
Proof. exact fmt_int_acc. Qed.
Check C11_int_padding_accepted :
  forall fill a plus alt zero w c, - 2 ^ 127 < c < 2 ^ 127 ->
    acc_fmt_int fill a plus alt zero w c (run_fmt_int fill a plus alt zero w c) = true.
Print Assumptions C11_int_padding_accepted.

(* exactly p digits after the point *)
Theorem C11_fraction_digit_count :
  forall w v, 0 <= v < 10 ^ w -> 0 < w <= 45 -> Z.of_nat (length (fixed_digits w v)) = w.
Proof. exact fixed_digits_length. Qed.
Check C11_fraction_digit_count :
  forall w v, 0 <= v < 10 ^ w -> 0 < w <= 45 -> Z.of_nat (length (fixed_digits w v)) = w.
Print Assumptions C11_fraction_digit_count.

Example C11_nonvacuous :
  display dev RFloor (mkfmt [32] AUnknown false false false None (Some 2)) (mkdec (-12341) 3)
    = Val [45; 49; 50; 46; 51; 53] /\
  display dev RHalfEven (mkfmt [42] ACenter true false false (Some 9) (Some 1)) (mkdec 9995 3)
    = Val [42; 42; 43; 49; 48; 46; 48; 42; 42] /\
  display release RHalfEven (mkfmt [32] AUnknown false false true (Some 8) (Some 19)) (mkdec (-42) 0)
    = Val ([45; 52; 50; 46] ++ repeat 48 18).
Proof. vm_compute. repeat split. Qed.
