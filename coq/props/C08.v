(* C08 — equality and ordering are by numeric value and form a total order. *)
From FP Require Import Machine SrcConsts Pow10 Cmp Out ArithSpec Run.
From FP Require Import MachineFacts CmpFacts.

(* partial_cmp is Some(comparison of the exact values) - never None, so cmp's
   unwrap never panics - and == is equality of the exact values; for every pair
   of well-formed Decimals, including pairs whose scale alignment overflows. *)
Theorem C08_partial_cmp_is_value_order :
  forall x y, wf x = true -> wf y = true ->
    dec_partial_cmp x y = Val (Some (cmp_spec x y)) /\ dec_eq x y = Val (eq_spec x y).
Proof. intros x y Hx Hy. split; [exact (partial_cmp_spec x y Hx Hy)|exact (eq_model_spec x y Hx Hy)]. Qed.
Check C08_partial_cmp_is_value_order :
  forall x y, wf x = true -> wf y = true ->
    dec_partial_cmp x y = Val (Some (cmp_spec x y)) /\ dec_eq x y = Val (eq_spec x y).
Print Assumptions C08_partial_cmp_is_value_order.

(* ==, !=, <, <=, >, >=, cmp, partial_cmp, min, max all agree with the value order *)
Theorem C08_all_comparisons_accepted :
  forall pf m op x y, wf x = true -> wf y = true ->
    In op [Beq; Bne; Blt; Ble; Bgt; Bge; Bcmp; Bpcmp; Bmin; Bmax] ->
    acc_dd m op x y 0 (run_dd pf m op x y 0) = true.
Proof. exact cmp_acc. Qed.
Check C08_all_comparisons_accepted :
  forall pf m op x y, wf x = true -> wf y = true ->
    In op [Beq; Bne; Blt; Ble; Bgt; Bge; Bcmp; Bpcmp; Bmin; Bmax] ->
    acc_dd m op x y 0 (run_dd pf m op x y 0) = true.
Print Assumptions C08_all_comparisons_accepted.

(* a primitive integer in either position, every value of every supported type
   (signed: any integer; unsigned: any non-negative integer), including i128::MIN
   and values whose scaling overflows *)
Theorem C08_integer_comparisons :
  forall pf m op t d i, wf d = true -> (signed t = false -> 0 <= i) ->
    In op [Beq; Bne; Blt; Ble; Bgt; Bge; Bpcmp] ->
    acc_di m op d i 0 (run_di pf m op t d i 0) = true /\
    acc_id m op i d 0 (run_id pf m op t i d 0) = true.
Proof. exact int_cmp_acc. Qed.
Check C08_integer_comparisons :
  forall pf m op t d i, wf d = true -> (signed t = false -> 0 <= i) ->
    In op [Beq; Bne; Blt; Ble; Bgt; Bge; Bpcmp] ->
    acc_di m op d i 0 (run_di pf m op t d i 0) = true /\
    acc_id m op i d 0 (run_id pf m op t i d 0) = true.
Print Assumptions C08_integer_comparisons.

(* the value order is reflexive, antisymmetric and transitive *)
Theorem C08_order_laws :
  (forall x, cmp_spec x x = Eq) /\
  (forall x y, cmp_spec y x = CompOpp (cmp_spec x y)) /\
  (forall x y z, 0 <= nfd x -> 0 <= nfd y -> 0 <= nfd z ->
     cmp_spec x y = Lt -> cmp_spec y z = Lt -> cmp_spec x z = Lt) /\
  (forall x y z, 0 <= nfd x -> 0 <= nfd y -> 0 <= nfd z ->
     cmp_spec x y = Eq -> cmp_spec y z = Eq -> cmp_spec x z = Eq).
Proof. exact (conj cmp_spec_refl (conj cmp_spec_antisym (conj cmp_spec_trans cmp_spec_eq_trans))). Qed.
Check C08_order_laws :
  (forall x, cmp_spec x x = Eq) /\
  (forall x y, cmp_spec y x = CompOpp (cmp_spec x y)) /\
  (forall x y z, 0 <= nfd x -> 0 <= nfd y -> 0 <= nfd z ->
     cmp_spec x y = Lt -> cmp_spec y z = Lt -> cmp_spec x z = Lt) /\
  (forall x y z, 0 <= nfd x -> 0 <= nfd y -> 0 <= nfd z ->
     cmp_spec x y = Eq -> cmp_spec y z = Eq -> cmp_spec x z = Eq).
Print Assumptions C08_order_laws.

Example C08_nonvacuous :
  wf (mkdec 1 18) = true /\ wf (mkdec (- MAXC) 0) = true /\
  dec_partial_cmp (mkdec 1 18) (mkdec (- MAXC) 0) = Val (Some Gt) /\
  dec_partial_cmp (mkdec (- MAXC) 0) (mkdec 1 18) = Val (Some Lt) /\
  dec_eq (mkdec 0 0) (mkdec 0 7) = Val true /\
  id_partial_cmp I128 MAXC (mkdec 15 1) = Val (Some Gt).
Proof. vm_compute. repeat split. Qed.
