(* C02 — multiplication is exact up to 18 digits, else correctly rounded. *)
From FP Require Import Machine SrcConsts Pow10 WideDiv Rounding Arith IntForms RoundSpec Out ArithSpec Run.
From FP Require Import MachineFacts KernelContract MulFacts WideDivFacts.

(* x * y and checked_mul, every pair of well-formed Decimals, every mode and profile:
   zero / one short-cuts, exact product with p+q digits when p+q <= 18 (or overflow),
   otherwise the exact product rounded once to 18 digits - also when the 256-bit
   product exceeds the i128 - or the failure signal when that is not representable;
   checked_mul never rounds and never panics *)
Theorem C02_mul_accepted :
  forall pf m x y, wf x = true -> wf y = true ->
    acc_dd m Bmul x y 0 (run_dd pf m Bmul x y 0) = true /\
    acc_dd m Bcmul x y 0 (run_dd pf m Bcmul x y 0) = true.
Proof. exact (mul_acc i256_contract_holds). Qed.
Check C02_mul_accepted :
  forall pf m x y, wf x = true -> wf y = true ->
    acc_dd m Bmul x y 0 (run_dd pf m Bmul x y 0) = true /\
    acc_dd m Bcmul x y 0 (run_dd pf m Bcmul x y 0) = true.
Print Assumptions C02_mul_accepted.

(* Decimal by integer (either side), any Decimal and any integer: exact with the
   Decimal's scale, panic / None iff the product leaves the i128 *)
Theorem C02_integer_operands :
  forall pf m t d i,
    acc_di m Bmul d i 0 (run_di pf m Bmul t d i 0) = true /\
    acc_di m Bcmul d i 0 (run_di pf m Bcmul t d i 0) = true /\
    acc_id m Bmul i d 0 (run_id pf m Bmul t i d 0) = true /\
    acc_id m Bcmul i d 0 (run_id pf m Bcmul t i d 0) = true.
Proof. exact mul_int_acc. Qed.
Check C02_integer_operands :
  forall pf m t d i,
    acc_di m Bmul d i 0 (run_di pf m Bmul t d i 0) = true /\
    acc_di m Bcmul d i 0 (run_di pf m Bcmul t d i 0) = true /\
    acc_id m Bmul i d 0 (run_id pf m Bmul t i d 0) = true /\
    acc_id m Bcmul i d 0 (run_id pf m Bcmul t i d 0) = true.
Print Assumptions C02_integer_operands.

(* the rounded 256-bit path in isolation *)
Theorem C02_wide_product_rounded :
  forall pf m x y p, - MAXC <= x <= MAXC -> - MAXC <= y <= MAXC -> 0 <= p <= 38 ->
    exists o, i128_mul_div_ten_pow_rounded pf x y p m = Val o /\ rounded_ok (rnd m (x * y) (10 ^ p)) o.
Proof. exact (mdr_ok i256_contract_holds). Qed.
Check C02_wide_product_rounded :
  forall pf m x y p, - MAXC <= x <= MAXC -> - MAXC <= y <= MAXC -> 0 <= p <= 38 ->
    exists o, i128_mul_div_ten_pow_rounded pf x y p m = Val o /\ rounded_ok (rnd m (x * y) (10 ^ p)) o.
Print Assumptions C02_wide_product_rounded.

Example C02_nonvacuous :
  wf (mkdec (-12345678901234567890123457) 18) = true /\
  dec_mul dev RFloor (mkdec (-12345678901234567890123457) 18) (mkdec 98765432109876543210987653 18)
    = Val (mkdec (-1219326311370217952261850331867094) 18) /\
  dec_mul release RUp (mkdec (10 ^ 20 + 1) 10) (mkdec (10 ^ 20 + 3) 10) = Val (mkdec 100000000000000000004000000000000000001 18) /\
  dec_checked_mul dev (mkdec 3 10) (mkdec 3 10) = Val None /\
  dec_mul dev RHalfEven (mkdec (10 ^ 10) 10) (mkdec MAXC 0) = Val (mkdec MAXC 0).
Proof. vm_compute. repeat split. Qed.
