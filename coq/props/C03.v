(* C03 — division yields the quotient correctly rounded to 18 fractional digits. *)
From FP Require Import Machine SrcConsts Pow10 WideDiv Rounding Arith IntForms RoundSpec Out ArithSpec Run.
From FP Require Import MachineFacts KernelContract DivFacts WideDivFacts.

Theorem C03_div_accepted :
  forall pf m x y, wf x = true -> wf y = true ->
    acc_dd m Bdiv x y 0 (run_dd pf m Bdiv x y 0) = true /\
    acc_dd m Bcdiv x y 0 (run_dd pf m Bcdiv x y 0) = true.
Proof. exact (div_acc sdmf_contract_holds). Qed.
Check C03_div_accepted :
  forall pf m x y, wf x = true -> wf y = true ->
    acc_dd m Bdiv x y 0 (run_dd pf m Bdiv x y 0) = true /\
    acc_dd m Bcdiv x y 0 (run_dd pf m Bcdiv x y 0) = true.
Print Assumptions C03_div_accepted.

Theorem C03_integer_operands :
  forall pf m t d i, wf d = true -> - MAXC <= i <= MAXC ->
    acc_di m Bdiv d i 0 (run_di pf m Bdiv t d i 0) = true /\
    acc_di m Bcdiv d i 0 (run_di pf m Bcdiv t d i 0) = true /\
    acc_id m Bdiv i d 0 (run_id pf m Bdiv t i d 0) = true /\
    acc_id m Bcdiv i d 0 (run_id pf m Bcdiv t i d 0) = true.
Proof. exact (div_int_acc sdmf_contract_holds). Qed.
Check C03_integer_operands :
  forall pf m t d i, wf d = true -> - MAXC <= i <= MAXC ->
    acc_di m Bdiv d i 0 (run_di pf m Bdiv t d i 0) = true /\
    acc_di m Bcdiv d i 0 (run_di pf m Bcdiv t d i 0) = true /\
    acc_id m Bdiv i d 0 (run_id pf m Bdiv t i d 0) = true /\
    acc_id m Bcdiv i d 0 (run_id pf m Bcdiv t i d 0) = true.
Print Assumptions C03_integer_operands.

(* one rounding of the exact quotient in all three scaling branches (equal scale,
   dividend scaled incl. the 256-bit fall-back, divisor scaled with the sticky bit) *)
Theorem C03_single_rounding :
  forall pf m cx px cy py n,
    - MAXC <= cx <= MAXC -> - MAXC <= cy <= MAXC -> cy <> 0 ->
    0 <= px <= 18 -> 0 <= py <= 18 -> 0 <= n <= 18 ->
    exists o, checked_div_rounded pf m cx px cy py n = Val o /\
              rounded_ok (rndq m (cx * 10 ^ (n + py)) (cy * 10 ^ px)) o.
Proof. exact (checked_div_rounded_ok sdmf_contract_holds). Qed.
Check C03_single_rounding :
  forall pf m cx px cy py n,
    - MAXC <= cx <= MAXC -> - MAXC <= cy <= MAXC -> cy <> 0 ->
    0 <= px <= 18 -> 0 <= py <= 18 -> 0 <= n <= 18 ->
    exists o, checked_div_rounded pf m cx px cy py n = Val o /\
              rounded_ok (rndq m (cx * 10 ^ (n + py)) (cy * 10 ^ px)) o.
Print Assumptions C03_single_rounding.

(* normalisation strips exactly the trailing fractional zeros *)
Theorem C03_normalize :
  forall c n, - 2 ^ 127 <= c < 2 ^ 127 -> 0 <= n <= 18 ->
    normalize c n = Val (let d := normal c n in (coeff d, nfd d)).
Proof. exact normalize_ok. Qed.
Check C03_normalize :
  forall c n, - 2 ^ 127 <= c < 2 ^ 127 -> 0 <= n <= 18 ->
    normalize c n = Val (let d := normal c n in (coeff d, nfd d)).
Print Assumptions C03_normalize.

Example C03_nonvacuous :
  wf (mkdec (- 10 ^ 21) 0) = true /\
  dec_div dev RFloor (mkdec (- 10 ^ 21) 0) (mkdec 10 0) = Val (mkdec (- 10 ^ 20) 0) /\
  dec_div release RUp (mkdec (-3 * 10 ^ 20) 0) (mkdec (4 * 10 ^ 20) 0) = Val (mkdec (-75) 2) /\
  dec_checked_div dev RHalfEven (mkdec (MAXC - 680) 0) (mkdec (10 ^ 36 - 4) 18) = Val None /\
  dec_div dev RHalfEven (mkdec 1 0) (mkdec 3 0) = Val (mkdec 333333333333333333 18) /\
  dec_div dev RHalfEven (mkdec 7 0) (mkdec 0 3) = Panic.
Proof. vm_compute. repeat split. Qed.
