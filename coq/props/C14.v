(* C14 — integer conversions are exact and total with precise error kinds. *)
From FP Require Import Machine SrcConsts Pow10 IntForms Out ArithSpec Run.
From FP Require Import MachineFacts UnopsFacts.

(* T::try_from(d), T any of the ten primitive integer types: Ok(v) exactly when d's
   value is the integer v in T's range, NotAnIntValue when the value is not integral
   (whatever its range), ValueOutOfRange when integral but outside T *)
Theorem C14_try_from_decimal :
  forall t d, wf d = true ->
    out_toint (to_int t d) = out_toint_s (to_int_spec t d).
Proof. exact to_int_model_spec. Qed.
Check C14_try_from_decimal :
  forall t d, wf d = true ->
    out_toint (to_int t d) = out_toint_s (to_int_spec t d).
Print Assumptions C14_try_from_decimal.

Theorem C14_accepted :
  forall pf m t d, wf d = true ->
    acc_un m (Utoint t) d 0 (run_un pf m (Utoint t) d 0) = true.
Proof. exact toint_acc. Qed.
Check C14_accepted :
  forall pf m t d, wf d = true ->
    acc_un m (Utoint t) d 0 (run_un pf m (Utoint t) d 0) = true.
Print Assumptions C14_accepted.

(* Decimal::from(i) is (i, 0); u128 via try_from fails with InternalOverflow above i128::MAX *)
Theorem C14_from_integers :
  (forall i, acc_fromint i (run_fromint i) = true) /\
  (forall u, 0 <= u -> acc_fromu128 u (run_fromu128 u) = true).
Proof. exact (conj fromint_acc fromu128_acc). Qed.
Check C14_from_integers :
  (forall i, acc_fromint i (run_fromint i) = true) /\
  (forall u, 0 <= u -> acc_fromu128 u (run_fromu128 u) = true).
Print Assumptions C14_from_integers.

Example C14_nonvacuous :
  wf (mkdec 3005 1) = true /\
  out_toint (to_int U8 (mkdec 3005 1)) = OE E_NOTINT /\
  out_toint (to_int U8 (mkdec 3000 1)) = OE E_RANGE /\
  out_toint (to_int U8 (mkdec 2550 1)) = OI 255 /\
  out_toint (to_int I64 (mkdec (- 2 ^ 63 * 1000) 3)) = OI (- 2 ^ 63).
Proof. vm_compute. repeat split. Qed.

(* ---- the conversions as translated from /repo's current source (gen/GenConv.v): TryFrom<Decimal> for the nine
   integer types that go through i128 (src_try_from_decimal dispatches on the type tag), TryFrom<Decimal> for i128 itself
   (equal to the model function the theorems above are about), TryFrom<u128> for Decimal ---- *)
From FP Require Import GenDec GenConv GenTieConv.

Theorem C14_source_try_from_decimal_accepted :
  forall pf m t d, In t [U8; I8; U16; I16; U32; I32; U64; I64; U128] -> wf d = true ->
    acc_un m (Utoint t) d 0 (src_out_toint (src_try_from_decimal t pf d)) = true.
Proof. exact src_toint_acc. Qed.
Check C14_source_try_from_decimal_accepted :
  forall pf m t d, In t [U8; I8; U16; I16; U32; I32; U64; I64; U128] -> wf d = true ->
    acc_un m (Utoint t) d 0 (src_out_toint (src_try_from_decimal t pf d)) = true.
Print Assumptions C14_source_try_from_decimal_accepted.

Theorem C14_source_try_from_decimal_i128 :
  forall pf d, g_TryFrom_by_i128_try_from pf d = (r <- to_i128 d ;; Val (conv_res r)).
Proof. exact tie_to_i128. Qed.
Check C14_source_try_from_decimal_i128 :
  forall pf d, g_TryFrom_by_i128_try_from pf d = (r <- to_i128 d ;; Val (conv_res r)).
Print Assumptions C14_source_try_from_decimal_i128.

Theorem C14_source_try_from_u128_accepted :
  forall pf u, 0 <= u ->
    acc_fromu128 u (of_res (fun s => match s with inl d => OV d | inr _ => OE E_OVERFLOW end) (g_TryFrom_u128_try_from pf u)) = true.
Proof. exact src_fromu128_acc. Qed.
Check C14_source_try_from_u128_accepted :
  forall pf u, 0 <= u ->
    acc_fromu128 u (of_res (fun s => match s with inl d => OV d | inr _ => OE E_OVERFLOW end) (g_TryFrom_u128_try_from pf u)) = true.
Print Assumptions C14_source_try_from_u128_accepted.
