(* C13 — f64/f32 to Decimal yields the nearest 18-digit Decimal or a precise error. *)
From FP Require Import Machine SrcConsts Pow10 Arith Floats RoundSpec Out ArithSpec FloatSpec Run RunMore.
From FP Require Import MachineFacts FromFloatFacts.

(* For every bit pattern of either format (normal, subnormal, zero, infinite, NaN) and
   every build profile TryFrom returns - never panics - and returns what the
   specification prescribes: NotANumber, InfiniteValue, InternalOverflow, or the exact
   value sign*m*2^e rounded half-to-even to 18 fractional digits in normal form *)
Theorem C13_from_float_equals_spec :
  forall pf is64 bits, 0 <= bits < 2 ^ (if is64 : bool then 64 else 32) ->
    acc_fromfloat is64 bits (run_fromfloat pf is64 bits) = true.
Proof. exact from_float_acc. Qed.
Check C13_from_float_equals_spec :
  forall pf is64 bits, 0 <= bits < 2 ^ (if is64 : bool then 64 else 32) ->
    acc_fromfloat is64 bits (run_fromfloat pf is64 bits) = true.
Print Assumptions C13_from_float_equals_spec.

Theorem C13_f64 :
  forall pf bits, 0 <= bits < 2 ^ 64 ->
    try_from_float pf F64 bits = Val (conv_ffs (from_float_spec SF64 bits)).
Proof. intros pf bits H. exact (try_from_float_ok pf 64 52 1023 11 true bits fmt_ok_64 H). Qed.
Check C13_f64 :
  forall pf bits, 0 <= bits < 2 ^ 64 ->
    try_from_float pf F64 bits = Val (conv_ffs (from_float_spec SF64 bits)).
Print Assumptions C13_f64.

Theorem C13_f32 :
  forall pf bits, 0 <= bits < 2 ^ 32 ->
    try_from_float pf F32 bits = Val (conv_ffs (from_float_spec SF32 bits)).
Proof. intros pf bits H. exact (try_from_float_ok pf 32 23 127 8 false bits fmt_ok_32 H). Qed.
Check C13_f32 :
  forall pf bits, 0 <= bits < 2 ^ 32 ->
    try_from_float pf F32 bits = Val (conv_ffs (from_float_spec SF32 bits)).
Print Assumptions C13_f32.

(* the digit-generation loop bounded by three conditions: for every numerator below
   2^54 and every power-of-two denominator up to 2^126 it ends (fuel is never exhausted)
   with the 18-digit half-even rounding of the exact quotient in normal form; no
   intermediate product leaves the i128 range *)
Theorem C13_approx_rational :
  forall pf D k, 1 <= k <= 126 -> 0 < Z.abs D < 2 ^ 54 ->
    approx_rational pf D (2 ^ k) =
    Val (let d := normal (rnd RHalfEven (D * 10 ^ 18) (2 ^ k)) 18 in (coeff d, nfd d)).
Proof. exact approx_rational_ok. Qed.
Check C13_approx_rational :
  forall pf D k, 1 <= k <= 126 -> 0 < Z.abs D < 2 ^ 54 ->
    approx_rational pf D (2 ^ k) =
    Val (let d := normal (rnd RHalfEven (D * 10 ^ 18) (2 ^ k)) 18 in (coeff d, nfd d)).
Print Assumptions C13_approx_rational.

(* what an Ok result of the specification is: the half-even rounding r of value * 10^18,
   written with the fewest fractional digits (r = coeff * 10^(18 - n), and n = 0 or the
   last digit is not 0), inside the i128 range *)
Theorem C13_spec_meaning :
  forall num den d, 0 < den -> spec_tail num den = FSOk d ->
    let r := rnd RHalfEven (num * 10 ^ 18) den in
    coeff d * 10 ^ (18 - nfd d) = r /\ 0 <= nfd d <= 18 /\ (nfd d = 0 \/ coeff d mod 10 <> 0) /\
    in_range I128 (coeff d) = true.
Proof. exact spec_tail_meaning. Qed.
Check C13_spec_meaning :
  forall num den d, 0 < den -> spec_tail num den = FSOk d ->
    let r := rnd RHalfEven (num * 10 ^ 18) den in
    coeff d * 10 ^ (18 - nfd d) = r /\ 0 <= nfd d <= 18 /\ (nfd d = 0 \/ coeff d mod 10 <> 0) /\
    in_range I128 (coeff d) = true.
Print Assumptions C13_spec_meaning.

(* and that r is a nearest integer to value * 10^18 (value = num / den), the even one on a tie *)
Theorem C13_spec_nearest_even :
  forall num den, 0 < den ->
    let r := rnd RHalfEven (num * 10 ^ 18) den in
    2 * Z.abs (num * 10 ^ 18 - r * den) <= den /\
    (2 * Z.abs (num * 10 ^ 18 - r * den) = den -> Z.even r = true).
Proof. exact spec_round_nearest. Qed.
Check C13_spec_nearest_even :
  forall num den, 0 < den ->
    let r := rnd RHalfEven (num * 10 ^ 18) den in
    2 * Z.abs (num * 10 ^ 18 - r * den) <= den /\
    (2 * Z.abs (num * 10 ^ 18 - r * den) = den -> Z.even r = true).
Print Assumptions C13_spec_nearest_even.

(* 2^-19 = 0.0000019073486328125 has a 5 in the 19th place after an even digit: rounds
   down; 3 * 2^-19 rounds up; 0.1f64 is not exact; NaN, +inf, 2^127 *)
Example C13_nonvacuous :
  try_from_float dev F64 (Z.shiftl (1023 - 19) 52) = Val (FOk (mkdec 1907348632812 18)) /\
  try_from_float dev F64 (Z.shiftl (1023 - 18) 52 + 2 ^ 51) = Val (FOk (mkdec 5722045898438 18)) /\
  try_from_float release F64 4591870180066957722 = Val (FOk (mkdec 100000000000000006 18)) /\
  try_from_float dev F32 1056964608 = Val (FOk (mkdec 5 1)) /\
  try_from_float dev F64 (Z.shiftl 2047 52 + 1) = Val FNan /\
  try_from_float dev F64 (Z.shiftl 2047 52) = Val FInf /\
  try_from_float dev F64 (Z.shiftl (1023 + 127) 52) = Val FOverflow /\
  try_from_float dev F64 (2 ^ 63 + Z.shiftl (1023 + 126) 52) = Val (FOk (mkdec (- 2 ^ 126) 0)) /\
  try_from_float dev F64 1 = Val (FOk (mkdec 0 0)).
Proof. vm_compute. repeat split. Qed.
